/-
  C18 — determinism: helper lemmas (three parts).

  C18, part 1 — public-input rows.

  * `Built m` : the composer computation `m` is built from the four primitive state transformers
    (`appendWitness`, `appendCustomGate`, `getVal`, `get`) by `pure` / `>>=` (and any host-side
    branching).  Every gadget of `Plonk/Model/Composer.lean` is `Built`.
  * `Composer.PisSorted c` : the recorded public-input rows are strictly increasing and smaller
    than the number of gates.  It holds for the empty composer and is preserved by every `Built`
    computation.
  * hence sorting the (row, value) pairs is the identity, and feeding ANY permutation of them to
    the model's sorted insertion (`sortedPis'`, `sortedRows`) or to `mergeSort` gives back the
    insertion-ordered list.

  C18, part 2 — FFT: the three arms of the switch inside `bestFft` agree, the chunks of one stage
  (`par_chunks_mut(..).for_each`) may be processed in any order, and every transform of a domain
  equals the one computed through `serialFft` (the `alloc`-only build).

  C18, part 3 — the prover's loops and the compiler.

  * generic facts: a `map` over any chunking of the index range, with the chunks computed under any
    schedule, is the plain `map`; a tree reduction (`par_iter().sum()`) of field additions is the
    sequential fold;
  * `quotientEvals`, the numerators / denominators of `permVec` are index-wise maps, the
    accumulator of `permVec` is a sequential iteration;
  * `compileWith threads order` (explicit thread count in every transform, explicit visiting order
    of the witness map) equals `compile`; `proveWith threads` equals `prove`.
-/
import Plonk.Proofs.ShapeProg
import Plonk.Proofs.CompressModel
import Mathlib.Data.List.Sort
import Plonk.Proofs.FftDomain
import Plonk.Proofs.PermutationRelabel
import Plonk.Proofs.QuotientModel

namespace Plonk
namespace Det

section DetPi
open Plonk.Composer

/-! ### computations built from the primitive state transformers -/

/-- `m` only uses `appendWitness`, `appendCustomGate`, `getVal` and `get` on the composer state -/
inductive Built : {α : Type} → CM α → Prop
  | pure {α : Type} (a : α) : Built (Pure.pure a : CM α)
  | bind {α β : Type} {m : CM α} {k : α → CM β} : Built m → (∀ a, Built (k a)) → Built (m >>= k)
  | appendWitness (v : Nat) : Built (Composer.appendWitness v)
  | appendCustomGate (s : Constraint) : Built (Composer.appendCustomGate s)
  | getVal (w : Nat) : Built (Composer.getVal w)
  | get : Built (MonadState.get : CM Composer)

theorem bind_run {α β : Type} (m : CM α) (k : α → CM β) (c : Composer) :
    (m >>= k).run c = (k (m.run c).1).run (m.run c).2 := rfl

/-- an invariant of the two writing primitives is an invariant of every `Built` computation -/
theorem Built.preserves {P : Composer → Prop}
    (hw : ∀ v c, P c → P ((Composer.appendWitness v).run c).2)
    (hg : ∀ s c, P c → P ((Composer.appendCustomGate s).run c).2)
    {α : Type} {m : CM α} (h : Built m) : ∀ c, P c → P (m.run c).2 := by
  induction h with
  | pure a => intro c hc; exact hc
  | bind _ _ ih1 ih2 =>
    intro c hc
    rw [bind_run]
    exact ih2 _ _ (ih1 c hc)
  | appendWitness v => exact hw v
  | appendCustomGate s => exact hg s
  | getVal w => intro c hc; exact hc
  | get => intro c hc; exact hc

theorem Built.ite {α : Type} {p : Prop} [Decidable p] {a b : CM α} (ha : Built a) (hb : Built b) :
    Built (if p then a else b) := by
  split
  · exact ha
  · exact hb

/-- extensible closing tactic: one `macro_rules` per proved gadget -/
syntax "built_base" : tactic
macro_rules | `(tactic| built_base) => `(tactic| with_reducible exact Built.pure _)
macro_rules | `(tactic| built_base) => `(tactic| assumption)
macro_rules | `(tactic| built_base) => `(tactic| with_reducible exact Built.appendWitness _)
macro_rules | `(tactic| built_base) => `(tactic| with_reducible exact Built.appendCustomGate _)
macro_rules | `(tactic| built_base) => `(tactic| with_reducible exact Built.getVal _)
macro_rules | `(tactic| built_base) => `(tactic| with_reducible exact Built.get)

syntax "built_step" : tactic
macro_rules | `(tactic| built_step) => `(tactic| first
  | built_base
  | (with_reducible refine Built.bind ?_ (fun _ => ?_))
  | (with_reducible refine Built.ite ?_ ?_))

macro "built_tac" : tactic => `(tactic| repeat built_step)

/-! ### every gadget is `Built` -/

theorem built_appendGate (s : Constraint) : Built (appendGate s) := Built.appendCustomGate _
macro_rules | `(tactic| built_base) => `(tactic| with_reducible exact built_appendGate _)

theorem built_appendWitnesses : ∀ l : List Nat, Built (appendWitnesses l)
  | [] => Built.pure _
  | v :: vs => by
    unfold appendWitnesses
    exact .bind (.appendWitness v) fun _ => built_appendWitnesses vs
macro_rules | `(tactic| built_base) => `(tactic| with_reducible exact built_appendWitnesses _)

theorem built_appendCustomGates : ∀ l : List Constraint, Built (appendCustomGates l)
  | [] => Built.pure _
  | g :: gs => by
    unfold appendCustomGates
    exact .bind (.appendCustomGate g) fun _ => built_appendCustomGates gs
macro_rules | `(tactic| built_base) => `(tactic| with_reducible exact built_appendCustomGates _)

theorem built_appendEvaluatedOutput (s : Constraint) : Built (appendEvaluatedOutput s) := by
  unfold appendEvaluatedOutput
  refine .bind (.getVal _) fun a => .bind (.getVal _) fun b => .bind (.getVal _) fun d => ?_
  dsimp only
  split <;> built_tac
macro_rules | `(tactic| built_base) => `(tactic| with_reducible exact built_appendEvaluatedOutput _)

theorem built_gateAdd (s : Constraint) : Built (gateAdd s) := by
  unfold gateAdd
  refine .bind (built_appendEvaluatedOutput _) fun o => ?_
  cases o <;> exact .pure _
macro_rules | `(tactic| built_base) => `(tactic| with_reducible exact built_gateAdd _)

theorem built_gateMul (s : Constraint) : Built (gateMul s) := built_gateAdd s
macro_rules | `(tactic| built_base) => `(tactic| with_reducible exact built_gateMul _)

theorem built_assertEqual (a b : Nat) : Built (assertEqual a b) := built_appendGate _
macro_rules | `(tactic| built_base) => `(tactic| with_reducible exact built_assertEqual _ _)

theorem built_assertEqualConstant (a k : Nat) (p : Option Nat) : Built (assertEqualConstant a k p) :=
  built_appendGate _
macro_rules | `(tactic| built_base) => `(tactic| with_reducible exact built_assertEqualConstant _ _ _)

theorem built_appendConstant (v : Nat) : Built (appendConstant v) := by
  unfold appendConstant; built_tac
macro_rules | `(tactic| built_base) => `(tactic| with_reducible exact built_appendConstant _)

theorem built_appendPublic (v : Nat) : Built (appendPublic v) := by
  unfold appendPublic; built_tac
macro_rules | `(tactic| built_base) => `(tactic| with_reducible exact built_appendPublic _)

theorem built_appendDummyGates : Built appendDummyGates := by
  unfold appendDummyGates; built_tac

theorem built_componentBoolean (a : Nat) : Built (componentBoolean a) := built_appendGate _
macro_rules | `(tactic| built_base) => `(tactic| with_reducible exact built_componentBoolean _)

theorem built_componentDecomposition_go (v : Nat) : ∀ (k i acc : Nat) (bits : List Nat),
    Built (componentDecomposition.go v k i acc bits)
  | 0, _, _, _ => .pure _
  | k+1, i, acc, bits => by
    unfold componentDecomposition.go
    exact .bind (.appendWitness _) fun wb => .bind (built_componentBoolean _) fun _ =>
      .bind (built_gateAdd _) fun acc' => built_componentDecomposition_go v k (i+1) acc' _

theorem built_componentDecomposition (n scalar : Nat) : Built (componentDecomposition n scalar) := by
  unfold componentDecomposition
  refine .bind (.getVal _) fun v => .bind (built_componentDecomposition_go v n 0 _ _) ?_
  rintro ⟨acc, bits⟩
  built_tac
macro_rules | `(tactic| built_base) => `(tactic| with_reducible exact built_componentDecomposition _ _)

theorem built_componentSelect (bit a b : Nat) : Built (componentSelect bit a b) := by
  unfold componentSelect; built_tac
macro_rules | `(tactic| built_base) => `(tactic| with_reducible exact built_componentSelect _ _ _)

theorem built_componentSelectOne (bit value : Nat) : Built (componentSelectOne bit value) := by
  unfold componentSelectOne; built_tac
macro_rules | `(tactic| built_base) => `(tactic| with_reducible exact built_componentSelectOne _ _)

theorem built_componentSelectZero (bit value : Nat) : Built (componentSelectZero bit value) :=
  built_gateMul _
macro_rules | `(tactic| built_base) => `(tactic| with_reducible exact built_componentSelectZero _ _)

theorem built_rangeCheckEven (witness numBits : Nat) : Built (rangeCheckEven witness numBits) := by
  unfold rangeCheckEven
  built_tac
macro_rules | `(tactic| built_base) => `(tactic| with_reducible exact built_rangeCheckEven _ _)

theorem built_rangeCheck (value numBits : Nat) : Built (rangeCheck value numBits) := by
  unfold rangeCheck
  built_tac
macro_rules | `(tactic| built_base) => `(tactic| with_reducible exact built_rangeCheck _ _)

theorem built_componentRangeBits (bits witness : Nat) : Built (componentRangeBits bits witness) :=
  built_rangeCheck _ _

theorem built_componentRange (bitPairs witness : Nat) : Built (componentRange bitPairs witness) :=
  built_rangeCheckEven _ _

theorem built_assertCanonicalTruncation (high low numBits : Nat) :
    Built (assertCanonicalTruncation high low numBits) := by
  unfold assertCanonicalTruncation
  built_tac
macro_rules
  | `(tactic| built_base) => `(tactic| with_reducible exact built_assertCanonicalTruncation _ _ _)

theorem built_bindTruncationSplit (input low numBits : Nat) :
    Built (bindTruncationSplit input low numBits) := by
  unfold bindTruncationSplit
  built_tac
macro_rules
  | `(tactic| built_base) => `(tactic| with_reducible exact built_bindTruncationSplit _ _ _)

theorem built_componentTruncate (n witness : Nat) : Built (componentTruncate n witness) := by
  unfold componentTruncate
  built_tac
macro_rules | `(tactic| built_base) => `(tactic| with_reducible exact built_componentTruncate _ _)

theorem built_appendLogicComponent_go (pairs : Nat) (isXor : Bool) (av bv : Nat) :
    ∀ (k i : Nat) (s : Constraint) (la ra oa : Nat),
      Built (appendLogicComponent.go pairs isXor av bv k i s la ra oa)
  | 0, _, _, _, _, _ => .pure _
  | k+1, i, s, la, ra, oa => by
    unfold appendLogicComponent.go
    exact .bind (.appendWitness _) fun wa => .bind (.appendWitness _) fun wb =>
      .bind (.appendWitness _) fun wc => .bind (.appendWitness _) fun wd =>
      .bind (.appendCustomGate _) fun _ =>
        built_appendLogicComponent_go pairs isXor av bv k _ _ _ _ _

theorem built_appendLogicComponent (pairs a b : Nat) (isXor : Bool) :
    Built (appendLogicComponent pairs a b isXor) := by
  unfold appendLogicComponent
  refine .bind (.getVal _) fun av => .bind (.getVal _) fun bv =>
    .bind (built_appendLogicComponent_go pairs isXor av bv pairs 0 _ 0 0 0) fun s => ?_
  built_tac
macro_rules
  | `(tactic| built_base) => `(tactic| with_reducible exact built_appendLogicComponent _ _ _ _)

/-! ### point.rs / fixed_base.rs -/

theorem built_appendAffinePoint (p : Pt) : Built (appendAffinePoint p) := by
  unfold appendAffinePoint; built_tac
macro_rules | `(tactic| built_base) => `(tactic| with_reducible exact built_appendAffinePoint _)

theorem built_appendPoint (e : Ext) : Built (appendPoint e) := by
  unfold appendPoint
  split <;> built_tac

theorem built_appendConstantPoint (e : Ext) : Built (appendConstantPoint e) := by
  unfold appendConstantPoint
  split <;> built_tac

theorem built_appendPublicPoint (e : Ext) : Built (appendPublicPoint e) := by
  unfold appendPublicPoint
  split <;> built_tac

theorem built_assertEqualPoint (a b : Pt) : Built (assertEqualPoint a b) := by
  unfold assertEqualPoint; built_tac
macro_rules | `(tactic| built_base) => `(tactic| with_reducible exact built_assertEqualPoint _ _)

theorem built_assertEqualPublicPoint (p : Pt) (e : Ext) : Built (assertEqualPublicPoint p e) := by
  unfold assertEqualPublicPoint
  split <;> built_tac

theorem built_addPointGates (a b : Pt) : Built (addPointGates a b) := by
  unfold addPointGates; built_tac
macro_rules | `(tactic| built_base) => `(tactic| with_reducible exact built_addPointGates _ _)

theorem built_assertTorsionFreeGates (point q : Pt) : Built (assertTorsionFreeGates point q) := by
  unfold assertTorsionFreeGates; built_tac
macro_rules | `(tactic| built_base) => `(tactic| with_reducible exact built_assertTorsionFreeGates _ _)

theorem built_assertTorsionFreePoint (point : Pt) : Built (assertTorsionFreePoint point) := by
  unfold assertTorsionFreePoint; built_tac

theorem built_componentNegPoint (p : Pt) : Built (componentNegPoint p) := by
  unfold componentNegPoint; built_tac
macro_rules | `(tactic| built_base) => `(tactic| with_reducible exact built_componentNegPoint _)

theorem built_componentAddPoint (a b : Pt) : Built (componentAddPoint a b) := built_addPointGates a b
macro_rules | `(tactic| built_base) => `(tactic| with_reducible exact built_componentAddPoint _ _)

theorem built_componentSubPoint (a b : Pt) : Built (componentSubPoint a b) := by
  unfold componentSubPoint; built_tac

theorem built_selectIdentityGates (bit : Nat) (a : Pt) : Built (selectIdentityGates bit a) := by
  unfold selectIdentityGates; built_tac
macro_rules | `(tactic| built_base) => `(tactic| with_reducible exact built_selectIdentityGates _ _)

theorem built_componentSelectIdentity (bit : Nat) (a : Pt) : Built (componentSelectIdentity bit a) := by
  unfold componentSelectIdentity; built_tac

theorem built_componentSelectPoint (bit : Nat) (a b : Pt) : Built (componentSelectPoint bit a b) := by
  unfold componentSelectPoint; built_tac

theorem built_componentMulPoint_go (point : Pt) : ∀ (bs : List Nat) (r : Pt),
    Built (componentMulPoint.go point bs r)
  | [], _ => .pure _
  | b :: bs, r => by
    unfold componentMulPoint.go
    exact .bind (built_addPointGates _ _) fun r1 => .bind (built_selectIdentityGates _ _) fun p =>
      .bind (built_addPointGates _ _) fun r2 => built_componentMulPoint_go point bs r2

theorem built_componentMulPoint (jubjub : Nat) (point : Pt) : Built (componentMulPoint jubjub point) := by
  unfold componentMulPoint
  exact .bind (built_componentDecomposition _ _) fun bits => built_componentMulPoint_go point _ _

theorem built_assertCanonicalJubjubScalar (scalar : Nat) : Built (assertCanonicalJubjubScalar scalar) := by
  unfold assertCanonicalJubjubScalar; built_tac
macro_rules | `(tactic| built_base) => `(tactic| with_reducible exact built_assertCanonicalJubjubScalar _)

theorem built_appendFixedBaseSignedDigits (jubjub : Nat) (gen : Pt) (digits : List Int) :
    Built (appendFixedBaseSignedDigits jubjub gen digits) := by
  unfold appendFixedBaseSignedDigits
  built_tac
macro_rules
  | `(tactic| built_base) => `(tactic| with_reducible exact built_appendFixedBaseSignedDigits _ _ _)

theorem built_componentMulGenerator (jubjub : Nat) (gen : Ext) :
    Built (componentMulGenerator jubjub gen) := by
  unfold componentMulGenerator
  built_tac

/-! ### programs with early exit (`?`) -/

/-- a program in the error monad is built from the primitives -/
def BuiltE {α : Type} (m : CME α) : Prop := Built m.run

theorem BuiltE.pure {α : Type} (a : α) : BuiltE (Pure.pure a : CME α) := Built.pure _

theorem BuiltE.lift {α : Type} {m : CM α} (h : Built m) : BuiltE (liftM m : CME α) :=
  Built.bind h fun _ => Built.pure _

theorem BuiltE.mk {α : Type} {m : CM (Except CErr α)} (h : Built m) : BuiltE (ExceptT.mk m) := h

theorem BuiltE.bind {α β : Type} {m : CME α} {k : α → CME β} (hm : BuiltE m)
    (hk : ∀ a, BuiltE (k a)) : BuiltE (m >>= k) := by
  show Built (m.run >>= ExceptT.bindCont k)
  refine Built.bind hm fun r => ?_
  cases r with
  | ok a => exact hk a
  | error e => exact Built.pure _

theorem built_runSteps : ∀ {fs : List Step}, (∀ f ∈ fs, ∀ regs, BuiltE (f regs)) →
    ∀ regs, BuiltE (runSteps fs regs)
  | [], _, regs => BuiltE.pure _
  | f :: fs, h, regs => by
    unfold runSteps
    exact BuiltE.bind (h f List.mem_cons_self regs) fun out =>
      built_runSteps (fun g hg => h g (List.mem_cons_of_mem _ hg)) _

/-! ### the invariant -/

/-- the recorded public-input rows are strictly increasing and point at existing gates -/
def PisSorted (c : Composer) : Prop :=
  (c.pis.toList.map (·.1)).Pairwise (· < ·) ∧ ∀ r ∈ c.pis.toList.map (·.1), r < c.gates.size

theorem pisSorted_empty : PisSorted {} := by
  constructor <;> simp

theorem pisSorted_appendWitness (v : Nat) (c : Composer) (h : PisSorted c) :
    PisSorted ((Composer.appendWitness v).run c).2 := h

theorem pisSorted_appendCustomGate (s : Constraint) (c : Composer) (h : PisSorted c) :
    PisSorted ((Composer.appendCustomGate s).run c).2 := by
  obtain ⟨h1, h2⟩ := h
  show PisSorted { c with gates := c.gates.push s.toGate,
                          pis := if s.hasPi then c.pis.push (c.gates.size, s.pi) else c.pis }
  unfold PisSorted
  by_cases hp : s.hasPi = true
  · simp only [hp, if_true, Array.toList_push, List.map_append, List.map_cons, List.map_nil,
      Array.size_push]
    refine ⟨?_, ?_⟩
    · rw [List.pairwise_append]
      refine ⟨h1, List.pairwise_singleton _ _, ?_⟩
      intro a ha b hb
      rw [List.mem_singleton.1 hb]
      exact h2 a ha
    · intro r hr
      rcases List.mem_append.1 hr with h | h
      · have := h2 r h; omega
      · rw [List.mem_singleton.1 h]; omega
  · simp only [hp, Array.size_push]
    refine ⟨h1, fun r hr => ?_⟩
    have := h2 r hr
    simp only [Bool.false_eq_true, if_false] at hr ⊢
    have := h2 r hr
    omega

/-- **invariant**: every computation built from the primitives keeps the rows strictly increasing -/
theorem Built.pisSorted {α : Type} {m : CM α} (h : Built m) (c : Composer) (hc : PisSorted c) :
    PisSorted (m.run c).2 :=
  h.preserves pisSorted_appendWitness pisSorted_appendCustomGate c hc

/-- the starting state of every circuit (`Composer::initialized()`) -/
theorem pisSorted_initialized : PisSorted Composer.initialized := by
  unfold Composer.initialized
  refine Built.pisSorted ?_ _ pisSorted_empty
  built_tac
  exact built_appendDummyGates

theorem PisSorted.nodup_rows {c : Composer} (h : PisSorted c) : (c.pis.toList.map (·.1)).Nodup :=
  h.1.imp (fun h => Nat.ne_of_lt h)

/-! ### sorted insertion of (row, value) pairs -/

/-- the loop body of `sortedPis'` (`BTreeMap`-like insertion keyed by the row) -/
def insPair (acc : List (Nat × Nat)) (p : Nat × Nat) : List (Nat × Nat) :=
  let (lo, hi) := acc.partition (fun q => q.1 < p.1)
  lo ++ [p] ++ hi.filter (fun q => q.1 != p.1)

theorem sortedPis'_eq (c : Composer) :
    prove.Plonk.Driver.sortedPis' c = c.pis.toList.foldl insPair [] := rfl

theorem insPair_eq (acc : List (Nat × Nat)) (p : Nat × Nat) :
    insPair acc p = acc.filter (fun q => q.1 < p.1) ++ [p] ++
      (acc.filter (fun q => !decide (q.1 < p.1))).filter (fun q => q.1 != p.1) := by
  unfold insPair
  rw [List.partition_eq_filter_filter]
  rfl

/-- strict order of the rows -/
def RowLt (p q : Nat × Nat) : Prop := p.1 < q.1

theorem insPair_pairwise {acc : List (Nat × Nat)} (h : acc.Pairwise RowLt) (p : Nat × Nat) :
    (insPair acc p).Pairwise RowLt := by
  rw [insPair_eq, List.pairwise_append, List.pairwise_append]
  refine ⟨⟨h.sublist List.filter_sublist, List.pairwise_singleton _ _, ?_⟩,
    h.sublist (List.filter_sublist.trans List.filter_sublist), ?_⟩
  · intro a ha b hb
    simp only [List.mem_filter, decide_eq_true_eq] at ha
    rw [List.mem_singleton.1 hb]; exact ha.2
  · intro a ha b hb
    simp only [List.mem_filter, Bool.not_eq_true', decide_eq_false_iff_not, bne_iff_ne, ne_eq] at hb
    have hb' : p.1 < b.1 := by omega
    rcases List.mem_append.1 ha with h1 | h1
    · simp only [List.mem_filter, decide_eq_true_eq] at h1
      unfold RowLt; omega
    · rw [List.mem_singleton.1 h1]; exact hb'

theorem insPair_perm {acc : List (Nat × Nat)} {p : Nat × Nat} (hp : p.1 ∉ acc.map (·.1)) :
    (insPair acc p).Perm (p :: acc) := by
  rw [insPair_eq]
  have e : (acc.filter (fun q => !decide (q.1 < p.1))).filter (fun q => q.1 != p.1)
      = acc.filter (fun q => !decide (q.1 < p.1)) := by
    rw [List.filter_eq_self]
    intro a ha
    have ha' : a ∈ acc := (List.mem_filter.1 ha).1
    have : a.1 ≠ p.1 := fun he => hp (he ▸ List.mem_map_of_mem ha')
    simpa using this
  rw [e]
  have h1 : (acc.filter (fun q => q.1 < p.1) ++ [p] ++ acc.filter (fun q => !decide (q.1 < p.1))).Perm
      (p :: (acc.filter (fun q => q.1 < p.1) ++ acc.filter (fun q => !decide (q.1 < p.1)))) := by
    rw [List.append_assoc]
    exact List.perm_middle
  exact h1.trans (List.Perm.cons _ (List.filter_append_perm _ _))

theorem insFoldPair_spec (l : List (Nat × Nat)) : ∀ acc : List (Nat × Nat), acc.Pairwise RowLt →
    ((acc ++ l).map (·.1)).Nodup →
    (l.foldl insPair acc).Pairwise RowLt ∧ (l.foldl insPair acc).Perm (acc ++ l) := by
  induction l with
  | nil => intro acc h _; simpa using h
  | cons p rest ih =>
    intro acc h hnd
    have hp : p.1 ∉ acc.map (·.1) := by
      rw [List.map_append, List.map_cons] at hnd
      have := (List.nodup_append.1 hnd).2.2
      intro hmem
      exact this _ hmem _ List.mem_cons_self rfl
    have hperm := insPair_perm hp
    have hnd' : ((insPair acc p ++ rest).map (·.1)).Nodup := by
      have hq : (insPair acc p ++ rest).Perm (acc ++ p :: rest) :=
        (List.Perm.append_right rest hperm).trans
          (by simpa using (List.perm_middle (a := p) (l₁ := acc) (l₂ := rest)).symm)
      exact (hq.map _).nodup_iff.2 hnd
    obtain ⟨h1, h2⟩ := ih (insPair acc p) (insPair_pairwise h p) hnd'
    refine ⟨h1, ?_⟩
    rw [List.foldl_cons]
    exact h2.trans ((List.Perm.append_right rest hperm).trans
      (by simpa using (List.perm_middle (a := p) (l₁ := acc) (l₂ := rest)).symm))

theorem rowLt_nodup {L : List (Nat × Nat)} (hL : L.Pairwise RowLt) : (L.map (·.1)).Nodup := by
  rw [List.Nodup, List.pairwise_map]
  exact hL.imp (fun {a b : Nat × Nat} (h : RowLt a b) => Nat.ne_of_lt h)

theorem rowLt_antisymm (a b : Nat × Nat) (h1 : RowLt a b) (h2 : RowLt b a) : a = b := by
  unfold RowLt at h1 h2; omega

/-- **pairs**: inserting any permutation of a row-sorted list gives the row-sorted list -/
theorem insFoldPair_perm_sorted {L l' : List (Nat × Nat)} (hL : L.Pairwise RowLt) (hp : l'.Perm L) :
    l'.foldl insPair [] = L := by
  have hnd : (L.map (·.1)).Nodup := rowLt_nodup hL
  have hnd' : (([] ++ l').map (fun q : Nat × Nat => q.1)).Nodup := by
    simpa using (hp.map (fun q : Nat × Nat => q.1)).nodup_iff.2 hnd
  obtain ⟨h1, h2⟩ := insFoldPair_spec l' [] List.Pairwise.nil hnd'
  exact List.Perm.eq_of_pairwise (fun a b _ _ => rowLt_antisymm a b) h1 hL
    ((by simpa using h2 : (l'.foldl insPair []).Perm l').trans hp)

/-- **rows**: the same for the bare row indices (`sortedRows`) -/
theorem insFold_perm_sorted {L l' : List Nat} (hL : L.Pairwise (· < ·)) (hp : l'.Perm L) :
    l'.foldl CompressModel.insRow [] = L := by
  obtain ⟨h1, h2⟩ := CompressModel.insFold_spec l' [] List.Pairwise.nil
  refine List.Pairwise.eq_of_mem_iff h1 hL fun a => ?_
  rw [h2, hp.mem_iff]; simp

/-- **`mergeSort`** by row of any permutation gives the row-sorted list -/
theorem mergeSort_perm_sorted {L l' : List (Nat × Nat)} (hL : L.Pairwise RowLt) (hp : l'.Perm L) :
    l'.mergeSort (fun p q => decide (p.1 ≤ q.1)) = L := by
  have hs : (l'.mergeSort (fun p q => decide (p.1 ≤ q.1))).Pairwise
      (fun p q => decide (p.1 ≤ q.1) = true) :=
    List.pairwise_mergeSort (le := fun p q => decide (p.1 ≤ q.1))
      (fun a b c hab hbc => by simp only [decide_eq_true_eq] at *; omega)
      (fun a b => by simp only [Bool.or_eq_true, decide_eq_true_eq]; omega) l'
  have hL' : L.Pairwise (fun p q => decide (p.1 ≤ q.1) = true) :=
    hL.imp (fun {a b} h => by unfold RowLt at h; simp only [decide_eq_true_eq]; omega)
  have hnd : (L.map (·.1)).Nodup := rowLt_nodup hL
  refine List.Perm.eq_of_pairwise ?_ hs hL' ((List.mergeSort_perm l' _).trans hp)
  intro a b _ hb h1 h2
  simp only [decide_eq_true_eq] at h1 h2
  have hab : a.1 = b.1 := by omega
  have ha : a ∈ L := hp.mem_iff.1 ((List.mergeSort_perm l' _).mem_iff.1 ‹_›)
  exact List.inj_on_of_nodup_map hnd ha hb hab

end DetPi

section DetFft
open List

/-! ### folding in any order under an invariant -/

/-- if the steps commute on the states satisfying an invariant, the fold does not depend on the
    order in which the (same) items are visited -/
theorem foldl_perm_of_comm_inv {α β : Type} {f : β → α → β} (P : β → Prop)
    (hP : ∀ z x, P z → P (f z x)) {l₁ l₂ : List α} (p : l₁.Perm l₂)
    (comm : ∀ x ∈ l₁, ∀ y ∈ l₁, x ≠ y → ∀ z, P z → f (f z x) y = f (f z y) x) :
    ∀ init, P init → l₁.foldl f init = l₂.foldl f init := by
  induction p with
  | nil => intro _ _; rfl
  | cons x _ ih =>
    intro init h
    simp only [List.foldl_cons]
    exact ih (fun a ha b hb => comm a (List.mem_cons_of_mem _ ha) b (List.mem_cons_of_mem _ hb))
      _ (hP _ _ h)
  | swap x y l =>
    intro init h
    simp only [List.foldl_cons]
    by_cases hxy : x = y
    · subst hxy; rfl
    · rw [comm y (by simp) x (by simp) (fun e => hxy e.symm) init h]
  | trans p₁ _ ih₁ ih₂ =>
    intro init h
    rw [ih₁ comm init h]
    exact ih₂ (fun a ha b hb => comm a (p₁.mem_iff.2 ha) b (p₁.mem_iff.2 hb)) init h

/-! ### one chunk only touches its own index range -/

theorem brStep_size (lo m off wm : Nat) (st : Array Nat × Nat) (j : Nat) :
    (brStep lo m off wm st j).1.size = st.1.size := by
  obtain ⟨b, w⟩ := st
  simp [brStep]

theorem brState_size (a : Array Nat) (lo m off len wm w : Nat) :
    (brState a lo m off len wm w).1.size = a.size := by
  unfold brState
  induction len with
  | zero => rfl
  | succ len ih =>
    rw [List.range_succ, List.foldl_append]
    simp only [List.foldl_cons, List.foldl_nil]
    rw [brStep_size, ih]

theorem chunkVal_outside (a : Array Nat) (lo m wm idx : Nat) (h : idx < lo ∨ lo + 2 * m ≤ idx) :
    chunkVal a lo m wm m idx = a.getD idx 0 := by
  unfold chunkVal
  rw [if_neg (by omega), if_neg (by omega)]

theorem chunkVal_congr (a b : Array Nat) (lo m wm idx : Nat)
    (hab : ∀ j, lo ≤ j → j < lo + 2 * m → a.getD j 0 = b.getD j 0)
    (h1 : lo ≤ idx) (h2 : idx < lo + 2 * m) :
    chunkVal a lo m wm m idx = chunkVal b lo m wm m idx := by
  unfold chunkVal
  by_cases c1 : lo ≤ idx ∧ idx < lo + m
  · rw [if_pos c1, if_pos c1, hab idx h1 h2, hab (idx + m) (by omega) (by omega)]
  · rw [if_neg c1, if_neg c1]
    have c2 : lo + m ≤ idx ∧ idx < lo + m + m := by omega
    rw [if_pos c2, if_pos c2, hab idx h1 h2, hab (idx - m) (by omega) (by omega)]

/-- two butterfly chunks on disjoint index ranges commute -/
theorem butterflyChunk_comm (a : Array Nat) (lo1 lo2 m wm : Nat) (h1 : lo1 + 2 * m ≤ a.size)
    (h2 : lo2 + 2 * m ≤ a.size) (hd : lo1 + 2 * m ≤ lo2 ∨ lo2 + 2 * m ≤ lo1) :
    butterflyChunk (butterflyChunk a lo1 m wm) lo2 m wm
      = butterflyChunk (butterflyChunk a lo2 m wm) lo1 m wm := by
  obtain ⟨s1, g1⟩ := butterflyChunk_spec a lo1 m wm h1
  obtain ⟨s2, g2⟩ := butterflyChunk_spec a lo2 m wm h2
  obtain ⟨s12, g12⟩ := butterflyChunk_spec (butterflyChunk a lo1 m wm) lo2 m wm (by omega)
  obtain ⟨s21, g21⟩ := butterflyChunk_spec (butterflyChunk a lo2 m wm) lo1 m wm (by omega)
  apply array_ext_getD _ _ (by omega)
  intro idx _
  rw [g12, g21]
  by_cases c2 : lo2 ≤ idx ∧ idx < lo2 + 2 * m
  · -- inside chunk 2
    rw [chunkVal_outside _ lo1 m wm idx (by omega), g2]
    apply chunkVal_congr _ _ _ _ _ _ _ c2.1 c2.2
    intro j hj1 hj2
    rw [g1, chunkVal_outside _ lo1 m wm j (by omega)]
  · by_cases c1 : lo1 ≤ idx ∧ idx < lo1 + 2 * m
    · rw [chunkVal_outside _ lo2 m wm idx (by omega), g1]
      symm
      apply chunkVal_congr _ _ _ _ _ _ _ c1.1 c1.2
      intro j hj1 hj2
      rw [g2, chunkVal_outside _ lo2 m wm j (by omega)]
    · rw [chunkVal_outside _ lo2 m wm idx (by omega), chunkVal_outside _ lo1 m wm idx (by omega),
        g1, g2, chunkVal_outside _ lo1 m wm idx (by omega), chunkVal_outside _ lo2 m wm idx (by omega)]

theorem chunk_lo_disjoint (c1 c2 m : Nat) (h : c1 ≠ c2) :
    c1 * 2 * m + 2 * m ≤ c2 * 2 * m ∨ c2 * 2 * m + 2 * m ≤ c1 * 2 * m := by
  rcases Nat.lt_or_gt_of_ne h with h | h
  · left
    calc c1 * 2 * m + 2 * m = (c1 + 1) * (2 * m) := by ring
      _ ≤ c2 * (2 * m) := Nat.mul_le_mul_right _ h
      _ = c2 * 2 * m := by ring
  · right
    calc c2 * 2 * m + 2 * m = (c2 + 1) * (2 * m) := by ring
      _ ≤ c1 * (2 * m) := Nat.mul_le_mul_right _ h
      _ = c1 * 2 * m := by ring

theorem chunk_lo_bound (c cnt m size : Nat) (hc : c < cnt) (hb : cnt * (2 * m) ≤ size) :
    c * 2 * m + 2 * m ≤ size := by
  calc c * 2 * m + 2 * m = (c + 1) * (2 * m) := by ring
    _ ≤ cnt * (2 * m) := Nat.mul_le_mul_right _ hc
    _ ≤ size := hb

/-- **`par_chunks_mut(2m).for_each(butterfly_chunk)`**: the chunks of one stage can be processed in
    any order (any schedule that runs every chunk once) with the same result as the serial loop -/
theorem chunks_order_irrelevant (a : Array Nat) (m wm cnt : Nat) (hb : cnt * (2 * m) ≤ a.size)
    (order : List Nat) (hp : order.Perm (List.range cnt)) :
    order.foldl (fun a c => butterflyChunk a (c * 2 * m) m wm) a
      = (List.range cnt).foldl (fun a c => butterflyChunk a (c * 2 * m) m wm) a := by
  refine foldl_perm_of_comm_inv (fun z : Array Nat => z.size = a.size) ?_ hp ?_ a rfl
  · intro z c hz
    unfold butterflyChunk
    rw [butterflyRange_eq, brState_size, hz]
  · intro x hx y hy hxy z hz
    have hx' : x < cnt := List.mem_range.1 (hp.mem_iff.1 hx)
    have hy' : y < cnt := List.mem_range.1 (hp.mem_iff.1 hy)
    exact butterflyChunk_comm z _ _ m wm (by rw [hz]; exact chunk_lo_bound x cnt m _ hx' hb)
      (by rw [hz]; exact chunk_lo_bound y cnt m _ hy' hb) (chunk_lo_disjoint x y m hxy)

/-! ### the pieces of one `parallel_butterfly_chunk` -/

/-- running twiddle started from `w` -/
def twidW (w wm : Nat) : Nat → Nat
  | 0 => w
  | j + 1 => fmul (twidW w wm j) wm

/-- formula for the array after `butterflyRange a lo m off len wm w` -/
def rangeVal (a : Array Nat) (lo m wm off len w idx : Nat) : Nat :=
  if lo + off ≤ idx ∧ idx < lo + off + len then
    fadd (a.getD idx 0) (fmul (a.getD (idx + m) 0) (twidW w wm (idx - lo - off)))
  else if lo + m + off ≤ idx ∧ idx < lo + m + off + len then
    fsub (a.getD (idx - m) 0) (fmul (a.getD idx 0) (twidW w wm (idx - lo - m - off)))
  else a.getD idx 0

theorem brState_specW (a : Array Nat) (lo m wm off len w : Nat) (hlen : off + len ≤ m)
    (hb : lo + m + off + len ≤ a.size) :
    (brState a lo m off len wm w).2 = twidW w wm len ∧
    ∀ idx, (brState a lo m off len wm w).1.getD idx 0 = rangeVal a lo m wm off len w idx := by
  induction len with
  | zero =>
    refine ⟨rfl, ?_⟩
    intro idx
    unfold rangeVal
    rw [if_neg (by omega), if_neg (by omega)]; rfl
  | succ len ih =>
    obtain ⟨ih2, ih3⟩ := ih (by omega) (by omega)
    have ih1 := brState_size a lo m off len wm w
    unfold brState at ih1 ih2 ih3 ⊢
    rw [List.range_succ, List.foldl_append]
    simp only [List.foldl_cons, List.foldl_nil]
    generalize ((List.range len).foldl (brStep lo m off wm) (a, w)) = st at ih1 ih2 ih3 ⊢
    obtain ⟨b, w'⟩ := st
    simp only at ih1 ih2 ih3
    subst ih2
    simp only [brStep]
    refine ⟨rfl, ?_⟩
    intro idx
    rw [getD_setIfInBounds, getD_setIfInBounds]
    simp only [Array.size_setIfInBounds, ih1]
    have hli : b.getD (lo + off + len) 0 = a.getD (lo + off + len) 0 := by
      rw [ih3]; unfold rangeVal; rw [if_neg (by omega), if_neg (by omega)]
    have hri : b.getD (lo + m + off + len) 0 = a.getD (lo + m + off + len) 0 := by
      rw [ih3]; unfold rangeVal; rw [if_neg (by omega), if_neg (by omega)]
    rw [hli, hri]
    by_cases h1 : lo + off + len = idx
    · subst h1
      rw [if_pos ⟨rfl, by omega⟩]
      unfold rangeVal
      rw [if_pos (by omega)]
      have e1 : lo + off + len + m = lo + m + off + len := by omega
      have e2 : lo + off + len - lo - off = len := by omega
      rw [e1, e2]
    · rw [if_neg (by omega)]
      by_cases h2 : lo + m + off + len = idx
      · subst h2
        rw [if_pos ⟨rfl, by omega⟩]
        unfold rangeVal
        rw [if_neg (by omega), if_pos (by omega)]
        have e1 : lo + m + off + len - m = lo + off + len := by omega
        have e2 : lo + m + off + len - lo - m - off = len := by omega
        rw [e1, e2]
      · rw [if_neg (by omega), ih3]
        unfold rangeVal
        have c1 : (lo + off ≤ idx ∧ idx < lo + off + (len + 1)) ↔ (lo + off ≤ idx ∧ idx < lo + off + len) := by
          omega
        have c2 : (lo + m + off ≤ idx ∧ idx < lo + m + off + (len + 1))
            ↔ (lo + m + off ≤ idx ∧ idx < lo + m + off + len) := by omega
        simp only [c1, c2]

theorem butterflyRange_spec (a : Array Nat) (lo m wm off len w : Nat) (hlen : off + len ≤ m)
    (hb : lo + m + off + len ≤ a.size) :
    (butterflyRange a lo m off len wm w).size = a.size ∧
    ∀ idx, (butterflyRange a lo m off len wm w).getD idx 0 = rangeVal a lo m wm off len w idx := by
  rw [butterflyRange_eq]
  exact ⟨brState_size .., (brState_specW a lo m wm off len w hlen hb).2⟩

/-- the two index windows written (and read) by a piece -/
def InWin (lo m off len idx : Nat) : Prop :=
  (lo + off ≤ idx ∧ idx < lo + off + len) ∨ (lo + m + off ≤ idx ∧ idx < lo + m + off + len)

theorem rangeVal_outside (a : Array Nat) (lo m wm off len w idx : Nat) (h : ¬ InWin lo m off len idx) :
    rangeVal a lo m wm off len w idx = a.getD idx 0 := by
  unfold InWin at h
  unfold rangeVal
  rw [if_neg (by omega), if_neg (by omega)]

theorem rangeVal_congr (a b : Array Nat) (lo m wm off len w idx : Nat) (_hlen : off + len ≤ m)
    (hab : ∀ j, InWin lo m off len j → a.getD j 0 = b.getD j 0) (h : InWin lo m off len idx) :
    rangeVal a lo m wm off len w idx = rangeVal b lo m wm off len w idx := by
  unfold rangeVal
  by_cases c1 : lo + off ≤ idx ∧ idx < lo + off + len
  · rw [if_pos c1, if_pos c1, hab idx h, hab (idx + m) (Or.inr (by omega))]
  · rw [if_neg c1, if_neg c1]
    have c2 : lo + m + off ≤ idx ∧ idx < lo + m + off + len := by
      unfold InWin at h; omega
    rw [if_pos c2, if_pos c2, hab idx h, hab (idx - m) (Or.inl (by omega))]

/-- two pieces of the same chunk on disjoint offsets commute (whatever their start twiddles) -/
theorem butterflyRange_comm (a : Array Nat) (lo m wm o1 l1 w1 o2 l2 w2 : Nat) (hb : lo + 2 * m ≤ a.size)
    (h1 : o1 + l1 ≤ m) (h2 : o2 + l2 ≤ m) (hd : o1 + l1 ≤ o2 ∨ o2 + l2 ≤ o1) :
    butterflyRange (butterflyRange a lo m o1 l1 wm w1) lo m o2 l2 wm w2
      = butterflyRange (butterflyRange a lo m o2 l2 wm w2) lo m o1 l1 wm w1 := by
  obtain ⟨s1, g1⟩ := butterflyRange_spec a lo m wm o1 l1 w1 h1 (by omega)
  obtain ⟨s2, g2⟩ := butterflyRange_spec a lo m wm o2 l2 w2 h2 (by omega)
  obtain ⟨s12, g12⟩ := butterflyRange_spec (butterflyRange a lo m o1 l1 wm w1) lo m wm o2 l2 w2 h2
    (by omega)
  obtain ⟨s21, g21⟩ := butterflyRange_spec (butterflyRange a lo m o2 l2 wm w2) lo m wm o1 l1 w1 h1
    (by omega)
  have disj : ∀ j, InWin lo m o1 l1 j → ¬ InWin lo m o2 l2 j := by
    intro j hj1 hj2
    unfold InWin at hj1 hj2
    omega
  apply array_ext_getD _ _ (by omega)
  intro idx _
  rw [g12, g21]
  by_cases c2 : InWin lo m o2 l2 idx
  · rw [rangeVal_outside _ lo m wm o1 l1 w1 idx (fun h => disj idx h c2), g2]
    apply rangeVal_congr _ _ _ _ _ _ _ _ _ h2 _ c2
    intro j hj
    rw [g1, rangeVal_outside _ lo m wm o1 l1 w1 j (fun h => disj j h hj)]
  · by_cases c1 : InWin lo m o1 l1 idx
    · rw [rangeVal_outside _ lo m wm o2 l2 w2 idx c2, g1]
      symm
      apply rangeVal_congr _ _ _ _ _ _ _ _ _ h1 _ c1
      intro j hj
      rw [g2, rangeVal_outside _ lo m wm o2 l2 w2 j (disj j hj)]
    · rw [rangeVal_outside _ lo m wm o2 l2 w2 idx c2, rangeVal_outside _ lo m wm o1 l1 w1 idx c1,
        g1, g2, rangeVal_outside _ lo m wm o1 l1 w1 idx c1, rangeVal_outside _ lo m wm o2 l2 w2 idx c2]

/-- the seed of piece `r`, as the code computes the seed vector (sequentially, before the parallel loop) -/
def pieceSeed (wm L : Nat) (r : Nat) : Nat :=
  (List.range r).foldl (fun s _ => fmul s (fpow wm L)) (1 % R)

/-- the model's loop over the pieces is the loop that reads the precomputed seeds -/
theorem pb_fold_seeds (a : Array Nat) (lo m wm L c : Nat) :
    (List.range c).foldl (pbStep lo m wm L) (a, 1 % R)
      = ((List.range c).foldl (fun a r =>
          butterflyRange a lo m (r * L) (min L (m - r * L)) wm (pieceSeed wm L r)) a,
         pieceSeed wm L c) := by
  induction c with
  | zero => rfl
  | succ c ih =>
    rw [List.range_succ, List.foldl_append, List.foldl_append, ih]
    simp only [List.foldl_cons, List.foldl_nil, pbStep]
    congr 1
    unfold pieceSeed
    rw [List.range_succ, List.foldl_append]
    rfl

theorem piece_off_lt (m L r : Nat) (hL : 0 < L) (hr : r < divCeil m L) : r * L < m := by
  unfold divCeil at hr
  have h1 : (r + 1) * L ≤ m + L - 1 := (Nat.le_div_iff_mul_le hL).1 hr
  rw [Nat.add_mul, Nat.one_mul] at h1
  omega

/-- **the pieces of one `parallel_butterfly_chunk`** (`par_chunks_mut(range_len).zip(..).zip(seeds)
    .for_each(butterfly_range)`) can be processed in any order: the result is the model's
    `parallelButterflyChunk` (which is the serial `butterflyChunk`) -/
theorem pieces_order_irrelevant (a : Array Nat) (lo m wm threads : Nat) (ht : 1 ≤ threads)
    (hb : lo + 2 * m ≤ a.size) (order : List Nat)
    (hp : order.Perm (List.range (divCeil m (divCeil m threads)))) :
    order.foldl (fun a r => butterflyRange a lo m (r * divCeil m threads)
        (min (divCeil m threads) (m - r * divCeil m threads)) wm
        (pieceSeed wm (divCeil m threads) r)) a
      = parallelButterflyChunk a lo m wm threads := by
  rw [parallelButterflyChunk_eq, pb_fold_seeds]
  simp only
  by_cases hm : m = 0
  · subst hm
    have e1 : divCeil 0 threads = 0 := by
      unfold divCeil; exact Nat.div_eq_of_lt (by omega)
    have h0 : divCeil 0 (divCeil 0 threads) = 0 := by rw [e1]; rfl
    rw [h0] at hp ⊢
    rw [List.range_zero] at hp
    rw [List.Perm.eq_nil hp]
    rfl
  have hmpos : 0 < m := Nat.pos_of_ne_zero hm
  have hL : 0 < divCeil m threads := divCeil_pos m threads hmpos ht
  generalize divCeil m threads = L at hp hL ⊢
  refine foldl_perm_of_comm_inv (fun z : Array Nat => z.size = a.size) ?_ hp ?_ a rfl
  · intro z r hz
    rw [butterflyRange_eq, brState_size, hz]
  · intro x hx y hy hxy z hz
    have hx' : x * L < m := piece_off_lt m L x hL (List.mem_range.1 (hp.mem_iff.1 hx))
    have hy' : y * L < m := piece_off_lt m L y hL (List.mem_range.1 (hp.mem_iff.1 hy))
    apply butterflyRange_comm z lo m wm _ _ _ _ _ _ (by omega) (by omega) (by omega)
    rcases Nat.lt_or_gt_of_ne hxy with h | h
    · left
      have : (x + 1) * L ≤ y * L := Nat.mul_le_mul_right _ h
      rw [Nat.add_mul, Nat.one_mul] at this
      omega
    · right
      have : (y + 1) * L ≤ x * L := Nat.mul_le_mul_right _ h
      rw [Nat.add_mul, Nat.one_mul] at this
      omega

/-! ### the three arms of the switch -/

/-- the "final stages" arm (`parallel_butterfly_chunk` per chunk) equals the serial arm -/
theorem parallel_arm_eq_serial_arm (a : Array Nat) (m wm cnt threads : Nat) (ht : 1 ≤ threads)
    (hm : m < 2 ^ 256) :
    (List.range cnt).foldl (fun a c => parallelButterflyChunk a (c * 2 * m) m wm threads) a
      = (List.range cnt).foldl (fun a c => butterflyChunk a (c * 2 * m) m wm) a := by
  have hp : (fun (a : Array Nat) c => parallelButterflyChunk a (c * 2 * m) m wm threads)
      = (fun a c => butterflyChunk a (c * 2 * m) m wm) := by
    funext a c
    exact parallelButterflyChunk_eq_butterflyChunk _ _ _ _ _ ht hm
  rw [hp]

/-! ### every transform through the serial kernel -/

theorem Domain.fft_eq_serial (d : Domain) (hlog : d.logSize ≤ 256) (v : List Nat) (threads : Nat)
    (ht : 1 ≤ threads) :
    d.fft v threads
      = (serialFft (foldMod (v.map (· % R)) d.size).toArray d.groupGen d.logSize).toList := by
  unfold Domain.fft
  rw [bestFft_eq_serialFft _ _ _ _ ht hlog]

theorem Domain.ifft_eq_serial (d : Domain) (hlog : d.logSize ≤ 256) (v : List Nat) (threads : Nat)
    (ht : 1 ≤ threads) :
    d.ifft v threads
      = ((serialFft (resize (v.map (· % R)) d.size).toArray d.groupGenInv d.logSize).toList).map
          (fmul · d.sizeInv) := by
  unfold Domain.ifft
  rw [bestFft_eq_serialFft _ _ _ _ ht hlog]

end DetFft

section DetProver
open List

/-! ### chunked maps -/

/-- **`par_iter().map(f).collect()` / `par_chunks`**: for every way of cutting a list of items into
    consecutive chunks, mapping chunk by chunk and concatenating equals the plain map -/
theorem chunked_map_flatten {α β : Type} (f : α → β) (chunks : List (List α)) :
    (chunks.map fun ch => ch.map f).flatten = chunks.flatten.map f := by
  rw [List.map_flatten]

/-- consecutive chunks of `0..n` with the given sizes -/
def chunksFrom : Nat → List Nat → List (List Nat)
  | _, [] => []
  | start, s :: ss => List.range' start s :: chunksFrom (start + s) ss

theorem chunksFrom_flatten : ∀ (start : Nat) (sizes : List Nat),
    (chunksFrom start sizes).flatten = List.range' start sizes.sum
  | _, [] => rfl
  | start, s :: ss => by
    rw [chunksFrom, List.flatten_cons, List.sum_cons, chunksFrom_flatten (start + s) ss,
      List.range'_append_1]

/-- the slots written under a schedule: slot `j` receives the result of chunk `j` when the
    scheduler gets to it -/
def runSchedule {β : Type} (k : Nat) (g : Nat → β) (d : β) (sched : List Nat) : Array β :=
  sched.foldl (fun slots j => slots.setIfInBounds j (g j)) (Array.replicate k d)

theorem foldl_set_size {β : Type} (g : Nat → β) (sched : List Nat) : ∀ init : Array β,
    (sched.foldl (fun slots j => slots.setIfInBounds j (g j)) init).size = init.size := by
  induction sched with
  | nil => intro init; rfl
  | cons j rest ih => intro init; rw [List.foldl_cons, ih]; simp

theorem runSchedule_size {β : Type} (k : Nat) (g : Nat → β) (d : β) (sched : List Nat) :
    (runSchedule k g d sched).size = k := by
  unfold runSchedule
  rw [foldl_set_size]; simp

theorem foldl_set_getElem? {β : Type} (g : Nat → β) (sched : List Nat) (j : Nat) :
    ∀ init : Array β, j < init.size → (j ∈ sched ∨ init[j]? = some (g j)) →
      (sched.foldl (fun slots j => slots.setIfInBounds j (g j)) init)[j]? = some (g j) := by
  induction sched with
  | nil =>
    intro init _ h
    rcases h with h | h
    · simp at h
    · exact h
  | cons x rest ih =>
    intro init hs h
    rw [List.foldl_cons]
    apply ih _ (by simpa using hs)
    by_cases hx : x = j
    · right
      subst hx
      rw [Array.getElem?_setIfInBounds]
      simp [hs]
    · rcases h with h | h
      · rcases List.mem_cons.1 h with h | h
        · exact absurd h.symm hx
        · exact Or.inl h
      · right
        rw [Array.getElem?_setIfInBounds, if_neg hx]
        exact h

/-- **any schedule**: when every chunk index is executed (at least) once — in any order —, reading
    the slots in index order gives the per-chunk results in index order -/
theorem runSchedule_eq {β : Type} (k : Nat) (g : Nat → β) (d : β) (sched : List Nat)
    (hall : ∀ j, j < k → j ∈ sched) :
    (runSchedule k g d sched).toList = (List.range k).map g := by
  apply List.ext_getElem?
  intro j
  by_cases hj : j < k
  · rw [Array.getElem?_toList]
    unfold runSchedule
    rw [foldl_set_getElem? g sched j _ (by simpa using hj) (Or.inl (hall j hj))]
    simp [hj]
  · have h1 : (runSchedule k g d sched).toList.length ≤ j := by
      rw [Array.length_toList, runSchedule_size]; omega
    rw [List.getElem?_eq_none h1, List.getElem?_eq_none (by simp; omega)]

/-- **chunked and scheduled map**: cut `0..n` into consecutive chunks of arbitrary sizes, let the
    chunks be computed in any order (each at least once) into their slots, concatenate the slots:
    the result is `(List.range n).map f` -/
theorem chunked_scheduled_map {β : Type} (f : Nat → β) (sizes : List Nat) (sched : List Nat)
    (hall : ∀ j, j < sizes.length → j ∈ sched) :
    (runSchedule sizes.length (fun j => ((chunksFrom 0 sizes).getD j []).map f) [] sched).toList.flatten
      = (List.range sizes.sum).map f := by
  rw [runSchedule_eq _ _ _ _ hall]
  have hlen : ∀ (start : Nat) (sizes : List Nat), (chunksFrom start sizes).length = sizes.length := by
    intro start sizes
    induction sizes generalizing start with
    | nil => rfl
    | cons s ss ih => simp [chunksFrom, ih]
  have e : (List.range sizes.length).map (fun j => ((chunksFrom 0 sizes).getD j []).map f)
      = (chunksFrom 0 sizes).map (fun ch => ch.map f) := by
    apply List.ext_getElem
    · simp [hlen]
    · intro j h1 h2
      have hj : j < (chunksFrom 0 sizes).length := by simpa using h2
      simp [List.getD_eq_getElem?_getD, hj]
  rw [e, chunked_map_flatten, chunksFrom_flatten, List.range_eq_range']

/-! ### tree reductions of field sums (`par_iter().map(..).sum()`) -/

theorem fadd_assoc (a b c : Nat) : fadd (fadd a b) c = fadd a (fadd b c) := by
  unfold fadd
  rw [Nat.mod_add_mod, Nat.add_mod_mod, Nat.add_assoc]

/-- the sequential sum, as the model writes it -/
def seqSum (l : List Nat) : Nat := l.foldl fadd 0

theorem seqSum_lt (l : List Nat) : seqSum l < R := by
  unfold seqSum
  induction l using List.reverseRecOn with
  | nil => exact R_pos
  | append_singleton l x _ => rw [List.foldl_append]; exact fadd_lt _ _

theorem foldl_fadd_eq (l : List Nat) : ∀ a, a < R → l.foldl fadd a = fadd a (seqSum l) := by
  induction l with
  | nil =>
    intro a ha
    show a = (a + 0) % R
    rw [Nat.add_zero, Nat.mod_eq_of_lt ha]
  | cons x rest ih =>
    intro a ha
    have e : seqSum (x :: rest) = fadd (fadd 0 x) (seqSum rest) := by
      show List.foldl fadd (fadd 0 x) rest = _
      exact ih _ (fadd_lt 0 x)
    rw [List.foldl_cons, ih _ (fadd_lt a x), e, ← fadd_assoc a]
    congr 1
    unfold fadd
    rw [Nat.zero_add, Nat.add_mod_mod]

theorem seqSum_append (l1 l2 : List Nat) : seqSum (l1 ++ l2) = fadd (seqSum l1) (seqSum l2) := by
  unfold seqSum
  rw [List.foldl_append]
  exact foldl_fadd_eq l2 _ (seqSum_lt l1)

/-- a reduction tree: the leaves are consecutive pieces summed sequentially from zero, inner nodes
    add the results of their sub-trees (rayon's `sum` / `reduce` under any splitting) -/
inductive RTree where
  | leaf (piece : List Nat)
  | node (l r : RTree)

def RTree.items : RTree → List Nat
  | .leaf p => p
  | .node l r => l.items ++ r.items

def RTree.sum : RTree → Nat
  | .leaf p => seqSum p
  | .node l r => fadd l.sum r.sum

/-- **parallel sums**: every reduction tree gives the sequential sum of its items -/
theorem RTree.sum_eq (t : RTree) : t.sum = seqSum t.items := by
  induction t with
  | leaf p => rfl
  | node l r ihl ihr => simp only [RTree.sum, RTree.items, seqSum_append, ihl, ihr]

/-- `par_iter().filter(p).collect()` keeps the index order: filtering chunk by chunk and
    concatenating is the plain filter -/
theorem chunked_filter_flatten {α : Type} (p : α → Bool) (chunks : List (List α)) :
    (chunks.map fun ch => ch.filter p).flatten = chunks.flatten.filter p := by
  induction chunks with
  | nil => rfl
  | cons ch rest ih => rw [List.map_cons, List.flatten_cons, List.flatten_cons, List.filter_append, ih]

/-- the sum inside `compute_barycentric_eval` (a `par_iter().map(..).sum()` in the `std` build) is
    the sequential sum of the terms `den_i⁻¹·eval_i` -/
theorem barycentric_eq_seqSum (d : Domain) (evals : List Nat) (point : Nat) :
    d.barycentric evals point =
      fmul (seqSum (((evals.zipIdx.filter (fun x => x.1 % R != 0)).zip
          (batchInversion ((evals.zipIdx.filter (fun x => x.1 % R != 0)).map
            fun x => fsub (fmul (fpow d.groupGenInv x.2) point) 1))).map fun x => fmul x.2 x.1.1))
        (fmul (fsub (fpow point d.size) 1) d.sizeInv) := by
  simp only [Domain.barycentric, seqSum, List.foldl_map]

/-! ### the quotient loop -/

/-- entry `i` of `quotientEvals` (the body of the loop, same text) -/
def quotientAt (selE sigE8 : Array (Array Nat)) (linE aE bE cE dE zE piE vh vhInv8 l1Den : Array Nat)
    (nInv8 beta gamma alpha rSep lSep fSep vSep : Nat) (i : Nat) : Nat :=
  let alphaSq := fsq alpha
  let q (j i : Nat) : Nat := (selE.getD j #[]).getD i 0
  let a := aE.getD i 0; let b := bE.getD i 0; let cc := cE.getD i 0; let dd := dE.getD i 0
  let aw := aE.getD (i + 8) 0; let bw := bE.getD (i + 8) 0; let dw := dE.getD (i + 8) 0
  let z := zE.getD i 0; let zw := zE.getD (i + 8) 0
  let g : Gate := { qm := q 0 i, ql := q 1 i, qr := q 2 i, qo := q 3 i, qf := q 4 i, qc := q 5 i, qarith := q 6 i }
  let ev : Evals := { a := a, b := b, c := cc, d := dd, aw := aw, bw := bw, dw := dw, qarith := 0, qc := q 5 i,
                      ql := q 1 i, qr := q 2 i, s1 := 0, s2 := 0, s3 := 0, z := 0 }
  let t1 := fadd (fadd (fadd (fadd (fadd (arithVal g a b cc dd 0) (fmul (q 7 i) (rangeScalar rSep ev)))
                (fmul (q 8 i) (logicScalar lSep ev))) (fmul (q 9 i) (fixedScalar fSep ev)))
                (fmul (q 10 i) (varScalar vSep ev))) (piE.getD i 0)
  let xx := linE.getD i 0
  let s (j : Nat) := (sigE8.getD j #[]).getD i 0
  let idp := fmul (fmul (fmul (fmul (fmul (fadd (fadd a (fmul beta xx)) gamma)
                (fadd (fadd b (fmul (fmul beta Generated.K1) xx)) gamma))
                (fadd (fadd cc (fmul (fmul beta Generated.K2) xx)) gamma))
                (fadd (fadd dd (fmul (fmul beta Generated.K3) xx)) gamma)) z) alpha
  let cpp := fneg (fmul (fmul (fmul (fmul (fmul (fadd (fadd a (fmul beta (s 0))) gamma)
                (fadd (fadd b (fmul beta (s 1))) gamma)) (fadd (fadd cc (fmul beta (s 2))) gamma))
                (fadd (fadd dd (fmul beta (s 3))) gamma)) zw) alpha)
  let l1 := fmul (fmul (l1Den.getD i 0) (fmul (vh.getD i 0) nInv8)) alphaSq
  let t2 := fadd (fadd idp cpp) (fmul (fsub z 1) l1)
  fmul (fadd t1 t2) (vhInv8.getD (i % 8) 0)

/-- `quotientEvals` is the index-wise map of `quotientAt` (definitional) -/
theorem quotientEvals_eq_map (size8 : Nat) (selE sigE8 : Array (Array Nat))
    (linE aE bE cE dE zE piE vh vhInv8 l1Den : Array Nat)
    (nInv8 beta gamma alpha rSep lSep fSep vSep : Nat) :
    quotientEvals size8 selE sigE8 linE aE bE cE dE zE piE vh vhInv8 l1Den nInv8 beta gamma alpha
        rSep lSep fSep vSep
      = (List.range size8).map (quotientAt selE sigE8 linE aE bE cE dE zE piE vh vhInv8 l1Den nInv8
          beta gamma alpha rSep lSep fSep vSep) := rfl

/-! ### the permutation vector -/

/-- numerator / denominator of row `i` (the bodies of the two parallel maps, same text) -/
def permNumAt (roots aS bS cS dS : List Nat) (beta gamma : Nat) (i : Nat) : Nat :=
  let br := fmul beta (roots.getD i 0)
  fmul (fmul (fmul (fadd (fadd (aS.getD i 0) br) gamma) (fadd (fadd (bS.getD i 0) (fmul br Generated.K1)) gamma))
             (fadd (fadd (cS.getD i 0) (fmul br Generated.K2)) gamma))
       (fadd (fadd (dS.getD i 0) (fmul br Generated.K3)) gamma)

def permDenAt (aS bS cS dS : List Nat) (sigE : List (List Nat)) (beta gamma : Nat) (i : Nat) : Nat :=
  let s (j : Nat) := (sigE.getD j []).getD i 0
  fmul (fmul (fmul (fadd (fadd (aS.getD i 0) (fmul beta (s 0))) gamma) (fadd (fadd (bS.getD i 0) (fmul beta (s 1))) gamma))
             (fadd (fadd (cS.getD i 0) (fmul beta (s 2))) gamma))
       (fadd (fadd (dS.getD i 0) (fmul beta (s 3))) gamma)

/-- the accumulator step of `compute_permutation_vec` -/
def permStep (n : Nat) (nums densInv : List Nat) (i cur : Nat) : Nat :=
  if i + 1 < n then fmul cur (fmul (nums.getD i 0) (densInv.getD i 0)) else cur

/-- **`compute_permutation_vec`**: the numerators and denominators are index-wise maps, the result is
    the sequence of iterates `z₀ = 1`, `z_{i+1} = step i z_i` of a sequential accumulator -/
theorem permVec_structure (n : Nat) (roots aS bS cS dS : List Nat) (sigE : List (List Nat))
    (beta gamma : Nat) :
    let nums := (List.range n).map (permNumAt roots aS bS cS dS beta gamma)
    let dens := (List.range n).map (permDenAt aS bS cS dS sigE beta gamma)
    permVec n roots aS bS cS dS sigE beta gamma =
      if dens.any (· == 0) then none
      else some ((List.range n).map (Quot.iterFrom (permStep n nums (batchInversion dens)) (1 % R))) := by
  intro nums dens
  rw [Quot.permVec_eq]
  have e1 : Quot.permNums n roots aS bS cS dS beta gamma = nums := rfl
  have e2 : Quot.permDens n aS bS cS dS sigE beta gamma = dens := rfl
  rw [e1, e2]
  split
  · rfl
  · show some ((List.range n).foldl (fun (acc : List Nat × Nat) i =>
        (acc.2 :: acc.1, permStep n nums (batchInversion dens) i acc.2)) ([], 1 % R)).1.reverse = _
    rw [Quot.foldl_iter (permStep n nums (batchInversion dens))]
    simp

/-! ### the compiler with explicit thread count and witness-map visiting order -/

/-- `compile` (same text) where every transform receives the thread count `threads` and
    `compute_sigma_permutations` visits the witness map in the order `order` -/
def compileWith (threads : Nat) (order : List Nat) (srs : SRS) (srsLen : Nat) (label : List Nat)
    (c : Composer) : Except PErr PKey :=
  let constraints := c.gates.size
  let nTrim := nextPow2 (constraints + Generated.CIRCUIT_SIZE_PADDING)
  match truncateLen srsLen (nTrim + Generated.ADDED_BLINDING_DEGREE) with
  | .error e => .error (.compile e)
  | .ok ckLen =>
    let size := nextPow2 constraints
    match Domain.new? (size - 1) with
    | none => .error (.compile .degreeIsZero)
    | some d =>
      let col (f : Gate → Nat) : Poly :=
        Poly.ofCoeffs (d.ifft ((List.range size).map fun i => f (c.gateAt i)) threads)
      let sel : Array Poly := #[col (·.qm), col (·.ql), col (·.qr), col (·.qo), col (·.qf), col (·.qc), col (·.qarith),
                                col (·.qrange), col (·.qlogic), col (·.qfixed), col (·.qvar)]
      let roots := d.elements.toArray
      let sm := Perm.sigmaMapsOrder c size order
      let sigma : Array Poly := (Array.range 4).map fun colI =>
        Poly.ofCoeffs (d.ifft ((sm.getD colI #[]).toList.map fun (cc, i) => fmul (kOf cc) (roots.getD i 0)) threads)
      let k0 : PKey := { n := d.size, constraints := constraints, label := label, sel := sel, sigma := sigma,
                         vk := default, piIndexes := [], x := srs.x, g := srs.g, ckLen := ckLen, lay := c }
      let cs (i : Nat) : G1 := match commitT k0 (sel.getD i []) with | .ok p => p | .error _ => .inf
      match commit4 k0 (sigma.getD 0 []) (sigma.getD 1 []) (sigma.getD 2 []) (sigma.getD 3 []) with
      | .error (.commit e) => .error (.compile e)
      | .error e => .error e
      | .ok (s1, s2, s3, s4) =>
        let vk : VKey := { n := constraints, qm := cs 0, ql := cs 1, qr := cs 2, qo := cs 3, qf := cs 4, qc := cs 5,
                           qarith := cs 6, qrange := cs 7, qlogic := cs 8, qfixed := cs 9, qvar := cs 10,
                           s1 := s1, s2 := s2, s3 := s3, s4 := s4 }
        let piIdx := (compile.Plonk.Driver.sortedRows c)
        match Domain.new? (8 * d.size) with
        | none => .error (.compile .degreeIsZero)
        | some d8 =>
          .ok { k0 with vk := vk, piIndexes := piIdx,
                        selE := sel.map fun p => (d8.cosetFft p threads).toArray,
                        sigE8 := sigma.map fun p => (d8.cosetFft p threads).toArray,
                        linE := (d8.cosetFft [0, 1] threads).toArray,
                        vh := (d8.vanishingOverCoset d.size).toArray }

theorem transforms_threads (m : Nat) (d : Domain) (hd : Domain.new? m = some d) (threads : Nat)
    (ht : 1 ≤ threads) (v : List Nat) :
    d.fft v threads = d.fft v ∧ d.ifft v threads = d.ifft v ∧
    d.cosetFft v threads = d.cosetFft v ∧ d.cosetIfft v threads = d.cosetIfft v :=
  Domain.threads_irrelevant d (by have := (Domain.new?_wf m d hd).2; omega) v threads ht

set_option linter.auxLemma false in
/-- the two copies of the `unwrap_or_default` match of `compile` (auto-generated matchers of the two
    definitions) are the same function -/
theorem cs_matcher_eq : @compileWith.match_3.{1} = @compile.match_1.{1} := rfl

theorem compileWith_eq (threads : Nat) (ht : 1 ≤ threads) (order : List Nat) (srs : SRS)
    (srsLen : Nat) (label : List Nat) (c : Composer) (ho : order.Perm (List.range c.wit.size)) :
    compileWith threads order srs srsLen label c = compile srs srsLen label c := by
  unfold compileWith compile
  simp only [Perm.sigma_order_independent c _ order ho]
  cases truncateLen srsLen (nextPow2 (c.gates.size + Generated.CIRCUIT_SIZE_PADDING) + Generated.ADDED_BLINDING_DEGREE) with
  | error e => rfl
  | ok ckLen =>
    simp only
    cases hd : Domain.new? (nextPow2 c.gates.size - 1) with
    | none => rfl
    | some d =>
      simp only [fun v => (transforms_threads _ d hd threads ht v).2.1]
      generalize (#[Poly.ofCoeffs _, _, _, _, _, _, _, _, _, _, _] : Array Poly) = sel
      generalize Array.map _ (Array.range 4) = sigma
      generalize commit4 _ _ _ _ _ = x
      rcases x with e | ⟨s1, s2, s3, s4⟩
      · cases e <;> rfl
      · simp only
        cases hd8 : Domain.new? (8 * d.size) with
        | none => rfl
        | some d8 =>
          simp only [fun v => (transforms_threads _ d8 hd8 threads ht v).2.2.1]
          rw [cs_matcher_eq]

/-- with the model's own choices (`threads = 1`, witnesses in index order) it is `compile` -/
theorem compileWith_default (srs : SRS) (srsLen : Nat) (label : List Nat) (c : Composer) :
    compileWith 1 (List.range c.wit.size) srs srsLen label c = compile srs srsLen label c :=
  compileWith_eq 1 (Nat.le_refl 1) _ srs srsLen label c (List.Perm.refl _)

/-! ### the prover with explicit thread count -/

/-- `blindPoly` with the thread count passed to the inverse transform -/
def blindPolyWith (threads : Nat) (d : Domain) (w : List Nat) (blinders : List Nat) : Poly :=
  let coeffs := d.ifft w threads
  let coeffs := (blinders.zipIdx).foldl (fun (cs : List Nat) (b, i) =>
      (cs.set i (fsub (cs.getD i 0) b)) ++ [b % R]) coeffs
  Poly.ofCoeffs coeffs

/-- `cosetEvals` with the thread count passed to the coset transform -/
def cosetEvalsWith (threads : Nat) (d8 : Domain) (p : Poly) : Array Nat :=
  let e := d8.cosetFft p threads
  (e ++ e.take 8).toArray

/-- `prove` (same text) where every transform receives the thread count `threads` -/
def proveWith (threads : Nat) (k : PKey) (c : Composer) (draws : List Nat) (v3 : Bool := true) : Except PErr ProveTrace :=
  if c.gates.size != k.constraints then .error .invalidCircuitSize else
  match Domain.new? k.constraints, Domain.new? (8 * k.n) with
  | some d, some d8 =>
    let n := d.size
    let size := k.n
    let pisSorted := prove.Plonk.Driver.sortedPis' c
    let pis := pisSorted.map (·.2)
    let dense : List Nat := (List.range size).map fun i => (pisSorted.find? (·.1 == i)).map (·.2) |>.getD 0
    let wcol (f : RowVals → Nat) : List Nat := (List.range size).map fun i => f (c.rowVals i)
    let aS := wcol (·.a); let bS := wcol (·.b); let cS := wcol (·.c); let dS := wcol (·.d)
    match takeDraws 8 draws with
    | none => .error .notEnoughDraws
    | some (wb, draws) =>
    let aP := blindPolyWith threads d aS (wb.take 2)
    let bP := blindPolyWith threads d bS ((wb.drop 2).take 2)
    let cP := blindPolyWith threads d cS ((wb.drop 4).take 2)
    let dP := blindPolyWith threads d dS ((wb.drop 6).take 2)
    match commit4 k aP bP cP dP with
    | .error e => .error e
    | .ok (aC, bC, cC, dC) =>
    -- transcript: base, public inputs, wire commitments
    let ops0 := baseOps k.label k.vk k.constraints v3 ++ pis.map (fun pi => TOp.msg "pi" (Transcript.scalarBytes pi)) ++
      [.msg "a_comm" aC.toCompressed, .msg "b_comm" bC.toCompressed, .msg "c_comm" cC.toCompressed,
       .msg "d_comm" dC.toCompressed, .chal "beta", .echo "beta" "beta", .chal "gamma"]
    let (t, chs) := runOps ops0 merlinInit
    let get (chs : List (String × Nat)) (l : String) : Nat := (chs.find? (·.1 == l)).map (·.2) |>.getD 0
    let beta := get chs "beta"; let gamma := get chs "gamma"
    -- round 2: permutation vector
    let roots := d.elements
    let sigE : List (List Nat) := (List.range 4).map fun i => d.fft (k.sigma.getD i []) threads
    match permVec n roots aS bS cS dS sigE beta gamma with
    | none => .error .panicDenominator
    | some perm =>
    match takeDraws 3 draws with
    | none => .error .notEnoughDraws
    | some (zb, draws) =>
    let zP := blindPolyWith threads d perm zb
    match commitT k zP with
    | .error e => .error (.commit e)
    | .ok zC =>
    let (t, chs3) := runOps [.msg "z_comm" zC.toCompressed, .chal "alpha", .chal "range separation challenge",
        .chal "logic separation challenge", .chal "fixed base separation challenge",
        .chal "variable base separation challenge"] t
    let alpha := get chs3 "alpha"; let rSep := get chs3 "range separation challenge"
    let lSep := get chs3 "logic separation challenge"; let fSep := get chs3 "fixed base separation challenge"
    let vSep := get chs3 "variable base separation challenge"
    -- round 3: quotient on the coset of size 8n
    let piPoly := Poly.ofCoeffs (d.ifft dense threads)
    let zE := cosetEvalsWith threads d8 zP; let aE := cosetEvalsWith threads d8 aP; let bE := cosetEvalsWith threads d8 bP
    let cE := cosetEvalsWith threads d8 cP; let dE := cosetEvalsWith threads d8 dP
    let piE := (d8.cosetFft piPoly threads).toArray
    let selE := k.selE
    let sigE8 := k.sigE8
    let linE := k.linE
    let vh := k.vh
    let vhInv8 := (batchInversion ((vh.toList).take 8)).toArray
    let l1Den := (batchInversion (linE.toList.map fun e => fsub e 1)).toArray
    let nInv8 := fmul d8.sizeInv 8
    let quot := quotientEvals d8.size selE sigE8 linE aE bE cE dE zE piE vh vhInv8 l1Den nInv8
                  beta gamma alpha rSep lSep fSep vSep
    let tPoly := Poly.ofCoeffs (d8.cosetIfft quot threads)
    if tPoly.length > 7 * n then .error .circuitUnsatisfied else
    match takeDraws 3 draws with
    | none => .error .notEnoughDraws
    | some (tb, _) =>
    match splitQuotient n tPoly (tb.getD 0 0) (tb.getD 1 0) (tb.getD 2 0) with
    | none => .error .panicSlice
    | some (tLowP, tMidP, tHighP, tFourthP) =>
    match commit4 k tLowP tMidP tHighP tFourthP with
    | .error e => .error e
    | .ok (tlC, tmC, thC, tfC) =>
    let (t, chs4) := runOps [.msg "t_low_comm" tlC.toCompressed, .msg "t_mid_comm" tmC.toCompressed,
        .msg "t_high_comm" thC.toCompressed, .msg "t_fourth_comm" tfC.toCompressed, .chal "z_challenge"] t
    let zc := get chs4 "z_challenge"
    let zw := fmul zc d.groupGen
    let ev : Evals := {
      a := Poly.evaluate aP zc, b := Poly.evaluate bP zc, c := Poly.evaluate cP zc, d := Poly.evaluate dP zc,
      aw := Poly.evaluate aP zw, bw := Poly.evaluate bP zw, dw := Poly.evaluate dP zw,
      qarith := Poly.evaluate (k.sel.getD 6 []) zc, qc := Poly.evaluate (k.sel.getD 5 []) zc,
      ql := Poly.evaluate (k.sel.getD 1 []) zc, qr := Poly.evaluate (k.sel.getD 2 []) zc,
      s1 := Poly.evaluate (k.sigma.getD 0 []) zc, s2 := Poly.evaluate (k.sigma.getD 1 []) zc,
      s3 := Poly.evaluate (k.sigma.getD 2 []) zc, z := Poly.evaluate zP zw }
    let sc (l : String) (v : Nat) : TOp := .msg l (Transcript.scalarBytes v)
    let (t, chs5) := runOps [sc "a_eval" ev.a, sc "b_eval" ev.b, sc "c_eval" ev.c, sc "d_eval" ev.d,
        sc "s_sigma_1_eval" ev.s1, sc "s_sigma_2_eval" ev.s2, sc "s_sigma_3_eval" ev.s3, sc "z_eval" ev.z,
        sc "a_w_eval" ev.aw, sc "b_w_eval" ev.bw, sc "d_w_eval" ev.dw, sc "q_arith_eval" ev.qarith,
        sc "q_c_eval" ev.qc, sc "q_l_eval" ev.ql, sc "q_r_eval" ev.qr, .chal "v_challenge"] t
    let v := get chs5 "v_challenge"
    -- round 5: linearisation polynomial
    let padd := Poly.add
    let sp (j : Nat) := k.sel.getD j []
    let arithL := Poly.scale (padd (padd (padd (padd (padd (Poly.scale (sp 0) (fmul ev.a ev.b)) (Poly.scale (sp 1) ev.a))
                    (Poly.scale (sp 2) ev.b)) (Poly.scale (sp 3) ev.c)) (Poly.scale (sp 4) ev.d)) (sp 5)) ev.qarith
    let lin0 := padd arithL (Poly.scale (sp 7) (rangeScalar rSep ev))
    let lin1 := Poly.addAssign lin0 (Poly.scale (sp 8) (logicScalar lSep ev))
    let lin2 := Poly.addAssign lin1 (Poly.scale (sp 9) (fixedScalar fSep ev))
    let lin3 := Poly.addAssign lin2 (Poly.scale (sp 10) (varScalar vSep ev))
    let piEvalSparse := d.barycentric pis zc      -- the prover passes the *sparse* list here (see DESIGN §9.2)
    let f1 := Poly.addConst lin3 piEvalSparse
    let bz := fmul beta zc
    let idL := Poly.scale zP (fmul (fmul (fmul (fmul (fadd (fadd ev.a bz) gamma) (fadd (fadd ev.b (fmul Generated.K1 bz)) gamma))
                  (fadd (fadd ev.c (fmul Generated.K2 bz)) gamma)) (fadd (fadd ev.d (fmul Generated.K3 bz)) gamma)) alpha)
    let cpL := Poly.scale (k.sigma.getD 3 []) (fneg (fmul (fmul (fmul (fmul (fadd (fadd ev.a (fmul beta ev.s1)) gamma)
                  (fadd (fadd ev.b (fmul beta ev.s2)) gamma)) (fadd (fadd ev.c (fmul beta ev.s3)) gamma)) (fmul beta ev.z)) alpha))
    let l1Dom := (Domain.new? (Poly.degree zP - 2)).getD d
    let l1z := (l1Dom.lagrangeCoeffs zc).headD 0
    let oneL := Poly.scale zP (fmul l1z (fsq alpha))
    let f2 := padd (padd idL cpL) oneL
    let zn := fpow zc n; let z2n := fpow zc (2 * n); let z3n := fpow zc (3 * n)
    let quotL := padd (padd (padd tLowP (Poly.scale tMidP zn)) (Poly.scale tHighP z2n)) (Poly.scale tFourthP z3n)
    let zhNeg := fneg (d.evaluateVanishing zc)
    let rP := padd (padd f1 f2) (Poly.scale quotL zhNeg)
    let wzP := aggregateWitness [rP, aP, bP, cP, dP, k.sigma.getD 0 [], k.sigma.getD 1 [], k.sigma.getD 2 [],
                                 sp 6, sp 5, sp 1, sp 2] zc v
    match commitT k wzP with
    | .error e => .error (.commit e)
    | .ok wzC =>
    let (_, chs6) := runOps [.chal "v_w_challenge"] t
    let vw := get chs6 "v_w_challenge"
    let wzwP := aggregateWitness [zP, aP, bP, dP] zw vw
    match commitT k wzwP with
    | .error e => .error (.commit e)
    | .ok wzwC =>
      .ok { proof := { aC := aC, bC := bC, cC := cC, dC := dC, zC := zC, tLow := tlC, tMid := tmC, tHigh := thC,
                       tFourth := tfC, wz := wzC, wzw := wzwC, ev := ev },
            pis := pis,
            ch := { beta := beta, gamma := gamma, alpha := alpha, rangeSep := rSep, logicSep := lSep, fixedSep := fSep,
                    varSep := vSep, z := zc, v := v, vw := vw, u := 0 },
            drawsUsed := 14 }
  | _, _ => .error (.compile .degreeIsZero)


theorem blindPolyWith_eq (m : Nat) (d : Domain) (hd : Domain.new? m = some d) (threads : Nat)
    (ht : 1 ≤ threads) (w bs : List Nat) : blindPolyWith threads d w bs = blindPoly d w bs := by
  unfold blindPolyWith blindPoly
  rw [(transforms_threads m d hd threads ht w).2.1]

theorem cosetEvalsWith_eq (m : Nat) (d : Domain) (hd : Domain.new? m = some d) (threads : Nat)
    (ht : 1 ≤ threads) (p : Poly) : cosetEvalsWith threads d p = cosetEvals d p := by
  unfold cosetEvalsWith cosetEvals
  rw [(transforms_threads m d hd threads ht p).2.2.1]

set_option linter.auxLemma false in
/-- the auto-generated matchers of the two copies are the same functions -/
theorem prove_matchers_eq :
    @proveWith.match_13.{1} = @prove.match_13.{1} ∧ @proveWith.match_9.{1} = @prove.match_9.{1} ∧
    @proveWith.match_5.{1} = @prove.match_5.{1} ∧ @proveWith.match_3.{1} = @prove.match_3.{1} ∧
    @proveWith.match_11.{1} = @prove.match_11.{1} ∧ @proveWith.match_1.{1} = @prove.match_1.{1} ∧
    @proveWith.match_7.{1} = @prove.match_7.{1} :=
  ⟨rfl, rfl, rfl, rfl, rfl, rfl, rfl⟩

/-- **the thread count is irrelevant for proving** -/
theorem proveWith_eq (threads : Nat) (ht : 1 ≤ threads) (k : PKey) (c : Composer) (ds : List Nat)
    (v3 : Bool) : proveWith threads k c ds v3 = prove k c ds v3 := by
  unfold proveWith prove
  obtain ⟨m13, m9, m5, m3, m11, m1, m7⟩ := prove_matchers_eq
  rw [m13, m9, m5, m3, m11, m1, m7]
  split
  · rfl
  · cases hd : Domain.new? k.constraints with
    | none => rfl
    | some d =>
      cases hd8 : Domain.new? (8 * k.n) with
      | none => rfl
      | some d8 =>
        have e1 := blindPolyWith_eq _ d hd threads ht
        have e2 := cosetEvalsWith_eq _ d8 hd8 threads ht
        have e3 : ∀ v, d.fft v threads = d.fft v := fun v => (transforms_threads _ d hd threads ht v).1
        have e4 : ∀ v, d.ifft v threads = d.ifft v := fun v => (transforms_threads _ d hd threads ht v).2.1
        have e5 : ∀ v, d8.cosetFft v threads = d8.cosetFft v :=
          fun v => (transforms_threads _ d8 hd8 threads ht v).2.2.1
        have e6 : ∀ v, d8.cosetIfft v threads = d8.cosetIfft v :=
          fun v => (transforms_threads _ d8 hd8 threads ht v).2.2.2
        simp only [e1, e2, e3, e4, e5, e6]

/-- with the model's own choice `threads = 1` it is `prove` -/
theorem proveWith_default (k : PKey) (c : Composer) (ds : List Nat) (v3 : Bool) :
    proveWith 1 k c ds v3 = prove k c ds v3 := proveWith_eq 1 (Nat.le_refl 1) k c ds v3

end DetProver

end Det
end Plonk
