/-
  `compute_lagrange_and_barycentric_evaluations`.
-/
import Plonk.Proofs.DomainBary

namespace Plonk.PolyC19
open Polynomial

theorem ite_none_some_eq_none_iff {α : Type} (c : Prop) [Decidable c] (x : α) :
    (if c then none else some x) = none ↔ c := by
  split <;> simp [*]

theorem ite_none_some_eq_some_iff {α : Type} (c : Prop) [Decidable c] (x y : α) :
    (if c then none else some x) = some y ↔ ¬ c ∧ x = y := by
  split <;> simp [*]

/-- skeleton of the function with the leading denominator and `Z_H(point)` abstracted -/
theorem lagrangeAndPi_unfold (d : Domain) (roots evals : List Nat) (point : Nat) :
    d.lagrangeAndPi roots evals point =
      if ((fmul (d.size % R) (fsub point 1) ::
            List.map (fun x : Nat × Nat => fsub (fmul x.1 point) 1)
              (List.filter (fun x => x.2 % R != 0) (roots.zip evals))).any fun x => x == 0) = true
      then none
      else some
        (fmul (d.evaluateVanishing point) (binv (fmul (d.size % R) (fsub point 1))),
         fmul (fmul
            (List.foldl (fun acc (x : Nat × Nat) =>
                fadd acc (fmul (binv (fsub (fmul x.1 point) 1)) x.2)) 0
              (List.filter (fun x => x.2 % R != 0) (roots.zip evals)))
            (d.evaluateVanishing point)) d.sizeInv) := by
  unfold Domain.lagrangeAndPi
  simp only []
  rw [batchInversion_eq_map, List.map_cons, List.headD_cons, List.tail_cons, map_map',
    foldl_zip_map]

theorem den0_eq_zero_iff {d : Domain} (ok : DomainOK d) (point : Nat) :
    (fmul (d.size % R) (fsub point 1) == 0) = true ↔ toF point = 1 := by
  rw [beq_zero_iff (fmul_lt _ _), toF_fmul, toF_mod, toF_fsub, toF_one, mul_eq_zero, sub_eq_zero]
  constructor
  · rintro (h | h)
    · exact absurd h ok.size_ne_zero
    · exact h
  · exact fun h => Or.inr h

theorem den_eq_zero_iff (r point : Nat) :
    (fsub (fmul r point) 1 == 0) = true ↔ toF r * toF point = 1 := by
  rw [beq_zero_iff (fsub_lt _ _), toF_fsub, toF_fmul, toF_one, sub_eq_zero]

/-- `none` exactly when a denominator vanishes: `point = 1`, or `root_j · point = 1` for some `j`
    with a non-zero evaluation -/
theorem lagrangeAndPi_eq_none_iff {d : Domain} (ok : DomainOK d) (roots evals : List Nat)
    (point : Nat) :
    d.lagrangeAndPi roots evals point = none ↔
      toF point = 1 ∨ ∃ re ∈ roots.zip evals, toF re.2 ≠ 0 ∧ toF re.1 * toF point = 1 := by
  rw [lagrangeAndPi_unfold, ite_none_some_eq_none_iff, List.any_cons, Bool.or_eq_true,
    den0_eq_zero_iff ok, List.any_eq_true]
  apply or_congr Iff.rfl
  constructor
  · rintro ⟨x, hx, hx0⟩
    obtain ⟨re, hre, rfl⟩ := List.mem_map.mp hx
    rw [List.mem_filter] at hre
    refine ⟨re, hre.1, ?_, (den_eq_zero_iff _ _).mp hx0⟩
    rw [Ne, toF_eq_zero_iff]
    simpa using hre.2
  · rintro ⟨re, hre, hne, h1⟩
    refine ⟨_, List.mem_map.mpr ⟨re, List.mem_filter.mpr ⟨hre, ?_⟩, rfl⟩,
      (den_eq_zero_iff _ _).mpr h1⟩
    rw [Ne, toF_eq_zero_iff] at hne
    simpa using hne

theorem pi_term (zh sizeInv : F) (e r p : F) :
    (r * p - 1)⁻¹ * e * zh * sizeInv = e * (zh * sizeInv * (r * p - 1)⁻¹) := by ring

/-- the returned pair: `L_0(point)` and `Σ_j evals[j] · (Z_H(point)/n) / (root_j·point − 1)` -/
theorem lagrangeAndPi_some {d : Domain} (ok : DomainOK d) (roots evals : List Nat)
    (point l1 pi : Nat) (h : d.lagrangeAndPi roots evals point = some (l1, pi)) :
    toF l1 = lagrangeF d.size (toF d.groupGen) (toF point) 0 ∧
    toF pi = ((roots.zip evals).map (fun re : Nat × Nat =>
      toF re.2 * ((toF point ^ d.size - 1) * ((d.size : F))⁻¹ * (toF re.1 * toF point - 1)⁻¹))).sum ∧
    l1 < R ∧ pi < R := by
  rw [lagrangeAndPi_unfold, ite_none_some_eq_some_iff] at h
  obtain ⟨_, h⟩ := h
  rw [Prod.mk.injEq] at h
  obtain ⟨h1, h2⟩ := h
  refine ⟨?_, ?_, by rw [← h1]; exact fmul_lt _ _, by rw [← h2]; exact fmul_lt _ _⟩
  · rw [← h1, toF_fmul, toF_binv, toF_fmul, toF_mod, toF_fsub, toF_one,
      toF_evaluateVanishing ok.size_lt]
    unfold lagrangeF
    rw [pow_zero, mul_one, div_eq_mul_inv]
    rfl
  · rw [← h2, toF_fmul, toF_fmul, toF_foldl_fadd (fun x : Nat × Nat =>
      fmul (binv (fsub (fmul x.1 point) 1)) x.2), toF_zero, zero_add,
      toF_evaluateVanishing ok.size_lt, ok.sizeInv_eq, ← List.sum_map_mul_right,
      ← List.sum_map_mul_right]
    rw [sum_map_filter_of_zero]
    · apply congrArg
      apply List.map_congr_left
      intro re _
      simp only [toF_fmul, toF_binv, toF_fsub, toF_one]
      ring
    · intro x hx
      have h0 : toF x.2 = 0 := by
        rw [toF_eq_zero_iff]; simpa using hx
      rw [toF_fmul, h0, mul_zero, zero_mul, zero_mul]

/-- with `root_j = ω^(−i_j)` the terms are `evals[j] · L_{i_j}(point)` -/
theorem pi_term_eq_lagrangeF {d : Domain} (ok : DomainOK d) (p e : F) (i : Nat) :
    e * ((p ^ d.size - 1) * ((d.size : F))⁻¹ * ((toF d.groupGen)⁻¹ ^ i * p - 1)⁻¹) =
      e * lagrangeF d.size (toF d.groupGen) p i := by
  rw [lagrangeF_eq_inv_form ok.size_pos ok.prim]

end Plonk.PolyC19
