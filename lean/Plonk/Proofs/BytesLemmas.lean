/-
  Byte-level lemmas for the codecs: `bytesToNatLE/BE`, `natToBytesLE/BE`, canonical scalars.
-/
import Mathlib.Tactic.Ring
import Mathlib.Tactic.Linarith
import Plonk.Model.Verifier

namespace Plonk

/-- a byte list: every entry `< 256` -/
def AllBytes (bs : List Nat) : Prop := ∀ b ∈ bs, b < 256

namespace AllBytes
theorem nil : AllBytes [] := by intro b hb; cases hb
theorem cons {b : Nat} {bs : List Nat} (hb : b < 256) (h : AllBytes bs) : AllBytes (b :: bs) := by
  intro c hc; rcases List.mem_cons.mp hc with rfl | hc
  · exact hb
  · exact h c hc
theorem head {b : Nat} {bs : List Nat} (h : AllBytes (b :: bs)) : b < 256 := h b (by simp)
theorem tail {b : Nat} {bs : List Nat} (h : AllBytes (b :: bs)) : AllBytes bs :=
  fun c hc => h c (List.mem_cons_of_mem _ hc)
theorem append {a b : List Nat} (ha : AllBytes a) (hb : AllBytes b) : AllBytes (a ++ b) := by
  intro c hc; rcases List.mem_append.mp hc with h | h
  · exact ha c h
  · exact hb c h
theorem left {a b : List Nat} (h : AllBytes (a ++ b)) : AllBytes a :=
  fun c hc => h c (List.mem_append_left _ hc)
theorem right {a b : List Nat} (h : AllBytes (a ++ b)) : AllBytes b :=
  fun c hc => h c (List.mem_append_right _ hc)
theorem take {bs : List Nat} (h : AllBytes bs) (n : Nat) : AllBytes (bs.take n) :=
  fun c hc => h c (List.mem_of_mem_take hc)
theorem drop {bs : List Nat} (h : AllBytes bs) (n : Nat) : AllBytes (bs.drop n) :=
  fun c hc => h c (List.mem_of_mem_drop hc)
theorem replicate_zero (n : Nat) : AllBytes (List.replicate n 0) := by
  intro c hc; rw [List.mem_replicate] at hc; omega
theorem flatMap {α : Type} {f : α → List Nat} {l : List α} (h : ∀ a ∈ l, AllBytes (f a)) :
    AllBytes (l.flatMap f) := by
  intro c hc; rcases List.mem_flatMap.mp hc with ⟨a, ha, hca⟩; exact h a ha c hca
end AllBytes

/-! ### big endian / little endian values -/

theorem bytesToNatBE_foldl (bs : List Nat) (acc : Nat) :
    bs.foldl (fun acc b => acc * 256 + b % 256) acc = acc * 256 ^ bs.length + bytesToNatBE bs := by
  induction bs generalizing acc with
  | nil => simp [bytesToNatBE]
  | cons b bs ih =>
    simp only [List.foldl_cons, List.length_cons, bytesToNatBE]
    rw [ih, ih (0 * 256 + b % 256)]; ring

theorem bytesToNatBE_nil : bytesToNatBE [] = 0 := rfl

theorem bytesToNatBE_cons (b : Nat) (bs : List Nat) :
    bytesToNatBE (b :: bs) = b % 256 * 256 ^ bs.length + bytesToNatBE bs := by
  show (b :: bs).foldl _ 0 = _
  rw [List.foldl_cons, bytesToNatBE_foldl]; ring

theorem bytesToNatBE_append (a b : List Nat) :
    bytesToNatBE (a ++ b) = bytesToNatBE a * 256 ^ b.length + bytesToNatBE b := by
  show (a ++ b).foldl _ 0 = _
  rw [List.foldl_append, bytesToNatBE_foldl]; rfl

theorem bytesToNatLE_nil : bytesToNatLE [] = 0 := rfl

theorem bytesToNatLE_cons (b : Nat) (bs : List Nat) :
    bytesToNatLE (b :: bs) = b % 256 + 256 * bytesToNatLE bs := by
  unfold bytesToNatLE
  rw [List.reverse_cons, bytesToNatBE_append]
  simp [bytesToNatBE_cons, bytesToNatBE_nil]; ring

theorem bytesToNatLE_append (a b : List Nat) :
    bytesToNatLE (a ++ b) = bytesToNatLE a + 256 ^ a.length * bytesToNatLE b := by
  unfold bytesToNatLE
  rw [List.reverse_append, bytesToNatBE_append, List.length_reverse]; ring

theorem bytesToNatBE_reverse (bs : List Nat) : bytesToNatBE bs.reverse = bytesToNatLE bs := rfl
theorem bytesToNatLE_reverse (bs : List Nat) : bytesToNatLE bs.reverse = bytesToNatBE bs := by
  unfold bytesToNatLE; rw [List.reverse_reverse]

theorem bytesToNatLE_lt (bs : List Nat) : bytesToNatLE bs < 256 ^ bs.length := by
  induction bs with
  | nil => simp [bytesToNatLE_nil]
  | cons b bs ih =>
    rw [bytesToNatLE_cons, List.length_cons, pow_succ]
    have : b % 256 < 256 := Nat.mod_lt _ (by norm_num)
    omega

theorem bytesToNatBE_lt (bs : List Nat) : bytesToNatBE bs < 256 ^ bs.length := by
  have := bytesToNatLE_lt bs.reverse
  rwa [bytesToNatLE_reverse, List.length_reverse] at this

/-! ### encoders -/

@[simp] theorem natToBytesLE_length (v len : Nat) : (natToBytesLE v len).length = len := by
  simp [natToBytesLE]
@[simp] theorem natToBytesBE_length (v len : Nat) : (natToBytesBE v len).length = len := by
  simp [natToBytesBE]

theorem natToBytesLE_zero (v : Nat) : natToBytesLE v 0 = [] := rfl

theorem natToBytesLE_succ (v n : Nat) :
    natToBytesLE v (n + 1) = v % 256 :: natToBytesLE (v / 256) n := by
  unfold natToBytesLE
  rw [List.range_succ_eq_map, List.map_cons, List.map_map]
  congr 1
  · simp
  · apply List.map_congr_left
    intro i _
    simp only [Function.comp, pow_succ']
    rw [Nat.div_div_eq_div_mul]

theorem natToBytesBE_eq_reverse (v len : Nat) : natToBytesBE v len = (natToBytesLE v len).reverse := by
  apply List.ext_getElem
  · simp
  · intro i h1 h2
    simp only [natToBytesBE_length] at h1
    simp [natToBytesBE, natToBytesLE]

theorem natToBytesLE_eq_reverse (v len : Nat) : natToBytesLE v len = (natToBytesBE v len).reverse := by
  rw [natToBytesBE_eq_reverse, List.reverse_reverse]

theorem natToBytesLE_allBytes (v len : Nat) : AllBytes (natToBytesLE v len) := by
  intro b hb
  simp only [natToBytesLE, List.mem_map] at hb
  rcases hb with ⟨i, _, rfl⟩
  exact Nat.mod_lt _ (by norm_num)

theorem natToBytesBE_allBytes (v len : Nat) : AllBytes (natToBytesBE v len) := by
  rw [natToBytesBE_eq_reverse]; intro b hb; exact natToBytesLE_allBytes v len b (List.mem_reverse.mp hb)

/-! ### round trips -/

theorem bytesToNatLE_natToBytesLE_mod (v len : Nat) :
    bytesToNatLE (natToBytesLE v len) = v % 256 ^ len := by
  induction len generalizing v with
  | zero => simp [natToBytesLE_zero, bytesToNatLE_nil, Nat.mod_one]
  | succ n ih =>
    rw [natToBytesLE_succ, bytesToNatLE_cons, ih, Nat.mod_mod, pow_succ', Nat.mod_mul]

/-- value round trip, little endian -/
theorem bytesToNatLE_natToBytesLE {v len : Nat} (h : v < 256 ^ len) :
    bytesToNatLE (natToBytesLE v len) = v := by
  rw [bytesToNatLE_natToBytesLE_mod, Nat.mod_eq_of_lt h]

/-- byte round trip, little endian -/
theorem natToBytesLE_bytesToNatLE {bs : List Nat} (h : AllBytes bs) :
    natToBytesLE (bytesToNatLE bs) bs.length = bs := by
  induction bs with
  | nil => rfl
  | cons b bs ih =>
    rw [List.length_cons, natToBytesLE_succ, bytesToNatLE_cons]
    have hb : b < 256 := h.head
    have h1 : (b % 256 + 256 * bytesToNatLE bs) % 256 = b := by omega
    have h2 : (b % 256 + 256 * bytesToNatLE bs) / 256 = bytesToNatLE bs := by omega
    rw [h1, h2, ih h.tail]

theorem bytesToNatBE_natToBytesBE_mod (v len : Nat) :
    bytesToNatBE (natToBytesBE v len) = v % 256 ^ len := by
  rw [natToBytesBE_eq_reverse, bytesToNatBE_reverse, bytesToNatLE_natToBytesLE_mod]

/-- value round trip, big endian -/
theorem bytesToNatBE_natToBytesBE {v len : Nat} (h : v < 256 ^ len) :
    bytesToNatBE (natToBytesBE v len) = v := by
  rw [bytesToNatBE_natToBytesBE_mod, Nat.mod_eq_of_lt h]

/-- byte round trip, big endian -/
theorem natToBytesBE_bytesToNatBE {bs : List Nat} (h : AllBytes bs) :
    natToBytesBE (bytesToNatBE bs) bs.length = bs := by
  have hr : AllBytes bs.reverse := fun b hb => h b (List.mem_reverse.mp hb)
  have := natToBytesLE_bytesToNatLE hr
  rw [bytesToNatLE_reverse, List.length_reverse] at this
  rw [natToBytesBE_eq_reverse, this, List.reverse_reverse]

/-- the value determines a byte list of given length -/
theorem bytesToNatLE_inj {a b : List Nat} (ha : AllBytes a) (hb : AllBytes b) (hl : a.length = b.length)
    (h : bytesToNatLE a = bytesToNatLE b) : a = b := by
  rw [← natToBytesLE_bytesToNatLE ha, ← natToBytesLE_bytesToNatLE hb, h, hl]

theorem bytesToNatBE_inj {a b : List Nat} (ha : AllBytes a) (hb : AllBytes b) (hl : a.length = b.length)
    (h : bytesToNatBE a = bytesToNatBE b) : a = b := by
  rw [← natToBytesBE_bytesToNatBE ha, ← natToBytesBE_bytesToNatBE hb, h, hl]

/-! ### canonical scalars -/

theorem R_lt_256_pow_32 : R < 256 ^ 32 := by decide +kernel

@[simp] theorem scalarBytesLE_length (x : Nat) : (scalarBytesLE x).length = 32 := by
  simp [scalarBytesLE]

theorem scalarBytesLE_allBytes (x : Nat) : AllBytes (scalarBytesLE x) := natToBytesLE_allBytes _ _

/-- scalar round trip -/
theorem scalarFromBytes_scalarBytesLE {x : Nat} (h : x < R) :
    scalarFromBytes? (scalarBytesLE x) = some x := by
  unfold scalarFromBytes?
  have hv : bytesToNatLE (scalarBytesLE x) = x := by
    unfold scalarBytesLE
    rw [Nat.mod_eq_of_lt h]
    exact bytesToNatLE_natToBytesLE (lt_trans h R_lt_256_pow_32)
  simp [hv, h]

/-- scalar decoding is canonical: an accepted byte list is the encoding of the value -/
theorem scalarFromBytes_canonical {bs : List Nat} {x : Nat} (hb : AllBytes bs)
    (h : scalarFromBytes? bs = some x) : scalarBytesLE x = bs ∧ x < R := by
  unfold scalarFromBytes? at h
  split at h
  · cases h
  · next hl =>
    have hl : bs.length = 32 := by simpa using hl
    simp only at h
    split at h
    · next hlt =>
      cases h
      refine ⟨?_, hlt⟩
      unfold scalarBytesLE
      rw [Nat.mod_eq_of_lt hlt, ← hl]
      exact natToBytesLE_bytesToNatLE hb
    · cases h

theorem scalarFromBytes_length {bs : List Nat} {x : Nat} (h : scalarFromBytes? bs = some x) :
    bs.length = 32 := by
  unfold scalarFromBytes? at h
  split at h
  · cases h
  · next hl => simpa using hl

theorem scalarFromBytes_lt {bs : List Nat} {x : Nat} (h : scalarFromBytes? bs = some x) : x < R := by
  unfold scalarFromBytes? at h
  split at h
  · cases h
  · simp only at h
    split at h
    · next hlt => cases h; exact hlt
    · cases h

end Plonk
