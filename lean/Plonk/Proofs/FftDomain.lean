/-
  C19 (FFT half), domain level: `foldMod`, `resize`, `distributePowers` specifications; well-formed
  domains (every `Domain.new?` result is one); `Domain.fft/ifft/cosetFft/cosetIfft` in terms of the
  field-level DFT, for every thread count.
-/
import Plonk.Proofs.FftSerial

namespace Plonk
open Finset FftMath Polynomial

/-! ### small list facts -/

theorem seqF_map_mod (v : List Nat) : seqF (v.map (· % R)) = seqF v := by
  funext j
  unfold seqF
  by_cases h : j < v.length
  · rw [getD_eq_getElem' _ j (by simpa using h), getD_eq_getElem' _ j h, List.getElem_map, toF_mod]
  · rw [getD_of_le _ j (by simp; omega), getD_of_le _ j (by omega)]

theorem map_mod_lt (v : List Nat) : ∀ x ∈ v.map (· % R), x < R := by
  intro x hx
  rw [List.mem_map] at hx
  obtain ⟨y, _, rfl⟩ := hx
  exact Nat.mod_lt _ R_pos

theorem map_mod_of_lt (v : List Nat) (h : ∀ x ∈ v, x < R) : v.map (· % R) = v := by
  induction v with
  | nil => rfl
  | cons x v ih =>
    rw [List.map_cons, ih (fun y hy => h y (List.mem_cons_of_mem _ hy)),
      Nat.mod_eq_of_lt (h x (by simp))]

theorem mem_lt_of_getD_lt (v : List Nat) (h : ∀ i, v.getD i 0 < R) : ∀ x ∈ v, x < R := by
  intro x hx
  obtain ⟨i, hi, rfl⟩ := List.getElem_of_mem hx
  rw [← getD_eq_getElem' _ i hi]; exact h i

/-! ### `resize` -/

@[simp] theorem resize_length (v : List Nat) (n : Nat) : (resize v n).length = n := by
  unfold resize; simp; omega

theorem resize_getD (v : List Nat) (n i : Nat) :
    (resize v n).getD i 0 = if i < n then v.getD i 0 else 0 := by
  unfold resize
  simp only [List.getD_eq_getElem?_getD, List.getElem?_take]
  split
  · rw [List.getElem?_append]
    split
    · rfl
    · next h =>
      rw [List.getElem?_eq_none (by omega : v.length ≤ i)]
      by_cases h2 : i - v.length < n - v.length
      · simp [h2]
      · simp [h2]
  · rfl

theorem resize_mem_lt (v : List Nat) (n : Nat) (h : ∀ x ∈ v, x < R) : ∀ x ∈ resize v n, x < R := by
  apply mem_lt_of_getD_lt
  intro i
  rw [resize_getD]
  split
  · exact getD_lt_R v h i
  · exact R_pos

theorem resize_self (v : List Nat) : resize v v.length = v := by
  unfold resize; simp

theorem seqF_resize (v : List Nat) (n : Nat) (hn : v.length ≤ n) : seqF (resize v n) = seqF v := by
  funext j
  unfold seqF
  rw [resize_getD]
  split
  · rfl
  · rw [getD_of_le v j (by omega)]

/-! ### `foldMod` -/

@[simp] theorem foldMod_length (v : List Nat) (n : Nat) : (foldMod v n).length = n := by
  simp [foldMod]

theorem toF_foldl_fadd (g : Nat → Nat) (c : Nat) : ∀ a,
    toF ((List.range c).foldl (fun acc k => fadd acc (g k)) a) = toF a + ∑ k ∈ range c, toF (g k) := by
  induction c with
  | zero => intro a; simp
  | succ c ih =>
    intro a
    rw [List.range_succ, List.foldl_append, sum_range_succ]
    simp only [List.foldl_cons, List.foldl_nil, toF_fadd, ih]
    ring

theorem foldl_fadd_lt (g : Nat → Nat) (c : Nat) (a : Nat) (ha : a < R) :
    (List.range c).foldl (fun acc k => fadd acc (g k)) a < R := by
  cases c with
  | zero => simpa using ha
  | succ c =>
    rw [List.range_succ, List.foldl_append]
    simp only [List.foldl_cons, List.foldl_nil]
    exact fadd_lt _ _

theorem foldMod_getD (v : List Nat) (n i : Nat) (hi : i < n) :
    (foldMod v n).getD i 0
      = (List.range ((v.length + n - 1 - i) / n)).foldl (fun acc k => fadd acc (v.getD (i + k * n) 0)) 0 := by
  unfold foldMod
  rw [getD_map_range _ _ _ hi]

theorem foldMod_mem_lt (v : List Nat) (n : Nat) : ∀ x ∈ foldMod v n, x < R := by
  apply mem_lt_of_getD_lt
  intro i
  by_cases hi : i < n
  · rw [foldMod_getD v n i hi]; exact foldl_fadd_lt _ _ _ R_pos
  · rw [getD_of_le _ _ (by simp; omega)]; exact R_pos

theorem foldCount_bound (len n i k : Nat) (hi : i < n) (hk : (len + n - 1 - i) / n ≤ k) :
    len ≤ i + k * n := by
  have h1 := Nat.div_add_mod (len + n - 1 - i) n
  have h2 := Nat.mod_lt (len + n - 1 - i) (by omega : 0 < n)
  have h3 : (len + n - 1 - i) / n * n ≤ k * n := Nat.mul_le_mul_right _ hk
  have h4 : n * ((len + n - 1 - i) / n) = (len + n - 1 - i) / n * n := Nat.mul_comm _ _
  omega

theorem foldCount_le (len n i : Nat) (hi : i < n) : (len + n - 1 - i) / n ≤ len := by
  rcases Nat.eq_zero_or_pos len with h | h
  · subst h; rw [Nat.div_eq_of_lt (by omega)]
  · apply Nat.div_le_of_le_mul
    have : n + len ≤ n * len + 1 := by
      obtain ⟨n', rfl⟩ : ∃ n', n = n' + 1 := ⟨n - 1, by omega⟩
      obtain ⟨l', rfl⟩ : ∃ l', len = l' + 1 := ⟨len - 1, by omega⟩
      rw [Nat.succ_mul, Nat.mul_succ]; omega
    omega

/-- **`foldMod` spec**: entry `i` is the sum of the coefficients `i, i+n, i+2n, …` -/
theorem toF_foldMod_getD (v : List Nat) (n i : Nat) (hi : i < n) :
    toF ((foldMod v n).getD i 0) = foldN n v.length (seqF v) i := by
  rw [foldMod_getD v n i hi, toF_foldl_fadd]
  unfold foldN
  rw [toF_zero, zero_add]
  apply sum_subset (range_subset_range.mpr (foldCount_le _ _ _ hi))
  intro k _ hk
  have := foldCount_bound v.length n i k hi (by simpa using hk)
  exact seqF_of_le v _ this

/-- for inputs not longer than the domain, `foldMod` is reduction plus zero padding -/
theorem foldMod_eq_resize (v : List Nat) (n : Nat) (hlen : v.length ≤ n) :
    foldMod v n = resize (v.map (· % R)) n := by
  apply list_ext_getD _ _ (by simp)
  intro i hi
  have hi' : i < n := by simpa using hi
  apply (toF_inj_of_lt (getD_lt_R _ (foldMod_mem_lt v n) i)
    (getD_lt_R _ (resize_mem_lt _ n (map_mod_lt v)) i)).mp
  rw [toF_foldMod_getD v n i hi']
  have : toF ((resize (v.map (· % R)) n).getD i 0) = seqF (resize (v.map (· % R)) n) i := rfl
  rw [this, seqF_resize _ _ (by simpa using hlen), seqF_map_mod]
  unfold foldN
  rcases Nat.eq_zero_or_pos v.length with h0 | hpos
  · rw [h0]; simp [seqF_of_le v i (by omega)]
  · have hsub : ({0} : Finset ℕ) ⊆ range v.length := by
      intro x hx; simp at hx; subst hx; simpa using hpos
    rw [← sum_subset hsub]
    · simp
    · intro k _ hk
      have hk' : 1 ≤ k := by
        simp at hk; omega
      apply seqF_of_le
      have : n ≤ k * n := Nat.le_mul_of_pos_left _ hk'
      omega

/-- `dft` after `foldMod` is evaluation of the long polynomial on the subgroup -/
theorem toF_dft_foldMod (ω : Nat) (v : List Nat) (n i : Nat) (hi : i < n) (hn : n ≤ 2 ^ 256)
    (hω : toF ω ^ n = 1) :
    toF ((dft ω (foldMod v n)).getD i 0) = (polyN v.length (seqF v)).eval (toF ω ^ i) := by
  rw [toF_dft_getD ω _ i (by simpa using hi) (by simpa using hn), foldMod_length]
  rw [dftN_congr _ _ _ (foldN n v.length (seqF v)) _
    (fun j hj => by show toF _ = _; rw [toF_foldMod_getD v n j hj])]
  rw [dftN_fold hω]
  congr 1
  apply polyN_extend
  · exact Nat.le_mul_of_pos_left _ (by omega)
  · intro j hj; exact seqF_of_le v j hj

/-! ### `distributePowers` -/

/-- recursive form of `distributePowers` with running power `w` -/
def dpSpec (g : Nat) : List Nat → Nat → List Nat
  | [], _ => []
  | c :: v, w => fmul c w :: dpSpec g v (fmul w g)

theorem dp_fold (g : Nat) (v : List Nat) : ∀ (acc : List Nat) (w : Nat),
    (v.foldl (fun (acc : List Nat × Nat) c => (fmul c acc.2 :: acc.1, fmul acc.2 g)) (acc, w)).1
      = (dpSpec g v w).reverse ++ acc := by
  induction v with
  | nil => intro acc w; simp [dpSpec]
  | cons c v ih => intro acc w; rw [List.foldl_cons, ih]; simp [dpSpec]

theorem distributePowers_eq (v : List Nat) (g : Nat) :
    Domain.distributePowers v g = dpSpec g v (1 % R) := by
  unfold Domain.distributePowers
  rw [dp_fold]; simp

theorem dpSpec_length (g : Nat) (v : List Nat) : ∀ w, (dpSpec g v w).length = v.length := by
  induction v with
  | nil => intro w; rfl
  | cons c v ih => intro w; simp [dpSpec, ih]

theorem toF_dpSpec_getD (g : Nat) (v : List Nat) : ∀ (w j : Nat),
    toF ((dpSpec g v w).getD j 0) = toF (v.getD j 0) * (toF w * toF g ^ j) := by
  induction v with
  | nil => intro w j; simp [dpSpec]
  | cons c v ih =>
    intro w j
    cases j with
    | zero => simp [dpSpec]
    | succ j =>
      simp only [dpSpec, List.getD_cons_succ, ih, toF_fmul, pow_succ]
      ring

theorem dpSpec_mem_lt (g : Nat) (v : List Nat) : ∀ w, ∀ x ∈ dpSpec g v w, x < R := by
  induction v with
  | nil => intro w x hx; simp [dpSpec] at hx
  | cons c v ih =>
    intro w x hx
    simp only [dpSpec, List.mem_cons] at hx
    rcases hx with rfl | hx
    · exact fmul_lt _ _
    · exact ih _ x hx

@[simp] theorem distributePowers_length (v : List Nat) (g : Nat) :
    (Domain.distributePowers v g).length = v.length := by
  rw [distributePowers_eq, dpSpec_length]

/-- **`distributePowers` spec**: coefficient `j` is multiplied by `g^j` -/
theorem toF_distributePowers_getD (v : List Nat) (g j : Nat) :
    toF ((Domain.distributePowers v g).getD j 0) = toF (v.getD j 0) * toF g ^ j := by
  rw [distributePowers_eq, toF_dpSpec_getD]; simp

theorem seqF_distributePowers (v : List Nat) (g : Nat) :
    seqF (Domain.distributePowers v g) = fun j => seqF v j * toF g ^ j := by
  funext j; exact toF_distributePowers_getD v g j

theorem distributePowers_mem_lt (v : List Nat) (g : Nat) :
    ∀ x ∈ Domain.distributePowers v g, x < R := by
  rw [distributePowers_eq]; exact dpSpec_mem_lt g v _

/-! ### well-formed domains -/

/-- what `EvaluationDomain::new` guarantees about its fields -/
structure Domain.WF (d : Domain) : Prop where
  size_eq : d.size = 2 ^ d.logSize
  prim : IsPrimitiveRoot (toF d.groupGen) d.size
  genInv : toF d.groupGenInv = (toF d.groupGen)⁻¹
  sizeInv : toF d.sizeInv = ((d.size : ℕ) : F)⁻¹
  generatorInv : toF d.generatorInv = (toF GENERATOR)⁻¹

theorem Domain.WF.size_pos {d : Domain} (h : d.WF) : 0 < d.size := by
  rw [h.size_eq]; exact Nat.pow_pos (by omega)

theorem Domain.WF.size_lt {d : Domain} (h : d.WF) : d.size < 2 ^ 256 :=
  order_lt_of_primitive h.size_pos h.prim

theorem Domain.WF.size_ne_zero {d : Domain} (h : d.WF) : ((d.size : ℕ) : F) ≠ 0 := by
  have hz : toF d.groupGen ≠ 0 := h.prim.ne_zero (by have := h.size_pos; omega)
  have h1 : toF d.groupGen ^ (R - 1) = 1 := ZMod.pow_card_sub_one_eq_one hz
  have h2 : d.size ∣ R - 1 := h.prim.dvd_of_pow_eq_one _ h1
  have h3 : d.size ≤ R - 1 := Nat.le_of_dvd (by have := R_gt_one; omega) h2
  intro h0
  rw [ZMod.natCast_eq_zero_iff] at h0
  have := Nat.le_of_dvd h.size_pos h0
  have := R_gt_one
  omega

theorem Domain.WF.primInv {d : Domain} (h : d.WF) : IsPrimitiveRoot (toF d.groupGenInv) d.size := by
  rw [h.genInv]; exact h.prim.inv

theorem Domain.WF.logSize_le {d : Domain} (h : d.WF) : d.logSize ≤ 256 := by
  by_contra hc
  have : 2 ^ 256 ≤ 2 ^ d.logSize := Nat.pow_le_pow_right (by omega) (by omega)
  have := h.size_lt
  rw [h.size_eq] at this
  omega

theorem generator_ne_zero : toF GENERATOR ≠ 0 := by
  rw [Ne, toF_eq_zero_iff]; decide +kernel

/-! ### `Domain.new?` produces well-formed domains -/

theorem nextPow2'_go (n : Nat) : ∀ (f j : Nat), ∃ j', j' ≤ j + f ∧ nextPow2'.go n f (2 ^ j) = 2 ^ j' := by
  intro f
  induction f with
  | zero => intro j; exact ⟨j, by omega, rfl⟩
  | succ f ih =>
    intro j
    unfold nextPow2'.go
    split
    · exact ⟨j, by omega, rfl⟩
    · obtain ⟨j', h1, h2⟩ := ih (j + 1)
      refine ⟨j', by omega, ?_⟩
      rw [← h2, Nat.pow_succ, Nat.mul_comm]

theorem nextPow2'_pow (n : Nat) : ∃ j, j ≤ 64 ∧ nextPow2' n = 2 ^ j := by
  obtain ⟨j, h1, h2⟩ := nextPow2'_go n 64 0
  exact ⟨j, by omega, h2⟩

theorem log2_go (f : Nat) : ∀ (j k : Nat), j ≤ f → log2.go f (2 ^ j) k = k + j := by
  induction f with
  | zero => intro j k hj; have : j = 0 := by omega
            subst this; rfl
  | succ f ih =>
    intro j k hj
    unfold log2.go
    cases j with
    | zero => simp
    | succ j =>
      have h1 : ¬ 2 ^ (j + 1) ≤ 1 := by
        have : 0 < 2 ^ j := Nat.pow_pos (by omega)
        rw [Nat.pow_succ]; omega
      rw [if_neg h1]
      have h2 : 2 ^ (j + 1) / 2 = 2 ^ j := by rw [Nat.pow_succ]; omega
      rw [h2, ih j (k + 1) (by omega)]; omega

theorem log2_pow (j : Nat) (hj : j ≤ 64) : log2 (2 ^ j) = j := by
  unfold log2; rw [log2_go 64 j 0 hj]; omega

theorem toF_fsq_iter (g : Nat) (c : Nat) :
    toF ((List.range c).foldl (fun g _ => fsq g) g) = toF g ^ 2 ^ c := by
  induction c with
  | zero => simp
  | succ c ih =>
    rw [List.range_succ, List.foldl_append]
    simp only [List.foldl_cons, List.foldl_nil, toF_fsq, ih]
    rw [← pow_two, ← pow_mul, Nat.pow_succ]

theorem root_of_unity_primitive : IsPrimitiveRoot (toF ROOT_OF_UNITY) (2 ^ 32) := by
  have h1 : fpow ROOT_OF_UNITY (2 ^ 32) = 1 := by decide +kernel
  have h2 : fpow ROOT_OF_UNITY (2 ^ 31) = R - 1 := by decide +kernel
  have e1 : toF ROOT_OF_UNITY ^ 2 ^ 32 = 1 := by
    rw [← toF_fpow _ _ (Nat.pow_lt_pow_right (by omega) (by omega)), h1, toF_one]
  have e2 : toF ROOT_OF_UNITY ^ 2 ^ 31 = -1 := by
    rw [← toF_fpow _ _ (Nat.pow_lt_pow_right (by omega) (by omega)), h2, toF_R_sub_one]
  have hne : ¬ toF ROOT_OF_UNITY ^ 2 ^ 31 = 1 := by
    rw [e2]
    intro h
    have h2 : toF (R - 1) = toF 1 := by rw [toF_R_sub_one, toF_one]; exact h
    have := (toF_inj_of_lt (by have := R_pos; omega) R_gt_one).mp h2
    revert this; decide +kernel
  have := orderOf_eq_prime_pow (p := 2) (n := 31) hne e1
  rw [← this]
  exact IsPrimitiveRoot.orderOf _

/-- **every domain built by `Domain.new?` is well formed**, with `logSize < 32` -/
theorem Domain.new?_wf (m : Nat) (d : Domain) (h : Domain.new? m = some d) :
    d.WF ∧ d.logSize < 32 := by
  obtain ⟨j, hj, hp⟩ := nextPow2'_pow m
  unfold Domain.new? at h
  simp only [hp, log2_pow j hj] at h
  split at h
  · simp at h
  · next hlt =>
    simp only [TWO_ADACITY, ge_iff_le, Nat.not_le] at hlt
    injection h with h
    subst h
    refine ⟨?_, hlt⟩
    constructor
    · rfl
    · show IsPrimitiveRoot (toF ((List.range (TWO_ADACITY - j)).foldl (fun g _ => fsq g) ROOT_OF_UNITY)) (2 ^ j)
      rw [toF_fsq_iter]
      have hdvd : 2 ^ (32 - j) ∣ 2 ^ 32 := Nat.pow_dvd_pow 2 (by omega)
      have := root_of_unity_primitive.pow_of_dvd (p := 2 ^ (32 - j))
        (Nat.pos_iff_ne_zero.mp (Nat.pow_pos (by omega))) hdvd
      have e : 2 ^ 32 / 2 ^ (32 - j) = 2 ^ j := by
        rw [Nat.pow_div (by omega) (by omega)]
        congr 1; omega
      rw [e] at this
      exact this
    · dsimp only
      rw [toF_finv]
    · dsimp only
      rw [toF_finv, toF_mod]; rfl
    · dsimp only
      rw [toF_finv]

theorem nextPow2'_go_ge_of_le (n : Nat) : ∀ (f j : Nat), n ≤ 2 ^ (j + f) → n ≤ nextPow2'.go n f (2 ^ j) := by
  intro f
  induction f with
  | zero => intro j h; exact h
  | succ f ih =>
    intro j h
    unfold nextPow2'.go
    split
    · next hge => exact hge
    · have := ih (j + 1) (by rw [show j + 1 + f = j + (f + 1) by omega]; exact h)
      rwa [Nat.pow_succ, Nat.mul_comm] at this

theorem nextPow2'_go_of_lt (n : Nat) : ∀ (f j : Nat), 2 ^ (j + f) < n →
    nextPow2'.go n f (2 ^ j) = 2 ^ (j + f) := by
  intro f
  induction f with
  | zero => intro j _; rfl
  | succ f ih =>
    intro j h
    unfold nextPow2'.go
    have hlt : ¬ 2 ^ j ≥ n := by
      have : 2 ^ j ≤ 2 ^ (j + (f + 1)) := Nat.pow_le_pow_right (by omega) (by omega)
      omega
    rw [if_neg hlt]
    have := ih (j + 1) (by rw [show j + 1 + f = j + (f + 1) by omega]; exact h)
    rw [show j + 1 + f = j + (f + 1) by omega, Nat.pow_succ, Nat.mul_comm] at this
    exact this

/-- the domain is at least as large as requested -/
theorem Domain.new?_size_ge (m : Nat) (d : Domain) (h : Domain.new? m = some d) : m ≤ d.size := by
  by_cases hm : m ≤ 2 ^ 64
  · have hge : m ≤ nextPow2' m := nextPow2'_go_ge_of_le m 64 0 (by simpa using hm)
    unfold Domain.new? at h
    simp only at h
    split at h
    · simp at h
    · injection h with h
      subst h
      exact hge
  · have hp : nextPow2' m = 2 ^ 64 := nextPow2'_go_of_lt m 64 0 (by simpa using hm)
    unfold Domain.new? at h
    simp only [hp, log2_pow 64 (Nat.le_refl _)] at h
    simp [TWO_ADACITY] at h

theorem Domain.new?_WF (m : Nat) (d : Domain) (h : Domain.new? m = some d) : d.WF :=
  (Domain.new?_wf m d h).1

/-! ### the four transforms -/

theorem getD_map_fmul (l : List Nat) (c j : Nat) (hj : j < l.length) :
    (l.map (fmul · c)).getD j 0 = fmul (l.getD j 0) c := by
  rw [getD_eq_getElem' _ j (by simpa using hj), getD_eq_getElem' _ j hj, List.getElem_map]

section transforms
variable {d : Domain} (hd : d.WF) {threads : Nat} (ht : 1 ≤ threads)
include hd ht

/-- `Domain.fft` is the model's direct evaluation `dft` of the folded input -/
theorem Domain.fft_eq_dft (v : List Nat) :
    d.fft v threads = dft d.groupGen (foldMod (v.map (· % R)) d.size) := by
  unfold Domain.fft
  exact bestFft_eq_dft d.logSize d.groupGen threads _ ht (by rw [foldMod_length, hd.size_eq])
    (foldMod_mem_lt _ _) (by rw [← hd.size_eq]; exact hd.prim)

theorem Domain.fft_length (v : List Nat) : (d.fft v threads).length = d.size := by
  rw [Domain.fft_eq_dft hd ht]; simp

theorem Domain.fft_mem_lt (v : List Nat) : ∀ x ∈ d.fft v threads, x < R := by
  rw [Domain.fft_eq_dft hd ht]; exact dft_mem_lt _ _

/-- `Domain.fft` evaluates the coefficient polynomial (of any length) on the subgroup -/
theorem Domain.toF_fft_getD (v : List Nat) (i : Nat) (hi : i < d.size) :
    toF ((d.fft v threads).getD i 0) = (polyN v.length (seqF v)).eval (toF d.groupGen ^ i) := by
  rw [Domain.fft_eq_dft hd ht, toF_dft_foldMod _ _ _ _ hi hd.size_lt.le hd.prim.pow_eq_one,
    List.length_map, seqF_map_mod]

/-- `Domain.ifft` is `1/n` times the model's `dft` with the inverse root of the resized input -/
theorem Domain.ifft_eq_dft (e : List Nat) :
    d.ifft e threads
      = (dft d.groupGenInv (resize (e.map (· % R)) d.size)).map (fmul · d.sizeInv) := by
  unfold Domain.ifft
  rw [bestFft_eq_dft d.logSize d.groupGenInv threads _ ht (by rw [resize_length, hd.size_eq])
    (resize_mem_lt _ _ (map_mod_lt e)) (by rw [← hd.size_eq]; exact hd.primInv)]

theorem Domain.ifft_length (e : List Nat) : (d.ifft e threads).length = d.size := by
  rw [Domain.ifft_eq_dft hd ht]; simp

theorem Domain.ifft_mem_lt (e : List Nat) : ∀ x ∈ d.ifft e threads, x < R := by
  rw [Domain.ifft_eq_dft hd ht]
  intro x hx
  rw [List.mem_map] at hx
  obtain ⟨y, _, rfl⟩ := hx
  exact fmul_lt _ _

/-- `Domain.ifft` is the inverse DFT of (the first `n` entries of) its input -/
theorem Domain.toF_ifft_getD (e : List Nat) (j : Nat) (hj : j < d.size) :
    toF ((d.ifft e threads).getD j 0)
      = ((d.size : ℕ) : F)⁻¹ *
          dftN (toF d.groupGen)⁻¹ d.size (seqF (resize e d.size)) j := by
  rw [Domain.ifft_eq_dft hd ht, getD_map_fmul _ _ _ (by simpa using hj), toF_fmul, hd.sizeInv,
    toF_dft_getD _ _ j (by simpa using hj) (by simpa using hd.size_lt.le), resize_length, hd.genInv,
    mul_comm]
  congr 1
  apply dftN_congr
  intro l hl
  unfold seqF
  rw [resize_getD, resize_getD, if_pos hl, if_pos hl]
  exact congrFun (seqF_map_mod e) l

/-- interpolation: the polynomial whose coefficients `Domain.ifft` returns takes the given values
    on the subgroup -/
theorem Domain.eval_ifft (e : List Nat) (he : e.length = d.size) (i : Nat) (hi : i < d.size) :
    (polyN d.size (seqF (d.ifft e threads))).eval (toF d.groupGen ^ i) = toF (e.getD i 0) := by
  rw [← dftN_eq_eval]
  rw [dftN_congr _ _ _ (fun j => ((d.size : ℕ) : F)⁻¹ * dftN (toF d.groupGen)⁻¹ d.size (seqF e) j) _
    (fun j hj => by
      show toF _ = _
      rw [Domain.toF_ifft_getD hd ht e j hj, seqF_resize e _ (by omega)])]
  exact dftN_idftN hd.prim hd.size_ne_zero (seqF e) hi

/-- `ifft ∘ fft` is the identity on coefficient vectors that fit the domain -/
theorem Domain.ifft_fft {t1 : Nat} (ht1 : 1 ≤ t1) (v : List Nat) (hlen : v.length ≤ d.size) :
    d.ifft (d.fft v t1) threads = resize (v.map (· % R)) d.size := by
  apply list_ext_getD _ _ (by rw [Domain.ifft_length hd ht, resize_length])
  intro j hj
  rw [Domain.ifft_length hd ht] at hj
  apply (toF_inj_of_lt (getD_lt_R _ (Domain.ifft_mem_lt hd ht _) j)
    (getD_lt_R _ (resize_mem_lt _ _ (map_mod_lt v)) j)).mp
  rw [Domain.toF_ifft_getD hd ht _ j hj,
    seqF_resize _ _ (by rw [Domain.fft_length hd ht1])]
  rw [dftN_congr _ _ _ (fun i => dftN (toF d.groupGen) d.size
      (seqF (resize (v.map (· % R)) d.size)) i) _
    (fun i hi => by
      show toF _ = _
      rw [Domain.fft_eq_dft hd ht1, foldMod_eq_resize _ _ (by simpa using hlen),
        toF_dft_getD _ _ i (by simpa using hi) (by simpa using hd.size_lt.le), resize_length,
        map_mod_of_lt _ (map_mod_lt v)])]
  exact idftN_dftN hd.prim hd.size_ne_zero _ hj

/-- `fft ∘ ifft` is the identity on value vectors of the domain's size -/
theorem Domain.fft_ifft {t1 : Nat} (ht1 : 1 ≤ t1) (e : List Nat) (he : e.length = d.size) :
    d.fft (d.ifft e t1) threads = e.map (· % R) := by
  apply list_ext_getD _ _ (by rw [Domain.fft_length hd ht, List.length_map, he])
  intro i hi
  rw [Domain.fft_length hd ht] at hi
  apply (toF_inj_of_lt (getD_lt_R _ (Domain.fft_mem_lt hd ht _) i)
    (getD_lt_R _ (map_mod_lt e) i)).mp
  rw [Domain.toF_fft_getD hd ht _ i hi, Domain.ifft_length hd ht1, Domain.eval_ifft hd ht1 e he i hi]
  exact (congrFun (seqF_map_mod e) i).symm

/-- `Domain.cosetFft` evaluates the coefficient polynomial (of any length) on the coset -/
theorem Domain.toF_cosetFft_getD (v : List Nat) (i : Nat) (hi : i < d.size) :
    toF ((d.cosetFft v threads).getD i 0)
      = (polyN v.length (seqF v)).eval (toF GENERATOR * toF d.groupGen ^ i) := by
  unfold Domain.cosetFft
  rw [Domain.toF_fft_getD hd ht _ i hi, distributePowers_length, seqF_distributePowers,
    eval_polyN_scale]

theorem Domain.cosetFft_length (v : List Nat) : (d.cosetFft v threads).length = d.size := by
  unfold Domain.cosetFft; exact Domain.fft_length hd ht _

theorem Domain.cosetIfft_length (e : List Nat) : (d.cosetIfft e threads).length = d.size := by
  unfold Domain.cosetIfft; rw [distributePowers_length, Domain.ifft_length hd ht]

/-- coset interpolation: the polynomial whose coefficients `Domain.cosetIfft` returns takes the
    given values on the coset -/
theorem Domain.eval_cosetIfft (e : List Nat) (he : e.length = d.size) (i : Nat) (hi : i < d.size) :
    (polyN d.size (seqF (d.cosetIfft e threads))).eval (toF GENERATOR * toF d.groupGen ^ i)
      = toF (e.getD i 0) := by
  unfold Domain.cosetIfft
  rw [seqF_distributePowers, eval_polyN_scale, hd.generatorInv, ← mul_assoc,
    inv_mul_cancel₀ generator_ne_zero, one_mul]
  exact Domain.eval_ifft hd ht e he i hi

end transforms

/-- scaling by the powers of `a` and then by the powers of `b` with `a·b = 1` is the identity on
    canonical vectors -/
theorem distributePowers_cancel (x : List Nat) (hx : ∀ y ∈ x, y < R) (a b : Nat)
    (hab : toF a * toF b = 1) :
    Domain.distributePowers (Domain.distributePowers x a) b = x := by
  apply list_ext_getD _ _ (by simp)
  intro j _
  apply (toF_inj_of_lt (getD_lt_R _ (distributePowers_mem_lt _ _) j) (getD_lt_R _ hx j)).mp
  rw [toF_distributePowers_getD, toF_distributePowers_getD, mul_assoc, ← mul_pow, hab, one_pow,
    mul_one]

theorem distributePowers_resize (w : List Nat) (g n : Nat) :
    Domain.distributePowers (resize w n) g = resize (Domain.distributePowers w g) n := by
  apply list_ext_getD _ _ (by simp)
  intro j hj
  have hj' : j < n := by simpa using hj
  apply (toF_inj_of_lt (getD_lt_R _ (distributePowers_mem_lt _ _) j)
    (getD_lt_R _ (resize_mem_lt _ _ (distributePowers_mem_lt _ _)) j)).mp
  rw [toF_distributePowers_getD, resize_getD, resize_getD, if_pos hj', if_pos hj',
    toF_distributePowers_getD]

section coset
variable {d : Domain} (hd : d.WF) {threads : Nat} (ht : 1 ≤ threads)
include hd ht

/-- `cosetIfft ∘ cosetFft` is the identity on coefficient vectors that fit the domain -/
theorem Domain.cosetIfft_cosetFft {t1 : Nat} (ht1 : 1 ≤ t1) (v : List Nat)
    (hlen : v.length ≤ d.size) :
    d.cosetIfft (d.cosetFft v t1) threads = resize (v.map (· % R)) d.size := by
  unfold Domain.cosetIfft Domain.cosetFft
  rw [Domain.ifft_fft hd ht ht1 _ (by simpa using hlen),
    map_mod_of_lt _ (distributePowers_mem_lt _ _),
    distributePowers_resize _ _ _]
  have h1 : Domain.distributePowers v GENERATOR
      = Domain.distributePowers (v.map (· % R)) GENERATOR := by
    apply list_ext_getD _ _ (by simp)
    intro j _
    apply (toF_inj_of_lt (getD_lt_R _ (distributePowers_mem_lt _ _) j)
      (getD_lt_R _ (distributePowers_mem_lt _ _) j)).mp
    rw [toF_distributePowers_getD, toF_distributePowers_getD]
    congr 1
    exact (congrFun (seqF_map_mod v) j).symm
  rw [h1, distributePowers_cancel _ (map_mod_lt v) _ _
    (by rw [hd.generatorInv, mul_inv_cancel₀ generator_ne_zero])]

/-- `cosetFft ∘ cosetIfft` is the identity on value vectors of the domain's size -/
theorem Domain.cosetFft_cosetIfft {t1 : Nat} (ht1 : 1 ≤ t1) (e : List Nat)
    (he : e.length = d.size) :
    d.cosetFft (d.cosetIfft e t1) threads = e.map (· % R) := by
  unfold Domain.cosetIfft Domain.cosetFft
  rw [distributePowers_cancel _ (Domain.ifft_mem_lt hd ht1 e) _ _
    (by rw [hd.generatorInv, inv_mul_cancel₀ generator_ne_zero])]
  exact Domain.fft_ifft hd ht ht1 e he

end coset

/-! ### thread independence of the four transforms -/

/-- the thread count is irrelevant (no well-formedness needed beyond `logSize ≤ 256`) -/
theorem Domain.threads_irrelevant (d : Domain) (hlog : d.logSize ≤ 256) (v : List Nat)
    (threads : Nat) (ht : 1 ≤ threads) :
    d.fft v threads = d.fft v 1 ∧ d.ifft v threads = d.ifft v 1 ∧
    d.cosetFft v threads = d.cosetFft v 1 ∧ d.cosetIfft v threads = d.cosetIfft v 1 := by
  have h1 : ∀ w, d.fft w threads = d.fft w 1 := by
    intro w
    unfold Domain.fft
    rw [bestFft_eq_serialFft _ _ _ _ ht hlog, bestFft_eq_serialFft _ _ _ _ (Nat.le_refl 1) hlog]
  have h2 : ∀ w, d.ifft w threads = d.ifft w 1 := by
    intro w
    unfold Domain.ifft
    rw [bestFft_eq_serialFft _ _ _ _ ht hlog, bestFft_eq_serialFft _ _ _ _ (Nat.le_refl 1) hlog]
  refine ⟨h1 v, h2 v, ?_, ?_⟩
  · unfold Domain.cosetFft; exact h1 _
  · unfold Domain.cosetIfft; rw [h2]

end Plonk
