/-
  C05 (prover exactness), algebraic half — combination at the polynomial level:
  for polynomials that interpolate the table (`Interpolates`; the model's `blindPoly` / `ifft`
  polynomials do, `modelPolys_interpolates`), `X^n − 1` divides the numerator polynomial for all
  challenges of a grid iff every row identity of the model holds and the grand products agree
  (`prover_exact_poly`); and the entries of the model's `quotientEvals` are the values of
  `Num / (X^n − 1)` at the points whose values the arrays store (`quotient_entry_coset`).
-/
import Plonk.Proofs.QuotientModel
import Plonk.Proofs.DomainBridge

namespace Plonk.Quot
open Plonk Polynomial FftMath

theorem natCast_ne_zero_of_prim {ω : F} {n : ℕ} (hn : 0 < n) (hω : IsPrimitiveRoot ω n) :
    (n : F) ≠ 0 := by
  have hz : ω ≠ 0 := hω.ne_zero (by omega)
  have h1 : ω ^ (R - 1) = 1 := ZMod.pow_card_sub_one_eq_one hz
  have h2 : n ∣ R - 1 := hω.dvd_of_pow_eq_one _ h1
  have h3 : n ≤ R - 1 := Nat.le_of_dvd (by have := R_gt_one; omega) h2
  intro h0
  rw [ZMod.natCast_eq_zero_iff] at h0
  have := Nat.le_of_dvd hn h0
  have := R_gt_one
  omega

/-- the prover's polynomials take the table's values on the domain -/
structure Interpolates (ω : F) (n : Nat) (P : ProverPolys F) (G : Nat → Gate)
    (roots aS bS cS dS piS : List Nat) (sigE : List (List Nat)) (z : List Nat) : Prop where
  root : ∀ i < n, toF (roots.getD i 0) = ω ^ i
  sel : ∀ i < n, P.Q.map (eval (ω ^ i)) = selF (G i)
  a : ∀ i < n, P.a.eval (ω ^ i) = toF (aS.getD i 0)
  b : ∀ i < n, P.b.eval (ω ^ i) = toF (bS.getD i 0)
  c : ∀ i < n, P.c.eval (ω ^ i) = toF (cS.getD i 0)
  d : ∀ i < n, P.d.eval (ω ^ i) = toF (dS.getD i 0)
  pi : ∀ i < n, P.pi.eval (ω ^ i) = toF (piS.getD i 0)
  s1 : ∀ i < n, P.s1.eval (ω ^ i) = toF ((sigE.getD 0 []).getD i 0)
  s2 : ∀ i < n, P.s2.eval (ω ^ i) = toF ((sigE.getD 1 []).getD i 0)
  s3 : ∀ i < n, P.s3.eval (ω ^ i) = toF ((sigE.getD 2 []).getD i 0)
  s4 : ∀ i < n, P.s4.eval (ω ^ i) = toF ((sigE.getD 3 []).getD i 0)
  z : ∀ i < n, P.z.eval (ω ^ i) = toF (z.getD i 0)

/-- **The numerator at a domain point, on the model's table.** The numerator polynomial of
    interpolating polynomials takes at `ω^i` the value `rowNum … i`, which reads rows `i` and
    `(i+1) mod n` of the table. -/
theorem NumP_eval_root {ω : F} {n : ℕ} (hn : 0 < n) (hω : IsPrimitiveRoot ω n)
    {P : ProverPolys F} {G : Nat → Gate} {roots aS bS cS dS piS : List Nat} {sigE : List (List Nat)}
    {z : List Nat} (I : Interpolates ω n P G roots aS bS cS dS piS sigE z) (ch : Chal F) (s : Seps F)
    {i : ℕ} (hi : i < n) :
    (NumP ω n P ch s).eval (ω ^ i) = rowNum n G roots aS bS cS dS piS sigE z ch s i := by
  have hm : (i + 1) % n < n := Nat.mod_lt _ hn
  rw [numerator_at_root_poly hω (natCast_ne_zero_of_prim hn hω) P ch s hi, I.sel i hi, I.a i hi,
    I.b i hi, I.c i hi, I.d i hi, I.pi i hi, I.s1 i hi, I.s2 i hi, I.s3 i hi, I.s4 i hi, I.z i hi,
    I.a _ hm, I.b _ hm, I.d _ hm, I.z _ hm, ← I.root i hi]
  rfl

/-- **Prover exactness, algebraic half.** For polynomials interpolating the table and the
    accumulator of the model's `permVec`: the vanishing polynomial `X^n − 1` divides the quotient
    numerator for every `α` of a set with at least two elements and every separation challenge of a
    grid with more than `7 / 9 / 7 / 5` values per axis iff every row identity of the model holds on
    every row (next row cyclic) and the grand products agree. -/
theorem prover_exact_poly {ω : F} {n : ℕ} (hn : 0 < n) (hω : IsPrimitiveRoot ω n)
    (P : ProverPolys F) (G : Nat → Gate) (hG : ∀ i < n, SelReduced (G i))
    (roots aS bS cS dS piS : List Nat) (sigE : List (List Nat)) (beta gamma : Nat) (z : List Nat)
    (hz : permVec n roots aS bS cS dS sigE beta gamma = some z)
    (I : Interpolates ω n P G roots aS bS cS dS piS sigE z)
    (Sα Sr Sl Sf Sv : Finset F) (hα : 1 < Sα.card) (hr : 7 < Sr.card) (hl : 9 < Sl.card)
    (hf : 7 < Sf.card) (hv : 5 < Sv.card) :
    (∀ α ∈ Sα, ∀ ρ ∈ Sr, ∀ l ∈ Sl, ∀ φ ∈ Sf, ∀ ν ∈ Sv,
      (X ^ n - 1 : F[X]) ∣ NumP ω n P ⟨toF beta, toF gamma, α⟩ ⟨ρ, l, φ, ν⟩) ↔
    (∀ i < n, rowOK n G aS bS cS dS piS i) ∧
      ∏ i ∈ Finset.range n, numF roots aS bS cS dS beta gamma i =
        ∏ i ∈ Finset.range n, denF aS bS cS dS sigE beta gamma i := by
  rw [← prover_exact_model n hn G hG roots aS bS cS dS piS sigE beta gamma z hz Sα Sr Sl Sf Sv hα hr
    hl hf hv]
  apply forall₂_congr; intro α _
  apply forall₂_congr; intro ρ _
  apply forall₂_congr; intro l _
  apply forall₂_congr; intro φ _
  apply forall₂_congr; intro ν _
  rw [divisible_iff_vanishes hn hω]
  apply forall₂_congr; intro i hi
  rw [NumP_eval_root hn hω I _ _ hi]

/-! ### the model's polynomials interpolate -/

/-- a selector column as `Compiler::preprocess` builds it -/
noncomputable def selCol (d : Domain) (G : Nat → Gate) (f : Gate → Nat) : F[X] :=
  toPoly (Poly.ofCoeffs (d.ifft ((List.range d.size).map fun i => f (G i))))

theorem eval_selCol {d : Domain} (hd : d.WF) (G : Nat → Gate) (f : Gate → Nat) (i : Nat)
    (hi : i < d.size) : (selCol d G f).eval (toF d.groupGen ^ i) = toF (f (G i)) := by
  unfold selCol
  rw [toPoly_ofCoeffs, eval_toPoly_ifft hd _ (by simp) i hi, getD_map_range _ _ _ hi]

/-- the polynomials of the specification prover: selector and sigma columns interpolated by `ifft`,
    wire columns and accumulator blinded by `blindPoly` with arbitrary blinders -/
noncomputable def modelPolys (d : Domain) (G : Nat → Gate) (aS bS cS dS piS : List Nat)
    (sigE : List (List Nat)) (z ba bb bc bd bz : List Nat) : ProverPolys F where
  Q := ⟨selCol d G (·.qm), selCol d G (·.ql), selCol d G (·.qr), selCol d G (·.qo), selCol d G (·.qf),
        selCol d G (·.qc), selCol d G (·.qarith), selCol d G (·.qrange), selCol d G (·.qlogic),
        selCol d G (·.qfixed), selCol d G (·.qvar)⟩
  a := toPoly (blindPoly d aS ba)
  b := toPoly (blindPoly d bS bb)
  c := toPoly (blindPoly d cS bc)
  d := toPoly (blindPoly d dS bd)
  pi := toPoly (Poly.ofCoeffs (d.ifft piS))
  s1 := toPoly (Poly.ofCoeffs (d.ifft (sigE.getD 0 [])))
  s2 := toPoly (Poly.ofCoeffs (d.ifft (sigE.getD 1 [])))
  s3 := toPoly (Poly.ofCoeffs (d.ifft (sigE.getD 2 [])))
  s4 := toPoly (Poly.ofCoeffs (d.ifft (sigE.getD 3 [])))
  z := toPoly (blindPoly d z bz)

theorem modelPolys_interpolates {d : Domain} (hd : d.WF) (G : Nat → Gate)
    (roots aS bS cS dS piS : List Nat) (sigE : List (List Nat)) (z ba bb bc bd bz : List Nat)
    (hroots : ∀ i < d.size, toF (roots.getD i 0) = toF d.groupGen ^ i)
    (ha : aS.length = d.size) (hb : bS.length = d.size) (hc : cS.length = d.size)
    (hdd : dS.length = d.size) (hpi : piS.length = d.size) (hzl : z.length = d.size)
    (hs : ∀ j < 4, (sigE.getD j []).length = d.size) :
    Interpolates (toF d.groupGen) d.size (modelPolys d G aS bS cS dS piS sigE z ba bb bc bd bz) G
      roots aS bS cS dS piS sigE z where
  root := hroots
  sel := fun i hi => by
    simp only [Sel.map, selF, modelPolys, eval_selCol hd G _ i hi]
  a := fun i hi => eval_blindPoly hd aS ba ha i hi
  b := fun i hi => eval_blindPoly hd bS bb hb i hi
  c := fun i hi => eval_blindPoly hd cS bc hc i hi
  d := fun i hi => eval_blindPoly hd dS bd hdd i hi
  pi := fun i hi => by
    simp only [modelPolys, toPoly_ofCoeffs]; exact eval_toPoly_ifft hd piS hpi i hi
  s1 := fun i hi => by
    simp only [modelPolys, toPoly_ofCoeffs]; exact eval_toPoly_ifft hd _ (hs 0 (by omega)) i hi
  s2 := fun i hi => by
    simp only [modelPolys, toPoly_ofCoeffs]; exact eval_toPoly_ifft hd _ (hs 1 (by omega)) i hi
  s3 := fun i hi => by
    simp only [modelPolys, toPoly_ofCoeffs]; exact eval_toPoly_ifft hd _ (hs 2 (by omega)) i hi
  s4 := fun i hi => by
    simp only [modelPolys, toPoly_ofCoeffs]; exact eval_toPoly_ifft hd _ (hs 3 (by omega)) i hi
  z := fun i hi => eval_blindPoly hd z bz hzl i hi

/-! ### the entries of `quotientEvals` as values of `Num / Z_H` -/

/-- what the arrays handed to `quotientEvals` store at index `i`: the values of the prover's
    polynomials at a point `x` (with `xⁿ ≠ 1`: a coset point) and, eight places further, at `ωx`;
    the values of `X`, `Xⁿ − 1`, their inverses, and `n⁻¹` -/
structure StoresAt (ω x : F) (n : Nat) (P : ProverPolys F) (selE sigE8 : Array (Array Nat))
    (linE aE bE cE dE zE piE vh vhInv8 l1Den : Array Nat) (nInv8 i : Nat) : Prop where
  sel : selAt selE i = P.Q.map (eval x)
  a : toF (aE.getD i 0) = P.a.eval x
  b : toF (bE.getD i 0) = P.b.eval x
  c : toF (cE.getD i 0) = P.c.eval x
  d : toF (dE.getD i 0) = P.d.eval x
  aw : toF (aE.getD (i + 8) 0) = P.a.eval (ω * x)
  bw : toF (bE.getD (i + 8) 0) = P.b.eval (ω * x)
  dw : toF (dE.getD (i + 8) 0) = P.d.eval (ω * x)
  pi : toF (piE.getD i 0) = P.pi.eval x
  lin : toF (linE.getD i 0) = x
  s1 : toF ((sigE8.getD 0 #[]).getD i 0) = P.s1.eval x
  s2 : toF ((sigE8.getD 1 #[]).getD i 0) = P.s2.eval x
  s3 : toF ((sigE8.getD 2 #[]).getD i 0) = P.s3.eval x
  s4 : toF ((sigE8.getD 3 #[]).getD i 0) = P.s4.eval x
  z : toF (zE.getD i 0) = P.z.eval x
  zw : toF (zE.getD (i + 8) 0) = P.z.eval (ω * x)
  vh : toF (vh.getD i 0) = x ^ n - 1
  vhInv : toF (vhInv8.getD (i % 8) 0) = (x ^ n - 1)⁻¹
  l1Den : toF (l1Den.getD i 0) = (x - 1)⁻¹
  nInv : toF nInv8 = (n : F)⁻¹

/-- **The coset quotient.** Entry `i` of the model's `quotientEvals` is the value at the stored
    point `x` of the numerator polynomial divided by the vanishing polynomial. -/
theorem quotient_entry_coset {ω x : F} {n : Nat} (hx : x ^ n ≠ 1) (P : ProverPolys F)
    (size8 : Nat) (selE sigE8 : Array (Array Nat))
    (linE aE bE cE dE zE piE vh vhInv8 l1Den : Array Nat)
    (nInv8 beta gamma alpha rSep lSep fSep vSep : Nat) (i : Nat) (hi : i < size8)
    (St : StoresAt ω x n P selE sigE8 linE aE bE cE dE zE piE vh vhInv8 l1Den nInv8 i) :
    toF ((quotientEvals size8 selE sigE8 linE aE bE cE dE zE piE vh vhInv8 l1Den nInv8 beta gamma
        alpha rSep lSep fSep vSep).getD i 0) =
      (NumP ω n P ⟨toF beta, toF gamma, toF alpha⟩ ⟨toF rSep, toF lSep, toF fSep, toF vSep⟩).eval x *
        (x ^ n - 1)⁻¹ := by
  have hx1 : x ≠ 1 := fun h => hx (by rw [h, one_pow])
  rw [toF_quotientEvals_getD _ _ _ _ _ _ _ _ _ _ _ _ _ _ _ _ _ _ _ _ _ _ hi, eval_NumP,
    eval_L1P_of_ne_one n hx1, St.vhInv, St.sel]
  unfold permAt wiresF
  rw [St.a, St.b, St.c, St.d, St.aw, St.bw, St.dw, St.pi, St.lin, St.s1, St.s2, St.s3, St.s4, St.z,
    St.zw, St.vh, St.l1Den, St.nInv]

/-- if moreover `Num = (X^n − 1)·T`, the entry is the value of the quotient `T` -/
theorem quotient_entry_coset_of_dvd {ω x : F} {n : Nat} (hx : x ^ n ≠ 1) (P : ProverPolys F)
    (size8 : Nat) (selE sigE8 : Array (Array Nat))
    (linE aE bE cE dE zE piE vh vhInv8 l1Den : Array Nat)
    (nInv8 beta gamma alpha rSep lSep fSep vSep : Nat) (i : Nat) (hi : i < size8)
    (St : StoresAt ω x n P selE sigE8 linE aE bE cE dE zE piE vh vhInv8 l1Den nInv8 i) (T : F[X])
    (hT : NumP ω n P ⟨toF beta, toF gamma, toF alpha⟩ ⟨toF rSep, toF lSep, toF fSep, toF vSep⟩ =
      (X ^ n - 1) * T) :
    toF ((quotientEvals size8 selE sigE8 linE aE bE cE dE zE piE vh vhInv8 l1Den nInv8 beta gamma
        alpha rSep lSep fSep vSep).getD i 0) = T.eval x := by
  rw [quotient_entry_coset hx P size8 _ _ _ _ _ _ _ _ _ _ _ _ _ _ _ _ _ _ _ _ i hi St, hT]
  have : x ^ n - 1 ≠ 0 := sub_ne_zero.mpr hx
  simp only [eval_mul, eval_sub, eval_pow, eval_X, eval_one]
  field_simp

/-! ### the widget scalars of the model and their components -/

/-- a widget scalar that is the weighted sum of the components `cs` vanishes for all separation
    challenges of a set with at least `2|cs|` elements iff every component is zero -/
theorem scalar_zero_iff (sc : Nat → Nat) (hlt : ∀ sep, sc sep < R) (cs : List Nat)
    (hcs : ∀ x ∈ cs, x < R) (hsc : ∀ sep, toF (sc sep) = wsum (cs.map toF) (toF sep))
    (S : Finset F) (hS : 2 * cs.length ≤ S.card) :
    (∀ sep : Nat, toF sep ∈ S → sc sep = 0) ↔ allZero cs = true := by
  rw [allZero_iff cs hcs]
  constructor
  · intro h x hx
    apply components_of_weighted_sum (cs.map toF) S (by simpa using hS)
    · intro s hs
      have := h s.val (by rw [PolyC19.toF_val]; exact hs)
      rw [← PolyC19.toF_val s, ← hsc, this, toF_zero]
    · exact List.mem_map.mpr ⟨x, hx, rfl⟩
  · intro h sep _
    rw [eq_zero_iff_toF (hlt sep), hsc]
    apply wsum_of_all_zero
    intro c hc
    obtain ⟨x, hx, rfl⟩ := List.mem_map.mp hc
    exact h x hx

/-! ### the grand product on the model's `permVec` -/

/-- the permutation step of row `i` of the table with the accumulator `z`, next row cyclic -/
def permStepAt (n : Nat) (roots aS bS cS dS : List Nat) (sigE : List (List Nat)) (beta gamma : Nat)
    (z : List Nat) (i : Nat) : F :=
  numF roots aS bS cS dS beta gamma i * toF (z.getD i 0) -
    denF aS bS cS dS sigE beta gamma i * toF (z.getD ((i + 1) % n) 0)

/-- **Grand product.** For the accumulator returned by the model's `permVec`: `z₀ = 1`, no
    denominator vanishes, every inner permutation step vanishes, and the wrap-around step
    (row `n−1`, next row `0`) vanishes iff the products of numerators and denominators agree. -/
theorem permVec_grand_product (n : Nat) (hn : 0 < n) (roots aS bS cS dS : List Nat)
    (sigE : List (List Nat)) (beta gamma : Nat) (z : List Nat)
    (h : permVec n roots aS bS cS dS sigE beta gamma = some z) :
    z.length = n ∧ toF (z.getD 0 0) = 1 ∧
    (∀ i < n, denF aS bS cS dS sigE beta gamma i ≠ 0) ∧
    (∀ i, i + 1 < n → permStepAt n roots aS bS cS dS sigE beta gamma z i = 0) ∧
    (permStepAt n roots aS bS cS dS sigE beta gamma z (n - 1) = 0 ↔
      ∏ i ∈ Finset.range n, numF roots aS bS cS dS beta gamma i =
        ∏ i ∈ Finset.range n, denF aS bS cS dS sigE beta gamma i) := by
  obtain ⟨hlen, hden, hz0, hstep⟩ := permVec_spec n roots aS bS cS dS sigE beta gamma z h
  obtain ⟨h1, -, h3⟩ := grand_product_math n hn (numF roots aS bS cS dS beta gamma)
    (denF aS bS cS dS sigE beta gamma) (fun i => toF (z.getD i 0)) hden (hz0 hn) hstep
  refine ⟨hlen, hz0 hn, hden, ?_, ?_⟩
  · intro i hi
    unfold permStepAt
    rw [Nat.mod_eq_of_lt hi]
    exact h1 i hi
  · unfold permStepAt
    rw [Nat.sub_add_cancel hn, Nat.mod_self]
    exact h3

/-! ### the statement on the specification prover's own polynomials -/

theorem elements_roots (d : Domain) :
    ∀ i < d.size, toF (d.elements.getD i 0) = toF d.groupGen ^ i := by
  intro i hi
  rw [PolyC19.elements_eq, getD_map_range _ _ _ hi, PolyC19.toF_val]

/-- **Prover exactness, algebraic half, on the model's polynomials.** For a domain returned by
    `Domain.new?`, a table of `d.size` rows, the accumulator of `permVec` over `d.elements`, and the
    polynomials the specification prover builds (`ifft` columns, `blindPoly` wires and accumulator,
    any blinders): `X^n − 1` divides the quotient numerator for all challenges of the grid iff every
    row identity of the model holds on every row of the padded table (next row cyclic) and the
    grand products agree. -/
theorem prover_exact_modelPolys (m : Nat) (d : Domain) (hd : Domain.new? m = some d)
    (G : Nat → Gate) (hG : ∀ i < d.size, SelReduced (G i))
    (aS bS cS dS piS : List Nat) (sigE : List (List Nat)) (beta gamma : Nat) (z : List Nat)
    (ba bb bc bd bz : List Nat)
    (ha : aS.length = d.size) (hb : bS.length = d.size) (hc : cS.length = d.size)
    (hdd : dS.length = d.size) (hpi : piS.length = d.size)
    (hs : ∀ j < 4, (sigE.getD j []).length = d.size)
    (hz : permVec d.size d.elements aS bS cS dS sigE beta gamma = some z)
    (Sα Sr Sl Sf Sv : Finset F) (hα : 1 < Sα.card) (hr : 7 < Sr.card) (hl : 9 < Sl.card)
    (hf : 7 < Sf.card) (hv : 5 < Sv.card) :
    (∀ α ∈ Sα, ∀ ρ ∈ Sr, ∀ l ∈ Sl, ∀ φ ∈ Sf, ∀ ν ∈ Sv,
      (X ^ d.size - 1 : F[X]) ∣
        NumP (toF d.groupGen) d.size (modelPolys d G aS bS cS dS piS sigE z ba bb bc bd bz)
          ⟨toF beta, toF gamma, α⟩ ⟨ρ, l, φ, ν⟩) ↔
    (∀ i < d.size, rowOK d.size G aS bS cS dS piS i) ∧
      ∏ i ∈ Finset.range d.size, numF d.elements aS bS cS dS beta gamma i =
        ∏ i ∈ Finset.range d.size, denF aS bS cS dS sigE beta gamma i := by
  have hw := Domain.new?_WF m d hd
  have hzl := (permVec_spec _ _ _ _ _ _ _ _ _ z hz).1
  exact prover_exact_poly hw.size_pos hw.prim _ G hG d.elements aS bS cS dS piS sigE beta gamma z hz
    (modelPolys_interpolates hw G d.elements aS bS cS dS piS sigE z ba bb bc bd bz (elements_roots d)
      ha hb hc hdd hpi hzl hs) Sα Sr Sl Sf Sv hα hr hl hf hv

/-! ### concrete data for the non-vacuity examples -/

theorem exists_domain_two : ∃ d : Domain, Domain.new? 2 = some d ∧ d.size = 2 := by
  have h : (Domain.new? 2).isSome = true := by decide +kernel
  have hs : (Domain.new? 2).map (·.size) = some 2 := by decide +kernel
  obtain ⟨d, hd⟩ := Option.isSome_iff_exists.mp h
  refine ⟨d, hd, ?_⟩
  rw [hd] at hs
  simpa using hs

theorem card_univ_F : (Finset.univ : Finset F).card = R := by
  rw [Finset.card_univ, ZMod.card]

theorem ten_lt_R : 10 < R := by decide +kernel

end Plonk.Quot
