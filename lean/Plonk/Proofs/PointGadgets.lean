/-
  C12 — composer glue for the curve-group components of `point.rs`:
  `addPointGates` / `componentAddPoint`, `componentNegPoint`, `componentSubPoint`,
  `selectIdentityGates` / `componentSelectIdentity`, `componentSelectPoint`.
  (`componentMulPoint` is in `MulPoint.lean`.)

  For each component `X`:
    * `X_run` / `X_fst`   : the returned wire indices
    * `X_appendsL`        : `AppendsL c c' k m` — extends, `k` gates / `m` witnesses appended, the
                            last appended gate is plain (so later components never change the
                            meaning of the rows); `X_wf` : well-formedness (`WF`, hence `PiFresh`)
    * `X_rows_iff`        : the appended rows hold under an ARBITRARY assignment `w` iff the
                            field relation holds
    * `X_sound`           : … with on-curve inputs: outputs = group-law result, helper wires
                            determined, outputs on the curve
    * `X_honest_ext`      : the model's own witness table (read in any later state) satisfies
                            the rows; `X_val` : the values the model stores
-/
import Plonk.Proofs.Arith
import Plonk.Proofs.Range
import Plonk.Proofs.EdwardsRows
import Plonk.Proofs.EdwardsGroup

namespace Plonk
open Plonk Plonk.Composer

namespace Composer

/-! ### framing for components whose inner rows read the next row -/

/-- `c'` is `c` plus exactly `k` gates and `m` witnesses, and the last appended gate is plain
    (inner gates may read their successor row, which belongs to the same component). -/
structure AppendsL (c c' : Composer) (k m : Nat) : Prop where
  ext : Extends c c'
  gates : c'.gates.size = c.gates.size + k
  wit : c'.wit.size = c.wit.size + m
  last_plain : ∀ i, c.gates.size ≤ i → i + 1 = c'.gates.size → Gate.plain (c'.gateAt i)

theorem AppendsL.refl (c : Composer) : AppendsL c c 0 0 :=
  ⟨Extends.refl c, rfl, rfl, fun _ h1 h2 => by omega⟩

theorem Appends.toL {c c' : Composer} {k m : Nat} (h : Appends c c' k m) : AppendsL c c' k m :=
  ⟨h.ext, h.gates, h.wit, fun i h1 h2 => h.plain i h1 (by omega)⟩

theorem AppendsL.trans {a b c : Composer} {k m k' m' : Nat} (h1 : AppendsL a b k m)
    (h2 : AppendsL b c k' m') : AppendsL a c (k + k') (m + m') where
  ext := h1.ext.trans h2.ext
  gates := by rw [h2.gates, h1.gates]; omega
  wit := by rw [h2.wit, h1.wit]; omega
  last_plain i hlo hhi := by
    by_cases hi : b.gates.size ≤ i
    · exact h2.last_plain i hi hhi
    · have hb : i + 1 = b.gates.size := by
        have := h2.ext.gates_size; omega
      rw [h2.ext.gateAt_eq (by omega)]
      exact h1.last_plain i hlo hb

/-- the rows appended by a component keep their meaning in any later state -/
theorem AppendsL.rows_ext {a b c : Composer} {k m : Nat} (h : AppendsL a b k m)
    (hx : Extends b c) (w : Nat → Nat) :
    c.rowsHoldW w a.gates.size b.gates.size ↔ b.rowsHoldW w a.gates.size b.gates.size := by
  have key : ∀ i, a.gates.size ≤ i → i < b.gates.size → c.rowHoldsW w i = b.rowHoldsW w i := by
    intro i hlo hi
    by_cases h1 : i + 1 < b.gates.size
    · exact hx.rowHoldsW_eq w h1
    · exact hx.rowHoldsW_eq_of_plain w hi (h.last_plain i hlo (by omega))
  constructor
  · intro H i h1 h2; rw [← key i h1 h2]; exact H i h1 h2
  · intro H i h1 h2; rw [key i h1 h2]; exact H i h1 h2

/-- rows of two consecutive components: those of the first (read in the intermediate state) and
    those of the rest -/
theorem AppendsL.rows_split {a b c : Composer} {k m : Nat} (h1 : AppendsL a b k m)
    (hx : Extends b c) (w : Nat → Nat) :
    c.rowsHoldW w a.gates.size c.gates.size ↔
      b.rowsHoldW w a.gates.size b.gates.size ∧ c.rowsHoldW w b.gates.size c.gates.size := by
  rw [rowsHoldW_split c w h1.ext.gates_size hx.gates_size, h1.rows_ext hx w]

theorem WF.piFresh {c : Composer} (h : WF c) : PiFresh c := h.pis_zero

/-- the field point carried by the wire pair `p` under the assignment `w` -/
def ptW (w : Nat → Nat) (p : Pt) : PtF := (toF (w p.1), toF (w p.2))

@[simp] theorem ptW_fst (w : Nat → Nat) (p : Pt) : (ptW w p).1 = toF (w p.1) := rfl
@[simp] theorem ptW_snd (w : Nat → Nat) (p : Pt) : (ptW w p).2 = toF (w p.2) := rfl

theorem ptW_mk (w : Nat → Nat) (x y : Nat) : ptW w (x, y) = (toF (w x), toF (w y)) := rfl

/-- both wires of the pair are allocated -/
def PtAlloc (c : Composer) (p : Pt) : Prop := p.1 < c.wit.size ∧ p.2 < c.wit.size

theorem PtAlloc.mono {c c' : Composer} {p : Pt} (h : PtAlloc c p) (hx : Extends c c') :
    PtAlloc c' p := ⟨Nat.lt_of_lt_of_le h.1 hx.wit_size, Nat.lt_of_lt_of_le h.2 hx.wit_size⟩

theorem Extends.ptW_val_eq {c c' : Composer} (hx : Extends c c') {p : Pt} (h : PtAlloc c p) :
    ptW c'.val p = ptW c.val p := by
  unfold ptW; rw [hx.val_eq h.1, hx.val_eq h.2]

/-! ### `add_point_gates` -/

/-- the curve-addition gate on wires `(x1, y1, x2, y2)` -/
def addVarGate (a b : Pt) : Gate :=
  (Constraint.groupAddVariableBase { a := a.1, b := a.2, c := b.1, d := b.2 }).toGate

/-- the unselected closing row carrying `(x3, y3, _, x1·y2)`; `n` = first allocated witness -/
def addOutGate (n : Nat) : Gate := ({ a := n + 1, b := n + 2, d := n } : Constraint).toGate

/-- explicit output state of `add_point_gates a b` -/
def addOut (c : Composer) (a b : Pt) : Composer :=
  { gates := (c.gates.push (addVarGate a b)).push (addOutGate c.wit.size),
    wit := ((c.wit.push (fmul (c.val a.1) (c.val b.2) % R)).push
              ((edAddOrId (c.val a.1, c.val a.2) (c.val b.1, c.val b.2)).1 % R)).push
              ((edAddOrId (c.val a.1, c.val a.2) (c.val b.1, c.val b.2)).2 % R),
    pis := c.pis }

theorem addPointGates_run (a b : Pt) (c : Composer) :
    (addPointGates a b).run c = ((c.wit.size + 1, c.wit.size + 2), addOut c a b) := by
  unfold addPointGates addOut addVarGate addOutGate
  simp only [bind, StateT.bind, StateT.run, getVal, pure, StateT.pure, appendWitness,
    appendCustomGate]
  simp [Constraint.groupAddVariableBase, Constraint.fromExternal]

theorem addPointGates_fst (a b : Pt) (c : Composer) :
    ((addPointGates a b).run c).1 = (c.wit.size + 1, c.wit.size + 2) := by
  rw [addPointGates_run]

theorem addPointGates_snd (a b : Pt) (c : Composer) :
    ((addPointGates a b).run c).2 = addOut c a b := by rw [addPointGates_run]

theorem addOut_gates_size (c : Composer) (a b : Pt) :
    (addOut c a b).gates.size = c.gates.size + 2 := by simp [addOut]

theorem addOut_wit_size (c : Composer) (a b : Pt) :
    (addOut c a b).wit.size = c.wit.size + 3 := by simp [addOut]

theorem addOut_get0 (c : Composer) (a b : Pt) :
    (addOut c a b).gates[c.gates.size]? = some (addVarGate a b) := by
  show ((c.gates.push _).push _)[c.gates.size]? = _
  rw [push2_eq, Array.getElem?_append_right (Nat.le_refl _)]; simp

theorem addOut_get1 (c : Composer) (a b : Pt) :
    (addOut c a b).gates[c.gates.size + 1]? = some (addOutGate c.wit.size) := by
  show ((c.gates.push _).push _)[c.gates.size + 1]? = _
  rw [push2_eq, Array.getElem?_append_right (Nat.le_succ _)]; simp

theorem addOut_piAt (c : Composer) (a b : Pt) (i : Nat) : (addOut c a b).piAt i = c.piAt i := rfl

theorem addOut_extends (c : Composer) (a b : Pt) : Extends c (addOut c a b) :=
  extends_of_append _ _ (push2_eq _ _ _) (push3_eq _ _ _ _) rfl

theorem addOutGate_plain (n : Nat) : Gate.plain (addOutGate n) := ⟨rfl, rfl, rfl, rfl⟩

theorem addOut_appendsL (c : Composer) (a b : Pt) : AppendsL c (addOut c a b) 2 3 where
  ext := addOut_extends c a b
  gates := addOut_gates_size c a b
  wit := addOut_wit_size c a b
  last_plain i _ hi := by
    rw [addOut_gates_size] at hi
    have : i = c.gates.size + 1 := by omega
    subst this
    rw [gateAt_of_get (addOut_get1 c a b)]; exact addOutGate_plain _

theorem addPointGates_appendsL (a b : Pt) (c : Composer) :
    AppendsL c ((addPointGates a b).run c).2 2 3 := by
  rw [addPointGates_snd]; exact addOut_appendsL c a b

theorem addPointGates_extends (a b : Pt) (c : Composer) :
    Extends c ((addPointGates a b).run c).2 := (addPointGates_appendsL a b c).ext

theorem addOut_val_helper (c : Composer) (a b : Pt) :
    (addOut c a b).val c.wit.size = fmul (c.val a.1) (c.val b.2) := by
  have h := val_of_wit_append (c := c) (c' := addOut c a b) (push3_eq _ _ _ _) 0
  rw [Nat.add_zero] at h; rw [h]
  simp [Nat.mod_eq_of_lt (fmul_lt _ _)]

theorem addOut_val_x (c : Composer) (a b : Pt) :
    (addOut c a b).val (c.wit.size + 1) =
      (edAddOrId (c.val a.1, c.val a.2) (c.val b.1, c.val b.2)).1 := by
  rw [val_of_wit_append (c := c) (c' := addOut c a b) (push3_eq _ _ _ _) 1]
  simp [Nat.mod_eq_of_lt (edAddOrId_lt _ _).1]

theorem addOut_val_y (c : Composer) (a b : Pt) :
    (addOut c a b).val (c.wit.size + 2) =
      (edAddOrId (c.val a.1, c.val a.2) (c.val b.1, c.val b.2)).2 := by
  rw [val_of_wit_append (c := c) (c' := addOut c a b) (push3_eq _ _ _ _) 2]
  simp [Nat.mod_eq_of_lt (edAddOrId_lt _ _).2]

theorem addOut_wf (c : Composer) (a b : Pt) (h : WF c) : WF (addOut c a b) where
  val_lt i := by
    by_cases hi : i < c.wit.size
    · rw [(addOut_extends c a b).val_eq hi]; exact h.val_lt i
    · by_cases h3 : i < c.wit.size + 3
      · obtain rfl | rfl | rfl : i = c.wit.size ∨ i = c.wit.size + 1 ∨ i = c.wit.size + 2 := by
          omega
        · rw [addOut_val_helper]; exact fmul_lt _ _
        · rw [addOut_val_x]; exact (edAddOrId_lt _ _).1
        · rw [addOut_val_y]; exact (edAddOrId_lt _ _).2
      · rw [val_of_size_le _ (by rw [addOut_wit_size]; omega)]; exact R_pos
  pis_zero i hi := by
    rw [addOut_piAt]; rw [addOut_gates_size] at hi; exact h.pis_zero i (by omega)

theorem addPointGates_wf (a b : Pt) (c : Composer) (h : WF c) :
    WF ((addPointGates a b).run c).2 := by
  rw [addPointGates_snd]; exact addOut_wf c a b h

theorem addPointGates_piFresh (a b : Pt) (c : Composer) (h : PiFresh c) :
    PiFresh ((addPointGates a b).run c).2 := by
  rw [addPointGates_snd]
  intro i hi
  rw [addOut_piAt]; rw [addOut_gates_size] at hi; exact h i (by omega)

theorem rowHolds_addOutGate (n va vb vc vd an bn dn : Nat) :
    rowHolds (addOutGate n) va vb vc vd an bn dn 0 = true := by
  rw [rowHolds_arith _ rfl rfl rfl rfl]
  simp [arithF, addOutGate, Constraint.toGate]

/-- `add_point_gates a b`: the two appended rows hold under `w` iff the three allocated
    witnesses `n` (helper), `n+1`, `n+2` (output) satisfy the curve-addition identities with the
    inputs `a`, `b`. -/
theorem addPointGates_rows_iff (a b : Pt) (c : Composer) (hpi : PiFresh c) (w : Nat → Nat) :
    ((addPointGates a b).run c).2.rowsHoldW w c.gates.size
        ((addPointGates a b).run c).2.gates.size ↔
      VarRowF (toF (w a.1)) (toF (w a.2)) (toF (w b.1)) (toF (w b.2))
        (toF (w (c.wit.size + 1))) (toF (w (c.wit.size + 2))) (toF (w c.wit.size)) := by
  rw [addPointGates_snd, addOut_gates_size,
    rowsHoldW_split _ w (Nat.le_succ c.gates.size) (Nat.le_succ (c.gates.size + 1)),
    rowsHoldW_single, rowsHoldW_single]
  have p0 : (addOut c a b).piAt c.gates.size = 0 := hpi _ (Nat.le_refl _)
  have p1 : (addOut c a b).piAt (c.gates.size + 1) = 0 := hpi _ (Nat.le_succ _)
  rw [rowHoldsW_of_get (addOut_get0 c a b) (addOut_get1 c a b) p0,
    rowHoldsW_of_get_plain (addOut_get1 c a b) (addOutGate_plain _) p1, rowHolds_addOutGate]
  obtain ⟨hv, ha, hr, hl, hf⟩ :=
    groupAddVariableBase_selectors { a := a.1, b := a.2, c := b.1, d := b.2 }
  rw [addVarGate, rowHolds_var _ hv ha hr hl hf]
  simp [Constraint.groupAddVariableBase, Constraint.fromExternal, Constraint.toGate, addOutGate]

/-- On curve inputs the rows have exactly one solution: the helper wire is `x1·y2` and the output
    wires carry the Edwards sum. -/
theorem addPointGates_rows_iff_on_curve (a b : Pt) (c : Composer) (hpi : PiFresh c)
    (w : Nat → Nat) (h1 : OnCurveP (ptW w a)) (h2 : OnCurveP (ptW w b)) :
    ((addPointGates a b).run c).2.rowsHoldW w c.gates.size
        ((addPointGates a b).run c).2.gates.size ↔
      toF (w c.wit.size) = toF (w a.1) * toF (w b.2) ∧
      ptW w (c.wit.size + 1, c.wit.size + 2) = addF (ptW w a) (ptW w b) := by
  rw [addPointGates_rows_iff a b c hpi w]
  exact varRowF_iff_of_on_curve h1 h2 _ _ _

/-- **soundness of `add_point_gates`**: for an arbitrary assignment with on-curve inputs, the
    rows force the helper wire to be `x1·y2`, the output to be the group sum, and the output is
    again on the curve. -/
theorem addPointGates_sound (a b : Pt) (c : Composer) (hpi : PiFresh c)
    (w : Nat → Nat) (h1 : OnCurveP (ptW w a)) (h2 : OnCurveP (ptW w b))
    (hr : ((addPointGates a b).run c).2.rowsHoldW w c.gates.size
        ((addPointGates a b).run c).2.gates.size) :
    toF (w c.wit.size) = toF (w a.1) * toF (w b.2) ∧
    ptW w ((addPointGates a b).run c).1 = addF (ptW w a) (ptW w b) ∧
    OnCurveP (ptW w ((addPointGates a b).run c).1) := by
  obtain ⟨e1, e2⟩ := (addPointGates_rows_iff_on_curve a b c hpi w h1 h2).mp hr
  rw [addPointGates_fst]
  exact ⟨e1, e2, by rw [e2]; exact add_on_curveP h1 h2⟩

/-- the values the model stores (inputs on the curve): helper `x1·y2`, output the group sum -/
theorem addPointGates_val (a b : Pt) (c : Composer)
    (h1 : OnCurveP (ptW c.val a)) (h2 : OnCurveP (ptW c.val b)) :
    toF (((addPointGates a b).run c).2.val c.wit.size) = toF (c.val a.1) * toF (c.val b.2) ∧
    ptW ((addPointGates a b).run c).2.val ((addPointGates a b).run c).1 =
      addF (ptW c.val a) (ptW c.val b) := by
  rw [addPointGates_fst, addPointGates_snd]
  refine ⟨by rw [addOut_val_helper, toF_fmul], ?_⟩
  have hs := toFP_edAddOrId (c.val a.1, c.val a.2) (c.val b.1, c.val b.2)
    ((onCurve_iff_P _).mpr h1) ((onCurve_iff_P _).mpr h2)
  unfold ptW
  simp only [addOut_val_x, addOut_val_y]
  exact hs

/-- **completeness of `add_point_gates`**: the model's own witness table (read in any later
    state) satisfies the rows when the inputs are allocated curve points. -/
theorem addPointGates_honest_ext (a b : Pt) (c : Composer) (hpi : PiFresh c)
    (ha : PtAlloc c a) (hb : PtAlloc c b)
    (h1 : OnCurveP (ptW c.val a)) (h2 : OnCurveP (ptW c.val b))
    {c'' : Composer} (hext : Extends ((addPointGates a b).run c).2 c'') :
    ((addPointGates a b).run c).2.rowsHoldW c''.val c.gates.size
      ((addPointGates a b).run c).2.gates.size := by
  have hap := addPointGates_appendsL a b c
  have hex := hap.ext.trans hext
  have ea : ptW c''.val a = ptW c.val a := hex.ptW_val_eq ha
  have eb : ptW c''.val b = ptW c.val b := hex.ptW_val_eq hb
  rw [addPointGates_rows_iff_on_curve a b c hpi _ (by rw [ea]; exact h1) (by rw [eb]; exact h2)]
  obtain ⟨v1, v2⟩ := addPointGates_val a b c h1 h2
  rw [addPointGates_fst] at v2
  have hw : ((addPointGates a b).run c).2.wit.size = c.wit.size + 3 := hap.wit
  have eo : ptW c''.val (c.wit.size + 1, c.wit.size + 2) =
      ptW ((addPointGates a b).run c).2.val (c.wit.size + 1, c.wit.size + 2) :=
    hext.ptW_val_eq ⟨by rw [hw]; omega, by rw [hw]; omega⟩
  rw [eo, v2, ea, eb, hext.val_eq (by rw [hw]; omega), v1, hex.val_eq ha.1, hex.val_eq hb.2]
  exact ⟨rfl, rfl⟩

theorem addPointGates_honest (a b : Pt) (c : Composer) (hpi : PiFresh c)
    (ha : PtAlloc c a) (hb : PtAlloc c b)
    (h1 : OnCurveP (ptW c.val a)) (h2 : OnCurveP (ptW c.val b)) :
    ((addPointGates a b).run c).2.rowsHoldW ((addPointGates a b).run c).2.val c.gates.size
      ((addPointGates a b).run c).2.gates.size :=
  addPointGates_honest_ext a b c hpi ha hb h1 h2 (Extends.refl _)

/-- completeness for every assignment: any assignment of the old wires with on-curve inputs
    extends to the three new wires so that the rows hold -/
theorem addPointGates_exists (a b : Pt) (c : Composer) (hpi : PiFresh c)
    (ha : PtAlloc c a) (hb : PtAlloc c b) (w0 : Nat → Nat)
    (h1 : OnCurveP (ptW w0 a)) (h2 : OnCurveP (ptW w0 b)) :
    ∃ w, (∀ i, i < c.wit.size → w i = w0 i) ∧
      ((addPointGates a b).run c).2.rowsHoldW w c.gates.size
        ((addPointGates a b).run c).2.gates.size := by
  let n := c.wit.size
  let w3 := setW (setW (setW w0 n (toF (w0 a.1) * toF (w0 b.2))) (n + 1)
    (addF (ptW w0 a) (ptW w0 b)).1) (n + 2) (addF (ptW w0 a) (ptW w0 b)).2
  have old : ∀ i, i < n → w3 i = w0 i := by
    intro i hi
    show setW (setW (setW w0 n _) (n + 1) _) (n + 2) _ i = w0 i
    rw [setW_of_ne _ _ _ (by omega), setW_of_ne _ _ _ (by omega), setW_of_ne _ _ _ (by omega)]
  have v0 : toF (w3 n) = toF (w0 a.1) * toF (w0 b.2) := by
    show toF (setW (setW (setW w0 n _) (n + 1) _) (n + 2) _ n) = _
    rw [setW_of_ne _ _ _ (by omega), setW_of_ne _ _ _ (by omega), setW_self]
  have v1 : toF (w3 (n + 1)) = (addF (ptW w0 a) (ptW w0 b)).1 := by
    show toF (setW (setW (setW w0 n _) (n + 1) _) (n + 2) _ (n + 1)) = _
    rw [setW_of_ne _ _ _ (by omega), setW_self]
  have v2 : toF (w3 (n + 2)) = (addF (ptW w0 a) (ptW w0 b)).2 := setW_self _ _ _
  have ea : ptW w3 a = ptW w0 a := by unfold ptW; rw [old _ ha.1, old _ ha.2]
  have eb : ptW w3 b = ptW w0 b := by unfold ptW; rw [old _ hb.1, old _ hb.2]
  refine ⟨w3, old, ?_⟩
  rw [addPointGates_rows_iff_on_curve a b c hpi _ (by rw [ea]; exact h1) (by rw [eb]; exact h2),
    ea, eb]
  refine ⟨by rw [v0, old _ ha.1, old _ hb.2], ?_⟩
  show (toF (w3 (n + 1)), toF (w3 (n + 2))) = _
  rw [v1, v2]

/-! ### `component_add_point` (= `add_point_gates`) -/

theorem componentAddPoint_eq (a b : Pt) : componentAddPoint a b = addPointGates a b := rfl

theorem componentAddPoint_fst (a b : Pt) (c : Composer) :
    ((componentAddPoint a b).run c).1 = (c.wit.size + 1, c.wit.size + 2) :=
  addPointGates_fst a b c

/-! ### `component_neg_point` : one `gate_mul` with `q_L = −1` -/

/-- the constraint of `component_neg_point` -/
def negC (p : Pt) : Constraint := { ql := R - 1, a := p.1 }

theorem componentNegPoint_run (p : Pt) (c : Composer) :
    (componentNegPoint p).run c = ((c.wit.size, p.2), ((gateAdd (negC p)).run c).2) := by
  unfold componentNegPoint negC
  simp only [bind, StateT.bind, StateT.run, gateMul, pure, StateT.pure]
  rw [gateAdd_apply]

theorem componentNegPoint_fst (p : Pt) (c : Composer) :
    ((componentNegPoint p).run c).1 = (c.wit.size, p.2) := by rw [componentNegPoint_run]

theorem componentNegPoint_snd (p : Pt) (c : Composer) :
    ((componentNegPoint p).run c).2 = ((gateAdd (negC p)).run c).2 := by
  rw [componentNegPoint_run]

theorem componentNegPoint_appends (p : Pt) (c : Composer) :
    Appends c ((componentNegPoint p).run c).2 1 1 := by
  rw [componentNegPoint_snd]; exact gateAdd_appends _ c

theorem componentNegPoint_appendsL (p : Pt) (c : Composer) :
    AppendsL c ((componentNegPoint p).run c).2 1 1 := (componentNegPoint_appends p c).toL

theorem componentNegPoint_extends (p : Pt) (c : Composer) :
    Extends c ((componentNegPoint p).run c).2 := (componentNegPoint_appends p c).ext

theorem componentNegPoint_wf (p : Pt) (c : Composer) (h : WF c) :
    WF ((componentNegPoint p).run c).2 := by
  rw [componentNegPoint_snd]; exact gateAdd_wf _ c h

/-- `component_neg_point p`: the appended row holds iff the new wire carries `−x` -/
theorem componentNegPoint_rows_iff (p : Pt) (c : Composer) (h : WF c) (w : Nat → Nat) :
    ((componentNegPoint p).run c).2.rowsHoldW w c.gates.size
        ((componentNegPoint p).run c).2.gates.size ↔
      toF (w c.wit.size) = - toF (w p.1) := by
  rw [componentNegPoint_snd, gateAdd_rows_iff _ c h]
  simp [Constraint.evalF, Constraint.piF, negC, toF_R_sub_one]

/-- **soundness of `component_neg_point`** (arbitrary assignment): the returned pair carries the
    negated point — the new wire is determined — and stays on the curve. -/
theorem componentNegPoint_sound (p : Pt) (c : Composer) (h : WF c) (w : Nat → Nat)
    (hr : ((componentNegPoint p).run c).2.rowsHoldW w c.gates.size
        ((componentNegPoint p).run c).2.gates.size) :
    ptW w ((componentNegPoint p).run c).1 = negF (ptW w p) ∧
    (OnCurveP (ptW w p) → OnCurveP (ptW w ((componentNegPoint p).run c).1)) := by
  have e := (componentNegPoint_rows_iff p c h w).mp hr
  have e2 : ptW w ((componentNegPoint p).run c).1 = negF (ptW w p) := by
    rw [componentNegPoint_fst]; unfold ptW negF; simp only [e]
  exact ⟨e2, fun hc => by rw [e2]; exact neg_on_curveP hc⟩

theorem componentNegPoint_val (p : Pt) (c : Composer) :
    toF (((componentNegPoint p).run c).2.val c.wit.size) = - toF (c.val p.1) := by
  rw [componentNegPoint_snd, gateAdd_val]
  simp [Constraint.evalF, negC, toF_R_sub_one]

/-- **completeness of `component_neg_point`**: the model's table satisfies the row -/
theorem componentNegPoint_honest_ext (p : Pt) (c : Composer) (hwf : WF c) (hp : PtAlloc c p)
    {c'' : Composer} (hext : Extends ((componentNegPoint p).run c).2 c'') :
    ((componentNegPoint p).run c).2.rowsHoldW c''.val c.gates.size
      ((componentNegPoint p).run c).2.gates.size := by
  rw [componentNegPoint_snd] at hext ⊢
  exact gateAdd_honest_ext (negC p) c hwf (fun _ => rfl) hp.1
    (Nat.lt_of_le_of_lt (Nat.zero_le _) hp.1) (Nat.lt_of_le_of_lt (Nat.zero_le _) hp.1) hext

theorem componentNegPoint_honest (p : Pt) (c : Composer) (hwf : WF c) (hp : PtAlloc c p) :
    ((componentNegPoint p).run c).2.rowsHoldW ((componentNegPoint p).run c).2.val c.gates.size
      ((componentNegPoint p).run c).2.gates.size :=
  componentNegPoint_honest_ext p c hwf hp (Extends.refl _)

/-- the point the model stores in the returned pair -/
theorem componentNegPoint_ptW_val (p : Pt) (c : Composer) (hp : PtAlloc c p) :
    ptW ((componentNegPoint p).run c).2.val ((componentNegPoint p).run c).1 =
      negF (ptW c.val p) := by
  rw [componentNegPoint_fst]
  unfold ptW negF
  simp only [componentNegPoint_val, (componentNegPoint_extends p c).val_eq hp.2]

/-! ### `component_sub_point` : negate, then add -/

/-- state after the negation gate -/
def subMid (c : Composer) (b : Pt) : Composer := ((componentNegPoint b).run c).2

theorem subMid_appends (c : Composer) (b : Pt) : Appends c (subMid c b) 1 1 :=
  componentNegPoint_appends b c

theorem subMid_wf (c : Composer) (b : Pt) (h : WF c) : WF (subMid c b) :=
  componentNegPoint_wf b c h

theorem subMid_wit_size (c : Composer) (b : Pt) : (subMid c b).wit.size = c.wit.size + 1 :=
  (subMid_appends c b).wit

theorem subMid_gates_size (c : Composer) (b : Pt) : (subMid c b).gates.size = c.gates.size + 1 :=
  (subMid_appends c b).gates

theorem componentSubPoint_run (a b : Pt) (c : Composer) :
    (componentSubPoint a b).run c = (addPointGates a (c.wit.size, b.2)).run (subMid c b) := by
  unfold componentSubPoint componentAddPoint subMid
  rw [run_bind', componentNegPoint_fst]

theorem componentSubPoint_fst (a b : Pt) (c : Composer) :
    ((componentSubPoint a b).run c).1 = (c.wit.size + 2, c.wit.size + 3) := by
  rw [componentSubPoint_run, addPointGates_fst, subMid_wit_size]

theorem componentSubPoint_appendsL (a b : Pt) (c : Composer) :
    AppendsL c ((componentSubPoint a b).run c).2 3 4 := by
  rw [componentSubPoint_run]
  exact (subMid_appends c b).toL.trans (addPointGates_appendsL _ _ _)

theorem componentSubPoint_extends (a b : Pt) (c : Composer) :
    Extends c ((componentSubPoint a b).run c).2 := (componentSubPoint_appendsL a b c).ext

theorem componentSubPoint_wf (a b : Pt) (c : Composer) (h : WF c) :
    WF ((componentSubPoint a b).run c).2 := by
  rw [componentSubPoint_run]
  exact addPointGates_wf _ _ _ (subMid_wf c b h)

/-- `component_sub_point a b`: the three appended rows hold iff wire `n` carries `−x2` and the
    curve-addition identities hold for `a`, `(n, y2)` with helper `n+1` and output `(n+2, n+3)` -/
theorem componentSubPoint_rows_iff (a b : Pt) (c : Composer) (h : WF c) (w : Nat → Nat) :
    ((componentSubPoint a b).run c).2.rowsHoldW w c.gates.size
        ((componentSubPoint a b).run c).2.gates.size ↔
      toF (w c.wit.size) = - toF (w b.1) ∧
      VarRowF (toF (w a.1)) (toF (w a.2)) (toF (w c.wit.size)) (toF (w b.2))
        (toF (w (c.wit.size + 2))) (toF (w (c.wit.size + 3))) (toF (w (c.wit.size + 1))) := by
  rw [componentSubPoint_run,
    (subMid_appends c b).toL.rows_split (addPointGates_extends _ _ _) w]
  have r1 : (subMid c b).rowsHoldW w c.gates.size (subMid c b).gates.size ↔ _ :=
    componentNegPoint_rows_iff b c h w
  have r2 := addPointGates_rows_iff a (c.wit.size, b.2) (subMid c b) (subMid_wf c b h).piFresh w
  rw [subMid_wit_size] at r2
  exact and_congr r1 r2

/-- **soundness of `component_sub_point`**: for an arbitrary assignment with on-curve inputs the
    rows force every new wire: `n = −x2`, helper `n+1 = x1·y2`, output = `a + (−b)`, on curve. -/
theorem componentSubPoint_sound (a b : Pt) (c : Composer) (h : WF c) (w : Nat → Nat)
    (h1 : OnCurveP (ptW w a)) (h2 : OnCurveP (ptW w b))
    (hr : ((componentSubPoint a b).run c).2.rowsHoldW w c.gates.size
        ((componentSubPoint a b).run c).2.gates.size) :
    toF (w c.wit.size) = - toF (w b.1) ∧
    toF (w (c.wit.size + 1)) = toF (w a.1) * toF (w b.2) ∧
    ptW w ((componentSubPoint a b).run c).1 = addF (ptW w a) (negF (ptW w b)) ∧
    OnCurveP (ptW w ((componentSubPoint a b).run c).1) := by
  obtain ⟨e1, e2⟩ := (componentSubPoint_rows_iff a b c h w).mp hr
  have hn : (toF (w c.wit.size), toF (w b.2)) = negF (ptW w b) := by
    unfold negF ptW; simp only [e1]
  have h2' : OnCurveP (toF (w c.wit.size), toF (w b.2)) := by rw [hn]; exact neg_on_curveP h2
  obtain ⟨e3, e4⟩ := (varRowF_iff_of_on_curve h1 h2' _ _ _).mp e2
  rw [hn] at e4
  rw [componentSubPoint_fst]
  exact ⟨e1, e3, e4, by
    show OnCurveP (toF (w (c.wit.size + 2)), toF (w (c.wit.size + 3)))
    rw [e4]; exact add_on_curveP h1 (neg_on_curveP h2)⟩

/-- **completeness of `component_sub_point`**: the model's table satisfies the rows for allocated
    on-curve inputs -/
theorem componentSubPoint_honest_ext (a b : Pt) (c : Composer) (hwf : WF c)
    (ha : PtAlloc c a) (hb : PtAlloc c b)
    (h1 : OnCurveP (ptW c.val a)) (h2 : OnCurveP (ptW c.val b))
    {c'' : Composer} (hext : Extends ((componentSubPoint a b).run c).2 c'') :
    ((componentSubPoint a b).run c).2.rowsHoldW c''.val c.gates.size
      ((componentSubPoint a b).run c).2.gates.size := by
  rw [componentSubPoint_run] at hext ⊢
  have hx1 : Extends c (subMid c b) := (subMid_appends c b).ext
  have hx2 := addPointGates_extends a (c.wit.size, b.2) (subMid c b)
  rw [(subMid_appends c b).toL.rows_split hx2]
  have hnb : ptW (subMid c b).val (c.wit.size, b.2) = negF (ptW c.val b) := by
    have := componentNegPoint_ptW_val b c hb
    rwa [componentNegPoint_fst] at this
  have x1 : Extends (subMid c b) c'' := hx2.trans hext
  refine ⟨componentNegPoint_honest_ext b c hwf hb x1, ?_⟩
  refine addPointGates_honest_ext a (c.wit.size, b.2) (subMid c b)
    (subMid_wf c b hwf).piFresh (ha.mono hx1)
    ⟨by rw [subMid_wit_size]; exact Nat.lt_succ_self _, Nat.lt_of_lt_of_le hb.2 hx1.wit_size⟩
    ?_ ?_ hext
  · rw [hx1.ptW_val_eq ha]; exact h1
  · rw [hnb]; exact neg_on_curveP h2

theorem componentSubPoint_honest (a b : Pt) (c : Composer) (hwf : WF c)
    (ha : PtAlloc c a) (hb : PtAlloc c b)
    (h1 : OnCurveP (ptW c.val a)) (h2 : OnCurveP (ptW c.val b)) :
    ((componentSubPoint a b).run c).2.rowsHoldW ((componentSubPoint a b).run c).2.val c.gates.size
      ((componentSubPoint a b).run c).2.gates.size :=
  componentSubPoint_honest_ext a b c hwf ha hb h1 h2 (Extends.refl _)

/-- the point the model stores in the returned pair: `a − b` -/
theorem componentSubPoint_ptW_val (a b : Pt) (c : Composer) (hwf : WF c)
    (ha : PtAlloc c a) (hb : PtAlloc c b)
    (h1 : OnCurveP (ptW c.val a)) (h2 : OnCurveP (ptW c.val b)) :
    ptW ((componentSubPoint a b).run c).2.val ((componentSubPoint a b).run c).1 =
      addF (ptW c.val a) (negF (ptW c.val b)) := by
  have hs := componentSubPoint_sound a b c hwf _
    (by rw [(componentSubPoint_extends a b c).ptW_val_eq ha]; exact h1)
    (by rw [(componentSubPoint_extends a b c).ptW_val_eq hb]; exact h2)
    (componentSubPoint_honest a b c hwf ha hb h1 h2)
  rw [hs.2.2.1, (componentSubPoint_extends a b c).ptW_val_eq ha,
    (componentSubPoint_extends a b c).ptW_val_eq hb]

/-! ### `select_identity_gates` / `component_select_identity` -/

/-- field-level selection between `P` (`b = 1`) and the identity (`b = 0`):
    `(b·x, 1 − b + b·y)` -/
def selIdF (b : F) (P : PtF) : PtF := (b * P.1, 1 - b + b * P.2)

@[simp] theorem selIdF_zero (P : PtF) : selIdF 0 P = idF := by simp [selIdF, idF]
@[simp] theorem selIdF_one (P : PtF) : selIdF 1 P = P := by simp [selIdF]

theorem selIdF_on_curve {b : F} {P : PtF} (hb : b = 0 ∨ b = 1) (hP : OnCurveP P) :
    OnCurveP (selIdF b P) := by
  rcases hb with rfl | rfl
  · rw [selIdF_zero]; exact id_on_curveP
  · rw [selIdF_one]; exact hP

/-- state after the `select_zero` gate -/
def selIdMid (c : Composer) (bit : Nat) (a : Pt) : Composer :=
  ((componentSelectZero bit a.1).run c).2

theorem selIdMid_appends (c : Composer) (bit : Nat) (a : Pt) :
    Appends c (selIdMid c bit a) 1 1 := componentSelectZero_appends bit a.1 c

theorem selIdMid_wf (c : Composer) (bit : Nat) (a : Pt) (h : WF c) : WF (selIdMid c bit a) :=
  componentSelectZero_wf bit a.1 c h

theorem selIdMid_wit_size (c : Composer) (bit : Nat) (a : Pt) :
    (selIdMid c bit a).wit.size = c.wit.size + 1 := (selIdMid_appends c bit a).wit

theorem selectIdentityGates_run (bit : Nat) (a : Pt) (c : Composer) :
    (selectIdentityGates bit a).run c =
      ((c.wit.size, c.wit.size + 1), ((componentSelectOne bit a.2).run (selIdMid c bit a)).2) := by
  unfold selectIdentityGates
  rw [run_bind', run_bind']
  show ((((componentSelectZero bit a.1).run c).1,
    ((componentSelectOne bit a.2).run (selIdMid c bit a)).1),
    ((componentSelectOne bit a.2).run (selIdMid c bit a)).2) = _
  rw [componentSelectZero_fst, componentSelectOne_fst, selIdMid_wit_size]

theorem selectIdentityGates_fst (bit : Nat) (a : Pt) (c : Composer) :
    ((selectIdentityGates bit a).run c).1 = (c.wit.size, c.wit.size + 1) := by
  rw [selectIdentityGates_run]

theorem selectIdentityGates_snd (bit : Nat) (a : Pt) (c : Composer) :
    ((selectIdentityGates bit a).run c).2 =
      ((componentSelectOne bit a.2).run (selIdMid c bit a)).2 := by
  rw [selectIdentityGates_run]

theorem selectIdentityGates_appends (bit : Nat) (a : Pt) (c : Composer) :
    Appends c ((selectIdentityGates bit a).run c).2 2 2 := by
  rw [selectIdentityGates_snd]
  exact (selIdMid_appends c bit a).trans (componentSelectOne_appends bit a.2 _)

theorem selectIdentityGates_appendsL (bit : Nat) (a : Pt) (c : Composer) :
    AppendsL c ((selectIdentityGates bit a).run c).2 2 2 :=
  (selectIdentityGates_appends bit a c).toL

theorem selectIdentityGates_extends (bit : Nat) (a : Pt) (c : Composer) :
    Extends c ((selectIdentityGates bit a).run c).2 := (selectIdentityGates_appends bit a c).ext

theorem selectIdentityGates_wf (bit : Nat) (a : Pt) (c : Composer) (h : WF c) :
    WF ((selectIdentityGates bit a).run c).2 := by
  rw [selectIdentityGates_snd]
  exact componentSelectOne_wf _ _ _ (selIdMid_wf c bit a h)

/-- `select_identity_gates bit a`: the two appended rows hold iff the returned pair carries
    `(bit·x, 1 − bit + bit·y)` (no booleanity is enforced here) -/
theorem selectIdentityGates_rows_iff (bit : Nat) (a : Pt) (c : Composer) (h : WF c)
    (w : Nat → Nat) :
    ((selectIdentityGates bit a).run c).2.rowsHoldW w c.gates.size
        ((selectIdentityGates bit a).run c).2.gates.size ↔
      ptW w (c.wit.size, c.wit.size + 1) = selIdF (toF (w bit)) (ptW w a) := by
  rw [selectIdentityGates_snd,
    (selIdMid_appends c bit a).rows_split (componentSelectOne_appends bit a.2 _) w]
  have r1 : (selIdMid c bit a).rowsHoldW w c.gates.size (selIdMid c bit a).gates.size ↔ _ :=
    componentSelectZero_rows_iff bit a.1 c h w
  have r2 := componentSelectOne_rows_iff bit a.2 (selIdMid c bit a) (selIdMid_wf c bit a h) w
  rw [selIdMid_wit_size] at r2
  rw [r1, r2]
  unfold ptW selIdF
  simp only [Prod.mk.injEq]

/-- **soundness of `select_identity_gates`** for a boolean-valued bit wire: the output is the
    identity (`bit = 0`) or the input point (`bit = 1`), and is on the curve if the input is -/
theorem selectIdentityGates_sound (bit : Nat) (a : Pt) (c : Composer) (h : WF c) (w : Nat → Nat)
    (hr : ((selectIdentityGates bit a).run c).2.rowsHoldW w c.gates.size
        ((selectIdentityGates bit a).run c).2.gates.size) :
    ptW w ((selectIdentityGates bit a).run c).1 = selIdF (toF (w bit)) (ptW w a) ∧
    (toF (w bit) = 0 → ptW w ((selectIdentityGates bit a).run c).1 = idF) ∧
    (toF (w bit) = 1 → ptW w ((selectIdentityGates bit a).run c).1 = ptW w a) := by
  have e := (selectIdentityGates_rows_iff bit a c h w).mp hr
  rw [selectIdentityGates_fst]
  exact ⟨e, fun hb => by rw [e, hb, selIdF_zero], fun hb => by rw [e, hb, selIdF_one]⟩

theorem selectIdentityGates_honest_ext (bit : Nat) (a : Pt) (c : Composer) (hwf : WF c)
    (hb : bit < c.wit.size) (ha : PtAlloc c a)
    {c'' : Composer} (hext : Extends ((selectIdentityGates bit a).run c).2 c'') :
    ((selectIdentityGates bit a).run c).2.rowsHoldW c''.val c.gates.size
      ((selectIdentityGates bit a).run c).2.gates.size := by
  rw [selectIdentityGates_snd] at hext ⊢
  have A1 := selIdMid_appends c bit a
  have A2 := componentSelectOne_appends bit a.2 (selIdMid c bit a)
  rw [A1.rows_split A2]
  have x1 : Extends (selIdMid c bit a) c'' := A2.ext.trans hext
  exact ⟨componentSelectZero_honest_ext bit a.1 c hwf hb ha.1 x1,
    componentSelectOne_honest_ext bit a.2 _ (selIdMid_wf c bit a hwf)
      (Nat.lt_of_lt_of_le hb A1.ext.wit_size) (Nat.lt_of_lt_of_le ha.2 A1.ext.wit_size) hext⟩

theorem selectIdentityGates_honest (bit : Nat) (a : Pt) (c : Composer) (hwf : WF c)
    (hb : bit < c.wit.size) (ha : PtAlloc c a) :
    ((selectIdentityGates bit a).run c).2.rowsHoldW ((selectIdentityGates bit a).run c).2.val
      c.gates.size ((selectIdentityGates bit a).run c).2.gates.size :=
  selectIdentityGates_honest_ext bit a c hwf hb ha (Extends.refl _)

/-- the point the model stores in the returned pair -/
theorem selectIdentityGates_ptW_val (bit : Nat) (a : Pt) (c : Composer) (hwf : WF c)
    (hb : bit < c.wit.size) (ha : PtAlloc c a) :
    ptW ((selectIdentityGates bit a).run c).2.val ((selectIdentityGates bit a).run c).1 =
      selIdF (toF (c.val bit)) (ptW c.val a) := by
  have hs := (selectIdentityGates_sound bit a c hwf _
    (selectIdentityGates_honest bit a c hwf hb ha)).1
  have hx := selectIdentityGates_extends bit a c
  rw [hs, hx.val_eq hb, hx.ptW_val_eq ha]

/-! `component_select_identity` = `component_boolean` + `select_identity_gates` -/

/-- state after the boolean gate -/
def selIdB (c : Composer) (bit : Nat) : Composer := ((componentBoolean bit).run c).2

theorem selIdB_appends (c : Composer) (bit : Nat) : Appends c (selIdB c bit) 1 0 :=
  componentBoolean_appends bit c

theorem selIdB_wf (c : Composer) (bit : Nat) (h : WF c) : WF (selIdB c bit) :=
  componentBoolean_wf bit c h

theorem selIdB_wit_size (c : Composer) (bit : Nat) : (selIdB c bit).wit.size = c.wit.size :=
  (selIdB_appends c bit).wit

theorem selIdB_gates_size (c : Composer) (bit : Nat) :
    (selIdB c bit).gates.size = c.gates.size + 1 := (selIdB_appends c bit).gates

theorem componentSelectIdentity_run (bit : Nat) (a : Pt) (c : Composer) :
    (componentSelectIdentity bit a).run c = (selectIdentityGates bit a).run (selIdB c bit) := by
  unfold componentSelectIdentity
  rw [run_bind']; rfl

theorem componentSelectIdentity_fst (bit : Nat) (a : Pt) (c : Composer) :
    ((componentSelectIdentity bit a).run c).1 = (c.wit.size, c.wit.size + 1) := by
  rw [componentSelectIdentity_run, selectIdentityGates_fst, selIdB_wit_size]

theorem componentSelectIdentity_appends (bit : Nat) (a : Pt) (c : Composer) :
    Appends c ((componentSelectIdentity bit a).run c).2 3 2 := by
  rw [componentSelectIdentity_run]
  exact (selIdB_appends c bit).trans (selectIdentityGates_appends bit a _)

theorem componentSelectIdentity_appendsL (bit : Nat) (a : Pt) (c : Composer) :
    AppendsL c ((componentSelectIdentity bit a).run c).2 3 2 :=
  (componentSelectIdentity_appends bit a c).toL

theorem componentSelectIdentity_extends (bit : Nat) (a : Pt) (c : Composer) :
    Extends c ((componentSelectIdentity bit a).run c).2 :=
  (componentSelectIdentity_appends bit a c).ext

theorem componentSelectIdentity_wf (bit : Nat) (a : Pt) (c : Composer) (h : WF c) :
    WF ((componentSelectIdentity bit a).run c).2 := by
  rw [componentSelectIdentity_run]
  exact selectIdentityGates_wf _ _ _ (selIdB_wf c bit h)

/-- `component_select_identity bit a`: the three appended rows hold iff the bit wire is `0` or `1`
    and the returned pair carries `(bit·x, 1 − bit + bit·y)` -/
theorem componentSelectIdentity_rows_iff (bit : Nat) (a : Pt) (c : Composer) (h : WF c)
    (w : Nat → Nat) :
    ((componentSelectIdentity bit a).run c).2.rowsHoldW w c.gates.size
        ((componentSelectIdentity bit a).run c).2.gates.size ↔
      (toF (w bit) = 0 ∨ toF (w bit) = 1) ∧
      ptW w (c.wit.size, c.wit.size + 1) = selIdF (toF (w bit)) (ptW w a) := by
  rw [componentSelectIdentity_run,
    (selIdB_appends c bit).rows_split (selectIdentityGates_appends bit a _) w]
  have r1 : (selIdB c bit).rowsHoldW w c.gates.size (selIdB c bit).gates.size ↔ _ :=
    componentBoolean_rows_iff bit c h w
  have r2 := selectIdentityGates_rows_iff bit a (selIdB c bit) (selIdB_wf c bit h) w
  rw [selIdB_wit_size] at r2
  exact and_congr r1 r2

/-- **soundness of `component_select_identity`** (arbitrary assignment): the bit is boolean and
    the output is the identity for `0`, the input point for `1` -/
theorem componentSelectIdentity_sound (bit : Nat) (a : Pt) (c : Composer) (h : WF c)
    (w : Nat → Nat)
    (hr : ((componentSelectIdentity bit a).run c).2.rowsHoldW w c.gates.size
        ((componentSelectIdentity bit a).run c).2.gates.size) :
    (toF (w bit) = 0 ∧ ptW w ((componentSelectIdentity bit a).run c).1 = idF) ∨
    (toF (w bit) = 1 ∧ ptW w ((componentSelectIdentity bit a).run c).1 = ptW w a) := by
  obtain ⟨hb, e⟩ := (componentSelectIdentity_rows_iff bit a c h w).mp hr
  rw [componentSelectIdentity_fst]
  rcases hb with hb | hb
  · exact Or.inl ⟨hb, by rw [e, hb, selIdF_zero]⟩
  · exact Or.inr ⟨hb, by rw [e, hb, selIdF_one]⟩

/-- **`component_select_identity` is unsatisfiable for a non-boolean bit** -/
theorem componentSelectIdentity_unsat (bit : Nat) (a : Pt) (c : Composer) (h : WF c)
    (w : Nat → Nat) (h0 : toF (w bit) ≠ 0) (h1 : toF (w bit) ≠ 1) :
    ¬ ((componentSelectIdentity bit a).run c).2.rowsHoldW w c.gates.size
        ((componentSelectIdentity bit a).run c).2.gates.size := by
  intro hr
  rcases ((componentSelectIdentity_rows_iff bit a c h w).mp hr).1 with hb | hb
  · exact h0 hb
  · exact h1 hb

/-- **completeness of `component_select_identity`**: the model's table satisfies the rows iff the
    bit value is `0` or `1` -/
theorem componentSelectIdentity_honest_ext (bit : Nat) (a : Pt) (c : Composer) (hwf : WF c)
    (hb : bit < c.wit.size) (ha : PtAlloc c a) (hbit : c.val bit = 0 ∨ c.val bit = 1)
    {c'' : Composer} (hext : Extends ((componentSelectIdentity bit a).run c).2 c'') :
    ((componentSelectIdentity bit a).run c).2.rowsHoldW c''.val c.gates.size
      ((componentSelectIdentity bit a).run c).2.gates.size := by
  rw [componentSelectIdentity_run] at hext ⊢
  have A1 := selIdB_appends c bit
  have A2 := selectIdentityGates_appends bit a (selIdB c bit)
  rw [A1.rows_split A2]
  have x1 : Extends (selIdB c bit) c'' := A2.ext.trans hext
  exact ⟨componentBoolean_honest_ext bit c hwf hb hbit x1,
    selectIdentityGates_honest_ext bit a _ (selIdB_wf c bit hwf)
      (Nat.lt_of_lt_of_le hb A1.ext.wit_size) (ha.mono A1.ext) hext⟩

theorem componentSelectIdentity_honest_iff (bit : Nat) (a : Pt) (c : Composer) (hwf : WF c)
    (hb : bit < c.wit.size) (ha : PtAlloc c a) :
    ((componentSelectIdentity bit a).run c).2.rowsHoldW
        ((componentSelectIdentity bit a).run c).2.val c.gates.size
        ((componentSelectIdentity bit a).run c).2.gates.size ↔
      (c.val bit = 0 ∨ c.val bit = 1) := by
  constructor
  · intro hr
    have hx := componentSelectIdentity_extends bit a c
    have := ((componentSelectIdentity_rows_iff bit a c hwf _).mp hr).1
    rw [hx.val_eq hb] at this
    have e0 : toF (c.val bit) = 0 ↔ c.val bit = 0 := toF_eq_zero_of_lt (hwf.val_lt bit)
    have e1 : toF (c.val bit) = 1 ↔ c.val bit = 1 := by
      rw [← toF_one]; exact toF_inj_of_lt (hwf.val_lt bit) R_gt_one
    exact (or_congr e0 e1).mp this
  · intro hbit
    exact componentSelectIdentity_honest_ext bit a c hwf hb ha hbit (Extends.refl _)

/-- the point the model stores: `P` for bit value `1`, the identity for `0` -/
theorem componentSelectIdentity_ptW_val (bit : Nat) (a : Pt) (c : Composer) (hwf : WF c)
    (hb : bit < c.wit.size) (ha : PtAlloc c a) :
    ptW ((componentSelectIdentity bit a).run c).2.val ((componentSelectIdentity bit a).run c).1 =
      selIdF (toF (c.val bit)) (ptW c.val a) := by
  rw [componentSelectIdentity_run]
  have hx : Extends c (selIdB c bit) := (selIdB_appends c bit).ext
  rw [selectIdentityGates_ptW_val bit a _ (selIdB_wf c bit hwf)
    (Nat.lt_of_lt_of_le hb hx.wit_size) (ha.mono hx), hx.val_eq hb, hx.ptW_val_eq ha]

/-! ### `component_select_point` : `bit·a + (1 − bit)·b` coordinate-wise -/

/-- field-level selection between two points -/
def selPtF (b : F) (P Q : PtF) : PtF := (b * P.1 + (1 - b) * Q.1, b * P.2 + (1 - b) * Q.2)

@[simp] theorem selPtF_one (P Q : PtF) : selPtF 1 P Q = P := by simp [selPtF]
@[simp] theorem selPtF_zero (P Q : PtF) : selPtF 0 P Q = Q := by simp [selPtF]

/-- state after the first `component_select` -/
def selPtMid (c : Composer) (bit : Nat) (a b : Pt) : Composer :=
  ((componentSelect bit a.1 b.1).run c).2

theorem selPtMid_appends (c : Composer) (bit : Nat) (a b : Pt) :
    Appends c (selPtMid c bit a b) 4 4 := componentSelect_appends bit a.1 b.1 c

theorem selPtMid_wf (c : Composer) (bit : Nat) (a b : Pt) (h : WF c) :
    WF (selPtMid c bit a b) := componentSelect_wf bit a.1 b.1 c h

theorem selPtMid_wit_size (c : Composer) (bit : Nat) (a b : Pt) :
    (selPtMid c bit a b).wit.size = c.wit.size + 4 := (selPtMid_appends c bit a b).wit

theorem componentSelectPoint_run (bit : Nat) (a b : Pt) (c : Composer) :
    (componentSelectPoint bit a b).run c =
      ((c.wit.size + 3, c.wit.size + 7),
        ((componentSelect bit a.2 b.2).run (selPtMid c bit a b)).2) := by
  unfold componentSelectPoint
  rw [run_bind', run_bind']
  show ((((componentSelect bit a.1 b.1).run c).1,
    ((componentSelect bit a.2 b.2).run (selPtMid c bit a b)).1),
    ((componentSelect bit a.2 b.2).run (selPtMid c bit a b)).2) = _
  rw [componentSelect_fst, componentSelect_fst, selPtMid_wit_size]

theorem componentSelectPoint_fst (bit : Nat) (a b : Pt) (c : Composer) :
    ((componentSelectPoint bit a b).run c).1 = (c.wit.size + 3, c.wit.size + 7) := by
  rw [componentSelectPoint_run]

theorem componentSelectPoint_snd (bit : Nat) (a b : Pt) (c : Composer) :
    ((componentSelectPoint bit a b).run c).2 =
      ((componentSelect bit a.2 b.2).run (selPtMid c bit a b)).2 := by
  rw [componentSelectPoint_run]

theorem componentSelectPoint_appends (bit : Nat) (a b : Pt) (c : Composer) :
    Appends c ((componentSelectPoint bit a b).run c).2 8 8 := by
  rw [componentSelectPoint_snd]
  exact (selPtMid_appends c bit a b).trans (componentSelect_appends bit a.2 b.2 _)

theorem componentSelectPoint_appendsL (bit : Nat) (a b : Pt) (c : Composer) :
    AppendsL c ((componentSelectPoint bit a b).run c).2 8 8 :=
  (componentSelectPoint_appends bit a b c).toL

theorem componentSelectPoint_extends (bit : Nat) (a b : Pt) (c : Composer) :
    Extends c ((componentSelectPoint bit a b).run c).2 :=
  (componentSelectPoint_appends bit a b c).ext

theorem componentSelectPoint_wf (bit : Nat) (a b : Pt) (c : Composer) (h : WF c) :
    WF ((componentSelectPoint bit a b).run c).2 := by
  rw [componentSelectPoint_snd]
  exact componentSelect_wf _ _ _ _ (selPtMid_wf c bit a b h)

/-- the eight appended rows: two copies of the `component_select` relation, on the witnesses
    `n..n+3` (x coordinate) and `n+4..n+7` (y coordinate) -/
theorem componentSelectPoint_rows_iff (bit : Nat) (a b : Pt) (c : Composer) (h : WF c)
    (w : Nat → Nat) :
    ((componentSelectPoint bit a b).run c).2.rowsHoldW w c.gates.size
        ((componentSelectPoint bit a b).run c).2.gates.size ↔
      (toF (w c.wit.size) = toF (w bit) * toF (w a.1) ∧
       toF (w (c.wit.size + 1)) = 1 - toF (w bit) ∧
       toF (w (c.wit.size + 2)) = toF (w (c.wit.size + 1)) * toF (w b.1) ∧
       toF (w (c.wit.size + 3)) = toF (w (c.wit.size + 2)) + toF (w c.wit.size)) ∧
      (toF (w (c.wit.size + 4)) = toF (w bit) * toF (w a.2) ∧
       toF (w (c.wit.size + 5)) = 1 - toF (w bit) ∧
       toF (w (c.wit.size + 6)) = toF (w (c.wit.size + 5)) * toF (w b.2) ∧
       toF (w (c.wit.size + 7)) = toF (w (c.wit.size + 6)) + toF (w (c.wit.size + 4))) := by
  rw [componentSelectPoint_snd,
    (selPtMid_appends c bit a b).rows_split (componentSelect_appends bit a.2 b.2 _) w]
  have r1 : (selPtMid c bit a b).rowsHoldW w c.gates.size (selPtMid c bit a b).gates.size ↔ _ :=
    componentSelect_rows_iff bit a.1 b.1 c h w
  have r2 := componentSelect_rows_iff bit a.2 b.2 (selPtMid c bit a b) (selPtMid_wf c bit a b h) w
  rw [selPtMid_wit_size] at r2
  exact and_congr r1 r2

/-- **soundness of `component_select_point`** (arbitrary assignment): the returned coordinates
    are `bit·a + (1 − bit)·b`; hence the first input for `bit = 1`, the second for `bit = 0`.
    (Booleanity of the bit is NOT enforced by this component.) -/
theorem componentSelectPoint_sound (bit : Nat) (a b : Pt) (c : Composer) (h : WF c)
    (w : Nat → Nat)
    (hr : ((componentSelectPoint bit a b).run c).2.rowsHoldW w c.gates.size
        ((componentSelectPoint bit a b).run c).2.gates.size) :
    ptW w ((componentSelectPoint bit a b).run c).1 = selPtF (toF (w bit)) (ptW w a) (ptW w b) ∧
    (toF (w bit) = 1 → ptW w ((componentSelectPoint bit a b).run c).1 = ptW w a) ∧
    (toF (w bit) = 0 → ptW w ((componentSelectPoint bit a b).run c).1 = ptW w b) := by
  obtain ⟨⟨x1, x2, x3, x4⟩, ⟨y1, y2, y3, y4⟩⟩ :=
    (componentSelectPoint_rows_iff bit a b c h w).mp hr
  have e : ptW w ((componentSelectPoint bit a b).run c).1 =
      selPtF (toF (w bit)) (ptW w a) (ptW w b) := by
    rw [componentSelectPoint_fst]
    unfold ptW selPtF
    simp only [Prod.mk.injEq]
    exact ⟨by rw [x4, x3, x2, x1]; ring, by rw [y4, y3, y2, y1]; ring⟩
  exact ⟨e, fun hb => by rw [e, hb, selPtF_one], fun hb => by rw [e, hb, selPtF_zero]⟩

/-- **completeness of `component_select_point`**: the model's table always satisfies the rows -/
theorem componentSelectPoint_honest_ext (bit : Nat) (a b : Pt) (c : Composer) (hwf : WF c)
    (hbit : bit < c.wit.size) (ha : PtAlloc c a) (hb : PtAlloc c b)
    {c'' : Composer} (hext : Extends ((componentSelectPoint bit a b).run c).2 c'') :
    ((componentSelectPoint bit a b).run c).2.rowsHoldW c''.val c.gates.size
      ((componentSelectPoint bit a b).run c).2.gates.size := by
  rw [componentSelectPoint_snd] at hext ⊢
  have A1 := selPtMid_appends c bit a b
  have A2 := componentSelect_appends bit a.2 b.2 (selPtMid c bit a b)
  rw [A1.rows_split A2]
  have x1 : Extends (selPtMid c bit a b) c'' := A2.ext.trans hext
  exact ⟨componentSelect_honest_ext bit a.1 b.1 c hwf hbit ha.1 hb.1 x1,
    componentSelect_honest_ext bit a.2 b.2 _ (selPtMid_wf c bit a b hwf)
      (Nat.lt_of_lt_of_le hbit A1.ext.wit_size) (Nat.lt_of_lt_of_le ha.2 A1.ext.wit_size)
      (Nat.lt_of_lt_of_le hb.2 A1.ext.wit_size) hext⟩

theorem componentSelectPoint_honest (bit : Nat) (a b : Pt) (c : Composer) (hwf : WF c)
    (hbit : bit < c.wit.size) (ha : PtAlloc c a) (hb : PtAlloc c b) :
    ((componentSelectPoint bit a b).run c).2.rowsHoldW ((componentSelectPoint bit a b).run c).2.val
      c.gates.size ((componentSelectPoint bit a b).run c).2.gates.size :=
  componentSelectPoint_honest_ext bit a b c hwf hbit ha hb (Extends.refl _)

/-- the point the model stores in the returned pair -/
theorem componentSelectPoint_ptW_val (bit : Nat) (a b : Pt) (c : Composer) (hwf : WF c)
    (hbit : bit < c.wit.size) (ha : PtAlloc c a) (hb : PtAlloc c b) :
    ptW ((componentSelectPoint bit a b).run c).2.val ((componentSelectPoint bit a b).run c).1 =
      selPtF (toF (c.val bit)) (ptW c.val a) (ptW c.val b) := by
  have hs := (componentSelectPoint_sound bit a b c hwf _
    (componentSelectPoint_honest bit a b c hwf hbit ha hb)).1
  have hx := componentSelectPoint_extends bit a b c
  rw [hs, hx.val_eq hbit, hx.ptW_val_eq ha, hx.ptW_val_eq hb]

end Composer

/-! ### the prime-order subgroup is closed under the operations of the components

  All component theorems are stated for on-curve points.  `InSubgroup P` (on the curve and
  `[r_J]P = O`) is only needed to call the results "the group law of the prime-order subgroup":
  the subgroup is closed under everything the components compute, by the `AddCommGroup`
  structure (`CurvePt.addCommGroup`). -/

/-- `P` is a point of the prime-order subgroup: on the curve and killed by `r_J` -/
def InSubgroup (P : PtF) : Prop := OnCurveP P ∧ smulF RJ P = idF

theorem inSubgroup_id : InSubgroup idF := ⟨id_on_curveP, smulF_id RJ⟩

theorem InSubgroup.add {P Q : PtF} (hP : InSubgroup P) (hQ : InSubgroup Q) :
    InSubgroup (addF P Q) :=
  ⟨add_on_curveP hP.1 hQ.1, by rw [smulF_addF RJ hP.1 hQ.1, hP.2, hQ.2, addF_id]⟩

theorem InSubgroup.neg {P : PtF} (hP : InSubgroup P) : InSubgroup (negF P) :=
  ⟨neg_on_curveP hP.1, by rw [smulF_negF, hP.2, negF_id]⟩

theorem InSubgroup.sub {P Q : PtF} (hP : InSubgroup P) (hQ : InSubgroup Q) :
    InSubgroup (addF P (negF Q)) := hP.add hQ.neg

theorem InSubgroup.smul {P : PtF} (hP : InSubgroup P) (n : ℕ) : InSubgroup (smulF n P) :=
  ⟨smulF_on_curve n hP.1, by
    rw [← smulF_mul _ _ hP.1, Nat.mul_comm, smulF_mul _ _ hP.1, hP.2, smulF_id]⟩

theorem InSubgroup.sel {P : PtF} (hP : InSubgroup P) {b : F} (hb : b = 0 ∨ b = 1) :
    InSubgroup (Composer.selIdF b P) := by
  rcases hb with rfl | rfl
  · rw [Composer.selIdF_zero]; exact inSubgroup_id
  · rw [Composer.selIdF_one]; exact hP

/-- **subgroup_closed**: `[r_J]P = O ∧ [r_J]Q = O → [r_J](P+Q) = O`, and likewise for the
    negation, the difference, every scalar multiple and the identity. -/
theorem subgroup_closed {P Q : PtF} (hP : OnCurveP P) (hQ : OnCurveP Q)
    (kP : smulF RJ P = idF) (kQ : smulF RJ Q = idF) (n : ℕ) :
    smulF RJ (addF P Q) = idF ∧ smulF RJ (negF P) = idF ∧ smulF RJ (addF P (negF Q)) = idF ∧
    smulF RJ (smulF n P) = idF ∧ smulF RJ idF = idF :=
  ⟨(InSubgroup.add ⟨hP, kP⟩ ⟨hQ, kQ⟩).2, (InSubgroup.neg ⟨hP, kP⟩).2,
   (InSubgroup.sub ⟨hP, kP⟩ ⟨hQ, kQ⟩).2, (InSubgroup.smul ⟨hP, kP⟩ n).2, inSubgroup_id.2⟩

end Plonk
