/-
  C12 — composer glue for the curve-group components of `point.rs`:
  `addPointGates` / `componentAddPoint`, `componentNegPoint`, `componentSubPoint`,
  `selectIdentityGates` / `componentSelectIdentity`, `componentSelectPoint`.
  (`componentMulPoint` is in `MulPoint.lean`.)

  For each component `X`:
    * `X_run` / `X_fst`   : the returned wire indices
    * `X_appendsL`        : `AppendsL c c' k m` — extends, `k` gates / `m` witnesses appended, the
                            last appended gate is plain (so later components never change the
                            meaning of the rows); `X_wf` : well-formedness (`WF`, hence `PiFresh`)
    * `X_rows_iff`        : the appended rows hold under an ARBITRARY assignment `w` iff the
                            field relation holds
    * `X_sound`           : … with on-curve inputs: outputs = group-law result, helper wires
                            determined, outputs on the curve
    * `X_honest_ext`      : the model's own witness table (read in any later state) satisfies
                            the rows; `X_val` : the values the model stores
-/
import Plonk.Proofs.Arith
import Plonk.Proofs.Range
import Plonk.Proofs.EdwardsRows
import Plonk.Proofs.EdwardsGroup

namespace Plonk
open Plonk Plonk.Composer

namespace Composer

/-! ### framing for components whose inner rows read the next row -/

/-- `c'` is `c` plus exactly `k` gates and `m` witnesses, and the last appended gate is plain
    (inner gates may read their successor row, which belongs to the same component). -/
structure AppendsL (c c' : Composer) (k m : Nat) : Prop where
  ext : Extends c c'
  gates : c'.gates.size = c.gates.size + k
  wit : c'.wit.size = c.wit.size + m
  last_plain : ∀ i, c.gates.size ≤ i → i + 1 = c'.gates.size → Gate.plain (c'.gateAt i)

theorem AppendsL.refl (c : Composer) : AppendsL c c 0 0 :=
  ⟨Extends.refl c, rfl, rfl, fun _ h1 h2 => by omega⟩

theorem Appends.toL {c c' : Composer} {k m : Nat} (h : Appends c c' k m) : AppendsL c c' k m :=
  ⟨h.ext, h.gates, h.wit, fun i h1 h2 => h.plain i h1 (by omega)⟩

theorem AppendsL.trans {a b c : Composer} {k m k' m' : Nat} (h1 : AppendsL a b k m)
    (h2 : AppendsL b c k' m') : AppendsL a c (k + k') (m + m') where
  ext := h1.ext.trans h2.ext
  gates := by rw [h2.gates, h1.gates]; omega
  wit := by rw [h2.wit, h1.wit]; omega
  last_plain i hlo hhi := by
    by_cases hi : b.gates.size ≤ i
    · exact h2.last_plain i hi hhi
    · have hb : i + 1 = b.gates.size := by
        have := h2.ext.gates_size; omega
      rw [h2.ext.gateAt_eq (by omega)]
      exact h1.last_plain i hlo hb

/-- the rows appended by a component keep their meaning in any later state -/
theorem AppendsL.rows_ext {a b c : Composer} {k m : Nat} (h : AppendsL a b k m)
    (hx : Extends b c) (w : Nat → Nat) :
    c.rowsHoldW w a.gates.size b.gates.size ↔ b.rowsHoldW w a.gates.size b.gates.size := by
  have key : ∀ i, a.gates.size ≤ i → i < b.gates.size → c.rowHoldsW w i = b.rowHoldsW w i := by
    intro i hlo hi
    by_cases h1 : i + 1 < b.gates.size
    · exact hx.rowHoldsW_eq w h1
    · exact hx.rowHoldsW_eq_of_plain w hi (h.last_plain i hlo (by omega))
  constructor
  · intro H i h1 h2; rw [← key i h1 h2]; exact H i h1 h2
  · intro H i h1 h2; rw [key i h1 h2]; exact H i h1 h2

/-- rows of two consecutive components: those of the first (read in the intermediate state) and
    those of the rest -/
theorem AppendsL.rows_split {a b c : Composer} {k m : Nat} (h1 : AppendsL a b k m)
    (hx : Extends b c) (w : Nat → Nat) :
    c.rowsHoldW w a.gates.size c.gates.size ↔
      b.rowsHoldW w a.gates.size b.gates.size ∧ c.rowsHoldW w b.gates.size c.gates.size := by
  rw [rowsHoldW_split c w h1.ext.gates_size hx.gates_size, h1.rows_ext hx w]

theorem WF.piFresh {c : Composer} (h : WF c) : PiFresh c := h.pis_zero

/-- the field point carried by the wire pair `p` under the assignment `w` -/
def ptW (w : Nat → Nat) (p : Pt) : PtF := (toF (w p.1), toF (w p.2))

@[simp] theorem ptW_fst (w : Nat → Nat) (p : Pt) : (ptW w p).1 = toF (w p.1) := rfl
@[simp] theorem ptW_snd (w : Nat → Nat) (p : Pt) : (ptW w p).2 = toF (w p.2) := rfl

theorem ptW_mk (w : Nat → Nat) (x y : Nat) : ptW w (x, y) = (toF (w x), toF (w y)) := rfl

/-- both wires of the pair are allocated -/
def PtAlloc (c : Composer) (p : Pt) : Prop := p.1 < c.wit.size ∧ p.2 < c.wit.size

theorem PtAlloc.mono {c c' : Composer} {p : Pt} (h : PtAlloc c p) (hx : Extends c c') :
    PtAlloc c' p := ⟨Nat.lt_of_lt_of_le h.1 hx.wit_size, Nat.lt_of_lt_of_le h.2 hx.wit_size⟩

theorem Extends.ptW_val_eq {c c' : Composer} (hx : Extends c c') {p : Pt} (h : PtAlloc c p) :
    ptW c'.val p = ptW c.val p := by
  unfold ptW; rw [hx.val_eq h.1, hx.val_eq h.2]

/-! ### `add_point_gates` -/

/-- the curve-addition gate on wires `(x1, y1, x2, y2)` -/
def addVarGate (a b : Pt) : Gate :=
  (Constraint.groupAddVariableBase { a := a.1, b := a.2, c := b.1, d := b.2 }).toGate

/-- the unselected closing row carrying `(x3, y3, _, x1·y2)`; `n` = first allocated witness -/
def addOutGate (n : Nat) : Gate := ({ a := n + 1, b := n + 2, d := n } : Constraint).toGate

/-- explicit output state of `add_point_gates a b` -/
def addOut (c : Composer) (a b : Pt) : Composer :=
  { gates := (c.gates.push (addVarGate a b)).push (addOutGate c.wit.size),
    wit := ((c.wit.push (fmul (c.val a.1) (c.val b.2) % R)).push
              ((edAddOrId (c.val a.1, c.val a.2) (c.val b.1, c.val b.2)).1 % R)).push
              ((edAddOrId (c.val a.1, c.val a.2) (c.val b.1, c.val b.2)).2 % R),
    pis := c.pis }

theorem addPointGates_run (a b : Pt) (c : Composer) :
    (addPointGates a b).run c = ((c.wit.size + 1, c.wit.size + 2), addOut c a b) := by
  unfold addPointGates addOut addVarGate addOutGate
  simp only [bind, StateT.bind, StateT.run, getVal, pure, StateT.pure, appendWitness,
    appendCustomGate]
  simp [Constraint.groupAddVariableBase, Constraint.fromExternal]

theorem addPointGates_fst (a b : Pt) (c : Composer) :
    ((addPointGates a b).run c).1 = (c.wit.size + 1, c.wit.size + 2) := by
  rw [addPointGates_run]

theorem addPointGates_snd (a b : Pt) (c : Composer) :
    ((addPointGates a b).run c).2 = addOut c a b := by rw [addPointGates_run]

theorem addOut_gates_size (c : Composer) (a b : Pt) :
    (addOut c a b).gates.size = c.gates.size + 2 := by simp [addOut]

theorem addOut_wit_size (c : Composer) (a b : Pt) :
    (addOut c a b).wit.size = c.wit.size + 3 := by simp [addOut]

theorem addOut_get0 (c : Composer) (a b : Pt) :
    (addOut c a b).gates[c.gates.size]? = some (addVarGate a b) := by
  show ((c.gates.push _).push _)[c.gates.size]? = _
  rw [push2_eq, Array.getElem?_append_right (Nat.le_refl _)]; simp

theorem addOut_get1 (c : Composer) (a b : Pt) :
    (addOut c a b).gates[c.gates.size + 1]? = some (addOutGate c.wit.size) := by
  show ((c.gates.push _).push _)[c.gates.size + 1]? = _
  rw [push2_eq, Array.getElem?_append_right (Nat.le_succ _)]; simp

theorem addOut_piAt (c : Composer) (a b : Pt) (i : Nat) : (addOut c a b).piAt i = c.piAt i := rfl

theorem addOut_extends (c : Composer) (a b : Pt) : Extends c (addOut c a b) :=
  extends_of_append _ _ (push2_eq _ _ _) (push3_eq _ _ _ _) rfl

theorem addOutGate_plain (n : Nat) : Gate.plain (addOutGate n) := ⟨rfl, rfl, rfl, rfl⟩

theorem addOut_appendsL (c : Composer) (a b : Pt) : AppendsL c (addOut c a b) 2 3 where
  ext := addOut_extends c a b
  gates := addOut_gates_size c a b
  wit := addOut_wit_size c a b
  last_plain i _ hi := by
    rw [addOut_gates_size] at hi
    have : i = c.gates.size + 1 := by omega
    subst this
    rw [gateAt_of_get (addOut_get1 c a b)]; exact addOutGate_plain _

theorem addPointGates_appendsL (a b : Pt) (c : Composer) :
    AppendsL c ((addPointGates a b).run c).2 2 3 := by
  rw [addPointGates_snd]; exact addOut_appendsL c a b

theorem addPointGates_extends (a b : Pt) (c : Composer) :
    Extends c ((addPointGates a b).run c).2 := (addPointGates_appendsL a b c).ext

theorem addOut_val_helper (c : Composer) (a b : Pt) :
    (addOut c a b).val c.wit.size = fmul (c.val a.1) (c.val b.2) := by
  have h := val_of_wit_append (c := c) (c' := addOut c a b) (push3_eq _ _ _ _) 0
  rw [Nat.add_zero] at h; rw [h]
  simp [Nat.mod_eq_of_lt (fmul_lt _ _)]

theorem addOut_val_x (c : Composer) (a b : Pt) :
    (addOut c a b).val (c.wit.size + 1) =
      (edAddOrId (c.val a.1, c.val a.2) (c.val b.1, c.val b.2)).1 := by
  rw [val_of_wit_append (c := c) (c' := addOut c a b) (push3_eq _ _ _ _) 1]
  simp [Nat.mod_eq_of_lt (edAddOrId_lt _ _).1]

theorem addOut_val_y (c : Composer) (a b : Pt) :
    (addOut c a b).val (c.wit.size + 2) =
      (edAddOrId (c.val a.1, c.val a.2) (c.val b.1, c.val b.2)).2 := by
  rw [val_of_wit_append (c := c) (c' := addOut c a b) (push3_eq _ _ _ _) 2]
  simp [Nat.mod_eq_of_lt (edAddOrId_lt _ _).2]

theorem addOut_wf (c : Composer) (a b : Pt) (h : WF c) : WF (addOut c a b) where
  val_lt i := by
    by_cases hi : i < c.wit.size
    · rw [(addOut_extends c a b).val_eq hi]; exact h.val_lt i
    · by_cases h3 : i < c.wit.size + 3
      · obtain rfl | rfl | rfl : i = c.wit.size ∨ i = c.wit.size + 1 ∨ i = c.wit.size + 2 := by
          omega
        · rw [addOut_val_helper]; exact fmul_lt _ _
        · rw [addOut_val_x]; exact (edAddOrId_lt _ _).1
        · rw [addOut_val_y]; exact (edAddOrId_lt _ _).2
      · rw [val_of_size_le _ (by rw [addOut_wit_size]; omega)]; exact R_pos
  pis_zero i hi := by
    rw [addOut_piAt]; rw [addOut_gates_size] at hi; exact h.pis_zero i (by omega)

theorem addPointGates_wf (a b : Pt) (c : Composer) (h : WF c) :
    WF ((addPointGates a b).run c).2 := by
  rw [addPointGates_snd]; exact addOut_wf c a b h

theorem addPointGates_piFresh (a b : Pt) (c : Composer) (h : PiFresh c) :
    PiFresh ((addPointGates a b).run c).2 := by
  rw [addPointGates_snd]
  intro i hi
  rw [addOut_piAt]; rw [addOut_gates_size] at hi; exact h i (by omega)

theorem rowHolds_addOutGate (n va vb vc vd an bn dn : Nat) :
    rowHolds (addOutGate n) va vb vc vd an bn dn 0 = true := by
  rw [rowHolds_arith _ rfl rfl rfl rfl]
  simp [arithF, addOutGate, Constraint.toGate]

/-- `add_point_gates a b`: the two appended rows hold under `w` iff the three allocated
    witnesses `n` (helper), `n+1`, `n+2` (output) satisfy the curve-addition identities with the
    inputs `a`, `b`. -/
theorem addPointGates_rows_iff (a b : Pt) (c : Composer) (hpi : PiFresh c) (w : Nat → Nat) :
    ((addPointGates a b).run c).2.rowsHoldW w c.gates.size
        ((addPointGates a b).run c).2.gates.size ↔
      VarRowF (toF (w a.1)) (toF (w a.2)) (toF (w b.1)) (toF (w b.2))
        (toF (w (c.wit.size + 1))) (toF (w (c.wit.size + 2))) (toF (w c.wit.size)) := by
  rw [addPointGates_snd, addOut_gates_size,
    rowsHoldW_split _ w (Nat.le_succ c.gates.size) (Nat.le_succ (c.gates.size + 1)),
    rowsHoldW_single, rowsHoldW_single]
  have p0 : (addOut c a b).piAt c.gates.size = 0 := hpi _ (Nat.le_refl _)
  have p1 : (addOut c a b).piAt (c.gates.size + 1) = 0 := hpi _ (Nat.le_succ _)
  rw [rowHoldsW_of_get (addOut_get0 c a b) (addOut_get1 c a b) p0,
    rowHoldsW_of_get_plain (addOut_get1 c a b) (addOutGate_plain _) p1, rowHolds_addOutGate]
  obtain ⟨hv, ha, hr, hl, hf⟩ :=
    groupAddVariableBase_selectors { a := a.1, b := a.2, c := b.1, d := b.2 }
  rw [addVarGate, rowHolds_var _ hv ha hr hl hf]
  simp [Constraint.groupAddVariableBase, Constraint.fromExternal, Constraint.toGate, addOutGate]

/-- On curve inputs the rows have exactly one solution: the helper wire is `x1·y2` and the output
    wires carry the Edwards sum. -/
theorem addPointGates_rows_iff_on_curve (a b : Pt) (c : Composer) (hpi : PiFresh c)
    (w : Nat → Nat) (h1 : OnCurveP (ptW w a)) (h2 : OnCurveP (ptW w b)) :
    ((addPointGates a b).run c).2.rowsHoldW w c.gates.size
        ((addPointGates a b).run c).2.gates.size ↔
      toF (w c.wit.size) = toF (w a.1) * toF (w b.2) ∧
      ptW w (c.wit.size + 1, c.wit.size + 2) = addF (ptW w a) (ptW w b) := by
  rw [addPointGates_rows_iff a b c hpi w]
  exact varRowF_iff_of_on_curve h1 h2 _ _ _

/-- **soundness of `add_point_gates`**: for an arbitrary assignment with on-curve inputs, the
    rows force the helper wire to be `x1·y2`, the output to be the group sum, and the output is
    again on the curve. -/
theorem addPointGates_sound (a b : Pt) (c : Composer) (hpi : PiFresh c)
    (w : Nat → Nat) (h1 : OnCurveP (ptW w a)) (h2 : OnCurveP (ptW w b))
    (hr : ((addPointGates a b).run c).2.rowsHoldW w c.gates.size
        ((addPointGates a b).run c).2.gates.size) :
    toF (w c.wit.size) = toF (w a.1) * toF (w b.2) ∧
    ptW w ((addPointGates a b).run c).1 = addF (ptW w a) (ptW w b) ∧
    OnCurveP (ptW w ((addPointGates a b).run c).1) := by
  obtain ⟨e1, e2⟩ := (addPointGates_rows_iff_on_curve a b c hpi w h1 h2).mp hr
  rw [addPointGates_fst]
  exact ⟨e1, e2, by rw [e2]; exact add_on_curveP h1 h2⟩

/-- the values the model stores (inputs on the curve): helper `x1·y2`, output the group sum -/
theorem addPointGates_val (a b : Pt) (c : Composer)
    (h1 : OnCurveP (ptW c.val a)) (h2 : OnCurveP (ptW c.val b)) :
    toF (((addPointGates a b).run c).2.val c.wit.size) = toF (c.val a.1) * toF (c.val b.2) ∧
    ptW ((addPointGates a b).run c).2.val ((addPointGates a b).run c).1 =
      addF (ptW c.val a) (ptW c.val b) := by
  rw [addPointGates_fst, addPointGates_snd]
  refine ⟨by rw [addOut_val_helper, toF_fmul], ?_⟩
  have hs := toFP_edAddOrId (c.val a.1, c.val a.2) (c.val b.1, c.val b.2)
    ((onCurve_iff_P _).mpr h1) ((onCurve_iff_P _).mpr h2)
  unfold ptW
  simp only [addOut_val_x, addOut_val_y]
  exact hs

/-- **completeness of `add_point_gates`**: the model's own witness table (read in any later
    state) satisfies the rows when the inputs are allocated curve points. -/
theorem addPointGates_honest_ext (a b : Pt) (c : Composer) (hpi : PiFresh c)
    (ha : PtAlloc c a) (hb : PtAlloc c b)
    (h1 : OnCurveP (ptW c.val a)) (h2 : OnCurveP (ptW c.val b))
    {c'' : Composer} (hext : Extends ((addPointGates a b).run c).2 c'') :
    ((addPointGates a b).run c).2.rowsHoldW c''.val c.gates.size
      ((addPointGates a b).run c).2.gates.size := by
  have hap := addPointGates_appendsL a b c
  have hex := hap.ext.trans hext
  have ea : ptW c''.val a = ptW c.val a := hex.ptW_val_eq ha
  have eb : ptW c''.val b = ptW c.val b := hex.ptW_val_eq hb
  rw [addPointGates_rows_iff_on_curve a b c hpi _ (by rw [ea]; exact h1) (by rw [eb]; exact h2)]
  obtain ⟨v1, v2⟩ := addPointGates_val a b c h1 h2
  rw [addPointGates_fst] at v2
  have hw : ((addPointGates a b).run c).2.wit.size = c.wit.size + 3 := hap.wit
  have eo : ptW c''.val (c.wit.size + 1, c.wit.size + 2) =
      ptW ((addPointGates a b).run c).2.val (c.wit.size + 1, c.wit.size + 2) :=
    hext.ptW_val_eq ⟨by rw [hw]; omega, by rw [hw]; omega⟩
  rw [eo, v2, ea, eb, hext.val_eq (by rw [hw]; omega), v1, hex.val_eq ha.1, hex.val_eq hb.2]
  exact ⟨rfl, rfl⟩

theorem addPointGates_honest (a b : Pt) (c : Composer) (hpi : PiFresh c)
    (ha : PtAlloc c a) (hb : PtAlloc c b)
    (h1 : OnCurveP (ptW c.val a)) (h2 : OnCurveP (ptW c.val b)) :
    ((addPointGates a b).run c).2.rowsHoldW ((addPointGates a b).run c).2.val c.gates.size
      ((addPointGates a b).run c).2.gates.size :=
  addPointGates_honest_ext a b c hpi ha hb h1 h2 (Extends.refl _)

/-- completeness for every assignment: any assignment of the old wires with on-curve inputs
    extends to the three new wires so that the rows hold -/
theorem addPointGates_exists (a b : Pt) (c : Composer) (hpi : PiFresh c)
    (ha : PtAlloc c a) (hb : PtAlloc c b) (w0 : Nat → Nat)
    (h1 : OnCurveP (ptW w0 a)) (h2 : OnCurveP (ptW w0 b)) :
    ∃ w, (∀ i, i < c.wit.size → w i = w0 i) ∧
      ((addPointGates a b).run c).2.rowsHoldW w c.gates.size
        ((addPointGates a b).run c).2.gates.size := by
  let n := c.wit.size
  let w3 := setW (setW (setW w0 n (toF (w0 a.1) * toF (w0 b.2))) (n + 1)
    (addF (ptW w0 a) (ptW w0 b)).1) (n + 2) (addF (ptW w0 a) (ptW w0 b)).2
  have old : ∀ i, i < n → w3 i = w0 i := by
    intro i hi
    show setW (setW (setW w0 n _) (n + 1) _) (n + 2) _ i = w0 i
    rw [setW_of_ne _ _ _ (by omega), setW_of_ne _ _ _ (by omega), setW_of_ne _ _ _ (by omega)]
  have v0 : toF (w3 n) = toF (w0 a.1) * toF (w0 b.2) := by
    show toF (setW (setW (setW w0 n _) (n + 1) _) (n + 2) _ n) = _
    rw [setW_of_ne _ _ _ (by omega), setW_of_ne _ _ _ (by omega), setW_self]
  have v1 : toF (w3 (n + 1)) = (addF (ptW w0 a) (ptW w0 b)).1 := by
    show toF (setW (setW (setW w0 n _) (n + 1) _) (n + 2) _ (n + 1)) = _
    rw [setW_of_ne _ _ _ (by omega), setW_self]
  have v2 : toF (w3 (n + 2)) = (addF (ptW w0 a) (ptW w0 b)).2 := setW_self _ _ _
  have ea : ptW w3 a = ptW w0 a := by unfold ptW; rw [old _ ha.1, old _ ha.2]
  have eb : ptW w3 b = ptW w0 b := by unfold ptW; rw [old _ hb.1, old _ hb.2]
  refine ⟨w3, old, ?_⟩
  rw [addPointGates_rows_iff_on_curve a b c hpi _ (by rw [ea]; exact h1) (by rw [eb]; exact h2),
    ea, eb]
  refine ⟨by rw [v0, old _ ha.1, old _ hb.2], ?_⟩
  show (toF (w3 (n + 1)), toF (w3 (n + 2))) = _
  rw [v1, v2]

/-! ### `component_add_point` (= `add_point_gates`) -/

theorem componentAddPoint_eq (a b : Pt) : componentAddPoint a b = addPointGates a b := rfl

end Composer
end Plonk
