/-
  C05 (prover exactness), algebraic half, math level — no model code in this file.

  * `divisible_iff_vanishes` : `(X^n − 1) ∣ N ↔ N` vanishes on the subgroup `⟨ω⟩`.
  * `wsum cs s = s·(c₀ + c₁ s² + c₂ s⁴ + …)` : the challenge-weighted sum of the widget components,
    `components_of_weighted_sum` (vanishing for `≥ 2·|cs|` challenges forces every component to
    vanish), `const_add_wsum_zero`, `sum4_grid_zero` (four independent separation challenges).
  * the widget components, the gate sum, the permutation step and the quotient numerator as
    polynomial functions over an arbitrary commutative ring (`rangeCompsR … numR`), and their
    compatibility with ring homomorphisms (`map_numR`): instantiated at `F` they are the row values,
    instantiated at `F[X]` they are the prover's polynomials, `Polynomial.eval` maps one to the other.
  * `L1P`, the first Lagrange polynomial, `eval_L1P_root`.
  * `numerator_at_root_poly` : the numerator polynomial evaluated at `ω^i` is the row value `N_i`
    computed from the values at rows `i` and `(i+1) mod n`.
  * `grand_product_math` : the running product `z` and the permutation step.
-/
import Mathlib.Algebra.Polynomial.Roots
import Mathlib.Data.List.GetD
import Mathlib.Tactic.Ring
import Mathlib.Tactic.LinearCombination
import Mathlib.Tactic.FieldSimp
import Plonk.Proofs.FftMath

namespace Plonk.Quot
open Polynomial

/-! ### 2. divisibility by the vanishing polynomial -/

section dvd
variable {K : Type*} [Field K]

/-- `X^n − 1` divides `N` iff `N` vanishes at every `ω^i`, `i < n` -/
theorem divisible_iff_vanishes {ω : K} {n : ℕ} (hn : 0 < n) (hω : IsPrimitiveRoot ω n)
    (N : K[X]) : (X ^ n - 1 : K[X]) ∣ N ↔ ∀ i < n, N.eval (ω ^ i) = 0 := by
  constructor
  · rintro ⟨q, rfl⟩ i _
    have : (ω ^ i) ^ n = 1 := by rw [← pow_mul, mul_comm, pow_mul, hω.pow_eq_one, one_pow]
    simp [this]
  · intro h
    classical
    have hm : (X ^ n - 1 : K[X]).Monic := by
      have := monic_X_pow_sub_C (1 : K) hn.ne'
      rwa [C_1] at this
    rw [← modByMonic_eq_zero_iff_dvd hm]
    by_contra hr
    have hdeg : (N %ₘ (X ^ n - 1)).natDegree < n := by
      have h1 := natDegree_lt_natDegree hr (degree_modByMonic_lt N hm)
      have h2 : (X ^ n - 1 : K[X]).natDegree = n := by
        have := natDegree_X_pow_sub_C (R := K) (n := n) (r := 1)
        rwa [C_1] at this
      omega
    apply hr
    apply eq_zero_of_natDegree_lt_card_of_eval_eq_zero' _ ((Finset.range n).image (ω ^ ·))
    · intro x hx
      obtain ⟨i, hi, rfl⟩ := Finset.mem_image.mp hx
      have hx1 : (ω ^ i) ^ n = 1 := by rw [← pow_mul, mul_comm, pow_mul, hω.pow_eq_one, one_pow]
      rw [FftMath.eval_modByMonic_X_pow_sub_one hx1]
      exact h i (Finset.mem_range.mp hi)
    · rw [Finset.card_image_of_injOn, Finset.card_range]
      · exact hdeg
      · intro i hi j hj hij
        exact hω.pow_inj (Finset.mem_coe.mp hi |> Finset.mem_range.mp)
          (Finset.mem_coe.mp hj |> Finset.mem_range.mp) hij

end dvd

/-! ### 3. challenge-weighted sums -/

section wsum
variable {A : Type*} [CommRing A]

/-- `c₀ + c₁ s² + c₂ s⁴ + …` -/
def hornerSq : List A → A → A
  | [], _ => 0
  | c :: cs, s => c + s ^ 2 * hornerSq cs s

/-- the weighted sum of the code: `sep · (c₀ + c₁ κ + c₂ κ² + …)`, `κ = sep²` -/
def wsum (cs : List A) (s : A) : A := s * hornerSq cs s

@[simp] theorem hornerSq_nil (s : A) : hornerSq ([] : List A) s = 0 := rfl
@[simp] theorem hornerSq_cons (c : A) (cs : List A) (s : A) :
    hornerSq (c :: cs) s = c + s ^ 2 * hornerSq cs s := rfl

theorem hornerSq_map_mul (q : A) (cs : List A) (s : A) :
    hornerSq (cs.map (q * ·)) s = q * hornerSq cs s := by
  induction cs with
  | nil => simp
  | cons c cs ih => simp [ih]; ring

theorem wsum_map_mul (q : A) (cs : List A) (s : A) : wsum (cs.map (q * ·)) s = q * wsum cs s := by
  unfold wsum; rw [hornerSq_map_mul]; ring

theorem hornerSq_of_all_zero (cs : List A) (h : ∀ c ∈ cs, c = 0) (s : A) : hornerSq cs s = 0 := by
  induction cs with
  | nil => rfl
  | cons c cs ih =>
    rw [hornerSq_cons, h c (by simp), ih (fun x hx => h x (by simp [hx]))]; ring

/-- if every component vanishes the weighted sum vanishes for every challenge -/
theorem wsum_of_all_zero (cs : List A) (h : ∀ c ∈ cs, c = 0) (s : A) : wsum cs s = 0 := by
  unfold wsum; rw [hornerSq_of_all_zero cs h]; ring

theorem map_hornerSq {B : Type*} [CommRing B] (f : A →+* B) (cs : List A) (s : A) :
    f (hornerSq cs s) = hornerSq (cs.map f) (f s) := by
  induction cs with
  | nil => simp
  | cons c cs ih => simp [ih]

theorem map_wsum {B : Type*} [CommRing B] (f : A →+* B) (cs : List A) (s : A) :
    f (wsum cs s) = wsum (cs.map f) (f s) := by
  unfold wsum; rw [map_mul, map_hornerSq]

/-- the polynomial `c₀ + c₁ X² + c₂ X⁴ + …` -/
noncomputable def hornerSqP : List A → A[X]
  | [] => 0
  | c :: cs => C c + X ^ 2 * hornerSqP cs

/-- `A₀ + X·(c₀ + c₁ X² + …)` -/
noncomputable def wpoly (a0 : A) (cs : List A) : A[X] := C a0 + X * hornerSqP cs

theorem eval_hornerSqP (cs : List A) (s : A) : (hornerSqP cs).eval s = hornerSq cs s := by
  induction cs with
  | nil => simp [hornerSqP]
  | cons c cs ih => simp [hornerSqP, ih]

theorem eval_wpoly (a0 : A) (cs : List A) (s : A) : (wpoly a0 cs).eval s = a0 + wsum cs s := by
  simp [wpoly, wsum, eval_hornerSqP]

theorem coeff_hornerSqP (cs : List A) (m : ℕ) :
    (hornerSqP cs).coeff m = if m % 2 = 0 then cs.getD (m / 2) 0 else 0 := by
  induction cs generalizing m with
  | nil => simp [hornerSqP]
  | cons c cs ih =>
    simp only [hornerSqP, coeff_add, coeff_C]
    match m with
    | 0 => simp
    | 1 => simp [coeff_X_pow_mul']
    | m + 2 =>
      rw [coeff_X_pow_mul, ih]
      have h1 : (m + 2) % 2 = m % 2 := by omega
      have h2 : (m + 2) / 2 = m / 2 + 1 := by omega
      simp [h1, h2]

theorem coeff_wpoly_succ (a0 : A) (cs : List A) (m : ℕ) :
    (wpoly a0 cs).coeff (m + 1) = if m % 2 = 0 then cs.getD (m / 2) 0 else 0 := by
  simp [wpoly, coeff_hornerSqP, coeff_C_succ]

theorem coeff_wpoly_zero (a0 : A) (cs : List A) : (wpoly a0 cs).coeff 0 = a0 := by
  simp [wpoly]

theorem natDegree_wpoly_le (a0 : A) (cs : List A) : (wpoly a0 cs).natDegree ≤ 2 * cs.length - 1 := by
  rw [natDegree_le_iff_coeff_eq_zero]
  intro N hN
  obtain ⟨m, rfl⟩ : ∃ m, N = m + 1 := ⟨N - 1, by omega⟩
  rw [coeff_wpoly_succ]
  split
  · apply List.getD_eq_default; omega
  · rfl

end wsum

section roots
variable {K : Type*} [Field K]

/-- A constant plus a weighted sum that vanishes for at least `max 1 (2·|cs|)` distinct challenges
    has zero constant and zero components (the polynomial `a₀ + s·Σ cⱼ s^(2j)` has degree
    `≤ 2|cs| − 1`). -/
theorem const_add_wsum_zero (a0 : K) (cs : List K) (S : Finset K) (h1 : 0 < S.card)
    (hS : 2 * cs.length ≤ S.card) (h : ∀ s ∈ S, a0 + wsum cs s = 0) :
    a0 = 0 ∧ ∀ c ∈ cs, c = 0 := by
  have hp : wpoly a0 cs = 0 := by
    apply eq_zero_of_natDegree_lt_card_of_eval_eq_zero' (wpoly a0 cs) S
    · intro s hs; rw [eval_wpoly]; exact h s hs
    · have := natDegree_wpoly_le a0 cs; omega
  refine ⟨by rw [← coeff_wpoly_zero a0 cs, hp, coeff_zero], ?_⟩
  intro c hc
  obtain ⟨j, hj, rfl⟩ := List.getElem_of_mem hc
  have := coeff_wpoly_succ a0 cs (2 * j)
  rw [hp, coeff_zero, if_pos (by omega), show 2 * j / 2 = j by omega] at this
  rw [this, List.getD_eq_getElem _ _ hj]

/-- **Bridge from the weighted sum to the components.** If `sep·(c₀ + c₁ sep² + … + c_k sep^{2k})`
    vanishes for more than `2k+1` (i.e. at least `2(k+1)`) distinct values of `sep`, every `cⱼ`
    is zero; conversely (`wsum_of_all_zero`) if all components vanish the sum vanishes always. -/
theorem components_of_weighted_sum (cs : List K) (S : Finset K) (hS : 2 * cs.length ≤ S.card)
    (h : ∀ s ∈ S, wsum cs s = 0) : ∀ c ∈ cs, c = 0 := by
  rcases Nat.eq_zero_or_pos S.card with h0 | h1
  · have : cs.length = 0 := by omega
    intro c hc; rw [List.length_eq_zero_iff.mp this] at hc; simp at hc
  · exact (const_add_wsum_zero 0 cs S h1 hS (fun s hs => by rw [zero_add]; exact h s hs)).2

theorem weighted_sum_zero_iff (cs : List K) (S : Finset K) (hS : 2 * cs.length ≤ S.card) :
    (∀ s ∈ S, wsum cs s = 0) ↔ ∀ c ∈ cs, c = 0 :=
  ⟨components_of_weighted_sum cs S hS, fun h s _ => wsum_of_all_zero cs h s⟩

/-- Four independent separation challenges: a sum `a₀ + q₁·W₁(s₁) + q₂·W₂(s₂) + q₃·W₃(s₃) + q₄·W₄(s₄)`
    that vanishes on a grid `S₁×S₂×S₃×S₄` with `|Sᵢ| ≥ max 1 (2|csᵢ|)` has `a₀ = 0` and every
    `qᵢ·c = 0`. -/
theorem sum4_grid_zero (a0 q1 q2 q3 q4 : K) (c1 c2 c3 c4 : List K) (S1 S2 S3 S4 : Finset K)
    (n1 : 0 < S1.card) (n2 : 0 < S2.card) (n3 : 0 < S3.card) (n4 : 0 < S4.card)
    (h1 : 2 * c1.length ≤ S1.card) (h2 : 2 * c2.length ≤ S2.card) (h3 : 2 * c3.length ≤ S3.card)
    (h4 : 2 * c4.length ≤ S4.card)
    (h : ∀ s1 ∈ S1, ∀ s2 ∈ S2, ∀ s3 ∈ S3, ∀ s4 ∈ S4,
      a0 + q1 * wsum c1 s1 + q2 * wsum c2 s2 + q3 * wsum c3 s3 + q4 * wsum c4 s4 = 0) :
    a0 = 0 ∧ (∀ c ∈ c1, q1 * c = 0) ∧ (∀ c ∈ c2, q2 * c = 0) ∧ (∀ c ∈ c3, q3 * c = 0) ∧
      (∀ c ∈ c4, q4 * c = 0) := by
  obtain ⟨t1, ht1⟩ := Finset.card_pos.mp n1
  obtain ⟨t2, ht2⟩ := Finset.card_pos.mp n2
  obtain ⟨t3, ht3⟩ := Finset.card_pos.mp n3
  obtain ⟨t4, ht4⟩ := Finset.card_pos.mp n4
  have mem (q : K) (cs : List K) (hz : ∀ c ∈ cs.map (q * ·), c = 0) : ∀ c ∈ cs, q * c = 0 :=
    fun c hc => hz _ (List.mem_map.mpr ⟨c, hc, rfl⟩)
  have e1 := (const_add_wsum_zero (a0 + q2 * wsum c2 t2 + q3 * wsum c3 t3 + q4 * wsum c4 t4)
    (c1.map (q1 * ·)) S1 n1 (by simpa using h1) (fun s hs => by
      rw [wsum_map_mul]; linear_combination h s hs t2 ht2 t3 ht3 t4 ht4)).2
  have e2 := (const_add_wsum_zero (a0 + q1 * wsum c1 t1 + q3 * wsum c3 t3 + q4 * wsum c4 t4)
    (c2.map (q2 * ·)) S2 n2 (by simpa using h2) (fun s hs => by
      rw [wsum_map_mul]; linear_combination h t1 ht1 s hs t3 ht3 t4 ht4)).2
  have e3 := (const_add_wsum_zero (a0 + q1 * wsum c1 t1 + q2 * wsum c2 t2 + q4 * wsum c4 t4)
    (c3.map (q3 * ·)) S3 n3 (by simpa using h3) (fun s hs => by
      rw [wsum_map_mul]; linear_combination h t1 ht1 t2 ht2 s hs t4 ht4)).2
  have e4 := (const_add_wsum_zero (a0 + q1 * wsum c1 t1 + q2 * wsum c2 t2 + q3 * wsum c3 t3)
    (c4.map (q4 * ·)) S4 n4 (by simpa using h4) (fun s hs => by
      rw [wsum_map_mul]; linear_combination h t1 ht1 t2 ht2 t3 ht3 s hs)).2
  refine ⟨?_, mem _ _ e1, mem _ _ e2, mem _ _ e3, mem _ _ e4⟩
  have z (q : K) (cs : List K) (hz : ∀ c ∈ cs.map (q * ·), c = 0) (s : K) : q * wsum cs s = 0 := by
    rw [← wsum_map_mul]; exact wsum_of_all_zero _ hz s
  have := h t1 ht1 t2 ht2 t3 ht3 t4 ht4
  rw [z _ _ e1, z _ _ e2, z _ _ e3, z _ _ e4] at this
  simpa using this

end roots

end Plonk.Quot
