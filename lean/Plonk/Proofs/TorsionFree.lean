/-
  C13 — the subgroup boundary: `assert_torsion_free_gates` / `assert_torsion_free_point`
  (composer glue + group-level meaning) and the host-side decision logic of the point entry
  points (`append_point`, `append_constant_point`, `append_public_point`,
  `assert_equal_public_point`, `component_mul_generator`).

  Uses: `Arith.lean` (per-primitive glue), `PointGadgets.lean` (`addPointGates_*`, `AppendsL`,
  `ptW`, `PtAlloc`), `EdwardsGroup.lean` (`smulF`, `dbl3_eq_smul8`, `eight_smul_eight_inv`,
  `JubjubGroupFacts`), `TorsionFreeExt.lean` (`edMul_eq_smulF`, `Ext.onCurve_iff`, …).
-/
import Plonk.Proofs.PointGadgets
import Plonk.Proofs.TorsionFreeExt
import Plonk.Proofs.EdwardsExamples

set_option linter.unusedSimpArgs false

namespace Plonk
open Plonk Plonk.Composer

namespace Composer

/-! ### the stages of `assert_torsion_free_gates` -/

theorem run_bind_pair {α β} (m : CM α) (f : α → CM β) (c : Composer) (a : α) (c1 : Composer)
    (h : m.run c = (a, c1)) : (m >>= f).run c = (f a).run c1 := by
  rw [run_bind', h]

/-- the curve-equation row `−u² + v² − d·u²v² − 1 = 0` on the wires `n+2, n+3, n+4` -/
def tfCurveC (n : Nat) : Constraint :=
  { ql := R - 1, a := n + 2, qr := 1, b := n + 3, qo := fneg EDWARDS_D, c := n + 4, qc := R - 1 }

/-- after `append_point(q)`: wires `n`, `n+1` -/
def tfS1 (q : Pt) (c : Composer) : Composer :=
  ((appendWitness q.2).run ((appendWitness q.1).run c).2).2
/-- `u² ` on wire `n+2` -/
def tfS2 (q : Pt) (c : Composer) : Composer :=
  ((gateAdd { qm := 1, a := c.wit.size, b := c.wit.size }).run (tfS1 q c)).2
/-- `v²` on wire `n+3` -/
def tfS3 (q : Pt) (c : Composer) : Composer :=
  ((gateAdd { qm := 1, a := c.wit.size + 1, b := c.wit.size + 1 }).run (tfS2 q c)).2
/-- `u²v²` on wire `n+4` -/
def tfS4 (q : Pt) (c : Composer) : Composer :=
  ((gateAdd { qm := 1, a := c.wit.size + 2, b := c.wit.size + 3 }).run (tfS3 q c)).2
/-- the curve-equation row -/
def tfS5 (q : Pt) (c : Composer) : Composer :=
  ((appendGate (tfCurveC c.wit.size)).run (tfS4 q c)).2
/-- `2Q` on wires `n+6, n+7` (helper `n+5`) -/
def tfS6 (q : Pt) (c : Composer) : Composer :=
  ((addPointGates (c.wit.size, c.wit.size + 1) (c.wit.size, c.wit.size + 1)).run (tfS5 q c)).2
/-- `4Q` on wires `n+9, n+10` (helper `n+8`) -/
def tfS7 (q : Pt) (c : Composer) : Composer :=
  ((addPointGates (c.wit.size + 6, c.wit.size + 7) (c.wit.size + 6, c.wit.size + 7)).run
    (tfS6 q c)).2
/-- `8Q` on wires `n+12, n+13` (helper `n+11`) -/
def tfS8 (q : Pt) (c : Composer) : Composer :=
  ((addPointGates (c.wit.size + 9, c.wit.size + 10) (c.wit.size + 9, c.wit.size + 10)).run
    (tfS7 q c)).2
def tfS9 (P q : Pt) (c : Composer) : Composer :=
  ((assertEqual P.1 (c.wit.size + 12)).run (tfS8 q c)).2
def tfS10 (P q : Pt) (c : Composer) : Composer :=
  ((assertEqual P.2 (c.wit.size + 13)).run (tfS9 P q c)).2

theorem tfS1_gates (q : Pt) (c : Composer) : (tfS1 q c).gates = c.gates := rfl
theorem tfS1_pis (q : Pt) (c : Composer) : (tfS1 q c).pis = c.pis := rfl

theorem tfS1_appends (q : Pt) (c : Composer) : Appends c (tfS1 q c) 0 2 :=
  (appendWitness_appends q.1 c).trans (appendWitness_appends q.2 _)
theorem tfS2_appends (q : Pt) (c : Composer) : Appends (tfS1 q c) (tfS2 q c) 1 1 :=
  gateAdd_appends _ _
theorem tfS3_appends (q : Pt) (c : Composer) : Appends (tfS2 q c) (tfS3 q c) 1 1 :=
  gateAdd_appends _ _
theorem tfS4_appends (q : Pt) (c : Composer) : Appends (tfS3 q c) (tfS4 q c) 1 1 :=
  gateAdd_appends _ _
theorem tfS5_appends (q : Pt) (c : Composer) : Appends (tfS4 q c) (tfS5 q c) 1 0 :=
  appendGate_appends _ _
theorem tfS6_appends (q : Pt) (c : Composer) : AppendsL (tfS5 q c) (tfS6 q c) 2 3 :=
  addPointGates_appendsL _ _ _
theorem tfS7_appends (q : Pt) (c : Composer) : AppendsL (tfS6 q c) (tfS7 q c) 2 3 :=
  addPointGates_appendsL _ _ _
theorem tfS8_appends (q : Pt) (c : Composer) : AppendsL (tfS7 q c) (tfS8 q c) 2 3 :=
  addPointGates_appendsL _ _ _
theorem tfS9_appends (P q : Pt) (c : Composer) : Appends (tfS8 q c) (tfS9 P q c) 1 0 :=
  assertEqual_appends _ _ _
theorem tfS10_appends (P q : Pt) (c : Composer) : Appends (tfS9 P q c) (tfS10 P q c) 1 0 :=
  assertEqual_appends _ _ _

theorem tfS1_wit (q : Pt) (c : Composer) : (tfS1 q c).wit.size = c.wit.size + 2 :=
  (tfS1_appends q c).wit
theorem tfS2_wit (q : Pt) (c : Composer) : (tfS2 q c).wit.size = c.wit.size + 3 := by
  rw [(tfS2_appends q c).wit, tfS1_wit]
theorem tfS3_wit (q : Pt) (c : Composer) : (tfS3 q c).wit.size = c.wit.size + 4 := by
  rw [(tfS3_appends q c).wit, tfS2_wit]
theorem tfS4_wit (q : Pt) (c : Composer) : (tfS4 q c).wit.size = c.wit.size + 5 := by
  rw [(tfS4_appends q c).wit, tfS3_wit]
theorem tfS5_wit (q : Pt) (c : Composer) : (tfS5 q c).wit.size = c.wit.size + 5 := by
  rw [(tfS5_appends q c).wit, tfS4_wit]
theorem tfS6_wit (q : Pt) (c : Composer) : (tfS6 q c).wit.size = c.wit.size + 8 := by
  rw [(tfS6_appends q c).wit, tfS5_wit]
theorem tfS7_wit (q : Pt) (c : Composer) : (tfS7 q c).wit.size = c.wit.size + 11 := by
  rw [(tfS7_appends q c).wit, tfS6_wit]
theorem tfS8_wit (q : Pt) (c : Composer) : (tfS8 q c).wit.size = c.wit.size + 14 := by
  rw [(tfS8_appends q c).wit, tfS7_wit]
theorem tfS9_wit (P q : Pt) (c : Composer) : (tfS9 P q c).wit.size = c.wit.size + 14 := by
  rw [(tfS9_appends P q c).wit, tfS8_wit]
theorem tfS10_wit (P q : Pt) (c : Composer) : (tfS10 P q c).wit.size = c.wit.size + 14 := by
  rw [(tfS10_appends P q c).wit, tfS9_wit]

theorem tfS2_gates (q : Pt) (c : Composer) : (tfS2 q c).gates.size = c.gates.size + 1 :=
  (tfS2_appends q c).gates
theorem tfS3_gates (q : Pt) (c : Composer) : (tfS3 q c).gates.size = c.gates.size + 2 := by
  rw [(tfS3_appends q c).gates, tfS2_gates]
theorem tfS4_gates (q : Pt) (c : Composer) : (tfS4 q c).gates.size = c.gates.size + 3 := by
  rw [(tfS4_appends q c).gates, tfS3_gates]
theorem tfS5_gates (q : Pt) (c : Composer) : (tfS5 q c).gates.size = c.gates.size + 4 := by
  rw [(tfS5_appends q c).gates, tfS4_gates]
theorem tfS6_gates (q : Pt) (c : Composer) : (tfS6 q c).gates.size = c.gates.size + 6 := by
  rw [(tfS6_appends q c).gates, tfS5_gates]
theorem tfS7_gates (q : Pt) (c : Composer) : (tfS7 q c).gates.size = c.gates.size + 8 := by
  rw [(tfS7_appends q c).gates, tfS6_gates]
theorem tfS8_gates (q : Pt) (c : Composer) : (tfS8 q c).gates.size = c.gates.size + 10 := by
  rw [(tfS8_appends q c).gates, tfS7_gates]
theorem tfS9_gates (P q : Pt) (c : Composer) : (tfS9 P q c).gates.size = c.gates.size + 11 := by
  rw [(tfS9_appends P q c).gates, tfS8_gates]
theorem tfS10_gates (P q : Pt) (c : Composer) : (tfS10 P q c).gates.size = c.gates.size + 12 := by
  rw [(tfS10_appends P q c).gates, tfS9_gates]

theorem tfS1_wf (q : Pt) (c : Composer) (h : WF c) : WF (tfS1 q c) :=
  appendWitness_wf _ _ (appendWitness_wf _ _ h)
theorem tfS2_wf (q : Pt) (c : Composer) (h : WF c) : WF (tfS2 q c) := gateAdd_wf _ _ (tfS1_wf q c h)
theorem tfS3_wf (q : Pt) (c : Composer) (h : WF c) : WF (tfS3 q c) := gateAdd_wf _ _ (tfS2_wf q c h)
theorem tfS4_wf (q : Pt) (c : Composer) (h : WF c) : WF (tfS4 q c) := gateAdd_wf _ _ (tfS3_wf q c h)
theorem tfS5_wf (q : Pt) (c : Composer) (h : WF c) : WF (tfS5 q c) :=
  appendGate_wf _ _ (tfS4_wf q c h)
theorem tfS6_wf (q : Pt) (c : Composer) (h : WF c) : WF (tfS6 q c) :=
  addPointGates_wf _ _ _ (tfS5_wf q c h)
theorem tfS7_wf (q : Pt) (c : Composer) (h : WF c) : WF (tfS7 q c) :=
  addPointGates_wf _ _ _ (tfS6_wf q c h)
theorem tfS8_wf (q : Pt) (c : Composer) (h : WF c) : WF (tfS8 q c) :=
  addPointGates_wf _ _ _ (tfS7_wf q c h)
theorem tfS9_wf (P q : Pt) (c : Composer) (h : WF c) : WF (tfS9 P q c) :=
  assertEqual_wf _ _ _ (tfS8_wf q c h)
theorem tfS10_wf (P q : Pt) (c : Composer) (h : WF c) : WF (tfS10 P q c) :=
  assertEqual_wf _ _ _ (tfS9_wf P q c h)

/-- **explicit output state** of `assert_torsion_free_gates`: the ten stages in order; it
    allocates the 14 witnesses `n … n+13` and appends 12 gates. -/
theorem assertTorsionFreeGates_run (P q : Pt) (c : Composer) :
    (assertTorsionFreeGates P q).run c = ((), tfS10 P q c) := by
  have h1 : (appendAffinePoint q).run c = ((c.wit.size, c.wit.size + 1), tfS1 q c) := by
    unfold appendAffinePoint tfS1
    rw [run_bind', run_bind']
    simp
    rfl
  have h2 : (gateMul { qm := 1, a := c.wit.size, b := c.wit.size }).run (tfS1 q c)
      = (c.wit.size + 2, tfS2 q c) := by
    rw [gateMul_eq, ← tfS1_wit q c]; exact gateAdd_apply _ _
  have h3 : (gateMul { qm := 1, a := c.wit.size + 1, b := c.wit.size + 1 }).run (tfS2 q c)
      = (c.wit.size + 3, tfS3 q c) := by
    rw [gateMul_eq, ← tfS2_wit q c]; exact gateAdd_apply _ _
  have h4 : (gateMul { qm := 1, a := c.wit.size + 2, b := c.wit.size + 3 }).run (tfS3 q c)
      = (c.wit.size + 4, tfS4 q c) := by
    rw [gateMul_eq, ← tfS3_wit q c]; exact gateAdd_apply _ _
  have h5 : (appendGate (tfCurveC c.wit.size)).run (tfS4 q c) = ((), tfS5 q c) := rfl
  have h6 : (addPointGates (c.wit.size, c.wit.size + 1) (c.wit.size, c.wit.size + 1)).run
      (tfS5 q c) = ((c.wit.size + 6, c.wit.size + 7), tfS6 q c) := by
    rw [tfS6, addPointGates_run, tfS5_wit]
  have h7 : (addPointGates (c.wit.size + 6, c.wit.size + 7) (c.wit.size + 6, c.wit.size + 7)).run
      (tfS6 q c) = ((c.wit.size + 9, c.wit.size + 10), tfS7 q c) := by
    rw [tfS7, addPointGates_run, tfS6_wit]
  have h8 : (addPointGates (c.wit.size + 9, c.wit.size + 10)
      (c.wit.size + 9, c.wit.size + 10)).run
      (tfS7 q c) = ((c.wit.size + 12, c.wit.size + 13), tfS8 q c) := by
    rw [tfS8, addPointGates_run, tfS7_wit]
  unfold assertTorsionFreeGates
  refine (run_bind_pair _ _ _ _ _ h1).trans ?_
  refine (run_bind_pair _ _ _ _ _ h2).trans ?_
  refine (run_bind_pair _ _ _ _ _ h3).trans ?_
  refine (run_bind_pair _ _ _ _ _ h4).trans ?_
  refine (run_bind_pair _ _ _ _ _ h5).trans ?_
  refine (run_bind_pair _ _ _ _ _ h6).trans ?_
  refine (run_bind_pair _ _ _ _ _ h7).trans ?_
  refine (run_bind_pair _ _ _ _ _ h8).trans ?_
  rfl

theorem assertTorsionFreeGates_snd (P q : Pt) (c : Composer) :
    ((assertTorsionFreeGates P q).run c).2 = tfS10 P q c := by rw [assertTorsionFreeGates_run]

/-! ### framing of the stages inside the final state -/

theorem tfS9_ext10 (P q : Pt) (c : Composer) : Extends (tfS9 P q c) (tfS10 P q c) :=
  (tfS10_appends P q c).ext
theorem tfS8_ext10 (P q : Pt) (c : Composer) : Extends (tfS8 q c) (tfS10 P q c) :=
  (tfS9_appends P q c).ext.trans (tfS9_ext10 P q c)
theorem tfS7_ext10 (P q : Pt) (c : Composer) : Extends (tfS7 q c) (tfS10 P q c) :=
  (tfS8_appends q c).ext.trans (tfS8_ext10 P q c)
theorem tfS6_ext10 (P q : Pt) (c : Composer) : Extends (tfS6 q c) (tfS10 P q c) :=
  (tfS7_appends q c).ext.trans (tfS7_ext10 P q c)
theorem tfS5_ext10 (P q : Pt) (c : Composer) : Extends (tfS5 q c) (tfS10 P q c) :=
  (tfS6_appends q c).ext.trans (tfS6_ext10 P q c)
theorem tfS4_ext10 (P q : Pt) (c : Composer) : Extends (tfS4 q c) (tfS10 P q c) :=
  (tfS5_appends q c).ext.trans (tfS5_ext10 P q c)
theorem tfS3_ext10 (P q : Pt) (c : Composer) : Extends (tfS3 q c) (tfS10 P q c) :=
  (tfS4_appends q c).ext.trans (tfS4_ext10 P q c)
theorem tfS2_ext10 (P q : Pt) (c : Composer) : Extends (tfS2 q c) (tfS10 P q c) :=
  (tfS3_appends q c).ext.trans (tfS3_ext10 P q c)
theorem tfS1_ext10 (P q : Pt) (c : Composer) : Extends (tfS1 q c) (tfS10 P q c) :=
  (tfS2_appends q c).ext.trans (tfS2_ext10 P q c)
theorem tf_ext10 (P q : Pt) (c : Composer) : Extends c (tfS10 P q c) :=
  (tfS1_appends q c).ext.trans (tfS1_ext10 P q c)

/-- the rows of one stage, read in the final state -/
theorem block_iff {a b F : Composer} {k m : Nat} (hab : AppendsL a b k m) (hbF : Extends b F)
    (w : Nat → Nat) {A : Prop} (hA : b.rowsHoldW w a.gates.size b.gates.size ↔ A) :
    F.rowsHoldW w a.gates.size F.gates.size ↔ A ∧ F.rowsHoldW w b.gates.size F.gates.size := by
  rw [hab.rows_split hbF w, hA]

/-- the row-block decomposition of the final state into its nine gate-appending stages -/
theorem tf_rows_blocks (P q : Pt) (c : Composer) (w : Nat → Nat) :
    (tfS10 P q c).rowsHoldW w c.gates.size (tfS10 P q c).gates.size ↔
      (tfS2 q c).rowsHoldW w (tfS1 q c).gates.size (tfS2 q c).gates.size ∧
      (tfS3 q c).rowsHoldW w (tfS2 q c).gates.size (tfS3 q c).gates.size ∧
      (tfS4 q c).rowsHoldW w (tfS3 q c).gates.size (tfS4 q c).gates.size ∧
      (tfS5 q c).rowsHoldW w (tfS4 q c).gates.size (tfS5 q c).gates.size ∧
      (tfS6 q c).rowsHoldW w (tfS5 q c).gates.size (tfS6 q c).gates.size ∧
      (tfS7 q c).rowsHoldW w (tfS6 q c).gates.size (tfS7 q c).gates.size ∧
      (tfS8 q c).rowsHoldW w (tfS7 q c).gates.size (tfS8 q c).gates.size ∧
      (tfS9 P q c).rowsHoldW w (tfS8 q c).gates.size (tfS9 P q c).gates.size ∧
      (tfS10 P q c).rowsHoldW w (tfS9 P q c).gates.size (tfS10 P q c).gates.size := by
  have e : c.gates.size = (tfS1 q c).gates.size := rfl
  rw [e,
    block_iff (tfS2_appends q c).toL (tfS2_ext10 P q c) w Iff.rfl,
    block_iff (tfS3_appends q c).toL (tfS3_ext10 P q c) w Iff.rfl,
    block_iff (tfS4_appends q c).toL (tfS4_ext10 P q c) w Iff.rfl,
    block_iff (tfS5_appends q c).toL (tfS5_ext10 P q c) w Iff.rfl,
    block_iff (tfS6_appends q c) (tfS6_ext10 P q c) w Iff.rfl,
    block_iff (tfS7_appends q c) (tfS7_ext10 P q c) w Iff.rfl,
    block_iff (tfS8_appends q c) (tfS8_ext10 P q c) w Iff.rfl,
    block_iff (tfS9_appends P q c).toL (tfS9_ext10 P q c) w Iff.rfl]

/-- field content of the twelve rows, wire by wire (`n` = first allocated witness) -/
def TFRaw (w : Nat → Nat) (n : Nat) (P : Pt) : Prop :=
  toF (w (n + 2)) = toF (w n) * toF (w n) ∧
  toF (w (n + 3)) = toF (w (n + 1)) * toF (w (n + 1)) ∧
  toF (w (n + 4)) = toF (w (n + 2)) * toF (w (n + 3)) ∧
  -toF (w (n + 2)) + toF (w (n + 3)) - dF * toF (w (n + 4)) - 1 = 0 ∧
  VarRowF (toF (w n)) (toF (w (n + 1))) (toF (w n)) (toF (w (n + 1)))
    (toF (w (n + 6))) (toF (w (n + 7))) (toF (w (n + 5))) ∧
  VarRowF (toF (w (n + 6))) (toF (w (n + 7))) (toF (w (n + 6))) (toF (w (n + 7)))
    (toF (w (n + 9))) (toF (w (n + 10))) (toF (w (n + 8))) ∧
  VarRowF (toF (w (n + 9))) (toF (w (n + 10))) (toF (w (n + 9))) (toF (w (n + 10)))
    (toF (w (n + 12))) (toF (w (n + 13))) (toF (w (n + 11))) ∧
  toF (w P.1) = toF (w (n + 12)) ∧
  toF (w P.2) = toF (w (n + 13))

theorem tf_block2 (q : Pt) (c : Composer) (h : WF c) (w : Nat → Nat) :
    (tfS2 q c).rowsHoldW w (tfS1 q c).gates.size (tfS2 q c).gates.size ↔
      toF (w (c.wit.size + 2)) = toF (w c.wit.size) * toF (w c.wit.size) := by
  unfold tfS2
  rw [gateAdd_rows_iff _ _ (tfS1_wf q c h), tfS1_wit]
  simp [Constraint.evalF, Constraint.piF]

theorem tf_block3 (q : Pt) (c : Composer) (h : WF c) (w : Nat → Nat) :
    (tfS3 q c).rowsHoldW w (tfS2 q c).gates.size (tfS3 q c).gates.size ↔
      toF (w (c.wit.size + 3)) = toF (w (c.wit.size + 1)) * toF (w (c.wit.size + 1)) := by
  unfold tfS3
  rw [gateAdd_rows_iff _ _ (tfS2_wf q c h), tfS2_wit]
  simp [Constraint.evalF, Constraint.piF]

theorem tf_block4 (q : Pt) (c : Composer) (h : WF c) (w : Nat → Nat) :
    (tfS4 q c).rowsHoldW w (tfS3 q c).gates.size (tfS4 q c).gates.size ↔
      toF (w (c.wit.size + 4)) = toF (w (c.wit.size + 2)) * toF (w (c.wit.size + 3)) := by
  unfold tfS4
  rw [gateAdd_rows_iff _ _ (tfS3_wf q c h), tfS3_wit]
  simp [Constraint.evalF, Constraint.piF]

theorem tf_block5 (q : Pt) (c : Composer) (h : WF c) (w : Nat → Nat) :
    (tfS5 q c).rowsHoldW w (tfS4 q c).gates.size (tfS5 q c).gates.size ↔
      -toF (w (c.wit.size + 2)) + toF (w (c.wit.size + 3)) - dF * toF (w (c.wit.size + 4)) - 1
        = 0 := by
  unfold tfS5
  rw [appendGate_rows_iff _ _ (tfS4_wf q c h)]
  simp only [Constraint.arithRel, Constraint.piF, tfCurveC, toF_zero, toF_one, toF_R_sub_one,
    toF_fneg, toF_EDWARDS_D]
  constructor <;> intro h <;> simp at h ⊢ <;> linear_combination h

theorem tf_block6 (q : Pt) (c : Composer) (h : WF c) (w : Nat → Nat) :
    (tfS6 q c).rowsHoldW w (tfS5 q c).gates.size (tfS6 q c).gates.size ↔
      VarRowF (toF (w c.wit.size)) (toF (w (c.wit.size + 1))) (toF (w c.wit.size))
        (toF (w (c.wit.size + 1))) (toF (w (c.wit.size + 6))) (toF (w (c.wit.size + 7)))
        (toF (w (c.wit.size + 5))) := by
  unfold tfS6
  rw [addPointGates_rows_iff _ _ _ (tfS5_wf q c h).pis_zero, tfS5_wit]

theorem tf_block7 (q : Pt) (c : Composer) (h : WF c) (w : Nat → Nat) :
    (tfS7 q c).rowsHoldW w (tfS6 q c).gates.size (tfS7 q c).gates.size ↔
      VarRowF (toF (w (c.wit.size + 6))) (toF (w (c.wit.size + 7))) (toF (w (c.wit.size + 6)))
        (toF (w (c.wit.size + 7))) (toF (w (c.wit.size + 9))) (toF (w (c.wit.size + 10)))
        (toF (w (c.wit.size + 8))) := by
  unfold tfS7
  rw [addPointGates_rows_iff _ _ _ (tfS6_wf q c h).pis_zero, tfS6_wit]

theorem tf_block8 (q : Pt) (c : Composer) (h : WF c) (w : Nat → Nat) :
    (tfS8 q c).rowsHoldW w (tfS7 q c).gates.size (tfS8 q c).gates.size ↔
      VarRowF (toF (w (c.wit.size + 9))) (toF (w (c.wit.size + 10))) (toF (w (c.wit.size + 9)))
        (toF (w (c.wit.size + 10))) (toF (w (c.wit.size + 12))) (toF (w (c.wit.size + 13)))
        (toF (w (c.wit.size + 11))) := by
  unfold tfS8
  rw [addPointGates_rows_iff _ _ _ (tfS7_wf q c h).pis_zero, tfS7_wit]

theorem tf_block9 (P q : Pt) (c : Composer) (h : WF c) (w : Nat → Nat) :
    (tfS9 P q c).rowsHoldW w (tfS8 q c).gates.size (tfS9 P q c).gates.size ↔
      toF (w P.1) = toF (w (c.wit.size + 12)) := by
  unfold tfS9
  rw [assertEqual_rows_iff _ _ _ (tfS8_wf q c h)]

theorem tf_block10 (P q : Pt) (c : Composer) (h : WF c) (w : Nat → Nat) :
    (tfS10 P q c).rowsHoldW w (tfS9 P q c).gates.size (tfS10 P q c).gates.size ↔
      toF (w P.2) = toF (w (c.wit.size + 13)) := by
  unfold tfS10
  rw [assertEqual_rows_iff _ _ _ (tfS9_wf P q c h)]

/-- **raw row semantics** of `assert_torsion_free_gates` for an ARBITRARY assignment `w` -/
theorem tf_rows_raw (P q : Pt) (c : Composer) (h : WF c) (w : Nat → Nat) :
    ((assertTorsionFreeGates P q).run c).2.rowsHoldW w c.gates.size
        ((assertTorsionFreeGates P q).run c).2.gates.size ↔ TFRaw w c.wit.size P := by
  rw [assertTorsionFreeGates_snd, tf_rows_blocks, tf_block2 q c h, tf_block3 q c h,
    tf_block4 q c h, tf_block5 q c h, tf_block6 q c h, tf_block7 q c h, tf_block8 q c h,
    tf_block9 P q c h, tf_block10 P q c h]
  rfl

/-! ### group-level meaning -/

/-- pure field core: the twelve row identities ⇔ `Q = (x, y)` on the curve, every auxiliary
    value a function of `Q` (no free witness: the doubling rows have no pole on curve points),
    and `[8]Q = P`. -/
theorem tf_core (x y u2 v2 u2v2 h1 x2 y2 h2 x4 y4 h4 x8 y8 px py : F) :
    (u2 = x * x ∧ v2 = y * y ∧ u2v2 = u2 * v2 ∧ -u2 + v2 - dF * u2v2 - 1 = 0 ∧
      VarRowF x y x y x2 y2 h1 ∧ VarRowF x2 y2 x2 y2 x4 y4 h2 ∧ VarRowF x4 y4 x4 y4 x8 y8 h4 ∧
      px = x8 ∧ py = y8) ↔
    OnCurveP (x, y) ∧
    (u2 = x * x ∧ v2 = y * y ∧ u2v2 = x * x * (y * y) ∧ h1 = x * y ∧
      (x2, y2) = smulF 2 (x, y) ∧ h2 = (smulF 2 (x, y)).1 * (smulF 2 (x, y)).2 ∧
      (x4, y4) = smulF 4 (x, y) ∧ h4 = (smulF 4 (x, y)).1 * (smulF 4 (x, y)).2 ∧
      (x8, y8) = smulF 8 (x, y)) ∧
    smulF 8 (x, y) = (px, py) := by
  constructor
  · rintro ⟨r1, r2, r3, r4, r5, r6, r7, r8, r9⟩
    have hQ : OnCurveF x y := by
      unfold OnCurveF; subst r1 r2 r3; linear_combination r4
    have hQP : OnCurveP (x, y) := hQ
    obtain ⟨e5, e67⟩ := (varRowF_double_iff hQ _ _ _).mp r5
    have s2 : (x2, y2) = smulF 2 (x, y) := by rw [smulF_two]; exact e67
    have hQ2 : OnCurveF x2 y2 := by
      have := smulF_on_curve 2 hQP; rw [← s2] at this; exact this
    obtain ⟨e8, e910⟩ := (varRowF_double_iff hQ2 _ _ _).mp r6
    have s4 : (x4, y4) = smulF 4 (x, y) := by
      rw [smulF_double 2 hQP, ← s2]; exact e910
    have hQ4 : OnCurveF x4 y4 := by
      have := smulF_on_curve 4 hQP; rw [← s4] at this; exact this
    obtain ⟨e11, e1213⟩ := (varRowF_double_iff hQ4 _ _ _).mp r7
    have s8 : (x8, y8) = smulF 8 (x, y) := by
      rw [smulF_double 4 hQP, ← s4]; exact e1213
    refine ⟨hQP, ⟨r1, r2, by rw [r3, r1, r2], e5, s2, by rw [← s2]; exact e8, s4,
      by rw [← s4]; exact e11, s8⟩, ?_⟩
    rw [← s8, r8, r9]
  · rintro ⟨hQP, ⟨a2, a3, a4, a5, s2, a8, s4, a11, s8⟩, hP⟩
    have hQ : OnCurveF x y := hQP
    have hQ2 : OnCurveF x2 y2 := by
      have := smulF_on_curve 2 hQP; rw [← s2] at this; exact this
    have hQ4 : OnCurveF x4 y4 := by
      have := smulF_on_curve 4 hQP; rw [← s4] at this; exact this
    have e67 : (x2, y2) = dblF (x, y) := by rw [s2, smulF_two]; rfl
    have e910 : (x4, y4) = dblF (x2, y2) := by rw [s4, smulF_double 2 hQP, ← s2]; rfl
    have e1213 : (x8, y8) = dblF (x4, y4) := by rw [s8, smulF_double 4 hQP, ← s4]; rfl
    have hP' : (px, py) = (x8, y8) := by rw [s8, hP]
    rw [Prod.mk.injEq] at hP'
    refine ⟨a2, a3, by rw [a4, a2, a3], ?_, (varRowF_double_iff hQ _ _ _).mpr ⟨a5, e67⟩,
      (varRowF_double_iff hQ2 _ _ _).mpr ⟨by rw [← s2] at a8; exact a8, e910⟩,
      (varRowF_double_iff hQ4 _ _ _).mpr ⟨by rw [← s4] at a11; exact a11, e1213⟩, hP'.1, hP'.2⟩
    unfold OnCurveF at hQ
    rw [a4, a2, a3]; linear_combination hQ

/-- every auxiliary wire of the gadget is a function of the prover's point
    `Q = (w n, w (n+1))` -/
def TFAux (w : Nat → Nat) (n : Nat) : Prop :=
  toF (w (n + 2)) = toF (w n) * toF (w n) ∧
  toF (w (n + 3)) = toF (w (n + 1)) * toF (w (n + 1)) ∧
  toF (w (n + 4)) = toF (w n) * toF (w n) * (toF (w (n + 1)) * toF (w (n + 1))) ∧
  toF (w (n + 5)) = toF (w n) * toF (w (n + 1)) ∧
  ptW w (n + 6, n + 7) = smulF 2 (ptW w (n, n + 1)) ∧
  toF (w (n + 8)) = (smulF 2 (ptW w (n, n + 1))).1 * (smulF 2 (ptW w (n, n + 1))).2 ∧
  ptW w (n + 9, n + 10) = smulF 4 (ptW w (n, n + 1)) ∧
  toF (w (n + 11)) = (smulF 4 (ptW w (n, n + 1))).1 * (smulF 4 (ptW w (n, n + 1))).2 ∧
  ptW w (n + 12, n + 13) = smulF 8 (ptW w (n, n + 1))

theorem tfRaw_iff (w : Nat → Nat) (n : Nat) (P : Pt) :
    TFRaw w n P ↔ OnCurveP (ptW w (n, n + 1)) ∧ TFAux w n ∧
      smulF 8 (ptW w (n, n + 1)) = ptW w P :=
  tf_core _ _ _ _ _ _ _ _ _ _ _ _ _ _ _ _

/-- **`tf_rows_iff`**: for ANY assignment `w` (any auxiliary point the prover supplies on the
    wires `n, n+1`), all rows of `assert_torsion_free_gates P q` hold iff `Q = (w n, w (n+1))` is
    on the curve, the twelve auxiliary wires are the forced values (the three doublings are
    `[2]Q, [4]Q, [8]Q`), and `[8]Q = P`. -/
theorem tf_rows_iff (P q : Pt) (c : Composer) (h : WF c) (w : Nat → Nat) :
    ((assertTorsionFreeGates P q).run c).2.rowsHoldW w c.gates.size
        ((assertTorsionFreeGates P q).run c).2.gates.size ↔
      OnCurveP (ptW w (c.wit.size, c.wit.size + 1)) ∧ TFAux w c.wit.size ∧
      smulF 8 (ptW w (c.wit.size, c.wit.size + 1)) = ptW w P := by
  rw [tf_rows_raw P q c h, tfRaw_iff]

/-! ### satisfiability -/

/-- the forced values of the 14 new wires, given the prover's point `Q` -/
def tfVals (Q : PtF) : List F :=
  [Q.1, Q.2, Q.1 * Q.1, Q.2 * Q.2, Q.1 * Q.1 * (Q.2 * Q.2), Q.1 * Q.2,
   (smulF 2 Q).1, (smulF 2 Q).2, (smulF 2 Q).1 * (smulF 2 Q).2,
   (smulF 4 Q).1, (smulF 4 Q).2, (smulF 4 Q).1 * (smulF 4 Q).2,
   (smulF 8 Q).1, (smulF 8 Q).2]

/-- the old assignment `w0` below `n`, the forced values from `n` on -/
def tfW (w0 : Nat → Nat) (n : Nat) (Q : PtF) : Nat → Nat :=
  fun i => if i < n then w0 i else ((tfVals Q).getD (i - n) 0).val

theorem tfW_old (w0 : Nat → Nat) (n : Nat) (Q : PtF) {i : Nat} (h : i < n) :
    tfW w0 n Q i = w0 i := by simp [tfW, h]

theorem tfW_new (w0 : Nat → Nat) (n : Nat) (Q : PtF) (k : Nat) :
    toF (tfW w0 n Q (n + k)) = (tfVals Q).getD k 0 := by
  simp [tfW, toF_val]

theorem tfW_rows (P q : Pt) (c : Composer) (h : WF c) (hP : PtAlloc c P) (w0 : Nat → Nat)
    (Q : PtF) (hQ : OnCurveP Q) (h8 : smulF 8 Q = ptW w0 P) :
    ((assertTorsionFreeGates P q).run c).2.rowsHoldW (tfW w0 c.wit.size Q) c.gates.size
        ((assertTorsionFreeGates P q).run c).2.gates.size := by
  rw [tf_rows_iff P q c h]
  set n := c.wit.size
  have v0 : toF (tfW w0 n Q n) = Q.1 := tfW_new w0 n Q 0
  have v1 := tfW_new w0 n Q 1
  have v2 := tfW_new w0 n Q 2
  have v3 := tfW_new w0 n Q 3
  have v4 := tfW_new w0 n Q 4
  have v5 := tfW_new w0 n Q 5
  have v6 := tfW_new w0 n Q 6
  have v7 := tfW_new w0 n Q 7
  have v8 := tfW_new w0 n Q 8
  have v9 := tfW_new w0 n Q 9
  have v10 := tfW_new w0 n Q 10
  have v11 := tfW_new w0 n Q 11
  have v12 := tfW_new w0 n Q 12
  have v13 := tfW_new w0 n Q 13
  simp only [tfVals, List.getD_cons_zero, List.getD_cons_succ] at v1 v2 v3 v4 v5 v6 v7
  simp only [tfVals, List.getD_cons_zero, List.getD_cons_succ] at v8 v9 v10 v11 v12 v13
  have eQ : ptW (tfW w0 n Q) (n, n + 1) = Q := by
    unfold ptW; simp only; rw [v0, v1]
  have eP : ptW (tfW w0 n Q) P = ptW w0 P := by
    unfold ptW; rw [tfW_old _ _ _ hP.1, tfW_old _ _ _ hP.2]
  rw [eQ, eP]
  refine ⟨hQ, ?_, h8⟩
  unfold TFAux
  rw [eQ]
  unfold ptW
  simp only
  rw [v0, v1, v2, v3, v4, v5, v6, v7, v8, v9, v10, v11, v12, v13]
  exact ⟨rfl, rfl, rfl, rfl, rfl, rfl, rfl, rfl, rfl⟩

/-- **`tf_sat_iff`**: whatever values `w0` the already-allocated wires carry (base wires and the
    coordinates of `P` included), the rows of `assert_torsion_free_gates P q` can be satisfied by
    some choice of the 14 new wires iff `P = [8]Q` for a curve point `Q`. -/
theorem tf_sat_iff (P q : Pt) (c : Composer) (h : WF c) (hP : PtAlloc c P) (w0 : Nat → Nat) :
    (∃ w, (∀ i, i < c.wit.size → w i = w0 i) ∧
      ((assertTorsionFreeGates P q).run c).2.rowsHoldW w c.gates.size
        ((assertTorsionFreeGates P q).run c).2.gates.size) ↔
    ∃ Q : PtF, OnCurveP Q ∧ smulF 8 Q = ptW w0 P := by
  constructor
  · rintro ⟨w, hold, hr⟩
    obtain ⟨hQ, -, h8⟩ := (tf_rows_iff P q c h w).mp hr
    refine ⟨_, hQ, ?_⟩
    rw [h8]; unfold ptW; rw [hold _ hP.1, hold _ hP.2]
  · rintro ⟨Q, hQ, h8⟩
    exact ⟨tfW w0 c.wit.size Q, fun i hi => tfW_old _ _ _ hi, tfW_rows P q c h hP w0 Q hQ h8⟩

/-- satisfiable ⇒ `P` is on the curve -/
theorem tf_sat_on_curve (P q : Pt) (c : Composer) (h : WF c) (hP : PtAlloc c P) (w0 : Nat → Nat)
    (hs : ∃ w, (∀ i, i < c.wit.size → w i = w0 i) ∧
      ((assertTorsionFreeGates P q).run c).2.rowsHoldW w c.gates.size
        ((assertTorsionFreeGates P q).run c).2.gates.size) :
    OnCurveP (ptW w0 P) := by
  obtain ⟨Q, hQ, h8⟩ := (tf_sat_iff P q c h hP w0).mp hs
  rw [← h8]; exact smulF_on_curve 8 hQ

/-- `P` on the curve with `[r_J]P = O` ⇒ satisfiable (unconditional) -/
theorem tf_sat_of_torsion_free (P q : Pt) (c : Composer) (h : WF c) (hP : PtAlloc c P)
    (w0 : Nat → Nat) (hc : OnCurveP (ptW w0 P)) (hk : smulF RJ (ptW w0 P) = idF) :
    ∃ w, (∀ i, i < c.wit.size → w i = w0 i) ∧
      ((assertTorsionFreeGates P q).run c).2.rowsHoldW w c.gates.size
        ((assertTorsionFreeGates P q).run c).2.gates.size :=
  (tf_sat_iff P q c h hP w0).mpr
    ⟨smulF Generated.EIGHT_INV (ptW w0 P), smulF_on_curve _ hc, eight_smul_eight_inv hc hk⟩

/-- satisfiable ⇒ `[r_J]P = O`, under the group-order hypothesis only -/
theorem tf_sat_torsion_free (H : JubjubGroupFacts) (P q : Pt) (c : Composer) (h : WF c)
    (hP : PtAlloc c P) (w0 : Nat → Nat)
    (hs : ∃ w, (∀ i, i < c.wit.size → w i = w0 i) ∧
      ((assertTorsionFreeGates P q).run c).2.rowsHoldW w c.gates.size
        ((assertTorsionFreeGates P q).run c).2.gates.size) :
    smulF RJ (ptW w0 P) = idF := by
  obtain ⟨Q, hQ, h8⟩ := (tf_sat_iff P q c h hP w0).mp hs
  rw [← h8]; exact H.smul_RJ_smul_eight hQ

/-- under the group-order hypothesis: satisfiable ⇔ `P` is a curve point of the subgroup killed
    by `r_J` (identity included) -/
theorem tf_sat_iff_subgroup (H : JubjubGroupFacts) (P q : Pt) (c : Composer) (h : WF c)
    (hP : PtAlloc c P) (w0 : Nat → Nat) :
    (∃ w, (∀ i, i < c.wit.size → w i = w0 i) ∧
      ((assertTorsionFreeGates P q).run c).2.rowsHoldW w c.gates.size
        ((assertTorsionFreeGates P q).run c).2.gates.size) ↔
    OnCurveP (ptW w0 P) ∧ smulF RJ (ptW w0 P) = idF := by
  rw [tf_sat_iff P q c h hP w0]
  constructor
  · rintro ⟨Q, hQ, h8⟩; exact (H.mem_eight_iff _).mp ⟨Q, hQ, h8⟩
  · intro hh; obtain ⟨Q, hQ, h8⟩ := (H.mem_eight_iff _).mpr hh; exact ⟨Q, hQ, h8⟩

/-! ### completeness: the model's own table -/

theorem tfS1_val0 (q : Pt) (c : Composer) : (tfS1 q c).val c.wit.size = q.1 % R := by
  unfold tfS1
  rw [(extends_appendWitness q.2 _).val_eq (by simp), appendWitness_val]

theorem tfS1_val1 (q : Pt) (c : Composer) : (tfS1 q c).val (c.wit.size + 1) = q.2 % R := by
  unfold tfS1
  have e : c.wit.size + 1 = ((appendWitness q.1).run c).2.wit.size := by simp
  rw [e, appendWitness_val]


theorem tf_dbl_step {Q : PtF} (hQ : OnCurveP Q) (k : ℕ) {x y x2 y2 h : F}
    (hxy : (x, y) = smulF k Q) (A : VarRowF x y x y x2 y2 h) :
    (x2, y2) = smulF (2 * k) Q := by
  have hc : OnCurveF x y := by
    have := smulF_on_curve k hQ; rw [← hxy] at this; exact this
  obtain ⟨-, d⟩ := (varRowF_double_iff hc _ _ _).mp A
  rw [smulF_double k hQ, ← hxy]; exact d

/-- **completeness of `assert_torsion_free_gates`**: if the supplied `q` is a curve point with
    `[8]q = P` (values of the wires of `P` in the model's table), the model's own witness table
    satisfies all twelve rows. -/
theorem assertTorsionFreeGates_complete (P q : Pt) (c : Composer) (h : WF c) (hP : PtAlloc c P)
    (hq : onCurve q = true) (h8 : smulF 8 (toFP q) = ptW c.val P) :
    ((assertTorsionFreeGates P q).run c).2.rowsHoldW ((assertTorsionFreeGates P q).run c).2.val
      c.gates.size ((assertTorsionFreeGates P q).run c).2.gates.size := by
  rw [assertTorsionFreeGates_snd, tf_rows_blocks]
  have hQ : OnCurveP (toFP q) := (onCurve_iff_P q).mp hq
  -- the two coordinates of `q`
  have fx : toF ((tfS10 P q c).val c.wit.size) = toF q.1 := by
    rw [(tfS1_ext10 P q c).val_eq (by rw [tfS1_wit]; omega), tfS1_val0, toF_mod]
  have fy : toF ((tfS10 P q c).val (c.wit.size + 1)) = toF q.2 := by
    rw [(tfS1_ext10 P q c).val_eq (by rw [tfS1_wit]; omega), tfS1_val1, toF_mod]
  have eQ : ptW (tfS10 P q c).val (c.wit.size, c.wit.size + 1) = toFP q := by
    rw [ptW_mk, fx, fy]; rfl
  -- the three products
  have B2 : (tfS2 q c).rowsHoldW (tfS10 P q c).val (tfS1 q c).gates.size (tfS2 q c).gates.size :=
    gateAdd_honest_ext { qm := 1, a := c.wit.size, b := c.wit.size } (tfS1 q c) (tfS1_wf q c h) (fun _ => rfl)
      (by rw [tfS1_wit]; show c.wit.size < c.wit.size + 2; omega)
      (by rw [tfS1_wit]; show c.wit.size < c.wit.size + 2; omega) (by rw [tfS1_wit]; show 0 < c.wit.size + 2; omega)
      (tfS2_ext10 P q c)
  have B3 : (tfS3 q c).rowsHoldW (tfS10 P q c).val (tfS2 q c).gates.size (tfS3 q c).gates.size :=
    gateAdd_honest_ext { qm := 1, a := c.wit.size + 1, b := c.wit.size + 1 } (tfS2 q c) (tfS2_wf q c h)
      (fun _ => rfl)
      (by rw [tfS2_wit]; show c.wit.size + 1 < c.wit.size + 3; omega)
      (by rw [tfS2_wit]; show c.wit.size + 1 < c.wit.size + 3; omega) (by rw [tfS2_wit]; show 0 < c.wit.size + 3; omega)
      (tfS3_ext10 P q c)
  have B4 : (tfS4 q c).rowsHoldW (tfS10 P q c).val (tfS3 q c).gates.size (tfS4 q c).gates.size :=
    gateAdd_honest_ext { qm := 1, a := c.wit.size + 2, b := c.wit.size + 3 } (tfS3 q c) (tfS3_wf q c h)
      (fun _ => rfl)
      (by rw [tfS3_wit]; show c.wit.size + 2 < c.wit.size + 4; omega)
      (by rw [tfS3_wit]; show c.wit.size + 3 < c.wit.size + 4; omega) (by rw [tfS3_wit]; show 0 < c.wit.size + 4; omega)
      (tfS4_ext10 P q c)
  have A2 := (tf_block2 q c h (tfS10 P q c).val).mp B2
  have A3 := (tf_block3 q c h (tfS10 P q c).val).mp B3
  have A4 := (tf_block4 q c h (tfS10 P q c).val).mp B4
  -- the curve row
  have B5 : (tfS5 q c).rowsHoldW (tfS10 P q c).val (tfS4 q c).gates.size (tfS5 q c).gates.size := by
    rw [tf_block5 q c h (tfS10 P q c).val, A4, A2, A3, fx, fy]
    have hc : OnCurveF (toF q.1) (toF q.2) := hQ
    unfold OnCurveF at hc
    linear_combination hc
  -- first doubling
  have al5 : PtAlloc (tfS5 q c) (c.wit.size, c.wit.size + 1) :=
    ⟨by rw [tfS5_wit]; show c.wit.size < c.wit.size + 5; omega, by rw [tfS5_wit]; show c.wit.size + 1 < c.wit.size + 5; omega⟩
  have e5 : ptW (tfS5 q c).val (c.wit.size, c.wit.size + 1) = toFP q := by
    rw [← (tfS5_ext10 P q c).ptW_val_eq al5]; exact eQ
  have c5 : OnCurveP (ptW (tfS5 q c).val (c.wit.size, c.wit.size + 1)) := by rw [e5]; exact hQ
  have B6 : (tfS6 q c).rowsHoldW (tfS10 P q c).val (tfS5 q c).gates.size (tfS6 q c).gates.size :=
    addPointGates_honest_ext (c.wit.size, c.wit.size + 1) (c.wit.size, c.wit.size + 1) (tfS5 q c) (tfS5_wf q c h).pis_zero al5 al5
      c5 c5 (tfS6_ext10 P q c)
  have A6 := (tf_block6 q c h (tfS10 P q c).val).mp B6
  have x1 : (toF ((tfS10 P q c).val c.wit.size), toF ((tfS10 P q c).val (c.wit.size + 1))) = smulF 1 (toFP q) := by
    rw [smulF_one, fx, fy]; rfl
  have s2 : (toF ((tfS10 P q c).val (c.wit.size + 6)), toF ((tfS10 P q c).val (c.wit.size + 7))) = smulF (2 * 1) (toFP q) :=
    tf_dbl_step hQ 1 x1 A6
  -- second doubling
  have al6 : PtAlloc (tfS6 q c) (c.wit.size + 6, c.wit.size + 7) :=
    ⟨by rw [tfS6_wit]; show c.wit.size + 6 < c.wit.size + 8; omega, by rw [tfS6_wit]; show c.wit.size + 7 < c.wit.size + 8; omega⟩
  have c6 : OnCurveP (ptW (tfS6 q c).val (c.wit.size + 6, c.wit.size + 7)) := by
    rw [← (tfS6_ext10 P q c).ptW_val_eq al6, ptW_mk, s2]; exact smulF_on_curve _ hQ
  have B7 : (tfS7 q c).rowsHoldW (tfS10 P q c).val (tfS6 q c).gates.size (tfS7 q c).gates.size :=
    addPointGates_honest_ext (c.wit.size + 6, c.wit.size + 7) (c.wit.size + 6, c.wit.size + 7) (tfS6 q c) (tfS6_wf q c h).pis_zero
      al6 al6 c6 c6 (tfS7_ext10 P q c)
  have A7 := (tf_block7 q c h (tfS10 P q c).val).mp B7
  have s4 : (toF ((tfS10 P q c).val (c.wit.size + 9)), toF ((tfS10 P q c).val (c.wit.size + 10))) = smulF (2 * (2 * 1)) (toFP q) :=
    tf_dbl_step hQ (2 * 1) s2 A7
  -- third doubling
  have al7 : PtAlloc (tfS7 q c) (c.wit.size + 9, c.wit.size + 10) :=
    ⟨by rw [tfS7_wit]; show c.wit.size + 9 < c.wit.size + 11; omega, by rw [tfS7_wit]; show c.wit.size + 10 < c.wit.size + 11; omega⟩
  have c7 : OnCurveP (ptW (tfS7 q c).val (c.wit.size + 9, c.wit.size + 10)) := by
    rw [← (tfS7_ext10 P q c).ptW_val_eq al7, ptW_mk, s4]; exact smulF_on_curve _ hQ
  have B8 : (tfS8 q c).rowsHoldW (tfS10 P q c).val (tfS7 q c).gates.size (tfS8 q c).gates.size :=
    addPointGates_honest_ext (c.wit.size + 9, c.wit.size + 10) (c.wit.size + 9, c.wit.size + 10) (tfS7 q c) (tfS7_wf q c h).pis_zero
      al7 al7 c7 c7 (tfS8_ext10 P q c)
  have A8 := (tf_block8 q c h (tfS10 P q c).val).mp B8
  have s8 : (toF ((tfS10 P q c).val (c.wit.size + 12)), toF ((tfS10 P q c).val (c.wit.size + 13))) = smulF (2 * (2 * (2 * 1))) (toFP q) :=
    tf_dbl_step hQ (2 * (2 * 1)) s4 A8
  -- the two equalities
  have eP : ptW (tfS10 P q c).val P = ptW c.val P := (tf_ext10 P q c).ptW_val_eq hP
  have fin : (toF ((tfS10 P q c).val P.1), toF ((tfS10 P q c).val P.2)) = (toF ((tfS10 P q c).val (c.wit.size + 12)), toF ((tfS10 P q c).val (c.wit.size + 13))) := by
    rw [s8, ← ptW, eP, ← h8]
  rw [Prod.mk.injEq] at fin
  have B9 : (tfS9 P q c).rowsHoldW (tfS10 P q c).val (tfS8 q c).gates.size (tfS9 P q c).gates.size := by
    rw [tf_block9 P q c h (tfS10 P q c).val]; exact fin.1
  have B10 : (tfS10 P q c).rowsHoldW (tfS10 P q c).val (tfS9 P q c).gates.size (tfS10 P q c).gates.size := by
    rw [tf_block10 P q c h (tfS10 P q c).val]; exact fin.2
  exact ⟨B2, B3, B4, B5, B6, B7, B8, B9, B10⟩

/-! ### `assert_torsion_free_point`: the host's own choice of `q` -/

/-- the auxiliary point the host computes: `[8⁻¹ mod r_J]P` when `P` is on the curve, else the
    identity -/
def tfHostQ (c : Composer) (P : Pt) : Pt :=
  if onCurve (c.val P.1, c.val P.2) then edMul Generated.EIGHT_INV (c.val P.1, c.val P.2)
  else Pt.id

theorem assertTorsionFreePoint_run (P : Pt) (c : Composer) :
    (assertTorsionFreePoint P).run c = (assertTorsionFreeGates P (tfHostQ c P)).run c := by
  unfold assertTorsionFreePoint tfHostQ
  refine (run_bind_pair _ _ c (c.val P.1) c (getVal_run _ _)).trans ?_
  refine (run_bind_pair _ _ c (c.val P.2) c (getVal_run _ _)).trans ?_
  exact Eq.refl _

/-- the layout (hence the row semantics for an arbitrary assignment) does not depend on the
    host's `q`: `tf_rows_iff` for `assert_torsion_free_point` itself -/
theorem assertTorsionFreePoint_rows_iff (P : Pt) (c : Composer) (h : WF c) (w : Nat → Nat) :
    ((assertTorsionFreePoint P).run c).2.rowsHoldW w c.gates.size
        ((assertTorsionFreePoint P).run c).2.gates.size ↔
      OnCurveP (ptW w (c.wit.size, c.wit.size + 1)) ∧ TFAux w c.wit.size ∧
      smulF 8 (ptW w (c.wit.size, c.wit.size + 1)) = ptW w P := by
  rw [assertTorsionFreePoint_run]; exact tf_rows_iff P _ c h w

theorem assertTorsionFreePoint_sat_iff (P : Pt) (c : Composer) (h : WF c) (hP : PtAlloc c P)
    (w0 : Nat → Nat) :
    (∃ w, (∀ i, i < c.wit.size → w i = w0 i) ∧
      ((assertTorsionFreePoint P).run c).2.rowsHoldW w c.gates.size
        ((assertTorsionFreePoint P).run c).2.gates.size) ↔
    ∃ Q : PtF, OnCurveP Q ∧ smulF 8 Q = ptW w0 P := by
  rw [assertTorsionFreePoint_run]; exact tf_sat_iff P _ c h hP w0

/-- **`assertTorsionFreePoint_complete`**: for a point of the model's table that is on the curve
    and killed by `r_J`, the host's own choice `q = [EIGHT_INV]P` makes the model's table satisfy
    all rows. -/
theorem assertTorsionFreePoint_complete (P : Pt) (c : Composer) (h : WF c) (hP : PtAlloc c P)
    (hc : onCurve (c.val P.1, c.val P.2) = true) (hk : smulF RJ (ptW c.val P) = idF) :
    ((assertTorsionFreePoint P).run c).2.rowsHoldW ((assertTorsionFreePoint P).run c).2.val
      c.gates.size ((assertTorsionFreePoint P).run c).2.gates.size := by
  rw [assertTorsionFreePoint_run]
  have hq : tfHostQ c P = edMul Generated.EIGHT_INV (c.val P.1, c.val P.2) := by
    unfold tfHostQ; rw [if_pos hc]
  rw [hq]
  have hcP : OnCurveP (ptW c.val P) := (onCurve_iff_P (c.val P.1, c.val P.2)).mp hc
  apply assertTorsionFreeGates_complete P _ c h hP (edMul_on_curve _ _ hc EIGHT_INV_lt)
  rw [edMul_eq_smulF _ _ hc EIGHT_INV_lt]
  exact eight_smul_eight_inv hcP hk

/-- and conversely (group-order hypothesis): if the model's table satisfies the rows, the point
    is on the curve and killed by `r_J` -/
theorem assertTorsionFreePoint_sound (H : JubjubGroupFacts) (P : Pt) (c : Composer) (h : WF c)
    (w : Nat → Nat)
    (hr : ((assertTorsionFreePoint P).run c).2.rowsHoldW w c.gates.size
        ((assertTorsionFreePoint P).run c).2.gates.size) :
    OnCurveP (ptW w P) ∧ smulF RJ (ptW w P) = idF := by
  obtain ⟨hQ, -, h8⟩ := (assertTorsionFreePoint_rows_iff P c h w).mp hr
  exact (H.mem_eight_iff _).mp ⟨_, hQ, h8⟩

/-! ### host-side decision logic of the point entry points -/

/-- state after `append_point` of the affine point `a` -/
def apS (a : Pt) (c : Composer) : Composer :=
  ((appendWitness a.2).run ((appendWitness a.1).run c).2).2

theorem appendAffinePoint_run (a : Pt) (c : Composer) :
    (appendAffinePoint a).run c = ((c.wit.size, c.wit.size + 1), apS a c) := by
  unfold appendAffinePoint apS
  rw [run_bind', run_bind']
  simp
  rfl

theorem apS_eq_tfS1 (a : Pt) (c : Composer) : apS a c = tfS1 a c := rfl

theorem apS_appends (a : Pt) (c : Composer) : Appends c (apS a c) 0 2 := tfS1_appends a c
theorem apS_wf (a : Pt) (c : Composer) (h : WF c) : WF (apS a c) := tfS1_wf a c h
theorem apS_val0 (a : Pt) (c : Composer) : (apS a c).val c.wit.size = a.1 % R := tfS1_val0 a c
theorem apS_val1 (a : Pt) (c : Composer) : (apS a c).val (c.wit.size + 1) = a.2 % R :=
  tfS1_val1 a c

/-- the values stored by `append_point e` are the affine coordinates `(U/Z, V/Z)` -/
theorem apS_ptW (e : Ext) (c : Composer) :
    ptW (apS e.aff c).val (c.wit.size, c.wit.size + 1) = e.affF := by
  rw [ptW_mk, apS_val0, apS_val1, toF_mod, toF_mod, ← Ext.toFP_aff]; rfl

/-- **`append_point`**: `Z = 0` ⇒ `JubJubPointDegenerate`, state unchanged; otherwise the two
    affine coordinates are allocated (no gate). -/
theorem appendPoint_run (e : Ext) (c : Composer) :
    (appendPoint e).run c =
      if e.z = 0 then (.error .degenerate, c)
      else (.ok (c.wit.size, c.wit.size + 1), apS e.aff c) := by
  unfold appendPoint
  by_cases h : e.z = 0
  · rw [(Ext.toAffine?_eq_none_iff e).mpr h, if_pos h]; rfl
  · rw [Ext.toAffine?_of_ne h, if_neg h]
    show (appendAffinePoint e.aff >>= fun w => pure (Except.ok w)).run c = _
    rw [run_bind', appendAffinePoint_run]; rfl

/-- state after `append_constant_point` succeeded -/
def acpS (a : Pt) (c : Composer) : Composer :=
  ((appendConstant a.2).run ((appendConstant a.1).run c).2).2

theorem acpS_appends (a : Pt) (c : Composer) : Appends c (acpS a c) 2 2 :=
  (appendConstant_appends a.1 c).trans (appendConstant_appends a.2 _)

theorem acpS_wf (a : Pt) (c : Composer) (h : WF c) : WF (acpS a c) :=
  appendConstant_wf _ _ (appendConstant_wf _ _ h)

/-- **`append_constant_point`**: `Z = 0` ⇒ `JubJubPointDegenerate`; else not (on curve and
    torsion free) ⇒ `JubJubPointNotTorsionFree`; state unchanged on error; otherwise two
    `append_constant` rows. -/
theorem appendConstantPoint_run (e : Ext) (c : Composer) :
    (appendConstantPoint e).run c =
      if e.z = 0 then (.error .degenerate, c)
      else if (e.onCurve && e.torsionFree) = false then (.error .notTorsionFree, c)
      else (.ok (c.wit.size, c.wit.size + 1), acpS e.aff c) := by
  unfold appendConstantPoint
  by_cases h : e.z = 0
  · rw [(Ext.toAffine?_eq_none_iff e).mpr h, if_pos h]; rfl
  · rw [Ext.toAffine?_of_ne h, if_neg h]
    by_cases h2 : (e.onCurve && e.torsionFree) = false
    · rw [if_pos h2]; simp only [h2]; rfl
    · rw [if_neg h2]
      have h3 : (e.onCurve && e.torsionFree) = true := by simpa using h2
      simp only [h3]
      show (appendConstant e.aff.1 >>= fun x => appendConstant e.aff.2 >>= fun y =>
        pure (Except.ok (x, y))).run c = _
      rw [run_bind', run_bind', appendConstant_fst, appendConstant_fst]
      have : ((appendConstant e.aff.1).run c).2.wit.size = c.wit.size + 1 :=
        (appendConstant_appends _ c).wit
      rw [this]; rfl

/-- on success the two rows pin the allocated wires to the affine constant -/
theorem acpS_rows_iff (a : Pt) (c : Composer) (h : WF c) (w : Nat → Nat) :
    (acpS a c).rowsHoldW w c.gates.size (acpS a c).gates.size ↔
      ptW w (c.wit.size, c.wit.size + 1) = toFP a := by
  have h1 := appendConstant_appends a.1 c
  have h2 := appendConstant_appends a.2 ((appendConstant a.1).run c).2
  unfold acpS
  rw [h1.rows_split h2 w, appendConstant_rows_iff a.1 c h,
    appendConstant_rows_iff a.2 _ (appendConstant_wf _ _ h), h1.wit, ptW_mk]
  unfold toFP
  rw [Prod.mk.injEq]

theorem acpS_honest (a : Pt) (c : Composer) (h : WF c) :
    (acpS a c).rowsHoldW (acpS a c).val c.gates.size (acpS a c).gates.size := by
  have h1 := appendConstant_appends a.1 c
  have h2 := appendConstant_appends a.2 ((appendConstant a.1).run c).2
  unfold acpS
  rw [h1.rows_split h2]
  exact ⟨appendConstant_honest_ext a.1 c h h2.ext,
    appendConstant_honest a.2 _ (appendConstant_wf _ _ h)⟩

/-- state after `append_public_point` succeeded -/
def appS (a : Pt) (c : Composer) : Composer :=
  ((assertEqualConstant (c.wit.size + 1) 0 (some a.2)).run
    ((assertEqualConstant c.wit.size 0 (some a.1)).run (apS a c)).2).2

/-- **`append_public_point`**: `Z = 0` ⇒ `JubJubPointDegenerate`, state unchanged; otherwise the
    affine coordinates are allocated and pinned to two public inputs. -/
theorem appendPublicPoint_run (e : Ext) (c : Composer) :
    (appendPublicPoint e).run c =
      if e.z = 0 then (.error .degenerate, c)
      else (.ok (c.wit.size, c.wit.size + 1), appS e.aff c) := by
  unfold appendPublicPoint
  by_cases h : e.z = 0
  · rw [(Ext.toAffine?_eq_none_iff e).mpr h, if_pos h]; rfl
  · rw [Ext.toAffine?_of_ne h, if_neg h]
    show (appendAffinePoint e.aff >>= fun w =>
      assertEqualConstant w.1 0 (some e.aff.1) >>= fun _ =>
      assertEqualConstant w.2 0 (some e.aff.2) >>= fun _ => pure (Except.ok w)).run c = _
    rw [run_bind', appendAffinePoint_run]; rfl

theorem appS_appends (a : Pt) (c : Composer) : Appends c (appS a c) 2 2 :=
  ((apS_appends a c).trans (assertEqualConstant_appends _ _ _ _)).trans
    (assertEqualConstant_appends _ _ _ _)

theorem appS_rows_iff (a : Pt) (c : Composer) (h : WF c) (w : Nat → Nat) :
    (appS a c).rowsHoldW w c.gates.size (appS a c).gates.size ↔
      ptW w (c.wit.size, c.wit.size + 1) = toFP a := by
  have h1 := assertEqualConstant_appends c.wit.size 0 (some a.1) (apS a c)
  have h2 := assertEqualConstant_appends (c.wit.size + 1) 0 (some a.2)
    ((assertEqualConstant c.wit.size 0 (some a.1)).run (apS a c)).2
  have e : c.gates.size = (apS a c).gates.size := rfl
  unfold appS
  rw [e, h1.rows_split h2 w, assertEqualConstant_rows_iff _ _ _ _ (apS_wf a c h),
    assertEqualConstant_rows_iff _ _ _ _ (assertEqualConstant_wf _ _ _ _ (apS_wf a c h)), ptW_mk]
  unfold toFP pubF
  simp only [toF_zero, zero_add]
  rw [Prod.mk.injEq]

/-- state after `assert_equal_public_point` succeeded -/
def aeppS (p a : Pt) (c : Composer) : Composer :=
  ((assertEqualConstant p.2 0 (some a.2)).run ((assertEqualConstant p.1 0 (some a.1)).run c).2).2

/-- **`assert_equal_public_point`**: `Z = 0` ⇒ `JubJubPointDegenerate`, state unchanged;
    otherwise two public-input rows. -/
theorem assertEqualPublicPoint_run (p : Pt) (e : Ext) (c : Composer) :
    (assertEqualPublicPoint p e).run c =
      if e.z = 0 then (.error .degenerate, c) else (.ok (), aeppS p e.aff c) := by
  unfold assertEqualPublicPoint
  by_cases h : e.z = 0
  · rw [(Ext.toAffine?_eq_none_iff e).mpr h, if_pos h]; rfl
  · rw [Ext.toAffine?_of_ne h, if_neg h]; rfl

theorem aeppS_rows_iff (p a : Pt) (c : Composer) (h : WF c) (w : Nat → Nat) :
    (aeppS p a c).rowsHoldW w c.gates.size (aeppS p a c).gates.size ↔ ptW w p = toFP a := by
  have h1 := assertEqualConstant_appends p.1 0 (some a.1) c
  have h2 := assertEqualConstant_appends p.2 0 (some a.2)
    ((assertEqualConstant p.1 0 (some a.1)).run c).2
  unfold aeppS
  rw [h1.rows_split h2 w, assertEqualConstant_rows_iff _ _ _ _ h,
    assertEqualConstant_rows_iff _ _ _ _ (assertEqualConstant_wf _ _ _ _ h)]
  unfold toFP pubF ptW
  simp only [toF_zero, zero_add]
  rw [Prod.mk.injEq]

/-! ### `component_mul_generator`: host-side checks -/

/-- possible outcomes of `append_fixed_base_signed_digits` -/
def FbOutcome (r : Except CErr Pt) : Prop := r = .error .unsupportedWnaf ∨ ∃ p, r = .ok p

theorem bind_outcome {α : Type} (m : CM α) (f : α → CM (Except CErr Pt)) (c : Composer)
    (h : ∀ a c', FbOutcome ((f a).run c').1) : FbOutcome ((m >>= f).run c).1 := by
  rw [run_bind']; exact h _ _

theorem appendFixedBaseSignedDigits_outcome (j : Nat) (g : Pt) (d : List Int) (c : Composer) :
    FbOutcome ((appendFixedBaseSignedDigits j g d).run c).1 := by
  unfold appendFixedBaseSignedDigits
  apply bind_outcome
  intro _ c1
  split
  · left; rfl
  · simp only []
    apply bind_outcome; intro st c2
    apply bind_outcome; intro _ c3
    apply bind_outcome; intro _ c4
    apply bind_outcome; intro _ c5
    apply bind_outcome; intro _ c6
    apply bind_outcome; intro _ c7
    apply bind_outcome; intro _ c8
    apply bind_outcome; intro _ c9
    apply bind_outcome; intro _ c10
    right
    exact ⟨_, rfl⟩

/-- **`component_mul_generator`**, host side: the `Z = 0` test comes first (no projection of a
    degenerate point is ever attempted), then `is_on_curve`, then `is_prime_order`; a generator
    failing any of them is rejected with `JubJubGeneratorNotPrimeOrder`; then a scalar value
    `≥ r_J` is rejected with `JubJubScalarMalformed`; the state is unchanged in both cases.
    Otherwise the fixed-base gates are laid down for the affine generator `(U/Z, V/Z)`. -/
theorem componentMulGenerator_run (j : Nat) (e : Ext) (c : Composer) :
    (componentMulGenerator j e).run c =
      if e.z = 0 ∨ e.onCurve = false ∨ e.primeOrder = false then (.error .generatorNotPrime, c)
      else if RJ ≤ c.val j then (.error .scalarMalformed, c)
      else (appendFixedBaseSignedDigits j e.aff (wnaf2 (c.val j))).run c := by
  unfold componentMulGenerator
  by_cases h : e.z = 0 ∨ e.onCurve = false ∨ e.primeOrder = false
  · rw [if_pos h]
    have hb : (e.z == 0 || !e.onCurve || !e.primeOrder) = true := by
      rcases h with h | h | h <;> simp [h]
    simp only [hb]; rfl
  · rw [if_neg h]
    have hb : (e.z == 0 || !e.onCurve || !e.primeOrder) = false := by
      simp only [not_or, Bool.not_eq_false] at h
      simp [h.1, h.2.1, h.2.2]
    simp only [hb]
    have hz : e.z ≠ 0 := fun hz => h (Or.inl hz)
    show (getVal j >>= fun s => if s ≥ RJ then pure (Except.error CErr.scalarMalformed)
      else appendFixedBaseSignedDigits j ((e.toAffine?).getD Pt.id) (wnaf2 s)).run c = _
    rw [run_bind', getVal_run, Ext.toAffine?_of_ne hz]
    simp only [Option.getD_some]
    by_cases h2 : RJ ≤ c.val j
    · rw [if_pos h2, if_pos h2]; rfl
    · rw [if_neg h2, if_neg h2]; rfl


/-! ### the decisions as equivalences -/

theorem appendPoint_degenerate_iff (e : Ext) (c : Composer) :
    ((appendPoint e).run c).1 = .error .degenerate ↔ e.z = 0 := by
  rw [appendPoint_run]; split <;> simp_all

theorem appendPoint_error_state (e : Ext) (c : Composer) (h : e.z = 0) :
    (appendPoint e).run c = (.error .degenerate, c) := by
  rw [appendPoint_run, if_pos h]

theorem appendPoint_ok (e : Ext) (c : Composer) (h : e.z ≠ 0) :
    (appendPoint e).run c = (.ok (c.wit.size, c.wit.size + 1), apS e.aff c) := by
  rw [appendPoint_run, if_neg h]

theorem appendPublicPoint_degenerate_iff (e : Ext) (c : Composer) :
    ((appendPublicPoint e).run c).1 = .error .degenerate ↔ e.z = 0 := by
  rw [appendPublicPoint_run]; split <;> simp_all

theorem assertEqualPublicPoint_degenerate_iff (p : Pt) (e : Ext) (c : Composer) :
    ((assertEqualPublicPoint p e).run c).1 = .error .degenerate ↔ e.z = 0 := by
  rw [assertEqualPublicPoint_run]; split <;> simp_all

theorem appendConstantPoint_degenerate_iff (e : Ext) (c : Composer) :
    ((appendConstantPoint e).run c).1 = .error .degenerate ↔ e.z = 0 := by
  rw [appendConstantPoint_run]
  split
  · simp_all
  · split <;> simp_all

theorem appendConstantPoint_notTorsionFree_iff (e : Ext) (c : Composer) :
    ((appendConstantPoint e).run c).1 = .error .notTorsionFree ↔
      e.z ≠ 0 ∧ ¬ (e.onCurve = true ∧ e.torsionFree = true) := by
  rw [appendConstantPoint_run]
  split
  · simp_all
  · next hz =>
    split
    · next h => simp only [Bool.and_eq_false_iff] at h; rcases h with h | h <;> simp_all
    · next h =>
      simp only [Bool.and_eq_false_iff, not_or, Bool.not_eq_false] at h
      simp_all

theorem appendConstantPoint_ok_iff (e : Ext) (c : Composer) :
    (∃ p, ((appendConstantPoint e).run c).1 = .ok p) ↔
      e.z ≠ 0 ∧ e.onCurve = true ∧ e.torsionFree = true := by
  rw [appendConstantPoint_run]
  split
  · simp_all
  · next hz =>
    split
    · next h => simp only [Bool.and_eq_false_iff] at h; rcases h with h | h <;> simp_all
    · next h =>
      simp only [Bool.and_eq_false_iff, not_or, Bool.not_eq_false] at h
      simp_all

theorem appendConstantPoint_ok (e : Ext) (c : Composer) (hz : e.z ≠ 0) (h1 : e.onCurve = true)
    (h2 : e.torsionFree = true) :
    (appendConstantPoint e).run c = (.ok (c.wit.size, c.wit.size + 1), acpS e.aff c) := by
  rw [appendConstantPoint_run, if_neg hz, if_neg (by simp [h1, h2])]

theorem appendConstantPoint_error_state (e : Ext) (c : Composer)
    (h : ¬ (e.z ≠ 0 ∧ e.onCurve = true ∧ e.torsionFree = true)) :
    ((appendConstantPoint e).run c).2 = c := by
  rw [appendConstantPoint_run]
  split
  · rfl
  · next hz =>
    split
    · rfl
    · next h' =>
      simp only [Bool.and_eq_false_iff, not_or, Bool.not_eq_false] at h'
      exact absurd ⟨hz, h'.1, h'.2⟩ h

/-- the acceptance test of `append_constant_point` in field terms (canonical `Z`) -/
theorem appendConstantPoint_accepts_iff (e : Ext) (hz : e.z < R) :
    (e.z ≠ 0 ∧ e.onCurve = true ∧ e.torsionFree = true) ↔
      toF e.z ≠ 0 ∧ OnCurveP e.affF ∧ e.affF.1 * e.affF.2 * toF e.z = toF e.t1 * toF e.t2 ∧
      smulF RJ e.affF = idF := by
  have hzz : toF e.z ≠ 0 ↔ e.z ≠ 0 := by rw [Ne, toF_eq_zero_of_lt hz]
  constructor
  · rintro ⟨h0, h1, h2⟩
    obtain ⟨-, hc, ht⟩ := (Ext.onCurve_iff e).mp h1
    exact ⟨hzz.mpr h0, hc, ht, (Ext.torsionFree_iff h1 hz).mp h2⟩
  · rintro ⟨h0, hc, ht, hk⟩
    have h1 : e.onCurve = true := (Ext.onCurve_iff e).mpr ⟨hzz.mp h0, hc, ht⟩
    exact ⟨hzz.mp h0, h1, (Ext.torsionFree_iff h1 hz).mpr hk⟩

theorem componentMulGenerator_generatorNotPrime_iff (j : Nat) (e : Ext) (c : Composer) :
    ((componentMulGenerator j e).run c).1 = .error .generatorNotPrime ↔
      (e.z = 0 ∨ e.onCurve = false ∨ e.primeOrder = false) := by
  rw [componentMulGenerator_run]
  split
  · next h => simp [h]
  · next h =>
    simp only [h, iff_false]
    split
    · simp
    · rcases appendFixedBaseSignedDigits_outcome j e.aff (wnaf2 (c.val j)) c with h' | ⟨p, h'⟩ <;>
        rw [h'] <;> simp

theorem componentMulGenerator_scalarMalformed_iff (j : Nat) (e : Ext) (c : Composer) :
    ((componentMulGenerator j e).run c).1 = .error .scalarMalformed ↔
      ¬ (e.z = 0 ∨ e.onCurve = false ∨ e.primeOrder = false) ∧ RJ ≤ c.val j := by
  rw [componentMulGenerator_run]
  split
  · next h => simp [h]
  · next h =>
    simp only [h, not_false_eq_true, true_and]
    split
    · next h2 => simp [h2]
    · next h2 =>
      simp only [h2, iff_false]
      rcases appendFixedBaseSignedDigits_outcome j e.aff (wnaf2 (c.val j)) c with h' | ⟨p, h'⟩ <;>
        rw [h'] <;> simp

theorem componentMulGenerator_error_state (j : Nat) (e : Ext) (c : Composer)
    (h : (e.z = 0 ∨ e.onCurve = false ∨ e.primeOrder = false) ∨ RJ ≤ c.val j) :
    ((componentMulGenerator j e).run c).2 = c := by
  rw [componentMulGenerator_run]
  split
  · rfl
  · next h1 =>
    rcases h with h | h
    · exact absurd h h1
    · rw [if_pos h]

/-- the generator test of `component_mul_generator` in field terms (canonical coordinates):
    accepted iff `Z ≠ 0`, the affine point is on the curve, `T1·T2 = U·V/Z`, `[r_J]G = O` and
    `G ≠ O`. -/
theorem componentMulGenerator_accepts_iff (e : Ext) (hr : e.Red) :
    ¬ (e.z = 0 ∨ e.onCurve = false ∨ e.primeOrder = false) ↔
      toF e.z ≠ 0 ∧ OnCurveP e.affF ∧ e.affF.1 * e.affF.2 * toF e.z = toF e.t1 * toF e.t2 ∧
      smulF RJ e.affF = idF ∧ e.affF ≠ idF := by
  have hz := hr.2.2
  have hzz : toF e.z ≠ 0 ↔ e.z ≠ 0 := by rw [Ne, toF_eq_zero_of_lt hz]
  simp only [not_or, Bool.not_eq_false]
  constructor
  · rintro ⟨h0, h1, h2⟩
    obtain ⟨-, hc, ht⟩ := (Ext.onCurve_iff e).mp h1
    obtain ⟨hk, hne⟩ := (Ext.primeOrder_iff h1 hr).mp h2
    exact ⟨hzz.mpr h0, hc, ht, hk, hne⟩
  · rintro ⟨h0, hc, ht, hk, hne⟩
    have h1 : e.onCurve = true := (Ext.onCurve_iff e).mpr ⟨hzz.mp h0, hc, ht⟩
    exact ⟨hzz.mp h0, h1, (Ext.primeOrder_iff h1 hr).mpr ⟨hk, hne⟩⟩


/-! ### concrete instances (non-vacuity) -/

theorem affF_ofAffine (p : Pt) : (Ext.ofAffine p).affF = toFP p := by
  unfold Ext.affF Ext.ofAffine toFP
  simp

theorem ofAffine_red {p : Pt} (h1 : p.1 < R) (h2 : p.2 < R) : (Ext.ofAffine p).Red :=
  ⟨h1, h2, Nat.mod_lt _ R_pos⟩

theorem exG_ext_onCurve : (Ext.ofAffine exG).onCurve = true := by decide +kernel
theorem exG_ext_torsionFree : (Ext.ofAffine exG).torsionFree = true := by decide +kernel
theorem exG_ext_primeOrder : (Ext.ofAffine exG).primeOrder = true := by decide +kernel
theorem id_ext_not_primeOrder : Ext.id.primeOrder = false := by decide +kernel

/-- `[r_J]·exG = O` in the group law (through the `mulBits`–`smulF` bridge) -/
theorem exG_torsion : smulF RJ (toFP exG) = idF := by
  have h := (Ext.torsionFree_iff exG_ext_onCurve (Nat.mod_lt _ R_pos)).mp exG_ext_torsionFree
  rwa [affF_ofAffine] at h

theorem exG_ne_id : toFP exG ≠ idF := by
  have h := (Ext.primeOrder_iff exG_ext_onCurve (ofAffine_red exG_lt.1 exG_lt.2)).mp
    exG_ext_primeOrder
  rw [affF_ofAffine] at h
  exact h.2

/-- the point `(0, −1)` of order 2, extended and in the field -/
def exT2 : Ext := ⟨0, R - 1, 1, 0, 0⟩
def exT2F : PtF := (0, -1)

theorem exT2_onCurve : exT2.onCurve = true := by decide +kernel
theorem exT2_not_torsionFree : exT2.torsionFree = false := by decide +kernel

theorem exT2F_on_curve : OnCurveP exT2F := by
  unfold OnCurveP OnCurveF exT2F; ring

theorem exT2F_two : smulF 2 exT2F = idF := by
  rw [smulF_two]; unfold addF exT2F idF; simp

theorem exT2F_ne_id : exT2F ≠ idF := by
  unfold exT2F idF
  intro h
  rw [Prod.mk.injEq] at h
  exact neg_one_ne_one_F h.2

theorem RJ_odd : RJ = (RJ / 2) * 2 + 1 := by decide +kernel

/-- `[r_J](0, −1) = (0, −1) ≠ O`: a curve point outside the prime-order subgroup -/
theorem exT2F_not_torsion : smulF RJ exT2F ≠ idF := by
  have h : smulF RJ exT2F = exT2F := by
    rw [RJ_odd, smulF_succ, smulF_mul _ _ exT2F_on_curve, exT2F_two, smulF_id, id_addF]
  rw [h]; exact exT2F_ne_id

/-- a concrete composer: `initialized` plus the point `p` on the wires `(6, 7)` -/
def tfExC (p : Pt) : Composer := apS p initialized

theorem tfExC_wf (p : Pt) : WF (tfExC p) := apS_wf p _ initialized_wf

theorem tfExC_alloc (p : Pt) : PtAlloc (tfExC p) (6, 7) := by
  have h : (tfExC p).wit.size = 6 + 2 := by
    rw [← initialized_wit_size]; exact (apS_appends p initialized).wit
  exact ⟨by rw [h]; decide, by rw [h]; decide⟩

theorem tfExC_val (p : Pt) : ptW (tfExC p).val (6, 7) = toFP p := by
  have h0 := apS_val0 p initialized
  have h1 := apS_val1 p initialized
  rw [initialized_wit_size] at h0 h1
  unfold tfExC
  rw [ptW_mk, h0, h1, toF_mod, toF_mod]; rfl

theorem tfExC_val_nat (p : Pt) : (tfExC p).val 6 = p.1 % R ∧ (tfExC p).val 7 = p.2 % R := by
  have h0 := apS_val0 p initialized
  have h1 := apS_val1 p initialized
  rw [initialized_wit_size] at h0 h1
  exact ⟨h0, h1⟩

theorem toFP_exT2 : toFP (0, R - 1) = exT2F := by
  unfold toFP exT2F; simp [toF_R_sub_one]

end Composer
end Plonk
