/-
  G1 group law, part 1: the affine model (`G1.onCurve`, `G1.neg`, `G1.add` of `Plonk/Model/Bls.lean`)
  refines the group of nonsingular points of the Weierstrass curve `y² = x³ + 4` over `ZMod P`
  (Mathlib: `WeierstrassCurve.Affine.Point`, an `AddCommGroup`).

  Everything is stated for *valid* model points (`G1.Valid` of `CodecG1.lean`: the identity, or
  reduced coordinates `< P` on the curve) — the model's `G1.add` compares raw `Nat` coordinates
  (`x1 == x2`), so reducedness is needed, and all values the model produces are reduced.
-/
import Mathlib.AlgebraicGeometry.EllipticCurve.Affine.Point
import Mathlib.Tactic.FieldSimp
import Mathlib.Tactic.Ring
import Mathlib.Tactic.LinearCombination
import Plonk.Proofs.PrimeP
import Plonk.Proofs.CodecG2

set_option Elab.async false

namespace Plonk

open WeierstrassCurve

/-! ### more of the `ZMod P` bridge -/

theorem toP_ofNat (n : Nat) [n.AtLeastTwo] : toP (OfNat.ofNat n) = (OfNat.ofNat n : Fp) := by
  unfold toP; exact Nat.cast_ofNat
@[simp] theorem toP_two : toP 2 = 2 := toP_ofNat 2
@[simp] theorem toP_three : toP 3 = 3 := toP_ofNat 3
@[simp] theorem toP_eight : toP 8 = 8 := toP_ofNat 8

theorem P_sub_two_lt : P - 2 < 2 ^ 384 := by decide +kernel
theorem P_gt_two : 2 < P := by decide +kernel

/-- `pinv` is the field inverse (Fermat), including `pinv 0 = 0 = 0⁻¹` -/
@[simp] theorem toP_pinv (a : Nat) : toP (pinv a) = (toP a)⁻¹ := by
  unfold pinv
  rw [toP_ppow _ _ P_sub_two_lt]
  by_cases h : toP a = 0
  · rw [h]
    have h2 : P - 2 ≠ 0 := by have := P_gt_two; omega
    rw [inv_zero]
    exact zero_pow (M₀ := Fp) h2
  · have hc : (toP a) ^ (P - 1) = 1 := ZMod.pow_card_sub_one_eq_one h
    have h2 : (toP a) ^ (P - 2) * toP a = 1 := by
      rw [← pow_succ]
      have : P - 2 + 1 = P - 1 := by have := P_gt_two; omega
      rw [this]; exact hc
    exact eq_inv_of_mul_eq_one_left h2

theorem pinv_lt (a : Nat) : pinv a < P := ppow_lt _ _

theorem Fp_two_ne_zero : (2 : Fp) ≠ 0 := by
  rw [← toP_two, Ne, toP_eq_zero_of_lt P_gt_two]; omega

/-! ### the curve -/

namespace G1

/-- the Weierstrass curve `y² = x³ + 4` over `ZMod P` -/
def W : WeierstrassCurve Fp := ⟨0, 0, 0, 0, 4⟩

@[simp] theorem W_a₁ : W.a₁ = 0 := rfl
@[simp] theorem W_a₂ : W.a₂ = 0 := rfl
@[simp] theorem W_a₃ : W.a₃ = 0 := rfl
@[simp] theorem W_a₄ : W.a₄ = 0 := rfl
@[simp] theorem W_a₆ : W.a₆ = 4 := rfl

theorem W_Δ : W.Δ = -6912 := by
  simp only [WeierstrassCurve.Δ, WeierstrassCurve.b₂, WeierstrassCurve.b₄, WeierstrassCurve.b₆,
    WeierstrassCurve.b₈, W_a₁, W_a₂, W_a₃, W_a₄, W_a₆]
  ring

theorem W_Δ_ne_zero : W.Δ ≠ 0 := by
  rw [W_Δ, neg_ne_zero]
  have h : ((6912 : Nat) : Fp) ≠ 0 := by
    change toP 6912 ≠ 0
    rw [Ne, toP_eq_zero_of_lt (by decide +kernel)]; omega
  exact_mod_cast h

instance W_isElliptic : W.IsElliptic := ⟨isUnit_iff_ne_zero.mpr W_Δ_ne_zero⟩

/-- the group of points of `y² = x³ + 4` over `ZMod P` -/
abbrev Pt := W.toAffine.Point

theorem W_equation_iff (x y : Fp) : W.toAffine.Equation x y ↔ y * y = x * x * x + 4 := by
  rw [Affine.equation_iff]
  simp only [toAffine, W_a₁, W_a₂, W_a₃, W_a₄, W_a₆]
  constructor <;> intro h <;> linear_combination h

theorem W_nonsingular_iff (x y : Fp) : W.toAffine.Nonsingular x y ↔ y * y = x * x * x + 4 := by
  rw [← Affine.equation_iff_nonsingular_of_Δ_ne_zero W_Δ_ne_zero, W_equation_iff]

theorem nonsingular_of_onCurve {x y : Nat} (h : (G1.aff x y).onCurve = true) :
    W.toAffine.Nonsingular (toP x) (toP y) :=
  (W_nonsingular_iff _ _).mpr ((onCurve_aff_iff x y).mp h)

/-- the point of the Mathlib curve that an on-curve model point denotes -/
def toPoint : {p : G1 // p.onCurve = true} → Pt
  | ⟨.inf, _⟩ => 0
  | ⟨.aff x y, h⟩ => .some (toP x) (toP y) (nonsingular_of_onCurve h)

/-- total version of `toPoint` (off-curve junk is sent to `0`) -/
def pt (p : G1) : Pt := if h : p.onCurve = true then toPoint ⟨p, h⟩ else 0

theorem pt_eq_toPoint {p : G1} (h : p.onCurve = true) : pt p = toPoint ⟨p, h⟩ := dif_pos h

@[simp] theorem pt_inf : pt .inf = 0 := rfl

theorem Valid.onCurve {p : G1} (h : p.Valid) : p.onCurve = true := by
  cases p with
  | inf => rfl
  | aff x y => exact h.2.2

theorem pt_aff {x y : Nat} (h : (G1.aff x y).onCurve = true) :
    pt (.aff x y) = .some (toP x) (toP y) (nonsingular_of_onCurve h) := by
  rw [pt_eq_toPoint h]; rfl

/-- a reduced pair whose image is a nonsingular point is a valid model point denoting that point -/
theorem valid_of_nonsingular {x y : Nat} (hx : x < P) (hy : y < P) {a b : Fp}
    (hn : W.toAffine.Nonsingular a b) (ea : toP x = a) (eb : toP y = b) :
    (G1.aff x y).Valid ∧ pt (.aff x y) = .some a b hn := by
  subst ea eb
  have hc : (G1.aff x y).onCurve = true :=
    (onCurve_aff_iff x y).mpr ((W_nonsingular_iff _ _).mp hn)
  exact ⟨⟨hx, hy, hc⟩, pt_aff hc⟩

/-- `toPoint` is injective on valid points -/
theorem pt_injective {p q : G1} (hp : p.Valid) (hq : q.Valid) (h : pt p = pt q) : p = q := by
  cases p with
  | inf =>
    cases q with
    | inf => rfl
    | aff x y => rw [pt_aff hq.onCurve] at h; exact absurd h.symm (Affine.Point.some_ne_zero _)
  | aff x y =>
    cases q with
    | inf => rw [pt_aff hp.onCurve] at h; exact absurd h (Affine.Point.some_ne_zero _)
    | aff x' y' =>
      rw [pt_aff hp.onCurve, pt_aff hq.onCurve, Affine.Point.some.injEq] at h
      rw [(toP_inj_of_lt hp.1 hq.1).mp h.1, (toP_inj_of_lt hp.2.1 hq.2.1).mp h.2]

theorem pt_eq_zero_iff {p : G1} (hp : p.Valid) : pt p = 0 ↔ p = .inf := by
  constructor
  · intro h; exact pt_injective hp trivial (h.trans pt_inf.symm)
  · rintro rfl; rfl

/-! ### negation -/

theorem neg_spec {p : G1} (hp : p.Valid) : p.neg.Valid ∧ pt p.neg = - pt p := by
  cases p with
  | inf => exact ⟨trivial, rfl⟩
  | aff x y =>
    have hn := nonsingular_of_onCurve hp.onCurve
    rw [pt_aff hp.onCurve, Affine.Point.neg_some]
    refine valid_of_nonsingular hp.1 (pneg_lt _) _ rfl ?_
    simp [Affine.negY]

/-! ### addition -/

/-- on-curve points with the same `x` have equal or opposite `y` -/
theorem y_eq_or_neg {x y y' : Fp} (h : y * y = x * x * x + 4) (h' : y' * y' = x * x * x + 4) :
    y = y' ∨ y = -y' := by
  have : (y - y') * (y + y') = 0 := by linear_combination h - h'
  rcases mul_eq_zero.mp this with h1 | h1
  · left; exact sub_eq_zero.mp h1
  · right; exact eq_neg_of_add_eq_zero_left h1

theorem y_ne_zero {x y : Fp} (h : y * y = x * x * x + 4) : y ≠ 0 := by
  rintro rfl
  exact no_cube_root x (by linear_combination -h)

theorem add_aff_eq (x1 y1 x2 y2 : Nat) : G1.add (.aff x1 y1) (.aff x2 y2) =
    if x1 = x2 then
      if y1 = y2 ∧ y1 ≠ 0 then
        .aff (psub (psq (pmul (pmul 3 (psq x1)) (pinv (pmul 2 y1)))) (pmul 2 x1))
          (psub (pmul (pmul (pmul 3 (psq x1)) (pinv (pmul 2 y1)))
            (psub x1 (psub (psq (pmul (pmul 3 (psq x1)) (pinv (pmul 2 y1)))) (pmul 2 x1)))) y1)
      else .inf
    else
      .aff (psub (psub (psq (pmul (psub y2 y1) (pinv (psub x2 x1)))) x1) x2)
        (psub (pmul (pmul (psub y2 y1) (pinv (psub x2 x1)))
          (psub x1 (psub (psub (psq (pmul (psub y2 y1) (pinv (psub x2 x1)))) x1) x2))) y1) := by
  simp only [G1.add, beq_iff_eq, bne_iff_ne, Bool.and_eq_true]

/-- the generic chord case -/
theorem add_spec_chord {x1 y1 x2 y2 : Nat} (hp : (G1.aff x1 y1).Valid) (hq : (G1.aff x2 y2).Valid)
    (hx : x1 ≠ x2) :
    ((G1.aff x1 y1).add (.aff x2 y2)).Valid ∧
      pt ((G1.aff x1 y1).add (.aff x2 y2)) = pt (.aff x1 y1) + pt (.aff x2 y2) := by
  have hx' : toP x1 ≠ toP x2 := fun h => hx ((toP_inj_of_lt hp.1 hq.1).mp h)
  rw [add_aff_eq, if_neg hx, pt_aff hp.onCurve, pt_aff hq.onCurve, Affine.Point.add_of_X_ne hx']
  have h12 : toP x1 - toP x2 ≠ 0 := sub_ne_zero.mpr hx'
  have h21 : toP x2 - toP x1 ≠ 0 := sub_ne_zero.mpr (Ne.symm hx')
  have hl : (toP y2 - toP y1) * (toP x2 - toP x1)⁻¹ = (toP y1 - toP y2) / (toP x1 - toP x2) := by
    field_simp; ring
  refine valid_of_nonsingular (psub_lt _ _) (psub_lt _ _) _ ?_ ?_
  · simp only [toP_psub, toP_psq, toP_pmul, toP_pinv, Affine.slope_of_X_ne hx', Affine.addX,
      toAffine, W_a₁, W_a₂, hl]
    ring
  · simp only [toP_psub, toP_psq, toP_pmul, toP_pinv, Affine.slope_of_X_ne hx', Affine.addX,
      Affine.addY, Affine.negAddY, Affine.negY, toAffine, W_a₁, W_a₂, W_a₃, hl]
    ring

/-- the tangent (doubling) case -/
theorem add_spec_double {x y : Nat} (hp : (G1.aff x y).Valid) :
    ((G1.aff x y).add (.aff x y)).Valid ∧
      pt ((G1.aff x y).add (.aff x y)) = pt (.aff x y) + pt (.aff x y) := by
  have hc := (onCurve_aff_iff x y).mp hp.onCurve
  have hy0 : toP y ≠ 0 := y_ne_zero hc
  have hy0' : y ≠ 0 := by rintro rfl; exact hy0 toP_zero
  have hy : toP y ≠ W.toAffine.negY (toP x) (toP y) := by
    simp only [Affine.negY, toAffine, W_a₁, W_a₃]
    intro h
    have : (2 : Fp) * toP y = 0 := by linear_combination h
    rcases mul_eq_zero.mp this with h | h
    · exact Fp_two_ne_zero h
    · exact hy0 h
  rw [add_aff_eq, if_pos rfl, if_pos ⟨rfl, hy0'⟩, pt_aff hp.onCurve,
    Affine.Point.add_self_of_Y_ne hy]
  have h2y : (2 : Fp) * toP y ≠ 0 := mul_ne_zero Fp_two_ne_zero hy0
  have hl : 3 * (toP x * toP x) * (2 * toP y)⁻¹ =
      (3 * toP x ^ 2) / (toP y - (-toP y)) := by
    field_simp; ring
  refine valid_of_nonsingular (psub_lt _ _) (psub_lt _ _) _ ?_ ?_
  · simp only [toP_psub, toP_psq, toP_pmul, toP_pinv, toP_two, toP_three,
      Affine.slope_of_Y_ne rfl hy, Affine.addX, Affine.negY, toAffine, W_a₁, W_a₂, W_a₃, W_a₄, hl]
    ring
  · simp only [toP_psub, toP_psq, toP_pmul, toP_pinv, toP_two, toP_three,
      Affine.slope_of_Y_ne rfl hy, Affine.addX, Affine.addY, Affine.negAddY, Affine.negY,
      toAffine, W_a₁, W_a₂, W_a₃, W_a₄, hl]
    ring

/-- the model's affine addition is the group law (all branches), and it preserves validity -/
theorem add_spec {p q : G1} (hp : p.Valid) (hq : q.Valid) :
    (p.add q).Valid ∧ pt (p.add q) = pt p + pt q := by
  cases p with
  | inf =>
    have : G1.add .inf q = q := by cases q <;> rfl
    rw [this, pt_inf, zero_add]; exact ⟨hq, rfl⟩
  | aff x1 y1 =>
    cases q with
    | inf =>
      have : G1.add (.aff x1 y1) .inf = .aff x1 y1 := rfl
      rw [this, pt_inf, add_zero]; exact ⟨hp, rfl⟩
    | aff x2 y2 =>
      by_cases hx : x1 = x2
      · subst hx
        by_cases hy : y1 = y2
        · subst hy; exact add_spec_double hp
        · -- opposite points
          have hc1 := (onCurve_aff_iff x1 y1).mp hp.onCurve
          have hc2 := (onCurve_aff_iff x1 y2).mp hq.onCurve
          have hne : toP y1 ≠ toP y2 := fun h => hy ((toP_inj_of_lt hp.2.1 hq.2.1).mp h)
          have hneg : toP y1 = W.toAffine.negY (toP x1) (toP y2) := by
            simp only [Affine.negY, toAffine, W_a₁, W_a₃]
            rcases y_eq_or_neg hc1 hc2 with h | h
            · exact absurd h hne
            · rw [h]; ring
          rw [add_aff_eq, if_pos rfl, if_neg (fun h => hy h.1), pt_aff hp.onCurve, pt_aff hq.onCurve,
            Affine.Point.add_of_Y_eq rfl hneg]
          exact ⟨trivial, rfl⟩
      · exact add_spec_chord hp hq hx

theorem add_valid {p q : G1} (hp : p.Valid) (hq : q.Valid) : (p.add q).Valid := (add_spec hp hq).1
theorem pt_add {p q : G1} (hp : p.Valid) (hq : q.Valid) : pt (p.add q) = pt p + pt q :=
  (add_spec hp hq).2
theorem neg_valid {p : G1} (hp : p.Valid) : p.neg.Valid := (neg_spec hp).1
theorem pt_neg {p : G1} (hp : p.Valid) : pt p.neg = - pt p := (neg_spec hp).2

end G1

end Plonk
