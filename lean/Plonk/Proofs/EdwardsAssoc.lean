/-
  Associativity of the twisted Edwards addition law on JubJub curve points, PROVED (not assumed):
  the two polynomial identities behind it lie in the ideal of the three curve equations
  (cofactors found with sympy), and completeness (`add_complete`) makes all six denominators
  non-zero.  Consequently associativity is NOT part of the hypothesis structure
  `JubjubGroupFacts` (see `EdwardsGroup.lean`); only the group *order* remains a hypothesis.
-/
import Plonk.Proofs.Edwards

namespace Plonk
open Plonk

/-- cross-multiplied `X`-coordinate of `(P+Q)+R = P+(Q+R)`, in the ideal of the curve equations -/
theorem assoc_poly_X {x1 y1 x2 y2 x3 y3 : F}
    (h1 : OnCurveF x1 y1) (h2 : OnCurveF x2 y2) (h3 : OnCurveF x3 y3) :
    ((x1 * y2 + y1 * x2) * (1 - dF * x1 * x2 * y1 * y2) * y3 + (y1 * y2 + x1 * x2) * (1 + dF * x1 * x2 * y1 * y2) * x3)
      * ((1 + dF * x2 * x3 * y2 * y3) * (1 - dF * x2 * x3 * y2 * y3) + dF * x1 * y1 * (x2 * y3 + y2 * x3) * (y2 * y3 + x2 * x3))
    = (x1 * (y2 * y3 + x2 * x3) * (1 + dF * x2 * x3 * y2 * y3) + y1 * (x2 * y3 + y2 * x3) * (1 - dF * x2 * x3 * y2 * y3))
      * ((1 + dF * x1 * x2 * y1 * y2) * (1 - dF * x1 * x2 * y1 * y2) + dF * (x1 * y2 + y1 * x2) * (y1 * y2 + x1 * x2) * x3 * y3) := by
  unfold OnCurveF at h1 h2 h3
  linear_combination
    (-dF^2*x1*x2^4*x3^2*y2^3*y3 - dF^2*x1*x2^3*x3*y2^4*y3^2 + dF^2*x2^4*x3*y1*y2^3*y3^2 +
      dF^2*x2^3*x3^2*y1*y2^4*y3 - dF*x1*x2^4*x3^2*y2*y3 - dF*x1*x2^3*x3^3*y2^2 -
      dF*x1*x2^3*x3*y2^2 + dF*x1*x2^2*y2^3*y3^3 - dF*x1*x2^2*y2^3*y3 + dF*x1*x2*x3*y2^4*y3^2 +
      dF*x2^4*x3*y1*y2*y3^2 + dF*x2^3*y1*y2^2*y3^3 - dF*x2^3*y1*y2^2*y3 - dF*x2^2*x3^3*y1*y2^3 -
      dF*x2^2*x3*y1*y2^3 - dF*x2*x3^2*y1*y2^4*y3) * h1
    + (dF^2*x1^2*x2^2*x3^3*y1*y2*y3^2 - dF^2*x1^2*x2*x3^2*y1*y2^2*y3^3 -
      dF^2*x1*x2^2*x3^2*y1^2*y2*y3^3 + dF^2*x1*x2*x3^3*y1^2*y2^2*y3^2 + dF*x1^3*x2^2*x3^2*y2*y3
      + dF*x1^3*x2*x3^3*y3^2 + dF*x1^3*x2*x3*y2^2*y3^2 + dF*x1^3*x3^2*y2*y3^3 -
      dF*x1^2*x2^2*x3*y1*y2*y3^2 - dF*x1^2*x2*x3^2*y1*y2^2*y3 + dF*x1^2*x2*x3^2*y1*y3^3 +
      dF*x1^2*x3^3*y1*y2*y3^2 - dF*x1*x2^2*x3^2*y1^2*y2*y3 + dF*x1*x2^2*x3^2*y2*y3 -
      dF*x1*x2*x3^3*y1^2*y3^2 + dF*x1*x2*x3^3*y3^2 - dF*x1*x2*x3*y1^2*y2^2*y3^2 +
      dF*x1*x2*x3*y2^2*y3^2 - dF*x1*x3^2*y1^2*y2*y3^3 + dF*x1*x3^2*y2*y3^3 +
      dF*x2^2*x3*y1^3*y2*y3^2 - dF*x2^2*x3*y1*y2*y3^2 + dF*x2*x3^2*y1^3*y2^2*y3 -
      dF*x2*x3^2*y1^3*y3^3 - dF*x2*x3^2*y1*y2^2*y3 + dF*x2*x3^2*y1*y3^3 - dF*x3^3*y1^3*y2*y3^2 +
      dF*x3^3*y1*y2*y3^2 + x1^3*x2*x3^3 - x1^3*x2*x3*y3^2 + x1^3*x2*x3 + x1^3*x3^2*y2*y3 -
      x1^3*y2*y3^3 + x1^3*y2*y3 + x1^2*x2*x3^2*y1*y3 - x1^2*x2*y1*y3^3 + x1^2*x2*y1*y3 +
      x1^2*x3^3*y1*y2 - x1^2*x3*y1*y2*y3^2 + x1^2*x3*y1*y2 - x1*x2*x3^3*y1^2 + x1*x2*x3^3 +
      x1*x2*x3*y1^2*y3^2 - x1*x2*x3*y1^2 - x1*x2*x3*y3^2 + x1*x2*x3 - x1*x3^2*y1^2*y2*y3 +
      x1*x3^2*y2*y3 + x1*y1^2*y2*y3^3 - x1*y1^2*y2*y3 - x1*y2*y3^3 + x1*y2*y3 - x2*x3^2*y1^3*y3
      + x2*x3^2*y1*y3 + x2*y1^3*y3^3 - x2*y1^3*y3 - x2*y1*y3^3 + x2*y1*y3 - x3^3*y1^3*y2 +
      x3^3*y1*y2 + x3*y1^3*y2*y3^2 - x3*y1^3*y2 - x3*y1*y2*y3^2 + x3*y1*y2) * h2
    + (-dF*x1^2*x2^2*x3*y1*y2 + dF*x1^2*x2*y1*y2^2*y3 + dF*x1*x2^2*y1^2*y2*y3 -
      dF*x1*x2*x3*y1^2*y2^2 - x1^3*x2^3*x3 - x1^3*x2^2*y2*y3 + x1^3*x2*x3*y2^2 - x1^3*x2*x3 +
      x1^3*y2^3*y3 - x1^3*y2*y3 - x1^2*x2^3*y1*y3 - x1^2*x2^2*x3*y1*y2 + x1^2*x2*y1*y2^2*y3 -
      x1^2*x2*y1*y3 + x1^2*x3*y1*y2^3 - x1^2*x3*y1*y2 + x1*x2^3*x3*y1^2 - x1*x2^3*x3 +
      x1*x2^2*y1^2*y2*y3 - x1*x2^2*y2*y3 - x1*x2*x3*y1^2*y2^2 + x1*x2*x3*y1^2 + x1*x2*x3*y2^2 -
      x1*x2*x3 - x1*y1^2*y2^3*y3 + x1*y1^2*y2*y3 + x1*y2^3*y3 - x1*y2*y3 + x2^3*y1^3*y3 -
      x2^3*y1*y3 + x2^2*x3*y1^3*y2 - x2^2*x3*y1*y2 - x2*y1^3*y2^2*y3 + x2*y1^3*y3 +
      x2*y1*y2^2*y3 - x2*y1*y3 - x3*y1^3*y2^3 + x3*y1^3*y2 + x3*y1*y2^3 - x3*y1*y2) * h3

/-- cross-multiplied `Y`-coordinate of `(P+Q)+R = P+(Q+R)`, in the ideal of the curve equations -/
theorem assoc_poly_Y {x1 y1 x2 y2 x3 y3 : F}
    (h1 : OnCurveF x1 y1) (h2 : OnCurveF x2 y2) (h3 : OnCurveF x3 y3) :
    ((y1 * y2 + x1 * x2) * (1 + dF * x1 * x2 * y1 * y2) * y3 + (x1 * y2 + y1 * x2) * (1 - dF * x1 * x2 * y1 * y2) * x3)
      * ((1 + dF * x2 * x3 * y2 * y3) * (1 - dF * x2 * x3 * y2 * y3) - dF * x1 * y1 * (x2 * y3 + y2 * x3) * (y2 * y3 + x2 * x3))
    = (y1 * (y2 * y3 + x2 * x3) * (1 + dF * x2 * x3 * y2 * y3) + x1 * (x2 * y3 + y2 * x3) * (1 - dF * x2 * x3 * y2 * y3))
      * ((1 + dF * x1 * x2 * y1 * y2) * (1 - dF * x1 * x2 * y1 * y2) - dF * (x1 * y2 + y1 * x2) * (y1 * y2 + x1 * x2) * x3 * y3) := by
  unfold OnCurveF at h1 h2 h3
  linear_combination
    (dF^2*x1*x2^4*x3*y2^3*y3^2 + dF^2*x1*x2^3*x3^2*y2^4*y3 - dF^2*x2^4*x3^2*y1*y2^3*y3 -
      dF^2*x2^3*x3*y1*y2^4*y3^2 + dF*x1*x2^4*x3*y2*y3^2 + dF*x1*x2^3*y2^2*y3^3 -
      dF*x1*x2^3*y2^2*y3 - dF*x1*x2^2*x3^3*y2^3 - dF*x1*x2^2*x3*y2^3 - dF*x1*x2*x3^2*y2^4*y3 -
      dF*x2^4*x3^2*y1*y2*y3 - dF*x2^3*x3^3*y1*y2^2 - dF*x2^3*x3*y1*y2^2 + dF*x2^2*y1*y2^3*y3^3 -
      dF*x2^2*y1*y2^3*y3 + dF*x2*x3*y1*y2^4*y3^2) * h1
    + (dF^2*x1^2*x2^2*x3^2*y1*y2*y3^3 - dF^2*x1^2*x2*x3^3*y1*y2^2*y3^2 -
      dF^2*x1*x2^2*x3^3*y1^2*y2*y3^2 + dF^2*x1*x2*x3^2*y1^2*y2^2*y3^3 - dF*x1^3*x2^2*x3*y2*y3^2
      - dF*x1^3*x2*x3^2*y2^2*y3 + dF*x1^3*x2*x3^2*y3^3 + dF*x1^3*x3^3*y2*y3^2 +
      dF*x1^2*x2^2*x3^2*y1*y2*y3 + dF*x1^2*x2*x3^3*y1*y3^2 + dF*x1^2*x2*x3*y1*y2^2*y3^2 +
      dF*x1^2*x3^2*y1*y2*y3^3 + dF*x1*x2^2*x3*y1^2*y2*y3^2 - dF*x1*x2^2*x3*y2*y3^2 +
      dF*x1*x2*x3^2*y1^2*y2^2*y3 - dF*x1*x2*x3^2*y1^2*y3^3 - dF*x1*x2*x3^2*y2^2*y3 +
      dF*x1*x2*x3^2*y3^3 - dF*x1*x3^3*y1^2*y2*y3^2 + dF*x1*x3^3*y2*y3^2 -
      dF*x2^2*x3^2*y1^3*y2*y3 + dF*x2^2*x3^2*y1*y2*y3 - dF*x2*x3^3*y1^3*y3^2 +
      dF*x2*x3^3*y1*y3^2 - dF*x2*x3*y1^3*y2^2*y3^2 + dF*x2*x3*y1*y2^2*y3^2 -
      dF*x3^2*y1^3*y2*y3^3 + dF*x3^2*y1*y2*y3^3 + x1^3*x2*x3^2*y3 - x1^3*x2*y3^3 + x1^3*x2*y3 +
      x1^3*x3^3*y2 - x1^3*x3*y2*y3^2 + x1^3*x3*y2 + x1^2*x2*x3^3*y1 - x1^2*x2*x3*y1*y3^2 +
      x1^2*x2*x3*y1 + x1^2*x3^2*y1*y2*y3 - x1^2*y1*y2*y3^3 + x1^2*y1*y2*y3 - x1*x2*x3^2*y1^2*y3
      + x1*x2*x3^2*y3 + x1*x2*y1^2*y3^3 - x1*x2*y1^2*y3 - x1*x2*y3^3 + x1*x2*y3 -
      x1*x3^3*y1^2*y2 + x1*x3^3*y2 + x1*x3*y1^2*y2*y3^2 - x1*x3*y1^2*y2 - x1*x3*y2*y3^2 +
      x1*x3*y2 - x2*x3^3*y1^3 + x2*x3^3*y1 + x2*x3*y1^3*y3^2 - x2*x3*y1^3 - x2*x3*y1*y3^2 +
      x2*x3*y1 - x3^2*y1^3*y2*y3 + x3^2*y1*y2*y3 + y1^3*y2*y3^3 - y1^3*y2*y3 - y1*y2*y3^3 +
      y1*y2*y3) * h2
    + (-dF*x1^2*x2^2*y1*y2*y3 + dF*x1^2*x2*x3*y1*y2^2 + dF*x1*x2^2*x3*y1^2*y2 -
      dF*x1*x2*y1^2*y2^2*y3 - x1^3*x2^3*y3 - x1^3*x2^2*x3*y2 + x1^3*x2*y2^2*y3 - x1^3*x2*y3 +
      x1^3*x3*y2^3 - x1^3*x3*y2 - x1^2*x2^3*x3*y1 - x1^2*x2^2*y1*y2*y3 + x1^2*x2*x3*y1*y2^2 -
      x1^2*x2*x3*y1 + x1^2*y1*y2^3*y3 - x1^2*y1*y2*y3 + x1*x2^3*y1^2*y3 - x1*x2^3*y3 +
      x1*x2^2*x3*y1^2*y2 - x1*x2^2*x3*y2 - x1*x2*y1^2*y2^2*y3 + x1*x2*y1^2*y3 + x1*x2*y2^2*y3 -
      x1*x2*y3 - x1*x3*y1^2*y2^3 + x1*x3*y1^2*y2 + x1*x3*y2^3 - x1*x3*y2 + x2^3*x3*y1^3 -
      x2^3*x3*y1 + x2^2*y1^3*y2*y3 - x2^2*y1*y2*y3 - x2*x3*y1^3*y2^2 + x2*x3*y1^3 +
      x2*x3*y1*y2^2 - x2*x3*y1 - y1^3*y2^3*y3 + y1^3*y2*y3 + y1*y2^3*y3 - y1*y2*y3) * h3

/-- normalising a quotient of two fractions with common denominator `A·B` -/
theorem quot_norm {A B num den N D : F} (hA : A ≠ 0) (hB : B ≠ 0)
    (hn : num = N / (A * B)) (hd : den = D / (A * B)) (hden : den ≠ 0) :
    num / den = N / D ∧ D ≠ 0 := by
  have hAB : A * B ≠ 0 := mul_ne_zero hA hB
  have hD : D ≠ 0 := by
    rintro rfl; apply hden; rw [hd]; simp
  refine ⟨?_, hD⟩
  rw [hn, hd, div_div_div_cancel_right₀ hAB]

theorem norm_num_L {A B X Y u v : F} (hA : A ≠ 0) (hB : B ≠ 0) :
    X / A * v + Y / B * u = (X * B * v + Y * A * u) / (A * B) := by field_simp

theorem norm_num_L' {A B X Y u v : F} (hA : A ≠ 0) (hB : B ≠ 0) :
    Y / B * v + X / A * u = (Y * A * v + X * B * u) / (A * B) := by field_simp

theorem norm_num_R {A B X Y u v : F} (hA : A ≠ 0) (hB : B ≠ 0) :
    u * (Y / B) + v * (X / A) = (u * Y * A + v * X * B) / (A * B) := by field_simp

theorem norm_den_L_add {A B X Y u v : F} (hA : A ≠ 0) (hB : B ≠ 0) :
    1 + dF * (X / A) * u * (Y / B) * v = (A * B + dF * X * Y * u * v) / (A * B) := by field_simp

theorem norm_den_L_sub {A B X Y u v : F} (hA : A ≠ 0) (hB : B ≠ 0) :
    1 - dF * (X / A) * u * (Y / B) * v = (A * B - dF * X * Y * u * v) / (A * B) := by field_simp

theorem norm_den_R_add {A B X Y u v : F} (hA : A ≠ 0) (hB : B ≠ 0) :
    1 + dF * u * (X / A) * v * (Y / B) = (A * B + dF * u * v * X * Y) / (A * B) := by field_simp

theorem norm_den_R_sub {A B X Y u v : F} (hA : A ≠ 0) (hB : B ≠ 0) :
    1 - dF * u * (X / A) * v * (Y / B) = (A * B - dF * u * v * X * Y) / (A * B) := by field_simp

/-- **Associativity** of the addition law on curve points. -/
theorem addF_assoc {p q r : PtF} (hp : OnCurveP p) (hq : OnCurveP q) (hr : OnCurveP r) :
    addF (addF p q) r = addF p (addF q r) := by
  obtain ⟨x1, y1⟩ := p
  obtain ⟨x2, y2⟩ := q
  obtain ⟨x3, y3⟩ := r
  have hpq := add_on_curveP hp hq
  have hqr := add_on_curveP hq hr
  obtain ⟨hA12, hB12⟩ := add_completeP hp hq
  obtain ⟨hA23, hB23⟩ := add_completeP hq hr
  obtain ⟨hL1, hL2⟩ := add_completeP hpq hr
  obtain ⟨hR1, hR2⟩ := add_completeP hp hqr
  have kX := assoc_poly_X (x1 := x1) (y1 := y1) (x2 := x2) (y2 := y2) (x3 := x3) (y3 := y3)
    hp hq hr
  have kY := assoc_poly_Y (x1 := x1) (y1 := y1) (x2 := x2) (y2 := y2) (x3 := x3) (y3 := y3)
    hp hq hr
  simp only [addF] at hA12 hB12 hA23 hB23 hL1 hL2 hR1 hR2 ⊢
  -- left x
  obtain ⟨eLX, dLX⟩ := quot_norm hA12 hB12
    (num := (x1 * y2 + y1 * x2) / (1 + dF * x1 * x2 * y1 * y2) * y3
          + (y1 * y2 + x1 * x2) / (1 - dF * x1 * x2 * y1 * y2) * x3)
    (N := (x1 * y2 + y1 * x2) * (1 - dF * x1 * x2 * y1 * y2) * y3
          + (y1 * y2 + x1 * x2) * (1 + dF * x1 * x2 * y1 * y2) * x3)
    (D := (1 + dF * x1 * x2 * y1 * y2) * (1 - dF * x1 * x2 * y1 * y2)
          + dF * (x1 * y2 + y1 * x2) * (y1 * y2 + x1 * x2) * x3 * y3)
    (norm_num_L hA12 hB12) (norm_den_L_add hA12 hB12) hL1
  obtain ⟨eLY, dLY⟩ := quot_norm hA12 hB12
    (num := (y1 * y2 + x1 * x2) / (1 - dF * x1 * x2 * y1 * y2) * y3
          + (x1 * y2 + y1 * x2) / (1 + dF * x1 * x2 * y1 * y2) * x3)
    (N := (y1 * y2 + x1 * x2) * (1 + dF * x1 * x2 * y1 * y2) * y3
          + (x1 * y2 + y1 * x2) * (1 - dF * x1 * x2 * y1 * y2) * x3)
    (D := (1 + dF * x1 * x2 * y1 * y2) * (1 - dF * x1 * x2 * y1 * y2)
          - dF * (x1 * y2 + y1 * x2) * (y1 * y2 + x1 * x2) * x3 * y3)
    (norm_num_L' hA12 hB12) (norm_den_L_sub hA12 hB12) hL2
  obtain ⟨eRX, dRX⟩ := quot_norm hA23 hB23
    (num := x1 * ((y2 * y3 + x2 * x3) / (1 - dF * x2 * x3 * y2 * y3))
          + y1 * ((x2 * y3 + y2 * x3) / (1 + dF * x2 * x3 * y2 * y3)))
    (N := x1 * (y2 * y3 + x2 * x3) * (1 + dF * x2 * x3 * y2 * y3)
          + y1 * (x2 * y3 + y2 * x3) * (1 - dF * x2 * x3 * y2 * y3))
    (D := (1 + dF * x2 * x3 * y2 * y3) * (1 - dF * x2 * x3 * y2 * y3)
          + dF * x1 * y1 * (x2 * y3 + y2 * x3) * (y2 * y3 + x2 * x3))
    (norm_num_R hA23 hB23) (norm_den_R_add hA23 hB23) hR1
  obtain ⟨eRY, dRY⟩ := quot_norm hA23 hB23
    (num := y1 * ((y2 * y3 + x2 * x3) / (1 - dF * x2 * x3 * y2 * y3))
          + x1 * ((x2 * y3 + y2 * x3) / (1 + dF * x2 * x3 * y2 * y3)))
    (N := y1 * (y2 * y3 + x2 * x3) * (1 + dF * x2 * x3 * y2 * y3)
          + x1 * (x2 * y3 + y2 * x3) * (1 - dF * x2 * x3 * y2 * y3))
    (D := (1 + dF * x2 * x3 * y2 * y3) * (1 - dF * x2 * x3 * y2 * y3)
          - dF * x1 * y1 * (x2 * y3 + y2 * x3) * (y2 * y3 + x2 * x3))
    (norm_num_R hA23 hB23) (norm_den_R_sub hA23 hB23) hR2
  apply Prod.ext
  · simp only
    rw [eLX, eRX, div_eq_div_iff dLX dRX]
    exact kX
  · simp only
    rw [eLY, eRY, div_eq_div_iff dLY dRY]
    exact kY

end Plonk
