/-
  C02 (soundness): from the conclusion of `soundness_core` (every row of the padded table holds on
  the values read off the wire polynomials, and these values are constant on the wiring classes)
  to the model's own notions of a satisfying witness:

  * `extractW`            a witness assignment `Nat → Nat` read off the wire polynomials;
  * `rowsHoldW_extract`   `lay.rowsHoldW (extractW …) 0 lay.gates.size`;
  * `extractC`            the composer `lay` with the extracted witness values;
  * `sysSat_extract`      `(extractC …).sysSat = true` and `copyViolation lay (extractC …) = none`.

  Forced hypotheses (`LayoutWF`): every wire of the layout is an allocated witness (the Rust code
  asserts this), and the LAST gate row reads no next-row wire (`Gate.plain`): in the polynomial
  world the row after the last gate is a padding row (or row `0`, cyclically) whose wire values are
  fixed points of `σ`, i.e. unconstrained, whereas `rowsHoldW` / `sysSat` read zeros there.
-/
import Plonk.Proofs.SoundnessModel
import Plonk.Proofs.Frame

namespace Plonk.Sound
open Polynomial Plonk Plonk.Quot Plonk.Perm Plonk.Composer

/-- well-formedness of a compiled layout -/
structure LayoutWF (lay : Composer) : Prop where
  alloc : ∀ p : Pos, p.1 < 4 → p.2 < lay.gates.size → wireAt lay p < lay.wit.size
  lastPlain : ∀ i, i + 1 = lay.gates.size → Gate.plain (lay.gateAt i)

open Classical in
/-- the witness assignment read off the wire polynomials: the value at any position wired to `x` -/
noncomputable def extractW (ω : F) (P : ProverPolys F) (lay : Composer) (x : Nat) : Nat :=
  if h : ∃ p : Pos, (p.1 < 4 ∧ p.2 < lay.gates.size) ∧ wireAt lay p = x then
    wireNat ω P (Classical.choose h).1 (Classical.choose h).2
  else 0

theorem extractW_lt (ω : F) (P : ProverPolys F) (lay : Composer) (x : Nat) :
    extractW ω P lay x < R := by
  unfold extractW
  split
  · exact wireNat_lt _ _ _ _
  · exact R_pos

theorem extractW_wire {ω : F} {P : ProverPolys F} {lay : Composer} (hwf : LayoutWF lay)
    (hconst : ∀ p q, SameClass lay p q → wireVal ω P p = wireVal ω P q) (p : Pos) (hp1 : p.1 < 4)
    (hp2 : p.2 < lay.gates.size) : extractW ω P lay (wireAt lay p) = wireNat ω P p.1 p.2 := by
  have hex : ∃ q : Pos, (q.1 < 4 ∧ q.2 < lay.gates.size) ∧ wireAt lay q = wireAt lay p :=
    ⟨p, ⟨hp1, hp2⟩, rfl⟩
  unfold extractW
  rw [dif_pos hex]
  obtain ⟨hq, hw⟩ := Classical.choose_spec hex
  have hs : SameClass lay (Classical.choose hex) p :=
    ⟨hq, ⟨hp1, hp2⟩, hw, hwf.alloc _ hq.1 hq.2⟩
  have := hconst _ _ hs
  unfold wireNat
  exact congrArg ZMod.val this

theorem gateAt_of_lt (lay : Composer) {i : Nat} (hi : i < lay.gates.size) :
    lay.gateAt i = lay.gates[i] := by
  simp [gateAt, Array.getD_eq_getD_getElem?, hi]

theorem gateAt_of_ge (lay : Composer) {i : Nat} (hi : lay.gates.size ≤ i) : lay.gateAt i = {} := by
  simp only [gateAt, Array.getD_eq_getD_getElem?]
  rw [Array.getElem?_eq_none hi]
  rfl

theorem rowValsW_extract {ω : F} {P : ProverPolys F} {lay : Composer} (hwf : LayoutWF lay)
    (hconst : ∀ p q, SameClass lay p q → wireVal ω P p = wireVal ω P q) {i : Nat}
    (hi : i < lay.gates.size) :
    lay.rowValsW (extractW ω P lay) i =
      ⟨wireNat ω P 0 i, wireNat ω P 1 i, wireNat ω P 2 i, wireNat ω P 3 i⟩ := by
  have e (col : Nat) (hc : col < 4) := extractW_wire hwf hconst (col, i) hc hi
  have e0 := e 0 (by omega)
  have e1 := e 1 (by omega)
  have e2 := e 2 (by omega)
  have e3 := e 3 (by omega)
  simp only [wireAt, gateAt_of_lt lay hi] at e0 e1 e2 e3
  unfold rowValsW
  rw [Array.getElem?_eq_getElem hi]
  simp only [e0, e1, e2, e3]

/-- the row check of the default (padding) gate does not look at the wires -/
theorem rowHolds_default (a b c d an bn dn a' b' c' d' an' bn' dn' pi : Nat) :
    rowHolds {} a b c d an bn dn pi = rowHolds {} a' b' c' d' an' bn' dn' pi := by
  rw [Bool.eq_iff_iff, rowHolds_arith {} rfl rfl rfl rfl, rowHolds_arith {} rfl rfl rfl rfl]
  simp [arithF]

/-- **The extracted assignment satisfies every gate row of the layout** (`rowsHoldW`: next row
    `i + 1` of the gate table, zeros past the end). -/
theorem rowsHoldW_extract {ω : F} {P : ProverPolys F} {lay : Composer} {n : Nat}
    (hn : lay.gates.size ≤ n) (hwf : LayoutWF lay)
    (hrows : ∀ i < n, rowOKP ω n lay P i)
    (hconst : ∀ p q, SameClass lay p q → wireVal ω P p = wireVal ω P q) :
    lay.rowsHoldW (extractW ω P lay) 0 lay.gates.size := by
  intro i _ hi
  have h := hrows i (by omega)
  unfold rowOKP at h
  unfold rowHoldsW
  rw [rowValsW_extract hwf hconst hi]
  by_cases hi1 : i + 1 < lay.gates.size
  · rw [rowValsW_extract hwf hconst hi1]
    rw [Nat.mod_eq_of_lt (by omega : i + 1 < n)] at h
    exact h
  · have hp := hwf.lastPlain i (by omega)
    rw [rowHolds_plain_next hp _ _ _ _ _ _ _ (wireNat ω P 0 ((i + 1) % n))
      (wireNat ω P 1 ((i + 1) % n)) (wireNat ω P 3 ((i + 1) % n))]
    exact h

/-! ### as a composer -/

/-- the layout with the extracted witness values -/
noncomputable def extractC (ω : F) (P : ProverPolys F) (lay : Composer) : Composer :=
  { lay with wit := (Array.range lay.wit.size).map (extractW ω P lay) }

theorem extractC_val (ω : F) (P : ProverPolys F) (lay : Composer) {x : Nat} (hx : x < lay.wit.size) :
    (extractC ω P lay).val x = extractW ω P lay x := by
  simp [extractC, val, Array.getD_eq_getD_getElem?, hx]

theorem extractC_gateAt (ω : F) (P : ProverPolys F) (lay : Composer) (i : Nat) :
    (extractC ω P lay).gateAt i = lay.gateAt i := rfl

theorem extractC_piAt (ω : F) (P : ProverPolys F) (lay : Composer) (i : Nat) :
    (extractC ω P lay).piAt i = lay.piAt i := rfl

theorem extractC_paddedSize (ω : F) (P : ProverPolys F) (lay : Composer) :
    (extractC ω P lay).paddedSize = lay.paddedSize := rfl

theorem extractC_rowVals {ω : F} {P : ProverPolys F} {lay : Composer} (hwf : LayoutWF lay)
    (hconst : ∀ p q, SameClass lay p q → wireVal ω P p = wireVal ω P q) {i : Nat}
    (hi : i < lay.gates.size) :
    (extractC ω P lay).rowVals i =
      ⟨wireNat ω P 0 i, wireNat ω P 1 i, wireNat ω P 2 i, wireNat ω P 3 i⟩ := by
  have a (col : Nat) (hc : col < 4) := hwf.alloc (col, i) hc hi
  have a0 := a 0 (by omega)
  have a1 := a 1 (by omega)
  have a2 := a 2 (by omega)
  have a3 := a 3 (by omega)
  simp only [wireAt, gateAt_of_lt lay hi] at a0 a1 a2 a3
  have h := rowValsW_extract hwf hconst hi
  unfold rowValsW at h
  rw [Array.getElem?_eq_getElem hi] at h
  unfold rowVals
  have hg : (extractC ω P lay).gates[i]? = some lay.gates[i] := Array.getElem?_eq_getElem hi
  rw [hg]
  simp only [extractC_val ω P lay a0, extractC_val ω P lay a1, extractC_val ω P lay a2,
    extractC_val ω P lay a3]
  exact h

/-- **The extracted composer satisfies the whole padded system and has no copy violation.** -/
theorem sysSat_extract {ω : F} {P : ProverPolys F} {lay : Composer} (hwf : LayoutWF lay)
    (hrows : ∀ i < lay.paddedSize, rowOKP ω lay.paddedSize lay P i)
    (hsz : lay.gates.size ≤ lay.paddedSize)
    (hconst : ∀ p q, SameClass lay p q → wireVal ω P p = wireVal ω P q) :
    (extractC ω P lay).sysSat = true ∧ copyViolation lay (extractC ω P lay) = none := by
  constructor
  · unfold sysSat
    rw [List.all_eq_true]
    intro i hi
    rw [List.mem_range, extractC_paddedSize] at hi
    have h := hrows i hi
    unfold rowOKP at h
    unfold rowHoldsAt
    dsimp only
    rw [extractC_gateAt, extractC_piAt, extractC_paddedSize]
    by_cases his : i < lay.gates.size
    · rw [extractC_rowVals hwf hconst his]
      by_cases hi1 : i + 1 < lay.gates.size
      · rw [Nat.mod_eq_of_lt (by omega : i + 1 < lay.paddedSize)] at h ⊢
        rw [extractC_rowVals hwf hconst hi1]
        exact h
      · have hp := hwf.lastPlain i (by omega)
        rw [rowHolds_plain_next hp _ _ _ _ _ _ _ (wireNat ω P 0 ((i + 1) % lay.paddedSize))
          (wireNat ω P 1 ((i + 1) % lay.paddedSize)) (wireNat ω P 3 ((i + 1) % lay.paddedSize))]
        exact h
    · rw [gateAt_of_ge lay (by omega : lay.gates.size ≤ i)] at h ⊢
      rw [rowHolds_default _ _ _ _ _ _ _ (wireNat ω P 0 i) (wireNat ω P 1 i) (wireNat ω P 2 i)
        (wireNat ω P 3 i) (wireNat ω P 0 ((i + 1) % lay.paddedSize))
        (wireNat ω P 1 ((i + 1) % lay.paddedSize)) (wireNat ω P 3 ((i + 1) % lay.paddedSize))]
      exact h
  · rw [copyViolation_eq_none_iff]
    intro p q hpq
    have hv (r : Pos) (h1 : r.1 < 4) (h2 : r.2 < lay.gates.size) :
        valAt (extractC ω P lay) r = wireNat ω P r.1 r.2 := by
      unfold valAt
      rw [extractC_rowVals hwf hconst h2]
      obtain ⟨c, i⟩ := r
      have hc : c < 4 := h1
      interval_cases c <;> rfl
    rw [hv p hpq.1.1 hpq.1.2, hv q hpq.2.1.1 hpq.2.1.2]
    unfold wireNat
    exact congrArg ZMod.val (hconst p q hpq)

end Plonk.Sound
