/-
  C19 (FFT half), thread independence: the parallel butterfly (explicit `threads`) computes exactly
  what the serial butterfly chunk computes, for every `threads ≥ 1`; hence `bestFft = serialFft`
  whatever the values of the `Generated.PARALLEL_*` thresholds.
-/
import Plonk.Model.FFT
import Plonk.Proofs.FieldBridge
import Mathlib.Tactic.Ring

namespace Plonk
open List

/-! ### the butterfly loop with its twiddle state -/

/-- loop body of `butterflyRange` -/
def brStep (lo m off wm : Nat) (st : Array Nat × Nat) (j : Nat) : Array Nat × Nat :=
  let (a, w) := st
  let li := lo + off + j
  let ri := lo + m + off + j
  let t := fmul (a.getD ri 0) w
  let l := a.getD li 0
  ((a.setIfInBounds ri (fsub l t)).setIfInBounds li (fadd l t), fmul w wm)

/-- `butterflyRange` together with the final twiddle -/
def brState (a : Array Nat) (lo m off len wm w : Nat) : Array Nat × Nat :=
  (List.range len).foldl (brStep lo m off wm) (a, w)

theorem butterflyRange_eq (a : Array Nat) (lo m off len wm w : Nat) :
    butterflyRange a lo m off len wm w = (brState a lo m off len wm w).1 := rfl

theorem brStep_shift (lo m off wm l1 : Nat) (st : Array Nat × Nat) (j : Nat) :
    brStep lo m off wm st (l1 + j) = brStep lo m (off + l1) wm st j := by
  have e1 : lo + off + (l1 + j) = lo + (off + l1) + j := by omega
  have e2 : lo + m + off + (l1 + j) = lo + m + (off + l1) + j := by omega
  simp only [brStep, e1, e2]

/-- the loop over `l1 + l2` steps is the loop over `l1` steps followed by the loop over `l2` steps
    that starts at offset `off + l1` from the twiddle reached so far -/
theorem brState_add (a : Array Nat) (lo m off l1 l2 wm w : Nat) :
    brState a lo m off (l1 + l2) wm w
      = brState (brState a lo m off l1 wm w).1 lo m (off + l1) l2 wm (brState a lo m off l1 wm w).2 := by
  unfold brState
  rw [List.range_add, List.foldl_append, List.foldl_map]
  simp only [brStep_shift]

theorem brStep_snd (lo m off wm : Nat) (st : Array Nat × Nat) (j : Nat) :
    (brStep lo m off wm st j).2 = fmul st.2 wm := rfl

/-- the twiddle after `len` steps -/
theorem brState_snd (a : Array Nat) (lo m off len wm w : Nat) (hw : w < R) :
    (brState a lo m off len wm w).2 < R ∧
    toF (brState a lo m off len wm w).2 = toF w * toF wm ^ len := by
  induction len with
  | zero => simp [brState, hw]
  | succ len ih =>
    unfold brState at ih ⊢
    rw [List.range_succ, List.foldl_append]
    simp only [List.foldl_cons, List.foldl_nil, brStep_snd]
    refine ⟨fmul_lt _ _, ?_⟩
    rw [toF_fmul, ih.2]; ring

theorem brState_zero (a : Array Nat) (lo m off wm w : Nat) :
    brState a lo m off 0 wm w = (a, w) := rfl

/-! ### the parallel butterfly -/

/-- loop body of `parallelButterflyChunk` with piece length `L` -/
def pbStep (lo m wm L : Nat) (st : Array Nat × Nat) (r : Nat) : Array Nat × Nat :=
  let (a, seed) := st
  let off := r * L
  let len := min L (m - off)
  (butterflyRange a lo m off len wm seed, fmul seed (fpow wm L))

theorem parallelButterflyChunk_eq (a : Array Nat) (lo m wm threads : Nat) :
    parallelButterflyChunk a lo m wm threads
      = ((List.range (divCeil m (divCeil m threads))).foldl
          (pbStep lo m wm (divCeil m threads)) (a, 1 % R)).1 := rfl

theorem one_mod_R_lt : 1 % R < R := Nat.mod_lt _ R_pos

/-- after `c` pieces of length `L`: the serial loop over the first `min (c·L) m` indices, and the
    seed is the canonical representative of `wm^(c·L)` -/
theorem pb_fold (a : Array Nat) (lo m wm L : Nat) (hL : L < 2 ^ 256) (c : Nat) :
    ((List.range c).foldl (pbStep lo m wm L) (a, 1 % R)).1
        = butterflyRange a lo m 0 (min (c * L) m) wm (1 % R) ∧
    ((List.range c).foldl (pbStep lo m wm L) (a, 1 % R)).2 < R ∧
    toF ((List.range c).foldl (pbStep lo m wm L) (a, 1 % R)).2 = toF wm ^ (c * L) := by
  induction c with
  | zero =>
    refine ⟨?_, one_mod_R_lt, ?_⟩
    · simp [butterflyRange_eq, brState_zero]
    · simp
  | succ c ih =>
    obtain ⟨ih1, ih2, ih3⟩ := ih
    rw [List.range_succ, List.foldl_append]
    simp only [List.foldl_cons, List.foldl_nil]
    generalize ((List.range c).foldl (pbStep lo m wm L) (a, 1 % R)) = st at ih1 ih2 ih3 ⊢
    obtain ⟨b, seed⟩ := st
    simp only at ih1 ih2 ih3
    simp only [pbStep]
    refine ⟨?_, fmul_lt _ _, ?_⟩
    · by_cases hc : c * L < m
      · have e1 : min (c * L) m = c * L := by omega
        have e2 : min ((c + 1) * L) m = c * L + min L (m - c * L) := by
          rw [Nat.add_mul, Nat.one_mul]; omega
        rw [e2, butterflyRange_eq, butterflyRange_eq, brState_add, ih1, e1, butterflyRange_eq,
          Nat.zero_add]
        congr 2
        have hs := brState_snd a lo m 0 (c * L) wm (1 % R) one_mod_R_lt
        apply (toF_inj_of_lt ih2 hs.1).mp
        rw [ih3, hs.2]; simp
      · have e1 : min (c * L) m = m := by omega
        have e2 : min ((c + 1) * L) m = m := by
          rw [Nat.add_mul, Nat.one_mul]; omega
        have e3 : min L (m - c * L) = 0 := by omega
        rw [e2, e3, ih1, e1]
        rfl
    · rw [toF_fmul, ih3, toF_fpow _ _ hL]
      rw [Nat.add_mul, Nat.one_mul, pow_add]

theorem divCeil_mul_ge (m L : Nat) (hL : 0 < L) : m ≤ divCeil m L * L := by
  unfold divCeil
  have h1 := Nat.div_add_mod (m + L - 1) L
  have h2 := Nat.mod_lt (m + L - 1) hL
  have : L * ((m + L - 1) / L) = (m + L - 1) / L * L := Nat.mul_comm _ _
  omega

theorem divCeil_pos (m t : Nat) (hm : 0 < m) (ht : 0 < t) : 0 < divCeil m t := by
  unfold divCeil
  apply Nat.div_pos <;> omega

theorem divCeil_le (m t : Nat) (ht : 0 < t) : divCeil m t ≤ m := by
  unfold divCeil
  rcases Nat.eq_zero_or_pos m with h | h
  · subst h
    rw [Nat.zero_add]; simp
    omega
  · apply Nat.div_le_of_le_mul
    have : m + t - 1 ≤ t * m := by
      have : t * m ≥ t + m - 1 := by
        rcases t with _ | t
        · omega
        · rcases m with _ | m
          · omega
          · rw [Nat.succ_mul, Nat.mul_succ]; omega
      omega
    exact this

/-- **thread independence of one chunk**: for every `threads ≥ 1` the parallel butterfly equals the
    serial butterfly chunk (no bounds hypothesis is needed; `m < 2^256` is the range in which the
    model's `fpow` is exponentiation) -/
theorem parallelButterflyChunk_eq_butterflyChunk (a : Array Nat) (lo m wm threads : Nat)
    (ht : 1 ≤ threads) (hm : m < 2 ^ 256) :
    parallelButterflyChunk a lo m wm threads = butterflyChunk a lo m wm := by
  rw [parallelButterflyChunk_eq]
  unfold butterflyChunk
  rcases Nat.eq_zero_or_pos m with h0 | hpos
  · subst h0
    have hL : divCeil 0 threads = 0 := Nat.le_zero.mp (divCeil_le 0 threads ht)
    rw [hL]
    have : divCeil 0 0 = 0 := by decide
    rw [this]; rfl
  · have hLpos := divCeil_pos m threads hpos ht
    have hLle := divCeil_le m threads ht
    have h := (pb_fold a lo m wm (divCeil m threads) (by omega)
      (divCeil m (divCeil m threads))).1
    rw [h]
    have := divCeil_mul_ge m (divCeil m threads) hLpos
    rw [Nat.min_eq_right this]

/-! ### `bestFft = serialFft` -/

/-- one stage of `serialFft` -/
def serialStage (n omega : Nat) (st : Array Nat × Nat) : Array Nat × Nat :=
  let (a, m) := st
  let wm := fpow omega (n / (2 * m))
  let a := (List.range (n / (2 * m))).foldl (fun a c => butterflyChunk a (c * 2 * m) m wm) a
  (a, 2 * m)

/-- one stage of `bestFft` -/
def bestStage (n omega threads : Nat) (st : Array Nat × Nat) : Array Nat × Nat :=
  let (a, m) := st
  let wm := fpow omega (n / (2 * m))
  let chunkCount := n / (2 * m)
  let a :=
    if chunkCount ≥ Generated.PARALLEL_FFT_MIN_CHUNKS then
      (List.range chunkCount).foldl (fun a c => butterflyChunk a (c * 2 * m) m wm) a
    else if n ≥ Generated.PARALLEL_FINAL_FFT_MIN_LEN ∧ threads ≥ Generated.PARALLEL_FINAL_FFT_MIN_THREADS then
      (List.range chunkCount).foldl (fun a c => parallelButterflyChunk a (c * 2 * m) m wm threads) a
    else
      (List.range chunkCount).foldl (fun a c => butterflyChunk a (c * 2 * m) m wm) a
  (a, 2 * m)

theorem serialFft_eq_stages (a : Array Nat) (omega logN : Nat) :
    serialFft a omega logN
      = ((List.range logN).foldl (fun st _ => serialStage a.size omega st)
          (bitreversePermute a logN, 1)).1 := rfl

theorem bestFft_eq_stages (a : Array Nat) (omega logN threads : Nat) :
    bestFft a omega logN threads
      = if a.size < Generated.PARALLEL_FFT_MIN_LEN then serialFft a omega logN else
        ((List.range logN).foldl (fun st _ => bestStage a.size omega threads st)
          (bitreversePermute a logN, 1)).1 := rfl

/-- all three arms of the switch inside a stage agree -/
theorem bestStage_eq_serialStage (n omega threads : Nat) (ht : 1 ≤ threads)
    (st : Array Nat × Nat) (hm : st.2 < 2 ^ 256) :
    bestStage n omega threads st = serialStage n omega st := by
  obtain ⟨a, m⟩ := st
  simp only at hm
  have hp : (fun (a : Array Nat) c => parallelButterflyChunk a (c * 2 * m) m
      (fpow omega (n / (2 * m))) threads)
      = (fun a c => butterflyChunk a (c * 2 * m) m (fpow omega (n / (2 * m)))) := by
    funext a c
    exact parallelButterflyChunk_eq_butterflyChunk _ _ _ _ _ ht hm
  simp only [bestStage, serialStage, hp, ite_self]

theorem serialStage_snd (n omega : Nat) (st : Array Nat × Nat) :
    (serialStage n omega st).2 = 2 * st.2 := rfl

theorem stages_eq (n omega threads : Nat) (ht : 1 ≤ threads) (l : List Nat) :
    ∀ st : Array Nat × Nat, st.2 * 2 ^ l.length ≤ 2 ^ 256 →
      l.foldl (fun st _ => bestStage n omega threads st) st
        = l.foldl (fun st _ => serialStage n omega st) st := by
  induction l with
  | nil => intro st _; rfl
  | cons x l ih =>
    intro st hst
    simp only [List.foldl_cons]
    rw [List.length_cons, Nat.pow_succ] at hst
    have hlt : st.2 < 2 ^ 256 := by
      have : 0 < 2 ^ l.length := Nat.pow_pos (by omega)
      have : st.2 * 2 ≤ st.2 * (2 ^ l.length * 2) := by
        apply Nat.mul_le_mul_left; omega
      omega
    rw [bestStage_eq_serialStage n omega threads ht st hlt]
    apply ih
    rw [serialStage_snd]
    calc 2 * st.2 * 2 ^ l.length = st.2 * (2 ^ l.length * 2) := by ring
      _ ≤ 2 ^ 256 := hst

/-- **thread independence**: `bestFft` equals `serialFft` for every thread count `≥ 1`, whatever the
    values of the `Generated.PARALLEL_*` thresholds (they are never unfolded). `logN ≤ 256` is the
    range in which the model's `fpow` is exponentiation; no relation between `a.size` and `logN`
    is needed. -/
theorem bestFft_eq_serialFft (a : Array Nat) (omega logN threads : Nat) (ht : 1 ≤ threads)
    (hlog : logN ≤ 256) : bestFft a omega logN threads = serialFft a omega logN := by
  rw [bestFft_eq_stages]
  split
  · rfl
  · rw [serialFft_eq_stages, stages_eq a.size omega threads ht]
    simp only [List.length_range, Nat.one_mul]
    exact Nat.pow_le_pow_right (by omega) hlog

end Plonk
