/-
  `EvaluationDomain::new` produces a well-formed domain: `Domain.new? k = some d → DomainOK d`.
-/
import Plonk.Proofs.DomainPi
import Mathlib.GroupTheory.OrderOfElement

namespace Plonk.PolyC19

theorem nextPow2'_go_spec (n f p : Nat) : ∃ j, j ≤ f ∧ nextPow2'.go n f p = p * 2 ^ j := by
  induction f generalizing p with
  | zero => exact ⟨0, le_refl _, by simp [nextPow2'.go]⟩
  | succ f ih =>
    rw [nextPow2'.go]
    split
    · exact ⟨0, Nat.zero_le _, by simp⟩
    · obtain ⟨j, hj, e⟩ := ih (2 * p)
      exact ⟨j + 1, by omega, by rw [e, pow_succ]; ring⟩

theorem nextPow2'_spec (n : Nat) : ∃ j, j ≤ 64 ∧ nextPow2' n = 2 ^ j := by
  obtain ⟨j, hj, e⟩ := nextPow2'_go_spec n 64 1
  exact ⟨j, hj, by rw [nextPow2', e, one_mul]⟩

theorem log2_go_pow (f j k : Nat) (hj : j ≤ f) : log2.go f (2 ^ j) k = k + j := by
  induction f generalizing j k with
  | zero =>
    have : j = 0 := by omega
    subst this; simp [log2.go]
  | succ f ih =>
    rw [log2.go]
    cases j with
    | zero => simp
    | succ j =>
      have h2 : ¬ (2 ^ (j + 1) ≤ 1) := by
        have : 0 < 2 ^ j := Nat.two_pow_pos j
        rw [pow_succ]; omega
      rw [if_neg h2]
      have : 2 ^ (j + 1) / 2 = 2 ^ j := by rw [pow_succ]; simp
      rw [this, ih j (k + 1) (by omega)]
      omega

theorem log2_pow (j : Nat) (hj : j ≤ 64) : log2 (2 ^ j) = j := by
  rw [log2, log2_go_pow 64 j 0 hj, zero_add]

theorem foldl_range_const {α : Type} (f : α → α) (a : α) (n : Nat) :
    (List.range n).foldl (fun g _ => f g) a = f^[n] a := by
  induction n generalizing a with
  | zero => rfl
  | succ n ih =>
    rw [List.range_succ_eq_map, List.foldl_cons, List.foldl_map, ih, Function.iterate_succ_apply]

theorem toF_iterate_fsq (a m : Nat) : toF (fsq^[m] a) = toF a ^ (2 ^ m) := by
  induction m generalizing a with
  | zero => simp
  | succ m ih =>
    rw [Function.iterate_succ_apply, ih, toF_fsq, pow_succ, pow_mul, pow_two, mul_pow]

theorem root_pow_32 : fpow ROOT_OF_UNITY (2 ^ 32) = 1 := by decide +kernel
theorem root_pow_31 : fpow ROOT_OF_UNITY (2 ^ 31) = R - 1 := by decide +kernel

/-- `ROOT_OF_UNITY` is a primitive `2^32`-th root of unity -/
theorem root_primitive : IsPrimitiveRoot (toF ROOT_OF_UNITY) (2 ^ 32) := by
  have h32 : toF ROOT_OF_UNITY ^ 2 ^ (31 + 1) = 1 := by
    have := congrArg toF root_pow_32
    rwa [toF_fpow _ _ (by norm_num), toF_one] at this
  have h31 : ¬ toF ROOT_OF_UNITY ^ 2 ^ 31 = 1 := by
    have := congrArg toF root_pow_31
    rw [toF_fpow _ _ (by norm_num)] at this
    rw [this, ← toF_one, toF_inj_of_lt (by have := R_gt_one; omega) R_gt_one]
    decide +kernel
  have := orderOf_eq_prime_pow h31 h32
  exact IsPrimitiveRoot.iff_orderOf.mpr this

/-- `EvaluationDomain::new` yields a well-formed domain -/
theorem domainOK_of_new? (k : Nat) (d : Domain) (h : Domain.new? k = some d) : DomainOK d := by
  unfold Domain.new? at h
  obtain ⟨j, hj, hsz⟩ := nextPow2'_spec k
  simp only [hsz, log2_pow j hj, TWO_ADACITY] at h
  split at h
  · exact absurd h (by simp)
  · next hlt =>
    have hlt : j < 32 := by omega
    injection h with h
    subst h
    have hgen : toF ((List.range (32 - j)).foldl (fun g _ => fsq g) ROOT_OF_UNITY) =
        toF ROOT_OF_UNITY ^ 2 ^ (32 - j) := by
      rw [foldl_range_const, toF_iterate_fsq]
    refine ⟨Nat.two_pow_pos j, ?_, ?_, ?_⟩
    · dsimp only
      rw [hgen]
      apply IsPrimitiveRoot.pow (n := 2 ^ 32) (Nat.two_pow_pos 32) root_primitive
      rw [← pow_add]; congr 1; omega
    · dsimp only
      rw [toF_finv, toF_mod]; rfl
    · dsimp only
      exact toF_finv _

end Plonk.PolyC19
