/-
  Property C07, part 3 — error-aware composition and whole programs.

  A circuit description (`Circuit::circuit`) is a sequence of component calls chained with `?`:
  it stops at the first error.  `ExceptT CErr CM` is that monad.  `ShapeEqE m₁ m₂` says: run on
  two states of the same shape, *if both succeed* they return the same indices and leave states
  of the same shape.  (Whether an entry point fails may depend on values — `append_point` on a
  `Z = 0` point, `component_mul_generator` on a scalar `≥ r_J` — see the `error_iff` lemmas; a
  failing run does not produce a circuit at all.)
-/
import Plonk.Proofs.ShapePoint

namespace Plonk
open Plonk Plonk.Composer

/-- the circuit-synthesis monad: composer state plus early exit with a `CErr` -/
abbrev CME := ExceptT CErr CM

/-- if both runs succeed, same result (indices) and same shape -/
def ShapeEqE {α : Type} (m₁ m₂ : CME α) : Prop :=
  ∀ c₁ c₂, SameShape c₁ c₂ → ∀ a₁ a₂,
    (m₁.run.run c₁).1 = .ok a₁ → (m₂.run.run c₂).1 = .ok a₂ →
      a₁ = a₂ ∧ SameShape (m₁.run.run c₁).2 (m₂.run.run c₂).2

namespace ShapeEqE
variable {α β : Type}

theorem pure (a : α) : ShapeEqE (Pure.pure a : CME α) (Pure.pure a) := by
  intro c₁ c₂ h a₁ a₂ h₁ h₂
  have e₁ : a = a₁ := by injection h₁
  have e₂ : a = a₂ := by injection h₂
  exact ⟨e₁ ▸ e₂ ▸ rfl, h⟩

/-- a total component (no error path) used inside a program -/
theorem lift {m₁ m₂ : CM α} (h : ShapeEq m₁ m₂) :
    ShapeEqE (liftM m₁ : CME α) (liftM m₂ : CME α) := by
  intro c₁ c₂ hc a₁ a₂ h₁ h₂
  obtain ⟨hr, hs⟩ := h c₁ c₂ hc
  have e₁ : (m₁.run c₁).1 = a₁ := by injection h₁
  have e₂ : (m₂.run c₂).1 = a₂ := by injection h₂
  exact ⟨e₁ ▸ e₂ ▸ hr, hs⟩

/-- an entry point returning `Except` is a program step as it stands -/
theorem mk {m₁ m₂ : CM (Except CErr α)}
    (h : ∀ c₁ c₂, SameShape c₁ c₂ → ∀ a₁ a₂, (m₁.run c₁).1 = .ok a₁ → (m₂.run c₂).1 = .ok a₂ →
      a₁ = a₂ ∧ SameShape (m₁.run c₁).2 (m₂.run c₂).2) :
    ShapeEqE (ExceptT.mk m₁) (ExceptT.mk m₂) := h

theorem bind_run (m : CME α) (k : α → CME β) (c : Composer) :
    (m >>= k).run.run c =
      match (m.run.run c).1 with
      | .ok a => (k a).run.run (m.run.run c).2
      | .error e => (.error e, (m.run.run c).2) := by
  show (match (m.run.run c) with | (r, s) => (ExceptT.bindCont k r).run s) = _
  cases h : (m.run.run c).1 with
  | ok a =>
    have : m.run.run c = (.ok a, (m.run.run c).2) := by rw [← h]; rfl
    rw [this]; rfl
  | error e =>
    have : m.run.run c = (.error e, (m.run.run c).2) := by rw [← h]; rfl
    rw [this]; rfl

/-- sequencing with early exit -/
theorem bind {m₁ m₂ : CME α} {k₁ k₂ : α → CME β} (hm : ShapeEqE m₁ m₂)
    (hk : ∀ a, ShapeEqE (k₁ a) (k₂ a)) : ShapeEqE (m₁ >>= k₁) (m₂ >>= k₂) := by
  intro c₁ c₂ hc b₁ b₂
  rw [bind_run, bind_run]
  cases h₁ : (m₁.run.run c₁).1 with
  | error e => intro h; cases h
  | ok a₁ =>
    cases h₂ : (m₂.run.run c₂).1 with
    | error e => intro _ h; cases h
    | ok a₂ =>
      obtain ⟨rfl, hs⟩ := hm c₁ c₂ hc a₁ a₂ h₁ h₂
      exact hk a₁ _ _ hs b₁ b₂

end ShapeEqE

namespace Composer

/-! ### the error-returning entry points as program steps -/

theorem ok_ne_error {α : Type} {a : α} {e : CErr} {x : Except CErr α} (h₁ : x = .ok a)
    (h₂ : x = .error e) : False := by rw [h₁] at h₂; cases h₂

/-- `append_point`: any two points -/
theorem appendPoint_shapeE (e₁ e₂ : Ext) :
    ShapeEqE (ExceptT.mk (appendPoint e₁)) (ExceptT.mk (appendPoint e₂)) := by
  refine .mk fun c₁ c₂ hc a₁ a₂ h₁ h₂ => ?_
  have z₁ : e₁.z ≠ 0 := fun hz => ok_ne_error h₁ (by rw [appendPoint_degenerate hz])
  have z₂ : e₂.z ≠ 0 := fun hz => ok_ne_error h₂ (by rw [appendPoint_degenerate hz])
  obtain ⟨hr, hs⟩ := appendPoint_shape z₁ z₂ c₁ c₂ hc
  rw [h₁, h₂] at hr
  exact ⟨by injection hr, hs⟩

/-- `append_constant_point`: the same constant -/
theorem appendConstantPoint_shapeE (e : Ext) :
    ShapeEqE (ExceptT.mk (appendConstantPoint e)) (ExceptT.mk (appendConstantPoint e)) := by
  refine .mk fun c₁ c₂ hc a₁ a₂ h₁ h₂ => ?_
  obtain ⟨hr, hs⟩ := appendConstantPoint_stable e c₁ c₂ hc
  rw [h₁, h₂] at hr
  exact ⟨by injection hr, hs⟩

/-- `append_public_point`: any two points -/
theorem appendPublicPoint_shapeE (e₁ e₂ : Ext) :
    ShapeEqE (ExceptT.mk (appendPublicPoint e₁)) (ExceptT.mk (appendPublicPoint e₂)) := by
  refine .mk fun c₁ c₂ hc a₁ a₂ h₁ h₂ => ?_
  have z₁ : e₁.z ≠ 0 := fun hz => ok_ne_error h₁ (by rw [appendPublicPoint_degenerate hz])
  have z₂ : e₂.z ≠ 0 := fun hz => ok_ne_error h₂ (by rw [appendPublicPoint_degenerate hz])
  obtain ⟨hr, hs⟩ := appendPublicPoint_shape z₁ z₂ c₁ c₂ hc
  rw [h₁, h₂] at hr
  exact ⟨by injection hr, hs⟩

/-- `assert_equal_public_point`: any two public points -/
theorem assertEqualPublicPoint_shapeE (p : Pt) (e₁ e₂ : Ext) :
    ShapeEqE (ExceptT.mk (assertEqualPublicPoint p e₁))
      (ExceptT.mk (assertEqualPublicPoint p e₂)) := by
  refine .mk fun c₁ c₂ hc a₁ a₂ h₁ h₂ => ?_
  have z₁ : e₁.z ≠ 0 := fun hz => ok_ne_error h₁ (by rw [assertEqualPublicPoint_degenerate p hz])
  have z₂ : e₂.z ≠ 0 := fun hz => ok_ne_error h₂ (by rw [assertEqualPublicPoint_degenerate p hz])
  exact ⟨rfl, (assertEqualPublicPoint_shape p z₁ z₂ c₁ c₂ hc).2⟩

/-- `append_fixed_base_signed_digits`: same generator, any two digit strings of the same
    effective length -/
theorem appendFixedBaseSignedDigits_shapeE (jubjub : Nat) (gen : Pt) {ds₁ ds₂ : List Int}
    (hl : min ds₁.length Generated.FIXED_BASE_SIGNED_DIGIT_ROUNDS =
          min ds₂.length Generated.FIXED_BASE_SIGNED_DIGIT_ROUNDS) :
    ShapeEqE (ExceptT.mk (appendFixedBaseSignedDigits jubjub gen ds₁))
      (ExceptT.mk (appendFixedBaseSignedDigits jubjub gen ds₂)) := by
  refine .mk fun c₁ c₂ hc a₁ a₂ h₁ h₂ => ?_
  have v₁ : badDigits ds₁ = false := by
    cases hb : badDigits ds₁
    · rfl
    · exact (ok_ne_error h₁
        ((appendFixedBaseSignedDigits_error_iff jubjub gen ds₁ c₁ _).mpr ⟨rfl, hb⟩)).elim
  have v₂ : badDigits ds₂ = false := by
    cases hb : badDigits ds₂
    · rfl
    · exact (ok_ne_error h₂
        ((appendFixedBaseSignedDigits_error_iff jubjub gen ds₂ c₂ _).mpr ⟨rfl, hb⟩)).elim
  obtain ⟨hr, hs⟩ := appendFixedBaseSignedDigits_shape jubjub gen v₁ v₂ hl c₁ c₂ hc
  rw [h₁, h₂] at hr
  exact ⟨by injection hr, hs⟩

/-- `component_mul_generator`: the same generator, any two scalar values -/
theorem componentMulGenerator_shapeE (jubjub : Nat) (gen : Ext) :
    ShapeEqE (ExceptT.mk (componentMulGenerator jubjub gen))
      (ExceptT.mk (componentMulGenerator jubjub gen)) := by
  refine .mk fun c₁ c₂ hc a₁ a₂ h₁ h₂ => ?_
  have s₁ := ((componentMulGenerator_ok_iff jubjub gen c₁).mp ⟨a₁, h₁⟩).2
  have s₂ := ((componentMulGenerator_ok_iff jubjub gen c₂).mp ⟨a₂, h₂⟩).2
  obtain ⟨hr, hs⟩ := componentMulGenerator_shape jubjub gen hc s₁ s₂
  rw [h₁, h₂] at hr
  exact ⟨by injection hr, hs⟩

end Composer

/-! ### whole programs

  A program is a list of steps over a register file of witness indices (the op language of the
  differential harness has this form: every op reads operand indices from registers filled by
  earlier ops and appends the indices it returns). -/

/-- one program step: from the registers so far to the indices it returns -/
abbrev Step := List Nat → CME (List Nat)

/-- run the steps in order; stop at the first error -/
def runSteps : List Step → List Nat → CME (List Nat)
  | [], regs => pure regs
  | f :: fs, regs => do
    let out ← f regs
    runSteps fs (regs ++ out)

/-- two step lists are the same calls up to value parameters -/
inductive StepsRel : List Step → List Step → Prop
  | nil : StepsRel [] []
  | cons {f g : Step} {fs gs : List Step} :
      (∀ regs, ShapeEqE (f regs) (g regs)) → StepsRel fs gs → StepsRel (f :: fs) (g :: gs)

theorem runSteps_shapeE {fs gs : List Step} (h : StepsRel fs gs) :
    ∀ regs, ShapeEqE (runSteps fs regs) (runSteps gs regs) := by
  induction h with
  | nil => intro regs; exact .pure _
  | cons hf _ ih =>
    intro regs
    unfold runSteps
    exact .bind (hf regs) fun out => ih _

/-- a step without error path (e.g. a lifted total component) -/
def Step.Total (f : Step) : Prop := ∀ regs c, ∃ r, ((f regs).run.run c).1 = .ok r

theorem Step.total_lift (m : List Nat → CM (List Nat)) :
    Step.Total (fun regs => (liftM (m regs) : CME (List Nat))) :=
  fun regs c => ⟨((m regs).run c).1, rfl⟩

/-- a program all of whose steps are total succeeds -/
theorem runSteps_total : ∀ {fs : List Step}, (∀ f ∈ fs, Step.Total f) →
    ∀ regs c, ∃ r, ((runSteps fs regs).run.run c).1 = .ok r
  | [], _, regs, _ => ⟨regs, rfl⟩
  | f :: fs, h, regs, c => by
    unfold runSteps
    rw [ShapeEqE.bind_run]
    obtain ⟨r, hr⟩ := h f (List.mem_cons_self) regs c
    rw [hr]
    exact runSteps_total (fun g hg => h g (List.mem_cons_of_mem _ hg)) _ _

end Plonk
