/-
  C20, level (A): the algebra of KZG10 commitments and openings in an abstract prime-order
  group.  `G` is an additive commutative group that is a module over the scalar field `F`
  (for the application `F = ZMod R`, `G` = the prime-order subgroup of BLS12-381 G1), `g : G`
  is a non-degenerate generator (`a • g = 0 → a = 0`), the structured reference string is
  `srs x g i = xⁱ • g`.  Nothing here talks about the executable curve arithmetic.
-/
import Mathlib.Algebra.Polynomial.Basic
import Mathlib.Algebra.Polynomial.Coeff
import Mathlib.Algebra.Polynomial.Eval.Defs
import Mathlib.Algebra.Polynomial.Eval.Coeff
import Mathlib.Algebra.Polynomial.Eval.SMul
import Mathlib.Algebra.Polynomial.Div
import Mathlib.Algebra.Polynomial.Roots
import Mathlib.Algebra.Module.Basic
import Mathlib.GroupTheory.OrderOfElement
import Mathlib.Data.ZMod.Basic
import Mathlib.Algebra.Field.ZMod
import Mathlib.Tactic.Ring
import Mathlib.Tactic.Abel
import Mathlib.Tactic.Module
import Mathlib.Tactic.LinearCombination

namespace Plonk.KzgMath
open Polynomial

section Basic
variable {F : Type*} [Field F] {G : Type*} [AddCommGroup G] [Module F G]

/-- the structured reference string: consecutive powers of one secret `x` applied to `g` -/
def srs (x : F) (g : G) (i : ℕ) : G := x ^ i • g

/-- multi-scalar multiplication of a coefficient list against a sequence of points:
    `Σᵢ cs[i] • P i` -/
def msmF : List F → (ℕ → G) → G
  | [], _ => 0
  | c :: cs, P => c • P 0 + msmF cs (fun i => P (i + 1))

/-- MSM over an explicit list of (scalar, point) pairs (the shape of `G1.msum`) -/
def msmZip (l : List (F × G)) : G := (l.map fun cp => cp.1 • cp.2).sum

/-- the polynomial with a given little-endian coefficient list -/
noncomputable def ofList : List F → F[X]
  | [] => 0
  | c :: cs => C c + X * ofList cs

/-- the commitment of a polynomial: the linear image `Σᵢ pᵢ • srs i` of its coefficient vector -/
noncomputable def commit (x : F) (g : G) (p : F[X]) : G := p.sum fun i c => c • srs x g i

/-- non-degeneracy of the generator (prime order, `g ≠ 0`) -/
def Nondeg (F : Type*) [Field F] {G : Type*} [AddCommGroup G] [Module F G] (g : G) : Prop :=
  ∀ a : F, a • g = 0 → a = 0

/-- `Σ_{j<k} vʲ • f j` -/
def agg {M : Type*} [AddCommMonoid M] [Module F M] (v : F) (k : ℕ) (f : ℕ → M) : M :=
  ∑ j ∈ Finset.range k, v ^ j • f j

/-- the same linear combination over a list (Horner form) -/
def aggL {M : Type*} [AddCommMonoid M] [Module F M] (v : F) : List M → M
  | [] => 0
  | a :: l => a + v • aggL v l

theorem smul_g_inj {g : G} (hg : Nondeg F g) {a b : F} : a • g = b • g ↔ a = b := by
  constructor
  · intro h
    have : (a - b) • g = 0 := by rw [sub_smul, h, sub_self]
    exact sub_eq_zero.mp (hg _ this)
  · rintro rfl; rfl

/-! ### commitments -/

/-- a commitment is the evaluation at the secret, in the exponent -/
theorem commit_eval (x : F) (g : G) (p : F[X]) : commit x g p = p.eval x • g := by
  unfold commit srs
  rw [eval_eq_sum, Polynomial.sum_def, Polynomial.sum_def, Finset.sum_smul]
  exact Finset.sum_congr rfl (fun i _ => by rw [mul_smul])

theorem commit_add (x : F) (g : G) (p q : F[X]) :
    commit x g (p + q) = commit x g p + commit x g q := by
  simp only [commit_eval, eval_add, add_smul]

theorem commit_zero (x : F) (g : G) : commit x g (0 : F[X]) = 0 := by
  simp only [commit_eval, eval_zero, zero_smul]

theorem commit_smul (x : F) (g : G) (a : F) (p : F[X]) :
    commit x g (a • p) = a • commit x g p := by
  simp only [commit_eval, eval_smul, smul_eq_mul, mul_smul]

theorem commit_sub (x : F) (g : G) (p q : F[X]) :
    commit x g (p - q) = commit x g p - commit x g q := by
  simp only [commit_eval, eval_sub, sub_smul]

theorem commit_neg (x : F) (g : G) (p : F[X]) : commit x g (-p) = - commit x g p := by
  simp only [commit_eval, eval_neg, neg_smul]

/-- two commitments agree exactly when the polynomials agree at the secret -/
theorem commit_eq_iff {g : G} (hg : Nondeg F g) (x : F) (p q : F[X]) :
    commit x g p = commit x g q ↔ p.eval x = q.eval x := by
  rw [commit_eval, commit_eval, smul_g_inj hg]

theorem msmF_smul (a : F) (cs : List F) (P : ℕ → G) :
    msmF cs (fun i => a • P i) = a • msmF cs P := by
  induction cs generalizing P with
  | nil => simp [msmF]
  | cons c cs ih =>
    simp only [msmF, ih (fun i => P (i + 1)), smul_add]
    rw [smul_comm]

/-- list form of `commit_eval`: the MSM of a coefficient list against the SRS -/
theorem msmF_srs (x : F) (g : G) (cs : List F) :
    msmF cs (srs x g) = (ofList cs).eval x • g := by
  induction cs with
  | nil => simp [msmF, ofList]
  | cons c cs ih =>
    have h : (fun i => srs x g (i + 1)) = fun i => x • srs x g i := by
      funext i; simp only [srs, pow_succ', mul_smul]
    simp only [msmF, ofList]
    rw [h, msmF_smul, ih]
    simp only [eval_add, eval_C, eval_mul, eval_X, srs, pow_zero, one_smul, add_smul, mul_smul]

theorem msmF_eq_commit (x : F) (g : G) (cs : List F) :
    msmF cs (srs x g) = commit x g (ofList cs) := by
  rw [msmF_srs, commit_eval]

/-- the zipped MSM (shape of the executable `G1.msum (p.zip ck)`) against a key holding the
    points `srs 0 … srs n`, for a coefficient list that fits into the key -/
theorem msmZip_zip_srs (x : F) (g : G) (cs : List F) (n : ℕ) (h : cs.length ≤ n) :
    msmZip (cs.zip ((List.range n).map (srs x g))) = (ofList cs).eval x • g := by
  rw [← msmF_srs]
  generalize srs x g = P
  induction cs generalizing n P with
  | nil => simp [msmZip, msmF]
  | cons c cs ih =>
    obtain ⟨m, rfl⟩ : ∃ m, n = m + 1 := ⟨n - 1, by simp at h; omega⟩
    have hm : cs.length ≤ m := by simpa using h
    have := ih m hm (fun i => P (i + 1))
    rw [List.range_succ_eq_map]
    simp only [List.map_cons, List.map_map, List.zip_cons_cons, msmZip, List.sum_cons, msmF]
    congr 1

theorem ofList_add_coeff (cs : List F) (i : ℕ) : (ofList cs).coeff i = cs.getD i 0 := by
  induction cs generalizing i with
  | nil => simp [ofList]
  | cons c cs ih =>
    cases i with
    | zero => simp [ofList]
    | succ i => simp [ofList, ih]

/-! ### linear combinations with powers of a challenge -/

section Agg
variable {M : Type*} [AddCommGroup M] [Module F M]

theorem aggL_eq_agg (v : F) (l : List M) : aggL v l = agg v l.length (fun j => l.getD j 0) := by
  induction l with
  | nil => simp [aggL, agg]
  | cons a l ih =>
    simp only [aggL, agg, List.length_cons, Finset.sum_range_succ', ih, pow_zero, one_smul,
      List.getD_cons_zero, List.getD_cons_succ, Finset.smul_sum, pow_succ', mul_smul]
    rw [add_comm]

theorem agg_sub (v : F) (k : ℕ) (f h : ℕ → M) :
    agg v k (fun j => f j - h j) = agg v k f - agg v k h := by
  simp only [agg, smul_sub, Finset.sum_sub_distrib]

theorem agg_add (v : F) (k : ℕ) (f h : ℕ → M) :
    agg v k (fun j => f j + h j) = agg v k f + agg v k h := by
  simp only [agg, smul_add, Finset.sum_add_distrib]

theorem agg_congr (v : F) (k : ℕ) {f h : ℕ → M} (H : ∀ j < k, f j = h j) :
    agg v k f = agg v k h :=
  Finset.sum_congr rfl (fun j hj => by rw [H j (Finset.mem_range.mp hj)])

theorem agg_zero_fun (v : F) (k : ℕ) : agg v k (fun _ => (0 : M)) = 0 := by
  simp [agg]

theorem agg_smul_g (v : F) (k : ℕ) (a : ℕ → F) (g : G) :
    agg v k (fun j => a j • g) = agg v k a • g := by
  simp only [agg, Finset.sum_smul, smul_eq_mul, mul_smul]

theorem eval_agg (v : F) (k : ℕ) (p : ℕ → F[X]) (y : F) :
    (agg v k p).eval y = agg v k (fun j => (p j).eval y) := by
  simp only [agg, eval_finsetSum, eval_smul]

/-- flattening commitments is committing to the flattened polynomial -/
theorem commit_agg (x : F) (g : G) (v : F) (k : ℕ) (p : ℕ → F[X]) :
    agg v k (fun j => commit x g (p j)) = commit x g (agg v k p) := by
  simp only [commit_eval, agg_smul_g, eval_agg]

/-- the polynomial `Σ δⱼ Xʲ` whose roots are the bad challenges -/
noncomputable def badPoly (k : ℕ) (δ : ℕ → F) : F[X] := ∑ j ∈ Finset.range k, C (δ j) * X ^ j

theorem eval_badPoly (k : ℕ) (δ : ℕ → F) (v : F) : (badPoly k δ).eval v = agg v k δ := by
  simp only [badPoly, agg, eval_finsetSum, eval_mul, eval_C, eval_pow, eval_X, smul_eq_mul,
    mul_comm]

theorem coeff_badPoly (k : ℕ) (δ : ℕ → F) (i : ℕ) :
    (badPoly k δ).coeff i = if i < k then δ i else 0 := by
  simp only [badPoly, finsetSum_coeff, coeff_C_mul, coeff_X_pow, mul_ite, mul_one, mul_zero]
  rw [Finset.sum_ite_eq]; simp

theorem natDegree_badPoly_le (k : ℕ) (δ : ℕ → F) : (badPoly k δ).natDegree ≤ k - 1 := by
  rw [natDegree_le_iff_coeff_eq_zero]
  intro i hi
  rw [coeff_badPoly, if_neg (by omega)]

/-- Schwartz–Zippel in one variable: a linear combination `Σ_{j<k} vʲ δⱼ` with some `δⱼ ≠ 0`
    vanishes for at most `k − 1` challenges `v`. -/
theorem agg_zero_generic [DecidableEq F] (k : ℕ) (δ : ℕ → F) :
    ∃ bad : Finset F, bad.card ≤ k - 1 ∧
      ∀ v, v ∉ bad → (agg v k δ = 0 ↔ ∀ j < k, δ j = 0) := by
  by_cases h : ∀ j < k, δ j = 0
  · refine ⟨∅, by simp, fun v _ => ⟨fun _ => h, fun _ => ?_⟩⟩
    rw [agg_congr v k h, agg_zero_fun]
  · refine ⟨(badPoly k δ).roots.toFinset, ?_, fun v hv => ⟨fun h0 => ?_, fun h' => absurd h' h⟩⟩
    · exact (Multiset.toFinset_card_le _).trans ((card_roots' _).trans (natDegree_badPoly_le k δ))
    · exfalso
      have hne : badPoly k δ ≠ 0 := by
        intro h0'
        apply h
        intro j hj
        have := coeff_badPoly k δ j
        rw [h0', if_pos hj] at this
        simpa using this.symm
      apply hv
      rw [Multiset.mem_toFinset, mem_roots hne, IsRoot, eval_badPoly]
      exact h0

/-- exactly one wrong term and a non-zero challenge: the combination does not vanish -/
theorem agg_single_ne_zero (v : F) (hv : v ≠ 0) (k : ℕ) (δ : ℕ → F) (j0 : ℕ) (hj0 : j0 < k)
    (h0 : δ j0 ≠ 0) (hoth : ∀ j < k, j ≠ j0 → δ j = 0) : agg v k δ ≠ 0 := by
  unfold agg
  rw [Finset.sum_eq_single j0]
  · exact smul_ne_zero (pow_ne_zero _ hv) h0
  · intro j hj hne
    rw [hoth j (Finset.mem_range.mp hj) hne, smul_zero]
  · intro h; exact absurd (Finset.mem_range.mpr hj0) h

end Agg

/-! ### single opening -/

/-- The check `[x]W = C + [z]W − [e]g` for an arbitrary witness `W = [w]g` against the
    commitment of `p`: it is the scalar equation `(x − z)·w = p(x) − e`. -/
theorem single_check_general {g : G} (hg : Nondeg F g) (x z e w : F) (p : F[X]) :
    x • (w • g) = commit x g p + z • (w • g) - e • g ↔ (x - z) * w = p.eval x - e := by
  rw [commit_eval]
  have h : x • (w • g) - (p.eval x • g + z • (w • g) - e • g)
      = ((x - z) * w - (p.eval x - e)) • g := by module
  rw [← sub_eq_zero, h, ← sub_eq_zero (a := (x - z) * w)]
  exact ⟨hg _, fun h0 => by rw [h0, zero_smul]⟩

/-- the quotient identity evaluated at the secret -/
theorem quot_eval {p q : F[X]} {z : F} (hq : p = q * (X - C z) + C (p.eval z)) (x : F) :
    (x - z) * q.eval x = p.eval x - p.eval z := by
  have := congrArg (eval x) hq
  simp only [eval_add, eval_mul, eval_sub, eval_X, eval_C] at this
  linear_combination -this

theorem divByMonic_quot (p : F[X]) (z : F) :
    p = (p /ₘ (X - C z)) * (X - C z) + C (p.eval z) := by
  have h := modByMonic_add_div p (X - C z)
  rw [modByMonic_X_sub_C_eq_C_eval] at h
  conv_lhs => rw [← h]
  ring

/-- **Single opening.**  With the honest witness `W = commit q`, `q` the quotient of `p` by
    `X − z`, the check passes exactly when the claimed value is the true value. -/
theorem single_open_iff' {g : G} (hg : Nondeg F g) (x z e : F) (p q : F[X])
    (hq : p = q * (X - C z) + C (p.eval z)) :
    x • commit x g q = commit x g p + z • commit x g q - e • g ↔ e = p.eval z := by
  rw [commit_eval x g q, single_check_general hg, quot_eval hq]
  constructor
  · intro h; linear_combination h
  · rintro rfl; rfl

theorem single_open_iff {g : G} (hg : Nondeg F g) (x z e : F) (p : F[X]) :
    x • commit x g (p /ₘ (X - C z)) = commit x g p + z • commit x g (p /ₘ (X - C z)) - e • g
      ↔ e = p.eval z :=
  single_open_iff' hg x z e p _ (divByMonic_quot p z)

/-! ### aggregated opening at one point -/

/-- **Aggregated opening.**  `k` polynomials opened at one point `z` with challenge `v`: the
    flattened commitment `Σ vʲ Cⱼ`, flattened evaluation `Σ vʲ eⱼ` and the witness of
    `Σ vʲ pⱼ` pass the check exactly when `Σ vʲ (eⱼ − pⱼ(z)) = 0`. -/
theorem aggregate_open_iff' {g : G} (hg : Nondeg F g) (x z v : F) (k : ℕ) (p : ℕ → F[X])
    (e : ℕ → F) (q : F[X])
    (hq : agg v k p = q * (X - C z) + C ((agg v k p).eval z)) :
    x • commit x g q
        = agg v k (fun j => commit x g (p j)) + z • commit x g q - agg v k e • g
      ↔ agg v k (fun j => e j - (p j).eval z) = 0 := by
  rw [commit_agg, single_open_iff' hg x z _ _ q hq, eval_agg, agg_sub, sub_eq_zero]

theorem aggregate_open_iff {g : G} (hg : Nondeg F g) (x z v : F) (k : ℕ) (p : ℕ → F[X])
    (e : ℕ → F) :
    x • commit x g (agg v k p /ₘ (X - C z))
        = agg v k (fun j => commit x g (p j)) + z • commit x g (agg v k p /ₘ (X - C z))
          - agg v k e • g
      ↔ agg v k (fun j => e j - (p j).eval z) = 0 :=
  aggregate_open_iff' hg x z v k p e _ (divByMonic_quot _ z)

/-- completeness: true evaluations pass -/
theorem aggregate_open_complete {g : G} (hg : Nondeg F g) (x z v : F) (k : ℕ) (p : ℕ → F[X])
    (e : ℕ → F) (he : ∀ j < k, e j = (p j).eval z) :
    x • commit x g (agg v k p /ₘ (X - C z))
        = agg v k (fun j => commit x g (p j)) + z • commit x g (agg v k p /ₘ (X - C z))
          - agg v k e • g := by
  rw [aggregate_open_iff hg]
  rw [agg_congr v k (h := fun _ => 0) (fun j hj => by rw [he j hj, sub_self]), agg_zero_fun]

/-- exactly one wrong evaluation and `v ≠ 0`: the check fails -/
theorem aggregate_open_one_wrong {g : G} (hg : Nondeg F g) (x z v : F) (hv : v ≠ 0) (k : ℕ)
    (p : ℕ → F[X]) (e : ℕ → F) (j0 : ℕ) (hj0 : j0 < k) (hw : e j0 ≠ (p j0).eval z)
    (hoth : ∀ j < k, j ≠ j0 → e j = (p j).eval z) :
    ¬ (x • commit x g (agg v k p /ₘ (X - C z))
        = agg v k (fun j => commit x g (p j)) + z • commit x g (agg v k p /ₘ (X - C z))
          - agg v k e • g) := by
  rw [aggregate_open_iff hg]
  exact agg_single_ne_zero v hv k _ j0 hj0 (sub_ne_zero.mpr hw)
    (fun j hj hne => by rw [hoth j hj hne, sub_self])

/-- for all but at most `k − 1` challenges `v`, the aggregated check passes exactly when every
    claimed evaluation is true -/
theorem aggregate_open_generic [DecidableEq F] {g : G} (hg : Nondeg F g) (x z : F) (k : ℕ)
    (p : ℕ → F[X]) (e : ℕ → F) :
    ∃ bad : Finset F, bad.card ≤ k - 1 ∧ ∀ v, v ∉ bad →
      (x • commit x g (agg v k p /ₘ (X - C z))
          = agg v k (fun j => commit x g (p j)) + z • commit x g (agg v k p /ₘ (X - C z))
            - agg v k e • g
        ↔ ∀ j < k, e j = (p j).eval z) := by
  obtain ⟨bad, hc, hb⟩ := agg_zero_generic k (fun j => e j - (p j).eval z)
  refine ⟨bad, hc, fun v hv => ?_⟩
  rw [aggregate_open_iff hg, hb v hv]
  exact forall₂_congr (fun j _ => sub_eq_zero)

/-! ### batched opening at several points -/

/-- The accumulated check for arbitrary proofs `Wᵢ = [wᵢ]g`, `Cᵢ = [cᵢ]g`. -/
theorem batch_check_general {g : G} (hg : Nondeg F g) (x u : F) (n : ℕ) (w c z e : ℕ → F) :
    x • agg u n (fun i => w i • g)
        = agg u n (fun i => c i • g + z i • (w i • g)) - agg u n e • g
      ↔ agg u n (fun i => (x - z i) * w i - c i + e i) = 0 := by
  have h : x • agg u n (fun i => w i • g)
        - (agg u n (fun i => c i • g + z i • (w i • g)) - agg u n e • g)
      = agg u n (fun i => (x - z i) * w i - c i + e i) • g := by
    have h' : ∀ a b c' : G, a - (b - c') = a - b + c' := fun a b c' => by abel
    rw [h']
    unfold agg
    rw [Finset.smul_sum, Finset.sum_smul, Finset.sum_smul, ← Finset.sum_sub_distrib,
      ← Finset.sum_add_distrib]
    refine Finset.sum_congr rfl (fun i _ => ?_)
    simp only [smul_eq_mul]
    module
  rw [← sub_eq_zero, h]
  exact ⟨hg _, fun h0 => by rw [h0, zero_smul]⟩

/-- the defect of the `i`-th aggregated proof -/
def defect (v z : ℕ → F) (k : ℕ → ℕ) (p : ℕ → ℕ → F[X]) (e : ℕ → ℕ → F) (i : ℕ) : F :=
  agg (v i) (k i) (fun j => e i j - (p i j).eval (z i))

/-- **Batched opening.**  `n` points `zᵢ`, at each point `kᵢ` polynomials flattened with the
    challenge `vᵢ`, honest witnesses, outer challenge `u`: the accumulated check
    `[x] Σ uⁱ Wᵢ = Σ uⁱ (Cᵢ + [zᵢ] Wᵢ) − [Σ uⁱ eᵢ] g` holds exactly when `Σ uⁱ δᵢ = 0`. -/
theorem batch_check_iff' {g : G} (hg : Nondeg F g) (x u : F) (n : ℕ) (v z : ℕ → F) (k : ℕ → ℕ)
    (p : ℕ → ℕ → F[X]) (e : ℕ → ℕ → F) (q : ℕ → F[X])
    (hq : ∀ i < n, agg (v i) (k i) (p i)
        = q i * (X - C (z i)) + C ((agg (v i) (k i) (p i)).eval (z i))) :
    x • agg u n (fun i => commit x g (q i))
        = agg u n (fun i => agg (v i) (k i) (fun j => commit x g (p i j))
            + z i • commit x g (q i))
          - agg u n (fun i => agg (v i) (k i) (e i)) • g
      ↔ agg u n (defect v z k p e) = 0 := by
  have hC : ∀ i, agg (v i) (k i) (fun j => commit x g (p i j))
      = (agg (v i) (k i) (p i)).eval x • g := fun i => by rw [commit_agg, commit_eval]
  simp only [hC]
  simp only [commit_eval]
  rw [batch_check_general hg]
  have : agg u n (fun i => (x - z i) * (q i).eval x - (agg (v i) (k i) (p i)).eval x
        + agg (v i) (k i) (e i)) = agg u n (defect v z k p e) := by
    refine agg_congr u n (fun i hi => ?_)
    rw [quot_eval (hq i hi), defect, agg_sub, eval_agg (v i) (k i) (p i) (z i)]
    ring
  rw [this]

theorem batch_check_iff {g : G} (hg : Nondeg F g) (x u : F) (n : ℕ) (v z : ℕ → F) (k : ℕ → ℕ)
    (p : ℕ → ℕ → F[X]) (e : ℕ → ℕ → F) :
    x • agg u n (fun i => commit x g (agg (v i) (k i) (p i) /ₘ (X - C (z i))))
        = agg u n (fun i => agg (v i) (k i) (fun j => commit x g (p i j))
            + z i • commit x g (agg (v i) (k i) (p i) /ₘ (X - C (z i))))
          - agg u n (fun i => agg (v i) (k i) (e i)) • g
      ↔ agg u n (defect v z k p e) = 0 :=
  batch_check_iff' hg x u n v z k p e _ (fun i _ => divByMonic_quot _ (z i))

theorem defect_eq_zero_of_true (v z : ℕ → F) (k : ℕ → ℕ) (p : ℕ → ℕ → F[X]) (e : ℕ → ℕ → F)
    (i : ℕ) (he : ∀ j < k i, e i j = (p i j).eval (z i)) : defect v z k p e i = 0 := by
  unfold defect
  rw [agg_congr (v i) (k i) (h := fun _ => 0) (fun j hj => by rw [he j hj, sub_self]),
    agg_zero_fun]

/-- completeness of the batch check -/
theorem batch_check_complete {g : G} (hg : Nondeg F g) (x u : F) (n : ℕ) (v z : ℕ → F)
    (k : ℕ → ℕ) (p : ℕ → ℕ → F[X]) (e : ℕ → ℕ → F)
    (he : ∀ i < n, ∀ j < k i, e i j = (p i j).eval (z i)) :
    x • agg u n (fun i => commit x g (agg (v i) (k i) (p i) /ₘ (X - C (z i))))
        = agg u n (fun i => agg (v i) (k i) (fun j => commit x g (p i j))
            + z i • commit x g (agg (v i) (k i) (p i) /ₘ (X - C (z i))))
          - agg u n (fun i => agg (v i) (k i) (e i)) • g := by
  rw [batch_check_iff hg]
  rw [agg_congr u n (h := fun _ => 0)
    (fun i hi => defect_eq_zero_of_true v z k p e i (he i hi)), agg_zero_fun]

/-- soundness for generic `u`: if some aggregated proof has a non-zero defect, the batch check
    fails for all but at most `n − 1` values of `u`; in general, outside that exceptional set
    the check passes exactly when all defects vanish -/
theorem batch_check_generic [DecidableEq F] {g : G} (hg : Nondeg F g) (x : F) (n : ℕ)
    (v z : ℕ → F) (k : ℕ → ℕ) (p : ℕ → ℕ → F[X]) (e : ℕ → ℕ → F) :
    ∃ bad : Finset F, bad.card ≤ n - 1 ∧ ∀ u, u ∉ bad →
      (x • agg u n (fun i => commit x g (agg (v i) (k i) (p i) /ₘ (X - C (z i))))
          = agg u n (fun i => agg (v i) (k i) (fun j => commit x g (p i j))
              + z i • commit x g (agg (v i) (k i) (p i) /ₘ (X - C (z i))))
            - agg u n (fun i => agg (v i) (k i) (e i)) • g
        ↔ ∀ i < n, defect v z k p e i = 0) := by
  obtain ⟨bad, hc, hb⟩ := agg_zero_generic n (defect v z k p e)
  exact ⟨bad, hc, fun u hu => by rw [batch_check_iff hg, hb u hu]⟩

end Basic

/-! ### the pairing check is the trapdoor check -/

/-- an abstract bilinear pairing on modules over `ZMod r` into a multiplicative group of
    exponent `r` -/
structure Pairing (r : ℕ) (G H T : Type*) [AddCommGroup G] [Module (ZMod r) G]
    [AddCommGroup H] [Module (ZMod r) H] [CommGroup T] where
  e : G → H → T
  map_add_left : ∀ P P' Q, e (P + P') Q = e P Q * e P' Q
  map_smul_left : ∀ (a : ZMod r) P Q, e (a • P) Q = e P Q ^ a.val
  map_smul_right : ∀ (a : ZMod r) P Q, e P (a • Q) = e P Q ^ a.val
  pow_card : ∀ P Q, e P Q ^ r = 1

section Pairing
variable {r : ℕ} [Fact r.Prime] {G H T : Type*} [AddCommGroup G] [Module (ZMod r) G]
  [AddCommGroup H] [Module (ZMod r) H] [CommGroup T]

theorem Pairing.smul_g_eq_one_iff (E : Pairing r G H T) {g : G} {h : H} (hgh : E.e g h ≠ 1)
    (a : ZMod r) : E.e (a • g) h = 1 ↔ a = 0 := by
  rw [E.map_smul_left]
  constructor
  · intro ha
    have hd : orderOf (E.e g h) ∣ a.val := orderOf_dvd_of_pow_eq_one ha
    have hr : orderOf (E.e g h) ∣ r := orderOf_dvd_of_pow_eq_one (E.pow_card g h)
    have hp : Nat.Prime r := Fact.out
    rcases (Nat.dvd_prime hp).mp hr with h1 | h1
    · exact absurd (orderOf_eq_one_iff.mp h1) hgh
    · rw [h1] at hd
      have hlt : a.val < r := ZMod.val_lt a
      have : a.val = 0 := Nat.eq_zero_of_dvd_of_lt hd hlt
      exact (ZMod.val_eq_zero a).mp this
  · rintro rfl; simp

/-- **The trapdoor decision is the pairing check**: for `A`, `B` in the span of `g`,
    `e(A, [x]h) · e(B, h) = 1 ⇔ [x]A + B = 0`. -/
theorem pairing_trapdoor (E : Pairing r G H T) {g : G} {h : H} (hgh : E.e g h ≠ 1)
    (x a b : ZMod r) :
    E.e (a • g) (x • h) * E.e (b • g) h = 1 ↔ x • (a • g) + b • g = 0 := by
  have hg : Nondeg (ZMod r) g := fun c hc => by
    rw [← E.smul_g_eq_one_iff hgh, hc, ← zero_smul (ZMod r) g, E.map_smul_left]; simp
  rw [E.map_smul_right, ← E.map_smul_left, ← E.map_add_left]
  have : x • (a • g) + b • g = (x * a + b) • g := by module
  rw [this, E.smul_g_eq_one_iff hgh]
  exact ⟨fun h0 => by rw [h0, zero_smul], hg _⟩

/-- the form used by `batch_check`: `e(−W, [x]h) · e(C, h) = 1 ⇔ [x]W = C` -/
theorem pairing_check_iff (E : Pairing r G H T) {g : G} {h : H} (hgh : E.e g h ≠ 1)
    (x w c : ZMod r) :
    E.e (-(w • g)) (x • h) * E.e (c • g) h = 1 ↔ x • (w • g) = c • g := by
  have := pairing_trapdoor E hgh x (-w) c
  rw [neg_smul] at this
  rw [this, smul_neg, neg_add_eq_zero]

end Pairing

end Plonk.KzgMath
