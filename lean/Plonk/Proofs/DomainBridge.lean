/-
  Refinement of `batchInversion` and of the closed-form evaluations of `Plonk/Model/FFT.lean`
  (`Domain.elements`, `evaluateVanishing`, `lagrangeCoeffs`, `vanishingOverCoset`, `matches…`,
  `barycentric`, `lagrangeAndPi`) into the field-level definitions of `LagrangeMath.lean`.
-/
import Plonk.Proofs.PolyBridge
import Plonk.Proofs.LagrangeMath

namespace Plonk.PolyC19
open Polynomial

/-! ### small field-bridge additions -/

theorem powModF_lt (fuel b e m acc : Nat) (hm : 0 < m) (hacc : acc < m) :
    powModF fuel b e m acc < m := by
  induction fuel generalizing b e acc with
  | zero => simpa [powModF]
  | succ f ih =>
    rw [powModF]
    split
    · exact hacc
    · apply ih
      split
      · exact Nat.mod_lt _ hm
      · exact hacc

theorem fpow_lt (a e : Nat) : fpow a e < R := powModF_lt _ _ _ _ _ R_pos (Nat.mod_lt _ R_pos)
theorem finv_lt (a : Nat) : finv a < R := fpow_lt _ _

theorem toF_val (x : F) : toF x.val = x := by
  unfold toF; exact ZMod.natCast_zmod_val x

theorem eq_val_of_toF {a : Nat} {x : F} (ha : a < R) (h : toF a = x) : a = x.val := by
  rw [← h, val_toF_of_lt ha]

theorem val_lt_R (x : F) : x.val < R := ZMod.val_lt x

theorem one_mod_R_lt : 1 % R < R := Nat.mod_lt _ R_pos

/-! ### batch inversion -/

/-- the entry-wise function of `batchInversion` -/
def binv (x : Nat) : Nat := if x % R == 0 then x % R else finv x

theorem batchInversion_eq_map (v : List Nat) : batchInversion v = v.map binv := rfl

theorem toF_binv (x : Nat) : toF (binv x) = (toF x)⁻¹ := by
  unfold binv
  split
  · next h =>
    have h0 : toF x = 0 := (toF_eq_zero_iff x).mpr (by simpa using h)
    rw [toF_mod, h0, inv_zero]
  · exact toF_finv x

theorem binv_lt (x : Nat) : binv x < R := by
  unfold binv; split
  · exact Nat.mod_lt _ R_pos
  · exact finv_lt x

theorem binv_zero {x : Nat} (h : x % R = 0) : binv x = 0 := by
  unfold binv; simp [h]

theorem batchInversion_length (v : List Nat) : (batchInversion v).length = v.length := by
  simp [batchInversion]

theorem batchInversion_getElem (v : List Nat) (i : Nat) (h : i < v.length) :
    (batchInversion v)[i]'(by rw [batchInversion_length]; exact h) = binv v[i] := by
  simp [batchInversion_eq_map]

/-! ### geometric progressions built by the `foldl` idiom -/

/-- `[c, c·g, c·g², …]` (`n` entries) with the model's multiplication -/
def pows (c g : Nat) : Nat → List Nat
  | 0 => []
  | n + 1 => c :: pows (fmul c g) g n

theorem powers_fold (emit : Nat → Nat) (g : Nat) (n : Nat) (l : List Nat) (c : Nat) :
    ((List.range n).foldl (fun (acc : List Nat × Nat) _ => (emit acc.2 :: acc.1, fmul acc.2 g))
      (l, c)).1.reverse = l.reverse ++ (pows c g n).map emit := by
  induction n generalizing l c with
  | zero => simp [pows]
  | succ n ih =>
    rw [List.range_succ_eq_map, List.foldl_cons, List.foldl_map]
    simp only []
    rw [ih]
    simp [pows]

theorem pows_eq_map (c g : Nat) (n : Nat) (hc : c < R) :
    pows c g n = (List.range n).map (fun i => (toF c * toF g ^ i).val) := by
  induction n generalizing c with
  | zero => simp [pows]
  | succ n ih =>
    rw [pows, ih _ (fmul_lt _ _), List.range_succ_eq_map, List.map_cons, List.map_map]
    congr 1
    · simp [val_toF_of_lt hc]
    · apply List.map_congr_left
      intro i _
      simp only [Function.comp, toF_fmul, Nat.succ_eq_add_one, pow_succ]
      congr 1; ring

/-! ### well-formed domains -/

/-- what the closed forms need from an `EvaluationDomain` -/
structure DomainOK (d : Domain) : Prop where
  size_pos : 0 < d.size
  prim : IsPrimitiveRoot (toF d.groupGen) d.size
  sizeInv_eq : toF d.sizeInv = ((d.size : F))⁻¹
  genInv_eq : toF d.groupGenInv = (toF d.groupGen)⁻¹

namespace DomainOK
variable {d : Domain}

theorem gen_ne_zero (ok : DomainOK d) : toF d.groupGen ≠ 0 :=
  primitive_ne_zero ok.size_pos ok.prim

theorem size_lt_R (ok : DomainOK d) : d.size < R := by
  have h1 : orderOf (toF d.groupGen) ∣ R - 1 := ZMod.orderOf_dvd_card_sub_one ok.gen_ne_zero
  rw [← ok.prim.eq_orderOf] at h1
  have := Nat.le_of_dvd (by have := R_gt_one; omega) h1
  have := R_gt_one
  omega

theorem R_lt : R < 2 ^ 256 := by decide +kernel

theorem size_lt (ok : DomainOK d) : d.size < 2 ^ 256 := lt_trans ok.size_lt_R R_lt

theorem size_ne_zero (ok : DomainOK d) : (d.size : F) ≠ 0 :=
  natCast_ne_zero_of_primitive ok.size_pos ok.prim

end DomainOK

/-! ### `elements`, `evaluate_vanishing_polynomial` -/

/-- `elements()` lists the canonical representatives of `ω^0, …, ω^(n-1)` -/
theorem elements_eq (d : Domain) :
    d.elements = (List.range d.size).map (fun i => (toF d.groupGen ^ i).val) := by
  unfold Domain.elements
  have := powers_fold id d.groupGen d.size [] (1 % R)
  simp only [id, List.reverse_nil, List.nil_append] at this
  rw [this, pows_eq_map _ _ _ one_mod_R_lt]
  simp

theorem elements_length (d : Domain) : d.elements.length = d.size := by
  rw [elements_eq]; simp

theorem elements_getElem (d : Domain) (i : Nat) (h : i < d.elements.length) :
    d.elements[i] = (toF d.groupGen ^ i).val := by
  simp [elements_eq]

theorem toF_evaluateVanishing {d : Domain} (hn : d.size < 2 ^ 256) (tau : Nat) :
    toF (d.evaluateVanishing tau) = toF tau ^ d.size - 1 := by
  unfold Domain.evaluateVanishing
  rw [toF_fsub, toF_fpow _ _ hn, toF_one]

/-! ### `evaluate_all_lagrange_coefficients` -/

theorem zip_map_self {α β : Type} (l : List α) (f : α → β) :
    (l.map f).zip l = l.map (fun x => (f x, x)) := by
  induction l with
  | nil => rfl
  | cons x xs ih => simp [ih]

theorem zip_self_map {α β : Type} (l : List α) (f : α → β) :
    l.zip (l.map f) = l.map (fun x => (x, f x)) := by
  induction l with
  | nil => rfl
  | cons x xs ih => simp [ih]

end Plonk.PolyC19
