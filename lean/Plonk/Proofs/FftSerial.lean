/-
  C19 (FFT half): the iterative in-place transform `serialFft` (bit reversal, then stages
  `m = 1, 2, 4, …`) computes the DFT — by a loop invariant on the stages: after `s` stages, block
  `c` (of size `2^s`) holds the DFT of size `2^s`, with root `ω^(2^(L−s))`, of the input
  subsequence that starts at `brev (L−s) c` and has stride `2^(L−s)`.
  Consequences: `serialFft = dft = fftRec`, and with thread independence `bestFft = dft`.
-/
import Plonk.Proofs.FftIter
import Plonk.Proofs.FftRec

namespace Plonk
open Finset FftMath

/-- an array of model values read as a sequence of field elements (zero past the end) -/
def seqA (a : Array Nat) : ℕ → F := fun j => toF (a.getD j 0)

theorem seqF_toList (a : Array Nat) : seqF a.toList = seqA a := by
  funext j; simp only [seqF, seqA, getD_toList]

theorem seqA_toArray (v : List Nat) : seqA v.toArray = seqF v := by
  funext j; simp only [seqF, seqA, getD_toArray]

/-- loop invariant after `s` stages -/
def StageInv (L : Nat) (ω : F) (a0 : Array Nat) (s : Nat) (arr : Array Nat) : Prop :=
  arr.size = 2 ^ L ∧ (∀ idx, arr.getD idx 0 < R) ∧
  ∀ t, s + t = L → ∀ c, c < 2 ^ t → ∀ i, i < 2 ^ s →
    toF (arr.getD (c * 2 ^ s + i) 0)
      = dftN (ω ^ (2 ^ t)) (2 ^ s) (fun j => seqA a0 (brev t c + j * 2 ^ t)) i

theorem stageInv_base (L : Nat) (ω : F) (a0 : Array Nat) (hsize : a0.size = 2 ^ L)
    (hlt : ∀ idx, a0.getD idx 0 < R) : StageInv L ω a0 0 (bitreversePermute a0 L) := by
  obtain ⟨h1, h2⟩ := bitreversePermute_spec L a0 hsize
  refine ⟨by rw [h1, hsize], ?_, ?_⟩
  · intro idx
    by_cases h : idx < 2 ^ L
    · rw [h2 idx h]; exact hlt _
    · rw [array_getD_of_le _ _ (by rw [h1, hsize]; omega)]; exact R_pos
  · intro t ht c hc i hi
    have ht' : t = L := by omega
    subst ht'
    have hi0 : i = 0 := by simpa using hi
    subst hi0
    rw [Nat.pow_zero, Nat.mul_one, Nat.add_zero, h2 c hc]
    simp [dftN, seqA]

theorem stageVal_lt (a : Array Nat) (m wm idx : Nat) : stageVal a m wm idx < R := by
  unfold stageVal; split
  · exact fadd_lt _ _
  · exact fsub_lt _ _

theorem stageInv_step (L ω : Nat) (a0 : Array Nat) (s : Nat) (arr : Array Nat) (hs : s < L)
    (hprim : IsPrimitiveRoot (toF ω) (2 ^ L)) (h : StageInv L (toF ω) a0 s arr) :
    StageInv L (toF ω) a0 (s + 1) (serialStage (2 ^ L) ω (arr, 2 ^ s)).1 := by
  obtain ⟨hsz, _, hinv⟩ := h
  -- notation: P = 2^s (half size), Q = 2^t' (number of chunks), n = 2·P·Q
  obtain ⟨t', ht'⟩ : ∃ t', s + 1 + t' = L := ⟨L - s - 1, by omega⟩
  have hP : 0 < 2 ^ s := Nat.pow_pos (by omega)
  have hQ : 0 < 2 ^ t' := Nat.pow_pos (by omega)
  have hn : 2 ^ L = 2 ^ t' * (2 * 2 ^ s) := by
    rw [← ht', Nat.pow_add, Nat.pow_succ]; ring
  have hdiv : 2 ^ L / (2 * 2 ^ s) = 2 ^ t' := by
    rw [hn]; exact Nat.mul_div_cancel _ (by omega)
  have hLlt : 2 ^ L < 2 ^ 256 := order_lt_of_primitive (Nat.pow_pos (by omega)) hprim
  have hQlt : 2 ^ t' < 2 ^ 256 := by
    have : 2 ^ t' ≤ 2 ^ L := Nat.pow_le_pow_right (by omega) (by omega)
    omega
  obtain ⟨_, g2, g3⟩ := serialStage_spec (2 ^ L) ω arr (2 ^ s) hsz (by rw [hdiv, ← hn])
  rw [hdiv] at g3
  have hwm : toF (fpow ω (2 ^ t')) = toF ω ^ 2 ^ t' := toF_fpow _ _ hQlt
  -- the root of the new stage
  have hprim' : IsPrimitiveRoot (toF ω ^ 2 ^ t') (2 * 2 ^ s) := by
    have := hprim.pow_of_dvd (p := 2 ^ t') (by omega) ⟨2 * 2 ^ s, hn⟩
    rwa [hn, Nat.mul_div_cancel_left _ hQ] at this
  have hroot : toF ω ^ 2 ^ (t' + 1) = (toF ω ^ 2 ^ t') ^ 2 := by
    rw [← pow_mul, Nat.pow_succ]
  refine ⟨g2, ?_, ?_⟩
  · intro idx
    by_cases hidx : idx < 2 ^ L
    · rw [g3 idx hidx]; exact stageVal_lt _ _ _ _
    · rw [array_getD_of_le _ _ (by rw [g2]; omega)]; exact R_pos
  · intro t ht c hc i hi
    have htt : t = t' := by omega
    subst htt
    have e2 : 2 ^ (s + 1) = 2 * 2 ^ s := by rw [Nat.pow_succ]; ring
    rw [e2] at hi ⊢
    have hidx : c * (2 * 2 ^ s) + i < 2 ^ L := by
      rw [hn]
      have : (c + 1) * (2 * 2 ^ s) ≤ 2 ^ t * (2 * 2 ^ s) := Nat.mul_le_mul_right _ (by omega)
      rw [Nat.add_mul, Nat.one_mul] at this
      omega
    have hmod : (c * (2 * 2 ^ s) + i) % (2 * 2 ^ s) = i := by
      rw [mod_of_block c (2 * 2 ^ s) _ (by omega) (by omega)]; omega
    -- the invariant for the two half blocks
    have hev : ∀ i', i' < 2 ^ s → toF (arr.getD (2 * c * 2 ^ s + i') 0)
        = dftN ((toF ω ^ 2 ^ t) ^ 2) (2 ^ s)
            (fun j => (fun j => seqA a0 (brev t c + j * 2 ^ t)) (2 * j)) i' := by
      intro i' hi'
      rw [hinv (t + 1) (by omega) (2 * c) (by rw [Nat.pow_succ]; omega) i' hi', hroot]
      apply dftN_congr; intro j _
      simp only [brev_two_mul]
      show seqA a0 _ = seqA a0 _
      congr 1
      rw [Nat.pow_succ]; ring
    have hod : ∀ i', i' < 2 ^ s → toF (arr.getD ((2 * c + 1) * 2 ^ s + i') 0)
        = dftN ((toF ω ^ 2 ^ t) ^ 2) (2 ^ s)
            (fun j => (fun j => seqA a0 (brev t c + j * 2 ^ t)) (2 * j + 1)) i' := by
      intro i' hi'
      rw [hinv (t + 1) (by omega) (2 * c + 1) (by rw [Nat.pow_succ]; omega) i' hi', hroot]
      apply dftN_congr; intro j _
      simp only [brev_two_mul_add_one]
      show seqA a0 _ = seqA a0 _
      congr 1
      rw [Nat.pow_succ]; ring
    rw [g3 _ hidx]
    unfold stageVal
    rw [hmod]
    have ec : c * (2 * 2 ^ s) = 2 * c * 2 ^ s := by ring
    have ec1 : (2 * c + 1) * 2 ^ s = 2 * c * 2 ^ s + 2 ^ s := by ring
    split
    · next hlt =>
      have i1 : c * (2 * 2 ^ s) + i = 2 * c * 2 ^ s + i := by omega
      have i2 : c * (2 * 2 ^ s) + i + 2 ^ s = (2 * c + 1) * 2 ^ s + i := by omega
      rw [toF_fadd, toF_fmul, toF_twid, hwm, i2, i1, hev i hlt, hod i hlt,
        (dftN_butterfly hP hprim' _ i).1]
      ring
    · next hge =>
      have hlt : i - 2 ^ s < 2 ^ s := by omega
      have i1 : c * (2 * 2 ^ s) + i - 2 ^ s = 2 * c * 2 ^ s + (i - 2 ^ s) := by omega
      have i2 : c * (2 * 2 ^ s) + i = (2 * c + 1) * 2 ^ s + (i - 2 ^ s) := by omega
      rw [toF_fsub, toF_fmul, toF_twid, hwm, i1]
      conv_lhs => rw [i2]
      rw [hev _ hlt, hod _ hlt]
      have hi' : i = (i - 2 ^ s) + 2 ^ s := by omega
      conv_rhs => rw [hi']
      rw [(dftN_butterfly hP hprim' _ (i - 2 ^ s)).2]
      ring

/-- the state after `s ≤ L` stages -/
theorem stages_inv (L ω : Nat) (a0 : Array Nat) (hsize : a0.size = 2 ^ L)
    (hlt : ∀ idx, a0.getD idx 0 < R) (hprim : IsPrimitiveRoot (toF ω) (2 ^ L)) (s : Nat)
    (hs : s ≤ L) :
    ((List.range s).foldl (fun st _ => serialStage (2 ^ L) ω st) (bitreversePermute a0 L, 1)).2
        = 2 ^ s ∧
    StageInv L (toF ω) a0 s
      ((List.range s).foldl (fun st _ => serialStage (2 ^ L) ω st) (bitreversePermute a0 L, 1)).1 := by
  induction s with
  | zero => exact ⟨rfl, stageInv_base L _ a0 hsize hlt⟩
  | succ s ih =>
    obtain ⟨ih1, ih2⟩ := ih (by omega)
    rw [List.range_succ, List.foldl_append]
    simp only [List.foldl_cons, List.foldl_nil]
    generalize ((List.range s).foldl (fun st _ => serialStage (2 ^ L) ω st)
      (bitreversePermute a0 L, 1)) = st at ih1 ih2 ⊢
    obtain ⟨arr, m⟩ := st
    simp only at ih1 ih2
    subst ih1
    refine ⟨?_, stageInv_step L ω a0 s arr (by omega) hprim ih2⟩
    rw [serialStage_snd, Nat.pow_succ]; ring

theorem array_getD_lt_R (a : Array Nat) (h : ∀ x ∈ a.toList, x < R) (idx : Nat) :
    a.getD idx 0 < R := by
  rw [← getD_toList]; exact getD_lt_R _ h idx

/-- **the iterative transform computes the DFT** -/
theorem serialFft_eq_dft (L ω : Nat) (a : Array Nat) (hsize : a.size = 2 ^ L)
    (hlt : ∀ x ∈ a.toList, x < R) (hprim : IsPrimitiveRoot (toF ω) (2 ^ L)) :
    serialFft a ω L = (dft ω a.toList).toArray := by
  rw [serialFft_eq_stages, hsize]
  obtain ⟨_, hsz, hR, hinv⟩ := stages_inv L ω a hsize (array_getD_lt_R a hlt) hprim L (Nat.le_refl _)
  generalize ((List.range L).foldl (fun st _ => serialStage (2 ^ L) ω st)
      (bitreversePermute a L, 1)).1 = arr at hsz hR hinv
  have hLlt : 2 ^ L < 2 ^ 256 := order_lt_of_primitive (Nat.pow_pos (by omega)) hprim
  apply array_ext_getD
  · simp [hsz, hsize]
  · intro i hi
    rw [hsz] at hi
    rw [getD_toArray (dft ω a.toList)]
    apply (toF_inj_of_lt (hR i) (dft_getD_lt _ _ _)).mp
    have h := hinv 0 (by omega) 0 (by simp) i hi
    rw [Nat.zero_mul, Nat.zero_add] at h
    rw [h, toF_dft_getD ω a.toList i (by simp; omega) (by simp; omega), seqF_toList]
    simp only [Nat.pow_zero, pow_one, Nat.mul_one, brev, Nat.zero_add, Array.length_toList, hsize]

/-- list form -/
theorem serialFft_toList_eq_dft (L ω : Nat) (v : List Nat) (hlen : v.length = 2 ^ L)
    (hlt : ∀ x ∈ v, x < R) (hprim : IsPrimitiveRoot (toF ω) (2 ^ L)) :
    (serialFft v.toArray ω L).toList = dft ω v := by
  rw [serialFft_eq_dft L ω v.toArray (by simpa using hlen) (by simpa using hlt) hprim]

/-- **the iterative transform equals the radix-2 recursion** -/
theorem serialFft_eq_fftRec (L ω : Nat) (v : List Nat) (hlen : v.length = 2 ^ L)
    (hlt : ∀ x ∈ v, x < R) (hprim : IsPrimitiveRoot (toF ω) (2 ^ L)) :
    (serialFft v.toArray ω L).toList = fftRec L ω v := by
  rw [serialFft_toList_eq_dft L ω v hlen hlt hprim, fftRec_eq_dft L ω v hlen hlt hprim]

/-- **`bestFft` computes the DFT for every thread count** -/
theorem bestFft_eq_dft (L ω threads : Nat) (v : List Nat) (ht : 1 ≤ threads)
    (hlen : v.length = 2 ^ L) (hlt : ∀ x ∈ v, x < R) (hprim : IsPrimitiveRoot (toF ω) (2 ^ L)) :
    (bestFft v.toArray ω L threads).toList = dft ω v := by
  have hLlt : 2 ^ L < 2 ^ 256 := order_lt_of_primitive (Nat.pow_pos (by omega)) hprim
  have hL : L ≤ 256 := by
    by_contra hc
    have : 2 ^ 256 ≤ 2 ^ L := Nat.pow_le_pow_right (by omega) (by omega)
    omega
  rw [bestFft_eq_serialFft _ _ _ _ ht hL, serialFft_toList_eq_dft L ω v hlen hlt hprim]

end Plonk
