/-
  C02 (soundness), algebraic core, math level — no model code in this file, arbitrary field `K`.

  * `accumulator_closed_form`, `accumulator_telescopes_seq`, `accumulator_telescopes`,
    `accumulator_telescopes_poly` : an accumulator with `z(ω⁰) = 1` and
    `z(ω^(i+1))·den_i = z(ω^i)·num_i` (all `den_i ≠ 0`) forces `∏ num_i = ∏ den_i`.
  * `identity_at_point_lifts`, `identity_at_point_vanishes`, `idBad_card_le` : Schwartz–Zippel with
    the explicit bad set `idBad P T n = roots (P − T·(Xⁿ − 1))`.
  * `forced_proof_rejected_outside_bad_set` : a numerator that does not vanish on the domain fails
    the identity `P(z) = T(z)·Z_H(z)` for every candidate quotient outside the bad set.
  * `alphaBad`, `alpha_separation` : `g + α·p + α²·l = 0` with `α` outside a set of at most two
    elements forces `g = p = l = 0`; `alphaBadRows` the union over the rows.
  * `gammaBad`, `perm_product_sound_at` : the grand-product check at ONE pair `(β, γ)` outside the
    explicit bad sets `badBeta` (of `PermutationProduct`) and `gammaBad`.
-/
import Mathlib.Algebra.Polynomial.Roots
import Mathlib.Algebra.Polynomial.BigOperators
import Mathlib.Tactic.Ring
import Mathlib.Tactic.LinearCombination
import Mathlib.Tactic.FieldSimp
import Plonk.Proofs.QuotientNum
import Plonk.Proofs.PermutationProduct

namespace Plonk.Sound
open Polynomial Plonk.Quot

/-! ### 1. the accumulator telescopes -/

section telescope
variable {K : Type*} [Field K]

/-- `z₀ = 1`, `z_{i+1}·den_i = z_i·num_i` with non-zero denominators: `z_i` is the partial product -/
theorem accumulator_closed_form (n : ℕ) (num den z : ℕ → K) (hden : ∀ i < n, den i ≠ 0)
    (hz0 : z 0 = 1) (hstep : ∀ i < n, z (i + 1) * den i = z i * num i) :
    ∀ i ≤ n, z i = ∏ j ∈ Finset.range i, num j / den j := by
  intro i
  induction i with
  | zero => intro _; simp [hz0]
  | succ i ih =>
    intro hi
    have hd := hden i (by omega)
    rw [Finset.prod_range_succ, ← ih (by omega), mul_div_assoc', eq_div_iff hd]
    exact hstep i (by omega)

/-- **The accumulator telescopes** (sequence form): `z₀ = 1 = z_n` -/
theorem accumulator_telescopes_seq (n : ℕ) (num den z : ℕ → K) (hden : ∀ i < n, den i ≠ 0)
    (hz0 : z 0 = 1) (hzn : z n = 1) (hstep : ∀ i < n, z (i + 1) * den i = z i * num i) :
    ∏ i ∈ Finset.range n, num i = ∏ i ∈ Finset.range n, den i := by
  have h := accumulator_closed_form n num den z hden hz0 hstep n (le_refl n)
  rw [hzn, Finset.prod_div_distrib, eq_comm, div_eq_iff] at h
  · rw [h, one_mul]
  · exact Finset.prod_ne_zero_iff.mpr (fun j hj => hden j (Finset.mem_range.mp hj))

/-- **`accumulator_telescopes`**: `z` any function on the field (e.g. `Z.eval`), `ωⁿ = 1` -/
theorem accumulator_telescopes {ω : K} {n : ℕ} (hω : ω ^ n = 1) (z : K → K) (num den : ℕ → K)
    (hden : ∀ i < n, den i ≠ 0) (hz0 : z (ω ^ 0) = 1)
    (hstep : ∀ i < n, z (ω ^ (i + 1)) * den i = z (ω ^ i) * num i) :
    ∏ i ∈ Finset.range n, num i = ∏ i ∈ Finset.range n, den i :=
  accumulator_telescopes_seq n num den (fun i => z (ω ^ i)) hden hz0
    (by show z (ω ^ n) = 1; rw [hω]; rwa [pow_zero] at hz0) hstep

/-- the cyclic-next-row form (`(i+1) mod n`), as `numerator_at_root_poly` produces it -/
theorem accumulator_telescopes_cyclic {n : ℕ} (z num den : ℕ → K)
    (hden : ∀ i < n, den i ≠ 0) (hz0 : z 0 = 1)
    (hstep : ∀ i < n, num i * z i - den i * z ((i + 1) % n) = 0) :
    ∏ i ∈ Finset.range n, num i = ∏ i ∈ Finset.range n, den i := by
  refine accumulator_telescopes_seq n num den (fun i => z (i % n)) hden ?_ ?_ ?_
  · show z (0 % n) = 1
    rw [Nat.zero_mod]; exact hz0
  · show z (n % n) = 1
    rw [Nat.mod_self]; exact hz0
  · intro i hi
    show z ((i + 1) % n) * den i = z (i % n) * num i
    rw [Nat.mod_eq_of_lt hi]
    linear_combination -(hstep i hi)

/-- **Polynomial form.** If the two permutation identities
    `Z(ωX)·Den(X) − Z(X)·Num(X)` and `(Z(X) − 1)·L₁(X)` vanish on the domain `⟨ω⟩` and `Den` has no
    zero on the domain, then `∏ Num(ω^i) = ∏ Den(ω^i)`. -/
theorem accumulator_telescopes_poly {ω : K} {n : ℕ} (hω : IsPrimitiveRoot ω n) (hn : (n : K) ≠ 0)
    (Z Num Den : K[X]) (hden : ∀ i < n, Den.eval (ω ^ i) ≠ 0)
    (h1 : ∀ i < n, (shiftP ω Z * Den - Z * Num).eval (ω ^ i) = 0)
    (h2 : ∀ i < n, ((Z - 1) * L1P n).eval (ω ^ i) = 0) :
    ∏ i ∈ Finset.range n, Num.eval (ω ^ i) = ∏ i ∈ Finset.range n, Den.eval (ω ^ i) := by
  have hn0 : 0 < n := Nat.pos_of_ne_zero (fun h => hn (by rw [h, Nat.cast_zero]))
  apply accumulator_telescopes hω.pow_eq_one (fun x => Z.eval x) _ _ hden
  · have := h2 0 hn0
    rw [eval_mul, eval_L1P_root hω hn hn0, if_pos rfl, mul_one, eval_sub, eval_one] at this
    exact sub_eq_zero.mp this
  · intro i hi
    have := h1 i hi
    rw [eval_sub, eval_mul, eval_mul, eval_shiftP, ← pow_succ'] at this
    exact sub_eq_zero.mp this

end telescope

/-! ### 2. / 3. Schwartz–Zippel for the quotient identity -/

section sz
variable {K : Type*} [Field K]

theorem natDegree_X_pow_sub_one_le (n : ℕ) : (X ^ n - 1 : K[X]).natDegree ≤ n := by
  refine (natDegree_sub_le _ _).trans ?_
  rw [natDegree_X_pow, natDegree_one]
  exact max_le (le_refl _) (Nat.zero_le _)

variable [DecidableEq K]

/-- the explicit bad set of evaluation challenges: the roots of `P − T·(Xⁿ − 1)` -/
noncomputable def idBad (P T : K[X]) (n : ℕ) : Finset K := (P - T * (X ^ n - 1)).roots.toFinset

/-- `|idBad| ≤ max (deg P) (deg T + n)` -/
theorem idBad_card_le (P T : K[X]) (n : ℕ) :
    (idBad P T n).card ≤ max P.natDegree (T.natDegree + n) := by
  unfold idBad
  refine (Multiset.toFinset_card_le _).trans ((card_roots' _).trans ?_)
  refine (natDegree_sub_le _ _).trans (max_le_max (le_refl _) ?_)
  exact natDegree_mul_le.trans (Nat.add_le_add_left (natDegree_X_pow_sub_one_le n) _)

theorem idBad_card_le_of_le (P T : K[X]) (n dP dT : ℕ) (hP : P.natDegree ≤ dP)
    (hT : T.natDegree ≤ dT) : (idBad P T n).card ≤ max dP (dT + n) :=
  (idBad_card_le P T n).trans (max_le_max hP (Nat.add_le_add_right hT n))

/-- **`identity_at_point_lifts`** (Schwartz–Zippel with explicit bad set): the identity
    `P(z) = T(z)·Z_H(z)` at one point outside the roots of `P − T·Z_H` is a polynomial identity -/
theorem identity_at_point_lifts (P T : K[X]) (n : ℕ) (z : K)
    (h : P.eval z = T.eval z * (z ^ n - 1)) (hz : z ∉ idBad P T n) : P = T * (X ^ n - 1) := by
  by_contra hne
  apply hz
  have h0 : P - T * (X ^ n - 1) ≠ 0 := sub_ne_zero.mpr hne
  rw [idBad, Multiset.mem_toFinset, mem_roots h0, IsRoot, eval_sub, eval_mul, eval_sub, eval_pow,
    eval_X, eval_one, h, sub_self]

/-- … hence `P` vanishes on the whole domain -/
theorem identity_at_point_vanishes {ω : K} {n : ℕ} (hω : ω ^ n = 1) (P T : K[X]) (z : K)
    (h : P.eval z = T.eval z * (z ^ n - 1)) (hz : z ∉ idBad P T n) :
    ∀ i : ℕ, P.eval (ω ^ i) = 0 := by
  intro i
  have h1 : (ω ^ i) ^ n = 1 := by rw [← pow_mul, mul_comm, pow_mul, hω, one_pow]
  rw [identity_at_point_lifts P T n z h hz, eval_mul, eval_sub, eval_pow, eval_X, eval_one, h1,
    sub_self, mul_zero]

/-- … and is divisible by `Xⁿ − 1` -/
theorem identity_at_point_dvd (P T : K[X]) (n : ℕ) (z : K)
    (h : P.eval z = T.eval z * (z ^ n - 1)) (hz : z ∉ idBad P T n) : (X ^ n - 1 : K[X]) ∣ P :=
  ⟨T, by rw [identity_at_point_lifts P T n z h hz, mul_comm]⟩

/-- **`forced_proof_rejected_outside_bad_set`**: if the numerator `P` does not vanish somewhere on
    the domain, then for every candidate quotient `T` the identity `P(z) = T(z)·Z_H(z)` fails at
    every `z` outside `idBad P T n`, a set of at most `max (deg P) (deg T + n)` points. -/
theorem forced_proof_rejected_outside_bad_set {ω : K} {n : ℕ} (hω : ω ^ n = 1) (P : K[X])
    (hP : ∃ i : ℕ, P.eval (ω ^ i) ≠ 0) (T : K[X]) :
    (idBad P T n).card ≤ max P.natDegree (T.natDegree + n) ∧
    ∀ z, z ∉ idBad P T n → P.eval z ≠ T.eval z * (z ^ n - 1) := by
  refine ⟨idBad_card_le P T n, fun z hz h => ?_⟩
  obtain ⟨i, hi⟩ := hP
  exact hi (identity_at_point_vanishes hω P T z h hz i)

end sz

/-! ### 4. separation by `α` -/

section alpha
variable {K : Type*} [Field K]

/-- the polynomial `g + p·X + l·X²` in the challenge `α` -/
noncomputable def alphaPoly (g p l : K) : K[X] := C g + C p * X + C l * X ^ 2

theorem eval_alphaPoly (g p l α : K) : (alphaPoly g p l).eval α = g + α * p + α ^ 2 * l := by
  simp [alphaPoly]; ring

theorem natDegree_alphaPoly_le (g p l : K) : (alphaPoly g p l).natDegree ≤ 2 := by
  unfold alphaPoly
  refine (natDegree_add_le _ _).trans (max_le ((natDegree_add_le _ _).trans (max_le ?_ ?_)) ?_)
  · rw [natDegree_C]; omega
  · exact (natDegree_C_mul_le _ _).trans (by rw [natDegree_X]; omega)
  · exact (natDegree_C_mul_le _ _).trans (by rw [natDegree_X_pow])

theorem alphaPoly_eq_zero_iff (g p l : K) : alphaPoly g p l = 0 ↔ g = 0 ∧ p = 0 ∧ l = 0 := by
  constructor
  · intro h
    have c0 := congrArg (fun f => f.coeff 0) h
    have c1 := congrArg (fun f => f.coeff 1) h
    have c2 := congrArg (fun f => f.coeff 2) h
    simp [alphaPoly, coeff_X, coeff_X_pow] at c0 c1 c2
    exact ⟨c0, c1, c2⟩
  · rintro ⟨rfl, rfl, rfl⟩; simp [alphaPoly]

variable [DecidableEq K]

/-- the explicit bad set of one row: the (at most two) roots of `g + p·X + l·X²` -/
noncomputable def alphaBad (g p l : K) : Finset K := (alphaPoly g p l).roots.toFinset

theorem alphaBad_card_le (g p l : K) : (alphaBad g p l).card ≤ 2 :=
  (Multiset.toFinset_card_le _).trans ((card_roots' _).trans (natDegree_alphaPoly_le g p l))

/-- **`challenge_separation` (α)**: outside the bad set, the `α`-weighted sum vanishes only if
    each of the three summands vanishes -/
theorem alpha_separation (g p l α : K) (hα : α ∉ alphaBad g p l)
    (h : g + α * p + α ^ 2 * l = 0) : g = 0 ∧ p = 0 ∧ l = 0 := by
  rw [← alphaPoly_eq_zero_iff]
  by_contra hne
  apply hα
  rw [alphaBad, Multiset.mem_toFinset, mem_roots hne, IsRoot, eval_alphaPoly]
  exact h

/-- the union over the rows `i < n` -/
noncomputable def alphaBadRows (n : ℕ) (g p l : ℕ → K) : Finset K :=
  (Finset.range n).biUnion fun i => alphaBad (g i) (p i) (l i)

theorem alphaBadRows_card_le (n : ℕ) (g p l : ℕ → K) : (alphaBadRows n g p l).card ≤ 2 * n := by
  unfold alphaBadRows
  refine Finset.card_biUnion_le.trans ?_
  calc ∑ i ∈ Finset.range n, (alphaBad (g i) (p i) (l i)).card
      ≤ ∑ _i ∈ Finset.range n, 2 := Finset.sum_le_sum (fun i _ => alphaBad_card_le _ _ _)
    _ = 2 * n := by simp [mul_comm]

theorem alpha_separation_rows (n : ℕ) (g p l : ℕ → K) (α : K) (hα : α ∉ alphaBadRows n g p l)
    (h : ∀ i < n, g i + α * p i + α ^ 2 * l i = 0) : ∀ i < n, g i = 0 ∧ p i = 0 ∧ l i = 0 := by
  intro i hi
  refine alpha_separation _ _ _ α (fun hm => hα ?_) (h i hi)
  exact Finset.mem_biUnion.mpr ⟨i, Finset.mem_range.mpr hi, hm⟩

end alpha

/-! ### the grand-product check at one pair of challenges -/

section gamma
open Plonk.Perm
variable {K : Type} [Field K] [DecidableEq K] {ι : Type}

/-- the explicit bad set of `γ` (for a fixed `β`): the roots of the difference of the two sides,
    and the values that make a factor of the `σ` side vanish -/
noncomputable def gammaBad (S : Finset ι) (val idl : ι → K) (σ : ι → ι) (β : K) : Finset K :=
  (sidePoly S val idl β - sidePoly S val (fun p => idl (σ p)) β).roots.toFinset ∪
    S.image fun p => -(val p + β * idl (σ p))

theorem gammaBad_card_le (S : Finset ι) (val idl : ι → K) (σ : ι → ι) (β : K) :
    (gammaBad S val idl σ β).card ≤ S.card + S.card := by
  unfold gammaBad
  refine (Finset.card_union_le _ _).trans (Nat.add_le_add ?_ Finset.card_image_le)
  refine (Multiset.toFinset_card_le _).trans ((card_roots' _).trans ?_)
  exact (natDegree_sub_le _ _).trans
    (max_le (sidePoly_natDegree_le _ _ _ _) (sidePoly_natDegree_le _ _ _ _))

/-- outside `gammaBad` no factor of the `σ` side vanishes -/
theorem den_factor_ne_zero (S : Finset ι) (val idl : ι → K) (σ : ι → ι) (β γ : K)
    (hγ : γ ∉ gammaBad S val idl σ β) : ∀ p ∈ S, val p + β * idl (σ p) + γ ≠ 0 := by
  intro p hp h0
  apply hγ
  unfold gammaBad
  refine Finset.mem_union_right _ (Finset.mem_image.mpr ⟨p, hp, ?_⟩)
  linear_combination -h0

/-- **soundness of the grand-product check at one `(β, γ)`**: `β` outside `badBeta` (at most `|S|²`
    values), `γ` outside `gammaBad` (at most `2|S|` values) -/
theorem perm_product_sound_at (S : Finset ι) (val idl : ι → K) (σ : ι → ι)
    (hσ : ∀ p ∈ S, σ p ∈ S) (hinj : Set.InjOn idl (S : Set ι)) (β γ : K)
    (hβ : β ∉ badBeta S val idl σ) (hγ : γ ∉ gammaBad S val idl σ β)
    (h : ∏ p ∈ S, (val p + β * idl p + γ) = ∏ p ∈ S, (val p + β * idl (σ p) + γ)) :
    ∀ p ∈ S, val (σ p) = val p := by
  apply sound_of_sidePoly_eq S val idl σ hσ hinj β hβ
  by_contra hne
  apply hγ
  unfold gammaBad
  refine Finset.mem_union_left _ ?_
  rw [Multiset.mem_toFinset, mem_roots (sub_ne_zero.mpr hne), IsRoot, eval_sub, sidePoly_eval,
    sidePoly_eval, h, sub_self]

end gamma

end Plonk.Sound
