/-
  C02 (soundness) — concrete data for the non-vacuity examples of `Plonk/Props/C02.lean`.
-/
import Mathlib.RingTheory.RootsOfUnity.PrimitiveRoots
import Plonk.Proofs.SoundnessCore
import Plonk.Proofs.SoundnessOpen
import Plonk.Proofs.QuotientExamples

namespace Plonk.Sound
open Polynomial Plonk Plonk.Quot

theorem two_ne_zero_F : (2 : F) ≠ 0 := by
  have h : toF 2 ≠ 0 := by
    rw [Ne, toF_eq_zero_of_lt (by have := ten_lt_R; omega)]; decide
  simpa using h

theorem neg_one_ne_one_F : (-1 : F) ≠ 1 := by
  intro h
  apply two_ne_zero_F
  linear_combination -h

theorem neg_one_sq_F : (-1 : F) ^ 2 = 1 := by ring

/-- `−1` is a primitive square root of unity of `F` -/
theorem neg_one_primitive : IsPrimitiveRoot (-1 : F) 2 := by
  refine IsPrimitiveRoot.mk_of_lt _ (by omega) neg_one_sq_F ?_
  intro l hl0 hl2
  have : l = 1 := by omega
  subst this
  rw [pow_one]
  exact neg_one_ne_one_F

theorem natCast_two_ne_zero_F : ((2 : ℕ) : F) ≠ 0 := by
  simpa using two_ne_zero_F

/-- the accumulator `Z = 2 − X` over the domain `{1, −1}`: `Z(1) = 1`, `Z(−1) = 3` -/
noncomputable def exZ : F[X] := C 2 - X
noncomputable def exNum : F[X] := C 2 + X
noncomputable def exDen : F[X] := C 2 - X

theorem pow_neg_one_cases (i : ℕ) (hi : i < 2) : ((-1 : F) ^ i = 1 ∧ i = 0) ∨ ((-1 : F) ^ i = -1 ∧ i = 1) := by
  interval_cases i
  · left; simp
  · right; simp

theorem ex_telescope_hyps :
    (∀ i < 2, exDen.eval ((-1 : F) ^ i) ≠ 0) ∧
    (∀ i < 2, (shiftP (-1) exZ * exDen - exZ * exNum).eval ((-1 : F) ^ i) = 0) ∧
    (∀ i < 2, ((exZ - 1) * L1P 2).eval ((-1 : F) ^ i) = 0) := by
  have h3 := three_ne_zero_F
  refine ⟨?_, ?_, ?_⟩
  · intro i hi
    rcases pow_neg_one_cases i hi with ⟨h, -⟩ | ⟨h, -⟩ <;> rw [h] <;> simp [exDen]
    · norm_num
    · intro h0; apply h3; linear_combination h0
  · intro i hi
    rcases pow_neg_one_cases i hi with ⟨h, -⟩ | ⟨h, -⟩ <;> rw [h] <;>
      simp [exDen, exZ, exNum, eval_shiftP] <;> ring
  · intro i hi
    rw [eval_mul, eval_L1P_root neg_one_primitive natCast_two_ne_zero_F hi]
    rcases pow_neg_one_cases i hi with ⟨h, h0⟩ | ⟨h, h1⟩
    · rw [h, h0]; simp [exZ]; norm_num
    · rw [h1]; simp

/-- a bad set of cardinality `≤ 0` is empty -/
theorem aggBad_one_empty (δ : ℕ → F) : aggBad 1 δ = ∅ := by
  have := aggBad_card_le 1 δ
  exact Finset.card_eq_zero.mp (by omega)

end Plonk.Sound
