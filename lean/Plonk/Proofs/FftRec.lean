/-
  C19 (FFT half): bridge from the model's `dft` (lists of `Nat` mod `R`) to the field-level `dftN`,
  and correctness of the radix-2 recursion `fftRec` (decimation in time).
-/
import Plonk.Model.FFT
import Plonk.Proofs.FieldBridge
import Plonk.Proofs.FftMath

namespace Plonk
open Finset FftMath

/-! ### list helpers -/

/-- a list of model values read as a sequence of field elements (zero past the end) -/
def seqF (v : List Nat) : ℕ → F := fun j => toF (v.getD j 0)

theorem getD_map_range (f : Nat → Nat) (n i : Nat) (h : i < n) :
    ((List.range n).map f).getD i 0 = f i := by
  simp [List.getD_eq_getElem?_getD, h]

theorem getD_of_le (v : List Nat) (i : Nat) (h : v.length ≤ i) : v.getD i 0 = 0 := by
  simp [List.getD_eq_getElem?_getD, h]

theorem getD_eq_getElem' (v : List Nat) (i : Nat) (h : i < v.length) : v.getD i 0 = v[i] := by
  simp [List.getD_eq_getElem?_getD, h]

theorem getD_lt_R (v : List Nat) (hv : ∀ x ∈ v, x < R) (i : Nat) : v.getD i 0 < R := by
  by_cases h : i < v.length
  · rw [getD_eq_getElem' v i h]; exact hv _ (List.getElem_mem h)
  · rw [getD_of_le v i (by omega)]; exact R_pos

theorem list_ext_getD (l₁ l₂ : List Nat) (hl : l₁.length = l₂.length)
    (h : ∀ i, i < l₁.length → l₁.getD i 0 = l₂.getD i 0) : l₁ = l₂ := by
  apply List.ext_getElem hl
  intro i h1 h2
  rw [← getD_eq_getElem' l₁ i h1, ← getD_eq_getElem' l₂ i h2]
  exact h i h1

theorem getD_append' (l₁ l₂ : List Nat) (i : Nat) :
    (l₁ ++ l₂).getD i 0 = if i < l₁.length then l₁.getD i 0 else l₂.getD (i - l₁.length) 0 := by
  simp only [List.getD_eq_getElem?_getD, List.getElem?_append]
  split <;> rfl

theorem seqF_of_le (v : List Nat) (i : Nat) (h : v.length ≤ i) : seqF v i = 0 := by
  unfold seqF; rw [getD_of_le v i h]; simp

/-! ### `evaluate'` and `dft` -/

/-- the accumulator pair of `evaluate'` -/
theorem toF_evaluate'_fold (p : List Nat) (z : Nat) : ∀ (a w : Nat),
    toF (p.foldl (fun (acc : Nat × Nat) c => (fadd acc.1 (fmul acc.2 c), fmul acc.2 z)) (a, w)).1
      = toF a + toF w * ∑ j ∈ range p.length, seqF p j * toF z ^ j := by
  induction p with
  | nil => intro a w; simp
  | cons c p ih =>
    intro a w
    rw [List.foldl_cons, ih, List.length_cons, sum_range_succ']
    have e : ∀ j, seqF (c :: p) (j + 1) = seqF p j := fun j => rfl
    have e0 : seqF (c :: p) 0 = toF c := rfl
    simp only [e, e0, toF_fadd, toF_fmul, pow_zero, mul_one, pow_succ]
    rw [mul_add, mul_sum, mul_sum, add_assoc]
    congr 1
    rw [add_comm]
    congr 1
    apply sum_congr rfl; intro j _; ring

theorem toF_evaluate' (p : List Nat) (z : Nat) :
    toF (dft.Poly.evaluate' p z) = ∑ j ∈ range p.length, seqF p j * toF z ^ j := by
  unfold dft.Poly.evaluate'
  rw [toF_evaluate'_fold]; simp

theorem evaluate'_fold_lt (p : List Nat) (z : Nat) : ∀ (a w : Nat), a < R →
    (p.foldl (fun (acc : Nat × Nat) c => (fadd acc.1 (fmul acc.2 c), fmul acc.2 z)) (a, w)).1 < R := by
  induction p with
  | nil => intro a w h; exact h
  | cons c p ih => intro a w _; rw [List.foldl_cons]; exact ih _ _ (fadd_lt _ _)

theorem evaluate'_lt (p : List Nat) (z : Nat) : dft.Poly.evaluate' p z < R :=
  evaluate'_fold_lt p z 0 _ R_pos

@[simp] theorem dft_length (ω : Nat) (v : List Nat) : (dft ω v).length = v.length := by
  simp [dft]

theorem dft_getD (ω : Nat) (v : List Nat) (i : Nat) (hi : i < v.length) :
    (dft ω v).getD i 0 = dft.Poly.evaluate' v (fpow ω i) := by
  unfold dft; rw [getD_map_range _ _ _ hi]

theorem dft_getD_lt (ω : Nat) (v : List Nat) (i : Nat) : (dft ω v).getD i 0 < R := by
  by_cases hi : i < v.length
  · rw [dft_getD ω v i hi]; exact evaluate'_lt _ _
  · rw [getD_of_le _ _ (by simp; omega)]; exact R_pos

theorem dft_mem_lt (ω : Nat) (v : List Nat) : ∀ x ∈ dft ω v, x < R := by
  intro x hx
  obtain ⟨i, hi, rfl⟩ := List.getElem_of_mem hx
  rw [← getD_eq_getElem' _ i hi]; exact dft_getD_lt ω v i

/-- **bridge**: the `toF`-image of the model's `dft` is the field-level DFT (the bound on the
    length is the range in which the model's `fpow` is exponentiation) -/
theorem toF_dft_getD (ω : Nat) (v : List Nat) (i : Nat) (hi : i < v.length)
    (hlen : v.length ≤ 2 ^ 256) :
    toF ((dft ω v).getD i 0) = dftN (toF ω) v.length (seqF v) i := by
  rw [dft_getD ω v i hi, toF_evaluate', toF_fpow _ _ (by omega)]
  unfold dftN
  apply sum_congr rfl; intro j _
  rw [pow_mul]

/-- the same with `Fin`-indexed vectors -/
theorem toF_dft_getD_fin (ω : Nat) (v : List Nat) (hlen : v.length ≤ 2 ^ 256) (i : Fin v.length) :
    toF ((dft ω v).getD i 0) = dftF (toF ω) (fun j : Fin v.length => seqF v j) i := by
  rw [toF_dft_getD ω v i i.2 hlen, dftF_eq_dftN]

/-! ### roots of unity in `F` -/

theorem R_lt_two_pow : R < 2 ^ 256 := by decide +kernel

/-- a primitive `n`-th root of unity in `F` has `n ∣ R − 1`; in particular `n < 2^256` -/
theorem order_lt_of_primitive {ζ : F} {n : ℕ} (hn : 0 < n) (h : IsPrimitiveRoot ζ n) :
    n < 2 ^ 256 := by
  have hz : ζ ≠ 0 := h.ne_zero (by omega)
  have h1 : ζ ^ (R - 1) = 1 := ZMod.pow_card_sub_one_eq_one hz
  have h2 : n ∣ R - 1 := h.dvd_of_pow_eq_one _ h1
  have h3 : n ≤ R - 1 := Nat.le_of_dvd (by have := R_gt_one; omega) h2
  have := R_lt_two_pow
  omega

/-! ### the recursion -/

theorem fftRec_succ (k ω : Nat) (v : List Nat) :
    fftRec (k + 1) ω v
      = ((List.range (v.length / 2)).map fun i =>
            fadd ((fftRec k (fsq ω) ((List.range (v.length / 2)).map fun i => v.getD (2 * i) 0)).getD i 0)
              (((List.range (v.length / 2)).map fun i => fmul (fpow ω i)
                ((fftRec k (fsq ω) ((List.range (v.length / 2)).map fun i => v.getD (2 * i + 1) 0)).getD i 0)).getD i 0))
        ++ ((List.range (v.length / 2)).map fun i =>
            fsub ((fftRec k (fsq ω) ((List.range (v.length / 2)).map fun i => v.getD (2 * i) 0)).getD i 0)
              (((List.range (v.length / 2)).map fun i => fmul (fpow ω i)
                ((fftRec k (fsq ω) ((List.range (v.length / 2)).map fun i => v.getD (2 * i + 1) 0)).getD i 0)).getD i 0)) :=
  rfl

theorem map_range_mem_lt (v : List Nat) (hv : ∀ x ∈ v, x < R) (g : Nat → Nat) (n : Nat) :
    ∀ x ∈ (List.range n).map (fun i => v.getD (g i) 0), x < R := by
  intro x hx
  rw [List.mem_map] at hx
  obtain ⟨i, _, rfl⟩ := hx
  exact getD_lt_R v hv _

theorem dftN_congr {K : Type*} [Field K] (ω : K) (n : ℕ) (u v : ℕ → K) (i : ℕ)
    (h : ∀ j, j < n → u j = v j) : dftN ω n u i = dftN ω n v i := by
  unfold dftN
  apply sum_congr rfl; intro j hj
  rw [h j (mem_range.mp hj)]

/-- **the radix-2 recursion computes the DFT** -/
theorem fftRec_eq_dft (k : Nat) : ∀ (ω : Nat) (v : List Nat), v.length = 2 ^ k →
    (∀ x ∈ v, x < R) → IsPrimitiveRoot (toF ω) (2 ^ k) → fftRec k ω v = dft ω v := by
  induction k with
  | zero =>
    intro ω v hlen hv _
    match v, hlen with
    | [x], _ =>
      have hx : x < R := hv x (by simp)
      show [x] = dft ω [x]
      apply list_ext_getD _ _ (by simp)
      intro i hi
      have hi0 : i = 0 := by simpa using hi
      subst hi0
      apply (toF_inj_of_lt (getD_lt_R _ hv 0) (dft_getD_lt _ _ _)).mp
      rw [toF_dft_getD ω [x] 0 (by simp) (by simp)]
      simp [dftN, seqF]
  | succ k ih =>
    intro ω v hlen hv hprim
    have hpos : 0 < 2 ^ k := Nat.pow_pos (by omega)
    have hlen2 : v.length = 2 * 2 ^ k := by rw [hlen, Nat.pow_succ]; ring
    have hhalf : v.length / 2 = 2 ^ k := by omega
    have hprim2 : IsPrimitiveRoot (toF ω) (2 * 2 ^ k) := by rwa [← hlen2, hlen]
    have hsq : IsPrimitiveRoot (toF (fsq ω)) (2 ^ k) := by
      rw [toF_fsq, ← pow_two]; exact isPrimitiveRoot_sq hprim2
    have hbound : 2 * 2 ^ k < 2 ^ 256 := order_lt_of_primitive (by omega) hprim2
    rw [fftRec_succ, hhalf]
    rw [ih (fsq ω) _ (by simp) (map_range_mem_lt v hv _ _) hsq,
      ih (fsq ω) _ (by simp) (map_range_mem_lt v hv _ _) hsq]
    apply list_ext_getD
    · simp; omega
    · intro i hi
      have hi2 : i < 2 * 2 ^ k := by simp at hi; omega
      -- field-level values of the two half-size transforms
      have he : ∀ j, j < 2 ^ k →
          toF ((dft (fsq ω) ((List.range (2 ^ k)).map fun i => v.getD (2 * i) 0)).getD j 0)
            = dftN (toF ω ^ 2) (2 ^ k) (fun l => seqF v (2 * l)) j := by
        intro j hj
        rw [toF_dft_getD _ _ j (by simpa using hj) (by simp; omega)]
        simp only [List.length_map, List.length_range, toF_fsq, ← pow_two]
        apply dftN_congr
        intro l hl
        simp only [seqF]; rw [getD_map_range _ _ _ hl]
      have ho : ∀ j, j < 2 ^ k →
          toF ((dft (fsq ω) ((List.range (2 ^ k)).map fun i => v.getD (2 * i + 1) 0)).getD j 0)
            = dftN (toF ω ^ 2) (2 ^ k) (fun l => seqF v (2 * l + 1)) j := by
        intro j hj
        rw [toF_dft_getD _ _ j (by simpa using hj) (by simp; omega)]
        simp only [List.length_map, List.length_range, toF_fsq, ← pow_two]
        apply dftN_congr
        intro l hl
        simp only [seqF]; rw [getD_map_range _ _ _ hl]
      have hrhs := toF_dft_getD ω v i (by omega) (by omega)
      rw [hlen2] at hrhs
      rw [getD_append']
      simp only [List.length_map, List.length_range]
      split
      · next hlt =>
        rw [getD_map_range _ _ _ hlt, getD_map_range _ _ _ hlt]
        apply (toF_inj_of_lt (fadd_lt _ _) (dft_getD_lt _ _ _)).mp
        rw [hrhs, (dftN_butterfly hpos hprim2 (seqF v) i).1, toF_fadd, toF_fmul, he i hlt,
          ho i hlt, toF_fpow _ _ (by omega)]
      · next hge =>
        have hlt : i - 2 ^ k < 2 ^ k := by omega
        rw [getD_map_range _ _ _ hlt, getD_map_range _ _ _ hlt]
        apply (toF_inj_of_lt (fsub_lt _ _) (dft_getD_lt _ _ _)).mp
        have hi' : i = (i - 2 ^ k) + 2 ^ k := by omega
        rw [hrhs]
        conv_rhs => rw [hi']
        rw [(dftN_butterfly hpos hprim2 (seqF v) (i - 2 ^ k)).2, toF_fsub, toF_fmul,
          he _ hlt, ho _ hlt, toF_fpow _ _ (by omega)]

end Plonk
