/-
  C09 — lemmas for the range component (`range.rs`): the base-4 accumulator chain in the field,
  the explicit output state of `rangeCheckEven`, the row-by-row meaning of the emitted gates.
-/
import Mathlib.Tactic.IntervalCases
import Mathlib.Tactic.NormNum
import Mathlib.Tactic.Ring
import Mathlib.Tactic.Linarith
import Plonk.Proofs.Frame

namespace Plonk
open Plonk Plonk.Composer

/-! ### the accumulator chain in the field -/

theorem deltaF_zero {x : F} (h : deltaF x = 0) : ∃ q : ℕ, q < 4 ∧ x = (q : F) := by
  unfold deltaF at h
  rcases mul_eq_zero.mp h with h | h
  · rcases mul_eq_zero.mp h with h | h
    · rcases mul_eq_zero.mp h with h | h
      · exact ⟨0, by norm_num, by simpa using h⟩
      · exact ⟨1, by norm_num, by simpa using sub_eq_zero.mp h⟩
    · exact ⟨2, by norm_num, by simpa using sub_eq_zero.mp h⟩
  · exact ⟨3, by norm_num, by simpa using sub_eq_zero.mp h⟩

theorem deltaF_of_lt {q : ℕ} (hq : q < 4) : deltaF ((q : ℕ) : F) = 0 := by
  unfold deltaF
  interval_cases q <;> simp

@[simp] theorem deltaF_zero_arg : deltaF 0 = 0 := by simp [deltaF]

/-- a base-4 accumulator chain starting at 0 is a natural number below `4^k` -/
theorem chain_bound (acc : ℕ → F) (k : ℕ) (h0 : acc 0 = 0)
    (hstep : ∀ i < k, deltaF (acc (i+1) - 4 * acc i) = 0) :
    ∃ n : ℕ, n < 4^k ∧ acc k = (n : F) := by
  induction k with
  | zero => exact ⟨0, by norm_num, by simpa using h0⟩
  | succ k ih =>
    obtain ⟨n, hn, hk⟩ := ih (fun i hi => hstep i (by omega))
    obtain ⟨q, hq, hx⟩ := deltaF_zero (hstep k (by omega))
    refine ⟨4*n + q, ?_, ?_⟩
    · rw [pow_succ]; omega
    · have : acc (k+1) = 4 * acc k + q := by rw [← hx]; ring
      rw [this, hk]; push_cast; ring

theorem two_pow_254_lt_R : 2 ^ 254 < R := by decide +kernel
theorem R_lt_two_pow_255 : R < 2 ^ 255 := by decide +kernel

theorem val_toF_natCast_lt {n m : ℕ} {x : F} (h : x = (n : F)) (hn : n < m) (hm : m ≤ R) :
    x.val < m := by
  rw [h, ZMod.val_natCast, Nat.mod_eq_of_lt (by omega)]; exact hn

/-! ### honest accumulators (naturals) -/

theorem two_pow_two_mul (m : ℕ) : 2 ^ (2 * m) = 4 ^ m := by
  rw [pow_mul]; norm_num

theorem rangeAcc_zero_lt (v k : ℕ) : Composer.rangeAcc v k 0 < 4 := by
  unfold Composer.rangeAcc; exact Nat.mod_lt _ (by norm_num)

theorem rangeAcc_succ (v k j : ℕ) (hj : j + 1 < k) :
    ∃ q, q < 4 ∧ Composer.rangeAcc v k (j+1) = 4 * Composer.rangeAcc v k j + q := by
  unfold Composer.rangeAcc
  obtain ⟨m, rfl⟩ : ∃ m, k = m + j + 2 := ⟨k - j - 2, by omega⟩
  have e1 : m + j + 2 - 1 - (j+1) = m := by omega
  have e2 : m + j + 2 - 1 - j = m + 1 := by omega
  rw [e1, e2, two_pow_two_mul, two_pow_two_mul]
  refine ⟨(v / 4^m) % 4, Nat.mod_lt _ (by norm_num), ?_⟩
  have h4 : (4:ℕ) ^ (j + 1 + 1) = 4 * 4 ^ (j+1) := by rw [pow_succ]; ring
  have h5 : v / 4 ^ (m+1) = v / 4 ^ m / 4 := by rw [pow_succ, Nat.div_div_eq_div_mul]
  rw [h4, Nat.mod_mul, h5]
  ring

theorem rangeAcc_last (v k : ℕ) (hk : 0 < k) : Composer.rangeAcc v k (k-1) = v % 4 ^ k := by
  unfold Composer.rangeAcc
  have e1 : k - 1 - (k-1) = 0 := by omega
  have e2 : k - 1 + 1 = k := by omega
  rw [e1, e2]; simp

namespace Composer

/-! ### straight-line helpers -/

theorem run_bind' {α β} (m : CM α) (f : α → CM β) (c : Composer) :
    (m >>= f).run c = (f (m.run c).1).run (m.run c).2 := rfl

theorem appendWitnesses_run (l : List Nat) (c : Composer) :
    (appendWitnesses l).run c = ((), { c with wit := c.wit ++ (l.map (· % R)).toArray }) := by
  induction l generalizing c with
  | nil => simp [appendWitnesses]; rfl
  | cons v vs ih =>
    rw [appendWitnesses, run_bind', ih]
    simp

theorem appendCustomGates_run (l : List Constraint) (h : ∀ s ∈ l, s.hasPi = false)
    (c : Composer) :
    (appendCustomGates l).run c =
      ((), { c with gates := c.gates ++ (l.map Constraint.toGate).toArray }) := by
  induction l generalizing c with
  | nil => simp [appendCustomGates]; rfl
  | cons v vs ih =>
    rw [appendCustomGates, run_bind', ih (fun s hs => h s (List.mem_cons_of_mem _ hs))]
    have := h v (List.mem_cons_self)
    simp [this]

/-- no public input is registered for a row that does not exist yet (composer invariant:
    `append_custom_gate` only ever registers the row it is pushing) -/
def PiFresh (c : Composer) : Prop := ∀ i, c.gates.size ≤ i → c.piAt i = 0

theorem piFresh_initialized : PiFresh initialized := by
  intro i _; rfl

/-- value of an old witness after appending -/
theorem val_append_lt (c : Composer) (l : Array Nat) {i : Nat} (h : i < c.wit.size) (g p) :
    ({ gates := g, wit := c.wit ++ l, pis := p } : Composer).val i = c.val i := by
  simp [val, Array.getElem?_append_left h]

theorem val_append_ge (c : Composer) (l : Array Nat) (j : Nat) (g p) :
    ({ gates := g, wit := c.wit ++ l, pis := p } : Composer).val (c.wit.size + j) = l.getD j 0 := by
  simp [val, Array.getElem?_append_right]

/-- meaning of a row given the two gates involved -/
theorem rowHoldsW_of_get {c : Composer} {w : Nat → Nat} {i : Nat} {g g' : Gate}
    (h1 : c.gates[i]? = some g) (h2 : c.gates[i+1]? = some g') (hp : c.piAt i = 0) :
    c.rowHoldsW w i =
      rowHolds g (w g.a) (w g.b) (w g.c) (w g.d) (w g'.a) (w g'.b) (w g'.d) 0 := by
  unfold rowHoldsW rowValsW gateAt
  simp only [Array.getD_eq_getD_getElem?]
  rw [h1, h2, hp]; rfl

theorem rowHoldsW_of_get_plain {c : Composer} {w : Nat → Nat} {i : Nat} {g : Gate}
    (h1 : c.gates[i]? = some g) (hg : Gate.plain g) (hp : c.piAt i = 0) :
    c.rowHoldsW w i = rowHolds g (w g.a) (w g.b) (w g.c) (w g.d) 0 0 0 0 := by
  unfold rowHoldsW rowValsW gateAt
  simp only [Array.getD_eq_getD_getElem?]
  rw [h1, hp]
  exact rowHolds_plain_next hg ..

/-- rows of `c'` keep their meaning in any extension, when the last gate of `c'` is plain -/
theorem Extends.rowsHoldW_iff {c' c'' : Composer} (h : Extends c' c'') (w : Nat → Nat) (lo : Nat)
    (hlast : ∀ i, i + 1 = c'.gates.size → Gate.plain (c'.gateAt i)) :
    c''.rowsHoldW w lo c'.gates.size ↔ c'.rowsHoldW w lo c'.gates.size := by
  have key : ∀ i, i < c'.gates.size → c''.rowHoldsW w i = c'.rowHoldsW w i := by
    intro i hi
    by_cases h1 : i + 1 < c'.gates.size
    · exact h.rowHoldsW_eq w h1
    · exact h.rowHoldsW_eq_of_plain w hi (hlast i (by omega))
  constructor
  · intro H i h1 h2; rw [← key i h2]; exact H i h1 h2
  · intro H i h1 h2; rw [key i h2]; exact H i h1 h2

/-! ### layout arithmetic of `range_check_even` -/

def rcGates (n : Nat) : Nat := n / 8 + (if n % 8 != 0 then 1 else 0)
def rcQuads (n : Nat) : Nat := rcGates n * 4
def rcPad (n : Nat) : Nat := 1 + ((rcQuads n * 2 - n) / 2)
def rcK (n : Nat) : Nat := rcQuads n + 1 - rcPad n

theorem rcGates_eq (n : Nat) : rcGates n = (n + 7) / 8 := by
  unfold rcGates; split <;> rename_i h <;> simp at h <;> omega

theorem rcK_eq {n : Nat} (hn : n % 2 = 0) : rcK n = n / 2 := by
  unfold rcK rcPad rcQuads; rw [rcGates_eq]; omega

theorem rcPad_pos (n : Nat) : 1 ≤ rcPad n := by unfold rcPad; omega

theorem rcPad_add_k {n : Nat} (hn : n % 2 = 0) : rcPad n + rcK n = rcQuads n + 1 := by
  unfold rcK rcPad rcQuads; rw [rcGates_eq]; omega

theorem rangeCheckEven_run_pos (x n : Nat) (hn : n ≠ 0) (c : Composer) :
    (rangeCheckEven x n).run c =
      (if rcK n > 0 then assertEqual (c.wit.size + rcK n - 1) x else pure ()).run
        ((appendCustomGates (rangeGates c.wit.size (rcPad n) (rcQuads n) (rcGates n))).run
          ((appendWitnesses ((List.range (rcK n)).map (rangeAcc (c.val x) (rcK n)))).run c).2).2 := by
  have hn' : (n == 0) = false := by simpa using hn
  unfold rangeCheckEven
  simp only [hn']
  rfl

theorem rangeCheckEven_run_zero (x : Nat) (c : Composer) :
    (rangeCheckEven x 0).run c = (appendGate { ql := 1, a := x }).run c := rfl

/-- the gate of `assert_equal(a, b)` -/
def eqGate (a b : Nat) : Gate :=
  (Constraint.arithmetic { ql := 1, qr := R - 1, a := a, b := b }).toGate

/-- explicit output state of `range_check_even` for a nonzero even width -/
def rangeEvenOut (c : Composer) (x n : Nat) : Composer :=
  { gates := c.gates ++
      ((rangeGates c.wit.size (rcPad n) (rcQuads n) (rcGates n)).map Constraint.toGate).toArray
      ++ #[eqGate (c.wit.size + rcK n - 1) x],
    wit := c.wit ++ (((List.range (rcK n)).map (rangeAcc (c.val x) (rcK n))).map (· % R)).toArray,
    pis := c.pis }

theorem rangeGates_hasPi (base pad Q G : Nat) :
    ∀ s ∈ rangeGates base pad Q G, s.hasPi = false := by
  intro s hs
  simp only [rangeGates, List.mem_append, List.mem_map, List.mem_range, List.mem_singleton] at hs
  rcases hs with ⟨g, _, rfl⟩ | rfl <;> rfl

theorem rangeCheckEven_run_even (x n : Nat) (hn : n ≠ 0) (hk : 0 < rcK n) (c : Composer) :
    (rangeCheckEven x n).run c = ((), rangeEvenOut c x n) := by
  rw [rangeCheckEven_run_pos x n hn, appendWitnesses_run,
    appendCustomGates_run _ (rangeGates_hasPi _ _ _ _)]
  simp only [gt_iff_lt, hk, if_true]
  rfl

/-! ### the emitted rows -/

/-- the `g`-th selected range row -/
def rangeGateAt (base pad Q g : Nat) : Gate :=
  (Constraint.range
      { a := rangeSlot base pad Q (4*g+3), b := rangeSlot base pad Q (4*g+2),
        c := rangeSlot base pad Q (4*g+1), d := rangeSlot base pad Q (4*g) }).toGate

/-- the zeroed closing row -/
def closeGate (d : Nat) : Gate := ({ d := d } : Constraint).toGate

theorem rangeGates_length (base pad Q G : Nat) : (rangeGates base pad Q G).length = G + 1 := by
  simp [rangeGates]

theorem rangeGates_get_lt (base pad Q G g : Nat) (hg : g < G) :
    ((rangeGates base pad Q G).map Constraint.toGate)[g]? = some (rangeGateAt base pad Q g) := by
  simp [rangeGates, List.getElem?_append_left, hg, rangeGateAt]

theorem rangeGates_get_eq (base pad Q G : Nat) :
    ((rangeGates base pad Q G).map Constraint.toGate)[G]? = some (closeGate (rangeSlot base pad Q Q)) := by
  simp [rangeGates, closeGate]

theorem rangeEvenOut_gates_size (c : Composer) (x n : Nat) :
    (rangeEvenOut c x n).gates.size = c.gates.size + rcGates n + 2 := by
  simp [rangeEvenOut, rangeGates_length]; omega

theorem rangeEvenOut_get_lt (c : Composer) (x n g : Nat) (hg : g < rcGates n) :
    (rangeEvenOut c x n).gates[c.gates.size + g]? =
      some (rangeGateAt c.wit.size (rcPad n) (rcQuads n) g) := by
  unfold rangeEvenOut
  simp only
  rw [Array.getElem?_append_left (by simp [rangeGates_length]; omega),
    Array.getElem?_append_right (by omega)]
  simp only [Nat.add_sub_cancel_left, List.getElem?_toArray]
  exact rangeGates_get_lt _ _ _ _ _ hg

theorem rangeEvenOut_get_close (c : Composer) (x n : Nat) :
    (rangeEvenOut c x n).gates[c.gates.size + rcGates n]? =
      some (closeGate (rangeSlot c.wit.size (rcPad n) (rcQuads n) (rcQuads n))) := by
  unfold rangeEvenOut
  simp only
  rw [Array.getElem?_append_left (by simp [rangeGates_length]),
    Array.getElem?_append_right (by omega)]
  simp only [Nat.add_sub_cancel_left, List.getElem?_toArray]
  exact rangeGates_get_eq ..

theorem rangeEvenOut_get_eq (c : Composer) (x n : Nat) :
    (rangeEvenOut c x n).gates[c.gates.size + rcGates n + 1]? =
      some (eqGate (c.wit.size + rcK n - 1) x) := by
  unfold rangeEvenOut
  simp only
  rw [Array.getElem?_append_right (by simp [rangeGates_length]; omega)]
  simp [rangeGates_length]


theorem rangeEvenOut_piAt (c : Composer) (x n i : Nat) :
    (rangeEvenOut c x n).piAt i = c.piAt i := rfl

theorem eqGate_plain (a b : Nat) : Gate.plain (eqGate a b) := ⟨rfl, rfl, rfl, rfl⟩
theorem closeGate_plain (d : Nat) : Gate.plain (closeGate d) := ⟨rfl, rfl, rfl, rfl⟩

theorem rowHolds_eqGate (a b va vb vc vd an bn dn : Nat) :
    rowHolds (eqGate a b) va vb vc vd an bn dn 0 = true ↔ toF va = toF vb := by
  rw [rowHolds_arith _ rfl rfl rfl rfl]
  unfold arithF eqGate
  simp only [Constraint.arithmetic, Constraint.fromExternal, Constraint.toGate, toF_R_sub_one,
    toF_zero, toF_one]
  constructor <;> intro h <;> linear_combination h

theorem rowHolds_closeGate (d va vb vc vd an bn dn : Nat) :
    rowHolds (closeGate d) va vb vc vd an bn dn 0 = true := by
  rw [rowHolds_arith _ rfl rfl rfl rfl]
  unfold arithF closeGate
  simp [Constraint.toGate]

/-- the quad constraint between consecutive slots `i`, `i+1` -/
def rangeStep (base pad Q : Nat) (w : Nat → Nat) (i : Nat) : Prop :=
  deltaF (toF (w (rangeSlot base pad Q (i+1))) - 4 * toF (w (rangeSlot base pad Q i))) = 0

theorem rangeEvenOut_next (c : Composer) (x n g : Nat) (hg : g < rcGates n) :
    ∃ g', (rangeEvenOut c x n).gates[c.gates.size + g + 1]? = some g' ∧
      g'.d = rangeSlot c.wit.size (rcPad n) (rcQuads n) (4*g+3+1) := by
  by_cases h : g + 1 < rcGates n
  · refine ⟨rangeGateAt c.wit.size (rcPad n) (rcQuads n) (g+1), ?_, ?_⟩
    · rw [Nat.add_assoc]; exact rangeEvenOut_get_lt c x n (g+1) h
    · show rangeSlot _ _ _ _ = _
      congr 1
  · have e : g + 1 = rcGates n := by omega
    refine ⟨closeGate (rangeSlot c.wit.size (rcPad n) (rcQuads n) (rcQuads n)), ?_, ?_⟩
    · rw [Nat.add_assoc, e]; exact rangeEvenOut_get_close c x n
    · show rangeSlot _ _ _ _ = _
      congr 1; unfold rcQuads; omega

theorem rangeEven_row_iff (c : Composer) (x n : Nat) (w : Nat → Nat) (hpi : PiFresh c)
    (g : Nat) (hg : g < rcGates n) :
    (rangeEvenOut c x n).rowHoldsW w (c.gates.size + g) = true ↔
      rangeStep c.wit.size (rcPad n) (rcQuads n) w (4*g) ∧
      rangeStep c.wit.size (rcPad n) (rcQuads n) w (4*g+1) ∧
      rangeStep c.wit.size (rcPad n) (rcQuads n) w (4*g+2) ∧
      rangeStep c.wit.size (rcPad n) (rcQuads n) w (4*g+3) := by
  obtain ⟨g', h2, hd⟩ := rangeEvenOut_next c x n g hg
  rw [rowHoldsW_of_get (rangeEvenOut_get_lt c x n g hg) h2 (hpi _ (by omega)),
    rowHolds_range _ rfl rfl rfl rfl rfl, hd]
  exact Iff.rfl

theorem rangeEven_rows_iff (c : Composer) (x n : Nat) (w : Nat → Nat) (hpi : PiFresh c) :
    (rangeEvenOut c x n).rowsHoldW w c.gates.size (c.gates.size + rcGates n + 2) ↔
      (∀ i, i < rcQuads n → rangeStep c.wit.size (rcPad n) (rcQuads n) w i) ∧
      toF (w (c.wit.size + rcK n - 1)) = toF (w x) := by
  constructor
  · intro h
    constructor
    · intro i hi
      have hg : i / 4 < rcGates n := by unfold rcQuads at hi; omega
      obtain ⟨h0, h1, h2, h3⟩ :=
        (rangeEven_row_iff c x n w hpi (i/4) hg).mp (h _ (by omega) (by omega))
      rcases (by omega : i = 4*(i/4) ∨ i = 4*(i/4)+1 ∨ i = 4*(i/4)+2 ∨ i = 4*(i/4)+3)
        with e | e | e | e <;> rw [e] <;> assumption
    · have := h (c.gates.size + rcGates n + 1) (by omega) (by omega)
      rw [rowHoldsW_of_get_plain (rangeEvenOut_get_eq c x n) (eqGate_plain _ _)
        (hpi _ (by omega)), rowHolds_eqGate] at this
      exact this
  · rintro ⟨hs, he⟩ i hlo hhi
    obtain ⟨j, rfl⟩ : ∃ j, i = c.gates.size + j := ⟨i - c.gates.size, by omega⟩
    by_cases h1 : j < rcGates n
    · rw [rangeEven_row_iff c x n w hpi j h1]
      unfold rcQuads at hs
      exact ⟨hs _ (by omega), hs _ (by omega), hs _ (by omega), hs _ (by omega)⟩
    · by_cases h2 : j = rcGates n
      · subst h2
        rw [rowHoldsW_of_get_plain (rangeEvenOut_get_close c x n) (closeGate_plain _)
          (hpi _ (by omega))]
        exact rowHolds_closeGate ..
      · have h3 : j = rcGates n + 1 := by omega
        subst h3
        rw [← Nat.add_assoc,
          rowHoldsW_of_get_plain (rangeEvenOut_get_eq c x n) (eqGate_plain _ _)
          (hpi _ (by omega)), rowHolds_eqGate]
        exact he

/-! ### even widths: soundness and completeness for an arbitrary assignment -/

theorem four_pow_half {n : Nat} (hn : n % 2 = 0) : 4 ^ (n / 2) = 2 ^ n := by
  rw [← two_pow_two_mul]; congr 1; omega

/-- soundness of the even-width rows for an arbitrary assignment -/
theorem rangeEven_sound_w (c : Composer) (x n : Nat) (w : Nat → Nat) (hn : n % 2 = 0)
    (hn0 : n ≠ 0) (hn254 : n ≤ 254) (hpi : PiFresh c) (h0 : toF (w 0) = 0)
    (h : (rangeEvenOut c x n).rowsHoldW w c.gates.size (c.gates.size + rcGates n + 2)) :
    (toF (w x)).val < 2 ^ n := by
  obtain ⟨hs, he⟩ := (rangeEven_rows_iff c x n w hpi).mp h
  have hpk := rcPad_add_k hn
  have hk := rcK_eq hn
  have hp := rcPad_pos n
  let acc : ℕ → F := fun j => toF (w (rangeSlot c.wit.size (rcPad n) (rcQuads n) (rcPad n - 1 + j)))
  have hacc0 : acc 0 = 0 := by
    show toF (w (rangeSlot _ _ _ _)) = 0
    unfold rangeSlot; rw [if_neg (by omega)]; exact h0
  have hstep : ∀ j < rcK n, deltaF (acc (j+1) - 4 * acc j) = 0 := by
    intro j hj
    exact hs (rcPad n - 1 + j) (by omega)
  obtain ⟨m, hm, hmk⟩ := chain_bound acc (rcK n) hacc0 hstep
  have hlast : acc (rcK n) = toF (w (c.wit.size + rcK n - 1)) := by
    show toF (w (rangeSlot _ _ _ _)) = _
    have e : rcPad n - 1 + rcK n = rcQuads n := by omega
    unfold rangeSlot
    rw [e, if_pos (by omega)]
    congr 2; omega
  rw [hlast, he] at hmk
  rw [hk, four_pow_half hn] at hm
  have : 2 ^ n ≤ 2 ^ 254 := Nat.pow_le_pow_right (by norm_num) hn254
  exact val_toF_natCast_lt hmk hm (by have := two_pow_254_lt_R; omega)

/-- completeness of the even-width rows: any assignment carrying the honest accumulators -/
theorem rangeEven_complete_w (c : Composer) (x n : Nat) (w : Nat → Nat) (v : Nat)
    (hn : n % 2 = 0) (hn0 : n ≠ 0) (hpi : PiFresh c) (h0 : toF (w 0) = 0)
    (hacc : ∀ j, j < rcK n → toF (w (c.wit.size + j)) = toF (rangeAcc v (rcK n) j))
    (hx : toF (w x) = toF v) (hv : v < 2 ^ n) :
    (rangeEvenOut c x n).rowsHoldW w c.gates.size (c.gates.size + rcGates n + 2) := by
  have hpk := rcPad_add_k hn
  have hk := rcK_eq hn
  have hp := rcPad_pos n
  refine (rangeEven_rows_iff c x n w hpi).mpr ⟨?_, ?_⟩
  · intro i hi
    unfold rangeStep rangeSlot
    by_cases h1 : i + 1 < rcPad n
    · rw [if_neg (by omega), if_neg (by omega)]
      show deltaF (toF (w 0) - 4 * toF (w 0)) = 0
      rw [h0]; simp
    · by_cases h2 : i + 1 = rcPad n
      · rw [if_pos (by omega), if_neg (by omega), hacc _ (by omega)]
        show deltaF (toF _ - 4 * toF (w 0)) = 0
        rw [h0, h2]
        have := deltaF_of_lt (rangeAcc_zero_lt v (rcK n))
        simpa [toF] using this
      · rw [if_pos (by omega), if_pos (by omega), hacc _ (by omega), hacc _ (by omega)]
        have e : i + 1 - rcPad n = (i - rcPad n) + 1 := by omega
        obtain ⟨q, hq, hqe⟩ := rangeAcc_succ v (rcK n) (i - rcPad n) (by omega)
        rw [e, hqe]
        have : toF (4 * rangeAcc v (rcK n) (i - rcPad n) + q) - 4 * toF (rangeAcc v (rcK n) (i - rcPad n))
            = ((q : ℕ) : F) := by
          unfold toF; push_cast; ring
        rw [this]; exact deltaF_of_lt hq
  · have e : c.wit.size + rcK n - 1 = c.wit.size + (rcK n - 1) := by omega
    rw [e, hacc _ (by omega), rangeAcc_last _ _ (by omega), hx, hk, four_pow_half hn,
      Nat.mod_eq_of_lt hv]

/-! ### width 0, framing -/

theorem extends_of_append {c c' : Composer} (g : Array Gate) (l : Array Nat)
    (hg : c'.gates = c.gates ++ g) (hw : c'.wit = c.wit ++ l) (hp : c'.pis = c.pis) :
    Extends c c' := by
  refine ⟨?_, ?_, ?_, ?_, ?_⟩
  · intro i hi; rw [hg, Array.getElem?_append_left hi]
  · rw [hg]; simp
  · intro i hi; rw [hw, Array.getElem?_append_left hi]
  · rw [hw]; simp
  · intro i _; unfold piAt; rw [hp]

theorem piFresh_of_pis {c c' : Composer} (h : PiFresh c) (hp : c'.pis = c.pis)
    (hs : c.gates.size ≤ c'.gates.size) : PiFresh c' := by
  intro i hi
  have := h i (by omega)
  unfold piAt at *; rw [hp]; exact this

/-- the gate of `range_check_even(x, 0)`: `x = 0` -/
def zeroGate (x : Nat) : Gate := (Constraint.arithmetic { ql := 1, a := x }).toGate

def rangeEvenOut0 (c : Composer) (x : Nat) : Composer :=
  { c with gates := c.gates.push (zeroGate x) }

theorem rangeCheckEven_run_0 (x : Nat) (c : Composer) :
    (rangeCheckEven x 0).run c = ((), rangeEvenOut0 c x) := rfl

theorem zeroGate_plain (x : Nat) : Gate.plain (zeroGate x) := ⟨rfl, rfl, rfl, rfl⟩

theorem rowHolds_zeroGate (x va vb vc vd an bn dn : Nat) :
    rowHolds (zeroGate x) va vb vc vd an bn dn 0 = true ↔ toF va = 0 := by
  rw [rowHolds_arith _ rfl rfl rfl rfl]
  unfold arithF zeroGate
  simp only [Constraint.arithmetic, Constraint.fromExternal, Constraint.toGate,
    toF_zero, toF_one]
  constructor <;> intro h <;> linear_combination h

theorem rangeEvenOut0_rows_iff (c : Composer) (x : Nat) (w : Nat → Nat) (hpi : PiFresh c) :
    (rangeEvenOut0 c x).rowsHoldW w c.gates.size (c.gates.size + 1) ↔ toF (w x) = 0 := by
  have hget : (rangeEvenOut0 c x).gates[c.gates.size]? = some (zeroGate x) := by
    simp [rangeEvenOut0]
  have hrow : (rangeEvenOut0 c x).rowHoldsW w c.gates.size = true ↔ toF (w x) = 0 := by
    rw [rowHoldsW_of_get_plain hget (zeroGate_plain x) (hpi _ (Nat.le_refl _)), rowHolds_zeroGate]
    rfl
  constructor
  · intro h; exact hrow.mp (h _ (Nat.le_refl _) (by omega))
  · intro h i h1 h2
    have : i = c.gates.size := by omega
    subst this; exact hrow.mpr h


theorem gateAt_of_get {c : Composer} {i : Nat} {g : Gate} (h : c.gates[i]? = some g) :
    c.gateAt i = g := by
  unfold gateAt; simp only [Array.getD_eq_getD_getElem?]; rw [h]; rfl

/-! ### `range_check_even`, both cases together -/

/-- number of gates appended by `range_check_even` -/
def evenGateCount (n : Nat) : Nat := if n = 0 then 1 else (n + 7) / 8 + 2

theorem rangeCheckEven_out (c : Composer) (x n : Nat) (hn : n % 2 = 0) :
    ((rangeCheckEven x n).run c).2 = if n = 0 then rangeEvenOut0 c x else rangeEvenOut c x n := by
  split
  · next h => subst h; rfl
  · next h => rw [rangeCheckEven_run_even x n h (by rw [rcK_eq hn]; omega)]

theorem rangeCheckEven_gates_size (c : Composer) (x n : Nat) (hn : n % 2 = 0) :
    ((rangeCheckEven x n).run c).2.gates.size = c.gates.size + evenGateCount n := by
  rw [rangeCheckEven_out c x n hn]; unfold evenGateCount
  split
  · simp [rangeEvenOut0]
  · rw [rangeEvenOut_gates_size, rcGates_eq]; omega

theorem rangeCheckEven_wit_size (c : Composer) (x n : Nat) (hn : n % 2 = 0) :
    ((rangeCheckEven x n).run c).2.wit.size = c.wit.size + n / 2 := by
  rw [rangeCheckEven_out c x n hn]
  split
  · next h => subst h; rfl
  · simp [rangeEvenOut, rcK_eq hn]

theorem rangeCheckEven_pis (c : Composer) (x n : Nat) (hn : n % 2 = 0) :
    ((rangeCheckEven x n).run c).2.pis = c.pis := by
  rw [rangeCheckEven_out c x n hn]; split <;> rfl

theorem rangeCheckEven_extends (c : Composer) (x n : Nat) (hn : n % 2 = 0) :
    Extends c ((rangeCheckEven x n).run c).2 := by
  rw [rangeCheckEven_out c x n hn]
  split
  · exact extends_of_append #[zeroGate x] #[] (by simp [rangeEvenOut0]) (by simp [rangeEvenOut0]) rfl
  · exact extends_of_append _ _ (by unfold rangeEvenOut; exact Array.append_assoc ..) rfl rfl

theorem rangeCheckEven_piFresh (c : Composer) (x n : Nat) (hn : n % 2 = 0) (hpi : PiFresh c) :
    PiFresh ((rangeCheckEven x n).run c).2 :=
  piFresh_of_pis hpi (rangeCheckEven_pis c x n hn) (rangeCheckEven_extends c x n hn).gates_size

theorem rangeCheckEven_last_plain (c : Composer) (x n : Nat) (hn : n % 2 = 0) :
    ∀ i, i + 1 = ((rangeCheckEven x n).run c).2.gates.size →
      Gate.plain (((rangeCheckEven x n).run c).2.gateAt i) := by
  intro i hi
  rw [rangeCheckEven_gates_size c x n hn] at hi
  rw [rangeCheckEven_out c x n hn]
  unfold evenGateCount at hi
  split
  · next h =>
    rw [if_pos h] at hi
    have : i = c.gates.size := by omega
    subst this
    rw [gateAt_of_get (g := zeroGate x) (by simp [rangeEvenOut0])]
    exact zeroGate_plain x
  · next h =>
    rw [if_neg h, ← rcGates_eq] at hi
    have : i = c.gates.size + rcGates n + 1 := by omega
    subst this
    rw [gateAt_of_get (rangeEvenOut_get_eq c x n)]
    exact eqGate_plain _ _

theorem rangeCheckEven_val_old (c : Composer) (x n : Nat) (hn : n % 2 = 0) {i : Nat}
    (hi : i < c.wit.size) : ((rangeCheckEven x n).run c).2.val i = c.val i :=
  (rangeCheckEven_extends c x n hn).val_eq hi

theorem rangeCheckEven_val_new (c : Composer) (x n : Nat) (hn : n % 2 = 0) {j : Nat}
    (hj : j < n / 2) :
    ((rangeCheckEven x n).run c).2.val (c.wit.size + j) = rangeAcc (c.val x) (n / 2) j % R := by
  rw [rangeCheckEven_out c x n hn, if_neg (by omega)]
  unfold rangeEvenOut
  rw [val_append_ge, rcK_eq hn]
  simp [hj]

/-- soundness of `range_check_even` (even width `≤ 254`), for every assignment -/
theorem rangeCheckEven_sound (c : Composer) (x n : Nat) (hn : n % 2 = 0) (h254 : n ≤ 254)
    (hpi : PiFresh c) (w : Nat → Nat) (h0 : toF (w 0) = 0)
    (h : ((rangeCheckEven x n).run c).2.rowsHoldW w c.gates.size
      ((rangeCheckEven x n).run c).2.gates.size) :
    (toF (w x)).val < 2 ^ n := by
  rw [rangeCheckEven_gates_size c x n hn, rangeCheckEven_out c x n hn] at h
  unfold evenGateCount at h
  split at h
  · next hz =>
    subst hz
    rw [(rangeEvenOut0_rows_iff c x w hpi).mp h]; simp
  · next hz =>
    rw [← rcGates_eq, ← Nat.add_assoc] at h
    exact rangeEven_sound_w c x n w hn hz h254 hpi h0 h

/-- completeness of `range_check_even`: any assignment carrying the honest accumulators -/
theorem rangeCheckEven_complete_w (c : Composer) (x n : Nat) (hn : n % 2 = 0) (hpi : PiFresh c)
    (w : Nat → Nat) (v : Nat) (h0 : toF (w 0) = 0)
    (hacc : ∀ j, j < n / 2 → toF (w (c.wit.size + j)) = toF (rangeAcc v (n / 2) j))
    (hx : toF (w x) = toF v) (hv : v < 2 ^ n) :
    ((rangeCheckEven x n).run c).2.rowsHoldW w c.gates.size
      ((rangeCheckEven x n).run c).2.gates.size := by
  rw [rangeCheckEven_gates_size c x n hn, rangeCheckEven_out c x n hn]
  unfold evenGateCount
  split
  · next hz =>
    subst hz
    rw [rangeEvenOut0_rows_iff c x w hpi, hx]
    have : v = 0 := by omega
    rw [this]; simp
  · next hz =>
    rw [← rcGates_eq, ← Nat.add_assoc]
    refine rangeEven_complete_w c x n w v hn hz hpi h0 ?_ hx hv
    rw [rcK_eq hn]; exact hacc

/-! ### odd widths: explicit output -/

def addGate (l t r top : Nat) : Gate :=
  (Constraint.arithmetic
    { Constraint.arithmetic { ql := 1, qr := pow2 top, a := l, b := t } with qo := R - 1, c := r }).toGate

def addVal (c : Composer) (l t top : Nat) : Nat :=
  fadd (fadd (fadd (fadd (fadd (fmul (fmul 0 (c.val l)) (c.val t)) (fmul 1 (c.val l)))
    (fmul (pow2 top) (c.val t))) (fmul 0 (c.val 0))) 0) 0

theorem R_sub_one_ne : (R - 1 == 1 % R) = false := by decide +kernel

theorem gateAdd_run_spec (l t top : Nat) (c : Composer) :
    (gateAdd { ql := 1, qr := pow2 top, a := l, b := t }).run c =
      (c.wit.size, { gates := c.gates.push (addGate l t c.wit.size top),
                     wit := c.wit.push (addVal c l t top % R), pis := c.pis }) := by
  unfold gateAdd appendEvaluatedOutput
  simp only [bind, StateT.bind, StateT.run, getVal, pure, Constraint.arithmetic,
    Constraint.fromExternal, R_sub_one_ne]
  rfl


/-- the gate of `component_boolean(a)` -/
def boolGate (a : Nat) : Gate :=
  (Constraint.arithmetic { qm := 1, qo := R - 1, a := a, b := a, c := a, d := ZERO }).toGate

/-- odd width: state after allocating `lower` -/
def oddC1 (c : Composer) (x n : Nat) : Composer :=
  { c with wit := c.wit.push (recomposeBits (c.val x) 0 (n - 1) % R) }

/-- odd width: state after the even check of `lower` -/
def oddC2 (c : Composer) (x n : Nat) : Composer :=
  ((rangeCheckEven c.wit.size (n - 1)).run (oddC1 c x n)).2

/-- explicit output state of `range_check` for an odd width -/
def rangeOddOut (c : Composer) (x n : Nat) : Composer :=
  let top := n - 1
  let v := c.val x
  let lower := c.wit.size
  let c2 := oddC2 c x n
  let t := c2.wit.size
  let c3 : Composer := { c2 with wit := c2.wit.push (bit v top % R) }
  { gates := ((c2.gates.push (boolGate t)).push (addGate lower t c3.wit.size top)).push (eqGate c3.wit.size x),
    wit := c3.wit.push (addVal c3 lower t top % R),
    pis := c2.pis }

theorem rangeCheck_run_odd (x n : Nat) (hn : n % 2 = 1) (c : Composer) :
    (rangeCheck x n).run c = ((), rangeOddOut c x n) := by
  have hn' : (n % 2 == 0) = false := by simp [hn]
  unfold rangeCheck
  simp only [hn', Bool.false_eq_true, if_false]
  simp only [run_bind', getVal_run, appendWitness_run, gateAdd_run_spec]
  rfl

theorem rangeCheck_run_even (x n : Nat) (hn : n % 2 = 0) (c : Composer) :
    (rangeCheck x n).run c = (rangeCheckEven x n).run c := by
  have hn' : (n % 2 == 0) = true := by simp [hn]
  unfold rangeCheck
  simp only [hn', if_true]


theorem push3_eq {α} (a : Array α) (x y z : α) :
    ((a.push x).push y).push z = a ++ #[x, y, z] := by
  rw [← Array.toList_inj]; simp

theorem push2_eq {α} (a : Array α) (x y : α) : (a.push x).push y = a ++ #[x, y] := by
  rw [← Array.toList_inj]; simp

section odd
variable (c : Composer) (x n : Nat)

theorem oddC2_gates_size (hn : n % 2 = 1) :
    (oddC2 c x n).gates.size = c.gates.size + evenGateCount (n - 1) :=
  rangeCheckEven_gates_size (oddC1 c x n) c.wit.size (n - 1) (by omega)

theorem oddC2_wit_size (hn : n % 2 = 1) :
    (oddC2 c x n).wit.size = c.wit.size + 1 + (n - 1) / 2 := by
  unfold oddC2; rw [rangeCheckEven_wit_size _ _ _ (by omega)]; simp [oddC1]

theorem oddC2_pis (hn : n % 2 = 1) : (oddC2 c x n).pis = c.pis :=
  rangeCheckEven_pis (oddC1 c x n) c.wit.size (n - 1) (by omega)

theorem extends_oddC1 : Extends c (oddC1 c x n) := extends_appendWitness _ c

theorem extends_oddC2 (hn : n % 2 = 1) : Extends (oddC1 c x n) (oddC2 c x n) :=
  rangeCheckEven_extends (oddC1 c x n) c.wit.size (n - 1) (by omega)

theorem rangeOddOut_gates :
    (rangeOddOut c x n).gates = (oddC2 c x n).gates ++
      #[boolGate (oddC2 c x n).wit.size,
        addGate c.wit.size (oddC2 c x n).wit.size ((oddC2 c x n).wit.size + 1) (n - 1),
        eqGate ((oddC2 c x n).wit.size + 1) x] := by
  simp [rangeOddOut, push3_eq]

theorem rangeOddOut_wit :
    (rangeOddOut c x n).wit = (oddC2 c x n).wit ++
      #[bit (c.val x) (n - 1) % R,
        addVal { oddC2 c x n with wit := (oddC2 c x n).wit.push (bit (c.val x) (n - 1) % R) }
          c.wit.size (oddC2 c x n).wit.size (n - 1) % R] := by
  simp [rangeOddOut, push2_eq]

theorem rangeOddOut_pis (hn : n % 2 = 1) : (rangeOddOut c x n).pis = c.pis := oddC2_pis c x n hn

theorem extends_rangeOddOut : Extends (oddC2 c x n) (rangeOddOut c x n) :=
  extends_of_append _ _ (rangeOddOut_gates c x n) (rangeOddOut_wit c x n) rfl

theorem rangeOddOut_gates_size (hn : n % 2 = 1) :
    (rangeOddOut c x n).gates.size = c.gates.size + evenGateCount (n - 1) + 3 := by
  rw [rangeOddOut_gates]; simp [oddC2_gates_size c x n hn]

theorem rangeOddOut_wit_size (hn : n % 2 = 1) :
    (rangeOddOut c x n).wit.size = c.wit.size + (n - 1) / 2 + 3 := by
  rw [rangeOddOut_wit]; simp [oddC2_wit_size c x n hn]; omega

end odd

/-! ### odd widths: the rows -/

theorem toF_pow2_rc (k : Nat) : toF (pow2 k) = (2 : F) ^ k := by
  unfold pow2; rw [toF_mod]; unfold toF; push_cast; rfl

theorem boolGate_plain (a : Nat) : Gate.plain (boolGate a) := ⟨rfl, rfl, rfl, rfl⟩
theorem addGate_plain (l t r top : Nat) : Gate.plain (addGate l t r top) := ⟨rfl, rfl, rfl, rfl⟩

theorem rowHolds_boolGate (a va vb vc vd an bn dn : Nat) :
    rowHolds (boolGate a) va vb vc vd an bn dn 0 = true ↔ toF va * toF vb = toF vc := by
  rw [rowHolds_arith _ rfl rfl rfl rfl]
  unfold arithF boolGate
  simp only [Constraint.arithmetic, Constraint.fromExternal, Constraint.toGate, toF_R_sub_one,
    toF_zero, toF_one]
  constructor <;> intro h <;> linear_combination h

theorem rowHolds_addGate (l t r top va vb vc vd an bn dn : Nat) :
    rowHolds (addGate l t r top) va vb vc vd an bn dn 0 = true ↔
      toF vc = toF va + 2 ^ top * toF vb := by
  rw [rowHolds_arith _ rfl rfl rfl rfl]
  unfold arithF addGate
  simp only [Constraint.arithmetic, Constraint.fromExternal, Constraint.toGate, toF_R_sub_one,
    toF_zero, toF_one, toF_pow2_rc]
  constructor <;> intro h <;> linear_combination -h

theorem toF_addVal (c : Composer) (l t top : Nat) :
    toF (addVal c l t top) = toF (c.val l) + 2 ^ top * toF (c.val t) := by
  unfold addVal; simp [toF_pow2_rc]

section odd
variable (c : Composer) (x n : Nat)

theorem rangeOddOut_piAt (hn : n % 2 = 1) (i : Nat) : (rangeOddOut c x n).piAt i = c.piAt i := by
  unfold piAt; rw [rangeOddOut_pis c x n hn]

theorem rangeOddOut_get0 :
    (rangeOddOut c x n).gates[(oddC2 c x n).gates.size]? = some (boolGate (oddC2 c x n).wit.size) := by
  rw [rangeOddOut_gates, Array.getElem?_append_right (Nat.le_refl _)]; simp

theorem rangeOddOut_get1 :
    (rangeOddOut c x n).gates[(oddC2 c x n).gates.size + 1]? =
      some (addGate c.wit.size (oddC2 c x n).wit.size ((oddC2 c x n).wit.size + 1) (n - 1)) := by
  rw [rangeOddOut_gates, Array.getElem?_append_right (by omega)]; simp

theorem rangeOddOut_get2 :
    (rangeOddOut c x n).gates[(oddC2 c x n).gates.size + 2]? =
      some (eqGate ((oddC2 c x n).wit.size + 1) x) := by
  rw [rangeOddOut_gates, Array.getElem?_append_right (by omega)]; simp

theorem oddC2_last_plain (hn : n % 2 = 1) : ∀ i, i + 1 = (oddC2 c x n).gates.size →
    Gate.plain ((oddC2 c x n).gateAt i) :=
  rangeCheckEven_last_plain (oddC1 c x n) c.wit.size (n - 1) (by omega)

theorem rangeOdd_rows_iff (hn : n % 2 = 1) (hpi : PiFresh c) (w : Nat → Nat) :
    (rangeOddOut c x n).rowsHoldW w c.gates.size (rangeOddOut c x n).gates.size ↔
      (oddC2 c x n).rowsHoldW w c.gates.size (oddC2 c x n).gates.size ∧
      toF (w (oddC2 c x n).wit.size) * toF (w (oddC2 c x n).wit.size)
        = toF (w (oddC2 c x n).wit.size) ∧
      toF (w ((oddC2 c x n).wit.size + 1))
        = toF (w c.wit.size) + 2 ^ (n - 1) * toF (w (oddC2 c x n).wit.size) ∧
      toF (w ((oddC2 c x n).wit.size + 1)) = toF (w x) := by
  have hM : c.gates.size ≤ (oddC2 c x n).gates.size := by rw [oddC2_gates_size c x n hn]; omega
  have hsz : (rangeOddOut c x n).gates.size = (oddC2 c x n).gates.size + 3 := by
    rw [rangeOddOut_gates_size c x n hn, oddC2_gates_size c x n hn]
  have hext := extends_rangeOddOut c x n
  have hiff := hext.rowsHoldW_iff w c.gates.size (oddC2_last_plain c x n hn)
  have r0 : (rangeOddOut c x n).rowHoldsW w (oddC2 c x n).gates.size = true ↔
      toF (w (oddC2 c x n).wit.size) * toF (w (oddC2 c x n).wit.size)
        = toF (w (oddC2 c x n).wit.size) := by
    rw [rowHoldsW_of_get_plain (rangeOddOut_get0 c x n) (boolGate_plain _)
      (by rw [rangeOddOut_piAt c x n hn]; exact hpi _ hM), rowHolds_boolGate]
    exact Iff.rfl
  have r1 : (rangeOddOut c x n).rowHoldsW w ((oddC2 c x n).gates.size + 1) = true ↔
      toF (w ((oddC2 c x n).wit.size + 1))
        = toF (w c.wit.size) + 2 ^ (n - 1) * toF (w (oddC2 c x n).wit.size) := by
    rw [rowHoldsW_of_get_plain (rangeOddOut_get1 c x n) (addGate_plain _ _ _ _)
      (by rw [rangeOddOut_piAt c x n hn]; exact hpi _ (by omega)), rowHolds_addGate]
    exact Iff.rfl
  have r2 : (rangeOddOut c x n).rowHoldsW w ((oddC2 c x n).gates.size + 2) = true ↔
      toF (w ((oddC2 c x n).wit.size + 1)) = toF (w x) := by
    rw [rowHoldsW_of_get_plain (rangeOddOut_get2 c x n) (eqGate_plain _ _)
      (by rw [rangeOddOut_piAt c x n hn]; exact hpi _ (by omega)), rowHolds_eqGate]
    exact Iff.rfl
  rw [hsz]
  constructor
  · intro h
    refine ⟨hiff.mp (fun i h1 h2 => h i h1 (by omega)), r0.mp (h _ hM (by omega)),
      r1.mp (h _ (by omega) (by omega)), r2.mp (h _ (by omega) (by omega))⟩
  · rintro ⟨h1, h2, h3, h4⟩ i hlo hhi
    by_cases hi : i < (oddC2 c x n).gates.size
    · exact hiff.mpr h1 i hlo hi
    · rcases (by omega : i = (oddC2 c x n).gates.size ∨ i = (oddC2 c x n).gates.size + 1 ∨
          i = (oddC2 c x n).gates.size + 2) with e | e | e <;> subst e
      · exact r0.mpr h2
      · exact r1.mpr h3
      · exact r2.mpr h4

end odd

theorem val_of_wit_append {c c' : Composer} {l : Array Nat} (h : c'.wit = c.wit ++ l) (j : Nat) :
    c'.val (c.wit.size + j) = l.getD j 0 := by
  simp [val, h, Array.getElem?_append_right]

/-! ### `range_check`: all widths -/

def rangeGateCount (bits : Nat) : Nat :=
  if bits % 2 = 0 then evenGateCount bits else evenGateCount (bits - 1) + 3

def rangeWitCount (bits : Nat) : Nat :=
  if bits % 2 = 0 then bits / 2 else (bits - 1) / 2 + 3

theorem rangeCheck_out (c : Composer) (x n : Nat) :
    ((rangeCheck x n).run c).2 =
      if n % 2 = 0 then ((rangeCheckEven x n).run c).2 else rangeOddOut c x n := by
  split
  · next h => rw [rangeCheck_run_even x n h]
  · next h => rw [rangeCheck_run_odd x n (by omega)]

theorem rangeCheck_gates_size (c : Composer) (x n : Nat) :
    ((rangeCheck x n).run c).2.gates.size = c.gates.size + rangeGateCount n := by
  rw [rangeCheck_out]; unfold rangeGateCount
  split
  · next h => exact rangeCheckEven_gates_size c x n h
  · next h => rw [rangeOddOut_gates_size c x n (by omega)]; omega

theorem rangeCheck_wit_size (c : Composer) (x n : Nat) :
    ((rangeCheck x n).run c).2.wit.size = c.wit.size + rangeWitCount n := by
  rw [rangeCheck_out]; unfold rangeWitCount
  split
  · next h => exact rangeCheckEven_wit_size c x n h
  · next h => rw [rangeOddOut_wit_size c x n (by omega)]; omega

theorem rangeCheck_pis (c : Composer) (x n : Nat) : ((rangeCheck x n).run c).2.pis = c.pis := by
  rw [rangeCheck_out]
  split
  · next h => exact rangeCheckEven_pis c x n h
  · next h => exact rangeOddOut_pis c x n (by omega)

theorem rangeCheck_extends (c : Composer) (x n : Nat) : Extends c ((rangeCheck x n).run c).2 := by
  rw [rangeCheck_out]
  split
  · next h => exact rangeCheckEven_extends c x n h
  · next h =>
    exact ((extends_oddC1 c x n).trans (extends_oddC2 c x n (by omega))).trans
      (extends_rangeOddOut c x n)

theorem rangeCheck_piFresh (c : Composer) (x n : Nat) (hpi : PiFresh c) :
    PiFresh ((rangeCheck x n).run c).2 :=
  piFresh_of_pis hpi (rangeCheck_pis c x n) (rangeCheck_extends c x n).gates_size

theorem rangeCheck_last_plain (c : Composer) (x n : Nat) :
    ∀ i, i + 1 = ((rangeCheck x n).run c).2.gates.size →
      Gate.plain (((rangeCheck x n).run c).2.gateAt i) := by
  rw [rangeCheck_out]
  split
  · next h => exact rangeCheckEven_last_plain c x n h
  · next h =>
    intro i hi
    have hn : n % 2 = 1 := by omega
    rw [rangeOddOut_gates_size c x n hn, ← oddC2_gates_size c x n hn] at hi
    have : i = (oddC2 c x n).gates.size + 2 := by omega
    subst this
    rw [gateAt_of_get (rangeOddOut_get2 c x n)]
    exact eqGate_plain _ _

theorem bool_cases_rc {b : F} (h : b * b = b) : b = 0 ∨ b = 1 := by
  have : b * (b - 1) = 0 := by linear_combination h
  rcases mul_eq_zero.mp this with h | h
  · exact Or.inl h
  · exact Or.inr (sub_eq_zero.mp h)

/-- soundness of `range_check` for every width `≤ 254` and every assignment -/
theorem rangeCheck_sound_core (c : Composer) (x n : Nat) (h254 : n ≤ 254) (hpi : PiFresh c)
    (w : Nat → Nat) (h0 : toF (w 0) = 0)
    (h : ((rangeCheck x n).run c).2.rowsHoldW w c.gates.size
      ((rangeCheck x n).run c).2.gates.size) :
    (toF (w x)).val < 2 ^ n := by
  rw [rangeCheck_out] at h
  split at h
  · next hn => exact rangeCheckEven_sound c x n hn h254 hpi w h0 h
  · next hn =>
    have hn : n % 2 = 1 := by omega
    obtain ⟨h1, h2, h3, h4⟩ := (rangeOdd_rows_iff c x n hn hpi w).mp h
    have hpi1 : PiFresh (oddC1 c x n) := hpi
    have hlow := rangeCheckEven_sound (oddC1 c x n) c.wit.size (n - 1) (by omega) (by omega)
      hpi1 w h0 h1
    have hm : toF (w c.wit.size) = (((toF (w c.wit.size)).val : ℕ) : F) :=
      (ZMod.natCast_zmod_val _).symm
    have hlt : 2 ^ n ≤ R := by
      have : 2 ^ n ≤ 2 ^ 254 := Nat.pow_le_pow_right (by norm_num) h254
      have := two_pow_254_lt_R; omega
    have hpow : 2 ^ n = 2 * 2 ^ (n - 1) := by
      have : n = (n - 1) + 1 := by omega
      conv_lhs => rw [this, pow_succ]
      ring
    rw [← h4, h3]
    rcases bool_cases_rc h2 with hb | hb
    · refine val_toF_natCast_lt (n := (toF (w c.wit.size)).val) ?_ (by omega) hlt
      rw [hb, ← hm]; ring
    · refine val_toF_natCast_lt (n := (toF (w c.wit.size)).val + 2 ^ (n - 1)) ?_ (by omega) hlt
      rw [hb]; push_cast; rw [← hm]; ring


theorem lowVal_lt (v top : Nat) : recomposeBits v 0 top % R < 2 ^ top := by
  unfold recomposeBits
  simp only [pow_zero, Nat.div_one]
  calc v % 2 ^ top % R % R ≤ v % 2 ^ top % R := Nat.mod_le _ _
    _ ≤ v % 2 ^ top := Nat.mod_le _ _
    _ < 2 ^ top := Nat.mod_lt _ (by positivity)

theorem toF_lowVal (v top : Nat) : toF (recomposeBits v 0 top % R) = toF (v % 2 ^ top) := by
  unfold recomposeBits; simp

theorem toF_split (v top : Nat) (hv : v < 2 ^ (top + 1)) :
    toF (v % 2 ^ top) + 2 ^ top * toF (bit v top) = toF v := by
  have h1 : v / 2 ^ top < 2 := by
    rw [Nat.div_lt_iff_lt_mul (by positivity)]; rw [pow_succ] at hv; omega
  have h2 : bit v top = v / 2 ^ top := by unfold bit; exact Nat.mod_eq_of_lt h1
  have h3 : v % 2 ^ top + 2 ^ top * (v / 2 ^ top) = v := Nat.mod_add_div _ _
  rw [h2]
  conv_rhs => rw [← h3]
  unfold toF; push_cast; ring

theorem bit_bool (v i : Nat) : toF (bit v i) * toF (bit v i) = toF (bit v i) := by
  have : bit v i < 2 := by unfold bit; exact Nat.mod_lt _ (by norm_num)
  interval_cases (bit v i) <;> simp

/-- completeness of `range_check`: every assignment that agrees with the model's own witness
    table on the witnesses allocated so far satisfies the appended rows whenever the value is
    below `2^n` — no bound on `n` is needed. -/
theorem rangeCheck_complete_w (c : Composer) (x n : Nat) (hpi : PiFresh c)
    (hx : x < c.wit.size) (hz : c.val 0 = 0) (hv : c.val x < 2 ^ n) (w : Nat → Nat)
    (hw : ∀ i, i < ((rangeCheck x n).run c).2.wit.size → w i = ((rangeCheck x n).run c).2.val i) :
    ((rangeCheck x n).run c).2.rowsHoldW w c.gates.size
      ((rangeCheck x n).run c).2.gates.size := by
  have hext := rangeCheck_extends c x n
  rw [rangeCheck_wit_size c x n] at hw
  have h0 : toF (((rangeCheck x n).run c).2.val 0) = 0 := by
    rw [hext.val_eq (by omega), hz]; simp
  have hxv : ((rangeCheck x n).run c).2.val x = c.val x := hext.val_eq hx
  unfold rangeWitCount at hw
  rw [rangeCheck_out] at *
  split
  · next hn =>
    rw [if_pos hn] at h0 hxv hw
    rw [if_pos hn] at hw
    refine rangeCheckEven_complete_w c x n hn hpi w (c.val x) (by rw [hw 0 (by omega)]; exact h0)
      ?_ (by rw [hw x (by omega), hxv]) hv
    intro j hj
    rw [hw _ (by omega), rangeCheckEven_val_new c x n hn hj, toF_mod]
  · next hn' =>
    rw [if_neg hn'] at h0 hxv hw
    rw [if_neg hn'] at hw
    have hn : n % 2 = 1 := by omega
    have he1 := extends_oddC1 c x n
    have he2 := extends_oddC2 c x n hn
    have he3 := extends_rangeOddOut c x n
    have hw1 : (oddC1 c x n).wit.size = c.wit.size + 1 := by simp [oddC1]
    have hw2 := oddC2_wit_size c x n hn
    have hlow1 : (oddC1 c x n).val c.wit.size = recomposeBits (c.val x) 0 (n - 1) % R :=
      val_push_self c _
    have hlow : (rangeOddOut c x n).val c.wit.size = recomposeBits (c.val x) 0 (n - 1) % R := by
      rw [he3.val_eq (by omega), he2.val_eq (by omega), hlow1]
    have ht : (rangeOddOut c x n).val (oddC2 c x n).wit.size = bit (c.val x) (n - 1) % R := by
      have := val_of_wit_append (rangeOddOut_wit c x n) 0
      simpa using this
    have hr : toF ((rangeOddOut c x n).val ((oddC2 c x n).wit.size + 1)) =
        toF (recomposeBits (c.val x) 0 (n - 1) % R) + 2 ^ (n - 1) * toF (bit (c.val x) (n - 1)) := by
      have hr0 : (rangeOddOut c x n).val ((oddC2 c x n).wit.size + 1) =
          addVal { oddC2 c x n with wit := (oddC2 c x n).wit.push (bit (c.val x) (n - 1) % R) }
            c.wit.size (oddC2 c x n).wit.size (n - 1) % R := by
        have := val_of_wit_append (rangeOddOut_wit c x n) 1
        simpa using this
      rw [hr0, toF_mod, toF_addVal, val_push_of_lt _ _ (by omega), val_push_self,
        he2.val_eq (by omega), hlow1, toF_mod (bit _ _)]
    have hsplit := toF_split (c.val x) (n - 1) (by rw [show n - 1 + 1 = n by omega]; exact hv)
    refine (rangeOdd_rows_iff c x n hn hpi w).mpr ⟨?_, ?_, ?_, ?_⟩
    · refine rangeCheckEven_complete_w (oddC1 c x n) c.wit.size (n - 1) (by omega) hpi w
        (recomposeBits (c.val x) 0 (n - 1) % R) (by rw [hw 0 (by omega)]; exact h0) ?_
        (by rw [hw _ (by omega), hlow]) (lowVal_lt _ _)
      intro j hj
      have hnew : (oddC2 c x n).val ((oddC1 c x n).wit.size + j) = _ :=
        rangeCheckEven_val_new (oddC1 c x n) c.wit.size (n - 1) (by omega) hj
      rw [hw _ (by omega), he3.val_eq (by omega), hnew, toF_mod, hlow1]
    · rw [hw _ (by omega), ht, toF_mod]; exact bit_bool _ _
    · rw [hw _ (by omega), hw c.wit.size (by omega), hw (oddC2 c x n).wit.size (by omega),
        hr, hlow, ht, toF_mod (bit _ _)]
    · rw [hw _ (by omega), hw x (by omega), hr, hxv, toF_lowVal, hsplit]

/-- completeness for the model's own table -/
theorem rangeCheck_complete_core (c : Composer) (x n : Nat) (hpi : PiFresh c)
    (hx : x < c.wit.size) (hz : c.val 0 = 0) (hv : c.val x < 2 ^ n) :
    ((rangeCheck x n).run c).2.rowsHoldW ((rangeCheck x n).run c).2.val c.gates.size
      ((rangeCheck x n).run c).2.gates.size :=
  rangeCheck_complete_w c x n hpi hx hz hv _ (fun _ _ => rfl)

/-- completeness read in any later state `c''` -/
theorem rangeCheck_complete_ext (c : Composer) (x n : Nat) (hpi : PiFresh c)
    (hx : x < c.wit.size) (hz : c.val 0 = 0) (hv : c.val x < 2 ^ n) (c'' : Composer)
    (hext : Extends ((rangeCheck x n).run c).2 c'') :
    c''.rowsHoldW c''.val c.gates.size ((rangeCheck x n).run c).2.gates.size :=
  (hext.rowsHoldW_iff _ _ (rangeCheck_last_plain c x n)).mpr
    (rangeCheck_complete_w c x n hpi hx hz hv _ (fun _ hi => hext.val_eq hi))

/-- soundness read in any later state `c''` -/
theorem rangeCheck_sound_ext (c : Composer) (x n : Nat) (h254 : n ≤ 254) (hpi : PiFresh c)
    (c'' : Composer) (hext : Extends ((rangeCheck x n).run c).2 c'')
    (w : Nat → Nat) (h0 : toF (w 0) = 0)
    (h : c''.rowsHoldW w c.gates.size ((rangeCheck x n).run c).2.gates.size) :
    (toF (w x)).val < 2 ^ n :=
  rangeCheck_sound_core c x n h254 hpi w h0
    ((hext.rowsHoldW_iff _ _ (rangeCheck_last_plain c x n)).mp h)


/-! ### the layout does not depend on witness values -/

/-- two composer states with the same circuit layout (possibly different witness values) -/
structure SameLayout (c1 c2 : Composer) : Prop where
  gates : c1.gates = c2.gates
  wsize : c1.wit.size = c2.wit.size
  pis : c1.pis = c2.pis

theorem SameLayout.rowsHoldW_iff {c1 c2 : Composer} (h : SameLayout c1 c2) (w : Nat → Nat)
    (lo hi : Nat) : c1.rowsHoldW w lo hi ↔ c2.rowsHoldW w lo hi := by
  unfold rowsHoldW rowHoldsW rowValsW gateAt piAt
  rw [h.gates, h.pis]

theorem rangeCheckEven_layout {c1 c2 : Composer} (h : SameLayout c1 c2) (x n : Nat)
    (hn : n % 2 = 0) :
    SameLayout ((rangeCheckEven x n).run c1).2 ((rangeCheckEven x n).run c2).2 := by
  refine ⟨?_, ?_, ?_⟩
  · rw [rangeCheckEven_out c1 x n hn, rangeCheckEven_out c2 x n hn]
    split
    · simp [rangeEvenOut0, h.gates]
    · simp [rangeEvenOut, h.gates, h.wsize]
  · rw [rangeCheckEven_wit_size c1 x n hn, rangeCheckEven_wit_size c2 x n hn, h.wsize]
  · rw [rangeCheckEven_pis c1 x n hn, rangeCheckEven_pis c2 x n hn, h.pis]

theorem rangeCheck_layout {c1 c2 : Composer} (h : SameLayout c1 c2) (x n : Nat) :
    SameLayout ((rangeCheck x n).run c1).2 ((rangeCheck x n).run c2).2 := by
  by_cases hn : n % 2 = 0
  · rw [rangeCheck_run_even x n hn, rangeCheck_run_even x n hn]
    exact rangeCheckEven_layout h x n hn
  · have hn1 : n % 2 = 1 := by omega
    have h1 : SameLayout (oddC1 c1 x n) (oddC1 c2 x n) :=
      ⟨h.gates, by simp [oddC1, h.wsize], h.pis⟩
    have h2 : SameLayout (oddC2 c1 x n) (oddC2 c2 x n) := by
      unfold oddC2; rw [h.wsize]
      exact rangeCheckEven_layout h1 _ _ (by omega)
    refine ⟨?_, ?_, ?_⟩
    · rw [rangeCheck_out, rangeCheck_out, if_neg hn, if_neg hn, rangeOddOut_gates,
        rangeOddOut_gates, h2.gates, h2.wsize, h.wsize]
    · rw [rangeCheck_wit_size, rangeCheck_wit_size, h.wsize]
    · rw [rangeCheck_pis, rangeCheck_pis, h.pis]

/-- `c` with the value of witness `x` replaced by `v` (and the zero witness pinned to 0) -/
def withValue (c : Composer) (x v : Nat) : Composer :=
  { c with wit := (c.wit.setIfInBounds 0 0).setIfInBounds x v }

theorem withValue_layout (c : Composer) (x v : Nat) : SameLayout c (withValue c x v) :=
  ⟨rfl, by simp [withValue], rfl⟩

theorem withValue_val_self (c : Composer) (x v : Nat) (hx : x < c.wit.size) :
    (withValue c x v).val x = v := by
  simp [withValue, val, hx]

theorem withValue_val_zero (c : Composer) (x v : Nat) (hx0 : x = 0 → v = 0) :
    (withValue c x v).val 0 = 0 := by
  by_cases h : x = 0
  · subst h
    by_cases h2 : 0 < c.wit.size
    · rw [withValue_val_self c 0 v h2, hx0 rfl]
    · simp [withValue, val, h2]
  · simp only [withValue, val, Array.getD_eq_getD_getElem?, Array.getElem?_setIfInBounds]
    rw [if_neg h]
    rw [if_pos trivial]
    split <;> rfl

/-- existence of a satisfying assignment for any value below `2^n` (any width `n`) -/
theorem range_exists_core (c : Composer) (x n v : Nat) (hpi : PiFresh c)
    (hx : x < c.wit.size) (hx0 : x = 0 → v = 0) (hv : v < 2 ^ n) :
    ∃ w : Nat → Nat, w x = v ∧ w 0 = 0 ∧
      ((rangeCheck x n).run c).2.rowsHoldW w c.gates.size
        ((rangeCheck x n).run c).2.gates.size := by
  have hl := withValue_layout c x v
  have hl' := rangeCheck_layout hl x n
  have hxs : x < (withValue c x v).wit.size := by rw [← hl.wsize]; exact hx
  have hext := rangeCheck_extends (withValue c x v) x n
  have hcomp := rangeCheck_complete_core (withValue c x v) x n
    (by intro i hi; exact hpi i hi) hxs
    (withValue_val_zero c x v hx0) (by rw [withValue_val_self c x v hx]; exact hv)
  refine ⟨((rangeCheck x n).run (withValue c x v)).2.val, ?_, ?_, ?_⟩
  · rw [hext.val_eq hxs, withValue_val_self c x v hx]
  · rw [hext.val_eq (by omega), withValue_val_zero c x v hx0]
  · rw [hl'.rowsHoldW_iff, hl'.gates]
    exact hcomp

/-- exact characterisation, for a fixed layout and an arbitrary input value -/
theorem range_exact_core (c : Composer) (x n v : Nat) (h254 : n ≤ 254) (hpi : PiFresh c)
    (hx : x < c.wit.size) (hx0 : x = 0 → v = 0) (hvR : v < R) :
    (∃ w : Nat → Nat, w x = v ∧ w 0 = 0 ∧
        ((rangeCheck x n).run c).2.rowsHoldW w c.gates.size ((rangeCheck x n).run c).2.gates.size)
      ↔ v < 2 ^ n := by
  constructor
  · rintro ⟨w, hwx, hw0, hrows⟩
    have := rangeCheck_sound_core c x n h254 hpi w (by rw [hw0]; simp) hrows
    rwa [hwx, val_toF_of_lt hvR] at this
  · exact range_exists_core c x n v hpi hx hx0

/-! ### the two entry points -/

theorem rangeCheck_even_eq (x n : Nat) (hn : n % 2 = 0) : rangeCheck x n = rangeCheckEven x n := by
  funext c; exact rangeCheck_run_even x n hn c

theorem componentRange_eq_bits (p x : Nat) (hp : p ≤ 128) :
    componentRange p x = componentRangeBits (2 * p) x := by
  unfold componentRange componentRangeBits
  rw [rangeCheck_even_eq x (2 * p) (by omega)]
  have : min (p * 2) Generated.RANGE_PAIRS_CLAMP_BITS = 2 * p := by
    show min (p * 2) 256 = 2 * p; omega
  rw [this]

theorem componentRange_eq_clamp (p x : Nat) (hp : 128 < p) :
    componentRange p x = componentRangeBits 256 x := by
  unfold componentRange componentRangeBits
  rw [rangeCheck_even_eq x 256 (by norm_num)]
  have : min (p * 2) Generated.RANGE_PAIRS_CLAMP_BITS = 256 := by
    show min (p * 2) 256 = 256; omega
  rw [this]

end Composer
end Plonk
