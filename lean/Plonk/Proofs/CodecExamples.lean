/-
  Concrete data for the non-vacuity examples of C16 / C17 (all facts by kernel evaluation).
-/
import Plonk.Proofs.CodecProverRt
import Plonk.Proofs.CodecG2

set_option Elab.async false

namespace Plonk.CodecEx
open Plonk

theorem gen_valid : G1.gen.Valid :=
  show _ < P ∧ _ < P ∧ _ from ⟨by decide +kernel, by decide +kernel, by decide +kernel⟩
theorem gen_torsionFree : G1.gen.torsionFree = true := by decide +kernel
theorem gen_ok : G1.gen.Valid ∧ G1.gen.torsionFree = true := ⟨gen_valid, gen_torsionFree⟩
theorem gen_ne_inf : G1.gen ≠ .inf := by decide
theorem g2gen_roundtrip : G2.fromCompressed? G2.gen.toCompressed = some G2.gen := by decide +kernel
theorem g2gen_ne_inf : G2.gen ≠ .inf := by decide

def exProof : ProofM :=
  { aC := G1.gen, bC := G1.gen, cC := G1.gen, dC := G1.gen, zC := G1.gen, tLow := G1.gen, tMid := G1.gen,
    tHigh := G1.gen, tFourth := G1.gen, wz := G1.gen, wzw := .inf,
    ev := { a := 1, b := 2, c := 3, d := 4, aw := 5, bw := 6, dw := 7, qarith := 8, qc := 9, ql := 10,
            qr := 11, s1 := 12, s2 := 13, s3 := 14, z := R - 1 } }

theorem inf_ok : G1.inf.Valid ∧ G1.inf.torsionFree = true := ⟨trivial, torsionFree_inf⟩

theorem exProof_wf : exProof.WF := by
  constructor
  · intro q hq
    simp only [ProofM.points, exProof, List.mem_cons, List.not_mem_nil, or_false] at hq
    rcases hq with rfl | rfl | rfl | rfl | rfl | rfl | rfl | rfl | rfl | rfl | rfl <;>
      first | exact gen_ok | exact inf_ok
  · intro s hs
    simp only [Evals.toList, exProof, List.mem_cons, List.not_mem_nil, or_false] at hs
    rcases hs with rfl | rfl | rfl | rfl | rfl | rfl | rfl | rfl | rfl | rfl | rfl | rfl | rfl | rfl | rfl <;>
      decide +kernel

def exVKey (n : Nat) : VKey :=
  { n := n, qm := G1.gen, ql := G1.gen, qr := G1.gen, qo := G1.gen, qf := G1.gen, qc := G1.gen,
    qarith := G1.gen, qlogic := G1.gen, qrange := G1.gen, qfixed := G1.gen, qvar := G1.gen,
    s1 := G1.gen, s2 := G1.gen, s3 := G1.gen, s4 := .inf }

theorem exVKey_wf (n : Nat) (hn : n < 2 ^ 64) : (exVKey n).WF := by
  refine ⟨hn, ?_⟩
  intro q hq
  simp only [VKey.points, exVKey, List.mem_cons, List.not_mem_nil, or_false] at hq
  rcases hq with rfl | rfl | rfl | rfl | rfl | rfl | rfl | rfl | rfl | rfl | rfl | rfl | rfl | rfl | rfl <;>
    first | exact gen_ok | exact inf_ok

def exOK : OpeningKeyM := { g := G1.gen, h := G2.gen, xh := G2.gen }

theorem exOK_roundtrip : OpeningKeyM.fromBytes? exOK.toBytes = some exOK := by
  have e1 : exOK.g = G1.gen := rfl
  have e2 : exOK.h = G2.gen := rfl
  have e3 : exOK.xh = G2.gen := rfl
  apply OpeningKeyM.fromBytes_toBytes
  · rw [e1]; exact gen_ok
  · rw [e2]; exact g2gen_roundtrip
  · rw [e3]; exact g2gen_roundtrip
  · rw [e1, e2, e3]; exact ⟨gen_ne_inf, g2gen_ne_inf, g2gen_ne_inf⟩

def exVerifier : VerifierM :=
  { label := [1, 2, 255], vk := exVKey 4, ok := exOK, piIndexes := [0, 2, 2 ^ 64 - 1], size := 4, constraints := 3 }

theorem dom4 : (Domain.new? 4).isSome = true := by decide +kernel

theorem exVerifier_roundtrip : VerifierM.fromBytes exVerifier.toBytes = .ok exVerifier := by
  have e1 : exVerifier.vk = exVKey 4 := rfl
  have e2 : exVerifier.ok = exOK := rfl
  have e3 : (exVKey 4).n = 4 := rfl
  have e4 : exVerifier.piIndexes = [0, 2, 2 ^ 64 - 1] := rfl
  have e5 : exVerifier.size = 4 := rfl
  have e6 : exVerifier.constraints = 3 := rfl
  have e7 : exVerifier.label = [1, 2, 255] := rfl
  apply VerifierM.fromBytes_toBytes
  · rw [e1]; exact exVKey_wf 4 (by norm_num)
  · rw [e2]; exact exOK_roundtrip
  · rw [e1, e3]; exact dom4
  · rw [e4]
    intro i hi
    simp only [List.mem_cons, List.not_mem_nil, or_false] at hi
    rcases hi with rfl | rfl | rfl <;> norm_num
  · rw [e5]; norm_num
  · rw [e6]; norm_num
  · rw [e4, e7]; norm_num

/-- a domain together with an evaluation vector over it -/
theorem exEvals : ∃ (d : Domain) (ev : List Nat), Domain.new? d.size = some d ∧ ev.length = d.size ∧
    (∀ e ∈ ev, e < R) ∧ d.size = 4 := by
  cases h : Domain.new? 4 with
  | none => have := dom4; rw [h] at this; cases this
  | some d =>
    have hs : d.size = 4 := by rw [Domain.new?_size h]; decide
    refine ⟨d, List.replicate d.size 5, Domain.new?_idem h, by simp, ?_, hs⟩
    intro e he
    rw [List.mem_replicate] at he
    rw [he.2]; decide +kernel

/-! a complete (tiny) prover: `n = 1`, extended domain of size 8 -/

def exD8 : Domain := (Domain.new? 8).getD default
def exLin : List Nat :=
  ((List.range 8).foldl (fun (acc : List Nat × Nat) _ => (acc.2 :: acc.1, fmul acc.2 exD8.groupGen))
    ([], GENERATOR % R)).1.reverse
def exPKey : PKeyRaw :=
  { n := 1, polys := ⟨List.replicate 15 [1]⟩, evals := ⟨List.replicate 15 (List.replicate 8 1)⟩,
    lin := exLin, vh := exD8.vanishingOverCoset 1 }

theorem dom8 : Domain.new? 8 = some exD8 := by
  unfold exD8
  cases h : Domain.new? 8 with
  | none =>
    have : (Domain.new? 8).isSome = true := by decide +kernel
    rw [h] at this; cases this
  | some d => rfl

theorem exPKey_wf : exPKey.WF exD8 where
  n_lt := by show 1 * 8 < 2 ^ 64; norm_num
  dom := dom8
  pow2 := by show nextPow2' (1 * 8) = 1 * 8; decide
  size8 := by rw [Domain.new?_size dom8]; decide
  npolys := by show (List.replicate 15 [1]).length = 15; simp
  nevals := by show (List.replicate 15 (List.replicate 8 1)).length = 15; simp
  polys := by
    intro p hp
    have hp : p ∈ List.replicate 15 [1] := hp
    rw [List.mem_replicate] at hp
    rw [hp.2]
    refine ⟨by show 1 ≤ 1; omega, ?_⟩
    intro c hc; simp at hc; subst hc; decide +kernel
  trimmed := by
    intro p hp
    have hp : p ∈ List.replicate 15 [1] := hp
    rw [List.mem_replicate] at hp
    rw [hp.2]; decide
  evals := by
    intro e he
    have he : e ∈ List.replicate 15 (List.replicate 8 1) := he
    rw [List.mem_replicate] at he
    rw [he.2]
    refine ⟨by simp; rfl, ?_⟩
    intro c hc; rw [List.mem_replicate] at hc; rw [hc.2]; decide +kernel
  lin := by decide +kernel
  vh := by decide +kernel
  lin_len := by decide +kernel
  vh_len := by decide +kernel
  lin_lt := by decide +kernel
  vh_lt := by decide +kernel

theorem exPKey_roundtrip : PKeyRaw.fromBytes exPKey.toBytes = .ok exPKey :=
  PKeyRaw.fromBytes_toBytes exPKey_wf

def exProver : ProverM :=
  { label := [1, 2, 3], key := exPKey, ck := [G1.gen, .inf], vk := exVKey 1, size := 1, constraints := 1 }

theorem exProver_roundtrip : ProverM.fromBytes exProver.toBytes = .ok exProver := by
  have e1 : exProver.key = exPKey := rfl
  have e2 : exProver.ck = [G1.gen, .inf] := rfl
  have e3 : exProver.vk = exVKey 1 := rfl
  have e4 : exProver.constraints = 1 := rfl
  have e5 : exProver.size = 1 := rfl
  have e6 : exProver.label = [1, 2, 3] := rfl
  apply ProverM.fromBytes_toBytes (d8 := exD8)
  · rw [e1]; exact exPKey_wf
  · rw [e2]
    refine ⟨by simp, ?_⟩
    intro q hq; simp at hq; rcases hq with rfl | rfl
    · exact gen_ok
    · exact inf_ok
  · rw [e3]; exact exVKey_wf 1 (by norm_num)
  · rw [e4]; norm_num
  · rw [e4, e5]; decide
  · rw [e1, e5]; rfl
  · rw [e4]; decide +kernel
  · rw [e1]; decide +kernel
  · rw [e1, e2, e6]
    have : exPKey.toBytes.length < 2 ^ 32 := by decide +kernel
    simp only [List.length_cons, List.length_nil]
    generalize exPKey.toBytes.length = L at *
    omega

end Plonk.CodecEx
