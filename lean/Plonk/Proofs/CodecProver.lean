/-
  Prover-side codecs (`Plonk/Model/Codec.lean`): `evalsFromBytes`, raw commit key, `PKeyRaw`,
  `ProverM` — round trips, well-formedness, work bounds.
-/
import Plonk.Proofs.CodecRoundtrip
import Plonk.Proofs.FftDomain
import Mathlib.Data.List.DropRight

set_option Elab.async false

namespace Plonk

/-! ### domains and evaluation vectors -/

theorem Domain.new?_size {m : Nat} {d : Domain} (h : Domain.new? m = some d) : d.size = nextPow2' m := by
  unfold Domain.new? at h
  simp only at h
  split at h
  · cases h
  · have h := Option.some.inj h
    subst h; rfl

theorem Domain.new?_size_lt {m : Nat} {d : Domain} (h : Domain.new? m = some d) : d.size < 2 ^ 32 := by
  obtain ⟨wf, hl⟩ := Domain.new?_wf m d h
  rw [wf.size_eq]
  exact Nat.pow_lt_pow_right (by norm_num) hl

theorem nextPow2'_go_pow (j : Nat) : ∀ (f i : Nat), i ≤ j → j ≤ i + f →
    nextPow2'.go (2 ^ j) f (2 ^ i) = 2 ^ j := by
  intro f
  induction f with
  | zero =>
    intro i h1 h2
    have : i = j := by omega
    subst this; rfl
  | succ f ih =>
    intro i h1 h2
    unfold nextPow2'.go
    by_cases hij : i = j
    · subst hij; rw [if_pos (le_refl _)]
    · have hlt : ¬ 2 ^ i ≥ 2 ^ j := by
        have : 2 ^ i < 2 ^ j := Nat.pow_lt_pow_right (by norm_num) (by omega)
        omega
      rw [if_neg hlt]
      have := ih (i + 1) (by omega) (by omega)
      rwa [Nat.pow_succ, Nat.mul_comm] at this

theorem nextPow2'_idem (m : Nat) : nextPow2' (nextPow2' m) = nextPow2' m := by
  obtain ⟨j, hj, e⟩ := nextPow2'_pow m
  rw [e]
  exact nextPow2'_go_pow j 64 0 (by omega) (by omega)

/-- a domain built by `Domain.new?` is the domain of its own size -/
theorem Domain.new?_idem {m : Nat} {d : Domain} (h : Domain.new? m = some d) : Domain.new? d.size = some d := by
  rw [Domain.new?_size h]
  unfold Domain.new? at h ⊢
  simp only [nextPow2'_idem] at h ⊢
  exact h

theorem Domain.toBytes_length (d : Domain) : d.toBytes.length = 172 := by
  unfold Domain.toBytes
  simp only [List.length_append, natToBytesLE_length, scalarBytesLE_length]

theorem scalarBytesLE_mod (x : Nat) : scalarBytesLE (x % R) = scalarBytesLE x := by
  unfold scalarBytesLE; rw [Nat.mod_mod]

theorem Domain.toBytes_scalars (d : Domain) : (d.toBytes.drop 12).take 160 =
    [d.size % R, d.sizeInv % R, d.groupGen % R, d.groupGenInv % R, d.generatorInv % R].flatMap scalarBytesLE ++ [] := by
  unfold Domain.toBytes
  have e : natToBytesLE d.size 8 ++ natToBytesLE d.logSize 4 ++ scalarBytesLE (d.size % R) ++ scalarBytesLE d.sizeInv ++
      scalarBytesLE d.groupGen ++ scalarBytesLE d.groupGenInv ++ scalarBytesLE d.generatorInv =
      (natToBytesLE d.size 8 ++ natToBytesLE d.logSize 4) ++ (scalarBytesLE (d.size % R) ++ (scalarBytesLE d.sizeInv ++
      (scalarBytesLE d.groupGen ++ (scalarBytesLE d.groupGenInv ++ scalarBytesLE d.generatorInv)))) := by
    simp only [List.append_assoc]
  rw [e, List.drop_left' (by simp)]
  simp only [List.flatMap_cons, List.flatMap_nil, List.append_nil, scalarBytesLE_mod]
  apply List.take_of_length_le
  simp

theorem Domain.toBytes_size {d : Domain} (h : d.size < 2 ^ 64) : bytesToNatLE (d.toBytes.take 8) = d.size := by
  unfold Domain.toBytes
  simp only [List.append_assoc]
  rw [List.take_left' (natToBytesLE_length _ _)]
  exact bytesToNatLE_natToBytesLE (lt_of_lt_of_eq h (by norm_num))

theorem DOMAIN_SIZE_eq : DOMAIN_SIZE = 172 := by decide

/-- evaluation-vector round trip -/
theorem evalsFromBytes_evalsToBytes {d : Domain} {ev : List Nat} (hd : Domain.new? d.size = some d)
    (hl : ev.length = d.size) (hev : ∀ e ∈ ev, e < R) :
    evalsFromBytes (evalsToBytes d ev) = .ok (d, ev) := by
  have hsz : d.size < 2 ^ 64 := lt_trans (Domain.new?_size_lt hd) (by norm_num)
  have hdl := Domain.toBytes_length d
  unfold evalsFromBytes evalsToBytes
  simp only [DOMAIN_SIZE_eq]
  have t8 : (d.toBytes ++ ev.flatMap scalarBytesLE).take 8 = d.toBytes.take 8 := by
    rw [List.take_append_of_le_length (by omega)]
  have t172 : (d.toBytes ++ ev.flatMap scalarBytesLE).take 172 = d.toBytes := List.take_left' hdl
  have d172 : (d.toBytes ++ ev.flatMap scalarBytesLE).drop 172 = ev.flatMap scalarBytesLE := List.drop_left' hdl
  have tsc : ((d.toBytes ++ ev.flatMap scalarBytesLE).drop 12).take 160 = (d.toBytes.drop 12).take 160 := by
    rw [List.drop_append_of_le_length (by omega), List.take_append_of_le_length (by simp [hdl])]
  have hrs : readScalars 5 (((d.toBytes ++ ev.flatMap scalarBytesLE).drop 12).take 160) =
      some ([d.size % R, d.sizeInv % R, d.groupGen % R, d.groupGenInv % R, d.generatorInv % R], []) := by
    rw [tsc, Domain.toBytes_scalars]
    refine readScalars_encode [d.size % R, d.sizeInv % R, d.groupGen % R, d.groupGenInv % R, d.generatorInv % R] [] ?_
    intro x hx
    simp only [List.mem_cons, List.not_mem_nil, or_false] at hx
    rcases hx with rfl | rfl | rfl | rfl | rfl <;> exact Nat.mod_lt _ (by decide +kernel)
  have hnp : nextPow2' d.size = d.size := (Domain.new?_size hd).symm
  have hbody : readScalars d.size (ev.flatMap scalarBytesLE) = some (ev, []) := by
    have := readScalars_encode ev [] hev
    rwa [List.append_nil, hl] at this
  rw [if_neg (by rw [List.length_append, hdl]; omega), t8, t172, d172, hrs, Domain.toBytes_size hsz]
  simp only [hnp, bne_self_eq_false, Bool.false_eq_true, if_false, hd, flatMap_scalarBytesLE_length, hl, hbody]
  rw [if_neg (by simp; omega)]

/-- what `evalsFromBytes` accepts: the serialized domain is exactly `Domain.new? size`, `size` is a
    power of two, the input has exactly `172 + 32·size` bytes, the payload is `size` canonical scalars -/
theorem evalsFromBytes_wf {bs : List Nat} {d : Domain} {ev : List Nat} (h : evalsFromBytes bs = .ok (d, ev)) :
    Domain.new? (bytesToNatLE (bs.take 8)) = some d ∧ d.size = bytesToNatLE (bs.take 8) ∧
    nextPow2' d.size = d.size ∧ (∃ j, j < 32 ∧ d.size = 2 ^ j) ∧
    d.toBytes = bs.take 172 ∧ bs.length = 172 + 32 * d.size ∧
    ev.length = d.size ∧ (∀ e ∈ ev, e < R) ∧ (AllBytes bs → evalsToBytes d ev = bs) := by
  unfold evalsFromBytes at h
  simp only [DOMAIN_SIZE_eq] at h
  split at h
  · cases h
  · next hlen =>
    split at h
    · cases h
    · split at h
      · cases h
      · next hnp =>
        split at h
        · cases h
        · next d' hd' =>
          split at h
          · cases h
          · next hdom =>
            split at h
            · cases h
            · next hbl =>
              split at h
              · next ev' r' hrs =>
                have h := Except.ok.inj h
                simp only [Prod.mk.injEq] at h
                obtain ⟨rfl, rfl⟩ := h
                have hnp : nextPow2' (bytesToNatLE (bs.take 8)) = bytesToNatLE (bs.take 8) := by simpa using hnp
                have hsz : d'.size = bytesToNatLE (bs.take 8) := by rw [Domain.new?_size hd', hnp]
                have hdom : d'.toBytes = bs.take 172 := by simpa using hdom
                have hbl : (bs.drop 172).length = bytesToNatLE (bs.take 8) * 32 := by simpa using hbl
                obtain ⟨wf, hlg⟩ := Domain.new?_wf _ _ hd'
                obtain ⟨i1, i2, i3, i4, i5⟩ := readScalars_decode hrs
                rw [List.length_drop] at hbl
                refine ⟨hd', hsz, by rw [hsz]; exact hnp, ⟨d'.logSize, hlg, wf.size_eq⟩, hdom, by omega,
                  by rw [i1, hsz], i4, ?_⟩
                intro hb
                have hr' : r' = [] := by
                  apply List.eq_nil_of_length_eq_zero
                  rw [List.length_drop] at i2; omega
                have := i5 (hb.drop 172)
                rw [hr', List.append_nil] at this
                unfold evalsToBytes
                rw [hdom, this, List.take_append_drop]
              · cases h

/-! ### raw commit key -/

theorem commitKeyFromRaw_go_succ (k : Nat) (r : List Nat) (acc : List G1) :
    commitKeyFromRaw.go (k + 1) r acc =
      match G1.fromRawChecked (r.take 97) with
      | some p => commitKeyFromRaw.go k (r.drop 97) (p :: acc)
      | none => .error .pointMalformed := by
  rw [commitKeyFromRaw.go]
  cases G1.fromRawChecked (r.take 97) <;> rfl

theorem flatMap_toRaw_length (ps : List G1) : (ps.flatMap G1.toRaw).length = 97 * ps.length := by
  induction ps with
  | nil => rfl
  | cons p ps ih => rw [List.flatMap_cons, List.length_append, ih, G1.toRaw_length, List.length_cons]; omega

theorem commitKeyFromRaw_go_encode (ck : List G1) (rest : List Nat) (acc : List G1)
    (h : ∀ p ∈ ck, p.Valid ∧ p.torsionFree = true) :
    commitKeyFromRaw.go ck.length (ck.flatMap G1.toRaw ++ rest) acc = .ok (acc.reverse ++ ck) := by
  induction ck generalizing acc with
  | nil => simp [commitKeyFromRaw.go]
  | cons p ps ih =>
    rw [List.length_cons, commitKeyFromRaw_go_succ, List.flatMap_cons, List.append_assoc,
      List.take_left' (G1.toRaw_length p), List.drop_left' (G1.toRaw_length p),
      G1.fromRawChecked_toRaw (h p (by simp)).1 (h p (by simp)).2]
    simp only
    rw [ih _ (fun q hq => h q (List.mem_cons_of_mem _ hq))]
    simp

theorem commitKeyFromRaw_go_ok {k : Nat} {r : List Nat} {acc ck : List G1}
    (h : commitKeyFromRaw.go k r acc = .ok ck) :
    ∃ ps, ck = acc.reverse ++ ps ∧ ps.length = k ∧ (∀ p ∈ ps, p.Valid ∧ p.torsionFree = true) ∧
      (AllBytes r → 97 * k ≤ r.length → ps.flatMap G1.toRaw = r.take (97 * k)) := by
  induction k generalizing r acc with
  | zero =>
    simp only [commitKeyFromRaw.go, Except.ok.injEq] at h
    exact ⟨[], by simp [h], rfl, by simp, by simp⟩
  | succ k ih =>
    rw [commitKeyFromRaw_go_succ] at h
    split at h
    · next p hp =>
      obtain ⟨ps, e1, e2, e3, e4⟩ := ih h
      refine ⟨p :: ps, by simp [e1], by simp [e2], ?_, ?_⟩
      · intro q hq
        rcases List.mem_cons.mp hq with rfl | hq
        · obtain ⟨_, _, _, _, _, v, t⟩ := G1.fromRawChecked_wf hp
          exact ⟨v, t⟩
        · exact e3 q hq
      · intro hb hlen
        have hl97 : (r.take 97).length = 97 := by simp; omega
        rw [List.flatMap_cons, G1.fromRawChecked_canonical (hb.take 97) hl97 hp,
          e4 (hb.drop 97) (by rw [List.length_drop]; omega)]
        have : 97 * (k + 1) = 97 + 97 * k := by omega
        rw [this, List.take_add]
    · cases h

theorem commitKeyToRaw_length (ck : List G1) : (commitKeyToRaw ck).length = 8 + 97 * ck.length := by
  unfold commitKeyToRaw
  rw [List.length_append, natToBytesLE_length, flatMap_toRaw_length]

/-- raw commit-key round trip (non-empty key whose encoding fits `usize`) -/
theorem commitKeyFromRaw_toRaw {ck : List G1} (hne : ck ≠ []) (hfit : 8 + ck.length * 97 ≤ USIZE_MAX)
    (h : ∀ p ∈ ck, p.Valid ∧ p.torsionFree = true) :
    commitKeyFromRaw (commitKeyToRaw ck) = .ok ck := by
  have hlen : ck.length ≠ 0 := by rwa [Ne, List.length_eq_zero_iff]
  rw [USIZE_MAX_eq] at hfit
  unfold commitKeyFromRaw
  have hl := commitKeyToRaw_length ck
  have t8 : (commitKeyToRaw ck).take 8 = natToBytesLE ck.length 8 := List.take_left' (natToBytesLE_length _ _)
  have d8 : (commitKeyToRaw ck).drop 8 = ck.flatMap G1.toRaw ++ [] := by
    rw [List.append_nil]; exact List.drop_left' (natToBytesLE_length _ _)
  have hv : bytesToNatLE (natToBytesLE ck.length 8) = ck.length :=
    bytesToNatLE_natToBytesLE (by norm_num; omega)
  rw [if_neg (by omega), t8, hv, d8, USIZE_MAX_eq]
  simp only
  rw [if_neg (by simpa using hlen), if_neg (by simp; omega), if_neg (by simp [hl]; omega),
    commitKeyFromRaw_go_encode ck [] [] h]
  simp

/-- what the raw commit-key decoder accepts: a non-empty key, exactly `8 + 97·len` bytes, every point
    reduced, on the curve and torsion free; and the encoding is canonical -/
theorem commitKeyFromRaw_wf {bs : List Nat} {ck : List G1} (h : commitKeyFromRaw bs = .ok ck) :
    ck ≠ [] ∧ 97 * ck.length + 8 = bs.length ∧ ck.length = bytesToNatLE (bs.take 8) ∧
    (∀ p ∈ ck, p.Valid ∧ p.torsionFree = true) ∧ (AllBytes bs → commitKeyToRaw ck = bs) := by
  unfold commitKeyFromRaw at h
  split at h
  · cases h
  · next hlen =>
    simp only at h
    split at h
    · cases h
    · next hz =>
      split at h
      · cases h
      · split at h
        · cases h
        · next hl =>
          have hz : bytesToNatLE (bs.take 8) ≠ 0 := by simpa using hz
          have hl : bs.length = 8 + bytesToNatLE (bs.take 8) * 97 := by simpa using hl
          obtain ⟨ps, e1, e2, e3, e4⟩ := commitKeyFromRaw_go_ok h
          simp only [List.reverse_nil, List.nil_append] at e1
          subst e1
          refine ⟨?_, by omega, e2, e3, ?_⟩
          · intro hnil; rw [hnil] at e2; exact hz e2.symm
          · intro hb
            unfold commitKeyToRaw
            rw [e4 (hb.drop 8) (by rw [List.length_drop]; omega), e2]
            have hl8 : (bs.take 8).length = 8 := by simp; omega
            have e0 : natToBytesLE (bytesToNatLE (bs.take 8)) 8 = bs.take 8 := by
              have := natToBytesLE_bytesToNatLE (hb.take 8); rwa [hl8] at this
            have ht : List.take (97 * bytesToNatLE (bs.take 8)) (bs.drop 8) = bs.drop 8 :=
              List.take_of_length_le (by rw [List.length_drop]; omega)
            rw [e0, ht, List.take_append_drop]

/-! ### prover key -/

theorem Poly.trim_length_le (p : Poly) : (Poly.trim p).length ≤ p.length := by
  unfold Poly.trim
  rw [List.length_reverse]
  exact le_trans (List.dropWhile_sublist _).length_le (by rw [List.length_reverse])

theorem Poly.trim_trim (p : Poly) : Poly.trim (Poly.trim p) = Poly.trim p := by
  unfold Poly.trim
  rw [List.reverse_reverse, List.dropWhile_idempotent]

theorem Poly.mem_of_mem_trim {p : Poly} {c : Nat} (h : c ∈ Poly.trim p) : c ∈ p := by
  unfold Poly.trim at h
  rw [List.mem_reverse] at h
  exact List.mem_reverse.mp (List.dropWhile_subset _ h)

theorem u64le?_eq_some {bs : List Nat} {n : Nat} {r : List Nat} (h : u64le? bs = some (n, r)) :
    8 ≤ bs.length ∧ n = bytesToNatLE (bs.take 8) ∧ r = bs.drop 8 := by
  unfold u64le? at h
  split at h
  · cases h
  · simp only [Option.some.injEq, Prod.mk.injEq] at h
    exact ⟨by omega, h.1.symm, h.2.symm⟩

/-- the polynomial reader of `PKeyRaw.fromBytes` (same code, named) -/
def pkReadPoly (n : Nat) (r : List Nat) : Except DecErr (Poly × List Nat) :=
  match u64le? r with
  | none => .error .invalidData
  | some (len, r) =>
    if len > n then .error .invalidData else
    let sz := len * 32
    if sz == 0 then .ok ([], r) else
    if r.length < sz then .error .notEnoughBytes else
    match readScalars len (r.take sz) with
    | some (cs, _) => .ok (Poly.trim cs, r.drop sz)
    | none => .error .invalidData

/-- the evaluation-vector reader of `PKeyRaw.fromBytes` (same code, named) -/
def pkReadEvals (evSize : Nat) (d8 : Domain) (r : List Nat) : Except DecErr (List Nat × List Nat) :=
  if r.length < evSize then .error .notEnoughBytes else
  match evalsFromBytes (r.take evSize) with
  | .error e => .error e
  | .ok (d, ev) => if d != d8 then .error .invalidData else .ok (ev, r.drop evSize)

theorem Domain.beq_iff (a b : Domain) : (a == b) = true ↔ a = b := by
  cases a; cases b
  simp [BEq.beq, instBEqDomain.beq]

/-- a polynomial that was read: at most `n` canonical coefficients, backed by the bytes consumed -/
theorem pkReadPoly_ok {n : Nat} {r r' : List Nat} {p : Poly} (h : pkReadPoly n r = .ok (p, r')) :
    (p.length ≤ n ∧ (∀ c ∈ p, c < R) ∧ Poly.trim p = p) ∧ r'.length + 32 * p.length + 8 ≤ r.length := by
  unfold pkReadPoly at h
  split at h
  · cases h
  · next len r1 hu =>
    obtain ⟨h8, _, hr1⟩ := u64le?_eq_some hu
    have hr1l : r1.length + 8 = r.length := by rw [hr1, List.length_drop]; omega
    split at h
    · cases h
    · next hle =>
      simp only at h
      split at h
      · have h := Except.ok.inj h
        simp only [Prod.mk.injEq] at h
        obtain ⟨rfl, rfl⟩ := h
        exact ⟨⟨by simp, by simp, rfl⟩, by simp; omega⟩
      · split at h
        · cases h
        · next hlen =>
          split at h
          · next cs x hrs =>
            have h := Except.ok.inj h
            simp only [Prod.mk.injEq] at h
            obtain ⟨rfl, rfl⟩ := h
            obtain ⟨i1, _, _, i4, _⟩ := readScalars_decode hrs
            have t1 := Poly.trim_length_le cs
            refine ⟨⟨by omega, fun c hc => i4 c (Poly.mem_of_mem_trim hc), Poly.trim_trim cs⟩, ?_⟩
            rw [List.length_drop]; omega
          · cases h

/-- an evaluation vector that was read: `d8.size` canonical scalars over the domain `d8`, backed by the
    bytes consumed -/
theorem pkReadEvals_ok {evSize : Nat} {d8 : Domain} {r r' ev : List Nat}
    (h : pkReadEvals evSize d8 r = .ok (ev, r')) :
    (ev.length = d8.size ∧ ∀ c ∈ ev, c < R) ∧ r'.length + 32 * ev.length + 172 ≤ r.length := by
  unfold pkReadEvals at h
  split at h
  · cases h
  · next hlen =>
    split at h
    · cases h
    · next d ev' hev =>
      split at h
      · cases h
      · next hd =>
        have h := Except.ok.inj h
        simp only [Prod.mk.injEq] at h
        obtain ⟨rfl, rfl⟩ := h
        have hd : d = d8 := by
          rw [← Domain.beq_iff]
          have : (d != d8) = false := by simpa using hd
          simpa [bne] using this
        subst hd
        obtain ⟨_, _, _, _, _, w6, w7, w8, _⟩ := evalsFromBytes_wf hev
        refine ⟨⟨w7, w8⟩, ?_⟩
        rw [List.length_take] at w6
        rw [List.length_drop, w7]; omega

theorem PKeyRaw_go_succ (rp : List Nat → Except DecErr (Poly × List Nat))
    (re : List Nat → Except DecErr (List Nat × List Nat)) (k : Nat) (r : List Nat) (ps : Array Poly)
    (es : Array (List Nat)) :
    PKeyRaw.fromBytes.go rp re (k + 1) r ps es =
      match rp r with
      | .error e => .error e
      | .ok (p, r) =>
        match re r with
        | .error e => .error e
        | .ok (ev, r) => PKeyRaw.fromBytes.go rp re k r (ps.push p) (es.push ev) := by
  rw [PKeyRaw.fromBytes.go]
  cases rp r with
  | error e => rfl
  | ok q =>
    obtain ⟨p, r1⟩ := q
    simp only
    cases re r1 with
    | error e => rfl
    | ok w => rfl

/-- the 15-fold loop of `PKeyRaw.fromBytes`: every item read satisfies the reader's guarantee, and
    the sum of the decoded lengths is backed by consumed input -/
theorem PKeyRaw_go_ok {rp : List Nat → Except DecErr (Poly × List Nat)}
    {re : List Nat → Except DecErr (List Nat × List Nat)} {PP : Poly → Prop} {PE : List Nat → Prop}
    (hP : ∀ r p r', rp r = .ok (p, r') → PP p ∧ r'.length + 32 * p.length + 8 ≤ r.length)
    (hE : ∀ r e r', re r = .ok (e, r') → PE e ∧ r'.length + 32 * e.length + 172 ≤ r.length)
    {k : Nat} {r r' : List Nat} {ps ps' : Array Poly} {es es' : Array (List Nat)}
    (h : PKeyRaw.fromBytes.go rp re k r ps es = .ok (ps', es', r')) :
    ∃ lp le, ps'.toList = ps.toList ++ lp ∧ es'.toList = es.toList ++ le ∧ lp.length = k ∧ le.length = k ∧
      (∀ p ∈ lp, PP p) ∧ (∀ e ∈ le, PE e) ∧
      r'.length + 32 * ((lp.map List.length).sum + (le.map List.length).sum) + 180 * k ≤ r.length := by
  induction k generalizing r ps es with
  | zero =>
    simp only [PKeyRaw.fromBytes.go, Except.ok.injEq, Prod.mk.injEq] at h
    obtain ⟨rfl, rfl, rfl⟩ := h
    exact ⟨[], [], by simp, by simp, rfl, rfl, by simp, by simp, by simp⟩
  | succ k ih =>
    rw [PKeyRaw_go_succ] at h
    split at h
    · cases h
    · next p r1 hp =>
      split at h
      · cases h
      · next ev r2 he =>
        obtain ⟨lp, le, e1, e2, l1, l2, a1, a2, bd⟩ := ih h
        obtain ⟨pp, b1⟩ := hP _ _ _ hp
        obtain ⟨pe, b2⟩ := hE _ _ _ he
        refine ⟨p :: lp, ev :: le, by simp [e1], by simp [e2], by simp [l1], by simp [l2], ?_, ?_, ?_⟩
        · intro q hq
          rcases List.mem_cons.mp hq with rfl | hq
          · exact pp
          · exact a1 q hq
        · intro q hq
          rcases List.mem_cons.mp hq with rfl | hq
          · exact pe
          · exact a2 q hq
        · simp only [List.map_cons, List.sum_cons]
          omega

/-- well-formed prover key over the extended domain `d8` -/
structure PKeyRaw.WF (k : PKeyRaw) (d8 : Domain) : Prop where
  n_lt : k.n * 8 < 2 ^ 64
  dom : Domain.new? (k.n * 8) = some d8
  pow2 : nextPow2' (k.n * 8) = k.n * 8
  size8 : d8.size = k.n * 8
  npolys : k.polys.size = 15
  nevals : k.evals.size = 15
  polys : ∀ p ∈ k.polys.toList, p.length ≤ k.n ∧ ∀ c ∈ p, c < R
  trimmed : ∀ p ∈ k.polys.toList, Poly.trim p = p
  evals : ∀ e ∈ k.evals.toList, e.length = k.n * 8 ∧ ∀ c ∈ e, c < R
  lin : d8.matchesLinearOverCoset k.lin = true
  vh : d8.matchesVanishingOverCoset k.n k.vh = true
  lin_len : k.lin.length = k.n * 8
  vh_len : k.vh.length = k.n * 8
  lin_lt : ∀ c ∈ k.lin, c < R
  vh_lt : ∀ c ∈ k.vh, c < R

/-- the total number of scalars held by a prover key -/
def PKeyRaw.cells (k : PKeyRaw) : Nat :=
  (k.polys.toList.map List.length).sum + (k.evals.toList.map List.length).sum + k.lin.length + k.vh.length

/-- what `PKeyRaw.fromBytes` accepts, and the work bound: every decoded scalar is backed by 32 input
    bytes that were present -/
theorem PKeyRaw.fromBytes_wf {bs : List Nat} {k : PKeyRaw} (h : PKeyRaw.fromBytes bs = .ok k) :
    (∃ d8, k.WF d8) ∧ 32 * k.cells ≤ bs.length := by
  unfold PKeyRaw.fromBytes at h
  split at h
  · cases h
  · next n r1 hu1 =>
    split at h
    · cases h
    · next evSize r2 hu2 =>
      simp only at h
      split at h
      · cases h
      · next hfit =>
        split at h
        · cases h
        · next hnp =>
          split at h
          · cases h
          · next d8 hd8 =>
            split at h
            · cases h
            · next ps es r3 hgo =>
              have hgo' : PKeyRaw.fromBytes.go (pkReadPoly n) (pkReadEvals evSize d8) 15 r2 #[] #[] =
                  .ok (ps, es, r3) := hgo
              split at h
              · cases h
              · next lin r4 hlin =>
                have hlin' : pkReadEvals evSize d8 r3 = .ok (lin, r4) := hlin
                split at h
                · cases h
                · next hml =>
                  split at h
                  · cases h
                  · next vh r5 hvh =>
                    have hvh' : pkReadEvals evSize d8 r4 = .ok (vh, r5) := hvh
                    split at h
                    · cases h
                    · next hmv =>
                      have h := Except.ok.inj h
                      subst h
                      obtain ⟨lp, le, e1, e2, l1, l2, a1, a2, bd⟩ :=
                        PKeyRaw_go_ok (PP := fun p => p.length ≤ n ∧ (∀ c ∈ p, c < R) ∧ Poly.trim p = p)
                          (PE := fun e => e.length = d8.size ∧ ∀ c ∈ e, c < R)
                          (fun r p r' hr => pkReadPoly_ok hr) (fun r e r' hr => pkReadEvals_ok hr) hgo'
                      obtain ⟨⟨ll1, ll2⟩, bl⟩ := pkReadEvals_ok hlin'
                      obtain ⟨⟨lv1, lv2⟩, bv⟩ := pkReadEvals_ok hvh'
                      simp only [List.nil_append] at e1 e2
                      have hnp : nextPow2' (n * 8) = n * 8 := by simpa using hnp
                      have hs8 : d8.size = n * 8 := by rw [Domain.new?_size hd8, hnp]
                      have hml : d8.matchesLinearOverCoset lin = true := by simpa using hml
                      have hmv : d8.matchesVanishingOverCoset n vh = true := by simpa using hmv
                      obtain ⟨h8a, _, hr1⟩ := u64le?_eq_some hu1
                      obtain ⟨h8b, _, hr2⟩ := u64le?_eq_some hu2
                      have hr2l : r2.length + 16 = bs.length := by
                        rw [hr2, hr1, List.length_drop, List.length_drop]
                        rw [hr1, List.length_drop] at h8b; omega
                      constructor
                      · refine ⟨d8, ?_⟩
                        rw [USIZE_MAX_eq] at hfit
                        exact {
                          n_lt := by show n * 8 < 2 ^ 64; omega
                          dom := hd8, pow2 := hnp, size8 := hs8
                          npolys := by show ps.size = 15; rw [← Array.length_toList, e1, l1]
                          nevals := by show es.size = 15; rw [← Array.length_toList, e2, l2]
                          polys := by
                            intro p hp
                            have := a1 p (by rw [← e1]; exact hp)
                            exact ⟨this.1, this.2.1⟩
                          trimmed := by intro p hp; exact (a1 p (by rw [← e1]; exact hp)).2.2
                          evals := by
                            intro e he
                            have := a2 e (by rw [← e2]; exact he)
                            exact ⟨by rw [this.1, hs8], this.2⟩
                          lin := hml, vh := hmv
                          lin_len := by show lin.length = n * 8; rw [ll1, hs8]
                          vh_len := by show vh.length = n * 8; rw [lv1, hs8]
                          lin_lt := ll2, vh_lt := lv2 }
                      · show 32 * ((ps.toList.map List.length).sum + (es.toList.map List.length).sum +
                          lin.length + vh.length) ≤ bs.length
                        rw [e1, e2]; omega

/-! ### prover -/

/-- what `ProverM.fromBytes` accepts (framing, `ProverKey`, raw commit key, verifier key, and the
    checks of `Prover::new`), with the work bound -/
theorem ProverM.fromBytes_wf {bs : List Nat} {p : ProverM} (h : ProverM.fromBytes bs = .ok p) :
    p.constraints ≤ 2 ^ 63 ∧ p.size = nextPow2' p.constraints ∧ p.key.n = p.size ∧
    (∃ d8, p.key.WF d8) ∧
    (p.ck ≠ [] ∧ ∀ q ∈ p.ck, q.Valid ∧ q.torsionFree = true) ∧ p.vk.WF ∧
    (∃ d, Domain.new? p.constraints = some d ∧ d.size = p.size) ∧
    p.key.vh.length = 8 * p.size ∧ (∀ x ∈ p.key.vh, x ≠ 0) ∧
    p.label.length + 32 * p.key.cells + 97 * p.ck.length ≤ bs.length := by
  unfold ProverM.fromBytes at h
  split at h
  · cases h
  · next hlen =>
    simp only at h
    split at h
    · cases h
    · split at h
      · cases h
      · split at h
        · cases h
        · split at h
          · cases h
          · next hreq =>
            split at h
            · cases h
            · next hcs =>
              split at h
              · cases h
              · next key hkey =>
                split at h
                · cases h
                · next hn =>
                  split at h
                  · cases h
                  · next ck hck =>
                    split at h
                    · cases h
                    · next vk hvk =>
                      split at h
                      · cases h
                      · next d hd =>
                        split at h
                        · cases h
                        · next d8 hd8 =>
                          split at h
                          · cases h
                          · next hvh =>
                            have h := Except.ok.inj h
                            subst h
                            simp only [Bool.or_eq_true, decide_eq_true_eq, not_or, not_lt, bne_iff_ne, ne_eq,
                              not_not] at hcs
                            obtain ⟨hc63, hnp⟩ := hcs
                            simp only [bne_iff_ne, ne_eq, not_not] at hn
                            simp only [Bool.or_eq_true, not_or, bne_iff_ne, ne_eq, not_not, List.any_eq_true,
                              beq_iff_eq, not_exists, not_and] at hvh
                            obtain ⟨hvl, hvz⟩ := hvh
                            obtain ⟨⟨k8, wf⟩, bk⟩ := PKeyRaw.fromBytes_wf hkey
                            obtain ⟨c1, c2, _, c4, _⟩ := commitKeyFromRaw_wf hck
                            obtain ⟨vwf, _⟩ := VKey.fromBytes_wf hvk
                            have hds := (Domain.new?_size hd).trans hnp
                            have hd8s : d8.size = d.size * 8 := by
                              rw [Domain.new?_size hd8, hds, ← hn]; exact wf.pow2
                            refine ⟨hc63, hnp.symm, hn, ⟨k8, wf⟩, ⟨c1, c4⟩, vwf, ⟨d, hd, hds⟩, ?_, ?_, ?_⟩
                            · rw [hvl, hd8s, hds]; exact Nat.mul_comm _ _
                            · intro x hx h0; exact hvz x hx h0
                            · dsimp only
                              simp only [List.length_take, List.length_drop] at bk c2 hreq ⊢
                              omega

/-! ### public parameters -/

theorem commitKeyFromCompressed_go_succ (f : Nat) (r : List Nat) (acc : List G1) :
    commitKeyFromCompressed.go (f + 1) r acc =
      if r.isEmpty then .ok acc.reverse else
      match G1.fromCompressed? (r.take 48) with
      | some p => commitKeyFromCompressed.go f (r.drop 48) (p :: acc)
      | none => .error .invalidData := by
  rw [commitKeyFromCompressed.go]
  split
  · rfl
  · cases G1.fromCompressed? (r.take 48) <;> rfl

theorem commitKeyFromCompressed_go_ok {f : Nat} {r : List Nat} {acc ck : List G1}
    (h : commitKeyFromCompressed.go f r acc = .ok ck) :
    ∃ ps, ck = acc.reverse ++ ps ∧ (∀ p ∈ ps, p.Valid ∧ p.torsionFree = true) ∧ 48 * ps.length ≤ r.length := by
  induction f generalizing r acc with
  | zero =>
    simp only [commitKeyFromCompressed.go, Except.ok.injEq] at h
    exact ⟨[], by simp [h], by simp, by simp⟩
  | succ f ih =>
    rw [commitKeyFromCompressed_go_succ] at h
    split at h
    · simp only [Except.ok.injEq] at h
      exact ⟨[], by simp [h], by simp, by simp⟩
    · split at h
      · next p hp =>
        obtain ⟨ps, e1, e2, e3⟩ := ih h
        have hl := G1.fromCompressed?_length hp
        rw [List.length_take] at hl
        rw [List.length_drop] at e3
        refine ⟨p :: ps, by simp [e1], ?_, by simp only [List.length_cons]; omega⟩
        intro q hq
        rcases List.mem_cons.mp hq with rfl | hq
        · exact G1.fromCompressed_wf hp
        · exact e2 q hq
      · cases h

theorem commitKeyFromCompressed_go_encode (ck : List G1) (acc : List G1) (f : Nat) (hf : ck.length < f)
    (h : ∀ p ∈ ck, p.Valid ∧ p.torsionFree = true) :
    commitKeyFromCompressed.go f (ck.flatMap G1.toCompressed) acc = .ok (acc.reverse ++ ck) := by
  induction ck generalizing acc f with
  | nil =>
    match f, hf with
    | f + 1, _ => rw [commitKeyFromCompressed_go_succ]; simp
  | cons p ps ih =>
    match f, hf with
    | f + 1, hf =>
      rw [commitKeyFromCompressed_go_succ, List.flatMap_cons]
      have hl := G1.toCompressed_length p
      have hne : ¬ (p.toCompressed ++ ps.flatMap G1.toCompressed).isEmpty = true := by
        rw [List.isEmpty_iff]; intro hnil
        have := congrArg List.length hnil
        rw [List.length_append, hl] at this; simp at this
      rw [if_neg hne, List.take_left' hl, List.drop_left' hl,
        G1.fromCompressed_toCompressed (h p (by simp)).1 (h p (by simp)).2]
      simp only
      rw [ih _ f (by simp at hf; omega) (fun q hq => h q (List.mem_cons_of_mem _ hq))]
      simp

/-- what `ppFromBytes` accepts, with the work bound -/
theorem ppFromBytes_wf {bs : List Nat} {ok : OpeningKeyM} {ck : List G1} (h : ppFromBytes bs = .ok (ok, ck)) :
    (ok.g.Valid ∧ ok.g.torsionFree = true ∧ ok.h.torsionFree = true ∧ ok.xh.torsionFree = true ∧
      ok.g ≠ .inf ∧ ok.h ≠ .inf ∧ ok.xh ≠ .inf) ∧
    (∀ p ∈ ck, p.Valid ∧ p.torsionFree = true) ∧ 240 + 48 * ck.length ≤ bs.length := by
  unfold ppFromBytes at h
  split at h
  · cases h
  · next hlen =>
    split at h
    · cases h
    · next ok' hok =>
      split at h
      · cases h
      · next ck' hck =>
        have h := Except.ok.inj h
        simp only [Prod.mk.injEq] at h
        obtain ⟨rfl, rfl⟩ := h
        obtain ⟨a1, a2, a3, a4, a5, a6, a7, _⟩ := OpeningKeyM.fromBytes_wf hok
        unfold commitKeyFromCompressed at hck
        obtain ⟨ps, e1, e2, e3⟩ := commitKeyFromCompressed_go_ok hck
        simp only [List.reverse_nil, List.nil_append] at e1
        subst e1
        rw [List.length_drop] at e3
        exact ⟨⟨a1, a2, a3, a4, a5, a6, a7⟩, e2, by omega⟩

/-- public-parameter round trip (non-empty commit key; `G2` round trip as hypothesis) -/
theorem ppFromBytes_ppToBytes {ok : OpeningKeyM} {ck : List G1} (hok : OpeningKeyM.fromBytes? ok.toBytes = some ok)
    (hne : ck ≠ []) (h : ∀ p ∈ ck, p.Valid ∧ p.torsionFree = true) :
    ppFromBytes (ppToBytes ok ck) = .ok (ok, ck) := by
  have hlen : ck.length ≠ 0 := by rwa [Ne, List.length_eq_zero_iff]
  have hl := OpeningKeyM.toBytes_length ok
  unfold ppFromBytes ppToBytes
  rw [if_neg (by rw [List.length_append, hl, flatMap_toCompressed_length]; omega), List.take_left' hl,
    List.drop_left' hl, hok]
  simp only
  unfold commitKeyFromCompressed
  rw [commitKeyFromCompressed_go_encode ck [] _ (by rw [flatMap_toCompressed_length]; omega) h]
  simp

end Plonk
