/-
  C01 (completeness), algebraic core, on the model's data — the SAME objects as the soundness
  composition (`SoundnessModel`): a compiled layout `lay` (gate rows `lay.gateAt`, public inputs
  `lay.piAt`, permutation `sigmaFn lay`), the row check `Plonk.rowHolds`, prover polynomials
  `P : ProverPolys F` with `KeyInterp ω n lay P`, the per-row quantities `gateAtRow`, `permAtRow`,
  `l1AtRow` and the numerator polynomial `NumP`.

  * `gate_sum_zero_of_rowHolds'`, `gate_row_vanishes` : a row that passes `rowHolds` makes the gate
    expression vanish for ALL separation challenges (no `SelReduced` hypothesis: this direction does
    not need canonical selectors).
  * `denBadM` (`≤ 4n`), `denRow_ne_zero`, `prod_rows_eq`, `perm_rows_vanish` : wire values constant
    on the wiring classes, `γ ∉ denBadM β`, accumulator interpolating the running product
    (`AccInterp`) ⇒ both permutation identities vanish on every row of the domain.
  * `perm_identities_poly` : the same as polynomial identities `Z(ωX)·Den − Z·Num`, `(Z − 1)·L₁`.
  * `numerator_vanishes`, `numerator_divisible` : `Num` vanishes on the domain for every `α` and
    every separation challenge, hence `Num = T·(Xⁿ − 1)`.
-/
import Plonk.Proofs.CompletenessCore
import Plonk.Proofs.SoundnessModel

namespace Plonk.Complete
open Polynomial Plonk Plonk.Quot Plonk.Perm Plonk.Sound

/-! ### 2. the gate identity -/

/-- a selector-guarded widget check of `rowHolds`, completeness direction (no bound on `q`) -/
theorem widget_of (q : Nat) (cs : List Nat) (hcs : ∀ x ∈ cs, x < R)
    (h : (q == 0 || allZero cs) = true) : ∀ c ∈ cs.map toF, toF q * c = 0 := by
  rw [Bool.or_eq_true] at h
  intro c hc
  rcases h with h | h
  · have hq : q = 0 := by simpa using h
    rw [hq, toF_zero, zero_mul]
  · obtain ⟨x, hx, rfl⟩ := List.mem_map.mp hc
    rw [(allZero_iff cs hcs).mp h x hx, mul_zero]

/-- `rowHolds` in the field, completeness direction, for ARBITRARY (possibly non-canonical)
    selectors -/
theorem rowHolds_field (g : Gate) (a b c d an bn dn pi : Nat)
    (h : rowHolds g a b c d an bn dn pi = true) :
    arithR (Quot.selF g) (wiresF a b c d an bn dn) + toF pi = 0 ∧
    (∀ x ∈ rangeCompsR (wiresF a b c d an bn dn), toF g.qrange * x = 0) ∧
    (∀ x ∈ logicCompsR (toF g.qc) (wiresF a b c d an bn dn), toF g.qlogic * x = 0) ∧
    (∀ x ∈ fixedCompsR (toF g.ql) (toF g.qr) (toF g.qc) (wiresF a b c d an bn dn),
      toF g.qfixed * x = 0) ∧
    (∀ x ∈ varCompsR (wiresF a b c d an bn dn), toF g.qvar * x = 0) := by
  unfold rowHolds at h
  rw [Bool.and_eq_true, Bool.and_eq_true, Bool.and_eq_true, Bool.and_eq_true] at h
  obtain ⟨⟨⟨⟨h0, h1⟩, h2⟩, h3⟩, h4⟩ := h
  rw [arithVal_beq_zero, arithF_eq g a b c d an bn dn pi] at h0
  have e1 := widget_of _ _ (rangeComps_lt a b c d dn) h1
  have e2 := widget_of _ _ (logicComps_lt g.qc a an b bn c d dn) h2
  have e3 := widget_of _ _ (fixedComps_lt g.ql g.qr g.qc a an b bn c d dn) h3
  have e4 := widget_of _ _ (varComps_lt a an b bn c d dn) h4
  rw [map_toF_rangeComps a b c d an bn dn] at e1
  rw [map_toF_logicComps] at e2
  rw [map_toF_fixedComps] at e3
  rw [map_toF_varComps] at e4
  exact ⟨h0, e1, e2, e3, e4⟩

/-- **completeness direction of the gate sum, without `SelReduced`**: a row that holds makes the
    weighted row expression vanish for every choice of the four separation challenges -/
theorem gate_sum_zero_of_rowHolds' (g : Gate) (a b c d an bn dn pi : Nat)
    (h : rowHolds g a b c d an bn dn pi = true) (s : Seps F) :
    gateSumR (Quot.selF g) (wiresF a b c d an bn dn) (toF pi) s = 0 := by
  obtain ⟨h0, h1, h2, h3, h4⟩ := rowHolds_field g a b c d an bn dn pi h
  have z (q : F) (cs : List F) (hz : ∀ x ∈ cs, q * x = 0) (t : F) : q * wsum cs t = 0 := by
    rw [← wsum_map_mul]
    apply wsum_of_all_zero
    intro x hx
    obtain ⟨y, hy, rfl⟩ := List.mem_map.mp hx
    exact hz y hy
  unfold gateSumR
  have e1 : (Quot.selF g).qrange * wsum (rangeCompsR (wiresF a b c d an bn dn)) s.rs = 0 := z _ _ h1 s.rs
  have e2 : (Quot.selF g).qlogic * wsum (logicCompsR (Quot.selF g).qc (wiresF a b c d an bn dn)) s.ls = 0 :=
    z _ _ h2 s.ls
  have e3 : (Quot.selF g).qfixed *
      wsum (fixedCompsR (Quot.selF g).ql (Quot.selF g).qr (Quot.selF g).qc (wiresF a b c d an bn dn)) s.fs = 0 :=
    z _ _ h3 s.fs
  have e4 : (Quot.selF g).qvar * wsum (varCompsR (wiresF a b c d an bn dn)) s.vs = 0 := z _ _ h4 s.vs
  rw [e1, e2, e3, e4]
  linear_combination h0

/-- **`gate_identity_vanishes`, row form**: the row check of the soundness composition (`rowOKP`,
    values read off the wire polynomials, next row cyclic) makes the gate expression of that row
    vanish for ALL separation challenges -/
theorem gate_row_vanishes (ω : F) (n : Nat) (lay : Composer) (P : ProverPolys F) (i : Nat)
    (h : rowOKP ω n lay P i) (s : Seps F) : gateAtRow ω n lay P i s = 0 := by
  unfold gateAtRow
  rw [wiresAt_eq_wiresF]
  exact gate_sum_zero_of_rowHolds' _ _ _ _ _ _ _ _ _ h s

/-! ### 1. the permutation identities -/

/-- the numerator of row `i`: `∏_col (w + β·K_col·ω^i + γ)` -/
noncomputable def numRow (ω : F) (P : ProverPolys F) (β γ : F) (i : Nat) : F :=
  permNumR β γ (wireVal ω P (0, i)) (wireVal ω P (1, i)) (wireVal ω P (2, i)) (wireVal ω P (3, i))
    (ω ^ i)

/-- the denominator of row `i`: `∏_col (w + β·id(σ(col,i)) + γ)` -/
noncomputable def denRow (ω : F) (lay : Composer) (P : ProverPolys F) (β γ : F) (i : Nat) : F :=
  permDenR β γ (wireVal ω P (0, i)) (wireVal ω P (1, i)) (wireVal ω P (2, i)) (wireVal ω P (3, i))
    (idLabel ω (sigmaFn lay (0, i))) (idLabel ω (sigmaFn lay (1, i)))
    (idLabel ω (sigmaFn lay (2, i))) (idLabel ω (sigmaFn lay (3, i)))

theorem permAtRow_eq (ω : F) (n : Nat) (lay : Composer) (P : ProverPolys F) (β γ : F) (i : Nat) :
    permAtRow ω n lay P β γ i =
      numRow ω P β γ i * P.z.eval (ω ^ i) - denRow ω lay P β γ i * P.z.eval (ω ^ ((i + 1) % n)) :=
  rfl

/-- bad `γ` of the honest prover for a given `β`: at most `4n` values, fixed by the wire values -/
noncomputable def denBadM (ω : F) (n : Nat) (lay : Composer) (P : ProverPolys F) (β : F) : Finset F :=
  denBad (posSet n) (wireVal ω P) (idLabel ω) (sigmaFn lay) β

theorem denBadM_card_le (ω : F) (n : Nat) (lay : Composer) (P : ProverPolys F) (β : F) :
    (denBadM ω n lay P β).card ≤ 4 * n := by
  have := denBad_card_le (posSet n) (wireVal ω P) (idLabel ω) (sigmaFn lay) β
  rwa [posSet_card] at this

/-- a `γ` outside the soundness bad set is outside the completeness bad set -/
theorem notMem_denBadM_of_notMem_gammaBadM (ω : F) (n : Nat) (lay : Composer) (P : ProverPolys F)
    (β γ : F) (h : γ ∉ gammaBadM ω n lay P β) : γ ∉ denBadM ω n lay P β :=
  fun hm => h (denBad_subset_gammaBad _ _ _ _ _ hm)

/-- outside the bad set no denominator vanishes -/
theorem denRow_ne_zero (ω : F) (n : Nat) (lay : Composer) (P : ProverPolys F) (β γ : F)
    (hγ : γ ∉ denBadM ω n lay P β) : ∀ i < n, denRow ω lay P β γ i ≠ 0 := by
  have hfac := den_factor_ne_zero (posSet n) (wireVal ω P) (idLabel ω) (sigmaFn lay) β γ hγ
  intro i hi
  have m (col : Nat) (hc : col < 4) := hfac (col, i) ((mem_posSet _ _).mpr ⟨hc, hi⟩)
  unfold denRow permDenR
  exact mul_ne_zero (mul_ne_zero (mul_ne_zero (m 0 (by omega)) (m 1 (by omega)))
    (m 2 (by omega))) (m 3 (by omega))

/-- conversely: if no denominator of a row `< n` vanishes, `γ` is outside the bad set -/
theorem notMem_denBadM_of_denRow_ne_zero (ω : F) (n : Nat) (lay : Composer) (P : ProverPolys F)
    (β γ : F) (h : ∀ i < n, denRow ω lay P β γ i ≠ 0) : γ ∉ denBadM ω n lay P β := by
  apply notMem_denBad_of_ne_zero
  intro p hp h0
  obtain ⟨h1, h2⟩ := (mem_posSet _ _).mp hp
  apply h p.2 h2
  obtain ⟨c, i⟩ := p
  have hc : c < 4 := h1
  unfold denRow permDenR
  interval_cases c
  · rw [h0]; ring
  · rw [h0]; ring
  · rw [h0]; ring
  · rw [h0]; ring

/-- **the two grand products agree** for wire values that respect `σ` (all `β`, `γ`) -/
theorem prod_rows_eq (ω : F) (n : Nat) (lay : Composer) (hn : lay.gates.size ≤ n)
    (P : ProverPolys F) (hres : ∀ p, wireVal ω P (sigmaFn lay p) = wireVal ω P p) (β γ : F) :
    ∏ i ∈ Finset.range n, numRow ω P β γ i = ∏ i ∈ Finset.range n, denRow ω lay P β γ i := by
  have h := perm_product_complete_model lay n hn (idLabel ω) (wireVal ω P) hres β γ
  rw [prod_posSet_rows, prod_posSet_rows] at h
  simp only [numRow, permNum_eq_factors, denRow, permDenR]
  exact h

/-- the value of the honest accumulator at row `i`: the running product -/
noncomputable def accVal (ω : F) (lay : Composer) (P : ProverPolys F) (β γ : F) (i : Nat) : F :=
  accSeq (numRow ω P β γ) (denRow ω lay P β γ) i

/-- the accumulator polynomial `P.z` interpolates the running product on the domain (true of the
    interpolant of the model's `permVec`, whatever the blinders) -/
def AccInterp (ω : F) (n : Nat) (lay : Composer) (P : ProverPolys F) (β γ : F) : Prop :=
  ∀ i < n, P.z.eval (ω ^ i) = accVal ω lay P β γ i

/-- **`accumulator` ⇒ both permutation identities vanish on every row.**  Wire values that respect
    `σ`, `γ ∉ denBadM β`, accumulator interpolating the running product. -/
theorem perm_rows_vanish (ω : F) (n : Nat) (hn0 : 0 < n) (lay : Composer) (hn : lay.gates.size ≤ n)
    (P : ProverPolys F) (hres : ∀ p, wireVal ω P (sigmaFn lay p) = wireVal ω P p) (β γ : F)
    (hγ : γ ∉ denBadM ω n lay P β) (hz : AccInterp ω n lay P β γ) :
    (∀ i < n, permAtRow ω n lay P β γ i = 0) ∧ (∀ i < n, l1AtRow ω P i = 0) := by
  constructor
  · intro i hi
    rw [permAtRow_eq]
    exact accSeq_step_cyclic n (numRow ω P β γ) (denRow ω lay P β γ)
      (denRow_ne_zero ω n lay P β γ hγ) (prod_rows_eq ω n lay hn P hres β γ)
      (fun i => P.z.eval (ω ^ i)) hz i hi
  · intro i hi
    unfold l1AtRow
    by_cases h0 : i = 0
    · subst h0
      rw [hz 0 hn0, accVal, accSeq_zero]; ring
    · rw [if_neg h0, zero_mul]

/-! ### the permutation identities as polynomials -/

/-- `∏_col (W_col + β·K_col·X + γ)` -/
noncomputable def permNumP (P : ProverPolys F) (β γ : F) : F[X] :=
  permNumR (C β) (C γ) P.a P.b P.c P.d X

/-- `∏_col (W_col + β·S_σ,col + γ)` -/
noncomputable def permDenP (P : ProverPolys F) (β γ : F) : F[X] :=
  permDenR (C β) (C γ) P.a P.b P.c P.d P.s1 P.s2 P.s3 P.s4

theorem eval_permNumP (ω : F) (P : ProverPolys F) (β γ : F) (i : Nat) :
    (permNumP P β γ).eval (ω ^ i) = numRow ω P β γ i := by
  simp [permNumP, numRow, permNumR, wireVal, wireP]

theorem eval_permDenP {ω : F} {n : Nat} {lay : Composer} {P : ProverPolys F}
    (I : KeyInterp ω n lay P) (β γ : F) {i : Nat} (hi : i < n) :
    (permDenP P β γ).eval (ω ^ i) = denRow ω lay P β γ i := by
  simp only [permDenP, denRow, permDenR, wireVal, wireP, eval_mul, eval_add, eval_C]
  rw [I.s1 i hi, I.s2 i hi, I.s3 i hi, I.s4 i hi]

theorem omega_mul_pow {ω : F} {n : Nat} (hω : ω ^ n = 1) (i : Nat) :
    ω * ω ^ i = ω ^ ((i + 1) % n) := by
  rw [← pow_succ']
  conv_lhs => rw [← Nat.div_add_mod (i + 1) n, pow_add, pow_mul, hω, one_pow, one_mul]

/-- **Polynomial form** (mirror of `Sound.accumulator_telescopes_poly`): both permutation
    identities `Z(ωX)·Den − Z·Num` and `(Z − 1)·L₁` vanish on the domain. -/
theorem perm_identities_poly {ω : F} {n : Nat} (hn0 : 0 < n) (hω : IsPrimitiveRoot ω n)
    (lay : Composer) (hn : lay.gates.size ≤ n) (P : ProverPolys F) (I : KeyInterp ω n lay P)
    (hres : ∀ p, wireVal ω P (sigmaFn lay p) = wireVal ω P p) (β γ : F)
    (hγ : γ ∉ denBadM ω n lay P β) (hz : AccInterp ω n lay P β γ) :
    (∀ i < n, (shiftP ω P.z * permDenP P β γ - P.z * permNumP P β γ).eval (ω ^ i) = 0) ∧
    (∀ i < n, ((P.z - 1) * L1P n).eval (ω ^ i) = 0) := by
  obtain ⟨h1, h2⟩ := perm_rows_vanish ω n hn0 lay hn P hres β γ hγ hz
  constructor
  · intro i hi
    have := h1 i hi
    rw [permAtRow_eq] at this
    rw [eval_sub, eval_mul, eval_mul, eval_shiftP, omega_mul_pow hω.pow_eq_one, eval_permNumP,
      eval_permDenP I β γ hi]
    linear_combination -this
  · intro i hi
    have := h2 i hi
    unfold l1AtRow at this
    rw [eval_mul, eval_L1P_root hω (natCast_ne_zero_of_prim hn0 hω) hi, eval_sub, eval_one]
    linear_combination this

/-! ### 3. the numerator -/

/-- **the numerator vanishes on the domain**, for EVERY `α` and EVERY separation challenge -/
theorem numerator_vanishes {ω : F} {n : Nat} (hn0 : 0 < n) (hω : IsPrimitiveRoot ω n)
    (lay : Composer) (hn : lay.gates.size ≤ n) (P : ProverPolys F) (I : KeyInterp ω n lay P)
    (hrows : ∀ i < n, rowOKP ω n lay P i)
    (hres : ∀ p, wireVal ω P (sigmaFn lay p) = wireVal ω P p) (β γ : F)
    (hγ : γ ∉ denBadM ω n lay P β) (hz : AccInterp ω n lay P β γ) (α : F) (s : Seps F) :
    ∀ i < n, (NumP ω n P ⟨β, γ, α⟩ s).eval (ω ^ i) = 0 := by
  obtain ⟨h1, h2⟩ := perm_rows_vanish ω n hn0 lay hn P hres β γ hγ hz
  intro i hi
  rw [NumP_eval_domain hn0 hω I β γ α s hi, gate_row_vanishes ω n lay P i (hrows i hi) s, h1 i hi,
    h2 i hi]
  ring

/-- **`numerator_divisible`**: `(Xⁿ − 1) ∣ Num`, with the quotient -/
theorem numerator_divisible {ω : F} {n : Nat} (hn0 : 0 < n) (hω : IsPrimitiveRoot ω n)
    (lay : Composer) (hn : lay.gates.size ≤ n) (P : ProverPolys F) (I : KeyInterp ω n lay P)
    (hrows : ∀ i < n, rowOKP ω n lay P i)
    (hres : ∀ p, wireVal ω P (sigmaFn lay p) = wireVal ω P p) (β γ : F)
    (hγ : γ ∉ denBadM ω n lay P β) (hz : AccInterp ω n lay P β γ) (α : F) (s : Seps F) :
    (X ^ n - 1 : F[X]) ∣ NumP ω n P ⟨β, γ, α⟩ s ∧
    ∃ T : F[X], NumP ω n P ⟨β, γ, α⟩ s = T * (X ^ n - 1) := by
  have hv := numerator_vanishes hn0 hω lay hn P I hrows hres β γ hγ hz α s
  exact ⟨(divisible_iff_vanishes hn0 hω _).mpr hv, exists_quotient_of_vanishes hn0 hω _ hv⟩

/-! ### replacing the accumulator polynomial -/

/-- the same polynomials with another accumulator -/
def withZ (P : ProverPolys F) (Z : F[X]) : ProverPolys F := { P with z := Z }

@[simp] theorem withZ_z (P : ProverPolys F) (Z : F[X]) : (withZ P Z).z = Z := rfl

theorem wireP_withZ (P : ProverPolys F) (Z : F[X]) (col : Nat) : wireP (withZ P Z) col = wireP P col := by
  unfold wireP
  split <;> rfl

@[simp] theorem wireVal_withZ (ω : F) (P : ProverPolys F) (Z : F[X]) (p : Pos) :
    wireVal ω (withZ P Z) p = wireVal ω P p := by
  unfold wireVal; rw [wireP_withZ]

@[simp] theorem wireNat_withZ (ω : F) (P : ProverPolys F) (Z : F[X]) (col i : Nat) :
    wireNat ω (withZ P Z) col i = wireNat ω P col i := by
  unfold wireNat; rw [wireVal_withZ]

theorem rowOKP_withZ (ω : F) (n : Nat) (lay : Composer) (P : ProverPolys F) (Z : F[X]) (i : Nat) :
    rowOKP ω n lay (withZ P Z) i ↔ rowOKP ω n lay P i := by
  unfold rowOKP; simp only [wireNat_withZ]

@[simp] theorem numRow_withZ (ω : F) (P : ProverPolys F) (Z : F[X]) (β γ : F) (i : Nat) :
    numRow ω (withZ P Z) β γ i = numRow ω P β γ i := by
  unfold numRow; simp only [wireVal_withZ]

@[simp] theorem denRow_withZ (ω : F) (lay : Composer) (P : ProverPolys F) (Z : F[X]) (β γ : F)
    (i : Nat) : denRow ω lay (withZ P Z) β γ i = denRow ω lay P β γ i := by
  unfold denRow; simp only [wireVal_withZ]

@[simp] theorem accVal_withZ (ω : F) (lay : Composer) (P : ProverPolys F) (Z : F[X]) (β γ : F)
    (i : Nat) : accVal ω lay (withZ P Z) β γ i = accVal ω lay P β γ i := by
  unfold accVal accSeq; simp only [numRow_withZ, denRow_withZ]

@[simp] theorem denBadM_withZ (ω : F) (n : Nat) (lay : Composer) (P : ProverPolys F) (Z : F[X])
    (β : F) : denBadM ω n lay (withZ P Z) β = denBadM ω n lay P β := by
  unfold denBadM denBad; simp only [wireVal_withZ]

theorem keyInterp_withZ {ω : F} {n : Nat} {lay : Composer} {P : ProverPolys F}
    (I : KeyInterp ω n lay P) (Z : F[X]) : KeyInterp ω n lay (withZ P Z) :=
  ⟨I.sel, I.pi, I.s1, I.s2, I.s3, I.s4⟩

/-- **`accumulator_exists`**: an accumulator polynomial of degree `< n` interpolating the running
    product exists, and every blinding `Z + B·(Xⁿ − 1)` of it still does -/
theorem accumulator_exists_core {ω : F} {n : Nat} (hω : IsPrimitiveRoot ω n) (lay : Composer)
    (P : ProverPolys F) (β γ : F) :
    ∃ Z : F[X], Z.degree < n ∧
      ∀ B : F[X], AccInterp ω n lay (withZ P (Z + B * (X ^ n - 1))) β γ := by
  obtain ⟨Z, hd, hZ⟩ := exists_interpolant hω (accVal ω lay P β γ)
  refine ⟨Z, hd, fun B i hi => ?_⟩
  rw [withZ_z, accVal_withZ, eval_add_mul_vanishing hω.pow_eq_one, hZ i hi]

end Plonk.Complete
