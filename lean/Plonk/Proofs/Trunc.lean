/-
  C11 glue, part 1: `assertCanonicalTruncation`, `bindTruncationSplit`, `componentTruncate`.
-/
import Plonk.Proofs.Arith
import Plonk.Proofs.Range
import Plonk.Proofs.TruncMath

namespace Plonk
open Plonk Plonk.Composer

namespace Composer

/-! ### general helpers -/

/-- the last gate of the state reads no next-row wire -/
def LastPlain (c : Composer) : Prop := ∀ i, i + 1 = c.gates.size → Gate.plain (c.gateAt i)

theorem Appends.lastPlain {a b : Composer} {k m : Nat} (h : Appends a b (k + 1) m) :
    LastPlain b := by
  intro i hi
  exact h.plain i (by rw [h.gates] at hi; omega) (by omega)

theorem rangeCheck_lastPlain (c : Composer) (x n : Nat) : LastPlain ((rangeCheck x n).run c).2 :=
  rangeCheck_last_plain c x n

theorem Extends.lastPlain_of_gates {a b : Composer} (h : Extends a b)
    (hs : b.gates.size = a.gates.size) (hl : LastPlain a) : LastPlain b := by
  intro i hi
  rw [h.gateAt_eq (by omega)]; exact hl i (by omega)

/-- rows of a finished block read in a later state -/
theorem rows_ext_iff {b c'' : Composer} (hext : Extends b c'') (hl : LastPlain b) (w : Nat → Nat)
    (lo : Nat) : c''.rowsHoldW w lo b.gates.size ↔ b.rowsHoldW w lo b.gates.size :=
  hext.rowsHoldW_iff w lo hl

theorem rowsHoldW_mono {c : Composer} {w : Nat → Nat} {lo hi lo' hi' : Nat}
    (h : c.rowsHoldW w lo hi) (h1 : lo ≤ lo') (h2 : hi' ≤ hi) : c.rowsHoldW w lo' hi' :=
  fun i a b => h i (Nat.le_trans h1 a) (Nat.lt_of_lt_of_le b h2)

/-! ### math helpers -/

theorem split_total_bits : Generated.SPLIT_TOTAL_BITS = 255 := rfl
theorem truncate_max_bits : Generated.TRUNCATE_MAX_BITS = 254 := rfl

theorem toF_finv?_getD (a : Nat) : toF ((finv? a).getD 0) = (toF a)⁻¹ := by
  cases h : finv? a with
  | none => rw [(finv?_eq_none_iff a).mp h]; simp
  | some b => exact (finv?_some a b h).2

/-- the honest values of `diff`, `isTop`, `guard` pass their checks when `H·2^N + L ≤ R − 1`
    (any `N ≤ 255`, including `N = 0`) -/
theorem guard_honest (N H L d t g : Nat) (hN : N ≤ 255)
    (hcanon : H * 2 ^ N + L ≤ R - 1) (hd : d < R) (hg : g < R)
    (hdF : toF d = toF (rHigh N) - toF H)
    (htF : toF t = 1 - toF d * (toF d)⁻¹)
    (hgF : toF g = toF t * (toF (rLow N) - toF L)) :
    d < 2 ^ (255 - N) ∧ g < 2 ^ N ∧ toF d * toF t = 0 := by
  obtain ⟨hsum, hrl⟩ := rHigh_rLow N
  have hp : 0 < 2 ^ N := by positivity
  have hle : H ≤ rHigh N := by
    by_contra hgt
    have hgt : rHigh N + 1 ≤ H := by omega
    have : (rHigh N + 1) * 2 ^ N ≤ H * 2 ^ N := Nat.mul_le_mul_right _ hgt
    nlinarith
  have hdv : d = rHigh N - H := by
    rw [toF_sub_of_le hle] at hdF
    exact (toF_inj_of_lt hd (by have := rHigh_lt_R N; omega)).mp hdF
  obtain ⟨hc1, hc2⟩ := isZero_gadget_complete (toF d)
  refine ⟨by rw [hdv]; have := rHigh_lt N hN; omega, ?_, by rw [htF]; exact hc1⟩
  rw [hc2] at htF
  by_cases heq : H = rHigh N
  · have hd0 : toF d = 0 := by rw [hdv, heq]; simp
    rw [if_pos hd0] at htF
    have hle2 : L ≤ rLow N := by rw [heq] at hcanon; omega
    rw [htF, one_mul, toF_sub_of_le hle2] at hgF
    have := (toF_inj_of_lt hg (by have := rLow_lt_R N; omega)).mp hgF
    omega
  · have hd0 : toF d ≠ 0 := by
      rw [Ne, toF_eq_zero_of_lt hd]; omega
    rw [if_neg hd0] at htF
    rw [htF, zero_mul] at hgF
    have := (toF_eq_zero_of_lt hg).mp hgF
    omega

theorem R_lt_two_pow_256 : R < 2 ^ 256 := by decide +kernel

theorem recomposeBits_high (v n : Nat) (hv : v < R) : recomposeBits v n 256 % R = v / 2 ^ n := by
  unfold recomposeBits
  have := R_lt_two_pow_256
  have h1 : v / 2 ^ n ≤ v := Nat.div_le_self _ _
  rw [Nat.mod_eq_of_lt (by omega : v < 2 ^ 256), Nat.mod_mod, Nat.mod_eq_of_lt (by omega)]

theorem recomposeBits_low (v n : Nat) (hv : v < R) : recomposeBits v 0 n % R = v % 2 ^ n := by
  unfold recomposeBits
  have h1 : v % 2 ^ n ≤ v := Nat.mod_le _ _
  rw [pow_zero, Nat.div_one, Nat.mod_mod, Nat.mod_eq_of_lt (by omega)]

/-! ### well-formedness through `range_check` -/

theorem wf_of_wit_append {c c' : Composer} (h : WF c) (l : Array Nat) (hw : c'.wit = c.wit ++ l)
    (hl : ∀ j (hj : j < l.size), l[j] < R) (hp : c'.pis = c.pis)
    (hs : c.gates.size ≤ c'.gates.size) : WF c' := by
  refine ⟨fun i => ?_, piFresh_of_pis h.pis_zero hp hs⟩
  by_cases hi : i < c.wit.size
  · have : c'.val i = c.val i := by
      unfold val; simp only [Array.getD_eq_getD_getElem?]
      rw [hw, Array.getElem?_append_left hi]
    rw [this]; exact h.val_lt i
  · obtain ⟨j, rfl⟩ : ∃ j, i = c.wit.size + j := ⟨i - c.wit.size, by omega⟩
    rw [val_of_wit_append hw j]
    by_cases hj : j < l.size
    · simp [Array.getD_eq_getD_getElem?, hj, hl j hj]
    · simp [Array.getD_eq_getD_getElem?, Array.getElem?_eq_none (Nat.le_of_not_lt hj), R_pos]

theorem rangeCheckEven_wf (c : Composer) (x n : Nat) (hn : n % 2 = 0) (h : WF c) :
    WF ((rangeCheckEven x n).run c).2 := by
  by_cases hz : n = 0
  · subst hz
    exact wf_of_wit_append h #[] (by simp [rangeCheckEven_run_0, rangeEvenOut0]) (by simp) rfl
      (by simp [rangeCheckEven_run_0, rangeEvenOut0])
  · rw [rangeCheckEven_run_even x n hz (by rw [rcK_eq hn]; omega)]
    refine wf_of_wit_append h _ rfl ?_ rfl (by simp [rangeEvenOut])
    intro j hj
    simp only [List.getElem_toArray, List.getElem_map]
    exact Nat.mod_lt _ R_pos

theorem rangeCheck_wf (c : Composer) (x n : Nat) (h : WF c) : WF ((rangeCheck x n).run c).2 := by
  by_cases hn : n % 2 = 0
  · rw [rangeCheck_run_even x n hn]; exact rangeCheckEven_wf c x n hn h
  · have hn1 : n % 2 = 1 := by omega
    rw [rangeCheck_run_odd x n hn1]
    have h1 : WF (oddC1 c x n) := appendWitness_wf _ c h
    have h2 : WF (oddC2 c x n) := rangeCheckEven_wf _ _ _ (by omega) h1
    refine wf_of_wit_append h2 _ (rangeOddOut_wit c x n) ?_ rfl
      (extends_rangeOddOut c x n).gates_size
    intro j hj
    have : j = 0 ∨ j = 1 := by simp at hj; omega
    rcases this with rfl | rfl <;> exact Nat.mod_lt _ R_pos

/-! ### the layout does not depend on witness values -/

theorem appendWitness_layout {c1 c2 : Composer} (h : SameLayout c1 c2) (v1 v2 : Nat) :
    SameLayout ((appendWitness v1).run c1).2 ((appendWitness v2).run c2).2 :=
  ⟨h.gates, by simp [h.wsize], h.pis⟩

theorem appendCustomGate_layout {c1 c2 : Composer} (h : SameLayout c1 c2) (s : Constraint) :
    SameLayout ((appendCustomGate s).run c1).2 ((appendCustomGate s).run c2).2 :=
  ⟨by simp [h.gates], h.wsize, by simp [h.pis, h.gates]⟩

theorem appendGate_layout {c1 c2 : Composer} (h : SameLayout c1 c2) (s : Constraint) :
    SameLayout ((appendGate s).run c1).2 ((appendGate s).run c2).2 :=
  appendCustomGate_layout h _

theorem gateAdd_layout {c1 c2 : Composer} (h : SameLayout c1 c2) (s : Constraint) :
    SameLayout ((gateAdd s).run c1).2 ((gateAdd s).run c2).2 := by
  rw [gateAdd_snd, gateAdd_snd]
  obtain ⟨cv1, -, hr1⟩ := appendEvaluatedOutput_some (gateAddC s) c1 (toF_gateAddC_qo s)
  obtain ⟨cv2, -, hr2⟩ := appendEvaluatedOutput_some (gateAddC s) c2 (toF_gateAddC_qo s)
  rw [hr1, hr2, h.wsize]
  exact appendGate_layout (appendWitness_layout h cv1 cv2) _

section act
variable (high low n : Nat) (c : Composer)

def act1 : Composer := ((gateAdd { ql := R - 1, a := high, qc := rHigh n }).run c).2
def act2 : Composer :=
  ((rangeCheck c.wit.size (Generated.SPLIT_TOTAL_BITS - n)).run (act1 high n c)).2
def act3 : Composer :=
  ((appendWitness ((finv? ((act2 high n c).val c.wit.size)).getD 0)).run (act2 high n c)).2
def act4 : Composer :=
  ((gateMul { qm := 1, a := c.wit.size, b := (act2 high n c).wit.size }).run (act3 high n c)).2
def act5 : Composer :=
  ((gateAdd { ql := R - 1, a := (act3 high n c).wit.size, qc := 1 }).run (act4 high n c)).2
def act6 : Composer :=
  ((appendGate { qm := 1, a := c.wit.size, b := (act4 high n c).wit.size }).run (act5 high n c)).2
def act7 : Composer :=
  ((gateAdd { ql := R - 1, a := low, qc := rLow n }).run (act6 high n c)).2
def act8 : Composer :=
  ((gateMul { qm := 1, a := (act4 high n c).wit.size, b := (act6 high n c).wit.size }).run
    (act7 high low n c)).2
def act9 : Composer :=
  ((rangeCheck (act7 high low n c).wit.size n).run (act8 high low n c)).2

theorem assertCanonicalTruncation_run :
    (assertCanonicalTruncation high low n).run c = ((), act9 high low n c) := by
  unfold assertCanonicalTruncation act9 act8 act7 act6 act5 act4 act3 act2 act1
  simp only [run_bind', getVal_run, gateAdd_fst, gateMul_eq, rLow, rHigh]
  rfl

/-! #### structure of the nine steps -/

local notation "A1" => act1 high n c
local notation "A2" => act2 high n c
local notation "A3" => act3 high n c
local notation "A4" => act4 high n c
local notation "A5" => act5 high n c
local notation "A6" => act6 high n c
local notation "A7" => act7 high low n c
local notation "A8" => act8 high low n c
local notation "A9" => act9 high low n c

theorem act_step1 : Appends c A1 1 1 := gateAdd_appends _ c
theorem act_step2 : Extends A1 A2 := rangeCheck_extends _ _ _
theorem act_step3 : Appends A2 A3 0 1 := appendWitness_appends _ _
theorem act_step4 : Appends A3 A4 1 1 := gateAdd_appends _ _
theorem act_step5 : Appends A4 A5 1 1 := gateAdd_appends _ _
theorem act_step6 : Appends A5 A6 1 0 := appendGate_appends _ _
theorem act_step7 : Appends A6 A7 1 1 := gateAdd_appends _ _
theorem act_step8 : Appends A7 A8 1 1 := gateAdd_appends _ _
theorem act_step9 : Extends A8 A9 := rangeCheck_extends _ _ _

theorem act_wf1 (h : WF c) : WF A1 := gateAdd_wf _ c h
theorem act_wf2 (h : WF c) : WF A2 := rangeCheck_wf _ _ _ (act_wf1 high n c h)
theorem act_wf3 (h : WF c) : WF A3 := appendWitness_wf _ _ (act_wf2 high n c h)
theorem act_wf4 (h : WF c) : WF A4 := gateAdd_wf _ _ (act_wf3 high n c h)
theorem act_wf5 (h : WF c) : WF A5 := gateAdd_wf _ _ (act_wf4 high n c h)
theorem act_wf6 (h : WF c) : WF A6 := appendGate_wf _ _ (act_wf5 high n c h)
theorem act_wf7 (h : WF c) : WF A7 := gateAdd_wf _ _ (act_wf6 high n c h)
theorem act_wf8 (h : WF c) : WF A8 := gateAdd_wf _ _ (act_wf7 high low n c h)
theorem act_wf9 (h : WF c) : WF A9 := rangeCheck_wf _ _ _ (act_wf8 high low n c h)

/-- number of gates appended by `assert_canonical_truncation` -/
def actGateCount (n : Nat) : Nat :=
  6 + rangeGateCount (Generated.SPLIT_TOTAL_BITS - n) + rangeGateCount n
/-- number of witnesses allocated by `assert_canonical_truncation` -/
def actWitCount (n : Nat) : Nat :=
  6 + rangeWitCount (Generated.SPLIT_TOTAL_BITS - n) + rangeWitCount n

theorem act9_gates_size : (A9).gates.size = c.gates.size + actGateCount n := by
  have h1 := (act_step1 high n c).gates
  have h2 : (A2).gates.size = _ := rangeCheck_gates_size _ _ _
  have h3 := (act_step3 high n c).gates
  have h4 := (act_step4 high n c).gates
  have h5 := (act_step5 high n c).gates
  have h6 := (act_step6 high n c).gates
  have h7 := (act_step7 high low n c).gates
  have h8 := (act_step8 high low n c).gates
  have h9 : (A9).gates.size = _ := rangeCheck_gates_size _ _ _
  unfold actGateCount; omega

theorem act9_wit_size : (A9).wit.size = c.wit.size + actWitCount n := by
  have h1 := (act_step1 high n c).wit
  have h2 : (A2).wit.size = _ := rangeCheck_wit_size _ _ _
  have h3 := (act_step3 high n c).wit
  have h4 := (act_step4 high n c).wit
  have h5 := (act_step5 high n c).wit
  have h6 := (act_step6 high n c).wit
  have h7 := (act_step7 high low n c).wit
  have h8 := (act_step8 high low n c).wit
  have h9 : (A9).wit.size = _ := rangeCheck_wit_size _ _ _
  unfold actWitCount; omega

theorem act9_extends : Extends c A9 :=
  (act_step1 high n c).ext.trans <| (act_step2 high n c).trans <| (act_step3 high n c).ext.trans <|
  (act_step4 high n c).ext.trans <| (act_step5 high n c).ext.trans <|
  (act_step6 high n c).ext.trans <| (act_step7 high low n c).ext.trans <|
  (act_step8 high low n c).ext.trans (act_step9 high low n c)

theorem act9_lastPlain : LastPlain A9 := rangeCheck_lastPlain _ _ _

/-! #### meaning of the arithmetic rows -/

theorem act_row1 (h : WF c) (w : Nat → Nat) :
    (A1).rowsHoldW w c.gates.size (A1).gates.size ↔
      toF (w c.wit.size) = toF (rHigh n) - toF (w high) := by
  unfold act1; rw [gateAdd_rows_iff _ c h]
  simp only [Constraint.evalF, Constraint.piF, toF_zero, toF_R_sub_one]
  constructor <;> intro h <;> simp at h ⊢ <;> linear_combination h

theorem act_row4 (h : WF c) (w : Nat → Nat) :
    (A4).rowsHoldW w (A3).gates.size (A4).gates.size ↔
      toF (w (A3).wit.size) = toF (w c.wit.size) * toF (w (A2).wit.size) := by
  conv_lhs => unfold act4
  rw [gateMul_eq, gateAdd_rows_iff _ _ (act_wf3 high n c h)]
  simp only [Constraint.evalF, Constraint.piF, toF_zero, toF_one]
  constructor <;> intro h <;> simp at h ⊢ <;> linear_combination h

theorem act_row5 (h : WF c) (w : Nat → Nat) :
    (A5).rowsHoldW w (A4).gates.size (A5).gates.size ↔
      toF (w (A4).wit.size) = 1 - toF (w (A3).wit.size) := by
  conv_lhs => unfold act5
  rw [gateAdd_rows_iff _ _ (act_wf4 high n c h)]
  simp only [Constraint.evalF, Constraint.piF, toF_zero, toF_one, toF_R_sub_one]
  constructor <;> intro h <;> simp at h ⊢ <;> linear_combination h

theorem act_row6 (h : WF c) (w : Nat → Nat) :
    (A6).rowsHoldW w (A5).gates.size (A6).gates.size ↔
      toF (w c.wit.size) * toF (w (A4).wit.size) = 0 := by
  conv_lhs => unfold act6
  rw [appendGate_rows_iff _ _ (act_wf5 high n c h)]
  simp only [Constraint.arithRel, Constraint.piF, toF_zero, toF_one, Bool.false_eq_true, if_false]
  constructor <;> intro h <;> linear_combination h

theorem act_row7 (h : WF c) (w : Nat → Nat) :
    (A7).rowsHoldW w (A6).gates.size (A7).gates.size ↔
      toF (w (A6).wit.size) = toF (rLow n) - toF (w low) := by
  conv_lhs => unfold act7
  rw [gateAdd_rows_iff _ _ (act_wf6 high n c h)]
  simp only [Constraint.evalF, Constraint.piF, toF_zero, toF_R_sub_one]
  constructor <;> intro h <;> simp at h ⊢ <;> linear_combination h

theorem act_row8 (h : WF c) (w : Nat → Nat) :
    (A8).rowsHoldW w (A7).gates.size (A8).gates.size ↔
      toF (w (A7).wit.size) = toF (w (A4).wit.size) * toF (w (A6).wit.size) := by
  conv_lhs => unfold act8
  rw [gateMul_eq, gateAdd_rows_iff _ _ (act_wf7 high low n c h)]
  simp only [Constraint.evalF, Constraint.piF, toF_zero, toF_one]
  constructor <;> intro h <;> simp at h ⊢ <;> linear_combination h

theorem seg_iff {a b c'' : Composer} {k m : Nat} (hab : Appends a b (k + 1) m)
    (hext : Extends b c'') (w : Nat → Nat) {P : Prop}
    (hrel : b.rowsHoldW w a.gates.size b.gates.size ↔ P) :
    c''.rowsHoldW w a.gates.size b.gates.size ↔ P :=
  (rows_ext_iff hext hab.lastPlain w _).trans hrel

/-- **Rows of `assert_canonical_truncation`**, read in any later state `c''`, under an arbitrary
    assignment: the six arithmetic relations and the two range-check blocks. Witnesses:
    `diff = c.wit.size`, `inverse = A2.wit.size`, `product = A3.wit.size`, `isTop = A4.wit.size`,
    `rLow − low = A6.wit.size`, `guard = A7.wit.size`. -/
theorem act_rows_iff (h : WF c) {c'' : Composer} (hext : Extends A9 c'') (w : Nat → Nat) :
    c''.rowsHoldW w c.gates.size (A9).gates.size ↔
      (toF (w c.wit.size) = toF (rHigh n) - toF (w high) ∧
       c''.rowsHoldW w (A1).gates.size (A2).gates.size ∧
       toF (w (A3).wit.size) = toF (w c.wit.size) * toF (w (A2).wit.size) ∧
       toF (w (A4).wit.size) = 1 - toF (w (A3).wit.size) ∧
       toF (w c.wit.size) * toF (w (A4).wit.size) = 0 ∧
       toF (w (A6).wit.size) = toF (rLow n) - toF (w low) ∧
       toF (w (A7).wit.size) = toF (w (A4).wit.size) * toF (w (A6).wit.size) ∧
       c''.rowsHoldW w (A8).gates.size (A9).gates.size) := by
  have S1 := act_step1 high n c
  have S2 := act_step2 high n c
  have S4 := act_step4 high n c
  have S5 := act_step5 high n c
  have S6 := act_step6 high n c
  have S7 := act_step7 high low n c
  have S8 := act_step8 high low n c
  have S9 := act_step9 high low n c
  have x8 : Extends A8 c'' := S9.trans hext
  have x7 : Extends A7 c'' := S8.ext.trans x8
  have x6 : Extends A6 c'' := S7.ext.trans x7
  have x5 : Extends A5 c'' := S6.ext.trans x6
  have x4 : Extends A4 c'' := S5.ext.trans x5
  have x1 : Extends A1 c'' :=
    S2.trans <| (act_step3 high n c).ext.trans <| S4.ext.trans x4
  have e23 : (A3).gates.size = (A2).gates.size := rfl
  have g01 := S1.ext.gates_size
  have g12 := S2.gates_size
  have g24 : (A2).gates.size ≤ (A4).gates.size := S4.ext.gates_size
  have g45 := S5.ext.gates_size
  have g56 := S6.ext.gates_size
  have g67 := S7.ext.gates_size
  have g78 := S8.ext.gates_size
  have g89 := S9.gates_size
  have s1 := seg_iff S1 x1 w (act_row1 high n c h w)
  have s4 : c''.rowsHoldW w (A2).gates.size (A4).gates.size ↔ _ :=
    seg_iff S4 x4 w (act_row4 high n c h w)
  have s5 := seg_iff S5 x5 w (act_row5 high n c h w)
  have s6 := seg_iff S6 x6 w (act_row6 high n c h w)
  have s7 := seg_iff S7 x7 w (act_row7 high low n c h w)
  have s8 := seg_iff S8 x8 w (act_row8 high low n c h w)
  rw [rowsHoldW_split c'' w g01 (by omega), rowsHoldW_split c'' w g12 (by omega),
    rowsHoldW_split c'' w g24 (by omega), rowsHoldW_split c'' w g45 (by omega),
    rowsHoldW_split c'' w g56 (by omega), rowsHoldW_split c'' w g67 (by omega),
    rowsHoldW_split c'' w g78 g89, s1, s4, s5, s6, s7, s8]

/-- **Soundness of `assert_canonical_truncation`** (`1 ≤ n ≤ 254`): for range-bounded `high`,
    `low`, the rows force `high·2^n + low ≤ R − 1` (as integers), whatever the prover puts into
    `diff`, `inverse`, `product`, `isTop`, `guard` and the accumulators. -/
theorem act_sound (hn1 : 1 ≤ n) (hn : n ≤ Generated.TRUNCATE_MAX_BITS) (h : WF c)
    {c'' : Composer} (hext : Extends A9 c'') (w : Nat → Nat) (h0 : toF (w 0) = 0)
    (hH : (toF (w high)).val < 2 ^ (Generated.SPLIT_TOTAL_BITS - n))
    (hL : (toF (w low)).val < 2 ^ n)
    (hrows : c''.rowsHoldW w c.gates.size (A9).gates.size) :
    (toF (w high)).val * 2 ^ n + (toF (w low)).val ≤ R - 1 := by
  rw [truncate_max_bits] at hn
  rw [split_total_bits] at hH
  obtain ⟨r1, r2, r4, r5, r6, r7, r8, r9⟩ := (act_rows_iff high low n c h hext w).mp hrows
  have x2 : Extends A2 c'' :=
    (act_step3 high n c).ext.trans <| (act_step4 high n c).ext.trans <|
    (act_step5 high n c).ext.trans <| (act_step6 high n c).ext.trans <|
    (act_step7 high low n c).ext.trans <| (act_step8 high low n c).ext.trans <|
    (act_step9 high low n c).trans hext
  have b1 : (toF (w c.wit.size)).val < 2 ^ (255 - n) :=
    rangeCheck_sound_ext A1 c.wit.size (Generated.SPLIT_TOTAL_BITS - n)
      (by rw [split_total_bits]; omega) (act_wf1 high n c h).pis_zero c'' x2 w h0 r2
  have b2 : (toF (w (A7).wit.size)).val < 2 ^ n :=
    rangeCheck_sound_ext A8 (A7).wit.size n hn (act_wf8 high low n c h).pis_zero c'' hext w h0 r9
  refine (canonical_guard_gadget_iff' n (toF (w high)) (toF (w low)) hn1 hn hH hL).mp
    ⟨toF (w (A2).wit.size), toF (w (A4).wit.size), ?_, ?_, ?_, ?_⟩
  · rw [← r1]; exact b1
  · rw [← r1, r5, r4]
  · rw [← r1]; exact r6
  · rw [← r7, ← r8]; exact b2

/-- **Completeness of `assert_canonical_truncation`** (every `n ≤ 255`): when the model's values
    of `high`, `low` satisfy `high·2^n + low ≤ R − 1`, the model's own table
    (read in any later state) satisfies all rows. -/
theorem act_complete (hn : n ≤ Generated.SPLIT_TOTAL_BITS) (h : WF c) (hhigh : high < c.wit.size)
    (hlow : low < c.wit.size) (hz : c.val 0 = 0)
    (hcanon : c.val high * 2 ^ n + c.val low ≤ R - 1)
    {c'' : Composer} (hext : Extends A9 c'') :
    c''.rowsHoldW c''.val c.gates.size (A9).gates.size := by
  rw [split_total_bits] at hn
  have S1 := act_step1 high n c
  have S2 := act_step2 high n c
  have S3 := act_step3 high n c
  have S4 := act_step4 high n c
  have S5 := act_step5 high n c
  have S6 := act_step6 high n c
  have S7 := act_step7 high low n c
  have S8 := act_step8 high low n c
  have S9 := act_step9 high low n c
  have x8 : Extends A8 c'' := S9.trans hext
  have x7 : Extends A7 c'' := S8.ext.trans x8
  have x6 : Extends A6 c'' := S7.ext.trans x7
  have x5 : Extends A5 c'' := S6.ext.trans x6
  have x4 : Extends A4 c'' := S5.ext.trans x5
  have x3 : Extends A3 c'' := S4.ext.trans x4
  have x2 : Extends A2 c'' := S3.ext.trans x3
  have x1 : Extends A1 c'' := S2.trans x2
  have x0 : Extends c c'' := S1.ext.trans x1
  have w1 := S1.wit
  have w2 := S2.wit_size
  have w3 := S3.wit
  have w4 := S4.wit
  have w5 := S5.wit
  have w6 := S6.wit
  have w7 := S7.wit
  have wf1 := act_wf1 high n c h
  have wf3 := act_wf3 high n c h
  have wf4 := act_wf4 high n c h
  have wf6 := act_wf6 high n c h
  have wf7 := act_wf7 high low n c h
  have wf'' : ∀ i, i < (A8).wit.size → c''.val i < R := fun i hi => by
    rw [x8.val_eq hi]; exact (act_wf8 high low n c h).val_lt i
  have w8 := S8.wit
  -- the arithmetic relations hold for the model's values
  have r1 := (act_row1 high n c h c''.val).mp
    (gateAdd_honest_ext _ c h (fun _ => rfl) hhigh (by show 0 < _; omega) (by show 0 < _; omega) x1)
  have r4 := (act_row4 high n c h c''.val).mp
    (gateAdd_honest_ext _ _ wf3 (fun _ => rfl) (by show c.wit.size < _; omega)
      (by show (A2).wit.size < _; omega) (by show 0 < _; omega) x4)
  have r5 := (act_row5 high n c h c''.val).mp
    (gateAdd_honest_ext _ _ wf4 (fun _ => rfl) (by show (A3).wit.size < _; omega)
      (by show 0 < _; omega) (by show 0 < _; omega) x5)
  have r7 := (act_row7 high low n c h c''.val).mp
    (gateAdd_honest_ext _ _ wf6 (fun _ => rfl) (by show low < _; omega)
      (by show 0 < _; omega) (by show 0 < _; omega) x7)
  have r8 := (act_row8 high low n c h c''.val).mp
    (gateAdd_honest_ext _ _ wf7 (fun _ => rfl) (by show (A4).wit.size < _; omega)
      (by show (A6).wit.size < _; omega) (by show 0 < _; omega) x8)
  -- the inverse witness
  have hinv : toF (c''.val (A2).wit.size) = (toF (c''.val c.wit.size))⁻¹ := by
    rw [x3.val_eq (by omega), x2.val_eq (show c.wit.size < _ by omega)]
    have : (A3).val (A2).wit.size = _ % R := appendWitness_val _ _
    rw [this, toF_mod, toF_finv?_getD]
  rw [x0.val_eq hhigh] at r1
  rw [x0.val_eq hlow] at r7
  rw [r4, hinv] at r5
  rw [r7] at r8
  obtain ⟨g1, g2, g3⟩ := guard_honest n (c.val high) (c.val low) _ _ _ hn hcanon
    (wf'' c.wit.size (by omega)) (wf'' (A7).wit.size (by omega)) r1 r5 r8
  rw [act_rows_iff high low n c h hext]
  refine ⟨by rw [x0.val_eq hhigh]; exact r1, ?_, r4, ?_, g3, by rw [x0.val_eq hlow]; exact r7,
    ?_, ?_⟩
  · refine rangeCheck_complete_ext A1 c.wit.size _ wf1.pis_zero (by omega) ?_ ?_ c'' x2
    · rw [S1.ext.val_eq (by omega)]; exact hz
    · rw [← x1.val_eq (by omega), split_total_bits]; exact g1
  · rw [r4, hinv]; exact r5
  · rw [r7]; exact r8
  · refine rangeCheck_complete_ext A8 (A7).wit.size n (act_wf8 high low n c h).pis_zero (by omega)
      ?_ ?_ c'' hext
    · rw [← x8.val_eq (by omega), x0.val_eq (by omega)]; exact hz
    · rw [← x8.val_eq (by omega)]; exact g2

theorem act9_layout {c1 c2 : Composer} (h : SameLayout c1 c2) :
    SameLayout (act9 high low n c1) (act9 high low n c2) := by
  have l1 : SameLayout (act1 high n c1) (act1 high n c2) := gateAdd_layout h _
  have l2 : SameLayout (act2 high n c1) (act2 high n c2) := by
    unfold act2; rw [h.wsize]; exact rangeCheck_layout l1 _ _
  have l3 : SameLayout (act3 high n c1) (act3 high n c2) := appendWitness_layout l2 _ _
  have l4 : SameLayout (act4 high n c1) (act4 high n c2) := by
    unfold act4; rw [h.wsize, l2.wsize]; exact gateAdd_layout l3 _
  have l5 : SameLayout (act5 high n c1) (act5 high n c2) := by
    unfold act5; rw [l3.wsize]; exact gateAdd_layout l4 _
  have l6 : SameLayout (act6 high n c1) (act6 high n c2) := by
    unfold act6; rw [h.wsize, l4.wsize]; exact appendGate_layout l5 _
  have l7 : SameLayout (act7 high low n c1) (act7 high low n c2) := gateAdd_layout l6 _
  have l8 : SameLayout (act8 high low n c1) (act8 high low n c2) := by
    unfold act8; rw [l4.wsize, l6.wsize]; exact gateAdd_layout l7 _
  unfold act9; rw [l7.wsize]; exact rangeCheck_layout l8 _ _

end act
/-! ### `bind_truncation_split` -/

section bts
variable (input low n : Nat) (c : Composer)

/-- after allocating `high` (`= c.wit.size`) -/
def bts1 : Composer := ((appendWitness (recomposeBits (c.val input) n 256)).run c).2
/-- after the range check of `high` -/
def bts2 : Composer :=
  ((rangeCheck c.wit.size (Generated.SPLIT_TOTAL_BITS - n)).run (bts1 input n c)).2
/-- after `recomposed := high·2^n + low` (`= (bts2 …).wit.size`) -/
def bts3 : Composer :=
  ((gateAdd { ql := pow2 n, qr := 1, a := c.wit.size, b := low }).run (bts2 input n c)).2
/-- after `assert_equal(recomposed, input)` -/
def bts4 : Composer :=
  ((assertEqual (bts2 input n c).wit.size input).run (bts3 input low n c)).2
/-- final state -/
def bts5 : Composer := act9 c.wit.size low n (bts4 input low n c)

theorem bindTruncationSplit_run :
    (bindTruncationSplit input low n).run c = ((), bts5 input low n c) := by
  unfold bindTruncationSplit bts5 bts4 bts3 bts2 bts1
  simp only [run_bind', getVal_run, appendWitness_run, gateAdd_fst,
    assertCanonicalTruncation_run]

local notation "B1" => bts1 input n c
local notation "B2" => bts2 input n c
local notation "B3" => bts3 input low n c
local notation "B4" => bts4 input low n c
local notation "B5" => bts5 input low n c

theorem bts_step1 : Appends c B1 0 1 := appendWitness_appends _ _
theorem bts_step2 : Extends B1 B2 := rangeCheck_extends _ _ _
theorem bts_step3 : Appends B2 B3 1 1 := gateAdd_appends _ _
theorem bts_step4 : Appends B3 B4 1 0 := assertEqual_appends _ _ _
theorem bts_step5 : Extends B4 B5 := act9_extends _ _ _ _

theorem bts_wf1 (h : WF c) : WF B1 := appendWitness_wf _ _ h
theorem bts_wf2 (h : WF c) : WF B2 := rangeCheck_wf _ _ _ (bts_wf1 input n c h)
theorem bts_wf3 (h : WF c) : WF B3 := gateAdd_wf _ _ (bts_wf2 input n c h)
theorem bts_wf4 (h : WF c) : WF B4 := assertEqual_wf _ _ _ (bts_wf3 input low n c h)
theorem bts_wf5 (h : WF c) : WF B5 := act_wf9 _ _ _ _ (bts_wf4 input low n c h)

/-- number of gates appended by `bind_truncation_split` (a function of `n` only) -/
def btsGateCount (n : Nat) : Nat :=
  2 + rangeGateCount (Generated.SPLIT_TOTAL_BITS - n) + actGateCount n
/-- number of witnesses allocated by `bind_truncation_split` (a function of `n` only) -/
def btsWitCount (n : Nat) : Nat :=
  2 + rangeWitCount (Generated.SPLIT_TOTAL_BITS - n) + actWitCount n

theorem bts5_gates_size : (B5).gates.size = c.gates.size + btsGateCount n := by
  have h1 := (bts_step1 input n c).gates
  have h2 : (B2).gates.size = _ := rangeCheck_gates_size _ _ _
  have h3 := (bts_step3 input low n c).gates
  have h4 := (bts_step4 input low n c).gates
  have h5 : (B5).gates.size = _ := act9_gates_size _ _ _ _
  unfold btsGateCount; omega

theorem bts5_wit_size : (B5).wit.size = c.wit.size + btsWitCount n := by
  have h1 := (bts_step1 input n c).wit
  have h2 : (B2).wit.size = _ := rangeCheck_wit_size _ _ _
  have h3 := (bts_step3 input low n c).wit
  have h4 := (bts_step4 input low n c).wit
  have h5 : (B5).wit.size = _ := act9_wit_size _ _ _ _
  unfold btsWitCount; omega

theorem bts5_extends : Extends c B5 :=
  (bts_step1 input n c).ext.trans <| (bts_step2 input n c).trans <|
  (bts_step3 input low n c).ext.trans <| (bts_step4 input low n c).ext.trans
    (bts_step5 input low n c)

theorem bts5_lastPlain : LastPlain B5 := act9_lastPlain _ _ _ _

theorem bts_row3 (h : WF c) (w : Nat → Nat) :
    (B3).rowsHoldW w (B2).gates.size (B3).gates.size ↔
      toF (w (B2).wit.size) = (2 : F) ^ n * toF (w c.wit.size) + toF (w low) := by
  conv_lhs => unfold bts3
  rw [gateAdd_rows_iff _ _ (bts_wf2 input n c h)]
  simp only [Constraint.evalF, Constraint.piF, toF_zero, toF_one, toF_pow2]
  constructor <;> intro h <;> simp at h ⊢ <;> linear_combination h

theorem bts_row4 (h : WF c) (w : Nat → Nat) :
    (B4).rowsHoldW w (B3).gates.size (B4).gates.size ↔
      toF (w (B2).wit.size) = toF (w input) := by
  conv_lhs => unfold bts4
  rw [assertEqual_rows_iff _ _ _ (bts_wf3 input low n c h)]

/-- **Rows of `bind_truncation_split`**, read in any later state, under an arbitrary assignment.
    Witnesses: `high = c.wit.size`, `recomposed = B2.wit.size`. -/
theorem bts_rows_iff (h : WF c) {c'' : Composer} (hext : Extends B5 c'') (w : Nat → Nat) :
    c''.rowsHoldW w c.gates.size (B5).gates.size ↔
      (c''.rowsHoldW w c.gates.size (B2).gates.size ∧
       toF (w (B2).wit.size) = (2 : F) ^ n * toF (w c.wit.size) + toF (w low) ∧
       toF (w (B2).wit.size) = toF (w input) ∧
       c''.rowsHoldW w (B4).gates.size (B5).gates.size) := by
  have S2 := bts_step2 input n c
  have S3 := bts_step3 input low n c
  have S4 := bts_step4 input low n c
  have S5 := bts_step5 input low n c
  have x4 : Extends B4 c'' := S5.trans hext
  have x3 : Extends B3 c'' := S4.ext.trans x4
  have g02 : c.gates.size ≤ (B2).gates.size := S2.gates_size
  have g23 := S3.ext.gates_size
  have g34 := S4.ext.gates_size
  have g45 := S5.gates_size
  have s3 := seg_iff S3 x3 w (bts_row3 input low n c h w)
  have s4 := seg_iff S4 x4 w (bts_row4 input low n c h w)
  rw [rowsHoldW_split c'' w g02 (by omega), rowsHoldW_split c'' w g23 (by omega),
    rowsHoldW_split c'' w g34 g45, s3, s4]

/-- **Soundness of `bind_truncation_split`** (`n ≤ 254`).  `low` is *not* range-checked by the
    component (its doc says so): under the precondition `(w low) < 2^n`, the rows — under an
    arbitrary assignment `w`, read in any later state — force `low = input mod 2^n` on canonical
    values (and `high = input / 2^n` when `1 ≤ n`). -/
theorem bts_sound (hn : n ≤ Generated.TRUNCATE_MAX_BITS) (h : WF c)
    {c'' : Composer} (hext : Extends B5 c'') (w : Nat → Nat) (h0 : toF (w 0) = 0)
    (hL : (toF (w low)).val < 2 ^ n)
    (hrows : c''.rowsHoldW w c.gates.size (B5).gates.size) :
    (toF (w low)).val = (toF (w input)).val % 2 ^ n ∧
    (1 ≤ n → (toF (w c.wit.size)).val = (toF (w input)).val / 2 ^ n) := by
  by_cases hz : n = 0
  · subst hz
    simp only [pow_zero, Nat.lt_one_iff] at hL
    refine ⟨by rw [hL, pow_zero, Nat.mod_one], fun h => absurd h (by omega)⟩
  have hn' := hn
  rw [truncate_max_bits] at hn'
  obtain ⟨r2, r3, r4, r5⟩ := (bts_rows_iff input low n c h hext w).mp hrows
  have x2 : Extends B2 c'' :=
    (bts_step3 input low n c).ext.trans <| (bts_step4 input low n c).ext.trans <|
    (bts_step5 input low n c).trans hext
  have bH : (toF (w c.wit.size)).val < 2 ^ (Generated.SPLIT_TOTAL_BITS - n) :=
    rangeCheck_sound_ext B1 c.wit.size (Generated.SPLIT_TOTAL_BITS - n)
      (by rw [split_total_bits]; omega) (bts_wf1 input n c h).pis_zero c'' x2 w h0 r2
  have canon := act_sound c.wit.size low n B4 (by omega) hn (bts_wf4 input low n c h) hext w h0
    bH hL r5
  have := split_unique n (toF (w c.wit.size)).val (toF (w low)).val (toF (w input)).val hL
    (val_lt_R _) (by rw [Plonk.toF_val, Plonk.toF_val, Plonk.toF_val, ← r4, r3]; ring) canon
  exact ⟨this.2, fun _ => this.1⟩

/-- **Completeness of `bind_truncation_split`** (every `n ≤ 255`): if `input`, `low` are allocated
    and the model's value of `low` is `input mod 2^n`, the model's own table — read in any later
    state — satisfies all appended rows. -/
theorem bts_complete (hn : n ≤ Generated.SPLIT_TOTAL_BITS) (h : WF c)
    (hinput : input < c.wit.size) (hlow : low < c.wit.size) (hz : c.val 0 = 0)
    (hval : c.val low = c.val input % 2 ^ n)
    {c'' : Composer} (hext : Extends B5 c'') :
    c''.rowsHoldW c''.val c.gates.size (B5).gates.size := by
  have hn' := hn
  rw [split_total_bits] at hn'
  have S1 := bts_step1 input n c
  have S2 := bts_step2 input n c
  have S3 := bts_step3 input low n c
  have S4 := bts_step4 input low n c
  have S5 := bts_step5 input low n c
  have x4 : Extends B4 c'' := S5.trans hext
  have x3 : Extends B3 c'' := S4.ext.trans x4
  have x2 : Extends B2 c'' := S3.ext.trans x3
  have e02 : Extends c B2 := S1.ext.trans S2
  have e03 : Extends c B3 := e02.trans S3.ext
  have e04 : Extends c B4 := e03.trans S4.ext
  have w1 := S1.wit
  have w2 := S2.wit_size
  have w3 := S3.wit
  have w4 := S4.wit
  have wf1 := bts_wf1 input n c h
  have wf2 := bts_wf2 input n c h
  have wf3 := bts_wf3 input low n c h
  have hv := h.val_lt input
  obtain ⟨sc1, -, sc3, sc4⟩ := split_complete n (c.val input) hn' hv
  -- value of `high`
  have hhigh : (B1).val c.wit.size = c.val input / 2 ^ n := by
    have : (B1).val c.wit.size = _ % R := appendWitness_val _ _
    rw [this, recomposeBits_high _ _ hv]
  have hhigh2 : (B2).val c.wit.size = c.val input / 2 ^ n := by
    rw [S2.val_eq (by omega), hhigh]
  -- value of `recomposed`
  have hrec : toF ((B3).val (B2).wit.size) = toF (c.val input) := by
    have this : toF ((B3).val (B2).wit.size) = _ :=
      gateAdd_val { ql := pow2 n, qr := 1, a := c.wit.size, b := low } B2
    simp only [Constraint.evalF, toF_zero, toF_one, toF_pow2] at this
    rw [hhigh2, e02.val_eq hlow, hval] at this
    rw [this, ← sc3]; ring
  rw [bts_rows_iff input low n c h hext]
  have r3 := (bts_row3 input low n c h c''.val).mp
    (gateAdd_honest_ext _ _ wf2 (fun _ => rfl) (by show c.wit.size < _; omega)
      (by show low < _; omega) (by show 0 < _; omega) x3)
  have heq : (B3).val (B2).wit.size = (B3).val input := by
    rw [e03.val_eq hinput]
    exact (toF_inj_of_lt (wf3.val_lt _) hv).mp hrec
  refine ⟨?_, r3, ?_, ?_⟩
  · refine rangeCheck_complete_ext B1 c.wit.size _ wf1.pis_zero (by omega) ?_ ?_ c'' x2
    · rw [S1.ext.val_eq (by omega)]; exact hz
    · rw [hhigh, split_total_bits]; exact sc1
  · exact (bts_row4 input low n c h c''.val).mp
      (assertEqual_honest_ext _ _ _ wf3 (by omega) (by omega) heq x4)
  · refine act_complete c.wit.size low n B4 hn (bts_wf4 input low n c h) (by omega) (by omega)
      ?_ ?_ hext
    · rw [e04.val_eq (by omega)]; exact hz
    · rw [e04.val_eq hlow, hval, S4.ext.val_eq (by omega), S3.ext.val_eq (by omega), hhigh2]
      exact sc4

theorem bts5_layout {c1 c2 : Composer} (h : SameLayout c1 c2) :
    SameLayout (bts5 input low n c1) (bts5 input low n c2) := by
  have l1 : SameLayout (bts1 input n c1) (bts1 input n c2) := appendWitness_layout h _ _
  have l2 : SameLayout (bts2 input n c1) (bts2 input n c2) := by
    unfold bts2; rw [h.wsize]; exact rangeCheck_layout l1 _ _
  have l3 : SameLayout (bts3 input low n c1) (bts3 input low n c2) := by
    unfold bts3; rw [h.wsize]; exact gateAdd_layout l2 _
  have l4 : SameLayout (bts4 input low n c1) (bts4 input low n c2) := by
    unfold bts4; rw [l2.wsize]; exact appendGate_layout l3 _
  unfold bts5; rw [h.wsize]; exact act9_layout _ _ _ l4


end bts

/-! ### `component_truncate` -/

section ct
variable (n x : Nat) (c : Composer)

/-- after allocating `low` (`= c.wit.size`) -/
def ct1 : Composer := ((appendWitness (recomposeBits (c.val x) 0 n)).run c).2
/-- after the range check of `low` -/
def ct2 : Composer := ((rangeCheck c.wit.size n).run (ct1 n x c)).2
/-- final state -/
def ct3 : Composer := bts5 x c.wit.size n (ct2 n x c)

theorem componentTruncate_run :
    (componentTruncate n x).run c = (c.wit.size, ct3 n x c) := by
  unfold componentTruncate ct3 ct2 ct1
  simp only [run_bind', getVal_run, appendWitness_run, bindTruncationSplit_run]
  rfl

theorem componentTruncate_fst : ((componentTruncate n x).run c).1 = c.wit.size := by
  rw [componentTruncate_run]

theorem componentTruncate_snd : ((componentTruncate n x).run c).2 = ct3 n x c := by
  rw [componentTruncate_run]

local notation "T1" => ct1 n x c
local notation "T2" => ct2 n x c
local notation "T3" => ct3 n x c

theorem ct_step1 : Appends c T1 0 1 := appendWitness_appends _ _
theorem ct_step2 : Extends T1 T2 := rangeCheck_extends _ _ _
theorem ct_step3 : Extends T2 T3 := bts5_extends _ _ _ _

theorem ct_wf1 (h : WF c) : WF T1 := appendWitness_wf _ _ h
theorem ct_wf2 (h : WF c) : WF T2 := rangeCheck_wf _ _ _ (ct_wf1 n x c h)
theorem ct_wf3 (h : WF c) : WF T3 := bts_wf5 _ _ _ _ (ct_wf2 n x c h)

/-- number of gates appended by `component_truncate::<n>` -/
def ctGateCount (n : Nat) : Nat := rangeGateCount n + btsGateCount n
/-- number of witnesses allocated by `component_truncate::<n>` -/
def ctWitCount (n : Nat) : Nat := 1 + rangeWitCount n + btsWitCount n

theorem ct3_gates_size : (T3).gates.size = c.gates.size + ctGateCount n := by
  have h1 := (ct_step1 n x c).gates
  have h2 : (T2).gates.size = _ := rangeCheck_gates_size _ _ _
  have h3 : (T3).gates.size = _ := bts5_gates_size _ _ _ _
  unfold ctGateCount; omega

theorem ct3_wit_size : (T3).wit.size = c.wit.size + ctWitCount n := by
  have h1 := (ct_step1 n x c).wit
  have h2 : (T2).wit.size = _ := rangeCheck_wit_size _ _ _
  have h3 : (T3).wit.size = _ := bts5_wit_size _ _ _ _
  unfold ctWitCount; omega

theorem ct3_extends : Extends c T3 :=
  (ct_step1 n x c).ext.trans <| (ct_step2 n x c).trans (ct_step3 n x c)

theorem ct3_lastPlain : LastPlain T3 := bts5_lastPlain _ _ _ _

theorem ct_rows_iff (c'' : Composer) (w : Nat → Nat) :
    c''.rowsHoldW w c.gates.size (T3).gates.size ↔
      (c''.rowsHoldW w c.gates.size (T2).gates.size ∧
       c''.rowsHoldW w (T2).gates.size (T3).gates.size) :=
  rowsHoldW_split c'' w (ct_step2 n x c).gates_size (ct_step3 n x c).gates_size

theorem ct_sound (hn : n ≤ Generated.TRUNCATE_MAX_BITS) (h : WF c)
    {c'' : Composer} (hext : Extends T3 c'') (w : Nat → Nat) (h0 : toF (w 0) = 0)
    (hrows : c''.rowsHoldW w c.gates.size (T3).gates.size) :
    (toF (w c.wit.size)).val = (toF (w x)).val % 2 ^ n := by
  obtain ⟨r1, r2⟩ := (ct_rows_iff n x c c'' w).mp hrows
  have hL : (toF (w c.wit.size)).val < 2 ^ n :=
    rangeCheck_sound_ext T1 c.wit.size n (by rw [← truncate_max_bits]; exact hn)
      (ct_wf1 n x c h).pis_zero c'' ((ct_step3 n x c).trans hext) w h0 r1
  exact (bts_sound x c.wit.size n T2 hn (ct_wf2 n x c h) hext w h0 hL r2).1

theorem ct_val_low (h : WF c) : (T3).val c.wit.size = c.val x % 2 ^ n := by
  have w1 := (ct_step1 n x c).wit
  rw [((ct_step2 n x c).trans (ct_step3 n x c)).val_eq (by omega)]
  have : (T1).val c.wit.size = _ % R := appendWitness_val _ _
  rw [this, recomposeBits_low _ _ (h.val_lt x)]

theorem ct_complete (hn : n ≤ Generated.SPLIT_TOTAL_BITS) (h : WF c) (hx : x < c.wit.size)
    (hz : c.val 0 = 0) {c'' : Composer} (hext : Extends T3 c'') :
    c''.rowsHoldW c''.val c.gates.size (T3).gates.size := by
  have S1 := ct_step1 n x c
  have S2 := ct_step2 n x c
  have S3 := ct_step3 n x c
  have w1 := S1.wit
  have w2 := S2.wit_size
  have hlow1 : (T1).val c.wit.size = c.val x % 2 ^ n := by
    have : (T1).val c.wit.size = _ % R := appendWitness_val _ _
    rw [this, recomposeBits_low _ _ (h.val_lt x)]
  rw [ct_rows_iff n x c c'']
  constructor
  · refine rangeCheck_complete_ext T1 c.wit.size n (ct_wf1 n x c h).pis_zero (by omega) ?_ ?_ c''
      (S3.trans hext)
    · rw [S1.ext.val_eq (by omega)]; exact hz
    · rw [hlow1]; exact Nat.mod_lt _ (by positivity)
  · refine bts_complete x c.wit.size n T2 hn (ct_wf2 n x c h) (by omega) (by omega) ?_ ?_ hext
    · rw [(S1.ext.trans S2).val_eq (by omega)]; exact hz
    · rw [S2.val_eq (by omega), hlow1, (S1.ext.trans S2).val_eq hx]

theorem ct3_layout {c1 c2 : Composer} (h : SameLayout c1 c2) :
    SameLayout (ct3 n x c1) (ct3 n x c2) := by
  have l1 : SameLayout (ct1 n x c1) (ct1 n x c2) := appendWitness_layout h _ _
  have l2 : SameLayout (ct2 n x c1) (ct2 n x c2) := by
    unfold ct2; rw [h.wsize]; exact rangeCheck_layout l1 _ _
  unfold ct3; rw [h.wsize]; exact bts5_layout _ _ _ l2

end ct

/-! ### `withValue` keeps well-formedness -/

theorem withValue_wf (c : Composer) (x v : Nat) (h : WF c) (hv : v < R) : WF (withValue c x v) := by
  refine ⟨fun i => ?_, fun i hi => h.pis_zero i hi⟩
  have hi := h.val_lt i
  unfold withValue val at *
  simp only [Array.getD_eq_getD_getElem?, Array.getElem?_setIfInBounds] at hi ⊢
  split
  · split
    · exact hv
    · exact R_pos
  · split
    · split
      · exact R_pos
      · exact R_pos
    · exact hi

/-! ### public statements -/

/-- `bind_truncation_split` only appends; counts depend on `n` only; the last gate is plain;
    well-formedness (`WF`, which contains `PiFresh`) is preserved. -/
theorem bindTruncationSplit_extends (input low n : Nat) (c : Composer) :
    Extends c ((bindTruncationSplit input low n).run c).2 ∧
    ((bindTruncationSplit input low n).run c).2.gates.size = c.gates.size + btsGateCount n ∧
    ((bindTruncationSplit input low n).run c).2.wit.size = c.wit.size + btsWitCount n ∧
    (∀ i, i + 1 = ((bindTruncationSplit input low n).run c).2.gates.size →
      Gate.plain (((bindTruncationSplit input low n).run c).2.gateAt i)) ∧
    (WF c → WF ((bindTruncationSplit input low n).run c).2) := by
  rw [bindTruncationSplit_run]
  exact ⟨bts5_extends input low n c, bts5_gates_size input low n c, bts5_wit_size input low n c,
    bts5_lastPlain input low n c, bts_wf5 input low n c⟩

/-- **Soundness of `bind_truncation_split`**, `n ≤ 254`: for *every* assignment `w` (the prover
    chooses `high`, `diff`, `inverse`, `product`, `isTop`, `guard`, all range accumulators) with
    the zero witness at 0 and `low` range-bounded (`low` is not range-checked inside; see the doc
    of the Rust function), if the appended rows hold (read in any later state `c''`) then
    `low = input mod 2^n` on canonical values. -/
theorem bindTruncationSplit_sound (input low n : Nat) (c : Composer)
    (hn : n ≤ Generated.TRUNCATE_MAX_BITS) (h : WF c) (c'' : Composer)
    (hext : Extends ((bindTruncationSplit input low n).run c).2 c'') (w : Nat → Nat)
    (h0 : toF (w 0) = 0) (hL : (toF (w low)).val < 2 ^ n)
    (hrows : c''.rowsHoldW w c.gates.size ((bindTruncationSplit input low n).run c).2.gates.size) :
    (toF (w low)).val = (toF (w input)).val % 2 ^ n := by
  rw [bindTruncationSplit_run] at hext hrows
  exact (bts_sound input low n c hn h hext w h0 hL hrows).1

/-- same hypotheses, `1 ≤ n`: the `high` witness (index `c.wit.size`) is `input / 2^n` -/
theorem bindTruncationSplit_sound_high (input low n : Nat) (c : Composer) (hn1 : 1 ≤ n)
    (hn : n ≤ Generated.TRUNCATE_MAX_BITS) (h : WF c) (c'' : Composer)
    (hext : Extends ((bindTruncationSplit input low n).run c).2 c'') (w : Nat → Nat)
    (h0 : toF (w 0) = 0) (hL : (toF (w low)).val < 2 ^ n)
    (hrows : c''.rowsHoldW w c.gates.size ((bindTruncationSplit input low n).run c).2.gates.size) :
    (toF (w c.wit.size)).val = (toF (w input)).val / 2 ^ n := by
  rw [bindTruncationSplit_run] at hext hrows
  exact (bts_sound input low n c hn h hext w h0 hL hrows).2 hn1

/-- **Completeness of `bind_truncation_split`** (every `n ≤ 255`): for a well-formed state with
    `input`, `low` allocated, zero witness 0 and `low = input mod 2^n` in the model's table, the
    model's own table (read in any later state `c''`) satisfies the appended rows. -/
theorem bindTruncationSplit_complete (input low n : Nat) (c : Composer)
    (hn : n ≤ Generated.SPLIT_TOTAL_BITS) (h : WF c) (hinput : input < c.wit.size)
    (hlow : low < c.wit.size) (hz : c.val 0 = 0) (hval : c.val low = c.val input % 2 ^ n)
    (c'' : Composer) (hext : Extends ((bindTruncationSplit input low n).run c).2 c'') :
    c''.rowsHoldW c''.val c.gates.size ((bindTruncationSplit input low n).run c).2.gates.size := by
  rw [bindTruncationSplit_run] at hext ⊢
  exact bts_complete input low n c hn h hinput hlow hz hval hext

theorem bindTruncationSplit_layout {c1 c2 : Composer} (h : SameLayout c1 c2) (input low n : Nat) :
    SameLayout ((bindTruncationSplit input low n).run c1).2
      ((bindTruncationSplit input low n).run c2).2 := by
  rw [bindTruncationSplit_run, bindTruncationSplit_run]; exact bts5_layout input low n h

/-- `component_truncate::<n>` only appends; counts; last gate plain; `WF` preserved; the
    returned witness is the first one allocated. -/
theorem componentTruncate_extends (n x : Nat) (c : Composer) :
    Extends c ((componentTruncate n x).run c).2 ∧
    ((componentTruncate n x).run c).2.gates.size = c.gates.size + ctGateCount n ∧
    ((componentTruncate n x).run c).2.wit.size = c.wit.size + ctWitCount n ∧
    (∀ i, i + 1 = ((componentTruncate n x).run c).2.gates.size →
      Gate.plain (((componentTruncate n x).run c).2.gateAt i)) ∧
    (WF c → WF ((componentTruncate n x).run c).2) ∧
    ((componentTruncate n x).run c).1 = c.wit.size := by
  rw [componentTruncate_run]
  exact ⟨ct3_extends n x c, ct3_gates_size n x c, ct3_wit_size n x c, ct3_lastPlain n x c,
    ct_wf3 n x c, rfl⟩

/-- **Soundness of `component_truncate::<n>`**, `n ≤ 254`: for every assignment `w` with the zero
    witness at 0, if the appended rows hold (read in any later state) the returned witness
    carries the canonical value of `x` modulo `2^n`. -/
theorem componentTruncate_sound (n x : Nat) (c : Composer)
    (hn : n ≤ Generated.TRUNCATE_MAX_BITS) (h : WF c) (c'' : Composer)
    (hext : Extends ((componentTruncate n x).run c).2 c'') (w : Nat → Nat) (h0 : toF (w 0) = 0)
    (hrows : c''.rowsHoldW w c.gates.size ((componentTruncate n x).run c).2.gates.size) :
    (toF (w ((componentTruncate n x).run c).1)).val = (toF (w x)).val % 2 ^ n := by
  rw [componentTruncate_run] at hext hrows ⊢
  exact ct_sound n x c hn h hext w h0 hrows

/-- **Completeness of `component_truncate::<n>`** (`n ≤ 255`): for a well-formed state and any
    value of the allocated input, the model's own table satisfies the appended rows (read in any
    later state), and the returned witness holds `x mod 2^n`. -/
theorem componentTruncate_complete (n x : Nat) (c : Composer)
    (hn : n ≤ Generated.SPLIT_TOTAL_BITS) (h : WF c) (hx : x < c.wit.size) (hz : c.val 0 = 0)
    (c'' : Composer) (hext : Extends ((componentTruncate n x).run c).2 c'') :
    c''.rowsHoldW c''.val c.gates.size ((componentTruncate n x).run c).2.gates.size ∧
    ((componentTruncate n x).run c).2.val ((componentTruncate n x).run c).1 = c.val x % 2 ^ n := by
  rw [componentTruncate_run] at hext ⊢
  exact ⟨ct_complete n x c hn h hx hz hext, ct_val_low n x c h⟩

theorem componentTruncate_layout {c1 c2 : Composer} (h : SameLayout c1 c2) (n x : Nat) :
    SameLayout ((componentTruncate n x).run c1).2 ((componentTruncate n x).run c2).2 := by
  rw [componentTruncate_snd, componentTruncate_snd]; exact ct3_layout n x h

/-- **Exact characterisation** of `component_truncate::<n>` (`n ≤ 254`) for a fixed layout: for
    canonical values `v` (of the input) and `l` (of the returned witness), a satisfying assignment
    with these values exists iff `l = v mod 2^n`. -/
theorem truncate_exact_core (n x : Nat) (c : Composer) (hn : n ≤ Generated.TRUNCATE_MAX_BITS)
    (h : WF c) (hx : x < c.wit.size) (v l : Nat) (hv : v < R) (hl : l < R) (hx0 : x = 0 → v = 0) :
    (∃ w : Nat → Nat, w x = v ∧ w 0 = 0 ∧ w ((componentTruncate n x).run c).1 = l ∧
        ((componentTruncate n x).run c).2.rowsHoldW w c.gates.size
          ((componentTruncate n x).run c).2.gates.size) ↔ l = v % 2 ^ n := by
  constructor
  · rintro ⟨w, hwx, hw0, hwl, hrows⟩
    have := componentTruncate_sound n x c hn h _ (Extends.refl _) w (by rw [hw0]; simp) hrows
    rwa [hwl, hwx, val_toF_of_lt hl, val_toF_of_lt hv] at this
  · intro hlv
    have hl2 := withValue_layout c x v
    have hwf2 := withValue_wf c x v h hv
    have hx2 : x < (withValue c x v).wit.size := by rw [← hl2.wsize]; exact hx
    have hn2 : n ≤ Generated.SPLIT_TOTAL_BITS := by
      rw [truncate_max_bits] at hn; rw [split_total_bits]; omega
    obtain ⟨hrows, hlow⟩ := componentTruncate_complete n x (withValue c x v) hn2 hwf2 hx2
      (withValue_val_zero c x v hx0) _ (Extends.refl _)
    have hext := (componentTruncate_extends n x (withValue c x v)).1
    have hL := componentTruncate_layout hl2 n x
    refine ⟨((componentTruncate n x).run (withValue c x v)).2.val, ?_, ?_, ?_, ?_⟩
    · rw [hext.val_eq hx2, withValue_val_self c x v hx]
    · rw [hext.val_eq (by omega), withValue_val_zero c x v hx0]
    · rw [componentTruncate_fst, hl2.wsize, ← componentTruncate_fst n x (withValue c x v), hlow,
        withValue_val_self c x v hx, hlv]
    · rw [hL.rowsHoldW_iff, hL.gates]; exact hrows

end Composer
end Plonk
