/-
  `vanishing_poly_over_coset`, the `matches…` tests, `compute_barycentric_eval`,
  `compute_lagrange_and_barycentric_evaluations`.
-/
import Plonk.Proofs.DomainLagrange

namespace Plonk.PolyC19
open Polynomial

theorem toF_GENERATOR : toF GENERATOR = 7 := by
  unfold GENERATOR; exact toF_ofNat 7

/-! ### coset evaluations -/

theorem van_entry (d : Domain) (deg i : Nat) (hdeg : deg < 2 ^ 256) :
    fsub (toF (fpow GENERATOR deg) * toF (fpow d.groupGen deg) ^ i).val 1 =
      (((7 : F) * toF d.groupGen ^ i) ^ deg - 1).val := by
  refine eq_val_of_toF (fsub_lt _ _) ?_
  rw [toF_fsub, toF_val, toF_fpow _ _ hdeg, toF_fpow _ _ hdeg, toF_GENERATOR, toF_one, mul_pow,
    ← pow_mul, ← pow_mul, mul_comm deg i]

/-- `vanishing_poly_over_coset(deg)`: entry `i` is `(g·ω^i)^deg − 1`, `g = 7` -/
theorem vanishingOverCoset_eq (d : Domain) (deg : Nat) (hdeg : deg < 2 ^ 256) :
    d.vanishingOverCoset deg =
      (List.range d.size).map (fun i => (((7 : F) * toF d.groupGen ^ i) ^ deg - 1).val) := by
  unfold Domain.vanishingOverCoset
  have := powers_fold (fun x => fsub x 1) (fpow d.groupGen deg) d.size [] (fpow GENERATOR deg)
  simp only [List.reverse_nil, List.nil_append] at this
  simp only []
  rw [this, pows_eq_map _ _ _ (fpow_lt _ _), map_map']
  apply List.map_congr_left
  intro i _
  exact van_entry d deg i hdeg

theorem linearOverCoset_list (d : Domain) :
    ((List.range d.size).foldl (fun (acc : List Nat × Nat) _ => (acc.2 :: acc.1, fmul acc.2 d.groupGen))
      ([], GENERATOR % R)).1.reverse =
    (List.range d.size).map (fun i => ((7 : F) * toF d.groupGen ^ i).val) := by
  have := powers_fold id d.groupGen d.size [] (GENERATOR % R)
  simp only [id, List.reverse_nil, List.nil_append] at this
  rw [this, pows_eq_map _ _ _ (Nat.mod_lt _ R_pos), toF_mod, toF_GENERATOR]
  simp

/-- `matches_linear_over_coset`: true exactly on the evaluations of `X` over the coset `g·H` -/
theorem matchesLinearOverCoset_iff (d : Domain) (ev : List Nat) :
    d.matchesLinearOverCoset ev = true ↔
      ev = (List.range d.size).map (fun i => ((7 : F) * toF d.groupGen ^ i).val) := by
  unfold Domain.matchesLinearOverCoset
  rw [linearOverCoset_list, Bool.and_eq_true, beq_iff_eq, beq_iff_eq]
  constructor
  · exact fun h => h.2
  · intro h; exact ⟨by rw [h]; simp, h⟩

/-- `matches_vanishing_over_coset` -/
theorem matchesVanishingOverCoset_iff (d : Domain) (deg : Nat) (ev : List Nat)
    (hsize : d.size ≤ 2 ^ 256) :
    d.matchesVanishingOverCoset deg ev = true ↔
      deg < d.size ∧
      ev = (List.range d.size).map (fun i => (((7 : F) * toF d.groupGen ^ i) ^ deg - 1).val) := by
  unfold Domain.matchesVanishingOverCoset
  rw [Bool.and_eq_true, Bool.and_eq_true, decide_eq_true_iff, beq_iff_eq, beq_iff_eq]
  constructor
  · rintro ⟨⟨h1, _⟩, h3⟩
    exact ⟨h1, by rw [h3, vanishingOverCoset_eq d deg (by omega)]⟩
  · rintro ⟨h1, h2⟩
    refine ⟨⟨h1, by rw [h2]; simp⟩, by rw [h2, vanishingOverCoset_eq d deg (by omega)]⟩

end Plonk.PolyC19
