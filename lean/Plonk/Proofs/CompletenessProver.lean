/-
  C01 (completeness): links from the algebraic composition to the model's own functions.

  * `permVec_is_accSeq` : the output of the model's `permVec` (`compute_permutation_vec`) is the
    running product `accSeq` of its row numerators / denominators;
    `accInterp_of_permVec` : any polynomial interpolating it (`Interpolates`, e.g. `blindPoly` with
    ANY blinders, `modelPolys_interpolates`) satisfies the hypothesis `AccInterp` of the
    completeness composition; `permVec_some_iff` : `permVec` returns `some _` (does not hit the
    Rust `assert!(denominators != 0)`) exactly when `γ ∉ denBadM β`.
  * `rows_of_model`, `const_of_copyViolation`, `sysSat_rows`, `copyViolation_self` : from the model's
    notions of a satisfying witness (`rowHolds` on the padded table with cyclic next row, i.e.
    `sysSat`; `copyViolation = none`) to the hypotheses `rowOKP` / "constant on wiring classes" of
    the composition, for wire polynomials interpolating the table (`WireInterp`).
  * `quotient_list_fits` : a reduced, trimmed coefficient list representing a polynomial of degree
    `≤ 4n + 6` has at most `4n + 7` entries (the hypothesis of `commitments_fit`).
-/
import Plonk.Proofs.CompletenessModel
import Plonk.Proofs.QuotientExact
import Plonk.Proofs.SoundnessWitness

namespace Plonk.Complete
open Polynomial Plonk Plonk.Quot Plonk.Perm Plonk.Sound Plonk.Composer

/-! ### the model's `permVec` -/

/-- **`perm_vec_is_accumulator` (sequence form)**: the vector returned by the model's `permVec` is
    the running product of its row numerators and denominators -/
theorem permVec_is_accSeq (n : Nat) (roots aS bS cS dS : List Nat) (sigE : List (List Nat))
    (beta gamma : Nat) (z : List Nat) (h : permVec n roots aS bS cS dS sigE beta gamma = some z) :
    z.length = n ∧ (∀ i < n, denF aS bS cS dS sigE beta gamma i ≠ 0) ∧
    ∀ i < n, toF (z.getD i 0) =
      accSeq (numF roots aS bS cS dS beta gamma) (denF aS bS cS dS sigE beta gamma) i := by
  obtain ⟨hlen, hden, hz0, hstep⟩ := permVec_spec n roots aS bS cS dS sigE beta gamma z h
  exact ⟨hlen, hden, eq_accSeq_of_rec n _ _ (fun i => toF (z.getD i 0)) hz0 hstep⟩

theorem numF_eq_numRow {ω : F} {n : Nat} {P : ProverPolys F} {G : Nat → Gate}
    {roots aS bS cS dS piS : List Nat} {sigE : List (List Nat)} {z : List Nat}
    (hI : Interpolates ω n P G roots aS bS cS dS piS sigE z) (beta gamma : Nat) {i : Nat}
    (hi : i < n) :
    numF roots aS bS cS dS beta gamma i = numRow ω P (toF beta) (toF gamma) i := by
  simp only [numF, numRow, wireVal, wireP]
  rw [hI.a i hi, hI.b i hi, hI.c i hi, hI.d i hi, hI.root i hi]

theorem denF_eq_denRow {ω : F} {n : Nat} {lay : Composer} {P : ProverPolys F} {G : Nat → Gate}
    {roots aS bS cS dS piS : List Nat} {sigE : List (List Nat)} {z : List Nat}
    (hI : Interpolates ω n P G roots aS bS cS dS piS sigE z) (I : KeyInterp ω n lay P)
    (beta gamma : Nat) {i : Nat} (hi : i < n) :
    denF aS bS cS dS sigE beta gamma i = denRow ω lay P (toF beta) (toF gamma) i := by
  simp only [denF, denRow, wireVal, wireP]
  rw [hI.a i hi, hI.b i hi, hI.c i hi, hI.d i hi, ← I.s1 i hi, ← I.s2 i hi, ← I.s3 i hi, ← I.s4 i hi,
    hI.s1 i hi, hI.s2 i hi, hI.s3 i hi, hI.s4 i hi]

/-- **`perm_vec_is_accumulator`**: polynomials interpolating the table and the output of the
    model's `permVec` (in particular the blinded accumulator, whatever the blinders) satisfy
    `AccInterp` -/
theorem accInterp_of_permVec {ω : F} {n : Nat} {lay : Composer} {P : ProverPolys F} {G : Nat → Gate}
    {roots aS bS cS dS piS : List Nat} {sigE : List (List Nat)} {z : List Nat}
    (hI : Interpolates ω n P G roots aS bS cS dS piS sigE z) (I : KeyInterp ω n lay P)
    (beta gamma : Nat) (h : permVec n roots aS bS cS dS sigE beta gamma = some z) :
    AccInterp ω n lay P (toF beta) (toF gamma) := by
  obtain ⟨-, -, hz⟩ := permVec_is_accSeq n roots aS bS cS dS sigE beta gamma z h
  intro i hi
  rw [hI.z i hi, hz i hi]
  unfold accVal accSeq
  refine Finset.prod_congr rfl (fun j hj => ?_)
  have hj' : j < n := lt_trans (Finset.mem_range.mp hj) hi
  rw [numF_eq_numRow hI beta gamma hj', denF_eq_denRow hI I beta gamma hj']

/-- `permVec` succeeds as soon as no denominator vanishes -/
theorem permVec_some_of_den_ne_zero (n : Nat) (roots aS bS cS dS : List Nat) (sigE : List (List Nat))
    (beta gamma : Nat) (h : ∀ i < n, denF aS bS cS dS sigE beta gamma i ≠ 0) :
    ∃ z, permVec n roots aS bS cS dS sigE beta gamma = some z := by
  rw [permVec_eq]
  have hany : (permDens n aS bS cS dS sigE beta gamma).any (· == 0) = false := by
    rw [List.any_eq_false]
    intro x hx hx0
    obtain ⟨i, hi, rfl⟩ := List.getElem_of_mem hx
    have hin : i < n := by simpa [permDens] using hi
    apply h i hin
    rw [← toF_permDens_getD n aS bS cS dS sigE beta gamma i hin, getD_eq_getElem' _ _ hi]
    have : (permDens n aS bS cS dS sigE beta gamma)[i] = 0 := by simpa using hx0
    rw [this, toF_zero]
  rw [hany]
  exact ⟨_, rfl⟩

/-- **the exceptional challenges are exactly `denBadM`**: the model's `permVec` returns a vector
    (instead of hitting the Rust assertion on a zero denominator) iff `γ ∉ denBadM β` -/
theorem permVec_some_iff {ω : F} {n : Nat} {lay : Composer} {P : ProverPolys F} {G : Nat → Gate}
    {roots aS bS cS dS piS : List Nat} {sigE : List (List Nat)} {z0 : List Nat}
    (hI : Interpolates ω n P G roots aS bS cS dS piS sigE z0) (I : KeyInterp ω n lay P)
    (beta gamma : Nat) :
    (∃ z, permVec n roots aS bS cS dS sigE beta gamma = some z) ↔
      toF gamma ∉ denBadM ω n lay P (toF beta) := by
  constructor
  · rintro ⟨z, hz⟩
    obtain ⟨-, hden, -⟩ := permVec_is_accSeq n roots aS bS cS dS sigE beta gamma z hz
    apply notMem_denBadM_of_denRow_ne_zero
    intro i hi
    rw [← denF_eq_denRow hI I beta gamma hi]
    exact hden i hi
  · intro hγ
    apply permVec_some_of_den_ne_zero
    intro i hi
    rw [denF_eq_denRow hI I beta gamma hi]
    exact denRow_ne_zero ω n lay P _ _ hγ i hi

/-! ### from the model's satisfying witness to the hypotheses of the composition -/

/-- the wire polynomials interpolate the padded wire table of the proving-time composer `c` -/
structure WireInterp (ω : F) (n : Nat) (cp : Composer) (P : ProverPolys F) : Prop where
  a : ∀ i < n, P.a.eval (ω ^ i) = toF (cp.rowVals i).a
  b : ∀ i < n, P.b.eval (ω ^ i) = toF (cp.rowVals i).b
  c : ∀ i < n, P.c.eval (ω ^ i) = toF (cp.rowVals i).c
  d : ∀ i < n, P.d.eval (ω ^ i) = toF (cp.rowVals i).d

theorem rowVals_lt (c : Composer) (hc : ∀ x, c.val x < R) (i : Nat) :
    (c.rowVals i).a < R ∧ (c.rowVals i).b < R ∧ (c.rowVals i).c < R ∧ (c.rowVals i).d < R := by
  unfold rowVals
  split
  · exact ⟨hc _, hc _, hc _, hc _⟩
  · exact ⟨R_pos, R_pos, R_pos, R_pos⟩

theorem wireVal_eq_valAt {ω : F} {n : Nat} {c : Composer} {P : ProverPolys F}
    (W : WireInterp ω n c P) (p : Pos) (h1 : p.1 < 4) (h2 : p.2 < n) :
    wireVal ω P p = toF (valAt c p) := by
  obtain ⟨col, i⟩ := p
  have hc : col < 4 := h1
  have hi : i < n := h2
  unfold wireVal valAt
  interval_cases col
  · exact W.a i hi
  · exact W.b i hi
  · exact W.c i hi
  · exact W.d i hi

theorem wireNat_eq_valAt {ω : F} {n : Nat} {c : Composer} {P : ProverPolys F}
    (W : WireInterp ω n c P) (hc : ∀ x, c.val x < R) (col i : Nat) (h1 : col < 4) (h2 : i < n) :
    wireNat ω P col i = valAt c (col, i) := by
  unfold wireNat
  rw [wireVal_eq_valAt W (col, i) h1 h2]
  apply val_toF_of_lt
  obtain ⟨ha, hb, hcc, hd⟩ := rowVals_lt c hc i
  unfold valAt
  interval_cases col
  · exact ha
  · exact hb
  · exact hcc
  · exact hd

/-- **rows**: the model's row check of the compiled gates `lay.gateAt` on the wire table of `c`
    (next row cyclic, public inputs of the layout) gives `rowOKP` for interpolating polynomials -/
theorem rows_of_model {ω : F} {n : Nat} (hn0 : 0 < n) (lay c : Composer) {P : ProverPolys F}
    (W : WireInterp ω n c P) (hc : ∀ x, c.val x < R)
    (hrows : ∀ i < n, rowHolds (lay.gateAt i) (c.rowVals i).a (c.rowVals i).b (c.rowVals i).c
      (c.rowVals i).d (c.rowVals ((i + 1) % n)).a (c.rowVals ((i + 1) % n)).b
      (c.rowVals ((i + 1) % n)).d (lay.piAt i) = true) :
    ∀ i < n, rowOKP ω n lay P i := by
  intro i hi
  have hm : (i + 1) % n < n := Nat.mod_lt _ hn0
  unfold rowOKP
  rw [wireNat_eq_valAt W hc 0 i (by omega) hi, wireNat_eq_valAt W hc 1 i (by omega) hi,
    wireNat_eq_valAt W hc 2 i (by omega) hi, wireNat_eq_valAt W hc 3 i (by omega) hi,
    wireNat_eq_valAt W hc 0 _ (by omega) hm, wireNat_eq_valAt W hc 1 _ (by omega) hm,
    wireNat_eq_valAt W hc 3 _ (by omega) hm]
  exact hrows i hi

/-- `sysSat` is the row hypothesis of `rows_of_model` for `lay = c` -/
theorem sysSat_rows (c : Composer) (h : c.sysSat = true) :
    ∀ i < c.paddedSize, rowHolds (c.gateAt i) (c.rowVals i).a (c.rowVals i).b (c.rowVals i).c
      (c.rowVals i).d (c.rowVals ((i + 1) % c.paddedSize)).a
      (c.rowVals ((i + 1) % c.paddedSize)).b (c.rowVals ((i + 1) % c.paddedSize)).d (c.piAt i)
        = true := by
  intro i hi
  unfold sysSat at h
  rw [List.all_eq_true] at h
  exact h i (List.mem_range.mpr hi)

/-- **copy constraints**: no copy violation of `c` against the compiled layout gives wire values
    constant on the wiring classes of the layout -/
theorem const_of_copyViolation {ω : F} {n : Nat} (lay c : Composer) (hn : lay.gates.size ≤ n)
    {P : ProverPolys F} (W : WireInterp ω n c P) (h : copyViolation lay c = none) :
    ∀ p q, SameClass lay p q → wireVal ω P p = wireVal ω P q := by
  rw [copyViolation_eq_none_iff] at h
  intro p q hpq
  rw [wireVal_eq_valAt W p hpq.1.1 (lt_of_lt_of_le hpq.1.2 hn),
    wireVal_eq_valAt W q hpq.2.1.1 (lt_of_lt_of_le hpq.2.1.2 hn), h p q hpq]

/-- a witness assignment has no copy violation against its own layout -/
theorem copyViolation_self (c : Composer) : copyViolation c c = none := by
  rw [copyViolation_eq_none_iff]
  intro p q hpq
  have hv (r : Pos) (h1 : r.1 < 4) (h2 : r.2 < c.gates.size) : valAt c r = c.val (wireAt c r) := by
    obtain ⟨col, i⟩ := r
    have hc : col < 4 := h1
    have hi : i < c.gates.size := h2
    unfold valAt wireAt rowVals
    simp only [gateAt_of_lt c hi, Array.getElem?_eq_getElem hi]
    interval_cases col <;> rfl
  rw [hv p hpq.1.1 hpq.1.2, hv q hpq.2.1.1 hpq.2.1.2, hpq.2.2.1]

/-! ### the quotient fits the commit key -/

/-- a reduced, trimmed coefficient list (`Poly.ofCoeffs _`) of a polynomial of degree `≤ D` has at
    most `D + 1` entries -/
theorem quotient_list_fits (t : List Nat) (hr : Reduced t) (ht : Trimmed t) (T : F[X])
    (hT : toPoly t = T) (D : Nat) (hdeg : T.natDegree ≤ D) : t.length ≤ D + 1 := by
  by_cases hne : t = []
  · rw [hne]; simp
  · have := (length_of_trimmed hr ht hne).1
    rw [hT] at this
    omega

end Plonk.Complete
