/-
  C05 (prover exactness), algebraic half — the specification prover's own functions
  (`Model/Prover.lean`): `blindPoly` (blinding does not change the values on the domain),
  `quotientEvals` (each entry is the numerator expression `numR` of the entries it reads, times the
  inverse vanishing value), `permVec` (the running product), and the combination
  `exact_math` / `prover_exact_model`.
-/
import Plonk.Proofs.PolyBridge
import Plonk.Proofs.FftDomain
import Plonk.Proofs.QuotientGate
import Plonk.Model.Prover

namespace Plonk.Quot
open Plonk Polynomial FftMath

/-! ### 1. blinding -/

theorem toPoly_eq_polyN (p : List Nat) : toPoly p = polyN p.length (seqF p) := toPoly_eq_sum p

theorem toPoly_set (cs : List Nat) (k v : Nat) (hk : k < cs.length) :
    toPoly (cs.set k v) = toPoly cs + C (toF v - toF (cs.getD k 0)) * X ^ k := by
  ext m
  rw [coeff_add, coeff_toPoly, coeff_toPoly, coeff_C_mul_X_pow, List.getD_eq_getElem?_getD,
    List.getD_eq_getElem?_getD, List.getD_eq_getElem?_getD, List.getElem?_set]
  by_cases hm : m = k
  · subst hm; simp [hk]
  · have : ¬ k = m := fun h => hm h.symm
    simp [hm, this]

/-- one step of `blind_poly_with_blinders`: subtract the blinder at position `i`, push it at the end -/
theorem toPoly_foldl_blind (f : List Nat → Nat × Nat → List Nat)
    (hf : ∀ cs b i, f cs (b, i) = cs.set i (fsub (cs.getD i 0) b) ++ [b % R]) (l : List Nat) :
    ∀ (k : Nat) (cs : List Nat), k < cs.length →
      toPoly ((l.zipIdx k).foldl f cs) = toPoly cs + toPoly l * (X ^ cs.length - X ^ k) := by
  induction l with
  | nil => intro k cs _; simp
  | cons b l ih =>
    intro k cs hk
    rw [List.zipIdx_cons, List.foldl_cons, hf, ih (k + 1) _ (by simp; omega), toPoly_append,
      toPoly_set _ _ _ hk, toPoly_cons, toF_fsub]
    simp only [List.length_append, List.length_set, List.length_cons, List.length_nil, toPoly_cons,
      toPoly_nil, toF_mod]
    rw [pow_succ, pow_succ]
    simp only [map_sub]
    ring

/-- `blind_poly_with_blinders` adds a multiple of the vanishing polynomial to the interpolant:
    `toPoly (blindPoly d w bs) = toPoly (ifft w) + (Σ_i C b_i X^i)·(X^n − 1)` -/
theorem toPoly_blindPoly {d : Domain} (hd : d.WF) (w bs : List Nat) :
    toPoly (blindPoly d w bs) = toPoly (d.ifft w) + toPoly bs * (X ^ d.size - 1) := by
  unfold blindPoly
  have hlen : (d.ifft w).length = d.size := Domain.ifft_length hd (le_refl 1) w
  rw [toPoly_ofCoeffs, toPoly_foldl_blind _ (fun _ _ _ => rfl) bs 0 (d.ifft w)
    (by rw [hlen]; exact hd.size_pos), hlen, pow_zero]

/-- the interpolant takes the witness values on the domain -/
theorem eval_toPoly_ifft {d : Domain} (hd : d.WF) (w : List Nat) (hw : w.length = d.size) (i : Nat)
    (hi : i < d.size) : (toPoly (d.ifft w)).eval (toF d.groupGen ^ i) = toF (w.getD i 0) := by
  have hlen : (d.ifft w).length = d.size := Domain.ifft_length hd (le_refl 1) w
  rw [toPoly_eq_polyN, hlen]
  exact Domain.eval_ifft hd (le_refl 1) w hw i hi

/-- **Blinding is invisible on the domain.** Whatever the blinders, the blinded polynomial takes
    the value `w[i]` at `ω^i`. -/
theorem eval_blindPoly {d : Domain} (hd : d.WF) (w bs : List Nat) (hw : w.length = d.size) (i : Nat)
    (hi : i < d.size) :
    (toPoly (blindPoly d w bs)).eval (toF d.groupGen ^ i) = toF (w.getD i 0) := by
  have h1 : (toF d.groupGen ^ i) ^ d.size = 1 := by
    rw [← pow_mul, mul_comm, pow_mul, hd.prim.pow_eq_one, one_pow]
  rw [toPoly_blindPoly hd, eval_add, eval_mul, eval_sub, eval_pow, eval_X, eval_one, h1, sub_self,
    mul_zero, add_zero, eval_toPoly_ifft hd w hw i hi]

/-! ### 4'. the entries of `quotientEvals` -/

/-- the selector values read at index `i` of the stored evaluation arrays -/
def selAt (selE : Array (Array Nat)) (i : Nat) : Sel F :=
  ⟨toF ((selE.getD 0 #[]).getD i 0), toF ((selE.getD 1 #[]).getD i 0), toF ((selE.getD 2 #[]).getD i 0),
   toF ((selE.getD 3 #[]).getD i 0), toF ((selE.getD 4 #[]).getD i 0), toF ((selE.getD 5 #[]).getD i 0),
   toF ((selE.getD 6 #[]).getD i 0), toF ((selE.getD 7 #[]).getD i 0), toF ((selE.getD 8 #[]).getD i 0),
   toF ((selE.getD 9 #[]).getD i 0), toF ((selE.getD 10 #[]).getD i 0)⟩

/-- the permutation data read at index `i` -/
def permAt (sigE8 : Array (Array Nat)) (linE zE vh l1Den : Array Nat) (nInv8 i : Nat) : PermRow F :=
  ⟨toF (linE.getD i 0), toF ((sigE8.getD 0 #[]).getD i 0), toF ((sigE8.getD 1 #[]).getD i 0),
   toF ((sigE8.getD 2 #[]).getD i 0), toF ((sigE8.getD 3 #[]).getD i 0), toF (zE.getD i 0),
   toF (zE.getD (i + 8) 0), toF (l1Den.getD i 0) * (toF (vh.getD i 0) * toF nInv8)⟩

theorem arithVal_noPi (g : Gate) (a b c d : Nat) (w : Wires F) (ha : w.a = toF a) (hb : w.b = toF b)
    (hc : w.c = toF c) (hd : w.d = toF d) :
    toF (arithVal g a b c d 0) = arithR (selF g) w := by
  rw [toF_arithVal]; unfold arithF arithR selF; rw [ha, hb, hc, hd, toF_zero, add_zero]

/-- **Entry `i` of the model's `quotientEvals`** (computed on the coset, next-row values read at
    `i + 8`) is the numerator expression `numR` of the entries it reads — with `L₁` supplied as
    `l1Den[i]·(vh[i]·nInv8)` — times `vhInv8[i mod 8]`. -/
theorem toF_quotientEvals_getD (size8 : Nat) (selE sigE8 : Array (Array Nat))
    (linE aE bE cE dE zE piE vh vhInv8 l1Den : Array Nat)
    (nInv8 beta gamma alpha rSep lSep fSep vSep : Nat) (i : Nat) (hi : i < size8) :
    toF ((quotientEvals size8 selE sigE8 linE aE bE cE dE zE piE vh vhInv8 l1Den nInv8 beta gamma
        alpha rSep lSep fSep vSep).getD i 0) =
      numR (selAt selE i)
        (wiresF (aE.getD i 0) (bE.getD i 0) (cE.getD i 0) (dE.getD i 0) (aE.getD (i + 8) 0)
          (bE.getD (i + 8) 0) (dE.getD (i + 8) 0))
        (toF (piE.getD i 0)) (permAt sigE8 linE zE vh l1Den nInv8 i)
        ⟨toF beta, toF gamma, toF alpha⟩ ⟨toF rSep, toF lSep, toF fSep, toF vSep⟩ *
      toF (vhInv8.getD (i % 8) 0) := by
  simp only [quotientEvals]
  rw [getD_map_range _ _ _ hi]
  simp only [toF_fmul, toF_fadd, toF_fsub, toF_fneg, toF_fsq, toF_one, toF_rangeScalar,
    toF_logicScalar, toF_fixedScalar, toF_varScalar]
  rw [arithVal_noPi _ _ _ _ _ (wiresF (aE.getD i 0) (bE.getD i 0) (cE.getD i 0) (dE.getD i 0)
    (aE.getD (i + 8) 0) (bE.getD (i + 8) 0) (dE.getD (i + 8) 0)) rfl rfl rfl rfl]
  simp only [numR, gateSumR, permStepR, permNumR, permDenR, selAt, permAt, selF, arithR, wiresF]
  have k1 : toF Generated.K1 = (Generated.K1 : F) := rfl
  have k2 : toF Generated.K2 = (Generated.K2 : F) := rfl
  have k3 : toF Generated.K3 = (Generated.K3 : F) := rfl
  rw [k1, k2, k3]
  ring

/-! ### 5. the permutation vector -/

/-- iterates of a step function -/
def iterFrom (g : Nat → Nat → Nat) (s : Nat) : Nat → Nat
  | 0 => s
  | i + 1 => g i (iterFrom g s i)

theorem foldl_iter (g : Nat → Nat → Nat) (s : Nat) (m : Nat) :
    (List.range m).foldl (fun (acc : List Nat × Nat) i => (acc.2 :: acc.1, g i acc.2)) ([], s) =
      (((List.range m).map (iterFrom g s)).reverse, iterFrom g s m) := by
  induction m with
  | zero => rfl
  | succ m ih =>
    rw [List.range_succ, List.foldl_append, ih]
    simp [iterFrom]

/-- the numerators of `compute_permutation_vec` -/
def permNums (n : Nat) (roots aS bS cS dS : List Nat) (beta gamma : Nat) : List Nat :=
  (List.range n).map fun i =>
    let br := fmul beta (roots.getD i 0)
    fmul (fmul (fmul (fadd (fadd (aS.getD i 0) br) gamma) (fadd (fadd (bS.getD i 0) (fmul br Generated.K1)) gamma))
               (fadd (fadd (cS.getD i 0) (fmul br Generated.K2)) gamma))
         (fadd (fadd (dS.getD i 0) (fmul br Generated.K3)) gamma)

/-- the denominators of `compute_permutation_vec` -/
def permDens (n : Nat) (aS bS cS dS : List Nat) (sigE : List (List Nat)) (beta gamma : Nat) : List Nat :=
  (List.range n).map fun i =>
    let s (j : Nat) := (sigE.getD j []).getD i 0
    fmul (fmul (fmul (fadd (fadd (aS.getD i 0) (fmul beta (s 0))) gamma) (fadd (fadd (bS.getD i 0) (fmul beta (s 1))) gamma))
               (fadd (fadd (cS.getD i 0) (fmul beta (s 2))) gamma))
         (fadd (fadd (dS.getD i 0) (fmul beta (s 3))) gamma)

theorem permVec_eq (n : Nat) (roots aS bS cS dS : List Nat) (sigE : List (List Nat)) (beta gamma : Nat) :
    permVec n roots aS bS cS dS sigE beta gamma =
      if (permDens n aS bS cS dS sigE beta gamma).any (· == 0) then none else
      some (((List.range n).foldl (fun (acc : List Nat × Nat) i =>
        (acc.2 :: acc.1,
          if i + 1 < n then
            fmul acc.2 (fmul ((permNums n roots aS bS cS dS beta gamma).getD i 0)
              ((batchInversion (permDens n aS bS cS dS sigE beta gamma)).getD i 0))
          else acc.2)) ([], 1 % R)).1.reverse) := rfl

/-- field-level numerator / denominator of row `i` -/
def numF (roots aS bS cS dS : List Nat) (beta gamma : Nat) (i : Nat) : F :=
  permNumR (toF beta) (toF gamma) (toF (aS.getD i 0)) (toF (bS.getD i 0)) (toF (cS.getD i 0))
    (toF (dS.getD i 0)) (toF (roots.getD i 0))

def denF (aS bS cS dS : List Nat) (sigE : List (List Nat)) (beta gamma : Nat) (i : Nat) : F :=
  permDenR (toF beta) (toF gamma) (toF (aS.getD i 0)) (toF (bS.getD i 0)) (toF (cS.getD i 0))
    (toF (dS.getD i 0)) (toF ((sigE.getD 0 []).getD i 0)) (toF ((sigE.getD 1 []).getD i 0))
    (toF ((sigE.getD 2 []).getD i 0)) (toF ((sigE.getD 3 []).getD i 0))

theorem toF_permNums_getD (n : Nat) (roots aS bS cS dS : List Nat) (beta gamma i : Nat) (hi : i < n) :
    toF ((permNums n roots aS bS cS dS beta gamma).getD i 0) = numF roots aS bS cS dS beta gamma i := by
  unfold permNums
  rw [getD_map_range _ _ _ hi]
  simp only [toF_fmul, toF_fadd, numF, permNumR]
  have k1 : toF Generated.K1 = (Generated.K1 : F) := rfl
  have k2 : toF Generated.K2 = (Generated.K2 : F) := rfl
  have k3 : toF Generated.K3 = (Generated.K3 : F) := rfl
  rw [k1, k2, k3]
  ring

theorem permDens_getD_lt (n : Nat) (aS bS cS dS : List Nat) (sigE : List (List Nat))
    (beta gamma i : Nat) : (permDens n aS bS cS dS sigE beta gamma).getD i 0 < R := by
  apply getD_lt_R
  intro x hx
  unfold permDens at hx
  obtain ⟨j, _, rfl⟩ := List.mem_map.mp hx
  exact fmul_lt _ _

theorem toF_permDens_getD (n : Nat) (aS bS cS dS : List Nat) (sigE : List (List Nat))
    (beta gamma i : Nat) (hi : i < n) :
    toF ((permDens n aS bS cS dS sigE beta gamma).getD i 0) = denF aS bS cS dS sigE beta gamma i := by
  unfold permDens
  rw [getD_map_range _ _ _ hi]
  simp only [toF_fmul, toF_fadd, denF, permDenR]

theorem toF_batchInversion_getD (v : List Nat) (i : Nat) :
    toF ((batchInversion v).getD i 0) = (toF (v.getD i 0))⁻¹ := by
  unfold batchInversion
  have h0 : (if (0 % R == 0) = true then 0 % R else finv 0) = 0 := by simp
  have := List.getD_map (l := v) (d := 0) (n := i) (fun x : Nat => if x % R == 0 then x % R else finv x)
  rw [h0] at this
  rw [this]
  split
  · next h =>
    have h' : v.getD i 0 % R = 0 := by simpa using h
    rw [toF_mod, (toF_eq_zero_iff _).mpr h', inv_zero]
  · exact toF_finv _

/-- **`compute_permutation_vec`.** When the model returns `some z`: `z` has `n` entries, every
    denominator is non-zero, `z₀ = 1` and `z_{i+1} = z_i·num_i/den_i`. -/
theorem permVec_spec (n : Nat) (roots aS bS cS dS : List Nat) (sigE : List (List Nat))
    (beta gamma : Nat) (z : List Nat) (h : permVec n roots aS bS cS dS sigE beta gamma = some z) :
    z.length = n ∧ (∀ i < n, denF aS bS cS dS sigE beta gamma i ≠ 0) ∧
    (0 < n → toF (z.getD 0 0) = 1) ∧
    (∀ i, i + 1 < n → toF (z.getD (i + 1) 0) =
      toF (z.getD i 0) * (numF roots aS bS cS dS beta gamma i *
        (denF aS bS cS dS sigE beta gamma i)⁻¹)) := by
  rw [permVec_eq] at h
  split at h
  · exact absurd h (by simp)
  · next hany =>
    rw [foldl_iter (fun i cur => if i + 1 < n then
        fmul cur (fmul ((permNums n roots aS bS cS dS beta gamma).getD i 0)
          ((batchInversion (permDens n aS bS cS dS sigE beta gamma)).getD i 0)) else cur)] at h
    simp only [List.reverse_reverse, Option.some.injEq] at h
    subst h
    refine ⟨by simp, ?_, ?_, ?_⟩
    · intro i hi h0
      apply hany
      rw [List.any_eq_true]
      refine ⟨(permDens n aS bS cS dS sigE beta gamma).getD i 0, ?_, ?_⟩
      · rw [getD_eq_getElem' _ _ (by simp [permDens, hi])]
        exact List.getElem_mem _
      · rw [beq_zero_iff (permDens_getD_lt ..), toF_permDens_getD _ _ _ _ _ _ _ _ _ hi]
        exact h0
    · intro hn
      rw [getD_map_range _ _ _ hn]
      simp [iterFrom]
    · intro i hi
      rw [getD_map_range _ _ _ hi, getD_map_range _ _ _ (by omega : i < n)]
      simp only [iterFrom, if_pos hi, toF_fmul, toF_batchInversion_getD,
        toF_permNums_getD _ _ _ _ _ _ _ _ _ (by omega : i < n),
        toF_permDens_getD _ _ _ _ _ _ _ _ _ (by omega : i < n)]

/-! ### 6. combination -/

section exact
variable {K : Type*} [Field K] {S : Type*}

/-- For an accumulator built as `compute_permutation_vec` does, with `L₁(ω^i) = [i = 0]`: the row
    values `N_i = E_i(s) + α·(num_i z_i − den_i z_{(i+1) mod n}) + α²·L₁(ω^i)·(z_i − 1)` vanish for all
    rows, two distinct `α` and every separation challenge `s` of a non-empty set `G` iff every gate
    expression `E_i` vanishes on `G` and the two grand products agree. -/
theorem exact_math (n : ℕ) (hn : 0 < n) (E : ℕ → S → K) (G : S → Prop) (hG : ∃ s, G s)
    (Sα : Finset K) (hα : 1 < Sα.card) (num den z l1 : ℕ → K)
    (hl1 : ∀ i, l1 i = if i = 0 then 1 else 0)
    (hden : ∀ i < n, den i ≠ 0) (hz0 : z 0 = 1)
    (hz : ∀ i, i + 1 < n → z (i + 1) = z i * (num i * (den i)⁻¹)) :
    (∀ α ∈ Sα, ∀ s, G s → ∀ i < n,
      E i s + α * (num i * z i - den i * z ((i + 1) % n)) + α ^ 2 * l1 i * (z i - 1) = 0) ↔
    (∀ i < n, ∀ s, G s → E i s = 0) ∧
      ∏ j ∈ Finset.range n, num j = ∏ j ∈ Finset.range n, den j := by
  obtain ⟨hstep, -, hlast⟩ := grand_product_math n hn num den z hden hz0 hz
  have hl : ∀ i, l1 i * (z i - 1) = 0 := by
    intro i
    rw [hl1]
    split
    · next h0 => rw [h0, hz0]; ring
    · ring
  -- the permutation step of row `i`
  have hperm : ∀ i < n, i + 1 < n → num i * z i - den i * z ((i + 1) % n) = 0 := by
    intro i _ hi1
    rw [Nat.mod_eq_of_lt hi1]; exact hstep i hi1
  have hwrap : (n - 1 + 1) % n = 0 := by
    rw [Nat.sub_add_cancel hn, Nat.mod_self]
  constructor
  · intro h
    obtain ⟨α1, hα1, α2, hα2, hne⟩ := Finset.one_lt_card.mp hα
    obtain ⟨s0, hs0⟩ := hG
    -- last row: the step vanishes
    have hP : num (n - 1) * z (n - 1) - den (n - 1) * z 0 = 0 := by
      have e1 := h α1 hα1 s0 hs0 (n - 1) (by omega)
      have e2 := h α2 hα2 s0 hs0 (n - 1) (by omega)
      rw [hwrap, mul_assoc, hl, mul_zero, add_zero] at e1 e2
      have : (α1 - α2) * (num (n - 1) * z (n - 1) - den (n - 1) * z 0) = 0 := by
        linear_combination e1 - e2
      exact (mul_eq_zero.mp this).resolve_left (sub_ne_zero.mpr hne)
    refine ⟨?_, hlast.mp hP⟩
    intro i hi s hs
    have e := h α1 hα1 s hs i hi
    rw [mul_assoc, hl, mul_zero, add_zero] at e
    by_cases hi1 : i + 1 < n
    · rw [hperm i hi hi1, mul_zero, add_zero] at e; exact e
    · have : i = n - 1 := by omega
      subst this
      rw [hwrap, hP, mul_zero, add_zero] at e; exact e
  · rintro ⟨hE, hprod⟩ α _ s hs i hi
    rw [mul_assoc, hl, mul_zero, add_zero, hE i hi s hs, zero_add]
    by_cases hi1 : i + 1 < n
    · rw [hperm i hi hi1, mul_zero]
    · have : i = n - 1 := by omega
      subst this
      rw [hwrap, hlast.mpr hprod, mul_zero]

end exact

/-- the numerator value `N_i` of row `i` of a table given by the model's data: selector rows `G`,
    wire columns, dense public inputs, domain elements, sigma values and accumulator, the next row
    read at `(i+1) mod n`, `L₁(ω^i) = [i = 0]` -/
def rowNum (n : Nat) (G : Nat → Gate) (roots aS bS cS dS piS : List Nat) (sigE : List (List Nat))
    (z : List Nat) (ch : Chal F) (s : Seps F) (i : Nat) : F :=
  numR (selF (G i))
    (wiresF (aS.getD i 0) (bS.getD i 0) (cS.getD i 0) (dS.getD i 0) (aS.getD ((i + 1) % n) 0)
      (bS.getD ((i + 1) % n) 0) (dS.getD ((i + 1) % n) 0))
    (toF (piS.getD i 0))
    ⟨toF (roots.getD i 0), toF ((sigE.getD 0 []).getD i 0), toF ((sigE.getD 1 []).getD i 0),
      toF ((sigE.getD 2 []).getD i 0), toF ((sigE.getD 3 []).getD i 0), toF (z.getD i 0),
      toF (z.getD ((i + 1) % n) 0), if i = 0 then 1 else 0⟩ ch s

/-- the model's row check of row `i` of the table, next row cyclic -/
def rowOK (n : Nat) (G : Nat → Gate) (aS bS cS dS piS : List Nat) (i : Nat) : Prop :=
  rowHolds (G i) (aS.getD i 0) (bS.getD i 0) (cS.getD i 0) (dS.getD i 0) (aS.getD ((i + 1) % n) 0)
    (bS.getD ((i + 1) % n) 0) (dS.getD ((i + 1) % n) 0) (piS.getD i 0) = true

/-- **Exactness at the level of row values.** With the accumulator of the model's `permVec`:
    all numerator values `N_i` (`i < n`) vanish for every `α` of a set with at least two elements and
    every separation challenge of a grid with more than `7 / 9 / 7 / 5` values per axis
    iff every row identity of the model holds (next row cyclic) and the grand products agree. -/
theorem prover_exact_model (n : Nat) (hn : 0 < n) (G : Nat → Gate) (hG : ∀ i < n, SelReduced (G i))
    (roots aS bS cS dS piS : List Nat) (sigE : List (List Nat)) (beta gamma : Nat) (z : List Nat)
    (hz : permVec n roots aS bS cS dS sigE beta gamma = some z)
    (Sα Sr Sl Sf Sv : Finset F) (hα : 1 < Sα.card) (hr : 7 < Sr.card) (hl : 9 < Sl.card)
    (hf : 7 < Sf.card) (hv : 5 < Sv.card) :
    (∀ α ∈ Sα, ∀ ρ ∈ Sr, ∀ l ∈ Sl, ∀ φ ∈ Sf, ∀ ν ∈ Sv, ∀ i < n,
      rowNum n G roots aS bS cS dS piS sigE z ⟨toF beta, toF gamma, α⟩ ⟨ρ, l, φ, ν⟩ i = 0) ↔
    (∀ i < n, rowOK n G aS bS cS dS piS i) ∧
      ∏ i ∈ Finset.range n, numF roots aS bS cS dS beta gamma i =
        ∏ i ∈ Finset.range n, denF aS bS cS dS sigE beta gamma i := by
  obtain ⟨-, hden, hz0, hstep⟩ := permVec_spec n roots aS bS cS dS sigE beta gamma z hz
  obtain ⟨r0, hr0⟩ := Finset.card_pos.mp (by omega : 0 < Sr.card)
  obtain ⟨l0, hl0⟩ := Finset.card_pos.mp (by omega : 0 < Sl.card)
  obtain ⟨f0, hf0⟩ := Finset.card_pos.mp (by omega : 0 < Sf.card)
  obtain ⟨v0, hv0⟩ := Finset.card_pos.mp (by omega : 0 < Sv.card)
  have key := exact_math (K := F) (S := Seps F) n hn
    (fun i s => gateSumR (selF (G i))
      (wiresF (aS.getD i 0) (bS.getD i 0) (cS.getD i 0) (dS.getD i 0) (aS.getD ((i + 1) % n) 0)
        (bS.getD ((i + 1) % n) 0) (dS.getD ((i + 1) % n) 0)) (toF (piS.getD i 0)) s)
    (fun s => s.rs ∈ Sr ∧ s.ls ∈ Sl ∧ s.fs ∈ Sf ∧ s.vs ∈ Sv) ⟨⟨r0, l0, f0, v0⟩, hr0, hl0, hf0, hv0⟩
    Sα hα (numF roots aS bS cS dS beta gamma) (denF aS bS cS dS sigE beta gamma)
    (fun i => toF (z.getD i 0)) (fun i => if i = 0 then 1 else 0) (fun _ => rfl) hden (hz0 hn) hstep
  have e1 : (∀ α ∈ Sα, ∀ ρ ∈ Sr, ∀ l ∈ Sl, ∀ φ ∈ Sf, ∀ ν ∈ Sv, ∀ i < n,
      rowNum n G roots aS bS cS dS piS sigE z ⟨toF beta, toF gamma, α⟩ ⟨ρ, l, φ, ν⟩ i = 0) ↔
      (∀ α ∈ Sα, ∀ s : Seps F, (s.rs ∈ Sr ∧ s.ls ∈ Sl ∧ s.fs ∈ Sf ∧ s.vs ∈ Sv) → ∀ i < n,
        gateSumR (selF (G i))
          (wiresF (aS.getD i 0) (bS.getD i 0) (cS.getD i 0) (dS.getD i 0) (aS.getD ((i + 1) % n) 0)
            (bS.getD ((i + 1) % n) 0) (dS.getD ((i + 1) % n) 0)) (toF (piS.getD i 0)) s +
          α * (numF roots aS bS cS dS beta gamma i * toF (z.getD i 0) -
            denF aS bS cS dS sigE beta gamma i * toF (z.getD ((i + 1) % n) 0)) +
          α ^ 2 * (if i = 0 then 1 else 0) * (toF (z.getD i 0) - 1) = 0) :=
    ⟨fun h α hα s hs i hi => h α hα s.rs hs.1 s.ls hs.2.1 s.fs hs.2.2.1 s.vs hs.2.2.2 i hi,
     fun h α hα ρ hρ l hl φ hφ ν hν i hi => h α hα ⟨ρ, l, φ, ν⟩ ⟨hρ, hl, hφ, hν⟩ i hi⟩
  rw [e1, key]
  apply and_congr_left'
  apply forall₂_congr
  intro i hi
  unfold rowOK
  rw [← gate_sum_zero_iff (G i) (hG i hi) _ _ _ _ _ _ _ _ Sr Sl Sf Sv hr hl hf hv]
  exact ⟨fun h ρ hρ l hl φ hφ ν hν => h ⟨ρ, l, φ, ν⟩ ⟨hρ, hl, hφ, hν⟩,
    fun h s hs => h s.rs hs.1 s.ls hs.2.1 s.fs hs.2.2.1 s.vs hs.2.2.2⟩

end Plonk.Quot
