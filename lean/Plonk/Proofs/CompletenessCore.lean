/-
  C01 (completeness), algebraic core, math level — no model code in this file, arbitrary field `K`.

  * `accSeq`, `accSeq_step`, `accSeq_closes`, `accSeq_step_cyclic` : the running product
    `z_i = ∏_{j<i} num_j / den_j` of the permutation argument satisfies `z_0 = 1`,
    `z_{i+1}·den_i = z_i·num_i`, and — when the two full products agree — `z_n = 1 = z_0`, so that
    every cyclic permutation step `num_i·z_i − den_i·z_{(i+1) mod n}` vanishes, the wrap-around one
    included.  (Mirror image of `Sound.accumulator_telescopes_cyclic`.)
  * `exists_interpolant` : a polynomial of degree `< n` with prescribed values on the domain `⟨ω⟩`;
    `eval_add_mul_vanishing` : adding a multiple of `Xⁿ − 1` (blinding) does not change them.
  * `denBad` : the explicit bad set of `γ` for a fixed `β`: the values making a factor of the `σ`
    side vanish (at most `|S|`); it is contained in the soundness bad set `Sound.gammaBad`.
  * `exists_quotient_of_vanishes`, `natDegree_quotient_le` : a numerator vanishing on the domain is
    `T·(Xⁿ − 1)` with `deg T ≤ deg Num − n`.
-/
import Mathlib.LinearAlgebra.Lagrange
import Plonk.Proofs.SoundnessCore

namespace Plonk.Complete
open Polynomial Plonk.Quot

/-! ### 1. the running product -/

section acc
variable {K : Type*} [Field K]

/-- the running product `z_i = ∏_{j<i} num_j / den_j` -/
def accSeq (num den : ℕ → K) (i : ℕ) : K := ∏ j ∈ Finset.range i, num j / den j

@[simp] theorem accSeq_zero (num den : ℕ → K) : accSeq num den 0 = 1 := by simp [accSeq]

theorem accSeq_succ (num den : ℕ → K) (i : ℕ) :
    accSeq num den (i + 1) = accSeq num den i * (num i / den i) := by
  unfold accSeq; rw [Finset.prod_range_succ]

/-- the recurrence `z_{i+1}·den_i = z_i·num_i` -/
theorem accSeq_step (num den : ℕ → K) (i : ℕ) (hd : den i ≠ 0) :
    accSeq num den (i + 1) * den i = accSeq num den i * num i := by
  rw [accSeq_succ]; field_simp

/-- **the accumulator closes**: when the two full products agree, `z_n = 1 = z_0` -/
theorem accSeq_closes (n : ℕ) (num den : ℕ → K) (hden : ∀ i < n, den i ≠ 0)
    (hprod : ∏ i ∈ Finset.range n, num i = ∏ i ∈ Finset.range n, den i) : accSeq num den n = 1 := by
  unfold accSeq
  rw [Finset.prod_div_distrib, hprod]
  exact div_self (Finset.prod_ne_zero_iff.mpr (fun j hj => hden j (Finset.mem_range.mp hj)))

/-- **every cyclic permutation step vanishes** for a sequence that agrees with the running product
    on `0 … n−1` (the wrap-around step uses `z_n = z_0`) -/
theorem accSeq_step_cyclic (n : ℕ) (num den : ℕ → K) (hden : ∀ i < n, den i ≠ 0)
    (hprod : ∏ i ∈ Finset.range n, num i = ∏ i ∈ Finset.range n, den i) (z : ℕ → K)
    (hz : ∀ i < n, z i = accSeq num den i) :
    ∀ i < n, num i * z i - den i * z ((i + 1) % n) = 0 := by
  intro i hi
  have hstep := accSeq_step num den i (hden i hi)
  rw [hz i hi]
  by_cases h1 : i + 1 < n
  · rw [Nat.mod_eq_of_lt h1, hz _ h1]
    linear_combination -hstep
  · have hin : i + 1 = n := by omega
    rw [hin, Nat.mod_self, hz 0 (by omega), accSeq_zero]
    rw [hin, accSeq_closes n num den hden hprod] at hstep
    linear_combination -hstep

/-- `L₁`-term: the sequence starts at `1` -/
theorem accSeq_first (n : ℕ) (hn : 0 < n) (num den : ℕ → K) (z : ℕ → K)
    (hz : ∀ i < n, z i = accSeq num den i) : z 0 = 1 := by
  rw [hz 0 hn, accSeq_zero]

/-- the sequence of the model's recurrence (`z_0 = 1`, `z_{i+1} = z_i·(num_i·den_i⁻¹)` for
    `i + 1 < n`) is the running product -/
theorem eq_accSeq_of_rec (n : ℕ) (num den z : ℕ → K) (hz0 : 0 < n → z 0 = 1)
    (hz : ∀ i, i + 1 < n → z (i + 1) = z i * (num i * (den i)⁻¹)) :
    ∀ i < n, z i = accSeq num den i := by
  intro i
  induction i with
  | zero => intro h; rw [hz0 h, accSeq_zero]
  | succ i ih =>
    intro hi
    rw [hz i hi, ih (by omega), accSeq_succ, div_eq_mul_inv]

end acc

/-! ### 2. interpolation on the domain -/

section interp
variable {K : Type*} [Field K]

/-- a polynomial of degree `< n` with prescribed values on the domain -/
theorem exists_interpolant {ω : K} {n : ℕ} (hω : IsPrimitiveRoot ω n) (v : ℕ → K) :
    ∃ Z : K[X], Z.degree < n ∧ ∀ i < n, Z.eval (ω ^ i) = v i := by
  classical
  have hinj : Set.InjOn (fun i : ℕ => ω ^ i) (Finset.range n : Set ℕ) := by
    intro i hi j hj hij
    exact hω.pow_inj (Finset.mem_range.mp (Finset.mem_coe.mp hi))
      (Finset.mem_range.mp (Finset.mem_coe.mp hj)) hij
  refine ⟨Lagrange.interpolate (Finset.range n) (fun i : ℕ => ω ^ i) v, ?_, ?_⟩
  · have := Lagrange.degree_interpolate_lt (r := v) hinj
    rwa [Finset.card_range] at this
  · intro i hi
    exact Lagrange.eval_interpolate_at_node (r := v) hinj (Finset.mem_range.mpr hi)

/-- blinding: a multiple of `Xⁿ − 1` does not change the values on the domain -/
theorem eval_add_mul_vanishing {ω : K} {n : ℕ} (hω : ω ^ n = 1) (Z B : K[X]) (i : ℕ) :
    (Z + B * (X ^ n - 1)).eval (ω ^ i) = Z.eval (ω ^ i) := by
  have h1 : (ω ^ i) ^ n = 1 := by rw [← pow_mul, mul_comm, pow_mul, hω, one_pow]
  simp [h1]

end interp

/-! ### 3. the bad set of `γ` -/

section bad
open Plonk.Perm Plonk.Sound
variable {K : Type} [Field K] [DecidableEq K] {ι : Type}

/-- the explicit bad set of `γ` (for a fixed `β`) of the honest prover: the values that make a
    factor `val p + β·id(σ p) + γ` of a denominator vanish -/
def denBad (S : Finset ι) (val idl : ι → K) (σ : ι → ι) (β : K) : Finset K :=
  S.image fun p => -(val p + β * idl (σ p))

theorem denBad_card_le (S : Finset ι) (val idl : ι → K) (σ : ι → ι) (β : K) :
    (denBad S val idl σ β).card ≤ S.card := Finset.card_image_le

/-- the completeness bad set is part of the soundness bad set: a `γ` that is good for
    `soundness_algebraic` is good for `completeness_algebraic` -/
theorem denBad_subset_gammaBad (S : Finset ι) (val idl : ι → K) (σ : ι → ι) (β : K) :
    denBad S val idl σ β ⊆ gammaBad S val idl σ β :=
  Finset.subset_union_right

theorem den_factor_ne_zero (S : Finset ι) (val idl : ι → K) (σ : ι → ι) (β γ : K)
    (hγ : γ ∉ denBad S val idl σ β) : ∀ p ∈ S, val p + β * idl (σ p) + γ ≠ 0 := by
  intro p hp h0
  apply hγ
  unfold denBad
  refine Finset.mem_image.mpr ⟨p, hp, ?_⟩
  linear_combination -h0

/-- conversely, a `γ` for which no factor vanishes is outside the bad set -/
theorem notMem_denBad_of_ne_zero (S : Finset ι) (val idl : ι → K) (σ : ι → ι) (β γ : K)
    (h : ∀ p ∈ S, val p + β * idl (σ p) + γ ≠ 0) : γ ∉ denBad S val idl σ β := by
  intro hm
  obtain ⟨p, hp, hpe⟩ := Finset.mem_image.mp hm
  exact h p hp (by rw [← hpe]; ring)

end bad

/-! ### 4. the quotient -/

section quot
variable {K : Type*} [Field K]

theorem natDegree_X_pow_sub_one (n : ℕ) : (X ^ n - 1 : K[X]).natDegree = n := by
  have := natDegree_X_pow_sub_C (R := K) (n := n) (r := 1)
  rwa [C_1] at this

theorem X_pow_sub_one_ne_zero (n : ℕ) (hn : 0 < n) : (X ^ n - 1 : K[X]) ≠ 0 := by
  intro h
  have := natDegree_X_pow_sub_one (K := K) n
  rw [h, natDegree_zero] at this
  omega

/-- a polynomial vanishing on the domain is `T·(Xⁿ − 1)` -/
theorem exists_quotient_of_vanishes {ω : K} {n : ℕ} (hn : 0 < n) (hω : IsPrimitiveRoot ω n)
    (N : K[X]) (h : ∀ i < n, N.eval (ω ^ i) = 0) : ∃ T : K[X], N = T * (X ^ n - 1) := by
  obtain ⟨T, hT⟩ := (divisible_iff_vanishes hn hω N).mpr h
  exact ⟨T, by rw [hT, mul_comm]⟩

/-- `deg T ≤ deg N − n` for `N = T·(Xⁿ − 1)` -/
theorem natDegree_quotient_le {n : ℕ} (hn : 0 < n) (N T : K[X]) (h : N = T * (X ^ n - 1)) (D : ℕ)
    (hN : N.natDegree ≤ D) : T.natDegree ≤ D - n := by
  by_cases hT : T = 0
  · rw [hT, natDegree_zero]; omega
  · have := natDegree_mul hT (X_pow_sub_one_ne_zero (K := K) n hn)
    rw [← h, natDegree_X_pow_sub_one n] at this
    omega

/-- the identity at every point -/
theorem eval_of_quotient {n : ℕ} (N T : K[X]) (h : N = T * (X ^ n - 1)) (z : K) :
    N.eval z = T.eval z * (z ^ n - 1) := by
  rw [h]; simp

end quot

end Plonk.Complete
