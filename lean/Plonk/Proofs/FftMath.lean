/-
  C19 (FFT half), math level: the discrete Fourier transform over a field `K` with a primitive
  `n`-th root of unity `ω`: orthogonality, inversion, evaluation/interpolation of polynomials on
  the subgroup `⟨ω⟩` and on a coset `g·⟨ω⟩`, reduction modulo `X^n − 1`, and the radix-2 splitting
  identities used by the recursion and by the iterative transform.
-/
import Mathlib.RingTheory.RootsOfUnity.PrimitiveRoots
import Mathlib.Algebra.Polynomial.Div
import Mathlib.Algebra.Polynomial.Eval.Degree
import Mathlib.Tactic.Ring
import Mathlib.Tactic.FieldSimp
import Mathlib.Tactic.LinearCombination

namespace Plonk.FftMath
open Finset Polynomial

variable {K : Type*} [Field K]

/-! ### definitions -/

/-- DFT of an `ℕ`-indexed sequence, `n` terms (working form: `range` sums) -/
def dftN (ω : K) (n : ℕ) (v : ℕ → K) (i : ℕ) : K := ∑ j ∈ range n, v j * ω ^ (i * j)

/-- DFT of a vector indexed by `Fin n`: `dftF ω v i = Σ_j v j · ω^(i·j)` -/
def dftF {n : ℕ} (ω : K) (v : Fin n → K) (i : Fin n) : K :=
  ∑ j : Fin n, v j * ω ^ ((i : ℕ) * (j : ℕ))

/-- inverse DFT: `(1/n) · dftF ω⁻¹` -/
def idftF {n : ℕ} (ω : K) (v : Fin n → K) (i : Fin n) : K := (n : K)⁻¹ * dftF ω⁻¹ v i

/-- the polynomial with coefficient vector `v` -/
noncomputable def polyF {n : ℕ} (v : Fin n → K) : K[X] := ∑ j : Fin n, C (v j) * X ^ (j : ℕ)

/-- the polynomial with coefficients `v 0, …, v (n-1)` -/
noncomputable def polyN (n : ℕ) (v : ℕ → K) : K[X] := ∑ j ∈ range n, C (v j) * X ^ j

theorem dftF_eq_dftN {n : ℕ} (ω : K) (v : ℕ → K) (i : Fin n) :
    dftF ω (fun j : Fin n => v j) i = dftN ω n v i := by
  unfold dftF dftN
  exact Fin.sum_univ_eq_sum_range (fun j => v j * ω ^ ((i : ℕ) * j)) n

theorem polyF_eq_polyN {n : ℕ} (v : ℕ → K) : polyF (fun j : Fin n => v j) = polyN n v := by
  unfold polyF polyN
  exact Fin.sum_univ_eq_sum_range (fun j => C (v j) * X ^ j) n

/-! ### orthogonality -/

theorem geom_sum_eq_zero_of_pow_eq_one {ζ : K} {n : ℕ} (h1 : ζ ≠ 1) (hn : ζ ^ n = 1) :
    ∑ j ∈ range n, ζ ^ j = 0 := by
  have h := geom_sum_mul ζ n
  rw [hn, sub_self] at h
  rcases mul_eq_zero.mp h with h | h
  · exact h
  · exact absurd (sub_eq_zero.mp h) h1

/-- orthogonality of the characters `j ↦ ω^(i·j)` -/
theorem orthogonality {ω : K} {n : ℕ} (h : IsPrimitiveRoot ω n) {i i' : ℕ} (hi : i < n)
    (hi' : i' < n) :
    ∑ j ∈ range n, ω ^ (i * j) * ω⁻¹ ^ (i' * j) = if i = i' then (n : K) else 0 := by
  have hω : ω ≠ 0 := h.ne_zero (by omega)
  have hterm : ∀ j, ω ^ (i * j) * ω⁻¹ ^ (i' * j) = (ω ^ i * (ω ^ i')⁻¹) ^ j := by
    intro j; rw [pow_mul, pow_mul, inv_pow, ← mul_pow]
  simp only [hterm]
  split
  · next heq =>
    subst heq
    rw [mul_inv_cancel₀ (pow_ne_zero _ hω)]; simp
  · next hne =>
    apply geom_sum_eq_zero_of_pow_eq_one
    · intro hz
      apply hne
      apply h.pow_inj hi hi'
      have := congrArg (· * ω ^ i') hz
      simpa [mul_assoc, inv_mul_cancel₀ (pow_ne_zero i' hω)] using this
    · rw [mul_pow, inv_pow, ← pow_mul, ← pow_mul, mul_comm i, mul_comm i', pow_mul, pow_mul,
        h.pow_eq_one]; simp

/-- orthogonality, integer-exponent form: `Σ_j ω^(j·(i−i')) = n` if `i = i'`, else `0` -/
theorem orthogonality_zpow {ω : K} {n : ℕ} (h : IsPrimitiveRoot ω n) {i i' : ℕ} (hi : i < n)
    (hi' : i' < n) :
    ∑ j ∈ range n, ω ^ ((j : ℤ) * ((i : ℤ) - (i' : ℤ))) = if i = i' then (n : K) else 0 := by
  rw [← orthogonality h hi hi']
  have hω : ω ≠ 0 := h.ne_zero (by omega)
  apply sum_congr rfl
  intro j _
  rw [mul_sub, zpow_sub₀ hω, div_eq_mul_inv, inv_pow, ← zpow_natCast, ← zpow_natCast]
  push_cast
  rw [mul_comm (j : ℤ) i, mul_comm (j : ℤ) i']

theorem orthogonality_fin {ω : K} {n : ℕ} (h : IsPrimitiveRoot ω n) (i i' : Fin n) :
    ∑ j : Fin n, ω ^ ((i : ℕ) * (j : ℕ)) * ω⁻¹ ^ ((i' : ℕ) * (j : ℕ))
      = if i = i' then (n : K) else 0 := by
  rw [Fin.sum_univ_eq_sum_range (fun j => ω ^ ((i : ℕ) * j) * ω⁻¹ ^ ((i' : ℕ) * j)) n,
    orthogonality h i.2 i'.2]
  simp [Fin.ext_iff]

/-! ### inversion -/

/-- `dftF ω⁻¹ ∘ dftF ω = n ·` -/
theorem dftF_inv_dftF {ω : K} {n : ℕ} (h : IsPrimitiveRoot ω n) (v : Fin n → K) (i : Fin n) :
    dftF ω⁻¹ (dftF ω v) i = (n : K) * v i := by
  unfold dftF
  simp only [sum_mul]
  rw [sum_comm]
  have : ∀ l : Fin n, ∑ j : Fin n, v l * ω ^ ((j : ℕ) * (l : ℕ)) * ω⁻¹ ^ ((i : ℕ) * (j : ℕ))
      = v l * (if l = i then (n : K) else 0) := by
    intro l
    rw [← orthogonality_fin h l i, mul_sum]
    apply sum_congr rfl; intro j _
    rw [mul_comm (j : ℕ) (l : ℕ)]; ring
  simp only [this]
  simp [mul_comm]

theorem idft_dft {ω : K} {n : ℕ} (h : IsPrimitiveRoot ω n) (hn : (n : K) ≠ 0) (v : Fin n → K) :
    idftF ω (dftF ω v) = v := by
  funext i
  unfold idftF
  rw [dftF_inv_dftF h, ← mul_assoc, inv_mul_cancel₀ hn, one_mul]

theorem dftF_smul {n : ℕ} (ω c : K) (v : Fin n → K) (i : Fin n) :
    dftF ω (fun j => c * v j) i = c * dftF ω v i := by
  unfold dftF; rw [mul_sum]; apply sum_congr rfl; intro j _; ring

theorem dft_idft {ω : K} {n : ℕ} (h : IsPrimitiveRoot ω n) (hn : (n : K) ≠ 0) (v : Fin n → K) :
    dftF ω (idftF ω v) = v := by
  funext i
  have h2 : dftF ω (idftF ω v) i = (n : K)⁻¹ * dftF ω (dftF ω⁻¹ v) i := by
    unfold idftF; exact dftF_smul ω _ _ i
  have h3 := dftF_inv_dftF h.inv v i
  rw [inv_inv] at h3
  rw [h2, h3, ← mul_assoc, inv_mul_cancel₀ hn, one_mul]

/-! ### evaluation and interpolation -/

/-- the DFT is evaluation of the coefficient polynomial on the subgroup -/
theorem dftF_eq_eval {n : ℕ} (ω : K) (v : Fin n → K) (i : Fin n) :
    dftF ω v i = (polyF v).eval (ω ^ (i : ℕ)) := by
  unfold dftF polyF
  rw [eval_finsetSum]
  apply sum_congr rfl; intro j _
  simp [pow_mul]

theorem dftN_eq_eval (ω : K) (n : ℕ) (v : ℕ → K) (i : ℕ) :
    dftN ω n v i = (polyN n v).eval (ω ^ i) := by
  unfold dftN polyN
  rw [eval_finsetSum]
  apply sum_congr rfl; intro j _
  simp [pow_mul]

/-- the inverse DFT is interpolation: it recovers the coefficients from the values on the
    subgroup -/
theorem idftF_eval {ω : K} {n : ℕ} (h : IsPrimitiveRoot ω n) (hn : (n : K) ≠ 0)
    (v : Fin n → K) : idftF ω (fun i => (polyF v).eval (ω ^ (i : ℕ))) = v := by
  have : (fun i : Fin n => (polyF v).eval (ω ^ (i : ℕ))) = dftF ω v := by
    funext i; rw [dftF_eq_eval]
  rw [this, idft_dft h hn]

/-- uniqueness: the polynomial of the inverse DFT of `e` takes the values `e` on the subgroup -/
theorem eval_polyF_idftF {ω : K} {n : ℕ} (h : IsPrimitiveRoot ω n) (hn : (n : K) ≠ 0)
    (e : Fin n → K) (i : Fin n) : (polyF (idftF ω e)).eval (ω ^ (i : ℕ)) = e i := by
  rw [← dftF_eq_eval, dft_idft h hn]

/-! ### coset variants -/

/-- coset FFT: scaling coefficient `j` by `g^j` and transforming is evaluation at `g·ω^i` -/
theorem coset_dftF_eq_eval {n : ℕ} (ω g : K) (v : Fin n → K) (i : Fin n) :
    dftF ω (fun j => g ^ (j : ℕ) * v j) i = (polyF v).eval (g * ω ^ (i : ℕ)) := by
  unfold dftF polyF
  rw [eval_finsetSum]
  apply sum_congr rfl; intro j _
  simp [pow_mul, mul_pow]; ring

/-- coset inverse FFT: inverse transform, then scaling coefficient `j` by `g⁻ʲ`, recovers the
    coefficients from the values on the coset `g·⟨ω⟩` -/
theorem coset_idftF_eval {ω g : K} {n : ℕ} (h : IsPrimitiveRoot ω n) (hn : (n : K) ≠ 0)
    (hg : g ≠ 0) (v : Fin n → K) (j : Fin n) :
    g⁻¹ ^ (j : ℕ) * idftF ω (fun i => (polyF v).eval (g * ω ^ (i : ℕ))) j = v j := by
  have : (fun i : Fin n => (polyF v).eval (g * ω ^ (i : ℕ)))
      = dftF ω (fun j => g ^ (j : ℕ) * v j) := by
    funext i; rw [coset_dftF_eq_eval]
  rw [this, idft_dft h hn, inv_pow, ← mul_assoc, inv_mul_cancel₀ (pow_ne_zero _ hg), one_mul]

/-- coset transforms are mutually inverse -/
theorem coset_idft_dft {ω g : K} {n : ℕ} (h : IsPrimitiveRoot ω n) (hn : (n : K) ≠ 0)
    (hg : g ≠ 0) (v : Fin n → K) (j : Fin n) :
    g⁻¹ ^ (j : ℕ) * idftF ω (dftF ω (fun j => g ^ (j : ℕ) * v j)) j = v j := by
  rw [idft_dft h hn, inv_pow, ← mul_assoc, inv_mul_cancel₀ (pow_ne_zero _ hg), one_mul]

theorem coset_dft_idft {ω g : K} {n : ℕ} (h : IsPrimitiveRoot ω n) (hn : (n : K) ≠ 0)
    (hg : g ≠ 0) (e : Fin n → K) :
    dftF ω (fun j => g ^ (j : ℕ) * (g⁻¹ ^ (j : ℕ) * idftF ω e j)) = e := by
  have : (fun j : Fin n => g ^ (j : ℕ) * (g⁻¹ ^ (j : ℕ) * idftF ω e j)) = idftF ω e := by
    funext j
    rw [inv_pow, ← mul_assoc, mul_inv_cancel₀ (pow_ne_zero _ hg), one_mul]
  rw [this, dft_idft h hn]

/-! ### reduction modulo `X^n − 1` -/

/-- folding: coefficient `i + k·n` is added onto coefficient `i` (`L` blocks) -/
def foldN (n L : ℕ) (v : ℕ → K) (i : ℕ) : K := ∑ k ∈ range L, v (i + k * n)

theorem sum_range_mul_block {M : Type*} [AddCommMonoid M] (f : ℕ → M) (n L : ℕ) :
    ∑ j ∈ range (n * L), f j = ∑ k ∈ range L, ∑ i ∈ range n, f (i + k * n) := by
  induction L with
  | zero => simp
  | succ L ih =>
    rw [Nat.mul_succ, sum_range_add, ih, sum_range_succ]
    congr 1
    apply sum_congr rfl; intro i _
    rw [Nat.add_comm, Nat.mul_comm]

/-- folding does not change the values at points with `x^n = 1` -/
theorem eval_fold {x : K} {n : ℕ} (hx : x ^ n = 1) (L : ℕ) (v : ℕ → K) :
    ∑ i ∈ range n, foldN n L v i * x ^ i = ∑ j ∈ range (n * L), v j * x ^ j := by
  rw [sum_range_mul_block]
  unfold foldN
  simp only [sum_mul]
  rw [sum_comm]
  apply sum_congr rfl; intro k _
  apply sum_congr rfl; intro i _
  rw [pow_add, mul_comm k n, pow_mul, hx, one_pow, mul_one]

/-- `dft` of the folded vector = evaluation of the long polynomial on the subgroup -/
theorem dftN_fold {ω : K} {n : ℕ} (hω : ω ^ n = 1) (L : ℕ) (v : ℕ → K) (i : ℕ) :
    dftN ω n (foldN n L v) i = (polyN (n * L) v).eval (ω ^ i) := by
  rw [← dftN_eq_eval]
  unfold dftN
  have hx : (ω ^ i) ^ n = 1 := by rw [← pow_mul, mul_comm, pow_mul, hω, one_pow]
  have := eval_fold hx L v
  simpa [pow_mul] using this

/-- remainder modulo `X^n − 1` has the same values at points with `x^n = 1` -/
theorem eval_modByMonic_X_pow_sub_one {x : K} {n : ℕ} (hx : x ^ n = 1) (p : K[X]) :
    (p %ₘ (X ^ n - 1)).eval x = p.eval x := by
  conv_rhs => rw [← modByMonic_add_div p (X ^ n - 1)]
  simp [hx]

/-! ### radix-2 splitting -/

theorem sum_range_two_mul {M : Type*} [AddCommMonoid M] (f : ℕ → M) (h : ℕ) :
    ∑ j ∈ range (2 * h), f j = ∑ j ∈ range h, f (2 * j) + ∑ j ∈ range h, f (2 * j + 1) := by
  induction h with
  | zero => simp
  | succ h ih =>
    rw [Nat.mul_succ, sum_range_succ, sum_range_succ, ih, sum_range_succ, sum_range_succ]
    abel

/-- decimation in time -/
theorem dftN_two_mul (ω : K) (h : ℕ) (v : ℕ → K) (i : ℕ) :
    dftN ω (2 * h) v i
      = dftN (ω ^ 2) h (fun j => v (2 * j)) i + ω ^ i * dftN (ω ^ 2) h (fun j => v (2 * j + 1)) i := by
  unfold dftN
  rw [sum_range_two_mul, mul_sum]
  congr 1
  · apply sum_congr rfl; intro j _
    rw [← pow_mul]; congr 2; ring
  · apply sum_congr rfl; intro j _
    rw [← pow_mul, mul_left_comm, ← pow_add]; congr 2; ring

theorem dftN_add_period {ω : K} {n : ℕ} (hω : ω ^ n = 1) (v : ℕ → K) (i : ℕ) :
    dftN ω n v (i + n) = dftN ω n v i := by
  unfold dftN
  apply sum_congr rfl; intro j _
  rw [add_mul, pow_add, mul_comm n j, pow_mul ω j n, pow_right_comm, hω, one_pow, mul_one]

theorem pow_half_eq_neg_one {ω : K} {h : ℕ} (hh : 0 < h) (hω : IsPrimitiveRoot ω (2 * h)) :
    ω ^ h = -1 := by
  have : IsPrimitiveRoot (ω ^ h) 2 := by
    have := hω.pow_of_dvd (p := h) (by omega) ⟨2, by ring⟩
    rwa [Nat.mul_div_cancel _ hh] at this
  exact this.eq_neg_one_of_two_right

theorem isPrimitiveRoot_sq {ω : K} {h : ℕ} (hω : IsPrimitiveRoot ω (2 * h)) :
    IsPrimitiveRoot (ω ^ 2) h := by
  have := hω.pow_of_dvd (p := 2) (by omega) ⟨h, rfl⟩
  rwa [Nat.mul_div_cancel_left _ (by omega : 0 < 2)] at this

/-- the two butterfly outputs -/
theorem dftN_butterfly {ω : K} {h : ℕ} (hh : 0 < h) (hω : IsPrimitiveRoot ω (2 * h))
    (v : ℕ → K) (i : ℕ) :
    dftN ω (2 * h) v i
        = dftN (ω ^ 2) h (fun j => v (2 * j)) i + ω ^ i * dftN (ω ^ 2) h (fun j => v (2 * j + 1)) i
    ∧ dftN ω (2 * h) v (i + h)
        = dftN (ω ^ 2) h (fun j => v (2 * j)) i - ω ^ i * dftN (ω ^ 2) h (fun j => v (2 * j + 1)) i := by
  refine ⟨dftN_two_mul ω h v i, ?_⟩
  have h1 : (ω ^ 2) ^ h = 1 := (isPrimitiveRoot_sq hω).pow_eq_one
  rw [dftN_two_mul, dftN_add_period h1, dftN_add_period h1, pow_add, pow_half_eq_neg_one hh hω]
  ring

/-! ### inversion for `ℕ`-indexed sequences -/

theorem idftN_dftN {ω : K} {n : ℕ} (h : IsPrimitiveRoot ω n) (hn : (n : K) ≠ 0) (u : ℕ → K)
    {j : ℕ} (hj : j < n) : (n : K)⁻¹ * dftN ω⁻¹ n (fun i => dftN ω n u i) j = u j := by
  have h1 := congrFun (idft_dft h hn (fun k : Fin n => u k)) ⟨j, hj⟩
  unfold idftF at h1
  have h2 : dftF ω (fun k : Fin n => u k) = fun i : Fin n => dftN ω n u i := by
    funext i; exact dftF_eq_dftN ω u i
  rw [h2, dftF_eq_dftN ω⁻¹ (fun i => dftN ω n u i) ⟨j, hj⟩] at h1
  exact h1

theorem dftN_idftN {ω : K} {n : ℕ} (h : IsPrimitiveRoot ω n) (hn : (n : K) ≠ 0) (u : ℕ → K)
    {j : ℕ} (hj : j < n) : dftN ω n (fun i => (n : K)⁻¹ * dftN ω⁻¹ n u i) j = u j := by
  have h1 := congrFun (dft_idft h hn (fun k : Fin n => u k)) ⟨j, hj⟩
  have h2 : idftF ω (fun k : Fin n => u k) = fun i : Fin n => (n : K)⁻¹ * dftN ω⁻¹ n u i := by
    funext i; unfold idftF; rw [dftF_eq_dftN ω⁻¹ u i]
  rw [h2, dftF_eq_dftN ω (fun i => (n : K)⁻¹ * dftN ω⁻¹ n u i) ⟨j, hj⟩] at h1
  exact h1

/-- trailing zero coefficients do not change the polynomial -/
theorem polyN_extend {u : ℕ → K} {len N : ℕ} (hN : len ≤ N) (hu : ∀ j, len ≤ j → u j = 0) :
    polyN N u = polyN len u := by
  unfold polyN
  symm
  apply sum_subset (range_subset_range.mpr hN)
  intro j _ hj
  rw [hu j (by simpa using hj)]; simp

theorem polyN_congr {u v : ℕ → K} {n : ℕ} (h : ∀ j, j < n → u j = v j) : polyN n u = polyN n v := by
  unfold polyN
  apply sum_congr rfl; intro j hj
  rw [h j (mem_range.mp hj)]

/-- scaling coefficient `j` by `g^j` is substitution `X ↦ g·X` -/
theorem eval_polyN_scale (g x : K) (n : ℕ) (u : ℕ → K) :
    (polyN n (fun j => u j * g ^ j)).eval x = (polyN n u).eval (g * x) := by
  unfold polyN
  rw [eval_finsetSum, eval_finsetSum]
  apply sum_congr rfl; intro j _
  simp [mul_pow]; ring

end Plonk.FftMath
