/-
  C05 (prover exactness), algebraic half — bridge from the model's widget scalars
  (`rangeScalar`, `logicScalar`, `fixedScalar`, `varScalar` of `Model/Verifier.lean`, built from the
  row-semantics functions `rangeComps`, `logicComps`, `fixedComps`, `varComps` of `Model/Gate.lean`)
  to the field-level weighted sums of `QuotientMath/QuotientNum`, and from the challenge-weighted
  row expression to the model's Boolean row check `rowHolds` (`gate_sum_zero_iff`).
-/
import Plonk.Proofs.RowBridge
import Plonk.Proofs.LogicRows
import Plonk.Proofs.FixedBaseRows
import Plonk.Proofs.EdwardsRows
import Plonk.Proofs.QuotientNum
import Plonk.Model.Verifier

namespace Plonk.Quot
open Plonk

/-- the wire values of a row in the field -/
def wiresF (a b c d an bn dn : Nat) : Wires F :=
  ⟨toF a, toF b, toF c, toF d, toF an, toF bn, toF dn⟩

/-- the selector values of a gate in the field -/
def selF (g : Gate) : Sel F :=
  ⟨toF g.qm, toF g.ql, toF g.qr, toF g.qo, toF g.qf, toF g.qc, toF g.qarith, toF g.qrange,
    toF g.qlogic, toF g.qfixed, toF g.qvar⟩

theorem deltaF_eq_deltaR (x : F) : deltaF x = deltaR x := rfl

theorem toF_getD_map (l : List Nat) (j : Nat) : toF (l.getD j 0) = (l.map toF).getD j 0 := by
  rw [List.getD_eq_getElem?_getD, List.getD_eq_getElem?_getD, List.getElem?_map]
  cases l[j]? <;> simp

/-! ### components -/

theorem map_toF_rangeComps (a b c d an bn dn : Nat) :
    (rangeComps a b c d dn).map toF = rangeCompsR (wiresF a b c d an bn dn) := by
  simp [rangeComps, rangeCompsR, wiresF, deltaF_eq_deltaR]

theorem deltaXorAndF_eq_R (a b w c qc : F) : deltaXorAndF a b w c qc = deltaXorAndR a b w c qc := rfl

theorem map_toF_logicComps (qc a an b bn c d dn : Nat) :
    (logicComps qc a an b bn c d dn).map toF = logicCompsR (toF qc) (wiresF a b c d an bn dn) := by
  simp [logicComps, logicCompsR, wiresF, deltaF_eq_deltaR, deltaXorAndF_eq_R]

theorem map_toF_fixedComps (ql qr qc a an b bn c d dn : Nat) :
    (fixedComps ql qr qc a an b bn c d dn).map toF =
      fixedCompsR (toF ql) (toF qr) (toF qc) (wiresF a b c d an bn dn) := by
  simp only [fixedComps, fixedCompsR, wiresF, List.map_cons, List.map_nil, toF_fadd, toF_fmul,
    toF_fsub, toF_fsq, toF_one]
  rfl

theorem map_toF_varComps (a an b bn c d dn : Nat) :
    (varComps a an b bn c d dn).map toF = varCompsR (wiresF a b c d an bn dn) := by
  simp only [varComps, varCompsR, wiresF, List.map_cons, List.map_nil, toF_fadd, toF_fmul,
    toF_fsub]
  rfl

theorem rangeComps_lt (a b c d dn : Nat) : ∀ x ∈ rangeComps a b c d dn, x < R := by
  intro x hx
  simp only [rangeComps, List.mem_cons, List.mem_nil_iff, or_false] at hx
  rcases hx with h | h | h | h <;> (rw [h]; exact delta_lt _)

theorem logicComps_lt (qc a an b bn c d dn : Nat) : ∀ x ∈ logicComps qc a an b bn c d dn, x < R := by
  intro x hx
  simp only [logicComps, List.mem_cons, List.mem_nil_iff, or_false] at hx
  rcases hx with h | h | h | h | h <;> rw [h]
  · exact delta_lt _
  · exact delta_lt _
  · exact delta_lt _
  · exact fsub_lt _ _
  · exact deltaXorAnd_lt _ _ _ _ _

/-! ### the four widget scalars are weighted sums -/

theorem toF_rangeScalar (sep : Nat) (e : Evals) :
    toF (rangeScalar sep e) =
      wsum (rangeCompsR (wiresF e.a e.b e.c e.d e.aw e.bw e.dw)) (toF sep) := by
  simp only [rangeScalar, toF_fmul, toF_fadd, toF_fsq, toF_getD_map,
    map_toF_rangeComps e.a e.b e.c e.d e.aw e.bw e.dw]
  simp only [rangeCompsR, wsum, hornerSq, List.getD_cons_zero, List.getD_cons_succ]
  ring

theorem toF_logicScalar (sep : Nat) (e : Evals) :
    toF (logicScalar sep e) =
      wsum (logicCompsR (toF e.qc) (wiresF e.a e.b e.c e.d e.aw e.bw e.dw)) (toF sep) := by
  simp only [logicScalar, toF_fmul, toF_fadd, toF_fsq, toF_getD_map, map_toF_logicComps]
  simp only [logicCompsR, wsum, hornerSq, List.getD_cons_zero, List.getD_cons_succ]
  ring

theorem toF_fixedScalar (sep : Nat) (e : Evals) :
    toF (fixedScalar sep e) =
      wsum (fixedCompsR (toF e.ql) (toF e.qr) (toF e.qc) (wiresF e.a e.b e.c e.d e.aw e.bw e.dw))
        (toF sep) := by
  simp only [fixedScalar, toF_fmul, toF_fadd, toF_fsq, toF_getD_map, map_toF_fixedComps]
  simp only [fixedCompsR, wsum, hornerSq, List.getD_cons_zero, List.getD_cons_succ]
  ring

theorem toF_varScalar (sep : Nat) (e : Evals) :
    toF (varScalar sep e) = wsum (varCompsR (wiresF e.a e.b e.c e.d e.aw e.bw e.dw)) (toF sep) := by
  simp only [varScalar, toF_fmul, toF_fadd, toF_fsq, toF_getD_map, map_toF_varComps]
  simp only [varCompsR, wsum, hornerSq, List.getD_cons_zero, List.getD_cons_succ]
  ring

/-! ### from the weighted row expression to `rowHolds` -/

/-- a selector-guarded widget check of `rowHolds` in the field -/
theorem widget_iff (q : Nat) (hq : q < R) (cs : List Nat) (hcs : ∀ x ∈ cs, x < R) :
    (q == 0 || allZero cs) = true ↔ ∀ c ∈ cs.map toF, toF q * c = 0 := by
  rw [Bool.or_eq_true, beq_zero_iff hq, allZero_iff cs hcs]
  constructor
  · rintro (h | h) c hc
    · rw [h, zero_mul]
    · obtain ⟨x, hx, rfl⟩ := List.mem_map.mp hc
      rw [h x hx, mul_zero]
  · intro h
    by_cases h0 : toF q = 0
    · exact Or.inl h0
    · right
      intro x hx
      exact (mul_eq_zero.mp (h _ (List.mem_map.mpr ⟨x, hx, rfl⟩))).resolve_left h0

/-- selectors that `rowHolds` tests against zero are canonical representatives -/
structure SelReduced (g : Gate) : Prop where
  qrange : g.qrange < R
  qlogic : g.qlogic < R
  qfixed : g.qfixed < R
  qvar : g.qvar < R

theorem arithF_eq (g : Gate) (a b c d an bn dn pi : Nat) :
    arithF g (toF a) (toF b) (toF c) (toF d) (toF pi) =
      arithR (selF g) (wiresF a b c d an bn dn) + toF pi := rfl

/-- `rowHolds` in the field: the arithmetic identity (with the public input) and, per widget,
    selector times component `= 0` for every component -/
theorem rowHolds_iff_field (g : Gate) (hg : SelReduced g) (a b c d an bn dn pi : Nat) :
    rowHolds g a b c d an bn dn pi = true ↔
      arithR (selF g) (wiresF a b c d an bn dn) + toF pi = 0 ∧
      (∀ x ∈ rangeCompsR (wiresF a b c d an bn dn), toF g.qrange * x = 0) ∧
      (∀ x ∈ logicCompsR (toF g.qc) (wiresF a b c d an bn dn), toF g.qlogic * x = 0) ∧
      (∀ x ∈ fixedCompsR (toF g.ql) (toF g.qr) (toF g.qc) (wiresF a b c d an bn dn),
        toF g.qfixed * x = 0) ∧
      (∀ x ∈ varCompsR (wiresF a b c d an bn dn), toF g.qvar * x = 0) := by
  unfold rowHolds
  rw [Bool.and_eq_true, Bool.and_eq_true, Bool.and_eq_true, Bool.and_eq_true,
    arithVal_beq_zero, arithF_eq g a b c d an bn dn pi,
    widget_iff _ hg.qrange _ (rangeComps_lt a b c d dn),
    widget_iff _ hg.qlogic _ (logicComps_lt g.qc a an b bn c d dn),
    widget_iff _ hg.qfixed _ (fixedComps_lt g.ql g.qr g.qc a an b bn c d dn),
    widget_iff _ hg.qvar _ (varComps_lt a an b bn c d dn),
    map_toF_rangeComps a b c d an bn dn, map_toF_logicComps, map_toF_fixedComps, map_toF_varComps]
  tauto

theorem length_rangeCompsR (w : Wires F) : (rangeCompsR w).length = 4 := rfl
theorem length_logicCompsR (qc : F) (w : Wires F) : (logicCompsR qc w).length = 5 := rfl
theorem length_fixedCompsR (ql qr qc : F) (w : Wires F) : (fixedCompsR ql qr qc w).length = 4 := rfl
theorem length_varCompsR (w : Wires F) : (varCompsR w).length = 3 := rfl

/-- completeness direction: a row that holds makes the weighted row expression vanish for every
    choice of the four separation challenges -/
theorem gate_sum_zero_of_rowHolds (g : Gate) (hg : SelReduced g) (a b c d an bn dn pi : Nat)
    (h : rowHolds g a b c d an bn dn pi = true) (s : Seps F) :
    gateSumR (selF g) (wiresF a b c d an bn dn) (toF pi) s = 0 := by
  obtain ⟨h0, h1, h2, h3, h4⟩ := (rowHolds_iff_field g hg a b c d an bn dn pi).mp h
  have z (q : F) (cs : List F) (hz : ∀ x ∈ cs, q * x = 0) (t : F) : q * wsum cs t = 0 := by
    rw [← wsum_map_mul]
    apply wsum_of_all_zero
    intro x hx
    obtain ⟨y, hy, rfl⟩ := List.mem_map.mp hx
    exact hz y hy
  unfold gateSumR
  have e1 : (selF g).qrange * wsum (rangeCompsR (wiresF a b c d an bn dn)) s.rs = 0 := z _ _ h1 s.rs
  have e2 : (selF g).qlogic * wsum (logicCompsR (selF g).qc (wiresF a b c d an bn dn)) s.ls = 0 :=
    z _ _ h2 s.ls
  have e3 : (selF g).qfixed *
      wsum (fixedCompsR (selF g).ql (selF g).qr (selF g).qc (wiresF a b c d an bn dn)) s.fs = 0 :=
    z _ _ h3 s.fs
  have e4 : (selF g).qvar * wsum (varCompsR (wiresF a b c d an bn dn)) s.vs = 0 := z _ _ h4 s.vs
  rw [e1, e2, e3, e4]
  linear_combination h0

/-- soundness direction: if the weighted row expression vanishes on a grid of separation
    challenges with more than `7 / 9 / 7 / 5` values per axis (the degrees of the range / logic /
    fixed-base / variable-base sums in their challenge), the row holds -/
theorem rowHolds_of_gate_sum_zero (g : Gate) (hg : SelReduced g) (a b c d an bn dn pi : Nat)
    (Sr Sl Sf Sv : Finset F) (hr : 7 < Sr.card) (hl : 9 < Sl.card) (hf : 7 < Sf.card)
    (hv : 5 < Sv.card)
    (h : ∀ ρ ∈ Sr, ∀ l ∈ Sl, ∀ φ ∈ Sf, ∀ ν ∈ Sv,
      gateSumR (selF g) (wiresF a b c d an bn dn) (toF pi) ⟨ρ, l, φ, ν⟩ = 0) :
    rowHolds g a b c d an bn dn pi = true := by
  rw [rowHolds_iff_field g hg]
  have := sum4_grid_zero (arithR (selF g) (wiresF a b c d an bn dn) + toF pi)
    (toF g.qrange) (toF g.qlogic) (toF g.qfixed) (toF g.qvar)
    (rangeCompsR (wiresF a b c d an bn dn)) (logicCompsR (toF g.qc) (wiresF a b c d an bn dn))
    (fixedCompsR (toF g.ql) (toF g.qr) (toF g.qc) (wiresF a b c d an bn dn))
    (varCompsR (wiresF a b c d an bn dn)) Sr Sl Sf Sv (by omega) (by omega) (by omega) (by omega)
    (by rw [length_rangeCompsR]; omega) (by rw [length_logicCompsR]; omega)
    (by rw [length_fixedCompsR]; omega) (by rw [length_varCompsR]; omega)
    (fun ρ hρ l hl φ hφ ν hν => by
      have := h ρ hρ l hl φ hφ ν hν
      unfold gateSumR at this
      simp only [selF] at this ⊢
      linear_combination this)
  exact this

/-- **The weighted row expression and the row check.** For a grid of separation challenges with
    more than `7 / 9 / 7 / 5` values per axis:
    `arith + q_range·range(ρ) + q_logic·logic(λ) + q_fixed·fixed(φ) + q_var·var(ν) + PI` vanishes on
    the whole grid iff `rowHolds` is true (and then it vanishes for *all* challenges). -/
theorem gate_sum_zero_iff (g : Gate) (hg : SelReduced g) (a b c d an bn dn pi : Nat)
    (Sr Sl Sf Sv : Finset F) (hr : 7 < Sr.card) (hl : 9 < Sl.card) (hf : 7 < Sf.card)
    (hv : 5 < Sv.card) :
    (∀ ρ ∈ Sr, ∀ l ∈ Sl, ∀ φ ∈ Sf, ∀ ν ∈ Sv,
      gateSumR (selF g) (wiresF a b c d an bn dn) (toF pi) ⟨ρ, l, φ, ν⟩ = 0) ↔
    rowHolds g a b c d an bn dn pi = true :=
  ⟨rowHolds_of_gate_sum_zero g hg a b c d an bn dn pi Sr Sl Sf Sv hr hl hf hv,
   fun h ρ _ l _ φ _ ν _ => gate_sum_zero_of_rowHolds g hg a b c d an bn dn pi h ⟨ρ, l, φ, ν⟩⟩

/-- The explicit bad set: if the row does **not** hold, then for one of the four separation
    challenges (the one of a failing widget) and any values of the other three, the weighted row
    expression vanishes for at most `7 / 9 / 7 / 5` values of that challenge — or it is a non-zero
    constant (arithmetic identity fails and no widget component is selected). -/
theorem gate_sum_bad_set (g : Gate) (hg : SelReduced g) (a b c d an bn dn pi : Nat)
    (h : rowHolds g a b c d an bn dn pi = false) :
    let E := fun s : Seps F => gateSumR (selF g) (wiresF a b c d an bn dn) (toF pi) s
    (∀ s, E s ≠ 0) ∨
    (∀ l φ ν, ∀ S : Finset F, (∀ ρ ∈ S, E ⟨ρ, l, φ, ν⟩ = 0) → S.card ≤ 7) ∨
    (∀ ρ φ ν, ∀ S : Finset F, (∀ l ∈ S, E ⟨ρ, l, φ, ν⟩ = 0) → S.card ≤ 9) ∨
    (∀ ρ l ν, ∀ S : Finset F, (∀ φ ∈ S, E ⟨ρ, l, φ, ν⟩ = 0) → S.card ≤ 7) ∨
    (∀ ρ l φ, ∀ S : Finset F, (∀ ν ∈ S, E ⟨ρ, l, φ, ν⟩ = 0) → S.card ≤ 5) := by
  intro E
  have hnot : ¬ rowHolds g a b c d an bn dn pi = true := by rw [h]; simp
  rw [rowHolds_iff_field g hg] at hnot
  -- one axis: a failing component gives the bound on that axis
  have axis (a0 q : F) (cs : List F) (hne : ¬ ∀ x ∈ cs, q * x = 0) (S : Finset F)
      (hS : ∀ t ∈ S, a0 + q * wsum cs t = 0) : S.card ≤ 2 * cs.length - 1 := by
    by_contra hc
    apply hne
    have := (const_add_wsum_zero a0 (cs.map (q * ·)) S (by omega) (by simp; omega)
      (fun t ht => by rw [wsum_map_mul]; exact hS t ht)).2
    intro x hx
    exact this _ (List.mem_map.mpr ⟨x, hx, rfl⟩)
  by_cases h1 : ∀ x ∈ rangeCompsR (wiresF a b c d an bn dn), toF g.qrange * x = 0
  · by_cases h2 : ∀ x ∈ logicCompsR (toF g.qc) (wiresF a b c d an bn dn), toF g.qlogic * x = 0
    · by_cases h3 : ∀ x ∈ fixedCompsR (toF g.ql) (toF g.qr) (toF g.qc) (wiresF a b c d an bn dn),
          toF g.qfixed * x = 0
      · by_cases h4 : ∀ x ∈ varCompsR (wiresF a b c d an bn dn), toF g.qvar * x = 0
        · left
          intro s hs
          apply hnot
          refine ⟨?_, h1, h2, h3, h4⟩
          have z (q : F) (cs : List F) (hz : ∀ x ∈ cs, q * x = 0) (t : F) : q * wsum cs t = 0 := by
            rw [← wsum_map_mul]
            apply wsum_of_all_zero
            intro x hx
            obtain ⟨y, hy, rfl⟩ := List.mem_map.mp hx
            exact hz y hy
          have e1 : (selF g).qrange * wsum (rangeCompsR (wiresF a b c d an bn dn)) s.rs = 0 :=
            z _ _ h1 s.rs
          have e2 : (selF g).qlogic *
              wsum (logicCompsR (selF g).qc (wiresF a b c d an bn dn)) s.ls = 0 := z _ _ h2 s.ls
          have e3 : (selF g).qfixed *
              wsum (fixedCompsR (selF g).ql (selF g).qr (selF g).qc (wiresF a b c d an bn dn)) s.fs
                = 0 := z _ _ h3 s.fs
          have e4 : (selF g).qvar * wsum (varCompsR (wiresF a b c d an bn dn)) s.vs = 0 :=
            z _ _ h4 s.vs
          simp only [E, gateSumR] at hs
          rw [e1, e2, e3, e4] at hs
          linear_combination hs
        · right; right; right; right
          intro ρ l φ S hS
          have := axis (E ⟨ρ, l, φ, 0⟩) _ _ h4 S (fun t ht => by
            have := hS t ht
            simp only [E, gateSumR, selF, wsum, zero_mul, mul_zero, add_zero] at this ⊢
            linear_combination this)
          rw [length_varCompsR] at this; omega
      · right; right; right; left
        intro ρ l ν S hS
        have := axis (E ⟨ρ, l, 0, ν⟩) _ _ h3 S (fun t ht => by
          have := hS t ht
          simp only [E, gateSumR, selF, wsum, zero_mul, mul_zero, add_zero] at this ⊢
          linear_combination this)
        rw [length_fixedCompsR] at this; omega
    · right; right; left
      intro ρ φ ν S hS
      have := axis (E ⟨ρ, 0, φ, ν⟩) _ _ h2 S (fun t ht => by
        have := hS t ht
        simp only [E, gateSumR, selF, wsum, zero_mul, mul_zero, add_zero] at this ⊢
        linear_combination this)
      rw [length_logicCompsR] at this; omega
  · right; left
    intro l φ ν S hS
    have := axis (E ⟨0, l, φ, ν⟩) _ _ h1 S (fun t ht => by
      have := hS t ht
      simp only [E, gateSumR, selF, wsum, zero_mul, mul_zero, add_zero] at this ⊢
      linear_combination this)
    rw [length_rangeCompsR] at this; omega

end Plonk.Quot
