/-
  C05 (permutation half), part 1: the four cosets `H, K1·H, K2·H, K3·H` of the evaluation domain
  are pairwise disjoint, so `(col, i) ↦ K_col · ω^i` is injective on `{0..3} × {0..n-1}`.
-/
import Mathlib.RingTheory.RootsOfUnity.PrimitiveRoots
import Plonk.Model.Prover
import Plonk.Proofs.FieldBridge

namespace Plonk
namespace Perm

/-- the `2^32`-th powers of the coset representatives `1, K1, K2, K3` are pairwise different
    (kernel computation) -/
theorem kOf_pow_distinct :
    ∀ a, a < 4 → ∀ b, b < 4 → fpow (kOf a) (2 ^ 32) = fpow (kOf b) (2 ^ 32) → a = b := by
  decide +kernel

theorem powModF_lt' (m : Nat) (hm : 0 < m) : ∀ (fuel b e acc : Nat), acc < m →
    powModF fuel b e m acc < m := by
  intro fuel
  induction fuel with
  | zero => intro b e acc h; simpa [powModF] using h
  | succ f ih =>
    intro b e acc h
    unfold powModF
    split
    · exact h
    · apply ih
      split
      · exact Nat.mod_lt _ hm
      · exact h

theorem fpow_lt' (a e : Nat) : fpow a e < R := powModF_lt' R R_pos _ _ _ _ (Nat.mod_lt _ R_pos)

theorem kOf_lt (a : Nat) : kOf a < R := by
  unfold kOf; split <;> decide +kernel

theorem kOf_ne_zero (a : Nat) : toF (kOf a) ≠ 0 := by
  rw [Ne, toF_eq_zero_of_lt (kOf_lt a)]
  unfold kOf; split <;> decide

/-- a power of a `2^k`-th root of unity (`k ≤ 32`) is killed by the exponent `2^32` -/
theorem pow_two32_eq_one {ω : F} {k : Nat} (hk : k ≤ 32) (hω : ω ^ (2 ^ k) = 1) (i : Nat) :
    (ω ^ i) ^ (2 ^ 32) = 1 := by
  have e : (2:Nat) ^ 32 = 2 ^ k * 2 ^ (32 - k) := by rw [← Nat.pow_add]; congr 1; omega
  rw [← pow_mul, Nat.mul_comm, pow_mul, e, pow_mul, hω, one_pow, one_pow]

/-- **the cosets are disjoint** (field level): `K_a ω^i = K_b ω^j` forces `a = b` and
    `ω^i = ω^j` -/
theorem coset_disjoint {ω : F} {k : Nat} (hk : k ≤ 32) (hω : ω ^ (2 ^ k) = 1)
    {a b : Nat} (ha : a < 4) (hb : b < 4) {i j : Nat}
    (h : toF (kOf a) * ω ^ i = toF (kOf b) * ω ^ j) : a = b ∧ ω ^ i = ω ^ j := by
  have h2 := congrArg (· ^ (2 ^ 32)) h
  simp only [mul_pow, pow_two32_eq_one hk hω, mul_one] at h2
  have hlt : (2:Nat) ^ 32 < 2 ^ 256 := Nat.pow_lt_pow_right (by omega) (by omega)
  rw [← toF_fpow _ _ hlt, ← toF_fpow _ _ hlt,
    toF_inj_of_lt (fpow_lt' _ _) (fpow_lt' _ _)] at h2
  have hab := kOf_pow_distinct a ha b hb h2
  subst hab
  exact ⟨rfl, mul_left_cancel₀ (kOf_ne_zero a) h⟩

/-- **the cosets are disjoint**: for a primitive `n`-th root of unity, `n = 2^k`, `k ≤ 32`,
    `K_a ω^i = K_b ω^j → a = b ∧ i ≡ j (mod n)` -/
theorem coset_disjoint_mod {ω : F} {k : Nat} (hk : k ≤ 32) (hω : IsPrimitiveRoot ω (2 ^ k))
    {a b : Nat} (ha : a < 4) (hb : b < 4) {i j : Nat}
    (h : toF (kOf a) * ω ^ i = toF (kOf b) * ω ^ j) : a = b ∧ i ≡ j [MOD 2 ^ k] := by
  obtain ⟨hab, hij⟩ := coset_disjoint hk hω.pow_eq_one ha hb h
  have hfin : IsOfFinOrder ω := hω.isOfFinOrder (Nat.pos_iff_ne_zero.mp (Nat.pow_pos (by omega)))
  have := hfin.pow_eq_pow_iff_modEq.mp hij
  rw [← hω.eq_orderOf] at this
  exact ⟨hab, this⟩

/-- the identity permutation's field label of a wire position -/
noncomputable def idLabel (ω : F) (p : Nat × Nat) : F := toF (kOf p.1) * ω ^ p.2

/-- `(col, i) ↦ K_col · ω^i` is injective on `{0..3} × {0..n-1}` -/
theorem idLabel_injOn {ω : F} {k : Nat} (hk : k ≤ 32) (hω : IsPrimitiveRoot ω (2 ^ k))
    {p q : Nat × Nat} (hp1 : p.1 < 4) (hp2 : p.2 < 2 ^ k) (hq1 : q.1 < 4) (hq2 : q.2 < 2 ^ k)
    (h : idLabel ω p = idLabel ω q) : p = q := by
  obtain ⟨h1, h2⟩ := coset_disjoint hk hω.pow_eq_one hp1 hq1 h
  exact Prod.ext h1 (hω.pow_inj hp2 hq2 h2)

/-- the same for the model's `Nat` computation `fmul (kOf col) root` where `root` represents
    `ω^i` -/
theorem fmul_kOf_inj {ω : F} {k : Nat} (hk : k ≤ 32) (hω : IsPrimitiveRoot ω (2 ^ k))
    {a b i j ri rj : Nat} (ha : a < 4) (hb : b < 4) (hi : i < 2 ^ k) (hj : j < 2 ^ k)
    (hri : toF ri = ω ^ i) (hrj : toF rj = ω ^ j)
    (h : fmul (kOf a) ri = fmul (kOf b) rj) : a = b ∧ i = j := by
  have h' : toF (kOf a) * ω ^ i = toF (kOf b) * ω ^ j := by
    rw [← hri, ← hrj, ← toF_fmul, ← toF_fmul, h]
  obtain ⟨h1, h2⟩ := coset_disjoint hk hω.pow_eq_one ha hb h'
  exact ⟨h1, hω.pow_inj hi hj h2⟩

end Perm
end Plonk
