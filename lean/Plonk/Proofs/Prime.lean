/-
  `R` (the BLS12-381 scalar modulus) is prime: Pratt certificate, witness 7, evaluated by the kernel.
-/
import Mathlib.NumberTheory.LucasPrimality
import Mathlib.Tactic.NormNum.Prime
import Plonk.Model.Field

namespace Plonk

theorem powModF_spec (fuel b e m acc : Nat) (h : e < 2^fuel) :
    powModF fuel b e m acc % m = acc * b^e % m := by
  induction fuel generalizing b e acc with
  | zero =>
    have : e = 0 := by simpa using h
    subst this; simp [powModF]
  | succ n ih =>
    unfold powModF
    split
    · next he => subst he; simp
    · next he =>
      have h2 : e / 2 < 2^n := by
        rw [Nat.div_lt_iff_lt_mul (by norm_num)]; rw [pow_succ] at h; exact h
      rw [ih _ _ _ h2]
      have hb : (b*b % m)^(e/2) % m = (b*b)^(e/2) % m := by
        rw [Nat.pow_mod (b*b % m), Nat.mod_mod, ← Nat.pow_mod]
      split
      · next hodd =>
        have : e = 2*(e/2) + 1 := by omega
        conv_rhs => rw [this, pow_succ, pow_mul]
        rw [Nat.mul_mod, hb, ← Nat.mul_mod, Nat.mul_mod (acc*b % m), Nat.mod_mod, ← Nat.mul_mod]
        rw [sq]; ring_nf
      · next heven =>
        have : e = 2*(e/2) := by omega
        conv_rhs => rw [this, pow_mul]
        rw [Nat.mul_mod, hb, ← Nat.mul_mod, sq]

theorem one_mod_R : 1 % R = 1 := by decide +kernel

theorem zmod_pow_eq_one_of (a e : Nat) (h : powModF 256 a e R 1 % R = 1) (he : e < 2^256) :
    ((a : ZMod R))^e = 1 := by
  rw [powModF_spec _ _ _ _ _ he] at h
  have : ((a^e : ℕ) : ZMod R) = ((1:ℕ) : ZMod R) := by
    rw [ZMod.natCast_eq_natCast_iff]; unfold Nat.ModEq; rw [one_mod_R]; simpa using h
  simpa using this

theorem zmod_pow_ne_one_of (a e : Nat) (h : powModF 256 a e R 1 % R ≠ 1) (he : e < 2^256) :
    ((a : ZMod R))^e ≠ 1 := by
  rw [powModF_spec _ _ _ _ _ he] at h
  intro hc
  apply h
  have : ((a^e : ℕ) : ZMod R) = ((1:ℕ) : ZMod R) := by simpa using hc
  rw [ZMod.natCast_eq_natCast_iff] at this
  unfold Nat.ModEq at this; rw [one_mod_R] at this; simpa using this

theorem R_sub_one_factor : R - 1 = 2^32 * 3 * 11 * 19 * 10177 * 125527 * 859267 * 906349^2 * 2508409 * 2529403 * 52437899 * 254760293^2 := by
  decide +kernel

theorem R_prime : Nat.Prime R := by
  apply lucas_primality R ((7 : ℕ) : ZMod R)
  · exact zmod_pow_eq_one_of 7 (R-1) (by decide +kernel) (by decide +kernel)
  · intro q hq hdvd
    rw [R_sub_one_factor] at hdvd
    have key : q = 2 ∨ q = 3 ∨ q = 11 ∨ q = 19 ∨ q = 10177 ∨ q = 125527 ∨ q = 859267 ∨ q = 906349
        ∨ q = 2508409 ∨ q = 2529403 ∨ q = 52437899 ∨ q = 254760293 := by
      have p2 : Nat.Prime 2 := by norm_num
      have p3 : Nat.Prime 3 := by norm_num
      have p11 : Nat.Prime 11 := by norm_num
      have p19 : Nat.Prime 19 := by norm_num
      have p10177 : Nat.Prime 10177 := by norm_num
      have p125527 : Nat.Prime 125527 := by norm_num
      have p859267 : Nat.Prime 859267 := by norm_num
      have p906349 : Nat.Prime 906349 := by norm_num
      have p2508409 : Nat.Prime 2508409 := by norm_num
      have p2529403 : Nat.Prime 2529403 := by norm_num
      have p52437899 : Nat.Prime 52437899 := by norm_num
      have p254760293 : Nat.Prime 254760293 := by norm_num
      simp only [Nat.Prime.dvd_mul hq] at hdvd
      rcases hdvd with ((((((((((( h | h) | h) | h) | h) | h) | h) | h) | h) | h) | h) | h)
      · left; exact (Nat.prime_dvd_prime_iff_eq hq p2).mp (hq.dvd_of_dvd_pow h)
      · right; left; exact (Nat.prime_dvd_prime_iff_eq hq p3).mp h
      · right; right; left; exact (Nat.prime_dvd_prime_iff_eq hq p11).mp h
      · right; right; right; left; exact (Nat.prime_dvd_prime_iff_eq hq p19).mp h
      · right; right; right; right; left; exact (Nat.prime_dvd_prime_iff_eq hq p10177).mp h
      · right; right; right; right; right; left; exact (Nat.prime_dvd_prime_iff_eq hq p125527).mp h
      · right; right; right; right; right; right; left; exact (Nat.prime_dvd_prime_iff_eq hq p859267).mp h
      · right; right; right; right; right; right; right; left
        exact (Nat.prime_dvd_prime_iff_eq hq p906349).mp (hq.dvd_of_dvd_pow h)
      · right; right; right; right; right; right; right; right; left
        exact (Nat.prime_dvd_prime_iff_eq hq p2508409).mp h
      · right; right; right; right; right; right; right; right; right; left
        exact (Nat.prime_dvd_prime_iff_eq hq p2529403).mp h
      · right; right; right; right; right; right; right; right; right; right; left
        exact (Nat.prime_dvd_prime_iff_eq hq p52437899).mp h
      · right; right; right; right; right; right; right; right; right; right; right
        exact (Nat.prime_dvd_prime_iff_eq hq p254760293).mp (hq.dvd_of_dvd_pow h)
    rcases key with h | h | h | h | h | h | h | h | h | h | h | h <;> subst h <;>
      exact zmod_pow_ne_one_of 7 _ (by decide +kernel) (by decide +kernel)

instance : Fact (Nat.Prime R) := ⟨R_prime⟩

end Plonk
