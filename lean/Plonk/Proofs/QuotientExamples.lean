/-
  C05 (prover exactness), algebraic half — concrete data for the non-vacuity examples of
  `Plonk/Props/C05.lean`.
-/
import Plonk.Proofs.QuotientExact

namespace Plonk.Quot
open Plonk Polynomial

/-- the identity permutation on the domain `d`, as sigma values -/
def exSig (d : Domain) : List (List Nat) :=
  [d.elements, d.elements.map (fmul Generated.K1), d.elements.map (fmul Generated.K2),
   d.elements.map (fmul Generated.K3)]

/-- an addition gate `a + b − c = 0` on every row -/
def exG : Nat → Gate := fun _ => { ql := 1, qr := 1, qo := R - 1, qarith := 1 }

theorem exSig_length (d : Domain) : ∀ j < 4, ((exSig d).getD j []).length = d.size := by
  intro j hj
  interval_cases j <;> simp [exSig, PolyC19.elements_length]

/-- the concrete instance of the examples: two rows `1 + 2 = 3`, `2 + 3 = 5`, identity permutation,
    `β = 5`, `γ = 9`: `permVec` succeeds -/
theorem ex_permVec : ∃ d z, Domain.new? 2 = some d ∧ d.size = 2 ∧
    permVec d.size d.elements [1, 2] [2, 3] [3, 5] [0, 0] (exSig d) 5 9 = some z := by
  have h : ((Domain.new? 2).bind fun d =>
      permVec d.size d.elements [1, 2] [2, 3] [3, 5] [0, 0] (exSig d) 5 9).isSome = true := by
    decide +kernel
  obtain ⟨d, hd, hs⟩ := exists_domain_two
  rw [hd, Option.bind_some] at h
  obtain ⟨z, hz⟩ := Option.isSome_iff_exists.mp h
  exact ⟨d, z, hd, hs, hz⟩

/-- a concrete instance for the next example: constant wire `a = 4`, constant accumulator `z = 1`,
    everything else zero, read at the point `x = 2` of a "domain" of size `n = 2` -/
noncomputable def exP : ProverPolys F :=
  { Q := ⟨0, 0, 0, 0, 0, 0, 0, 0, 0, 0, 0⟩, a := C 4, b := 0, c := 0, d := 0, pi := 0,
    s1 := 0, s2 := 0, s3 := 0, s4 := 0, z := C 1 }

theorem three_ne_zero_F : (3 : F) ≠ 0 := by
  have h : toF 3 ≠ 0 := by
    rw [Ne, toF_eq_zero_of_lt (by have := ten_lt_R; omega)]; decide
  simpa using h

end Plonk.Quot
