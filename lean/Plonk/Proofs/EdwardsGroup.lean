/-
  Group-level consequences of the twisted Edwards addition law on JubJub.

  Proved outright (pure algebra): commutativity, neutral element, inverses, closure of `smulF`
  and — via `EdwardsAssoc.lean` — associativity.  Hence the curve points form a genuine
  `AddCommGroup` (`CurvePt`), `smulF`/`zsmulF` are its `nsmul`/`zsmul`, and the MSB-first
  double-and-add ladder computes the scalar multiple (`ladder_is_scalar_mul`), all WITHOUT any
  hypothesis.  NOT proved: the group order `8·r_J`; it is the only field of the hypothesis
  structure `JubjubGroupFacts` (a `Prop`-valued structure: an explicit hypothesis, nothing is
  postulated), used only for `[r_J]([8]Q) = O`.
-/
import Mathlib.Algebra.Group.Basic
import Plonk.Proofs.EdwardsAssoc
import Plonk.Generated

namespace Plonk
open Plonk

/-! ### Commutativity, neutral element, inverses -/

theorem addF_comm (p q : PtF) : addF p q = addF q p := by
  unfold addF
  apply Prod.ext <;> simp only <;> ring

theorem addF_id (p : PtF) : addF p idF = p := by
  unfold addF idF; simp

theorem id_addF (p : PtF) : addF idF p = p := by
  rw [addF_comm, addF_id]

theorem negF_negF (p : PtF) : negF (negF p) = p := by
  unfold negF; simp

theorem negF_id : negF idF = idF := by unfold negF idF; simp

/-- inverses: `P + (−P) = O` on the curve (uses completeness for the denominators) -/
theorem addF_neg {p : PtF} (hp : OnCurveP p) : addF p (negF p) = idF := by
  obtain ⟨hA, hB⟩ := add_completeP hp (neg_on_curveP hp)
  unfold OnCurveP OnCurveF at hp
  unfold negF at hA hB
  simp only at hA hB
  unfold addF negF idF
  apply Prod.ext
  · simp only
    rw [div_eq_zero_iff]; left; ring
  · simp only
    rw [div_eq_one_iff_eq hB]
    linear_combination hp

theorem neg_addF {p : PtF} (hp : OnCurveP p) : addF (negF p) p = idF := by
  rw [addF_comm, addF_neg hp]

/-- negation distributes over the addition law (no curve hypothesis needed) -/
theorem negF_addF (p q : PtF) : negF (addF p q) = addF (negF p) (negF q) := by
  unfold addF negF
  apply Prod.ext <;> simp only <;> ring

/-! ### Scalar multiples by repeated addition -/

/-- `smulF n P = P + … + P` (`n` times), by recursion -/
def smulF : ℕ → PtF → PtF
  | 0, _ => idF
  | n+1, p => addF (smulF n p) p

@[simp] theorem smulF_zero (p : PtF) : smulF 0 p = idF := rfl
theorem smulF_succ (n : ℕ) (p : PtF) : smulF (n+1) p = addF (smulF n p) p := rfl
@[simp] theorem smulF_one (p : PtF) : smulF 1 p = p := by rw [smulF_succ, smulF_zero, id_addF]
theorem smulF_two (p : PtF) : smulF 2 p = addF p p := by rw [smulF_succ, smulF_one]

theorem smulF_on_curve (n : ℕ) {p : PtF} (hp : OnCurveP p) : OnCurveP (smulF n p) := by
  induction n with
  | zero => exact id_on_curveP
  | succ n ih => exact add_on_curveP ih hp

@[simp] theorem smulF_id (n : ℕ) : smulF n idF = idF := by
  induction n with
  | zero => rfl
  | succ n ih => rw [smulF_succ, ih, addF_id]

theorem smulF_negF (n : ℕ) (p : PtF) : smulF n (negF p) = negF (smulF n p) := by
  induction n with
  | zero => simp [negF_id]
  | succ n ih => rw [smulF_succ, ih, smulF_succ, negF_addF]

/-- signed multiples -/
def zsmulF : ℤ → PtF → PtF
  | Int.ofNat n, p => smulF n p
  | Int.negSucc n, p => negF (smulF (n+1) p)

@[simp] theorem zsmulF_natCast (n : ℕ) (p : PtF) : zsmulF (n : ℤ) p = smulF n p := rfl
@[simp] theorem zsmulF_zero (p : PtF) : zsmulF 0 p = idF := rfl
@[simp] theorem zsmulF_one (p : PtF) : zsmulF 1 p = p := smulF_one p
@[simp] theorem zsmulF_neg_one (p : PtF) : zsmulF (-1) p = negF p := by
  show negF (smulF 1 p) = negF p
  rw [smulF_one]

theorem zsmulF_on_curve (z : ℤ) {p : PtF} (hp : OnCurveP p) : OnCurveP (zsmulF z p) := by
  cases z with
  | ofNat n => exact smulF_on_curve n hp
  | negSucc n => exact neg_on_curveP (smulF_on_curve (n+1) hp)

/-! ### Scalar-multiple laws (use associativity, which is proved in `EdwardsAssoc.lean`) -/

theorem smulF_add (m n : ℕ) {p : PtF} (hp : OnCurveP p) :
    smulF (m + n) p = addF (smulF m p) (smulF n p) := by
  induction n with
  | zero => simp [addF_id]
  | succ n ih =>
    rw [← Nat.add_assoc, smulF_succ, ih, smulF_succ,
      addF_assoc (smulF_on_curve m hp) (smulF_on_curve n hp) hp]

theorem smulF_mul (m n : ℕ) {p : PtF} (hp : OnCurveP p) :
    smulF (m * n) p = smulF m (smulF n p) := by
  induction m with
  | zero => simp
  | succ m ih => rw [Nat.succ_mul, smulF_add _ _ hp, ih, smulF_succ]

theorem smulF_double (n : ℕ) {p : PtF} (hp : OnCurveP p) :
    smulF (2 * n) p = addF (smulF n p) (smulF n p) := by
  rw [two_mul, smulF_add _ _ hp]

/-! ### Curve points as an abelian group -/

/-- points of the curve -/
structure CurvePt where
  val : PtF
  on : OnCurveP val

namespace CurvePt

instance : Zero CurvePt := ⟨⟨idF, id_on_curveP⟩⟩
instance : Add CurvePt := ⟨fun p q => ⟨addF p.1 q.1, add_on_curveP p.2 q.2⟩⟩
instance : Neg CurvePt := ⟨fun p => ⟨negF p.1, neg_on_curveP p.2⟩⟩

@[simp] theorem val_zero : (0 : CurvePt).1 = idF := rfl
@[simp] theorem val_add (p q : CurvePt) : (p + q).1 = addF p.1 q.1 := rfl
@[simp] theorem val_neg (p : CurvePt) : (-p).1 = negF p.1 := rfl

@[ext] theorem ext {p q : CurvePt} (h : p.1 = q.1) : p = q := by
  cases p; cases q; simp only at h; subst h; rfl

/-- the abelian group of JubJub curve points over `F` (no hypothesis) -/
instance addCommGroup : AddCommGroup CurvePt where
  add_assoc p q r := CurvePt.ext (addF_assoc p.2 q.2 r.2)
  zero_add p := CurvePt.ext (id_addF p.1)
  add_zero p := CurvePt.ext (addF_id p.1)
  nsmul n p := ⟨smulF n p.1, smulF_on_curve n p.2⟩
  nsmul_zero _ := rfl
  nsmul_succ _ _ := rfl
  zsmul z p := ⟨zsmulF z p.1, zsmulF_on_curve z p.2⟩
  zsmul_zero' _ := rfl
  zsmul_succ' _ _ := rfl
  zsmul_neg' _ _ := rfl
  neg_add_cancel p := CurvePt.ext (neg_addF p.2)
  add_comm p q := CurvePt.ext (addF_comm p.1 q.1)

@[simp] theorem val_nsmul (n : ℕ) (p : CurvePt) : (n • p).1 = smulF n p.1 := rfl
@[simp] theorem val_zsmul (z : ℤ) (p : CurvePt) : (z • p).1 = zsmulF z p.1 := rfl

end CurvePt

theorem smulF_addF (n : ℕ) {p q : PtF} (hp : OnCurveP p) (hq : OnCurveP q) :
    smulF n (addF p q) = addF (smulF n p) (smulF n q) :=
  congrArg CurvePt.val (nsmul_add (⟨p, hp⟩ : CurvePt) ⟨q, hq⟩ n)

theorem zsmulF_add (m n : ℤ) {p : PtF} (hp : OnCurveP p) :
    zsmulF (m + n) p = addF (zsmulF m p) (zsmulF n p) :=
  congrArg CurvePt.val (add_zsmul (⟨p, hp⟩ : CurvePt) m n)

theorem zsmulF_mul (m n : ℤ) {p : PtF} (hp : OnCurveP p) :
    zsmulF (m * n) p = zsmulF m (zsmulF n p) :=
  congrArg CurvePt.val (mul_zsmul (⟨p, hp⟩ : CurvePt) m n)

theorem zsmulF_neg (m : ℤ) {p : PtF} (hp : OnCurveP p) :
    zsmulF (-m) p = negF (zsmulF m p) :=
  congrArg CurvePt.val (neg_zsmul (⟨p, hp⟩ : CurvePt) m)

theorem addF_left_cancel {p q r : PtF} (hp : OnCurveP p) (hq : OnCurveP q) (hr : OnCurveP r)
    (h : addF p q = addF p r) : q = r := by
  have : (⟨p, hp⟩ : CurvePt) + ⟨q, hq⟩ = ⟨p, hp⟩ + ⟨r, hr⟩ := CurvePt.ext h
  exact congrArg CurvePt.val (add_left_cancel this)

/-! ### The MSB-first double-and-add ladder -/

/-- one ladder step of `component_mul_point`: `acc ← (acc + acc) + (if b then P else O)` -/
def ladderStepF (P : PtF) (acc : PtF) (b : Bool) : PtF :=
  addF (addF acc acc) (if b then P else idF)

/-- the ladder over a bit list, most significant bit first, from accumulator `acc` -/
def ladderF (P : PtF) (bits : List Bool) (acc : PtF) : PtF := bits.foldl (ladderStepF P) acc

/-- value of an MSB-first bit list, continuing from `n` -/
def bitsValMSB (bits : List Bool) (n : ℕ) : ℕ := bits.foldl (fun n b => 2 * n + b.toNat) n

@[simp] theorem ladderF_nil (P acc : PtF) : ladderF P [] acc = acc := rfl
@[simp] theorem ladderF_cons (P acc : PtF) (b : Bool) (bs : List Bool) :
    ladderF P (b :: bs) acc = ladderF P bs (ladderStepF P acc b) := rfl
@[simp] theorem bitsValMSB_nil (n : ℕ) : bitsValMSB [] n = n := rfl
@[simp] theorem bitsValMSB_cons (b : Bool) (bs : List Bool) (n : ℕ) :
    bitsValMSB (b :: bs) n = bitsValMSB bs (2 * n + b.toNat) := rfl

theorem ladderStepF_on_curve {P acc : PtF} (hP : OnCurveP P) (ha : OnCurveP acc) (b : Bool) :
    OnCurveP (ladderStepF P acc b) := by
  unfold ladderStepF
  apply add_on_curveP (add_on_curveP ha ha)
  cases b
  · exact id_on_curveP
  · exact hP

theorem ladderF_on_curve {P : PtF} (hP : OnCurveP P) (bits : List Bool) {acc : PtF}
    (ha : OnCurveP acc) : OnCurveP (ladderF P bits acc) := by
  induction bits generalizing acc with
  | nil => exact ha
  | cons b bs ih => exact ih (ladderStepF_on_curve hP ha b)

theorem ladderStep_smul {P : PtF} (hP : OnCurveP P) (n : ℕ) (b : Bool) :
    ladderStepF P (smulF n P) b = smulF (2 * n + b.toNat) P := by
  unfold ladderStepF
  rw [smulF_add _ _ hP, smulF_double _ hP]
  cases b <;> simp

/-- **ladder_is_scalar_mul** (general accumulator): starting from `[n]P`, the ladder over `bits`
    ends in `[bitsValMSB bits n]P`. -/
theorem ladder_from {P : PtF} (hP : OnCurveP P) (bits : List Bool) (n : ℕ) :
    ladderF P bits (smulF n P) = smulF (bitsValMSB bits n) P := by
  induction bits generalizing n with
  | nil => rfl
  | cons b bs ih => rw [ladderF_cons, ladderStep_smul hP, ih, bitsValMSB_cons]

/-- **ladder_is_scalar_mul**: the MSB-first double-and-add ladder from the identity computes the
    scalar multiple (defined by repeated addition) by the number the bits denote.
    Unconditional: associativity is proved. -/
theorem ladder_is_scalar_mul {P : PtF} (hP : OnCurveP P) (bits : List Bool) :
    ladderF P bits idF = smulF (bitsValMSB bits 0) P := by
  have := ladder_from hP bits 0
  simpa using this

theorem bitsValMSB_append (bs cs : List Bool) (n : ℕ) :
    bitsValMSB (bs ++ cs) n = bitsValMSB cs (bitsValMSB bs n) := by
  unfold bitsValMSB; rw [List.foldl_append]

theorem bitsValMSB_eq (bits : List Bool) (n : ℕ) :
    bitsValMSB bits n = n * 2 ^ bits.length + bitsValMSB bits 0 := by
  induction bits generalizing n with
  | nil => simp
  | cons b bs ih =>
    rw [bitsValMSB_cons, ih, bitsValMSB_cons, ih (2 * 0 + b.toNat), List.length_cons, pow_succ]
    ring

/-- little-endian value -/
def bitsValLE : List Bool → ℕ
  | [] => 0
  | b :: bs => b.toNat + 2 * bitsValLE bs

/-- `bitsValMSB` of the reversed little-endian bit list is the usual binary value -/
theorem bitsValMSB_reverse (bits : List Bool) : bitsValMSB bits.reverse 0 = bitsValLE bits := by
  induction bits with
  | nil => rfl
  | cons b bs ih =>
    rw [List.reverse_cons, bitsValMSB_append, ih]
    simp [bitsValLE]; ring

theorem bitsValLE_lt (bits : List Bool) : bitsValLE bits < 2 ^ bits.length := by
  induction bits with
  | nil => simp [bitsValLE]
  | cons b bs ih =>
    rw [bitsValLE, List.length_cons, pow_succ]
    cases b <;> simp <;> omega

/-! ### Doubling chains and the cofactor -/

theorem smulF_pow_two_succ (k : ℕ) {p : PtF} (hp : OnCurveP p) :
    smulF (2 ^ (k+1)) p = addF (smulF (2 ^ k) p) (smulF (2 ^ k) p) := by
  rw [pow_succ, mul_comm, smulF_double _ hp]

/-- three doublings are multiplication by the cofactor `8` -/
theorem dbl3_eq_smul8 {q : PtF} (hq : OnCurveP q) :
    addF (addF (addF q q) (addF q q)) (addF (addF q q) (addF q q)) = smulF 8 q := by
  have h1 : smulF 2 q = addF q q := smulF_two q
  have h2 : smulF 4 q = addF (smulF 2 q) (smulF 2 q) := smulF_double 2 hq
  have h3 : smulF 8 q = addF (smulF 4 q) (smulF 4 q) := smulF_double 4 hq
  rw [h3, h2, h1]

theorem RJ_eight_inv : 8 * Generated.EIGHT_INV % RJ = 1 := by decide +kernel

/-- a curve point killed by `r_J` is `[8]` of a curve point, namely of `[8⁻¹ mod r_J]P`
    (the host-side witness of `assert_torsion_free_point`) -/
theorem eight_smul_eight_inv {p : PtF} (hp : OnCurveP p) (hk : smulF RJ p = idF) :
    smulF 8 (smulF Generated.EIGHT_INV p) = p := by
  rw [← smulF_mul _ _ hp]
  have h := Nat.div_add_mod (8 * Generated.EIGHT_INV) RJ
  rw [RJ_eight_inv] at h
  rw [← h, smulF_add _ _ hp, mul_comm, smulF_mul _ _ hp, hk, smulF_id, smulF_one, id_addF]

/-! ### Signed-digit accumulation (fixed-base ladder) -/

/-- the fixed-base accumulation `acc ← acc + eᵢ•[kᵢ]G` over a list of `(digit, multiplier)` -/
def signedAccF (G : PtF) (l : List (ℤ × ℕ)) (acc : PtF) : PtF :=
  l.foldl (fun acc ek => addF acc (zsmulF ek.1 (smulF ek.2 G))) acc

/-- the integer the digits denote: `Σ eᵢ·kᵢ` -/
def signedSum (l : List (ℤ × ℕ)) : ℤ := (l.map fun ek => ek.1 * (ek.2 : ℤ)).sum

theorem signedAcc_from {G : PtF} (hG : OnCurveP G) (l : List (ℤ × ℕ)) (z : ℤ) :
    signedAccF G l (zsmulF z G) = zsmulF (z + signedSum l) G := by
  induction l generalizing z with
  | nil => simp [signedAccF, signedSum]
  | cons ek l ih =>
    have step : addF (zsmulF z G) (zsmulF ek.1 (smulF ek.2 G)) = zsmulF (z + ek.1 * ek.2) G := by
      rw [zsmulF_add _ _ hG, zsmulF_mul _ _ hG, zsmulF_natCast]
    show signedAccF G l (addF (zsmulF z G) (zsmulF ek.1 (smulF ek.2 G))) = _
    rw [step, ih]
    congr 1
    simp [signedSum]; ring

/-- the fixed-base accumulation from the identity computes `[Σ eᵢ·kᵢ]G` (unconditional) -/
theorem signedAcc_is_scalar_mul {G : PtF} (hG : OnCurveP G) (l : List (ℤ × ℕ)) :
    signedAccF G l idF = zsmulF (signedSum l) G := by
  have := signedAcc_from hG l 0
  simpa using this

/-! ### Model-level corollaries (about `edAddOrId` itself) -/

theorem toFP_inj {p q : Pt} (hp1 : p.1 < R) (hp2 : p.2 < R) (hq1 : q.1 < R) (hq2 : q.2 < R) :
    toFP p = toFP q ↔ p = q := by
  unfold toFP
  rw [Prod.mk.injEq, toF_inj_of_lt hp1 hq1, toF_inj_of_lt hp2 hq2]
  constructor
  · rintro ⟨h1, h2⟩; exact Prod.ext h1 h2
  · rintro rfl; exact ⟨rfl, rfl⟩

/-- the host-side addition is associative on curve points -/
theorem edAddOrId_assoc (p q r : Pt) (hp : onCurve p = true) (hq : onCurve q = true)
    (hr : onCurve r = true) :
    edAddOrId (edAddOrId p q) r = edAddOrId p (edAddOrId q r) := by
  have hpq := edAddOrId_on_curve p q hp hq
  have hqr := edAddOrId_on_curve q r hq hr
  have l1 := edAddOrId_lt (edAddOrId p q) r
  have l2 := edAddOrId_lt p (edAddOrId q r)
  rw [← toFP_inj l1.1 l1.2 l2.1 l2.2, toFP_edAddOrId _ _ hpq hr, toFP_edAddOrId _ _ hp hq,
    toFP_edAddOrId _ _ hp hqr, toFP_edAddOrId _ _ hq hr]
  exact addF_assoc ((onCurve_iff_P p).mp hp) ((onCurve_iff_P q).mp hq) ((onCurve_iff_P r).mp hr)

/-- the host-side addition is commutative on curve points -/
theorem edAddOrId_comm (p q : Pt) (hp : onCurve p = true) (hq : onCurve q = true) :
    edAddOrId p q = edAddOrId q p := by
  have l1 := edAddOrId_lt p q
  have l2 := edAddOrId_lt q p
  rw [← toFP_inj l1.1 l1.2 l2.1 l2.2, toFP_edAddOrId _ _ hp hq, toFP_edAddOrId _ _ hq hp]
  exact addF_comm _ _

/-- the host-side MSB-first ladder (the witness computation of `component_mul_point`) -/
def ladderModel (P : Pt) (bits : List Bool) (acc : Pt) : Pt :=
  bits.foldl (fun acc b => edAddOrId (edAddOrId acc acc) (if b then P else Pt.id)) acc

theorem ladderModel_spec (P : Pt) (hP : onCurve P = true) (bits : List Bool) (acc : Pt)
    (ha : onCurve acc = true) :
    onCurve (ladderModel P bits acc) = true ∧
    toFP (ladderModel P bits acc) = ladderF (toFP P) bits (toFP acc) := by
  induction bits generalizing acc with
  | nil => exact ⟨ha, rfl⟩
  | cons b bs ih =>
    have h2 := edAddOrId_on_curve acc acc ha ha
    have hsel : onCurve (if b then P else Pt.id) = true := by
      cases b
      · exact id_on_curve_model
      · exact hP
    have h3 := edAddOrId_on_curve _ _ h2 hsel
    obtain ⟨i1, i2⟩ := ih _ h3
    refine ⟨i1, ?_⟩
    show toFP (ladderModel P bs _) = ladderF (toFP P) bs (ladderStepF (toFP P) (toFP acc) b)
    rw [i2, toFP_edAddOrId _ _ h2 hsel, toFP_edAddOrId _ _ ha ha]
    unfold ladderStepF
    cases b <;> simp [toFP_id]

/-- the model's ladder from the identity computes `[bits]P` -/
theorem ladderModel_is_scalar_mul (P : Pt) (hP : onCurve P = true) (bits : List Bool) :
    onCurve (ladderModel P bits Pt.id) = true ∧
    toFP (ladderModel P bits Pt.id) = smulF (bitsValMSB bits 0) (toFP P) := by
  obtain ⟨h1, h2⟩ := ladderModel_spec P hP bits Pt.id id_on_curve_model
  refine ⟨h1, ?_⟩
  rw [h2, toFP_id]
  exact ladder_is_scalar_mul ((onCurve_iff_P P).mp hP) bits

/-! ### The hypothesis structure: what is NOT proved -/

/-- What is **assumed, not proved** about the JubJub group: the group order `8·r_J` kills every
    curve point.  (Associativity, originally planned as a field here, is proved:
    `addF_assoc`.) -/
structure JubjubGroupFacts : Prop where
  order : ∀ p : PtF, OnCurveP p → smulF (8 * RJ) p = idF

namespace JubjubGroupFacts

/-- kept for reference: associativity holds outright, with or without the hypothesis -/
theorem assoc (_ : JubjubGroupFacts) (p q r : PtF) (hp : OnCurveP p) (hq : OnCurveP q)
    (hr : OnCurveP r) : addF (addF p q) r = addF p (addF q r) := addF_assoc hp hq hr

/-- `[r_J]([8]Q) = O` for every curve point (group order `8·r_J`) -/
theorem smul_RJ_smul_eight (H : JubjubGroupFacts) {q : PtF} (hq : OnCurveP q) :
    smulF RJ (smulF 8 q) = idF := by
  rw [← smulF_mul _ _ hq, mul_comm]; exact H.order q hq

/-- **subgroup boundary**: `P ∈ [8]·E(F_r)` iff `P` is on the curve and `[r_J]P = O`.
    Only the direction `→` uses the hypothesis. -/
theorem mem_eight_iff (H : JubjubGroupFacts) (p : PtF) :
    (∃ q : PtF, OnCurveP q ∧ smulF 8 q = p) ↔ OnCurveP p ∧ smulF RJ p = idF := by
  constructor
  · rintro ⟨q, hq, rfl⟩
    exact ⟨smulF_on_curve 8 hq, H.smul_RJ_smul_eight hq⟩
  · rintro ⟨hp, hk⟩
    exact ⟨smulF Generated.EIGHT_INV p, smulF_on_curve _ hp, eight_smul_eight_inv hp hk⟩

/-- the ladder statement in the form announced in the design (the hypothesis is not used) -/
theorem ladder_is_scalar_mul (_ : JubjubGroupFacts) {P : PtF} (hP : OnCurveP P)
    (bits : List Bool) : ladderF P bits idF = smulF (bitsValMSB bits 0) P :=
  Plonk.ladder_is_scalar_mul hP bits

end JubjubGroupFacts

end Plonk
