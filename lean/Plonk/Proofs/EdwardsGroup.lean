/-
  Group-level consequences of the twisted Edwards addition law on JubJub.

  Proved outright (pure algebra): commutativity, neutral element, inverses, closure of
  `smulF`.  NOT proved: associativity and the group order — they are packaged in the hypothesis
  structure `JubjubGroupFacts` (a `Prop`-valued structure, not an axiom).  Under it the curve
  points form an `AddCommGroup`, `smulF` is its `nsmul`, and the MSB-first double-and-add ladder
  computes the scalar multiple (`ladder_is_scalar_mul`).
-/
import Mathlib.Algebra.Group.Basic
import Plonk.Proofs.Edwards

namespace Plonk
open Plonk

/-! ### Facts that need no hypothesis -/

theorem addF_comm (p q : PtF) : addF p q = addF q p := by
  unfold addF
  apply Prod.ext <;> simp only <;> ring

theorem addF_id (p : PtF) : addF p idF = p := by
  unfold addF idF; simp

theorem id_addF (p : PtF) : addF idF p = p := by
  rw [addF_comm, addF_id]

theorem negF_negF (p : PtF) : negF (negF p) = p := by
  unfold negF; simp

theorem negF_id : negF idF = idF := by unfold negF idF; simp

/-- inverses: `P + (−P) = O` on the curve (uses completeness for the denominators) -/
theorem addF_neg {p : PtF} (hp : OnCurveP p) : addF p (negF p) = idF := by
  obtain ⟨hA, hB⟩ := add_completeP hp (neg_on_curveP hp)
  unfold OnCurveP OnCurveF at hp
  unfold negF at hA hB
  simp only at hA hB
  unfold addF negF idF
  apply Prod.ext
  · simp only
    rw [div_eq_zero_iff]; left; ring
  · simp only
    rw [div_eq_one_iff_eq hB]
    linear_combination hp

theorem neg_addF {p : PtF} (hp : OnCurveP p) : addF (negF p) p = idF := by
  rw [addF_comm, addF_neg hp]

/-- negation distributes over the addition law (no curve hypothesis needed) -/
theorem negF_addF (p q : PtF) : negF (addF p q) = addF (negF p) (negF q) := by
  unfold addF negF
  apply Prod.ext <;> simp only <;> ring

/-! ### Scalar multiples by repeated addition -/

/-- `smulF n P = P + … + P` (`n` times), by recursion -/
def smulF : ℕ → PtF → PtF
  | 0, _ => idF
  | n+1, p => addF (smulF n p) p

@[simp] theorem smulF_zero (p : PtF) : smulF 0 p = idF := rfl
theorem smulF_succ (n : ℕ) (p : PtF) : smulF (n+1) p = addF (smulF n p) p := rfl
@[simp] theorem smulF_one (p : PtF) : smulF 1 p = p := by rw [smulF_succ, smulF_zero, id_addF]
theorem smulF_two (p : PtF) : smulF 2 p = addF p p := by rw [smulF_succ, smulF_one]

theorem smulF_on_curve (n : ℕ) {p : PtF} (hp : OnCurveP p) : OnCurveP (smulF n p) := by
  induction n with
  | zero => exact id_on_curveP
  | succ n ih => exact add_on_curveP ih hp

@[simp] theorem smulF_id (n : ℕ) : smulF n idF = idF := by
  induction n with
  | zero => rfl
  | succ n ih => rw [smulF_succ, ih, addF_id]

theorem smulF_negF (n : ℕ) (p : PtF) : smulF n (negF p) = negF (smulF n p) := by
  induction n with
  | zero => simp [negF_id]
  | succ n ih => rw [smulF_succ, ih, smulF_succ, negF_addF]

/-- signed multiples -/
def zsmulF : ℤ → PtF → PtF
  | Int.ofNat n, p => smulF n p
  | Int.negSucc n, p => negF (smulF (n+1) p)

/-! ### The hypothesis structure -/

/-- What is **assumed, not proved** about the JubJub group: associativity of the addition law
    on curve points, and that the group order `8·r_J` kills every point. -/
structure JubjubGroupFacts : Prop where
  assoc : ∀ p q r : PtF, OnCurveP p → OnCurveP q → OnCurveP r →
    addF (addF p q) r = addF p (addF q r)
  order : ∀ p : PtF, OnCurveP p → smulF (8 * RJ) p = idF

namespace JubjubGroupFacts
variable (H : JubjubGroupFacts)
include H

theorem smulF_add (m n : ℕ) {p : PtF} (hp : OnCurveP p) :
    smulF (m + n) p = addF (smulF m p) (smulF n p) := by
  induction n with
  | zero => simp [addF_id]
  | succ n ih =>
    rw [← Nat.add_assoc, smulF_succ, ih, smulF_succ,
      H.assoc _ _ _ (smulF_on_curve m hp) (smulF_on_curve n hp) hp]

theorem smulF_mul (m n : ℕ) {p : PtF} (hp : OnCurveP p) :
    smulF (m * n) p = smulF m (smulF n p) := by
  induction m with
  | zero => simp
  | succ m ih => rw [Nat.succ_mul, H.smulF_add _ _ hp, ih, smulF_succ]

theorem smulF_double (n : ℕ) {p : PtF} (hp : OnCurveP p) :
    smulF (2 * n) p = addF (smulF n p) (smulF n p) := by
  rw [two_mul, H.smulF_add _ _ hp]

theorem smulF_addF (n : ℕ) {p q : PtF} (hp : OnCurveP p) (hq : OnCurveP q) :
    smulF n (addF p q) = addF (smulF n p) (smulF n q) := by
  induction n with
  | zero => simp [addF_id]
  | succ n ih =>
    have hn := smulF_on_curve n hp
    have hm := smulF_on_curve n hq
    rw [smulF_succ, ih, smulF_succ, smulF_succ,
      H.assoc _ _ _ hn hm (add_on_curveP hp hq),
      H.assoc _ _ _ hn hp (add_on_curveP hm hq),
      ← H.assoc _ _ _ hm hp hq, ← H.assoc _ _ _ hp hm hq, addF_comm (smulF n q) p]

end JubjubGroupFacts

/-! ### The MSB-first double-and-add ladder -/

/-- one ladder step of `component_mul_point`: `acc ← (acc + acc) + (if b then P else O)` -/
def ladderStepF (P : PtF) (acc : PtF) (b : Bool) : PtF :=
  addF (addF acc acc) (if b then P else idF)

/-- the ladder over a bit list, most significant bit first, from accumulator `acc` -/
def ladderF (P : PtF) (bits : List Bool) (acc : PtF) : PtF := bits.foldl (ladderStepF P) acc

/-- value of an MSB-first bit list, continuing from `n` -/
def bitsValMSB (bits : List Bool) (n : ℕ) : ℕ := bits.foldl (fun n b => 2 * n + b.toNat) n

@[simp] theorem ladderF_nil (P acc : PtF) : ladderF P [] acc = acc := rfl
@[simp] theorem ladderF_cons (P acc : PtF) (b : Bool) (bs : List Bool) :
    ladderF P (b :: bs) acc = ladderF P bs (ladderStepF P acc b) := rfl
@[simp] theorem bitsValMSB_nil (n : ℕ) : bitsValMSB [] n = n := rfl
@[simp] theorem bitsValMSB_cons (b : Bool) (bs : List Bool) (n : ℕ) :
    bitsValMSB (b :: bs) n = bitsValMSB bs (2 * n + b.toNat) := rfl

theorem ladderStepF_on_curve {P acc : PtF} (hP : OnCurveP P) (ha : OnCurveP acc) (b : Bool) :
    OnCurveP (ladderStepF P acc b) := by
  unfold ladderStepF
  apply add_on_curveP (add_on_curveP ha ha)
  cases b
  · exact id_on_curveP
  · exact hP

theorem ladderF_on_curve {P : PtF} (hP : OnCurveP P) (bits : List Bool) {acc : PtF}
    (ha : OnCurveP acc) : OnCurveP (ladderF P bits acc) := by
  induction bits generalizing acc with
  | nil => exact ha
  | cons b bs ih => exact ih (ladderStepF_on_curve hP ha b)

theorem JubjubGroupFacts.ladderStep_smul (H : JubjubGroupFacts) {P : PtF} (hP : OnCurveP P)
    (n : ℕ) (b : Bool) :
    ladderStepF P (smulF n P) b = smulF (2 * n + b.toNat) P := by
  unfold ladderStepF
  rw [H.smulF_add _ _ hP, H.smulF_double _ hP]
  cases b <;> simp

/-- **ladder_is_scalar_mul** (general accumulator): starting from `[n]P`, the ladder over `bits`
    ends in `[bitsValMSB bits n]P`. -/
theorem JubjubGroupFacts.ladder_from (H : JubjubGroupFacts) {P : PtF} (hP : OnCurveP P)
    (bits : List Bool) (n : ℕ) :
    ladderF P bits (smulF n P) = smulF (bitsValMSB bits n) P := by
  induction bits generalizing n with
  | nil => rfl
  | cons b bs ih => rw [ladderF_cons, H.ladderStep_smul hP, ih, bitsValMSB_cons]

/-- **ladder_is_scalar_mul**: the MSB-first double-and-add ladder from the identity computes the
    scalar multiple (defined by repeated addition) by the number the bits denote. -/
theorem JubjubGroupFacts.ladder_is_scalar_mul (H : JubjubGroupFacts) {P : PtF}
    (hP : OnCurveP P) (bits : List Bool) :
    ladderF P bits idF = smulF (bitsValMSB bits 0) P := by
  have := H.ladder_from hP bits 0
  simpa using this

/-- `bitsValMSB` of the reversed little-endian bit list is the usual binary value -/
theorem bitsValMSB_append (bs cs : List Bool) (n : ℕ) :
    bitsValMSB (bs ++ cs) n = bitsValMSB cs (bitsValMSB bs n) := by
  unfold bitsValMSB; rw [List.foldl_append]

theorem bitsValMSB_eq (bits : List Bool) (n : ℕ) :
    bitsValMSB bits n = n * 2 ^ bits.length + bitsValMSB bits 0 := by
  induction bits generalizing n with
  | nil => simp
  | cons b bs ih =>
    rw [bitsValMSB_cons, ih, bitsValMSB_cons, ih (2 * 0 + b.toNat), List.length_cons, pow_succ]
    ring

/-- little-endian value -/
def bitsValLE : List Bool → ℕ
  | [] => 0
  | b :: bs => b.toNat + 2 * bitsValLE bs

theorem bitsValMSB_reverse (bits : List Bool) : bitsValMSB bits.reverse 0 = bitsValLE bits := by
  induction bits with
  | nil => rfl
  | cons b bs ih =>
    rw [List.reverse_cons, bitsValMSB_append, ih]
    simp [bitsValLE]; ring

theorem bitsValLE_lt (bits : List Bool) : bitsValLE bits < 2 ^ bits.length := by
  induction bits with
  | nil => simp [bitsValLE]
  | cons b bs ih =>
    rw [bitsValLE, List.length_cons, pow_succ]
    cases b <;> simp <;> omega

end Plonk
