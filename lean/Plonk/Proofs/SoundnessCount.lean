/-
  C02 (soundness): the cardinality of the bad set of separation challenges.
  `sepBad_card_le : |sepBad| ≤ n · 9 · |F|³` (out of `|F|⁴` tuples `(ρ, λ, φ, ν)`).
-/
import Mathlib.Data.Fintype.Prod
import Plonk.Proofs.SoundnessModel

namespace Plonk.Sound
open Polynomial Plonk Plonk.Quot Plonk.Perm

/-- a subset of `α ≃ F × β` all of whose `F`-fibres have at most `m` elements has at most
    `m·|β|` elements -/
theorem card_le_of_fibers {α β : Type} [Fintype β] (Z : Finset α) (e : α ≃ F × β) (m : ℕ)
    (h : ∀ b : β, ∀ S : Finset F, (∀ a ∈ S, e.symm (a, b) ∈ Z) → S.card ≤ m) :
    Z.card ≤ m * Fintype.card β := by
  classical
  refine (Finset.card_le_mul_card_image (f := fun x => (e x).2) Z m ?_).trans
    (Nat.mul_le_mul_left m (Finset.card_le_univ _))
  intro b _
  have hinj : Set.InjOn (fun x => (e x).1) (Z.filter fun x => (e x).2 = b : Finset α) := by
    intro x hx y hy hxy
    have hx2 := (Finset.mem_filter.mp hx).2
    have hy2 := (Finset.mem_filter.mp hy).2
    apply e.injective
    exact Prod.ext hxy (by rw [hx2, hy2])
  rw [← Finset.card_image_of_injOn hinj]
  apply h b
  intro a ha
  obtain ⟨x, hx, rfl⟩ := Finset.mem_image.mp ha
  obtain ⟨hxZ, hx2⟩ := Finset.mem_filter.mp hx
  have : e.symm ((e x).1, b) = x := by
    rw [← hx2]; exact e.symm_apply_apply x
  rw [this]; exact hxZ

theorem card_F3 : Fintype.card (F × F × F) = R * (R * R) := by
  simp only [Fintype.card_prod, ZMod.card]

/-- the four ways of singling out one coordinate -/
def splitR : F × F × F × F ≃ F × (F × F × F) := Equiv.refl _
def splitL : F × F × F × F ≃ F × (F × F × F) :=
  ⟨fun t => (t.2.1, t.1, t.2.2.1, t.2.2.2), fun u => (u.2.1, u.1, u.2.2.1, u.2.2.2),
    fun _ => rfl, fun _ => rfl⟩
def splitF : F × F × F × F ≃ F × (F × F × F) :=
  ⟨fun t => (t.2.2.1, t.1, t.2.1, t.2.2.2), fun u => (u.2.1, u.2.2.1, u.1, u.2.2.2),
    fun _ => rfl, fun _ => rfl⟩
def splitV : F × F × F × F ≃ F × (F × F × F) :=
  ⟨fun t => (t.2.2.2, t.1, t.2.1, t.2.2.1), fun u => (u.2.1, u.2.2.1, u.2.2.2, u.1),
    fun _ => rfl, fun _ => rfl⟩

/-- the zero set of a function of the four separation challenges -/
noncomputable def zeroSet (E : Seps F → F) : Finset (F × F × F × F) :=
  @Finset.filter _ (fun t => E (sepsOf t) = 0) (fun _ => Classical.propDecidable _) Finset.univ

theorem mem_zeroSet (E : Seps F → F) (t : F × F × F × F) : t ∈ zeroSet E ↔ E (sepsOf t) = 0 := by
  unfold zeroSet
  rw [@Finset.mem_filter _ _ (fun _ => Classical.propDecidable _)]
  simp only [Finset.mem_univ, true_and]

attribute [irreducible] zeroSet

/-- **the zero set of the gate expression of a failing row is thin**: at most `9·|F|³` tuples -/
theorem zeroSet_gate_card_le (g : Gate) (hg : SelReduced g) (a b c d an bn dn pi : Nat)
    (h : rowHolds g a b c d an bn dn pi = false) :
    (zeroSet fun s => gateSumR (Quot.selF g) (wiresF a b c d an bn dn) (toF pi) s).card ≤
      9 * (R * (R * R)) := by
  have key := gate_sum_bad_set g hg a b c d an bn dn pi h
  simp only at key
  rcases key with h0 | hr | hl | hf | hv
  · have : (zeroSet fun s => gateSumR (Quot.selF g) (wiresF a b c d an bn dn) (toF pi) s) = ∅ := by
      apply Finset.eq_empty_of_forall_notMem
      intro t ht
      rw [mem_zeroSet] at ht
      exact h0 _ ht
    rw [this]; simp
  · have := card_le_of_fibers (zeroSet fun s => gateSumR (Quot.selF g) (wiresF a b c d an bn dn)
      (toF pi) s) splitR 7 (fun u S hS => hr u.1 u.2.1 u.2.2 S (fun ρ hρ => by
        have := hS ρ hρ
        rw [mem_zeroSet] at this
        exact this))
    rw [card_F3] at this; omega
  · have := card_le_of_fibers (zeroSet fun s => gateSumR (Quot.selF g) (wiresF a b c d an bn dn)
      (toF pi) s) splitL 9 (fun u S hS => hl u.1 u.2.1 u.2.2 S (fun ρ hρ => by
        have := hS ρ hρ
        rw [mem_zeroSet] at this
        exact this))
    rw [card_F3] at this; omega
  · have := card_le_of_fibers (zeroSet fun s => gateSumR (Quot.selF g) (wiresF a b c d an bn dn)
      (toF pi) s) splitF 7 (fun u S hS => hf u.1 u.2.1 u.2.2 S (fun ρ hρ => by
        have := hS ρ hρ
        rw [mem_zeroSet] at this
        exact this))
    rw [card_F3] at this; omega
  · have := card_le_of_fibers (zeroSet fun s => gateSumR (Quot.selF g) (wiresF a b c d an bn dn)
      (toF pi) s) splitV 5 (fun u S hS => hv u.1 u.2.1 u.2.2 S (fun ρ hρ => by
        have := hS ρ hρ
        rw [mem_zeroSet] at this
        exact this))
    rw [card_F3] at this; omega

/-- **`|sepBad| ≤ n·9·|F|³`**: a fraction of at most `9n/|F|` of the tuples of separation
    challenges is bad -/
theorem sepBad_card_le (ω : F) (n : Nat) (lay : Composer) (P : ProverPolys F)
    (hG : ∀ i < n, SelReduced (lay.gateAt i)) :
    (sepBad ω n lay P).card ≤ n * (9 * (R * (R * R))) := by
  classical
  have hsub : sepBad ω n lay P ⊆ (Finset.range n).biUnion fun i =>
      if rowOKP ω n lay P i then ∅ else zeroSet fun s => gateAtRow ω n lay P i s := by
    intro t ht
    rw [mem_sepBad] at ht
    obtain ⟨i, hi, hne, h0⟩ := ht
    refine Finset.mem_biUnion.mpr ⟨i, Finset.mem_range.mpr hi, ?_⟩
    rw [if_neg hne, mem_zeroSet]
    exact h0
  refine (Finset.card_le_card hsub).trans (Finset.card_biUnion_le.trans ?_)
  calc ∑ i ∈ Finset.range n,
        (if rowOKP ω n lay P i then (∅ : Finset (F × F × F × F))
          else zeroSet fun s => gateAtRow ω n lay P i s).card
      ≤ ∑ _i ∈ Finset.range n, 9 * (R * (R * R)) := by
        refine Finset.sum_le_sum (fun i hi => ?_)
        split
        · simp
        · next hne =>
          have hf : rowHolds (lay.gateAt i) (wireNat ω P 0 i) (wireNat ω P 1 i) (wireNat ω P 2 i)
              (wireNat ω P 3 i) (wireNat ω P 0 ((i + 1) % n)) (wireNat ω P 1 ((i + 1) % n))
              (wireNat ω P 3 ((i + 1) % n)) (lay.piAt i) = false := by
            unfold rowOKP at hne
            simpa using hne
          have := zeroSet_gate_card_le (lay.gateAt i) (hG i (Finset.mem_range.mp hi)) _ _ _ _ _ _ _ _ hf
          unfold gateAtRow
          rw [wiresAt_eq_wiresF]
          exact this
    _ = n * (9 * (R * (R * R))) := by simp

/-- the total number of tuples -/
theorem card_F4 : Fintype.card (F × F × F × F) = R * (R * (R * R)) := by
  simp only [Fintype.card_prod, ZMod.card]

end Plonk.Sound
