/-
  `G2` side of the opening key: whatever the compressed `G2` decoder accepts lies on the twist
  `y² = x³ + 4(1+u)` (the decoder checks the square root it computed), and is torsion free.
-/
import Plonk.Proofs.CodecRoundtrip

set_option Elab.async false

namespace Plonk

@[simp] theorem toP_psub (a b : Nat) : toP (psub a b) = toP a - toP b := by
  unfold psub; rw [toP_mod]
  have : toP (a + (P - b % P)) = toP a + toP (P - b % P) := by unfold toP; push_cast; rfl
  rw [this, toP_P_sub]; ring

theorem psub_lt (a b : Nat) : psub a b < P := Nat.mod_lt _ P_pos

theorem Fp2.ext' {a b : Fp2} (h0 : a.c0 = b.c0) (h1 : a.c1 = b.c1) : a = b := by
  cases a; cases b; simp_all

theorem Fp2.neg_sq (y : Fp2) : (Fp2.neg y).sq = y.sq := by
  unfold Fp2.sq Fp2.mul Fp2.neg
  apply Fp2.ext'
  · simp only
    rw [← toP_inj_of_lt (psub_lt _ _) (psub_lt _ _)]
    simp only [toP_psub, toP_pmul, toP_pneg]; ring
  · simp only
    rw [← toP_inj_of_lt (padd_lt _ _) (padd_lt _ _)]
    simp only [toP_padd, toP_pmul, toP_pneg]; ring

theorem Fp2.zero_sq : Fp2.zero.sq = ⟨0, 0⟩ := by decide +kernel

/-- `Fp2.sqrt?` only returns checked square roots -/
theorem Fp2.sqrt?_sq {a y : Fp2} (h : Fp2.sqrt? a = some y) (h0 : a.c0 < P) (h1 : a.c1 < P) : y.sq = a := by
  unfold Fp2.sqrt? at h
  split at h
  · next hz =>
    have h := Option.some.inj h
    subst h
    unfold Fp2.isZero at hz
    simp only [Bool.and_eq_true, beq_iff_eq] at hz
    rw [Nat.mod_eq_of_lt h0, Nat.mod_eq_of_lt h1] at hz
    rw [Fp2.zero_sq]
    exact Fp2.ext' hz.1.symm hz.2.symm
  · simp only at h
    split at h
    · split at h
      · next hc =>
        have h := Option.some.inj h
        subst h
        rw [Fp2.beq_iff] at hc
        rw [hc, Nat.mod_eq_of_lt h0, Nat.mod_eq_of_lt h1]
      · cases h
    · split at h
      · next hc =>
        have h := Option.some.inj h
        subst h
        rw [Fp2.beq_iff] at hc
        rw [hc, Nat.mod_eq_of_lt h0, Nat.mod_eq_of_lt h1]
      · cases h

/-- what `G2.fromCompressedUnchecked?` accepts is on the curve -/
theorem G2.fromCompressedUnchecked?_onCurve {bs : List Nat} {p : G2}
    (h : G2.fromCompressedUnchecked? bs = some p) : p.onCurve = true := by
  unfold G2.fromCompressedUnchecked? at h
  split at h
  · cases h
  · simp only at h
    split at h
    · cases h
    · split at h
      · have h := Option.some.inj h; subst h; rfl
      · split at h
        · cases h
        · next y hy =>
          split at h
          · have h := Option.some.inj h
            subst h
            have hsq := Fp2.sqrt?_sq hy (padd_lt _ _) (padd_lt _ _)
            unfold G2.onCurve
            simp only
            rw [Fp2.beq_iff]
            split
            · rw [Fp2.neg_sq]; exact hsq
            · exact hsq
          · cases h

/-- `G2Affine::from_bytes`: on the curve and in the prime-order subgroup -/
theorem G2.fromCompressed_wf {bs : List Nat} {p : G2} (h : G2.fromCompressed? bs = some p) :
    p.onCurve = true ∧ p.torsionFree = true := by
  obtain ⟨h1, h2⟩ := G2.fromCompressed?_some h
  exact ⟨G2.fromCompressedUnchecked?_onCurve h1, h2⟩

/-- opening keys: every point on its curve, in the prime-order subgroup, none the identity -/
theorem OpeningKeyM.fromBytes_wf' {bs : List Nat} {k : OpeningKeyM} (h : OpeningKeyM.fromBytes? bs = some k) :
    (k.g.Valid ∧ k.g.torsionFree = true ∧ k.g ≠ .inf) ∧
    (k.h.onCurve = true ∧ k.h.torsionFree = true ∧ k.h ≠ .inf) ∧
    (k.xh.onCurve = true ∧ k.xh.torsionFree = true ∧ k.xh ≠ .inf) ∧ 240 ≤ bs.length := by
  obtain ⟨hlen, hg, hh, hxh, n1, n2, n3⟩ := OpeningKeyM.fromBytes?_reads h
  obtain ⟨v, t⟩ := G1.fromCompressed_wf hg
  obtain ⟨c2, t2⟩ := G2.fromCompressed_wf hh
  obtain ⟨c3, t3⟩ := G2.fromCompressed_wf hxh
  exact ⟨⟨v, t, n1⟩, ⟨c2, t2, n2⟩, ⟨c3, t3, n3⟩, by omega⟩

theorem bytesToNatBE_take8_lt (l : List Nat) : bytesToNatBE (l.take 8) < 2 ^ 64 := by
  have h := bytesToNatBE_lt (l.take 8)
  have hl : (l.take 8).length ≤ 8 := by rw [List.length_take]; omega
  have : 256 ^ (l.take 8).length ≤ 256 ^ 8 := Nat.pow_le_pow_right (by norm_num) hl
  have e : (256 : Nat) ^ 8 = 2 ^ 64 := by norm_num
  omega

/-- what `VerifierM.fromBytes` accepts, with the work bound: the index table and the label are
    backed by input bytes that were checked to exist -/
theorem VerifierM.fromBytes_wf {bs : List Nat} {v : VerifierM} (h : VerifierM.fromBytes bs = .ok v) :
    v.vk.WF ∧
    ((v.ok.g.Valid ∧ v.ok.g.torsionFree = true ∧ v.ok.g ≠ .inf) ∧
     (v.ok.h.onCurve = true ∧ v.ok.h.torsionFree = true ∧ v.ok.h ≠ .inf) ∧
     (v.ok.xh.onCurve = true ∧ v.ok.xh.torsionFree = true ∧ v.ok.xh ≠ .inf)) ∧
    (Domain.new? v.vk.n).isSome = true ∧
    (∀ i ∈ v.piIndexes, i < 2 ^ 64) ∧ v.size < 2 ^ 64 ∧ v.constraints < 2 ^ 64 ∧
    48 + v.label.length + 968 + 240 + 8 * v.piIndexes.length ≤ bs.length := by
  obtain ⟨h48, hreq, hlab, hvk, hok, hpi, hsz, hcs, hd⟩ := VerifierM.fromBytes_ok h
  obtain ⟨vwf, hvl⟩ := VKey.fromBytes_wf hvk
  obtain ⟨o1, o2, o3, hol⟩ := OpeningKeyM.fromBytes_wf' hok
  refine ⟨vwf, ⟨o1, o2, o3⟩, hd, ?_, by rw [hsz]; exact bytesToNatBE_take8_lt _,
    by rw [hcs]; exact bytesToNatBE_take8_lt _, ?_⟩
  · intro i hi
    rw [hpi, List.mem_map] at hi
    obtain ⟨j, _, rfl⟩ := hi
    exact bytesToNatBE_take8_lt _
  · rw [hpi, hlab, List.length_map, List.length_range]
    simp only [List.length_take, List.length_drop] at hvl hol hreq ⊢
    omega

end Plonk
