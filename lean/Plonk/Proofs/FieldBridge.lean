/-
  Refinement lemmas level (ii) → (iii): the `Nat`-mod-`R` field operations of the executable
  model are the field operations of `ZMod R`.
-/
import Mathlib.Algebra.Field.ZMod
import Mathlib.FieldTheory.Finite.Basic
import Plonk.Proofs.Prime

namespace Plonk

/-- the field -/
abbrev F := ZMod R

/-- interpretation of a model value in the field -/
def toF (a : Nat) : F := (a : ZMod R)

theorem R_pos : 0 < R := R_prime.pos
theorem R_gt_one : 1 < R := R_prime.one_lt

@[simp] theorem toF_mod (a : Nat) : toF (a % R) = toF a := by
  unfold toF; exact ZMod.natCast_mod a R

@[simp] theorem toF_fadd (a b : Nat) : toF (fadd a b) = toF a + toF b := by
  unfold fadd; rw [toF_mod]; unfold toF; push_cast; rfl

@[simp] theorem toF_fmul (a b : Nat) : toF (fmul a b) = toF a * toF b := by
  unfold fmul; rw [toF_mod]; unfold toF; push_cast; rfl

@[simp] theorem toF_fsq (a : Nat) : toF (fsq a) = toF a * toF a := by
  unfold fsq; rw [toF_mod]; unfold toF; push_cast; rfl

theorem toF_R_sub (b : Nat) : toF (R - b % R) = - toF b := by
  have hb : b % R ≤ R := (Nat.mod_lt b R_pos).le
  unfold toF
  rw [Nat.cast_sub hb]
  simp [ZMod.natCast_mod]

@[simp] theorem toF_fneg (a : Nat) : toF (fneg a) = - toF a := by
  unfold fneg; rw [toF_mod, toF_R_sub]

@[simp] theorem toF_fsub (a b : Nat) : toF (fsub a b) = toF a - toF b := by
  unfold fsub; rw [toF_mod]
  have : toF (a + (R - b % R)) = toF a + toF (R - b % R) := by unfold toF; push_cast; rfl
  rw [this, toF_R_sub]; ring

theorem toF_eq_zero_iff (a : Nat) : toF a = 0 ↔ a % R = 0 := by
  unfold toF; rw [ZMod.natCast_eq_zero_iff]; exact Nat.dvd_iff_mod_eq_zero

theorem toF_eq_zero_of_lt {a : Nat} (h : a < R) : toF a = 0 ↔ a = 0 := by
  rw [toF_eq_zero_iff, Nat.mod_eq_of_lt h]

theorem toF_inj_of_lt {a b : Nat} (ha : a < R) (hb : b < R) : toF a = toF b ↔ a = b := by
  unfold toF
  rw [ZMod.natCast_eq_natCast_iff]; unfold Nat.ModEq
  rw [Nat.mod_eq_of_lt ha, Nat.mod_eq_of_lt hb]

theorem fadd_lt (a b : Nat) : fadd a b < R := Nat.mod_lt _ R_pos
theorem fmul_lt (a b : Nat) : fmul a b < R := Nat.mod_lt _ R_pos
theorem fsub_lt (a b : Nat) : fsub a b < R := Nat.mod_lt _ R_pos
theorem fneg_lt (a : Nat) : fneg a < R := Nat.mod_lt _ R_pos
theorem fsq_lt (a : Nat) : fsq a < R := Nat.mod_lt _ R_pos

/-- `== 0` on reduced values is `= 0` in the field -/
theorem beq_zero_iff {a : Nat} (h : a < R) : (a == 0) = true ↔ toF a = 0 := by
  rw [toF_eq_zero_of_lt h]; simp

theorem val_toF_of_lt {a : Nat} (h : a < R) : (toF a).val = a := by
  unfold toF; rw [ZMod.val_natCast, Nat.mod_eq_of_lt h]

@[simp] theorem toF_zero : toF 0 = 0 := by simp [toF]
@[simp] theorem toF_one : toF 1 = 1 := by simp [toF]
@[simp] theorem toF_ofNat (n : Nat) [n.AtLeastTwo] : toF (OfNat.ofNat n) = (OfNat.ofNat n : F) := by
  unfold toF; exact Nat.cast_ofNat
@[simp] theorem toF_two : toF 2 = 2 := toF_ofNat 2
@[simp] theorem toF_three : toF 3 = 3 := toF_ofNat 3
@[simp] theorem toF_four : toF 4 = 4 := toF_ofNat 4

/-- `= 0` on reduced values is `= 0` in the field (simp-normal form of `beq_zero_iff`) -/
theorem eq_zero_iff_toF {a : Nat} (h : a < R) : a = 0 ↔ toF a = 0 := (toF_eq_zero_of_lt h).symm

theorem toF_R_sub_one : toF (R - 1) = -1 := by
  have : toF (R - 1 % R) = - toF 1 := toF_R_sub 1
  rw [one_mod_R] at this; simpa using this

/-- `fpow` is exponentiation in the field (for exponents below `2^256`) -/
theorem toF_fpow (a e : Nat) (he : e < 2^256) : toF (fpow a e) = toF a ^ e := by
  unfold fpow
  have h := powModF_spec 256 (a % R) e R (1 % R) he
  have h1 : toF (powModF 256 (a % R) e R (1 % R)) = toF (1 % R * (a % R) ^ e) := by
    rw [← toF_mod, h, toF_mod]
  rw [h1]; unfold toF; push_cast
  simp [ZMod.natCast_mod]

theorem R_sub_two_lt : R - 2 < 2^256 := by decide +kernel

/-- `finv` is the field inverse (Fermat), including `finv 0 = 0 = 0⁻¹` -/
theorem toF_finv (a : Nat) : toF (finv a) = (toF a)⁻¹ := by
  unfold finv
  rw [toF_fpow _ _ R_sub_two_lt]
  by_cases h : toF a = 0
  · rw [h]
    have h2 : R - 2 ≠ 0 := by decide +kernel
    rw [inv_zero]
    exact zero_pow (M₀ := F) h2
  · have hc : (toF a) ^ (R - 1) = 1 := ZMod.pow_card_sub_one_eq_one h
    have h2 : (toF a) ^ (R - 2) * toF a = 1 := by
      rw [← pow_succ]
      have : R - 2 + 1 = R - 1 := by have := R_gt_one; omega
      rw [this]; exact hc
    exact eq_inv_of_mul_eq_one_left h2

@[simp] theorem toF_fdiv (a b : Nat) : toF (fdiv a b) = toF a / toF b := by
  unfold fdiv; rw [toF_fmul, toF_finv]; rfl

theorem finv?_eq_none_iff (a : Nat) : finv? a = none ↔ toF a = 0 := by
  unfold finv?; rw [toF_eq_zero_iff]; split <;> simp_all

theorem finv?_some (a b : Nat) (h : finv? a = some b) : toF a ≠ 0 ∧ toF b = (toF a)⁻¹ := by
  unfold finv? at h
  split at h
  · simp at h
  · next hne =>
    injection h with h; subst h
    exact ⟨by rw [Ne, toF_eq_zero_iff]; exact hne, toF_finv a⟩

end Plonk
