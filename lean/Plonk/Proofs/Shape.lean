/-
  Property C07 — the circuit *shape* (gates with selectors and wire indices, public-input rows in
  order, number of witnesses) produced by a composer component does not depend on witness values
  or public-input values.

  Framework:
    * `Composer.shape`, `SameShape`
    * `ShapeEq m₁ m₂` : run on two states of the same shape, `m₁` and `m₂` return the *same*
      result (results of components are witness *indices*, never values) and leave states of the
      same shape.  `ShapeEq m m` says that `m` is value-free; `ShapeEq (X v₁) (X v₂)` says that
      the parameter `v` of `X` is a value parameter (it does not influence the shape).
    * closure under `pure`, `bind`, value reads (`getVal`: the continuation must be related for
      *arbitrary pairs* of values), reads of the state (`get`: the continuation may only use the
      shape of the state).

  This file: the primitives, arithmetic, boolean/select, decomposition, range, truncation, logic.
  (`ShapePoint.lean`: curve components and the error-returning entry points.)

  Mathlib-free.  Every model function is a structural recursion (or not recursive at all), hence
  total: Lean accepted the definitions as total (no `partial`), and there is no `panic`,
  `get!`, `[i]!` or division-by-zero trap in `Plonk/Model/Composer.lean` (indexing is `getD`).
-/
import Plonk.Model.Composer

namespace Plonk
open Plonk Plonk.Composer

/-- The layout of a composer state: the gates (eleven selectors and four wire indices each), the
    rows that carry a public input (in insertion order), and the number of allocated witnesses.
    Witness values and public-input values are *not* part of it. -/
structure Shape where
  gates : Array Gate
  piRows : Array Nat
  nwit : Nat
  deriving DecidableEq, Repr

namespace Composer

/-- the layout of a state -/
def shape (c : Composer) : Shape := ⟨c.gates, c.pis.map (·.1), c.wit.size⟩

end Composer

deriving instance DecidableEq for Except

/-- two states have the same layout (witness values / public-input values may differ) -/
def SameShape (c₁ c₂ : Composer) : Prop := c₁.shape = c₂.shape

instance (c₁ c₂ : Composer) : Decidable (SameShape c₁ c₂) :=
  inferInstanceAs (Decidable (c₁.shape = c₂.shape))

theorem sameShape_iff {c₁ c₂ : Composer} :
    SameShape c₁ c₂ ↔
      c₁.gates = c₂.gates ∧ c₁.pis.map (·.1) = c₂.pis.map (·.1) ∧ c₁.wit.size = c₂.wit.size := by
  unfold SameShape Composer.shape
  constructor
  · intro h; injection h with h1 h2 h3; exact ⟨h1, h2, h3⟩
  · rintro ⟨h1, h2, h3⟩; rw [h1, h2, h3]

theorem SameShape.refl (c : Composer) : SameShape c c := rfl
theorem SameShape.symm {c₁ c₂ : Composer} (h : SameShape c₁ c₂) : SameShape c₂ c₁ := Eq.symm h
theorem SameShape.trans {c₁ c₂ c₃ : Composer} (h : SameShape c₁ c₂) (h' : SameShape c₂ c₃) :
    SameShape c₁ c₃ := Eq.trans h h'

theorem SameShape.gates_eq {c₁ c₂ : Composer} (h : SameShape c₁ c₂) : c₁.gates = c₂.gates :=
  (sameShape_iff.mp h).1
theorem SameShape.piRows_eq {c₁ c₂ : Composer} (h : SameShape c₁ c₂) :
    c₁.pis.map (·.1) = c₂.pis.map (·.1) := (sameShape_iff.mp h).2.1
theorem SameShape.wit_size {c₁ c₂ : Composer} (h : SameShape c₁ c₂) :
    c₁.wit.size = c₂.wit.size := (sameShape_iff.mp h).2.2
theorem SameShape.pis_size {c₁ c₂ : Composer} (h : SameShape c₁ c₂) :
    c₁.pis.size = c₂.pis.size := by
  have := congrArg Array.size h.piRows_eq
  simpa using this

/-- `m₁` and `m₂`, run on states of the same shape, return the same result and states of the same
    shape. -/
def ShapeEq {α : Type} (m₁ m₂ : CM α) : Prop :=
  ∀ c₁ c₂, SameShape c₁ c₂ →
    (m₁.run c₁).1 = (m₂.run c₂).1 ∧ SameShape (m₁.run c₁).2 (m₂.run c₂).2

/-- `m` is value-free: result and resulting shape are functions of the initial shape only -/
abbrev ShapeStable {α : Type} (m : CM α) : Prop := ShapeEq m m

namespace ShapeEq
variable {α β : Type}

theorem symm {m₁ m₂ : CM α} (h : ShapeEq m₁ m₂) : ShapeEq m₂ m₁ := fun c₁ c₂ hc =>
  ⟨(h c₂ c₁ hc.symm).1.symm, (h c₂ c₁ hc.symm).2.symm⟩

theorem trans {m₁ m₂ m₃ : CM α} (h : ShapeEq m₁ m₂) (h' : ShapeEq m₂ m₃) : ShapeEq m₁ m₃ :=
  fun c₁ c₂ hc =>
    ⟨(h c₁ c₁ (SameShape.refl _)).1.trans (h' c₁ c₂ hc).1,
     (h c₁ c₁ (SameShape.refl _)).2.trans (h' c₁ c₂ hc).2⟩

theorem pure (a : α) : ShapeEq (Pure.pure a : CM α) (Pure.pure a) := fun _ _ h => ⟨rfl, h⟩

theorem bind {m₁ m₂ : CM α} {k₁ k₂ : α → CM β} (hm : ShapeEq m₁ m₂)
    (hk : ∀ a, ShapeEq (k₁ a) (k₂ a)) : ShapeEq (m₁ >>= k₁) (m₂ >>= k₂) := by
  intro c₁ c₂ hc
  obtain ⟨h1, h2⟩ := hm c₁ c₂ hc
  have := hk (m₂.run c₂).1 (m₁.run c₁).2 (m₂.run c₂).2 h2
  show ((k₁ (m₁.run c₁).1).run (m₁.run c₁).2).1 = ((k₂ (m₂.run c₂).1).run (m₂.run c₂).2).1 ∧
    SameShape ((k₁ (m₁.run c₁).1).run (m₁.run c₁).2).2 ((k₂ (m₂.run c₂).1).run (m₂.run c₂).2).2
  rw [h1]
  exact this

/-- sequencing when the results of the first parts are unrelated but the continuations do not
    care (used for `Unit`-like results it is just `bind`) -/
theorem bind' {γ : Type} {m₁ : CM α} {m₂ : CM γ} {k₁ : α → CM β} {k₂ : γ → CM β}
    (hm : ∀ c₁ c₂, SameShape c₁ c₂ → SameShape (m₁.run c₁).2 (m₂.run c₂).2)
    (hk : ∀ a b, ShapeEq (k₁ a) (k₂ b)) : ShapeEq (m₁ >>= k₁) (m₂ >>= k₂) := by
  intro c₁ c₂ hc
  exact hk (m₁.run c₁).1 (m₂.run c₂).1 (m₁.run c₁).2 (m₂.run c₂).2 (hm c₁ c₂ hc)

/-- a value read: the two runs may see arbitrary, different values -/
theorem getVal_bind {w₁ w₂ : Nat} {k₁ k₂ : Nat → CM β}
    (hk : ∀ v₁ v₂, ShapeEq (k₁ v₁) (k₂ v₂)) : ShapeEq (getVal w₁ >>= k₁) (getVal w₂ >>= k₂) :=
  fun c₁ c₂ hc => hk (c₁.val w₁) (c₂.val w₂) c₁ c₂ hc

/-- a read of the whole state: the continuation may depend on its shape only -/
theorem get_bind {k₁ k₂ : Composer → CM β}
    (hk : ∀ s₁ s₂, SameShape s₁ s₂ → ShapeEq (k₁ s₁) (k₂ s₂)) :
    ShapeEq (get >>= k₁) (get >>= k₂) :=
  fun c₁ c₂ hc => hk c₁ c₂ hc c₁ c₂ hc

theorem ite {p : Prop} [Decidable p] {a₁ a₂ b₁ b₂ : CM α} (ha : ShapeEq a₁ a₂)
    (hb : ShapeEq b₁ b₂) : ShapeEq (if p then a₁ else b₁) (if p then a₂ else b₂) := by
  split
  · exact ha
  · exact hb

end ShapeEq

/-- extensible closing tactic: one `macro_rules` per proved component -/
syntax "shape_base" : tactic
macro_rules | `(tactic| shape_base) => `(tactic| with_reducible exact ShapeEq.pure _)
macro_rules | `(tactic| shape_base) => `(tactic| assumption)

/-- structural decomposition of a `ShapeEq` goal over straight-line monadic code -/
syntax "shape_step" : tactic
macro_rules | `(tactic| shape_step) => `(tactic| first
  | shape_base
  | (with_reducible refine ShapeEq.getVal_bind (fun _ _ => ?_))
  | (with_reducible refine ShapeEq.bind ?_ (fun _ => ?_))
  | (with_reducible refine ShapeEq.ite ?_ ?_))

macro "shape_tac" : tactic => `(tactic| repeat shape_step)

namespace Composer

/-! ### primitives -/

/-- `append_witness`: the value is a value parameter -/
theorem appendWitness_shape (v₁ v₂ : Nat) : ShapeEq (appendWitness v₁) (appendWitness v₂) := by
  intro c₁ c₂ h
  obtain ⟨hg, hp, hw⟩ := sameShape_iff.mp h
  refine ⟨hw, sameShape_iff.mpr ⟨hg, hp, ?_⟩⟩
  simp [appendWitness, StateT.run, hw]

macro_rules | `(tactic| shape_base) => `(tactic| with_reducible exact appendWitness_shape _ _)

end Composer

/-- two constraints are the same *up to the public-input value* (same selectors, same wires, same
    `has_public_input` flag) -/
def Constraint.SameUpToPi (s₁ s₂ : Constraint) : Prop := { s₁ with pi := 0 } = { s₂ with pi := 0 }

instance (s₁ s₂ : Constraint) : Decidable (s₁.SameUpToPi s₂) :=
  inferInstanceAs (Decidable (_ = _))

theorem Constraint.SameUpToPi.refl (s : Constraint) : s.SameUpToPi s := rfl

theorem Constraint.sameUpToPi_iff {s₁ s₂ : Constraint} :
    s₁.SameUpToPi s₂ ↔ ∃ p, s₂ = { s₁ with pi := p } := by
  unfold Constraint.SameUpToPi
  constructor
  · intro h
    refine ⟨s₂.pi, ?_⟩
    cases s₁; cases s₂; simp_all
  · rintro ⟨p, rfl⟩; rfl

theorem Constraint.SameUpToPi.toGate {s₁ s₂ : Constraint} (h : s₁.SameUpToPi s₂) :
    s₁.toGate = s₂.toGate := by
  obtain ⟨p, rfl⟩ := Constraint.sameUpToPi_iff.mp h; rfl

theorem Constraint.SameUpToPi.hasPi {s₁ s₂ : Constraint} (h : s₁.SameUpToPi s₂) :
    s₁.hasPi = s₂.hasPi := by
  obtain ⟨p, rfl⟩ := Constraint.sameUpToPi_iff.mp h; rfl

theorem Constraint.SameUpToPi.arithmetic {s₁ s₂ : Constraint} (h : s₁.SameUpToPi s₂) :
    (Constraint.arithmetic s₁).SameUpToPi (Constraint.arithmetic s₂) := by
  obtain ⟨p, rfl⟩ := Constraint.sameUpToPi_iff.mp h; rfl

namespace Composer

/-- `append_custom_gate_internal`: only the public-input *value* is a value parameter -/
theorem appendCustomGate_shape {s₁ s₂ : Constraint} (hs : s₁.SameUpToPi s₂) :
    ShapeEq (appendCustomGate s₁) (appendCustomGate s₂) := by
  intro c₁ c₂ h
  obtain ⟨hg, hp, hw⟩ := sameShape_iff.mp h
  refine ⟨rfl, sameShape_iff.mpr ⟨?_, ?_, hw⟩⟩
  · simp [appendCustomGate, StateT.run, hg, hs.toGate]
  · simp only [appendCustomGate, StateT.run, hs.hasPi, hg]
    split
    · simp [hp]
    · exact hp

theorem appendCustomGate_stable (s : Constraint) : ShapeStable (appendCustomGate s) :=
  appendCustomGate_shape (Constraint.SameUpToPi.refl s)

macro_rules | `(tactic| shape_base) => `(tactic| with_reducible exact appendCustomGate_stable _)

/-- `append_gate` -/
theorem appendGate_shape {s₁ s₂ : Constraint} (hs : s₁.SameUpToPi s₂) :
    ShapeEq (appendGate s₁) (appendGate s₂) := appendCustomGate_shape hs.arithmetic

theorem appendGate_stable (s : Constraint) : ShapeStable (appendGate s) :=
  appendGate_shape (Constraint.SameUpToPi.refl s)

macro_rules | `(tactic| shape_base) => `(tactic| (with_reducible refine appendGate_shape ?_) <;> exact rfl)

/-- `append_evaluated_output` -/
theorem appendEvaluatedOutput_shape {s₁ s₂ : Constraint} (hs : s₁.SameUpToPi s₂) :
    ShapeEq (appendEvaluatedOutput s₁) (appendEvaluatedOutput s₂) := by
  obtain ⟨p, rfl⟩ := Constraint.sameUpToPi_iff.mp hs
  unfold appendEvaluatedOutput
  refine .getVal_bind fun a₁ a₂ => .getVal_bind fun b₁ b₂ => .getVal_bind fun d₁ d₂ => ?_
  dsimp only
  by_cases h1 : (s₁.qo == 1 % R) = true
  · simp only [h1, ↓reduceIte]; shape_tac
  · by_cases h2 : (s₁.qo == R - 1) = true
    · simp only [h1, h2, ↓reduceIte, Bool.false_eq_true]; shape_tac
    · simp only [h1, h2, ↓reduceIte, Bool.false_eq_true]
      cases finv? s₁.qo
      · simp only [Option.map_none]; shape_tac
      · simp only [Option.map_some]; shape_tac

theorem appendEvaluatedOutput_stable (s : Constraint) : ShapeStable (appendEvaluatedOutput s) :=
  appendEvaluatedOutput_shape (Constraint.SameUpToPi.refl s)

/-- the branch taken by `append_evaluated_output` (an output witness is allocated or not) is
    decided by the selector `q_O` alone -/
theorem appendEvaluatedOutput_isSome (s : Constraint) (c : Composer) :
    ((appendEvaluatedOutput s).run c).1.isSome =
      (s.qo == 1 % R || s.qo == R - 1 || (finv? s.qo).isSome) := by
  unfold appendEvaluatedOutput
  simp only [bind, StateT.bind, StateT.run, getVal]
  by_cases h1 : (s.qo == 1 % R) = true
  · simp only [h1, if_true]; rfl
  · by_cases h2 : (s.qo == R - 1) = true
    · simp only [h1, h2, if_true]; simp; rfl
    · simp only [h1, h2]
      cases finv? s.qo <;> simp <;> rfl

/-- `gate_add` -/
theorem gateAdd_shape {s₁ s₂ : Constraint} (hs : s₁.SameUpToPi s₂) :
    ShapeEq (gateAdd s₁) (gateAdd s₂) := by
  obtain ⟨p, rfl⟩ := Constraint.sameUpToPi_iff.mp hs
  unfold gateAdd
  refine .bind (appendEvaluatedOutput_shape rfl) fun o => ?_
  cases o <;> exact .pure _

theorem gateAdd_stable (s : Constraint) : ShapeStable (gateAdd s) :=
  gateAdd_shape (Constraint.SameUpToPi.refl s)

macro_rules | `(tactic| shape_base) => `(tactic| with_reducible exact gateAdd_stable _)

/-- `gate_mul` -/
theorem gateMul_shape {s₁ s₂ : Constraint} (hs : s₁.SameUpToPi s₂) :
    ShapeEq (gateMul s₁) (gateMul s₂) := gateAdd_shape hs

theorem gateMul_stable (s : Constraint) : ShapeStable (gateMul s) := gateAdd_stable s

macro_rules | `(tactic| shape_base) => `(tactic| with_reducible exact gateMul_stable _)

/-- `assert_equal` -/
theorem assertEqual_stable (a b : Nat) : ShapeStable (assertEqual a b) := appendGate_stable _

macro_rules | `(tactic| shape_base) => `(tactic| with_reducible exact assertEqual_stable _ _)

/-- `assert_equal_constant`: the public value is a value parameter (whether there is one is not) -/
theorem assertEqualConstant_shape (a k : Nat) {p₁ p₂ : Option Nat} (h : p₁.isSome = p₂.isSome) :
    ShapeEq (assertEqualConstant a k p₁) (assertEqualConstant a k p₂) := by
  unfold assertEqualConstant
  cases p₁ <;> cases p₂ <;> simp at h <;> exact appendGate_shape rfl

theorem assertEqualConstant_stable (a k : Nat) (p : Option Nat) :
    ShapeStable (assertEqualConstant a k p) := assertEqualConstant_shape a k rfl

macro_rules | `(tactic| shape_base) => `(tactic| (with_reducible refine assertEqualConstant_shape _ _ ?_) <;> exact rfl)

/-- `append_constant` (the constant is part of the circuit: it is the selector `q_C`) -/
theorem appendConstant_stable (v : Nat) : ShapeStable (appendConstant v) := by
  unfold appendConstant; shape_tac

macro_rules | `(tactic| shape_base) => `(tactic| with_reducible exact appendConstant_stable _)

/-- `append_public`: any two public values — same rows -/
theorem appendPublic_shape (v₁ v₂ : Nat) : ShapeEq (appendPublic v₁) (appendPublic v₂) := by
  unfold appendPublic; shape_tac

macro_rules | `(tactic| shape_base) => `(tactic| with_reducible exact appendPublic_shape _ _)

theorem appendDummyGates_stable : ShapeStable appendDummyGates := by
  unfold appendDummyGates; shape_tac

/-- `appendWitnesses`: only the number of values matters -/
theorem appendWitnesses_shape : ∀ {l₁ l₂ : List Nat}, l₁.length = l₂.length →
    ShapeEq (appendWitnesses l₁) (appendWitnesses l₂)
  | [], [], _ => .pure _
  | _ :: _, [], h => by simp at h
  | [], _ :: _, h => by simp at h
  | a :: l₁, b :: l₂, h => by
    unfold appendWitnesses
    exact .bind (appendWitness_shape a b) fun _ =>
      appendWitnesses_shape (by simpa using h)

/-- `appendCustomGates`: the same gates up to public-input values -/
theorem appendCustomGates_shape : ∀ {l₁ l₂ : List Constraint},
    l₁.map (fun s => { s with pi := 0 }) = l₂.map (fun s => { s with pi := 0 }) →
    ShapeEq (appendCustomGates l₁) (appendCustomGates l₂)
  | [], [], _ => .pure _
  | _ :: _, [], h => by simp at h
  | [], _ :: _, h => by simp at h
  | a :: l₁, b :: l₂, h => by
    unfold appendCustomGates
    simp only [List.map_cons, List.cons.injEq] at h
    exact .bind (appendCustomGate_shape h.1) fun _ => appendCustomGates_shape h.2

theorem appendCustomGates_stable : ∀ l : List Constraint, ShapeStable (appendCustomGates l)
  | [] => .pure _
  | g :: gs => by
    unfold appendCustomGates
    exact .bind (appendCustomGate_stable g) fun _ => appendCustomGates_stable gs

macro_rules | `(tactic| shape_base) => `(tactic| with_reducible exact appendCustomGates_stable _)

/-! ### bits.rs / select.rs -/

/-- `component_boolean` -/
theorem componentBoolean_stable (a : Nat) : ShapeStable (componentBoolean a) := appendGate_stable _

macro_rules | `(tactic| shape_base) => `(tactic| with_reducible exact componentBoolean_stable _)

theorem componentDecomposition_go_shape (v₁ v₂ : Nat) : ∀ (k i acc : Nat) (bits : List Nat),
    ShapeEq (componentDecomposition.go v₁ k i acc bits) (componentDecomposition.go v₂ k i acc bits)
  | 0, _, _, _ => .pure _
  | k+1, i, acc, bits => by
    unfold componentDecomposition.go
    refine .bind (appendWitness_shape _ _) fun wb => .bind (componentBoolean_stable _) fun _ =>
      .bind (gateAdd_stable _) fun acc' => componentDecomposition_go_shape v₁ v₂ k (i+1) acc' _

/-- `component_decomposition::<N>`, every `N` -/
theorem componentDecomposition_stable (n scalar : Nat) :
    ShapeStable (componentDecomposition n scalar) := by
  unfold componentDecomposition
  refine .getVal_bind fun v₁ v₂ => .bind (componentDecomposition_go_shape v₁ v₂ n 0 _ _) ?_
  rintro ⟨acc, bits⟩
  shape_tac

macro_rules | `(tactic| shape_base) => `(tactic| with_reducible exact componentDecomposition_stable _ _)

/-- `component_select` -/
theorem componentSelect_stable (bit a b : Nat) : ShapeStable (componentSelect bit a b) := by
  unfold componentSelect; shape_tac

macro_rules | `(tactic| shape_base) => `(tactic| with_reducible exact componentSelect_stable _ _ _)

/-- `component_select_one` -/
theorem componentSelectOne_stable (bit value : Nat) :
    ShapeStable (componentSelectOne bit value) := by
  unfold componentSelectOne; shape_tac

macro_rules | `(tactic| shape_base) => `(tactic| with_reducible exact componentSelectOne_stable _ _)

/-- `component_select_zero` -/
theorem componentSelectZero_stable (bit value : Nat) :
    ShapeStable (componentSelectZero bit value) := gateMul_stable _

macro_rules | `(tactic| shape_base) => `(tactic| with_reducible exact componentSelectZero_stable _ _)

/-! ### range.rs -/

/-- `range_check_even`, every width -/
theorem rangeCheckEven_stable (witness numBits : Nat) :
    ShapeStable (rangeCheckEven witness numBits) := by
  unfold rangeCheckEven
  refine .ite (appendGate_stable _) (.getVal_bind fun v₁ v₂ => ?_)
  refine .get_bind fun s₁ s₂ hs => ?_
  rw [hs.wit_size]
  refine .bind (appendWitnesses_shape (by simp)) fun _ => ?_
  shape_tac

macro_rules | `(tactic| shape_base) => `(tactic| with_reducible exact rangeCheckEven_stable _ _)

/-- `range_check`, every width (odd widths peel the top bit) -/
theorem rangeCheck_stable (value numBits : Nat) : ShapeStable (rangeCheck value numBits) := by
  unfold rangeCheck
  shape_tac

macro_rules | `(tactic| shape_base) => `(tactic| with_reducible exact rangeCheck_stable _ _)

/-- `component_range_bits::<BITS>` -/
theorem componentRangeBits_stable (bits witness : Nat) :
    ShapeStable (componentRangeBits bits witness) := rangeCheck_stable _ _

/-- `component_range::<BIT_PAIRS>` -/
theorem componentRange_stable (bitPairs witness : Nat) :
    ShapeStable (componentRange bitPairs witness) := rangeCheckEven_stable _ _

/-! ### truncate.rs -/

theorem assertCanonicalTruncation_stable (high low numBits : Nat) :
    ShapeStable (assertCanonicalTruncation high low numBits) := by
  unfold assertCanonicalTruncation
  shape_tac

macro_rules
  | `(tactic| shape_base) => `(tactic| with_reducible exact assertCanonicalTruncation_stable _ _ _)

theorem bindTruncationSplit_stable (input low numBits : Nat) :
    ShapeStable (bindTruncationSplit input low numBits) := by
  unfold bindTruncationSplit
  shape_tac

macro_rules
  | `(tactic| shape_base) => `(tactic| with_reducible exact bindTruncationSplit_stable _ _ _)

/-- `component_truncate::<N>` -/
theorem componentTruncate_stable (n witness : Nat) : ShapeStable (componentTruncate n witness) := by
  unfold componentTruncate
  shape_tac

macro_rules | `(tactic| shape_base) => `(tactic| with_reducible exact componentTruncate_stable _ _)

/-! ### logic.rs -/

/-- the quad loop of `append_logic_component`: the operand values, the running accumulators and
    the quad counter only feed witness values -/
theorem appendLogicComponent_go_shape (pairs : Nat) (isXor : Bool) (av₁ av₂ bv₁ bv₂ : Nat) :
    ∀ (k i₁ i₂ : Nat) (s : Constraint) (la₁ la₂ ra₁ ra₂ oa₁ oa₂ : Nat),
      ShapeEq (appendLogicComponent.go pairs isXor av₁ bv₁ k i₁ s la₁ ra₁ oa₁)
        (appendLogicComponent.go pairs isXor av₂ bv₂ k i₂ s la₂ ra₂ oa₂)
  | 0, _, _, _, _, _, _, _, _, _ => .pure _
  | k+1, i₁, i₂, s, la₁, la₂, ra₁, ra₂, oa₁, oa₂ => by
    unfold appendLogicComponent.go
    refine .bind (appendWitness_shape _ _) fun wa => .bind (appendWitness_shape _ _) fun wb =>
      .bind (appendWitness_shape _ _) fun wc => .bind (appendWitness_shape _ _) fun wd =>
      .bind (appendCustomGate_stable _) fun _ =>
        appendLogicComponent_go_shape pairs isXor av₁ av₂ bv₁ bv₂ k _ _ _ _ _ _ _ _ _

/-- `append_logic_component::<BIT_PAIRS>`, every pair count, AND and XOR -/
theorem appendLogicComponent_stable (pairs a b : Nat) (isXor : Bool) :
    ShapeStable (appendLogicComponent pairs a b isXor) := by
  unfold appendLogicComponent
  refine .getVal_bind fun av₁ av₂ => .getVal_bind fun bv₁ bv₂ =>
    .bind (appendLogicComponent_go_shape pairs isXor av₁ av₂ bv₁ bv₂ pairs 0 0 _ 0 0 0 0 0 0)
      fun s => ?_
  shape_tac

macro_rules
  | `(tactic| shape_base) => `(tactic| with_reducible exact appendLogicComponent_stable _ _ _ _)

end Composer
end Plonk
