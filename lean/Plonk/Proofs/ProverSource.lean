/-
  Tie by TRANSLATION, part 2: the PROVER-SIDE GLUE. `Plonk/GeneratedProver.lean` is regenerated from
  `src/proof_system/quotient_poly.rs`, `src/proof_system/linearization_poly.rs`, `src/composer/permutation.rs`, the
  permutation widget's `compute_linearization` and `src/compiler/prover.rs::prove_inner` by `tools/rs2lean_prover.py`.
  The theorems below state that each translated definition IS the corresponding function of the model
  (`Model/Prover.lean`): `quotientEvals` (array level, incl. the wrap-around entries, `i + 8`, `i & 7`, the L1 vector and
  the `len > 7·(size/8)` rule), `permVec` (array level, incl. the `Option` of the non-zero assertion), round 4
  (`evalsModel`) and round 5 (`linPolyModel`) of `prove`.

  Instantiation conventions: a Rust vector of scalars is `List F`; the model's `Array Nat` `X` is passed as `arrF X`;
  `Polynomial` is `Poly` (= `List Nat`) where the source only hands it to a kernel, and `F[X]` (`toPoly p`, scalars as
  `C (toF x)`) where the source does ring arithmetic with it. Untranslated kernels are parameters of the generated
  definitions; they are either instantiated with the model's kernels (`Domain.cosetFft`, ...) or — where they take a
  polynomial-ring argument — quantified, with one hypothesis per call saying that the kernel returns the model's value ON
  THE ARGUMENTS THE SOURCE PASSES (so a changed argument breaks the proof).

  Proof-engineering note: never let the KERNEL compare `x % R`-terms with open `x` up to unfolding (it unfolds `Nat.mod`
  and runs for minutes); every step below leaves syntactically aligned goals.
-/
import Plonk.GeneratedProver
import Plonk.Proofs.WidgetSource
import Plonk.Proofs.QuotientModel
import Plonk.Proofs.QuotientCoset

set_option linter.unusedSimpArgs false
set_option linter.unusedVariables false

namespace Plonk.ProverSource
open Plonk Plonk.GeneratedWidgets Plonk.GeneratedProver Plonk.WidgetSource Plonk.Quot Polynomial

/-! ## list helpers -/

theorem getD_map_toF (l : List Nat) (i : Nat) : (l.map toF).getD i 0 = toF (l.getD i 0) := by
  simp only [List.getD_eq_getElem?_getD, List.getElem?_map]
  cases l[i]? <;> simp

theorem getD_map_rangeF (f : Nat → F) (n i : Nat) (h : i < n) : ((List.range n).map f).getD i 0 = f i := by
  simp [List.getD_eq_getElem?_getD, h]

theorem arr_getD (l : List Nat) (i : Nat) : l.toArray.getD i 0 = l.getD i 0 := by
  simp only [Array.getD_eq_getD_getElem?, List.getElem?_toArray, ← List.getD_eq_getElem?_getD]

theorem toList_getD (a : Array Nat) (i : Nat) : a.toList.getD i 0 = a.getD i 0 := by
  simp only [Array.getD_eq_getD_getElem?, List.getD_eq_getElem?_getD, Array.getElem?_toList]

/-- the wrap-around loop `for i in 0..k { v.push(v[i]) }` -/
theorem push_loop (v : List F) (k : Nat) (hk : k ≤ v.length) :
    (List.range k).foldl (fun (w : List F) i => w ++ [w.getD i 0]) v = v ++ v.take k := by
  induction k with
  | zero => simp
  | succ k ih =>
    rw [List.range_succ, List.foldl_append, ih (by omega)]
    simp only [List.foldl_cons, List.foldl_nil]
    have h1 : (v ++ v.take k).getD k 0 = v.getD k 0 := by
      simp only [List.getD_eq_getElem?_getD, List.getElem?_append, show k < v.length by omega, if_true]
    rw [h1, List.append_assoc]
    congr 1
    rw [List.take_add_one]
    simp [List.getD_eq_getElem?_getD, show k < v.length by omega]

theorem foldl_prod4 {α : Type} (f1 f2 f3 f4 : List F → α → List F) (l : List α) :
    ∀ (a b c d : List F),
    l.foldl (fun (st : List F × List F × List F × List F) i => (f1 st.1 i, f2 st.2.1 i, f3 st.2.2.1 i, f4 st.2.2.2 i))
      (a, b, c, d) = (l.foldl f1 a, l.foldl f2 b, l.foldl f3 c, l.foldl f4 d) := by
  induction l with
  | nil => intros; rfl
  | cons x l ih => intro a b c d; simp only [List.foldl_cons]; exact ih _ _ _ _

theorem and7 (i : Nat) : i &&& 7 = i % 8 := Nat.and_two_pow_sub_one_eq_mod i 3


theorem wrap_loop4 (z a b d : List F) (hz : 8 ≤ z.length) (ha : 8 ≤ a.length) (hb : 8 ≤ b.length) (hd : 8 ≤ d.length) :
    List.foldl (fun (st : List F × List F × List F × List F) (i : Nat) =>
        (st.1 ++ [st.1.getD i 0], st.2.1 ++ [st.2.1.getD i 0], st.2.2.1 ++ [st.2.2.1.getD i 0],
         st.2.2.2 ++ [st.2.2.2.getD i 0])) (z, a, b, d) (List.range 8)
      = (z ++ z.take 8, a ++ a.take 8, b ++ b.take 8, d ++ d.take 8) := by
  rw [foldl_prod4 (fun w i => w ++ [w.getD i 0]) (fun w i => w ++ [w.getD i 0]) (fun w i => w ++ [w.getD i 0])
    (fun w i => w ++ [w.getD i 0]), push_loop z 8 hz, push_loop a 8 ha, push_loop b 8 hb, push_loop d 8 hd]

theorem getD_map0 (f : F → F) (hf : f 0 = 0) (l : List F) (i : Nat) : (l.map f).getD i 0 = f (l.getD i 0) := by
  simp only [List.getD_eq_getElem?_getD, List.getElem?_map]
  cases l[i]? <;> simp [hf]

theorem getD_zipWith0 (f : F → F → F) (hl : ∀ y, f 0 y = 0) (hr : ∀ x, f x 0 = 0) (l₁ l₂ : List F) (i : Nat) :
    (List.zipWith f l₁ l₂).getD i 0 = f (l₁.getD i 0) (l₂.getD i 0) := by
  simp only [List.getD_eq_getElem?_getD, List.getElem?_zipWith]
  cases l₁[i]? <;> cases l₂[i]? <;> simp [hl, hr]

/-- the field elements stored in an array of model values -/
def arrF (a : Array Nat) : List F := a.toList.map toF

theorem arrF_getD (a : Array Nat) (i : Nat) : (arrF a).getD i 0 = toF (a.getD i 0) := by
  rw [arrF, getD_map_toF, toList_getD]

/-- a vector with its first eight entries appended: the shape of the model's `cosetEvals` -/
def wrap8 (e : List Nat) : Array Nat := (e ++ e.take 8).toArray

theorem wrapF_getD (e : List Nat) (i : Nat) :
    (e.map toF ++ (e.map toF).take 8).getD i 0 = toF ((wrap8 e).getD i 0) := by
  rw [wrap8, arr_getD, ← List.map_take, ← List.map_append, getD_map_toF]

theorem wrap8_getD_lt (e : List Nat) (i : Nat) (h : i < e.length) : (wrap8 e).getD i 0 = e.getD i 0 := by
  rw [wrap8, arr_getD, getD_append', if_pos h]

/-! ## (a) `quotient_poly.rs` -/

theorem l1den_list (linE : Array Nat) :
    List.map ((fun x_inv : F => x_inv⁻¹) ∘ fun evaluation => evaluation - 1) (arrF linE)
      = (batchInversion (List.map (fun e => fsub e 1) linE.toList)).map toF := by
  unfold batchInversion arrF
  rw [List.map_map, List.map_map, List.map_map]
  apply List.map_congr_left
  intro x _
  simp only [Function.comp, toF_batchInv_elem, toF_fsub, toF_one]

theorem l1den_getD (linE : Array Nat) (i : Nat) :
    (List.map ((fun x_inv : F => x_inv⁻¹) ∘ fun evaluation => evaluation - 1) (arrF linE)).getD i 0
      = toF ((batchInversion (List.map (fun e => fsub e 1) linE.toList)).getD i 0) := by
  rw [l1den_list, getD_map_toF]

theorem first_lagrange_getD (linE vh : Array Nat) (c : F) (i : Nat) :
    (List.zipWith (fun (denominator_inv vanishing : F) => denominator_inv * (vanishing * c))
        (List.map ((fun x_inv : F => x_inv⁻¹) ∘ fun evaluation => evaluation - 1) (arrF linE)) (arrF vh)).getD i 0
      = toF ((batchInversion (List.map (fun e => fsub e 1) linE.toList)).getD i 0) * (toF (vh.getD i 0) * c) := by
  rw [getD_zipWith0 _ (by intro y; ring1) (by intro x; ring1), l1den_getD, arrF_getD]

set_option maxHeartbeats 400000 in
/-- **The quotient numerator, index by index** (`compute_circuit_satisfiability_equation`, `compute_permutation_checks`
    and the closure of `compute`): for arbitrary transform kernel `cf` (the coset evaluations of a polynomial, as model
    values) the translated vector `quotient` is the model's `quotientEvals` on the wrapped evaluation arrays: the eight
    wrap-around pushes, the reads at `i` / `i + 8`, the selector and sigma arrays of each widget call, the challenge of
    each widget, `+ pi`, the vector `(lin_i − 1)⁻¹ · vanishing_i · (size_inv · 8)` times `α²`, and
    `· vanishing_coset_inverses[i & 7]` all agree. -/
theorem quotient_evals_source {Dom Pol : Type} (cf : Dom → Pol → List Nat) (sz : Dom → Nat) (szInv : Dom → Nat)
    (qd : Dom) (zP aP bP cP dP piP : Pol) (selE sigE8 : Array (Array Nat)) (linE vh vhInv8 : Array Nat)
    (alpha beta gamma rSep lSep fSep vSep : Nat)
    (hz : 8 ≤ (cf qd zP).length) (ha : 8 ≤ (cf qd aP).length) (hb : 8 ≤ (cf qd bP).length)
    (hd : 8 ≤ (cf qd dP).length) (hc : sz qd ≤ (cf qd cP).length) :
    quotient_compute_quotient (A := F) (dom_coset_fft := fun d p => (cf d p).map toF) (dom_size := sz)
      (dom_size_inv := fun d => toF (szInv d)) (quotient_domain := qd)
      (z_poly := zP) (a_poly := aP) (b_poly := bP) (c_poly := cP) (d_poly := dP) (public_inputs_poly := piP)
      (vanishing_coset_inverses := arrF vhInv8)
      (alpha := toF alpha) (beta := toF beta) (gamma := toF gamma)
      (range_challenge := toF rSep) (logic_challenge := toF lSep) (fixed_base_challenge := toF fSep)
      (var_base_challenge := toF vSep)
      (EDWARDS_D := dF) (K1 := toF Generated.K1) (K2 := toF Generated.K2) (K3 := toF Generated.K3)
      (prover_key_arithmetic_q_m_1 := arrF (selE.getD 0 #[])) (prover_key_arithmetic_q_l_1 := arrF (selE.getD 1 #[]))
      (prover_key_arithmetic_q_r_1 := arrF (selE.getD 2 #[])) (prover_key_arithmetic_q_o_1 := arrF (selE.getD 3 #[]))
      (prover_key_arithmetic_q_f_1 := arrF (selE.getD 4 #[])) (prover_key_arithmetic_q_c_1 := arrF (selE.getD 5 #[]))
      (prover_key_arithmetic_q_arith_1 := arrF (selE.getD 6 #[]))
      (prover_key_range_q_range_1 := arrF (selE.getD 7 #[]))
      (prover_key_logic_q_logic_1 := arrF (selE.getD 8 #[])) (prover_key_logic_q_c_1 := arrF (selE.getD 5 #[]))
      (prover_key_fixed_base_q_fixed_group_add_1 := arrF (selE.getD 9 #[]))
      (prover_key_fixed_base_q_c_1 := arrF (selE.getD 5 #[])) (prover_key_fixed_base_q_l_1 := arrF (selE.getD 1 #[]))
      (prover_key_fixed_base_q_r_1 := arrF (selE.getD 2 #[]))
      (prover_key_variable_base_q_variable_group_add_1 := arrF (selE.getD 10 #[]))
      (prover_key_permutation_linear_evaluations := arrF linE)
      (prover_key_permutation_linear_evaluations_evals := arrF linE)
      (prover_key_permutation_s_sigma_1_1 := arrF (sigE8.getD 0 #[]))
      (prover_key_permutation_s_sigma_2_1 := arrF (sigE8.getD 1 #[]))
      (prover_key_permutation_s_sigma_3_1 := arrF (sigE8.getD 2 #[]))
      (prover_key_permutation_s_sigma_4_1 := arrF (sigE8.getD 3 #[]))
      (prover_key_v_h_coset_8n_evals := arrF vh)
    = (quotientEvals (sz qd) selE sigE8 linE (wrap8 (cf qd aP)) (wrap8 (cf qd bP)) (wrap8 (cf qd cP))
        (wrap8 (cf qd dP)) (wrap8 (cf qd zP)) (cf qd piP).toArray vh vhInv8
        (batchInversion (linE.toList.map fun e => fsub e 1)).toArray (fmul (szInv qd) 8)
        beta gamma alpha rSep lSep fSep vSep).map toF := by
  simp only [quotient_compute_quotient, quotient_gate, quotient_perm, quotientEvals, List.map_map]
  rw [wrap_loop4 _ _ _ _ (by simpa using hz) (by simpa using ha) (by simpa using hb) (by simpa using hd)]
  apply List.map_congr_left
  intro i hi
  rw [List.mem_range] at hi
  simp only [Function.comp]
  rw [getD_map_rangeF _ _ _ hi, getD_map_rangeF _ _ _ hi]
  simp only [getD_map_toF, arrF_getD, wrapF_getD, arr_getD, and7]
  have hci := wrap8_getD_lt (cf qd cP) i (lt_of_lt_of_le hi hc)
  simp only [first_lagrange_getD, hci, range_quotient_source, logic_quotient_source, fixed_quotient_source,
    var_quotient_source, arith_quotient_i, perm_quotient_i, perm_quotient_identity_i, perm_quotient_copy_i,
    perm_quotient_one_i, toF_fmul, toF_fadd, toF_fsub, toF_fneg, toF_fsq, toF_one, toF_arithVal, arithF, toF_zero,
    toF_ofNat 8, toF_rangeScalar, toF_logicScalar, toF_varScalar, rowEvals]
  ring1

theorem map_val_map_toF (l : List Nat) : (l.map toF).map ZMod.val = l.map (· % R) := by
  rw [List.map_map]
  apply List.map_congr_left
  intro x _
  simp only [Function.comp, toF, ZMod.val_natCast]

theorem ofCoeffs_map_mod (l : List Nat) : Poly.ofCoeffs (l.map (· % R)) = Poly.ofCoeffs l := by
  unfold Poly.ofCoeffs
  rw [List.map_map]
  congr 1
  apply List.map_congr_left
  intro x _
  simp only [Function.comp, Nat.mod_mod]

theorem cosetIfft_map_mod (d : Domain) (v : List Nat) : d.cosetIfft (v.map (· % R)) = d.cosetIfft v := by
  unfold Domain.cosetIfft Domain.ifft
  rw [List.map_map]
  have h : ((fun x : Nat => x % R) ∘ fun x => x % R) = fun x => x % R := by
    funext x
    simp only [Function.comp, Nat.mod_mod]
  rw [h]

/-- **`quotient_poly::compute`**, whole function: coset evaluations with wrap-around, numerator, division by the vanishing
    values, `coset_ifft`, `from_coefficients_vec` and the rule `len() > 7 * (size / 8)`, for arbitrary transform kernels
    `cf` / `ci` on model values. The right-hand side is the text of round 3 of the model's `prove`. -/
theorem quotient_compute_source {Dom : Type} (cf : Dom → Poly → List Nat) (ci : Dom → List Nat → List Nat)
    (sz : Dom → Nat) (szInv : Dom → Nat)
    (qd : Dom) (zP aP bP cP dP piP : Poly) (selE sigE8 : Array (Array Nat)) (linE vh vhInv8 : Array Nat)
    (alpha beta gamma rSep lSep fSep vSep : Nat)
    (hz : 8 ≤ (cf qd zP).length) (ha : 8 ≤ (cf qd aP).length) (hb : 8 ≤ (cf qd bP).length)
    (hd : 8 ≤ (cf qd dP).length) (hc : sz qd ≤ (cf qd cP).length) :
    quotient_compute (A := F) (Pol := Poly) (dom_coset_fft := fun d p => (cf d p).map toF) (dom_size := sz)
      (dom_size_inv := fun d => toF (szInv d))
      (dom_coset_ifft := fun d l => (ci d (l.map ZMod.val)).map toF)
      (poly_from_coefficients_vec := fun l => Poly.ofCoeffs (l.map ZMod.val)) (poly_len := List.length)
      (quotient_domain := qd)
      (z_poly := zP) (a_poly := aP) (b_poly := bP) (c_poly := cP) (d_poly := dP) (public_inputs_poly := piP)
      (vanishing_coset_inverses := arrF vhInv8)
      (alpha := toF alpha) (beta := toF beta) (gamma := toF gamma)
      (range_challenge := toF rSep) (logic_challenge := toF lSep) (fixed_base_challenge := toF fSep)
      (var_base_challenge := toF vSep)
      (EDWARDS_D := dF) (K1 := toF Generated.K1) (K2 := toF Generated.K2) (K3 := toF Generated.K3)
      (prover_key_arithmetic_q_m_1 := arrF (selE.getD 0 #[])) (prover_key_arithmetic_q_l_1 := arrF (selE.getD 1 #[]))
      (prover_key_arithmetic_q_r_1 := arrF (selE.getD 2 #[])) (prover_key_arithmetic_q_o_1 := arrF (selE.getD 3 #[]))
      (prover_key_arithmetic_q_f_1 := arrF (selE.getD 4 #[])) (prover_key_arithmetic_q_c_1 := arrF (selE.getD 5 #[]))
      (prover_key_arithmetic_q_arith_1 := arrF (selE.getD 6 #[]))
      (prover_key_range_q_range_1 := arrF (selE.getD 7 #[]))
      (prover_key_logic_q_logic_1 := arrF (selE.getD 8 #[])) (prover_key_logic_q_c_1 := arrF (selE.getD 5 #[]))
      (prover_key_fixed_base_q_fixed_group_add_1 := arrF (selE.getD 9 #[]))
      (prover_key_fixed_base_q_c_1 := arrF (selE.getD 5 #[])) (prover_key_fixed_base_q_l_1 := arrF (selE.getD 1 #[]))
      (prover_key_fixed_base_q_r_1 := arrF (selE.getD 2 #[]))
      (prover_key_variable_base_q_variable_group_add_1 := arrF (selE.getD 10 #[]))
      (prover_key_permutation_linear_evaluations := arrF linE)
      (prover_key_permutation_linear_evaluations_evals := arrF linE)
      (prover_key_permutation_s_sigma_1_1 := arrF (sigE8.getD 0 #[]))
      (prover_key_permutation_s_sigma_2_1 := arrF (sigE8.getD 1 #[]))
      (prover_key_permutation_s_sigma_3_1 := arrF (sigE8.getD 2 #[]))
      (prover_key_permutation_s_sigma_4_1 := arrF (sigE8.getD 3 #[]))
      (prover_key_v_h_coset_8n_evals := arrF vh)
    = (let quot := quotientEvals (sz qd) selE sigE8 linE (wrap8 (cf qd aP)) (wrap8 (cf qd bP)) (wrap8 (cf qd cP))
        (wrap8 (cf qd dP)) (wrap8 (cf qd zP)) (cf qd piP).toArray vh vhInv8
        (batchInversion (linE.toList.map fun e => fsub e 1)).toArray (fmul (szInv qd) 8)
        beta gamma alpha rSep lSep fSep vSep
       let tPoly := Poly.ofCoeffs (ci qd (quot.map (· % R)))
       if tPoly.length > 7 * (sz qd / 8) then Except.error "Error::CircuitUnsatisfied" else Except.ok tPoly) := by
  simp only [quotient_compute]
  rw [quotient_evals_source cf sz szInv qd zP aP bP cP dP piP selE sigE8 linE vh vhInv8 alpha beta gamma rSep lSep
    fSep vSep hz ha hb hd hc]
  simp only [map_val_map_toF, ofCoeffs_map_mod]

/-- the instance of `prove`: the big domain `d8` of size `8·n`, the kernels `Domain.cosetFft` / `Domain.cosetIfft`, the
    arrays stored in the prover key. The rule reads `len > 7·n`. -/
theorem quotient_compute_prove (k : PKey) (m : Nat) (d d8 : Domain) (hd : Domain.new? m = some d)
    (hd8 : Domain.new? (8 * d.size) = some d8) (zP aP bP cP dP piP : Poly)
    (alpha beta gamma rSep lSep fSep vSep : Nat) :
    quotient_compute (A := F) (Pol := Poly) (dom_coset_fft := fun (d : Domain) p => (d.cosetFft p).map toF)
      (dom_size := Domain.size) (dom_size_inv := fun d => toF d.sizeInv)
      (dom_coset_ifft := fun d l => (d.cosetIfft (l.map ZMod.val)).map toF)
      (poly_from_coefficients_vec := fun l => Poly.ofCoeffs (l.map ZMod.val)) (poly_len := List.length)
      (quotient_domain := d8)
      (z_poly := zP) (a_poly := aP) (b_poly := bP) (c_poly := cP) (d_poly := dP) (public_inputs_poly := piP)
      (vanishing_coset_inverses := arrF (batchInversion (k.vh.toList.take 8)).toArray)
      (alpha := toF alpha) (beta := toF beta) (gamma := toF gamma)
      (range_challenge := toF rSep) (logic_challenge := toF lSep) (fixed_base_challenge := toF fSep)
      (var_base_challenge := toF vSep)
      (EDWARDS_D := dF) (K1 := toF Generated.K1) (K2 := toF Generated.K2) (K3 := toF Generated.K3)
      (prover_key_arithmetic_q_m_1 := arrF (k.selE.getD 0 #[])) (prover_key_arithmetic_q_l_1 := arrF (k.selE.getD 1 #[]))
      (prover_key_arithmetic_q_r_1 := arrF (k.selE.getD 2 #[])) (prover_key_arithmetic_q_o_1 := arrF (k.selE.getD 3 #[]))
      (prover_key_arithmetic_q_f_1 := arrF (k.selE.getD 4 #[])) (prover_key_arithmetic_q_c_1 := arrF (k.selE.getD 5 #[]))
      (prover_key_arithmetic_q_arith_1 := arrF (k.selE.getD 6 #[]))
      (prover_key_range_q_range_1 := arrF (k.selE.getD 7 #[]))
      (prover_key_logic_q_logic_1 := arrF (k.selE.getD 8 #[])) (prover_key_logic_q_c_1 := arrF (k.selE.getD 5 #[]))
      (prover_key_fixed_base_q_fixed_group_add_1 := arrF (k.selE.getD 9 #[]))
      (prover_key_fixed_base_q_c_1 := arrF (k.selE.getD 5 #[])) (prover_key_fixed_base_q_l_1 := arrF (k.selE.getD 1 #[]))
      (prover_key_fixed_base_q_r_1 := arrF (k.selE.getD 2 #[]))
      (prover_key_variable_base_q_variable_group_add_1 := arrF (k.selE.getD 10 #[]))
      (prover_key_permutation_linear_evaluations := arrF k.linE)
      (prover_key_permutation_linear_evaluations_evals := arrF k.linE)
      (prover_key_permutation_s_sigma_1_1 := arrF (k.sigE8.getD 0 #[]))
      (prover_key_permutation_s_sigma_2_1 := arrF (k.sigE8.getD 1 #[]))
      (prover_key_permutation_s_sigma_3_1 := arrF (k.sigE8.getD 2 #[]))
      (prover_key_permutation_s_sigma_4_1 := arrF (k.sigE8.getD 3 #[]))
      (prover_key_v_h_coset_8n_evals := arrF k.vh)
    = (let quot := quotientEvals d8.size k.selE k.sigE8 k.linE (cosetEvals d8 aP) (cosetEvals d8 bP) (cosetEvals d8 cP)
        (cosetEvals d8 dP) (cosetEvals d8 zP) (d8.cosetFft piP).toArray k.vh
        (batchInversion (k.vh.toList.take 8)).toArray
        (batchInversion (k.linE.toList.map fun e => fsub e 1)).toArray (fmul d8.sizeInv 8)
        beta gamma alpha rSep lSep fSep vSep
       let tPoly := Poly.ofCoeffs (d8.cosetIfft quot)
       if tPoly.length > 7 * d.size then Except.error "Error::CircuitUnsatisfied" else Except.ok tPoly) := by
  have h8 : d8.WF := Domain.new?_WF _ d8 hd8
  have hsz : d8.size = 8 * d.size := (gen8_pow_eight m d d8 hd hd8).1
  have hpos : 0 < d.size := (Domain.new?_WF _ d hd).size_pos
  have hlen : ∀ p : Poly, (d8.cosetFft p).length = d8.size := fun p => Domain.cosetFft_length h8 (le_refl 1) p
  have hdiv : 7 * (d8.size / 8) = 7 * d.size := by rw [hsz, Nat.mul_div_cancel_left _ (by omega : 0 < 8)]
  rw [quotient_compute_source (fun (d : Domain) p => d.cosetFft p) (fun d l => d.cosetIfft l) Domain.size
    Domain.sizeInv d8 zP aP bP cP dP piP k.selE k.sigE8 k.linE k.vh (batchInversion (k.vh.toList.take 8)).toArray
    alpha beta gamma rSep lSep fSep vSep
    (by rw [hlen, hsz]; omega) (by rw [hlen, hsz]; omega) (by rw [hlen, hsz]; omega) (by rw [hlen, hsz]; omega)
    (by rw [hlen])]
  simp only [hdiv, wrap8, cosetEvals, cosetIfft_map_mod]
  first | done | rfl

/-! ## (c) `composer/permutation.rs` -/

theorem getD_map_nil (l : List (List Nat)) (j : Nat) :
    (l.map (List.map toF)).getD j [] = (l.getD j []).map toF := by
  simp only [List.getD_eq_getElem?_getD, List.getElem?_map]
  cases l[j]? <;> rfl

theorem permutation_numerators_source (roots aS bS cS dS : List Nat) (beta gamma : Nat) :
    permutation_numerators (A := F) (roots := roots.map toF)
      (wires := [aS.map toF, bS.map toF, cS.map toF, dS.map toF]) (beta := toF beta) (gamma := toF gamma)
      (K1 := toF Generated.K1) (K2 := toF Generated.K2) (K3 := toF Generated.K3)
    = (permNums roots.length roots aS bS cS dS beta gamma).map toF := by
  simp only [permutation_numerators, permNums, List.length_map, List.map_map]
  apply List.map_congr_left
  intro i _
  simp only [Function.comp, List.getD_cons_zero, List.getD_cons_succ, getD_map_toF, toF_fmul, toF_fadd]

theorem permutation_denominators_source (aS bS cS dS : List Nat) (sigE : List (List Nat)) (beta gamma : Nat) :
    permutation_denominators (A := F) (wires := [aS.map toF, bS.map toF, cS.map toF, dS.map toF])
      (sigma_evaluations := sigE.map (List.map toF)) (beta := toF beta) (gamma := toF gamma)
    = (permDens aS.length aS bS cS dS sigE beta gamma).map toF := by
  simp only [permutation_denominators, permDens, List.getD_cons_zero, List.length_map, List.map_map]
  apply List.map_congr_left
  intro i _
  simp only [Function.comp, List.getD_cons_zero, List.getD_cons_succ, getD_map_toF, getD_map_nil, toF_fmul, toF_fadd]

theorem getD_map_inv_toF (l : List Nat) (i : Nat) :
    (List.map ((fun x_inv : F => x_inv⁻¹) ∘ toF) l).getD i 0 = (toF (l.getD i 0))⁻¹ := by
  simp only [List.getD_eq_getElem?_getD, List.getElem?_map]
  cases l[i]? with
  | none => simp only [Option.map_none, Option.getD_none, toF_zero, inv_zero]
  | some x => simp only [Option.map_some, Option.getD_some, Function.comp]

/-- iterates of a step function over the field -/
def iterF (g : Nat → F → F) (s : F) : Nat → F
  | 0 => s
  | i + 1 => g i (iterF g s i)

theorem foldl_iterF (g : Nat → F → F) (l0 : List F) (s : F) (m : Nat) :
    (List.range m).foldl (fun (st : List F × F) i => (st.1 ++ [st.2], g i st.2)) (l0, s) =
      (l0 ++ (List.range m).map (iterF g s), iterF g s m) := by
  induction m with
  | zero => simp [iterF]
  | succ m ih =>
    rw [List.range_succ, List.foldl_append, ih]
    simp [iterF]

theorem all_ne_zero_eq (l : List Nat) (hl : ∀ x ∈ l, x < R) :
    (List.all (l.map toF) (fun (v : F) => decide (v ≠ 0))) = !(l.any (· == 0)) := by
  induction l with
  | nil => rfl
  | cons x l ih =>
    have hx : x < R := hl x (by simp)
    rw [List.map_cons, List.all_cons, List.any_cons, ih (fun y hy => hl y (by simp [hy])), Bool.not_or]
    congr 1
    by_cases h : toF x = 0
    · have : (x == 0) = true := (beq_zero_iff hx).mpr h
      simp [h, this]
    · have : (x == 0) = false := by
        rw [Bool.eq_false_iff]; intro hc; exact h ((beq_zero_iff hx).mp hc)
      simp [h, this]

/-- **The permutation accumulator** (`compute_permutation_vec` with `permutation_numerators` / `permutation_denominators`):
    the translated function — `none` where the Rust code's `assert!` panics — is the model's `permVec`: per-row numerator
    `∏ (wire_j + β·K_j·root_i + γ)` and denominator `∏ (wire_j + β·σ_j(i) + γ)`, batch inversion, initial `1`, entry `i` is
    the product of the rows before `i`, the last ratio is not multiplied in. -/
theorem compute_permutation_vec_source {Dom : Type} (sz : Dom → Nat) (els : Dom → List Nat) (dom : Dom)
    (aS bS cS dS : List Nat) (sigE : List (List Nat)) (beta gamma : Nat)
    (hr : (els dom).length = sz dom) (ha : aS.length = sz dom) :
    compute_permutation_vec (A := F) (dom_size := sz) (dom_elements := fun d => (els d).map toF) (domain := dom)
      (wires := [aS.map toF, bS.map toF, cS.map toF, dS.map toF]) (beta := toF beta) (gamma := toF gamma)
      (sigma_evaluations := sigE.map (List.map toF))
      (K1 := toF Generated.K1) (K2 := toF Generated.K2) (K3 := toF Generated.K3)
    = (permVec (sz dom) (els dom) aS bS cS dS sigE beta gamma).map (List.map toF) := by
  simp only [compute_permutation_vec]
  rw [permutation_numerators_source, permutation_denominators_source, permVec_eq, hr, ha,
    all_ne_zero_eq _ (fun x hx => by
      obtain ⟨j, _, rfl⟩ := List.mem_map.mp hx
      exact fmul_lt _ _)]
  cases hany : (permDens (sz dom) aS bS cS dS sigE beta gamma).any (· == 0)
  · simp only [Bool.not_false, not_true_eq_false, if_false, Bool.false_eq_true, Option.map_some]
    congr 1
    rw [foldl_iterF (fun i x => if i + 1 < sz dom then
        x * ((List.map toF (permNums (sz dom) (els dom) aS bS cS dS beta gamma)).getD i 0 *
          (List.map (fun x_inv : F => x_inv⁻¹) (List.map toF (permDens (sz dom) aS bS cS dS sigE beta gamma))).getD i 0)
        else x),
      foldl_iter (fun i cur => if i + 1 < sz dom then
        fmul cur (fmul ((permNums (sz dom) (els dom) aS bS cS dS beta gamma).getD i 0)
          ((batchInversion (permDens (sz dom) aS bS cS dS sigE beta gamma)).getD i 0)) else cur)]
    simp only [List.nil_append, List.reverse_reverse, List.map_map]
    have key : ∀ i, iterF (fun i x => if i + 1 < sz dom then
        x * ((List.map toF (permNums (sz dom) (els dom) aS bS cS dS beta gamma)).getD i 0 *
          (List.map ((fun x_inv : F => x_inv⁻¹) ∘ toF) (permDens (sz dom) aS bS cS dS sigE beta gamma)).getD i 0)
        else x) 1 i
      = toF (iterFrom (fun i cur => if i + 1 < sz dom then
        fmul cur (fmul ((permNums (sz dom) (els dom) aS bS cS dS beta gamma).getD i 0)
          ((batchInversion (permDens (sz dom) aS bS cS dS sigE beta gamma)).getD i 0)) else cur) (1 % R) i) := by
      intro i
      induction i with
      | zero => simp only [iterF, iterFrom, toF_mod, toF_one]
      | succ i ih =>
        simp only [iterF, iterFrom]
        rw [ih]
        split
        · simp only [toF_fmul, getD_map_toF, getD_map_inv_toF, toF_batchInversion_getD]
        · rfl
    apply List.map_congr_left
    intro i _
    simp only [Function.comp]
    exact key i
  · simp only [Bool.not_true, Bool.false_eq_true, not_false_eq_true, if_true, Option.map_none]

/-! ## (b) `linearization_poly.rs`, rounds 4 and 5 of `prove_inner` -/

/-! ### the widget linearisation terms over `F[X]` (scalars embedded by `C`) -/

theorem range_linearization_poly (sep : Nat) (e : Evals) (q : F[X]) :
    range_linearization (A := F[X]) (evaluations_a_eval := C (toF e.a)) (evaluations_b_eval := C (toF e.b))
      (evaluations_c_eval := C (toF e.c)) (evaluations_d_eval := C (toF e.d)) (evaluations_d_w_eval := C (toF e.dw))
      (range_separation_challenge := C (toF sep)) (self_q_range_0 := q)
    = q * C (toF (rangeScalar sep e)) := by
  have h := range_linearization_source sep e 1
  rw [one_mul] at h
  rw [← h]
  simp only [range_linearization, range_delta, map_mul, map_add, map_sub, map_one, map_ofNat]
  ring1

theorem logic_linearization_poly (sep : Nat) (e : Evals) (q : F[X]) :
    logic_linearization (A := F[X]) (evaluations_a_eval := C (toF e.a)) (evaluations_a_w_eval := C (toF e.aw))
      (evaluations_b_eval := C (toF e.b)) (evaluations_b_w_eval := C (toF e.bw)) (evaluations_c_eval := C (toF e.c))
      (evaluations_d_eval := C (toF e.d)) (evaluations_d_w_eval := C (toF e.dw)) (evaluations_q_c_eval := C (toF e.qc))
      (logic_separation_challenge := C (toF sep)) (self_q_logic_0 := q)
    = q * C (toF (logicScalar sep e)) := by
  have h := logic_linearization_source sep e 1
  rw [one_mul] at h
  rw [← h]
  simp only [logic_linearization, logic_delta, logic_delta_xor_and, map_mul, map_add, map_sub, map_one, map_ofNat]
  ring1

theorem fixed_linearization_poly (sep : Nat) (e : Evals) (q : F[X]) :
    fixed_linearization (A := F[X]) (EDWARDS_D := C dF) (ecc_separation_challenge := C (toF sep))
      (evaluations_a_eval := C (toF e.a)) (evaluations_a_w_eval := C (toF e.aw)) (evaluations_b_eval := C (toF e.b))
      (evaluations_b_w_eval := C (toF e.bw)) (evaluations_c_eval := C (toF e.c)) (evaluations_d_eval := C (toF e.d))
      (evaluations_d_w_eval := C (toF e.dw)) (evaluations_q_c_eval := C (toF e.qc)) (evaluations_q_l_eval := C (toF e.ql))
      (evaluations_q_r_eval := C (toF e.qr)) (self_q_fixed_group_add_0 := q)
    = q * C (toF (fixedScalar sep e)) := by
  have h := fixed_linearization_source sep e 1
  rw [one_mul] at h
  rw [← h]
  simp only [fixed_linearization, fixed_extract_bit, fixed_check_bit_consistency, map_mul, map_add, map_sub, map_one,
    map_ofNat]
  ring1

theorem var_linearization_poly (sep : Nat) (e : Evals) (q : F[X]) :
    var_linearization (A := F[X]) (EDWARDS_D := C dF) (curve_add_separation_challenge := C (toF sep))
      (evaluations_a_eval := C (toF e.a)) (evaluations_a_w_eval := C (toF e.aw)) (evaluations_b_eval := C (toF e.b))
      (evaluations_b_w_eval := C (toF e.bw)) (evaluations_c_eval := C (toF e.c)) (evaluations_d_eval := C (toF e.d))
      (evaluations_d_w_eval := C (toF e.dw)) (self_q_variable_group_add_0 := q)
    = q * C (toF (varScalar sep e)) := by
  have h := var_linearization_source sep e 1
  rw [one_mul] at h
  rw [← h]
  simp only [var_linearization, map_mul, map_add, map_sub, map_one, map_ofNat]
  ring1

/-! ### round 5 of the model's `prove` -/

/-- the linearisation polynomial of the model's `prove`. The lines between the COPY markers are the text of round 5 of
    `prove` in `Model/Prover.lean` (`n` is `d.size` there); Lean does not check the copy — `tools/rs2lean_prover.py` does,
    on every regeneration (it aborts if the marked lines are not a contiguous block of `Model/Prover.lean`) -/
def linPolyModel (k : PKey) (d : Domain) (ev : Evals) (zP tLowP tMidP tHighP tFourthP : Poly) (pis : List Nat)
    (beta gamma alpha rSep lSep fSep vSep zc : Nat) : Poly :=
    let n := d.size
    -- BEGIN COPY Model/Prover.lean
    let padd := Poly.add
    let sp (j : Nat) := k.sel.getD j []
    let arithL := Poly.scale (padd (padd (padd (padd (padd (Poly.scale (sp 0) (fmul ev.a ev.b)) (Poly.scale (sp 1) ev.a))
                    (Poly.scale (sp 2) ev.b)) (Poly.scale (sp 3) ev.c)) (Poly.scale (sp 4) ev.d)) (sp 5)) ev.qarith
    let lin0 := padd arithL (Poly.scale (sp 7) (rangeScalar rSep ev))
    let lin1 := Poly.addAssign lin0 (Poly.scale (sp 8) (logicScalar lSep ev))
    let lin2 := Poly.addAssign lin1 (Poly.scale (sp 9) (fixedScalar fSep ev))
    let lin3 := Poly.addAssign lin2 (Poly.scale (sp 10) (varScalar vSep ev))
    let piEvalSparse := d.barycentric pis zc      -- the prover passes the *sparse* list here (see DESIGN §9.2)
    let f1 := Poly.addConst lin3 piEvalSparse
    let bz := fmul beta zc
    let idL := Poly.scale zP (fmul (fmul (fmul (fmul (fadd (fadd ev.a bz) gamma) (fadd (fadd ev.b (fmul Generated.K1 bz)) gamma))
                  (fadd (fadd ev.c (fmul Generated.K2 bz)) gamma)) (fadd (fadd ev.d (fmul Generated.K3 bz)) gamma)) alpha)
    let cpL := Poly.scale (k.sigma.getD 3 []) (fneg (fmul (fmul (fmul (fmul (fadd (fadd ev.a (fmul beta ev.s1)) gamma)
                  (fadd (fadd ev.b (fmul beta ev.s2)) gamma)) (fadd (fadd ev.c (fmul beta ev.s3)) gamma)) (fmul beta ev.z)) alpha))
    let l1Dom := (Domain.new? (Poly.degree zP - 2)).getD d
    let l1z := (l1Dom.lagrangeCoeffs zc).headD 0
    let oneL := Poly.scale zP (fmul l1z (fsq alpha))
    let f2 := padd (padd idL cpL) oneL
    let zn := fpow zc n; let z2n := fpow zc (2 * n); let z3n := fpow zc (3 * n)
    let quotL := padd (padd (padd tLowP (Poly.scale tMidP zn)) (Poly.scale tHighP z2n)) (Poly.scale tFourthP z3n)
    let zhNeg := fneg (d.evaluateVanishing zc)
    -- END COPY
    padd (padd f1 f2) (Poly.scale quotL zhNeg)   -- `let rP := padd (padd f1 f2) (Poly.scale quotL zhNeg)` in `prove`

set_option maxHeartbeats 400000 in
/-- **`linearization_poly::compute`** is round 5 of the model: for opaque kernels that return the model's values on the
    arguments the source passes to them (`hsz`, `hbary`, `hlag`, `hvan`), the translated function on the embedded inputs is
    the polynomial of `linPolyModel`. -/
theorem lin_compute_source {Dom : Type} (k : PKey) (d : Domain) (ev : Evals) (zP tLowP tMidP tHighP tFourthP : Poly)
    (pis : List Nat) (beta gamma alpha rSep lSep fSep vSep zc : Nat)
    (bary : List F[X] → F[X] → Dom → F[X]) (deg : F[X] → Nat) (dnew : Nat → Dom) (lag : Dom → F[X] → List F[X])
    (dsz : Dom → Nat) (van : Dom → F[X] → F[X]) (dom : Dom)
    (hsz : dsz dom = d.size)
    (hbary : bary (pis.map fun x => C (toF x)) (C (toF zc)) dom = C (toF (d.barycentric pis zc)))
    (hlag : (lag (dnew (deg (toPoly zP) - 2)) (C (toF zc))).getD 0 0
              = C (toF ((((Domain.new? (Poly.degree zP - 2)).getD d).lagrangeCoeffs zc).headD 0)))
    (hvan : van dom (C (toF zc)) = C (toF (d.evaluateVanishing zc)))
    (hn : 3 * d.size < 2 ^ 256) :
    lin_compute (A := F[X]) (compute_barycentric_eval := bary) (poly_degree := deg) (dom_new := dnew)
      (dom_evaluate_all_lagrange_coefficients := lag) (dom_size := dsz) (dom_evaluate_vanishing_polynomial := van)
      (z_poly := toPoly zP) (domain := dom) (t_low_poly := toPoly tLowP) (t_mid_poly := toPoly tMidP)
      (t_high_poly := toPoly tHighP) (t_fourth_poly := toPoly tFourthP) (pub_inputs := pis.map fun x => C (toF x))
      (EDWARDS_D := C dF) (K1 := C (toF Generated.K1)) (K2 := C (toF Generated.K2)) (K3 := C (toF Generated.K3))
      (challenges_alpha := C (toF alpha)) (challenges_beta := C (toF beta)) (challenges_gamma := C (toF gamma))
      (challenges_range_separation := C (toF rSep)) (challenges_logic_separation := C (toF lSep))
      (challenges_fixed_base_separation := C (toF fSep)) (challenges_variable_base_separation := C (toF vSep))
      (challenges_z := C (toF zc))
      (evaluations_a_eval := C (toF ev.a)) (evaluations_b_eval := C (toF ev.b)) (evaluations_c_eval := C (toF ev.c))
      (evaluations_d_eval := C (toF ev.d)) (evaluations_a_w_eval := C (toF ev.aw)) (evaluations_b_w_eval := C (toF ev.bw))
      (evaluations_d_w_eval := C (toF ev.dw)) (evaluations_q_arith_eval := C (toF ev.qarith))
      (evaluations_q_c_eval := C (toF ev.qc)) (evaluations_q_l_eval := C (toF ev.ql)) (evaluations_q_r_eval := C (toF ev.qr))
      (evaluations_s_sigma_1_eval := C (toF ev.s1)) (evaluations_s_sigma_2_eval := C (toF ev.s2))
      (evaluations_s_sigma_3_eval := C (toF ev.s3)) (evaluations_z_eval := C (toF ev.z))
      (prover_key_arithmetic_q_m_0 := toPoly (k.sel.getD 0 [])) (prover_key_arithmetic_q_l_0 := toPoly (k.sel.getD 1 []))
      (prover_key_arithmetic_q_r_0 := toPoly (k.sel.getD 2 [])) (prover_key_arithmetic_q_o_0 := toPoly (k.sel.getD 3 []))
      (prover_key_arithmetic_q_f_0 := toPoly (k.sel.getD 4 [])) (prover_key_arithmetic_q_c_0 := toPoly (k.sel.getD 5 []))
      (prover_key_range_q_range_0 := toPoly (k.sel.getD 7 [])) (prover_key_logic_q_logic_0 := toPoly (k.sel.getD 8 []))
      (prover_key_fixed_base_q_fixed_group_add_0 := toPoly (k.sel.getD 9 []))
      (prover_key_variable_base_q_variable_group_add_0 := toPoly (k.sel.getD 10 []))
      (prover_key_permutation_s_sigma_4_0 := toPoly (k.sigma.getD 3 []))
    = toPoly (linPolyModel k d ev zP tLowP tMidP tHighP tFourthP pis beta gamma alpha rSep lSep fSep vSep zc) := by
  simp only [lin_compute, lin_gate, perm_linearization, perm_linearizer_one, hsz, hbary, hlag, hvan]
  rw [range_linearization_poly, logic_linearization_poly, fixed_linearization_poly, var_linearization_poly]
  simp only [linPolyModel, toPoly_add, toPoly_addAssign, toPoly_scale, toPoly_addConst, arith_linearization,
    perm_linearizer_identity, perm_linearizer_copy, toF_fmul, toF_fadd, toF_fneg, toF_fsq,
    toF_fpow _ _ (by omega : d.size < 2 ^ 256), toF_fpow _ _ (by omega : 2 * d.size < 2 ^ 256), toF_fpow _ _ hn,
    map_mul, map_add, map_neg, map_pow]
  ring1

/-! ### round 4: the opening evaluations -/

/-- the evaluations of the model's `prove` (the lines between the COPY markers are the text of round 4 of `prove` in
    `Model/Prover.lean`, checked like those of `linPolyModel`) -/
def evalsModel (k : PKey) (d : Domain) (aP bP cP dP zP : Poly) (zc : Nat) : Evals :=
    -- BEGIN COPY Model/Prover.lean
    let zw := fmul zc d.groupGen
    let ev : Evals := {
      a := Poly.evaluate aP zc, b := Poly.evaluate bP zc, c := Poly.evaluate cP zc, d := Poly.evaluate dP zc,
      aw := Poly.evaluate aP zw, bw := Poly.evaluate bP zw, dw := Poly.evaluate dP zw,
      qarith := Poly.evaluate (k.sel.getD 6 []) zc, qc := Poly.evaluate (k.sel.getD 5 []) zc,
      ql := Poly.evaluate (k.sel.getD 1 []) zc, qr := Poly.evaluate (k.sel.getD 2 []) zc,
      s1 := Poly.evaluate (k.sigma.getD 0 []) zc, s2 := Poly.evaluate (k.sigma.getD 1 []) zc,
      s3 := Poly.evaluate (k.sigma.getD 2 []) zc, z := Poly.evaluate zP zw }
    -- END COPY
    ev

/-- **`prove_inner`, round 4**: the fifteen evaluations of the proof, field by field (order of `ProofEvaluations`), are the
    model's: which polynomial, and whether at `z` or at `z·ω` -/
theorem prover_evaluations_source (k : PKey) (d : Domain) (aP bP cP dP zP : Poly) (zc : Nat) :
    prover_evaluations (A := F) (Pol := Poly) (Dom := Domain) (poly_evaluate := fun p z => (toPoly p).eval z)
      (dom_group_gen := fun d => toF d.groupGen) (a_poly := aP) (b_poly := bP) (c_poly := cP) (d_poly := dP) (domain := d)
      (self_prover_key_arithmetic_q_arith_0 := k.sel.getD 6 []) (self_prover_key_arithmetic_q_c_0 := k.sel.getD 5 [])
      (self_prover_key_arithmetic_q_l_0 := k.sel.getD 1 []) (self_prover_key_arithmetic_q_r_0 := k.sel.getD 2 [])
      (self_prover_key_permutation_s_sigma_1_0 := k.sigma.getD 0 [])
      (self_prover_key_permutation_s_sigma_2_0 := k.sigma.getD 1 [])
      (self_prover_key_permutation_s_sigma_3_0 := k.sigma.getD 2 []) (z_challenge := toF zc) (z_poly := zP)
    = ["a_eval", "b_eval", "c_eval", "d_eval", "a_w_eval", "b_w_eval", "d_w_eval", "q_arith_eval", "q_c_eval", "q_l_eval",
       "q_r_eval", "s_sigma_1_eval", "s_sigma_2_eval", "s_sigma_3_eval", "z_eval"].map
        (fun l => (l, toF ((evalsModel k d aP bP cP dP zP zc).byLabel l))) := by
  simp only [prover_evaluations, evalsModel, List.map_cons, List.map_nil, Evals.byLabel, evaluate_spec, toF_fmul]

/-! ## call sites in `prove_inner` -/

/-- **`prove_inner`, round 2** (call site of `compute_permutation_vec`): the wires are `[a, b, c, d]`, the sigma
    evaluations `sigma_evaluations[0..3]`, in this order -/
theorem prover_permutation_source {Dom : Type} (sz : Dom → Nat) (els : Dom → List Nat) (dom : Dom)
    (aS bS cS dS s0 s1 s2 s3 : List Nat) (beta gamma : Nat)
    (hr : (els dom).length = sz dom) (ha : aS.length = sz dom) :
    prover_permutation (A := F) (dom_size := sz) (dom_elements := fun d => (els d).map toF) (domain := dom)
      (K1 := toF Generated.K1) (K2 := toF Generated.K2) (K3 := toF Generated.K3)
      (a_scalars := aS.map toF) (b_scalars := bS.map toF) (c_scalars := cS.map toF) (d_scalars := dS.map toF)
      (beta := toF beta) (gamma := toF gamma)
      (self_sigma_evaluations := [s0.map toF, s1.map toF, s2.map toF, s3.map toF])
    = (permVec (sz dom) (els dom) aS bS cS dS [s0, s1, s2, s3] beta gamma).map (List.map toF) := by
  have h := compute_permutation_vec_source sz els dom aS bS cS dS [s0, s1, s2, s3] beta gamma hr ha
  simp only [List.map_cons, List.map_nil] at h
  simp only [prover_permutation, List.getD_cons_zero, List.getD_cons_succ]
  exact h

/-- **`prove_inner`, round 3** (call site of `quotient_poly::compute`): which polynomial, which challenge and which
    prover-key field go where -/
theorem prover_t_poly_source {Dom : Type} (cf : Dom → Poly → List Nat) (ci : Dom → List Nat → List Nat)
    (sz : Dom → Nat) (szInv : Dom → Nat)
    (qd : Dom) (zP aP bP cP dP piP : Poly) (selE sigE8 : Array (Array Nat)) (linE vh vhInv8 : Array Nat)
    (alpha beta gamma rSep lSep fSep vSep : Nat)
    (hz : 8 ≤ (cf qd zP).length) (ha : 8 ≤ (cf qd aP).length) (hb : 8 ≤ (cf qd bP).length)
    (hd : 8 ≤ (cf qd dP).length) (hc : sz qd ≤ (cf qd cP).length) :
    prover_t_poly (A := F) (Pol := Poly) (dom_coset_fft := fun d p => (cf d p).map toF) (dom_size := sz)
      (dom_size_inv := fun d => toF (szInv d))
      (dom_coset_ifft := fun d l => (ci d (l.map ZMod.val)).map toF)
      (poly_from_coefficients_vec := fun l => Poly.ofCoeffs (l.map ZMod.val)) (poly_len := List.length)
      (self_quotient_domain := qd)
      (z_poly := zP) (a_poly := aP) (b_poly := bP) (c_poly := cP) (d_poly := dP) (pi_poly := piP)
      (self_vanishing_coset_inverses := arrF vhInv8)
      (alpha := toF alpha) (beta := toF beta) (gamma := toF gamma)
      (range_sep_challenge := toF rSep) (logic_sep_challenge := toF lSep) (fixed_base_sep_challenge := toF fSep)
      (var_base_sep_challenge := toF vSep)
      (EDWARDS_D := dF) (K1 := toF Generated.K1) (K2 := toF Generated.K2) (K3 := toF Generated.K3)
      (self_prover_key_arithmetic_q_m_1 := arrF (selE.getD 0 #[]))
      (self_prover_key_arithmetic_q_l_1 := arrF (selE.getD 1 #[]))
      (self_prover_key_arithmetic_q_r_1 := arrF (selE.getD 2 #[]))
      (self_prover_key_arithmetic_q_o_1 := arrF (selE.getD 3 #[]))
      (self_prover_key_arithmetic_q_f_1 := arrF (selE.getD 4 #[]))
      (self_prover_key_arithmetic_q_c_1 := arrF (selE.getD 5 #[]))
      (self_prover_key_arithmetic_q_arith_1 := arrF (selE.getD 6 #[]))
      (self_prover_key_range_q_range_1 := arrF (selE.getD 7 #[]))
      (self_prover_key_logic_q_logic_1 := arrF (selE.getD 8 #[]))
      (self_prover_key_logic_q_c_1 := arrF (selE.getD 5 #[]))
      (self_prover_key_fixed_base_q_fixed_group_add_1 := arrF (selE.getD 9 #[]))
      (self_prover_key_fixed_base_q_c_1 := arrF (selE.getD 5 #[]))
      (self_prover_key_fixed_base_q_l_1 := arrF (selE.getD 1 #[]))
      (self_prover_key_fixed_base_q_r_1 := arrF (selE.getD 2 #[]))
      (self_prover_key_variable_base_q_variable_group_add_1 := arrF (selE.getD 10 #[]))
      (self_prover_key_permutation_linear_evaluations := arrF linE)
      (self_prover_key_permutation_linear_evaluations_evals := arrF linE)
      (self_prover_key_permutation_s_sigma_1_1 := arrF (sigE8.getD 0 #[]))
      (self_prover_key_permutation_s_sigma_2_1 := arrF (sigE8.getD 1 #[]))
      (self_prover_key_permutation_s_sigma_3_1 := arrF (sigE8.getD 2 #[]))
      (self_prover_key_permutation_s_sigma_4_1 := arrF (sigE8.getD 3 #[]))
      (self_prover_key_v_h_coset_8n_evals := arrF vh)
    = (let quot := quotientEvals (sz qd) selE sigE8 linE (wrap8 (cf qd aP)) (wrap8 (cf qd bP)) (wrap8 (cf qd cP))
        (wrap8 (cf qd dP)) (wrap8 (cf qd zP)) (cf qd piP).toArray vh vhInv8
        (batchInversion (linE.toList.map fun e => fsub e 1)).toArray (fmul (szInv qd) 8)
        beta gamma alpha rSep lSep fSep vSep
       let tPoly := Poly.ofCoeffs (ci qd (quot.map (· % R)))
       if tPoly.length > 7 * (sz qd / 8) then Except.error "Error::CircuitUnsatisfied" else Except.ok tPoly) := by
  simp only [prover_t_poly]
  exact quotient_compute_source cf ci sz szInv qd zP aP bP cP dP piP selE sigE8 linE vh vhInv8 alpha beta gamma rSep
    lSep fSep vSep hz ha hb hd hc

set_option maxHeartbeats 400000 in
/-- **`prove_inner`, rounds 4–5** (the evaluations, the `LinearizationChallenges` literal and the call of
    `linearization_poly::compute`): the linearisation polynomial is `linPolyModel` on the evaluations `evalsModel` -/
theorem prover_r_poly_source {Dom : Type} (k : PKey) (d : Domain) (aP bP cP dP zP tLowP tMidP tHighP tFourthP : Poly)
    (pis : List Nat) (beta gamma alpha rSep lSep fSep vSep zc : Nat)
    (bary : List F[X] → F[X] → Dom → F[X]) (deg : F[X] → Nat) (dnew : Nat → Dom) (lag : Dom → F[X] → List F[X])
    (dsz : Dom → Nat) (van : Dom → F[X] → F[X]) (dom : Dom)
    (hsz : dsz dom = d.size)
    (hbary : bary (pis.map fun x => C (toF x)) (C (toF zc)) dom = C (toF (d.barycentric pis zc)))
    (hlag : (lag (dnew (deg (toPoly zP) - 2)) (C (toF zc))).getD 0 0
              = C (toF ((((Domain.new? (Poly.degree zP - 2)).getD d).lagrangeCoeffs zc).headD 0)))
    (hvan : van dom (C (toF zc)) = C (toF (d.evaluateVanishing zc)))
    (hn : 3 * d.size < 2 ^ 256) :
    prover_r_poly (A := F[X]) (poly_evaluate := fun p z => C (p.eval (z.coeff 0)))
      (dom_group_gen := fun _ => C (toF d.groupGen))
      (compute_barycentric_eval := bary) (poly_degree := deg) (dom_new := dnew)
      (dom_evaluate_all_lagrange_coefficients := lag) (dom_size := dsz) (dom_evaluate_vanishing_polynomial := van)
      (EDWARDS_D := C dF) (K1 := C (toF Generated.K1)) (K2 := C (toF Generated.K2)) (K3 := C (toF Generated.K3))
      (a_poly := toPoly aP) (b_poly := toPoly bP) (c_poly := toPoly cP) (d_poly := toPoly dP) (z_poly := toPoly zP)
      (alpha := C (toF alpha)) (beta := C (toF beta)) (gamma := C (toF gamma))
      (range_sep_challenge := C (toF rSep)) (logic_sep_challenge := C (toF lSep))
      (fixed_base_sep_challenge := C (toF fSep)) (var_base_sep_challenge := C (toF vSep))
      (z_challenge := C (toF zc)) (domain := dom) (public_inputs := pis.map fun x => C (toF x))
      (self_prover_key_arithmetic_q_m_0 := toPoly (k.sel.getD 0 []))
      (self_prover_key_arithmetic_q_l_0 := toPoly (k.sel.getD 1 []))
      (self_prover_key_arithmetic_q_r_0 := toPoly (k.sel.getD 2 []))
      (self_prover_key_arithmetic_q_o_0 := toPoly (k.sel.getD 3 []))
      (self_prover_key_arithmetic_q_f_0 := toPoly (k.sel.getD 4 []))
      (self_prover_key_arithmetic_q_c_0 := toPoly (k.sel.getD 5 []))
      (self_prover_key_arithmetic_q_arith_0 := toPoly (k.sel.getD 6 []))
      (self_prover_key_range_q_range_0 := toPoly (k.sel.getD 7 []))
      (self_prover_key_logic_q_logic_0 := toPoly (k.sel.getD 8 []))
      (self_prover_key_fixed_base_q_fixed_group_add_0 := toPoly (k.sel.getD 9 []))
      (self_prover_key_variable_base_q_variable_group_add_0 := toPoly (k.sel.getD 10 []))
      (self_prover_key_permutation_s_sigma_1_0 := toPoly (k.sigma.getD 0 []))
      (self_prover_key_permutation_s_sigma_2_0 := toPoly (k.sigma.getD 1 []))
      (self_prover_key_permutation_s_sigma_3_0 := toPoly (k.sigma.getD 2 []))
      (self_prover_key_permutation_s_sigma_4_0 := toPoly (k.sigma.getD 3 []))
      (t_low_poly := toPoly tLowP) (t_mid_poly := toPoly tMidP) (t_high_poly := toPoly tHighP)
      (t_fourth_poly := toPoly tFourthP)
    = toPoly (linPolyModel k d (evalsModel k d aP bP cP dP zP zc) zP tLowP tMidP tHighP tFourthP pis beta gamma alpha
        rSep lSep fSep vSep zc) := by
  have h := lin_compute_source k d (evalsModel k d aP bP cP dP zP zc) zP tLowP tMidP tHighP tFourthP pis beta gamma
    alpha rSep lSep fSep vSep zc bary deg dnew lag dsz van dom hsz hbary hlag hvan hn
  simp only [evalsModel, evaluate_spec, toF_fmul] at h
  simp only [prover_r_poly, ← C_mul, coeff_C_zero]
  exact h

end Plonk.ProverSource
