/-
  Refinement of the coefficient-list polynomials of `Plonk/Model/Poly.lean` into Mathlib's
  `Polynomial (ZMod R)`: interpretation `toPoly`, the representation predicates `Reduced`,
  `Trimmed`, and one refinement lemma per operation of the model.
-/
import Mathlib.Algebra.Polynomial.Basic
import Mathlib.Algebra.Polynomial.Coeff
import Mathlib.Algebra.Polynomial.Eval.Defs
import Mathlib.Algebra.Polynomial.Eval.Coeff
import Mathlib.Algebra.Polynomial.Degree.Defs
import Mathlib.Algebra.Polynomial.Degree.Lemmas
import Mathlib.Algebra.Polynomial.Div
import Mathlib.Data.List.DropRight
import Mathlib.Data.List.GetD
import Mathlib.Tactic.Ring
import Mathlib.Tactic.LinearCombination
import Plonk.Proofs.FieldBridge
import Plonk.Model.FFT

namespace Plonk
open Polynomial

/-- interpretation of a little-endian coefficient list: `Σ_i C (toF p[i]) * X^i` -/
noncomputable def toPoly : List Nat → F[X]
  | [] => 0
  | x :: xs => C (toF x) + X * toPoly xs

@[simp] theorem toPoly_nil : toPoly [] = 0 := rfl
@[simp] theorem toPoly_cons (x : Nat) (xs : List Nat) :
    toPoly (x :: xs) = C (toF x) + X * toPoly xs := rfl

theorem coeff_toPoly (p : List Nat) (i : Nat) : (toPoly p).coeff i = toF (p.getD i 0) := by
  induction p generalizing i with
  | nil => simp
  | cons x xs ih =>
    cases i with
    | zero => simp
    | succ i => simp [ih, coeff_C_succ]

theorem toPoly_eq_sum (p : List Nat) :
    toPoly p = ∑ i ∈ Finset.range p.length, C (toF (p.getD i 0)) * X ^ i := by
  ext k
  rw [coeff_toPoly, finsetSum_coeff]
  simp only [coeff_C_mul_X_pow]
  by_cases hk : k < p.length
  · rw [Finset.sum_eq_single k]
    · simp
    · intro b _ hb; simp [Ne.symm hb]
    · intro h; exact absurd (Finset.mem_range.mpr hk) h
  · rw [List.getD_eq_default _ _ (Nat.le_of_not_lt hk), Finset.sum_eq_zero]
    · simp
    · intro i hi
      have : i < p.length := Finset.mem_range.mp hi
      have : k ≠ i := by omega
      simp [this]

theorem toPoly_ext {p q : List Nat} (h : ∀ i, toF (p.getD i 0) = toF (q.getD i 0)) :
    toPoly p = toPoly q := by
  ext i; rw [coeff_toPoly, coeff_toPoly, h]

theorem toPoly_append (p q : List Nat) :
    toPoly (p ++ q) = toPoly p + X ^ p.length * toPoly q := by
  induction p with
  | nil => simp
  | cons x xs ih => simp [ih, pow_succ]; ring

/-! ### representation predicates -/

/-- every coefficient is a canonical representative -/
def Reduced (p : List Nat) : Prop := ∀ x ∈ p, x < R

/-- no trailing zero coefficient (`last().is_none_or(|c| c != 0)`) -/
def Trimmed (p : List Nat) : Prop := ∀ h : p ≠ [], p.getLast h ≠ 0

namespace Poly

theorem trim_eq_rdropWhile (p : Poly) : trim p = p.rdropWhile (· == 0) := rfl

@[simp] theorem trim_nil : trim [] = [] := rfl

theorem trim_concat (p : Poly) (x : Nat) :
    trim (p ++ [x]) = if x = 0 then trim p else p ++ [x] := by
  simp only [trim_eq_rdropWhile, List.rdropWhile_concat]
  simp

theorem getD_trim (p : Poly) (i : Nat) : (trim p).getD i 0 = p.getD i 0 := by
  induction p using List.reverseRecOn with
  | nil => rfl
  | append_singleton p x ih =>
    rw [trim_concat]
    split
    · next hx =>
      subst hx
      rw [ih]
      by_cases hi : i < p.length
      · rw [List.getD_append _ _ _ _ hi]
      · have hi : p.length ≤ i := Nat.le_of_not_lt hi
        rw [List.getD_eq_default _ _ hi, List.getD_append_right _ _ _ _ hi]
        cases h : i - p.length <;> simp
    · rfl

theorem length_trim_le (p : Poly) : (trim p).length ≤ p.length :=
  (List.rdropWhile_prefix (p := (· == 0)) (l := p)).length_le

theorem trimmed_trim (p : Poly) : Trimmed (trim p) := by
  intro h
  have := List.rdropWhile_last_not (p := (· == 0)) (l := p) h
  simpa [trim_eq_rdropWhile] using this

theorem trim_eq_self {p : Poly} (h : Trimmed p) : trim p = p := by
  rw [trim_eq_rdropWhile, List.rdropWhile_eq_self_iff]
  intro hl; simpa using h hl

theorem trim_eq_self_iff {p : Poly} : trim p = p ↔ Trimmed p :=
  ⟨fun h => h ▸ trimmed_trim p, trim_eq_self⟩

theorem mem_trim {p : Poly} {x : Nat} (h : x ∈ trim p) : x ∈ p :=
  (List.rdropWhile_prefix (p := (· == 0)) (l := p)).subset h

theorem reduced_trim {p : Poly} (h : Reduced p) : Reduced (trim p) :=
  fun x hx => h x (mem_trim hx)

theorem getD_eq_zero_of_length_trim_le {p : Poly} {i : Nat} (h : (trim p).length ≤ i) :
    p.getD i 0 = 0 := by
  rw [← getD_trim, List.getD_eq_default _ _ h]

end Poly

open Poly

@[simp] theorem toPoly_trim (p : List Nat) : toPoly (trim p) = toPoly p :=
  toPoly_ext fun i => by rw [getD_trim]

theorem toF_getD_map (g : Nat → Nat) (hg : toF (g 0) = 0) (p : List Nat) (i : Nat) :
    toF ((p.map g).getD i 0) = toF (g (p.getD i 0)) := by
  induction p generalizing i with
  | nil => simp [hg]
  | cons x xs ih => cases i with
    | zero => simp
    | succ i => simpa using ih i

@[simp] theorem toPoly_map_mod (p : List Nat) : toPoly (p.map (· % R)) = toPoly p :=
  toPoly_ext fun i => by rw [toF_getD_map _ (by simp)]; simp

@[simp] theorem toPoly_ofCoeffs (p : List Nat) : toPoly (ofCoeffs p) = toPoly p := by
  unfold ofCoeffs; rw [toPoly_trim, toPoly_map_mod]

theorem reduced_ofCoeffs (p : List Nat) : Reduced (ofCoeffs p) := by
  apply reduced_trim
  intro x hx
  obtain ⟨y, _, rfl⟩ := List.mem_map.mp hx
  exact Nat.mod_lt _ R_pos

theorem trimmed_ofCoeffs (p : List Nat) : Trimmed (ofCoeffs p) := trimmed_trim _

/-! ### zero test and degree -/

theorem isZero_iff (p : List Nat) : isZero p = true ↔ ∀ x ∈ p, x = 0 := by
  simp [isZero]

theorem isZero_false_ne_nil {p : List Nat} (h : isZero p = false) : p ≠ [] := by
  rintro rfl; simp [isZero] at h

theorem toPoly_eq_zero_of_isZero {p : List Nat} (h : isZero p = true) : toPoly p = 0 := by
  rw [isZero_iff] at h
  ext i
  rw [coeff_toPoly, coeff_zero]
  by_cases hi : i < p.length
  · rw [List.getD_eq_getElem _ _ hi, h _ (List.getElem_mem hi)]; simp
  · rw [List.getD_eq_default _ _ (Nat.le_of_not_lt hi)]; simp

/-- for reduced coefficient lists, `is_zero` decides `toPoly p = 0` -/
theorem toPoly_eq_zero_iff {p : List Nat} (hp : Reduced p) : toPoly p = 0 ↔ isZero p = true := by
  refine ⟨fun h => ?_, toPoly_eq_zero_of_isZero⟩
  rw [isZero_iff]
  intro x hx
  obtain ⟨i, hi, rfl⟩ := List.getElem_of_mem hx
  have := congrArg (fun q => q.coeff i) h
  simp only [coeff_toPoly, coeff_zero, List.getD_eq_getElem _ _ hi] at this
  exact (toF_eq_zero_of_lt (hp _ (List.getElem_mem hi))).mp this

theorem isZero_trim (p : List Nat) : isZero (trim p) = isZero p := by
  rw [Bool.eq_iff_iff, isZero_iff, isZero_iff]
  constructor
  · intro h x hx
    obtain ⟨i, hi, rfl⟩ := List.getElem_of_mem hx
    rw [← List.getD_eq_getElem _ 0 hi, ← getD_trim]
    by_cases hi' : i < (trim p).length
    · rw [List.getD_eq_getElem _ _ hi']; exact h _ (List.getElem_mem hi')
    · rw [List.getD_eq_default _ _ (Nat.le_of_not_lt hi')]
  · intro h x hx; exact h x (mem_trim hx)

theorem trim_eq_nil_iff (p : List Nat) : trim p = [] ↔ isZero p = true := by
  rw [trim_eq_rdropWhile, List.rdropWhile_eq_nil_iff, isZero_iff]; simp

/-- the length of a reduced, trimmed list is determined by its polynomial -/
theorem length_of_trimmed {p : List Nat} (hr : Reduced p) (ht : Trimmed p) (hne : p ≠ []) :
    (toPoly p).natDegree = p.length - 1 ∧ toPoly p ≠ 0 := by
  have hlen : 0 < p.length := List.length_pos_iff.mpr hne
  have hlast : toF (p.getD (p.length - 1) 0) ≠ 0 := by
    rw [List.getD_eq_getElem _ _ (by omega)]
    have h1 := ht hne
    rw [List.getLast_eq_getElem] at h1
    intro h0
    exact h1 ((toF_eq_zero_of_lt (hr _ (List.getElem_mem _))).mp h0)
  have hc : (toPoly p).coeff (p.length - 1) ≠ 0 := by rwa [coeff_toPoly]
  refine ⟨natDegree_eq_of_le_of_coeff_ne_zero ?_ hc, fun h => hc (by rw [h, coeff_zero])⟩
  rw [natDegree_le_iff_coeff_eq_zero]
  intro N hN
  rw [coeff_toPoly, List.getD_eq_default _ _ (by omega)]; simp

/-- `degree()` is the `natDegree` of the interpreted polynomial (reduced lists) -/
theorem degree_eq_natDegree {p : List Nat} (hp : Reduced p) :
    Poly.degree p = (toPoly p).natDegree := by
  unfold Poly.degree
  by_cases hne : trim p = []
  · rw [hne, ← toPoly_trim, hne]; simp
  · rw [← toPoly_trim p, (length_of_trimmed (reduced_trim hp) (trimmed_trim p) hne).1]

/-- reduced and trimmed lists are unique representatives -/
theorem toPoly_injective {p q : List Nat} (hp : Reduced p) (hq : Reduced q)
    (tp : Trimmed p) (tq : Trimmed q) (h : toPoly p = toPoly q) : p = q := by
  have hlen : p.length = q.length := by
    by_cases hp0 : p = []
    · subst hp0
      by_contra hne
      have : q ≠ [] := by rintro rfl; simp at hne
      exact (length_of_trimmed hq tq this).2 (by rw [← h]; rfl)
    · by_cases hq0 : q = []
      · subst hq0
        exact absurd (by rw [h]; rfl) (length_of_trimmed hp tp hp0).2
      · have h1 := (length_of_trimmed hp tp hp0).1
        have h2 := (length_of_trimmed hq tq hq0).1
        rw [h] at h1
        have := List.length_pos_iff.mpr hp0
        have := List.length_pos_iff.mpr hq0
        omega
  apply List.ext_getElem hlen
  intro i h1 h2
  have := congrArg (fun r => r.coeff i) h
  simp only [coeff_toPoly, List.getD_eq_getElem _ _ h1, List.getD_eq_getElem _ _ h2] at this
  exact (toF_inj_of_lt (hp _ (List.getElem_mem _)) (hq _ (List.getElem_mem _))).mp this

/-! ### the two zips -/

namespace Poly

theorem length_zipOnto (f : Nat → Nat → Nat) (a b : Poly) : (zipOnto f a b).length = a.length := by
  fun_induction zipOnto f a b <;> simp [*]

theorem getD_zipOnto (f : Nat → Nat → Nat) (a b : Poly) (i : Nat) :
    (zipOnto f a b).getD i 0 = if i < a.length then f (a.getD i 0) (b.getD i 0) else 0 := by
  fun_induction zipOnto f a b generalizing i with
  | case1 => simp
  | case2 a as ih => cases i with
    | zero => simp
    | succ i => simpa [List.getD_eq_getElem?_getD] using ih i
  | case3 a as b bs ih => cases i with
    | zero => simp
    | succ i => simpa [List.getD_eq_getElem?_getD] using ih i

theorem length_zipLong (f : Nat → Nat → Nat) (a b : Poly) :
    (zipLong f a b).length = max a.length b.length := by
  fun_induction zipLong f a b <;> simp [*]

theorem getD_zipLong (f : Nat → Nat → Nat) (a b : Poly) (i : Nat) :
    (zipLong f a b).getD i 0 =
      if i < max a.length b.length then f (a.getD i 0) (b.getD i 0) else 0 := by
  fun_induction zipLong f a b generalizing i with
  | case1 => simp
  | case2 a as ih => cases i with
    | zero => simp
    | succ i => simpa [List.getD_eq_getElem?_getD] using ih i
  | case3 b bs ih => cases i with
    | zero => simp
    | succ i => simpa [List.getD_eq_getElem?_getD] using ih i
  | case4 a as b bs ih => cases i with
    | zero => simp
    | succ i => simpa [List.getD_eq_getElem?_getD] using ih i

theorem reduced_zipOnto {f : Nat → Nat → Nat} (hf : ∀ x y, f x y < R) (a b : Poly) :
    Reduced (zipOnto f a b) := by
  fun_induction zipOnto f a b <;> simp_all [Reduced]

theorem reduced_zipLong {f : Nat → Nat → Nat} (hf : ∀ x y, f x y < R) (a b : Poly) :
    Reduced (zipLong f a b) := by
  fun_induction zipLong f a b <;> simp_all [Reduced]

end Poly

/-- `zipLong` of a field-linear combination -/
theorem toPoly_zipLong (f : Nat → Nat → Nat) (c : F)
    (hf : ∀ x y, toF (f x y) = toF x + c * toF y) (a b : List Nat) :
    toPoly (zipLong f a b) = toPoly a + C c * toPoly b := by
  ext i
  rw [coeff_toPoly, getD_zipLong, coeff_add, coeff_C_mul, coeff_toPoly, coeff_toPoly]
  split
  · exact hf _ _
  · next h =>
    rw [List.getD_eq_default _ _ (by omega), List.getD_eq_default _ _ (by omega)]; simp

/-- the coefficients of `b` at and beyond `a.length` vanish when `degree a ≥ degree b` -/
theorem getD_eq_zero_of_degree_le {a b : List Nat} (ha : isZero a = false)
    (h : Poly.degree a ≥ Poly.degree b) {i : Nat} (hi : a.length ≤ i) : b.getD i 0 = 0 := by
  apply getD_eq_zero_of_length_trim_le
  have h1 := length_trim_le a
  have h2 : 0 < a.length := List.length_pos_iff.mpr (isZero_false_ne_nil ha)
  unfold Poly.degree at h
  omega

/-- `zipOnto … a (b.take a.length)`: the branch `degree a ≥ degree b` loses nothing -/
theorem toPoly_zipOnto_take (f : Nat → Nat → Nat) (c : F)
    (hf : ∀ x y, toF (f x y) = toF x + c * toF y) {a b : List Nat} (ha : isZero a = false)
    (h : Poly.degree a ≥ Poly.degree b) :
    toPoly (zipOnto f a (b.take a.length)) = toPoly a + C c * toPoly b := by
  ext i
  rw [coeff_toPoly, getD_zipOnto, coeff_add, coeff_C_mul, coeff_toPoly, coeff_toPoly]
  split
  · next hi =>
    rw [hf]
    congr 3
    simp [List.getD_eq_getElem?_getD, hi]
  · next hi =>
    have hi : a.length ≤ i := Nat.le_of_not_lt hi
    rw [List.getD_eq_default _ _ hi, getD_eq_zero_of_degree_le ha h hi]; simp

/-! ### ring operations -/

theorem toPoly_add (a b : List Nat) : toPoly (Poly.add a b) = toPoly a + toPoly b := by
  unfold Poly.add
  rw [toPoly_trim]
  split
  · next h => rw [toPoly_eq_zero_of_isZero h]; simp
  · split
    · next h => rw [toPoly_eq_zero_of_isZero h]; simp
    · next ha hb =>
      split
      · next h =>
        rw [toPoly_zipOnto_take fadd 1 (by simp) (by simpa using ha) h]; simp
      · next h =>
        rw [toPoly_zipOnto_take (fun x y => fadd y x) 1 (by simp [add_comm]) (by simpa using hb)
          (by omega)]
        simp [add_comm]

theorem toPoly_addAssign (a b : List Nat) : toPoly (Poly.addAssign a b) = toPoly a + toPoly b := by
  unfold Poly.addAssign
  rw [toPoly_trim]
  split
  · next h => rw [toPoly_eq_zero_of_isZero h]; simp
  · split
    · next h => rw [toPoly_eq_zero_of_isZero h]; simp
    · next ha hb =>
      split
      · next h =>
        rw [toPoly_zipOnto_take fadd 1 (by simp) (by simpa using ha) h]; simp
      · rw [toPoly_zipLong fadd 1 (by simp)]; simp

theorem toPoly_map (g : Nat → Nat) (c : F) (hg : ∀ x, toF (g x) = c * toF x) (p : List Nat) :
    toPoly (p.map g) = C c * toPoly p := by
  ext i
  rw [coeff_toPoly, toF_getD_map g (by rw [hg]; simp), coeff_C_mul, coeff_toPoly, hg]

theorem toPoly_addAssignScaled (a : List Nat) (f : Nat) (b : List Nat) :
    toPoly (Poly.addAssignScaled a f b) = toPoly a + C (toF f) * toPoly b := by
  unfold Poly.addAssignScaled
  rw [toPoly_trim]
  split
  · next h =>
    rw [toPoly_eq_zero_of_isZero h, toPoly_map _ (toF f) (by simp [mul_comm])]; simp
  · split
    · next h => rw [toPoly_eq_zero_of_isZero h]; simp
    · next ha hb =>
      split
      · next h =>
        rw [toPoly_zipOnto_take _ (toF f) (by simp) (by simpa using ha) h]
      · rw [toPoly_zipLong _ (toF f) (by simp)]

theorem toPoly_sub (a b : List Nat) : toPoly (Poly.sub a b) = toPoly a - toPoly b := by
  unfold Poly.sub
  rw [toPoly_trim]
  split
  · next h =>
    rw [toPoly_eq_zero_of_isZero h, toPoly_map _ (-1) (by simp)]; simp
  · split
    · next h => rw [toPoly_eq_zero_of_isZero h]; simp
    · next ha hb =>
      split
      · next h =>
        rw [toPoly_zipOnto_take fsub (-1) (by simp [sub_eq_add_neg]) (by simpa using ha) h]
        simp [sub_eq_add_neg]
      · rw [toPoly_zipLong fsub (-1) (by simp [sub_eq_add_neg])]; simp [sub_eq_add_neg]

theorem toPoly_subAssign (a b : List Nat) : toPoly (Poly.subAssign a b) = toPoly a - toPoly b := by
  unfold Poly.subAssign
  rw [toPoly_trim]
  split
  · next h =>
    rw [toPoly_zipLong fsub (-1) (by simp [sub_eq_add_neg]),
      toPoly_eq_zero_of_isZero h, toPoly_eq_zero_of_isZero]
    · simp
    · rw [isZero_iff] at h ⊢
      intro x hx; exact h x (List.mem_of_mem_take hx)
  · split
    · next h => rw [toPoly_eq_zero_of_isZero h]; simp
    · next ha hb =>
      split
      · next h =>
        rw [toPoly_zipOnto_take fsub (-1) (by simp [sub_eq_add_neg]) (by simpa using ha) h]
        simp [sub_eq_add_neg]
      · rw [toPoly_zipLong fsub (-1) (by simp [sub_eq_add_neg])]; simp [sub_eq_add_neg]

theorem toPoly_scale (p : List Nat) (k : Nat) : toPoly (Poly.scale p k) = C (toF k) * toPoly p := by
  unfold Poly.scale
  split
  · next h =>
    rw [Bool.or_eq_true] at h
    rcases h with h | h
    · rw [toPoly_eq_zero_of_isZero h]; simp
    · have : toF k = 0 := (toF_eq_zero_iff k).mpr (by simpa using h)
      rw [this]; simp
  · rw [toPoly_ofCoeffs, toPoly_map _ (toF k) (by simp [mul_comm])]

theorem toPoly_addConst (p : List Nat) (k : Nat) :
    toPoly (Poly.addConst p k) = toPoly p + C (toF k) := by
  unfold Poly.addConst
  split
  · next h => rw [toPoly_eq_zero_of_isZero h, toPoly_ofCoeffs]; simp
  · split
    · next h =>
      have : toF k = 0 := (toF_eq_zero_iff k).mpr (by simpa using h)
      rw [this]; simp
    · split
      · simp_all [isZero]
      · simp; ring

theorem toPoly_subConst (p : List Nat) (k : Nat) :
    toPoly (Poly.subConst p k) = toPoly p - C (toF k) := by
  unfold Poly.subConst
  rw [toPoly_addConst]; simp [sub_eq_add_neg]

theorem toPoly_mulSchool (a b : List Nat) : toPoly (Poly.mulSchool a b) = toPoly a * toPoly b := by
  induction a with
  | nil => simp [Poly.mulSchool]
  | cons x xs ih =>
    rw [Poly.mulSchool, toPoly_zipLong fadd 1 (by simp), toPoly_map _ (toF x) (by simp),
      toPoly_cons, toPoly_cons, ih]
    simp; ring

/-! ### results are trimmed (and reduced on reduced inputs) -/

theorem trimmed_add (a b : List Nat) : Trimmed (Poly.add a b) := trimmed_trim _
theorem trimmed_addAssign (a b : List Nat) : Trimmed (Poly.addAssign a b) := trimmed_trim _
theorem trimmed_addAssignScaled (a : List Nat) (f : Nat) (b : List Nat) :
    Trimmed (Poly.addAssignScaled a f b) := trimmed_trim _
theorem trimmed_sub (a b : List Nat) : Trimmed (Poly.sub a b) := trimmed_trim _
theorem trimmed_subAssign (a b : List Nat) : Trimmed (Poly.subAssign a b) := trimmed_trim _
theorem trimmed_nil : Trimmed [] := fun h => absurd rfl h
theorem reduced_nil : Reduced [] := fun _ h => by simp at h
theorem trimmed_scale (p : List Nat) (k : Nat) : Trimmed (Poly.scale p k) := by
  unfold Poly.scale; split
  · exact trimmed_nil
  · exact trimmed_ofCoeffs _
theorem reduced_scale (p : List Nat) (k : Nat) : Reduced (Poly.scale p k) := by
  unfold Poly.scale; split
  · exact reduced_nil
  · exact reduced_ofCoeffs _

theorem reduced_map {g : Nat → Nat} (hg : ∀ x, g x < R) (p : List Nat) : Reduced (p.map g) := by
  intro x hx; obtain ⟨y, _, rfl⟩ := List.mem_map.mp hx; exact hg y

theorem reduced_add {a b : List Nat} (ha : Reduced a) (hb : Reduced b) :
    Reduced (Poly.add a b) := by
  unfold Poly.add
  apply reduced_trim
  split_ifs
  · exact hb
  · exact ha
  · exact reduced_zipOnto (fun x y => fadd_lt x y) _ _
  · exact reduced_zipOnto (fun x y => fadd_lt y x) _ _

theorem reduced_addAssign {a b : List Nat} (ha : Reduced a) (hb : Reduced b) :
    Reduced (Poly.addAssign a b) := by
  unfold Poly.addAssign
  apply reduced_trim
  split_ifs
  · exact hb
  · exact ha
  · exact reduced_zipOnto (fun x y => fadd_lt x y) _ _
  · exact reduced_zipLong (fun x y => fadd_lt x y) _ _

theorem reduced_addAssignScaled {a : List Nat} (ha : Reduced a) (f : Nat) (b : List Nat) :
    Reduced (Poly.addAssignScaled a f b) := by
  unfold Poly.addAssignScaled
  apply reduced_trim
  split_ifs
  · exact reduced_map (fun x => fmul_lt x f) _
  · exact ha
  · exact reduced_zipOnto (fun x y => fadd_lt _ _) _ _
  · exact reduced_zipLong (fun x y => fadd_lt _ _) _ _

theorem reduced_sub {a : List Nat} (ha : Reduced a) (b : List Nat) :
    Reduced (Poly.sub a b) := by
  unfold Poly.sub
  apply reduced_trim
  split_ifs
  · exact reduced_map fneg_lt _
  · exact ha
  · exact reduced_zipOnto (fun x y => fsub_lt _ _) _ _
  · exact reduced_zipLong (fun x y => fsub_lt _ _) _ _

theorem reduced_subAssign {a : List Nat} (ha : Reduced a) (b : List Nat) :
    Reduced (Poly.subAssign a b) := by
  unfold Poly.subAssign
  apply reduced_trim
  split_ifs
  · exact reduced_zipLong (fun x y => fsub_lt _ _) _ _
  · exact ha
  · exact reduced_zipOnto (fun x y => fsub_lt _ _) _ _
  · exact reduced_zipLong (fun x y => fsub_lt _ _) _ _

theorem reduced_mulSchool (a b : List Nat) : Reduced (Poly.mulSchool a b) := by
  cases a with
  | nil => exact reduced_nil
  | cons x xs => exact reduced_zipLong (fun x y => fadd_lt _ _) _ _

theorem reduced_addConst {p : List Nat} (hp : Reduced p) (k : Nat) :
    Reduced (Poly.addConst p k) := by
  unfold Poly.addConst
  split_ifs
  · exact reduced_ofCoeffs _
  · exact hp
  · cases p with
    | nil => exact reduced_nil
    | cons c cs =>
      intro x hx
      rcases List.mem_cons.mp hx with rfl | hx
      · exact fadd_lt _ _
      · exact hp x (List.mem_cons_of_mem _ hx)

/-- `&p + &k` keeps `p` trimmed except in the single case where a constant polynomial is cancelled:
    `addConst [c] k = [0]` when `c + k ≡ 0` (the Rust code does not truncate there). -/
theorem trimmed_addConst {p : List Nat} (hp : Trimmed p) (k : Nat)
    (h : 2 ≤ p.length ∨ toPoly p + C (toF k) ≠ 0) : Trimmed (Poly.addConst p k) := by
  unfold Poly.addConst
  split_ifs with h1 h2
  · exact trimmed_ofCoeffs _
  · exact hp
  · cases p with
    | nil => exact trimmed_nil
    | cons c cs =>
      cases cs with
      | nil =>
        intro _
        rcases h with h | h
        · simp at h
        · simp only [List.getLast_singleton]
          intro h0
          apply h
          have : toF c + toF k = 0 := by rw [← toF_fadd, h0]; simp
          simp only [toPoly_cons, toPoly_nil, mul_zero, add_zero]
          rw [← C_add, this, C_0]
      | cons c' cs =>
        intro _
        have := hp (by simp)
        simpa using this

/-! ### evaluation -/

theorem evaluate_fold (z : Nat) (p : List Nat) (s w : Nat) :
    toF (p.foldl (fun (acc : Nat × Nat) c => (fadd acc.1 (fmul acc.2 c), fmul acc.2 z)) (s, w)).1
      = toF s + toF w * (toPoly p).eval (toF z) := by
  induction p generalizing s w with
  | nil => simp
  | cons c cs ih =>
    rw [List.foldl_cons, ih]
    simp; ring

theorem evaluate_fold_lt (z : Nat) (p : List Nat) (s w : Nat) (hs : s < R) :
    (p.foldl (fun (acc : Nat × Nat) c => (fadd acc.1 (fmul acc.2 c), fmul acc.2 z)) (s, w)).1 < R := by
  induction p generalizing s w with
  | nil => simpa
  | cons c cs ih => rw [List.foldl_cons]; exact ih _ _ (fadd_lt _ _)

theorem evaluate_spec (p : List Nat) (z : Nat) :
    toF (Poly.evaluate p z) = (toPoly p).eval (toF z) := by
  unfold Poly.evaluate
  split
  · next h => rw [toPoly_eq_zero_of_isZero h]; simp
  · rw [evaluate_fold]; simp

theorem evaluate_lt (p : List Nat) (z : Nat) : Poly.evaluate p z < R := by
  unfold Poly.evaluate
  split
  · exact R_pos
  · exact evaluate_fold_lt _ _ _ _ R_pos

/-- the same fold as used by the definition `dft` -/
theorem evaluate'_spec (p : List Nat) (z : Nat) :
    toF (dft.Poly.evaluate' p z) = (toPoly p).eval (toF z) := by
  unfold dft.Poly.evaluate'
  rw [evaluate_fold]; simp

/-! ### division by a linear factor -/

theorem toPoly_headD_tail (q : List Nat) :
    toPoly q = C (toF (q.headD 0)) + X * toPoly q.tail := by
  cases q <;> simp

theorem ruffini_fold (z : Nat) (p : List Nat) :
    let st := p.foldr (fun c (acc : List Nat × Nat) => (fadd c acc.2 :: acc.1, fmul z (fadd c acc.2))) ([], 0)
    toPoly p = toPoly st.1.tail * (X - C (toF z)) + C (toF (st.1.headD 0)) ∧
      toF st.2 = toF z * toF (st.1.headD 0) := by
  induction p with
  | nil => simp
  | cons c cs ih =>
    obtain ⟨ih1, ih2⟩ := ih
    simp only [List.foldr_cons, List.tail_cons, List.headD_cons, toPoly_cons]
    refine ⟨?_, by simp⟩
    rw [ih1]
    generalize (List.foldr (fun c (acc : List Nat × Nat) =>
      (fadd c acc.2 :: acc.1, fmul z (fadd c acc.2))) ([], 0) cs) = st at ih1 ih2 ⊢
    rw [toPoly_headD_tail st.1]
    simp only [toF_fadd, ih2, C_add, C_mul]
    ring

/-- Ruffini: `ruffini p z` is the quotient of the division of `p` by `X − z`, the remainder being
    the value `p(z)` (for every coefficient list `p`, trimmed or not, reduced or not). -/
theorem ruffini_spec (p : List Nat) (z : Nat) :
    toPoly p = toPoly (Poly.ruffini p z) * (X - C (toF z)) + C ((toPoly p).eval (toF z)) := by
  have key : ∃ r : F, toPoly p = toPoly (Poly.ruffini p z) * (X - C (toF z)) + C r := by
    unfold Poly.ruffini
    rw [List.foldl_reverse]
    simp only [toPoly_ofCoeffs]
    exact ⟨_, (ruffini_fold z p).1⟩
  obtain ⟨r, hr⟩ := key
  have : (toPoly p).eval (toF z) = r := by
    conv_lhs => rw [hr]
    simp
  rw [this]; exact hr

theorem ruffini_eq_divByMonic (p : List Nat) (z : Nat) :
    toPoly (Poly.ruffini p z) = toPoly p /ₘ (X - C (toF z)) := by
  have h := ruffini_spec p z
  have := div_modByMonic_unique (f := toPoly p) (toPoly (Poly.ruffini p z))
    (C ((toPoly p).eval (toF z))) (monic_X_sub_C (toF z))
    ⟨by rw [add_comm, mul_comm]; exact h.symm, by
      rw [degree_X_sub_C]; exact lt_of_le_of_lt degree_C_le (by norm_num)⟩
  exact this.1.symm

/-- for a root `z` the division is exact -/
theorem ruffini_of_root (p : List Nat) (z : Nat) (h : (toPoly p).eval (toF z) = 0) :
    toPoly p = toPoly (Poly.ruffini p z) * (X - C (toF z)) := by
  have := ruffini_spec p z
  rw [h] at this; simpa using this

theorem trimmed_ruffini (p : List Nat) (z : Nat) : Trimmed (Poly.ruffini p z) := by
  unfold Poly.ruffini; exact trimmed_ofCoeffs _

theorem reduced_ruffini (p : List Nat) (z : Nat) : Reduced (Poly.ruffini p z) := by
  unfold Poly.ruffini; exact reduced_ofCoeffs _

end Plonk
