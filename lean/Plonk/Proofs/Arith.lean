/-
  Glue lemmas for the arithmetic / equality / boolean / selection primitives of the composer
  (property C08).  For each primitive `X`:
    * `X_appends`   : `Appends c c' k m` (extends, `k` gates / `m` witnesses appended, all plain)
    * `X_rows_iff`  : the appended rows hold under an arbitrary assignment iff the relation in `F`
    * `X_honest`    : the model's own witness table satisfies the appended rows
    * `X_wf`        : well-formedness is preserved
-/
import Mathlib.Tactic.Ring
import Mathlib.Tactic.LinearCombination
import Mathlib.Tactic.FieldSimp
import Mathlib.Tactic.IntervalCases
import Plonk.Proofs.Frame

namespace Plonk
open Plonk Plonk.Composer

namespace Composer

/-! ### well-formedness -/

/-- Well-formed composer state: every witness value is reduced, and no public input is recorded
    for a row that does not exist yet. -/
structure WF (c : Composer) : Prop where
  val_lt : ∀ i, c.val i < R
  pis_zero : ∀ i, c.gates.size ≤ i → c.piAt i = 0

theorem val_push (c : Composer) (v i : Nat) :
    ({ c with wit := c.wit.push v } : Composer).val i = if i = c.wit.size then v else c.val i := by
  unfold val
  simp only [Array.getD_eq_getD_getElem?, Array.getElem?_push]
  split
  · next h => simp
  · next h => simp

theorem val_of_size_le (c : Composer) {i : Nat} (h : c.wit.size ≤ i) : c.val i = 0 := by
  unfold val; simp [Array.getD_eq_getD_getElem?, Array.getElem?_eq_none h]

theorem wf_of_wit (c : Composer) (h : ∀ i (hi : i < c.wit.size), c.wit[i] < R)
    (hp : ∀ i, c.gates.size ≤ i → c.piAt i = 0) : WF c := by
  refine ⟨fun i => ?_, hp⟩
  by_cases hi : i < c.wit.size
  · unfold val; simp [Array.getD_eq_getD_getElem?, hi, h i hi]
  · rw [val_of_size_le c (Nat.le_of_not_lt hi)]; exact R_pos

theorem WF.wit_lt {c : Composer} (h : WF c) (i : Nat) (hi : i < c.wit.size) : c.wit[i] < R := by
  have := h.val_lt i
  unfold val at this; simpa [Array.getD_eq_getD_getElem?, hi] using this

/-! ### appending rows -/

/-- `c'` is `c` plus exactly `k` gates, all of them plain, and `m` witnesses. -/
structure Appends (c c' : Composer) (k m : Nat) : Prop where
  ext : Extends c c'
  gates : c'.gates.size = c.gates.size + k
  wit : c'.wit.size = c.wit.size + m
  plain : ∀ i, c.gates.size ≤ i → i < c'.gates.size → Gate.plain (c'.gateAt i)

theorem Appends.refl (c : Composer) : Appends c c 0 0 :=
  ⟨Extends.refl c, rfl, rfl, fun _ h1 h2 => absurd h2 (Nat.not_lt.mpr h1)⟩

theorem Appends.trans {a b c : Composer} {k m k' m' : Nat} (h1 : Appends a b k m)
    (h2 : Appends b c k' m') : Appends a c (k + k') (m + m') where
  ext := h1.ext.trans h2.ext
  gates := by rw [h2.gates, h1.gates]; omega
  wit := by rw [h2.wit, h1.wit]; omega
  plain i hlo hhi := by
    by_cases hi : i < b.gates.size
    · rw [h2.ext.gateAt_eq hi]; exact h1.plain i hlo hi
    · exact h2.plain i (Nat.le_of_not_lt hi) hhi

theorem rowsHoldW_split (c : Composer) (w : Nat → Nat) {lo mid hi : Nat} (h1 : lo ≤ mid)
    (h2 : mid ≤ hi) :
    c.rowsHoldW w lo hi ↔ c.rowsHoldW w lo mid ∧ c.rowsHoldW w mid hi := by
  unfold rowsHoldW
  constructor
  · intro h
    exact ⟨fun i a b => h i a (Nat.lt_of_lt_of_le b h2), fun i a b => h i (Nat.le_trans h1 a) b⟩
  · rintro ⟨ha, hb⟩ i hlo hhi
    by_cases hi : i < mid
    · exact ha i hlo hi
    · exact hb i (Nat.le_of_not_lt hi) hhi

theorem rowsHoldW_single (c : Composer) (w : Nat → Nat) (n : Nat) :
    c.rowsHoldW w n (n + 1) ↔ c.rowHoldsW w n = true := by
  unfold rowsHoldW
  constructor
  · intro h; exact h n (Nat.le_refl _) (Nat.lt_succ_self _)
  · intro h i h1 h2
    have : i = n := by omega
    subst this; exact h

theorem rowsHoldW_empty (c : Composer) (w : Nat → Nat) (n : Nat) : c.rowsHoldW w n n := by
  intro i h1 h2; omega

/-- rows of plain gates keep their meaning in any extension -/
theorem Extends.rowsHoldW_of_plain {c c' : Composer} (h : Extends c c') (w : Nat → Nat)
    {lo hi : Nat} (hhi : hi ≤ c.gates.size)
    (hp : ∀ i, lo ≤ i → i < hi → Gate.plain (c.gateAt i)) :
    c'.rowsHoldW w lo hi ↔ c.rowsHoldW w lo hi := by
  unfold rowsHoldW
  constructor
  · intro hh i h1 h2
    rw [← h.rowHoldsW_eq_of_plain w (Nat.lt_of_lt_of_le h2 hhi) (hp i h1 h2)]; exact hh i h1 h2
  · intro hh i h1 h2
    rw [h.rowHoldsW_eq_of_plain w (Nat.lt_of_lt_of_le h2 hhi) (hp i h1 h2)]; exact hh i h1 h2

/-- the rows appended by two consecutive components: those of the first (read in the
    intermediate state) and those of the second -/
theorem Appends.rows_split {a b c : Composer} {k m k' m' : Nat} (h1 : Appends a b k m)
    (h2 : Appends b c k' m') (w : Nat → Nat) :
    c.rowsHoldW w a.gates.size c.gates.size ↔
      b.rowsHoldW w a.gates.size b.gates.size ∧ c.rowsHoldW w b.gates.size c.gates.size := by
  rw [rowsHoldW_split c w h1.ext.gates_size h2.ext.gates_size,
    h2.ext.rowsHoldW_of_plain w (Nat.le_refl _) (fun i hlo hhi => h1.plain i hlo hhi)]

/-- the model's own values: the honest table of the first component is still honest later -/
theorem Appends.rows_split_val {a b c : Composer} {k m k' m' : Nat} (h1 : Appends a b k m)
    (h2 : Appends b c k' m') :
    c.rowsHoldW c.val a.gates.size c.gates.size ↔
      b.rowsHoldW c.val a.gates.size b.gates.size ∧
      c.rowsHoldW c.val b.gates.size c.gates.size := h1.rows_split h2 c.val

/-- two assignments that agree on the wires of a row give the same row values -/
theorem rowHoldsW_congr_plain (c : Composer) (w w' : Nat → Nat) (i : Nat)
    (hp : Gate.plain (c.gateAt i))
    (h : w (c.gateAt i).a = w' (c.gateAt i).a ∧ w (c.gateAt i).b = w' (c.gateAt i).b ∧
         w (c.gateAt i).c = w' (c.gateAt i).c ∧ w (c.gateAt i).d = w' (c.gateAt i).d)
    (hi : i < c.gates.size) :
    c.rowHoldsW w i = c.rowHoldsW w' i := by
  unfold rowHoldsW
  have hg : c.gates[i]? = some (c.gateAt i) := by
    unfold gateAt; simp [Array.getD_eq_getD_getElem?, hi]
  have e : c.rowValsW w i = c.rowValsW w' i := by
    unfold rowValsW; rw [hg]; simp [h.1, h.2.1, h.2.2.1, h.2.2.2]
  rw [e]
  exact rowHolds_plain_next hp ..

end Composer

/-! ### one arithmetic row -/

/-- the public input a constraint contributes to its row (field level) -/
def Constraint.piF (s : Constraint) : F := if s.hasPi then toF s.pi else 0

/-- field-level arithmetic relation of `append_gate s` under the assignment `w`:
    `q_M·a·b + q_L·a + q_R·b + q_O·c + q_F·d + q_C + PI = 0` -/
def Constraint.arithRel (s : Constraint) (w : Nat → Nat) : Prop :=
  toF s.qm * toF (w s.a) * toF (w s.b) + toF s.ql * toF (w s.a) + toF s.qr * toF (w s.b)
    + toF s.qo * toF (w s.c) + toF s.qf * toF (w s.d) + toF s.qc + s.piF = 0

/-- the value `q_M·a·b + q_L·a + q_R·b + q_F·d + q_C` (no output term, no public input) -/
def Constraint.evalF (s : Constraint) (w : Nat → Nat) : F :=
  toF s.qm * toF (w s.a) * toF (w s.b) + toF s.ql * toF (w s.a) + toF s.qr * toF (w s.b)
    + toF s.qf * toF (w s.d) + toF s.qc

theorem Constraint.arithRel_iff (s : Constraint) (w : Nat → Nat) :
    s.arithRel w ↔ s.evalF w + toF s.qo * toF (w s.c) + s.piF = 0 := by
  unfold Constraint.arithRel Constraint.evalF
  constructor <;> intro h <;> linear_combination h

namespace Composer

theorem plain_arithmetic (s : Constraint) : Gate.plain (Constraint.arithmetic s).toGate :=
  ⟨rfl, rfl, rfl, rfl⟩

theorem piAt_mk_push_self (g : Array Gate) (wt : Array Nat) (p : Array (Nat × Nat)) (n v : Nat) :
    (Composer.mk g wt (p.push (n, v))).piAt n = v := by
  unfold piAt; simp

theorem piAt_mk_push_of_ne (g : Array Gate) (wt : Array Nat) (p : Array (Nat × Nat)) (n v i : Nat)
    (h : i ≠ n) (g' : Array Gate) (wt' : Array Nat) :
    (Composer.mk g wt (p.push (n, v))).piAt i = (Composer.mk g' wt' p).piAt i := by
  unfold piAt
  simp only [Array.foldl_push]
  have : (n == i) = false := by simp; omega
  simp [this]

theorem gateAt_appendCustomGate (s : Constraint) (c : Composer) :
    ((appendCustomGate s).run c).2.gateAt c.gates.size = s.toGate := by
  simp [gateAt]

theorem piAt_appendCustomGate (s : Constraint) (c : Composer)
    (hp : ∀ i, c.gates.size ≤ i → c.piAt i = 0) :
    toF (((appendCustomGate s).run c).2.piAt c.gates.size) = s.piF := by
  simp only [appendCustomGate_run, Constraint.piF]
  split
  · rw [piAt_mk_push_self]
  · have : ({ c with gates := c.gates.push s.toGate, pis := c.pis } : Composer).piAt c.gates.size
        = c.piAt c.gates.size := rfl
    rw [this, hp _ (Nat.le_refl _)]; rfl

theorem appendCustomGate_appends (s : Constraint) (c : Composer) (hp : Gate.plain s.toGate) :
    Appends c ((appendCustomGate s).run c).2 1 0 where
  ext := extends_appendCustomGate s c
  gates := by simp
  wit := rfl
  plain i h1 h2 := by
    have : i = c.gates.size := by simp at h2; omega
    subst this; rw [gateAt_appendCustomGate]; exact hp

theorem appendCustomGate_wf (s : Constraint) (c : Composer) (h : WF c) :
    WF ((appendCustomGate s).run c).2 where
  val_lt := h.val_lt
  pis_zero i hi := by
    simp only [appendCustomGate_run, Array.size_push] at hi ⊢
    split
    · rw [piAt_mk_push_of_ne _ _ _ _ _ i (by omega) c.gates c.wit]; exact h.pis_zero i (by omega)
    · exact h.pis_zero i (by omega)

/-- a freshly appended gate with only the arithmetic selector family: its row holds iff the
    arithmetic identity holds -/
theorem rowHoldsW_appendCustomGate (s : Constraint) (c : Composer) (hpl : Gate.plain s.toGate)
    (hp : ∀ i, c.gates.size ≤ i → c.piAt i = 0) (w : Nat → Nat) :
    ((appendCustomGate s).run c).2.rowHoldsW w c.gates.size = true ↔
      arithF s.toGate (toF (w s.a)) (toF (w s.b)) (toF (w s.c)) (toF (w s.d)) s.piF = 0 := by
  have hpi := piAt_appendCustomGate s c hp
  have hg := gateAt_appendCustomGate s c
  unfold rowHoldsW
  rw [hg, rowHolds_arith _ hpl.1 hpl.2.1 hpl.2.2.1 hpl.2.2.2, hpi]
  have hr : ((appendCustomGate s).run c).2.rowValsW w c.gates.size
      = ⟨w s.a, w s.b, w s.c, w s.d⟩ := by
    simp [rowValsW, Constraint.toGate]
  rw [hr]

/-! ### `append_gate` -/

theorem appendGate_appends (s : Constraint) (c : Composer) :
    Appends c ((appendGate s).run c).2 1 0 :=
  appendCustomGate_appends _ c (plain_arithmetic s)

theorem appendGate_extends (s : Constraint) (c : Composer) :
    Extends c ((appendGate s).run c).2 := (appendGate_appends s c).ext

theorem appendGate_wf (s : Constraint) (c : Composer) (h : WF c) :
    WF ((appendGate s).run c).2 := appendCustomGate_wf _ c h

theorem appendGate_row_iff (s : Constraint) (c : Composer) (h : WF c) (w : Nat → Nat) :
    ((appendGate s).run c).2.rowHoldsW w c.gates.size = true ↔ s.arithRel w := by
  rw [appendGate_run, rowHoldsW_appendCustomGate _ c (plain_arithmetic s) h.pis_zero]
  have hpi : (Constraint.arithmetic s).piF = s.piF := rfl
  rw [hpi]
  unfold arithF Constraint.arithRel
  generalize s.piF = p
  simp only [Constraint.arithmetic, Constraint.fromExternal, Constraint.toGate, toF_one, mul_one]
  constructor <;> intro h <;> linear_combination h

/-- `append_gate s`: the appended row holds under `w` iff
    `q_M·a·b + q_L·a + q_R·b + q_O·c + q_F·d + q_C + PI = 0` (internal selectors of `s` dropped;
    `PI = s.pi` when `s.hasPi`, else `0`). -/
theorem appendGate_rows_iff (s : Constraint) (c : Composer) (h : WF c) (w : Nat → Nat) :
    ((appendGate s).run c).2.rowsHoldW w c.gates.size ((appendGate s).run c).2.gates.size
      ↔ s.arithRel w := by
  rw [(appendGate_appends s c).gates, rowsHoldW_single, appendGate_row_iff s c h]

/-- the model's own table satisfies the row of `append_gate s` iff the relation holds for the
    model's values (the gate allocates nothing) -/
theorem appendGate_honest_iff (s : Constraint) (c : Composer) (h : WF c) :
    ((appendGate s).run c).2.rowsHoldW ((appendGate s).run c).2.val c.gates.size
      ((appendGate s).run c).2.gates.size ↔ s.arithRel c.val :=
  appendGate_rows_iff s c h _

/-! ### `append_evaluated_output` -/

/-- the value `x = q_M·a·b + q_L·a + q_R·b + q_F·d + q_C + PI` computed by the model -/
def aeoX (s : Constraint) (c : Composer) : Nat :=
  fadd (fadd (fadd (fadd (fadd (fmul (fmul s.qm (c.val s.a)) (c.val s.b)) (fmul s.ql (c.val s.a)))
    (fmul s.qr (c.val s.b))) (fmul s.qf (c.val s.d))) s.qc) s.pi

/-- the solved output value, `none` when `q_O` is not invertible -/
def aeoValue (s : Constraint) (c : Composer) : Option Nat :=
  if s.qo == 1 % R then some (fneg (aeoX s c))
  else if s.qo == R - 1 then some (aeoX s c)
  else (finv? s.qo).map fun yi => fmul (aeoX s c) (fneg yi)

theorem appendEvaluatedOutput_run (s : Constraint) (c : Composer) :
    (appendEvaluatedOutput s).run c =
      match aeoValue s c with
      | some cv =>
        (some c.wit.size,
          ((appendGate { s with c := c.wit.size }).run ((appendWitness cv).run c).2).2)
      | none => (none, ((appendGate s).run c).2) := by
  unfold appendEvaluatedOutput aeoValue aeoX
  simp only [bind, StateT.bind, StateT.run, getVal, pure]
  split
  · rfl
  · split
    · rfl
    · cases finv? s.qo <;> rfl

theorem Constraint_evalF_congr (s : Constraint) {w w' : Nat → Nat} (ha : w s.a = w' s.a)
    (hb : w s.b = w' s.b) (hd : w s.d = w' s.d) : s.evalF w = s.evalF w' := by
  unfold Constraint.evalF; rw [ha, hb, hd]

theorem toF_aeoX (s : Constraint) (c : Composer) :
    toF (aeoX s c) = s.evalF c.val + toF s.pi := by
  unfold aeoX Constraint.evalF; simp

theorem aeoValue_eq_none_iff (s : Constraint) (c : Composer) :
    aeoValue s c = none ↔ toF s.qo = 0 := by
  unfold aeoValue
  split
  · next h =>
    have : s.qo = 1 := by rw [one_mod_R] at h; simpa using h
    simp [this]
  · split
    · next h =>
      have : s.qo = R - 1 := by simpa using h
      simp [this, toF_R_sub_one]
    · rw [Option.map_eq_none_iff, finv?_eq_none_iff]

theorem aeoValue_some (s : Constraint) (c : Composer) {cv : Nat} (h : aeoValue s c = some cv) :
    toF s.qo ≠ 0 ∧ toF s.qo * toF cv = -(s.evalF c.val + toF s.pi) := by
  have hx := toF_aeoX s c
  unfold aeoValue at h
  split at h
  · next h1 =>
    have h1 : s.qo = 1 := by rw [one_mod_R] at h1; simpa using h1
    injection h with h; subst h
    simp [h1, hx]
  · split at h
    · next h2 =>
      have h2 : s.qo = R - 1 := by simpa using h2
      injection h with h; subst h
      simp [h2, toF_R_sub_one, hx]
    · rw [Option.map_eq_some_iff] at h
      obtain ⟨yi, hy, hcv⟩ := h
      obtain ⟨hne, hyi⟩ := finv?_some _ _ hy
      refine ⟨hne, ?_⟩
      subst hcv
      rw [toF_fmul, toF_fneg, hyi, hx]
      field_simp

theorem aeoValue_isSome (s : Constraint) (c : Composer) (h : toF s.qo ≠ 0) :
    ∃ cv, aeoValue s c = some cv := by
  cases hv : aeoValue s c with
  | none => exact absurd ((aeoValue_eq_none_iff s c).mp hv) h
  | some cv => exact ⟨cv, rfl⟩

theorem appendWitness_appends (v : Nat) (c : Composer) :
    Appends c ((appendWitness v).run c).2 0 1 where
  ext := extends_appendWitness v c
  gates := rfl
  wit := by simp
  plain i h1 h2 := absurd h2 (Nat.not_lt.mpr h1)

theorem appendWitness_wf (v : Nat) (c : Composer) (h : WF c) : WF ((appendWitness v).run c).2 where
  val_lt i := by
    simp only [appendWitness_run, val_push]
    split
    · exact Nat.mod_lt _ R_pos
    · exact h.val_lt i
  pis_zero := h.pis_zero

theorem appendWitness_val (v : Nat) (c : Composer) :
    ((appendWitness v).run c).2.val c.wit.size = v % R := by
  simp [val_push]

/-- invertible `q_O`: description of the resulting state -/
theorem appendEvaluatedOutput_some (s : Constraint) (c : Composer) (h : toF s.qo ≠ 0) :
    ∃ cv, toF s.qo * toF cv = -(s.evalF c.val + toF s.pi) ∧
      (appendEvaluatedOutput s).run c =
        (some c.wit.size,
          ((appendGate { s with c := c.wit.size }).run ((appendWitness cv).run c).2).2) := by
  obtain ⟨cv, hcv⟩ := aeoValue_isSome s c h
  refine ⟨cv, (aeoValue_some s c hcv).2, ?_⟩
  rw [appendEvaluatedOutput_run, hcv]

/-- non-invertible `q_O`: no witness, one arithmetic row on the inputs -/
theorem appendEvaluatedOutput_none (s : Constraint) (c : Composer) (h : toF s.qo = 0) :
    (appendEvaluatedOutput s).run c = (none, ((appendGate s).run c).2) := by
  rw [appendEvaluatedOutput_run, (aeoValue_eq_none_iff s c).mpr h]

theorem appendEvaluatedOutput_fst (s : Constraint) (c : Composer) (h : toF s.qo ≠ 0) :
    ((appendEvaluatedOutput s).run c).1 = some c.wit.size := by
  obtain ⟨cv, -, hr⟩ := appendEvaluatedOutput_some s c h; rw [hr]

theorem appendEvaluatedOutput_fst_none (s : Constraint) (c : Composer) (h : toF s.qo = 0) :
    ((appendEvaluatedOutput s).run c).1 = none := by
  rw [appendEvaluatedOutput_none s c h]

theorem appendEvaluatedOutput_appends (s : Constraint) (c : Composer) (h : toF s.qo ≠ 0) :
    Appends c ((appendEvaluatedOutput s).run c).2 1 1 := by
  obtain ⟨cv, -, hr⟩ := appendEvaluatedOutput_some s c h; rw [hr]
  exact (appendWitness_appends cv c).trans (appendGate_appends _ _)

theorem appendEvaluatedOutput_appends_none (s : Constraint) (c : Composer) (h : toF s.qo = 0) :
    Appends c ((appendEvaluatedOutput s).run c).2 1 0 := by
  rw [appendEvaluatedOutput_none s c h]; exact appendGate_appends s c

theorem appendEvaluatedOutput_wf (s : Constraint) (c : Composer) (hwf : WF c) :
    WF ((appendEvaluatedOutput s).run c).2 := by
  by_cases h : toF s.qo = 0
  · rw [appendEvaluatedOutput_none s c h]; exact appendGate_wf s c hwf
  · obtain ⟨cv, -, hr⟩ := appendEvaluatedOutput_some s c h; rw [hr]
    exact appendGate_wf _ _ (appendWitness_wf cv c hwf)

/-- invertible `q_O`: the appended row holds iff
    `q_M·a·b + q_L·a + q_R·b + q_F·d + q_C + q_O·o + PI = 0` with `o` the returned witness -/
theorem appendEvaluatedOutput_rows_iff (s : Constraint) (c : Composer) (hwf : WF c)
    (h : toF s.qo ≠ 0) (w : Nat → Nat) :
    ((appendEvaluatedOutput s).run c).2.rowsHoldW w c.gates.size
        ((appendEvaluatedOutput s).run c).2.gates.size ↔
      s.evalF w + toF s.qo * toF (w c.wit.size) + s.piF = 0 := by
  obtain ⟨cv, -, hr⟩ := appendEvaluatedOutput_some s c h; rw [hr]
  have := appendGate_rows_iff { s with c := c.wit.size } _ (appendWitness_wf cv c hwf) w
  rw [Constraint.arithRel_iff] at this
  exact this

/-- non-invertible `q_O`: the appended row is the plain arithmetic relation of `s` -/
theorem appendEvaluatedOutput_rows_iff_none (s : Constraint) (c : Composer) (hwf : WF c)
    (h : toF s.qo = 0) (w : Nat → Nat) :
    ((appendEvaluatedOutput s).run c).2.rowsHoldW w c.gates.size
        ((appendEvaluatedOutput s).run c).2.gates.size ↔ s.arithRel w := by
  rw [appendEvaluatedOutput_none s c h]; exact appendGate_rows_iff s c hwf w

/-- the value the model stores in the returned witness: `−(x)/q_O` -/
theorem appendEvaluatedOutput_val (s : Constraint) (c : Composer) (h : toF s.qo ≠ 0) :
    toF (((appendEvaluatedOutput s).run c).2.val c.wit.size) =
      -(s.evalF c.val + toF s.pi) / toF s.qo := by
  obtain ⟨cv, hcv, hr⟩ := appendEvaluatedOutput_some s c h; rw [hr]
  have : ((appendGate { s with c := c.wit.size }).run ((appendWitness cv).run c).2).2.val c.wit.size
      = cv % R := appendWitness_val cv c
  rw [this, toF_mod, eq_div_iff h, ← hcv]; ring

/-- honest table (read in any later state `c''`): needs the operands to be allocated and the
    public-input coefficient to be absent when the flag is off -/
theorem appendEvaluatedOutput_honest_ext (s : Constraint) (c : Composer) (hwf : WF c)
    (h : toF s.qo ≠ 0) (hpi : s.hasPi = false → s.pi = 0)
    (ha : s.a < c.wit.size) (hb : s.b < c.wit.size) (hd : s.d < c.wit.size)
    {c'' : Composer} (hext : Extends ((appendEvaluatedOutput s).run c).2 c'') :
    ((appendEvaluatedOutput s).run c).2.rowsHoldW c''.val c.gates.size
        ((appendEvaluatedOutput s).run c).2.gates.size := by
  rw [appendEvaluatedOutput_rows_iff s c hwf h]
  have hap := appendEvaluatedOutput_appends s c h
  have hv := appendEvaluatedOutput_val s c h
  have hex := hap.ext.trans hext
  have ho : c''.val c.wit.size = ((appendEvaluatedOutput s).run c).2.val c.wit.size :=
    hext.val_eq (by rw [hap.wit]; omega)
  rw [ho, hv, Constraint_evalF_congr s (w := c''.val) (w' := c.val) (hex.val_eq ha) (hex.val_eq hb)
    (hex.val_eq hd)]
  have hp : s.piF = toF s.pi := by
    unfold Constraint.piF
    cases hh : s.hasPi with
    | true => simp
    | false => simp [hpi hh]
  rw [hp]; field_simp; ring

theorem appendEvaluatedOutput_honest (s : Constraint) (c : Composer) (hwf : WF c)
    (h : toF s.qo ≠ 0) (hpi : s.hasPi = false → s.pi = 0)
    (ha : s.a < c.wit.size) (hb : s.b < c.wit.size) (hd : s.d < c.wit.size) :
    ((appendEvaluatedOutput s).run c).2.rowsHoldW ((appendEvaluatedOutput s).run c).2.val
        c.gates.size ((appendEvaluatedOutput s).run c).2.gates.size :=
  appendEvaluatedOutput_honest_ext s c hwf h hpi ha hb hd (Extends.refl _)

/-! ### `gate_add` / `gate_mul` -/

/-- the constraint `gate_add` actually appends -/
def gateAddC (s : Constraint) : Constraint := { Constraint.arithmetic s with qo := R - 1 }

theorem toF_gateAddC_qo (s : Constraint) : toF (gateAddC s).qo ≠ 0 := by
  show toF (R - 1) ≠ 0
  rw [toF_R_sub_one]; simp

theorem gateAdd_run (s : Constraint) (c : Composer) :
    (gateAdd s).run c = (c.wit.size, ((appendEvaluatedOutput (gateAddC s)).run c).2) := by
  have h1 := appendEvaluatedOutput_fst (gateAddC s) c (toF_gateAddC_qo s)
  have hd : gateAdd s = (appendEvaluatedOutput (gateAddC s) >>= fun r =>
      match r with | some o => pure o | none => pure 0) := rfl
  rw [hd]
  simp only [bind, StateT.bind, StateT.run] at h1 ⊢
  generalize appendEvaluatedOutput (gateAddC s) c = r at h1 ⊢
  obtain ⟨o, c'⟩ := r
  simp only at h1
  subst h1
  rfl

theorem gateAdd_fst (s : Constraint) (c : Composer) : ((gateAdd s).run c).1 = c.wit.size := by
  rw [gateAdd_run]

theorem gateAdd_snd (s : Constraint) (c : Composer) :
    ((gateAdd s).run c).2 = ((appendEvaluatedOutput (gateAddC s)).run c).2 := by
  rw [gateAdd_run]

theorem gateAdd_appends (s : Constraint) (c : Composer) :
    Appends c ((gateAdd s).run c).2 1 1 := by
  rw [gateAdd_snd]; exact appendEvaluatedOutput_appends _ c (toF_gateAddC_qo s)

theorem gateAdd_extends (s : Constraint) (c : Composer) : Extends c ((gateAdd s).run c).2 :=
  (gateAdd_appends s c).ext

theorem gateAdd_wf (s : Constraint) (c : Composer) (h : WF c) : WF ((gateAdd s).run c).2 := by
  rw [gateAdd_snd]; exact appendEvaluatedOutput_wf _ c h

/-- `gate_add s` / `gate_mul s`: the appended row holds under `w` iff the returned witness
    `o = c.wit.size` carries `q_M·a·b + q_L·a + q_R·b + q_F·d + q_C + PI` (`q_O` of `s` and its
    internal selectors are ignored). -/
theorem gateAdd_rows_iff (s : Constraint) (c : Composer) (h : WF c) (w : Nat → Nat) :
    ((gateAdd s).run c).2.rowsHoldW w c.gates.size ((gateAdd s).run c).2.gates.size ↔
      toF (w c.wit.size) = s.evalF w + s.piF := by
  rw [gateAdd_snd, appendEvaluatedOutput_rows_iff _ c h (toF_gateAddC_qo s)]
  have e1 : (gateAddC s).evalF w = s.evalF w := rfl
  have e2 : (gateAddC s).piF = s.piF := rfl
  have e3 : toF (gateAddC s).qo = -1 := toF_R_sub_one
  rw [e1, e2, e3]
  constructor <;> intro h <;> linear_combination -h

/-- the value the model stores -/
theorem gateAdd_val (s : Constraint) (c : Composer) :
    toF (((gateAdd s).run c).2.val c.wit.size) = s.evalF c.val + toF s.pi := by
  rw [gateAdd_snd, appendEvaluatedOutput_val _ c (toF_gateAddC_qo s)]
  have e1 : (gateAddC s).evalF c.val = s.evalF c.val := rfl
  have e2 : (gateAddC s).pi = s.pi := rfl
  have e3 : toF (gateAddC s).qo = -1 := toF_R_sub_one
  rw [e1, e2, e3]; field_simp

theorem gateAdd_honest_ext (s : Constraint) (c : Composer) (hwf : WF c)
    (hpi : s.hasPi = false → s.pi = 0)
    (ha : s.a < c.wit.size) (hb : s.b < c.wit.size) (hd : s.d < c.wit.size)
    {c'' : Composer} (hext : Extends ((gateAdd s).run c).2 c'') :
    ((gateAdd s).run c).2.rowsHoldW c''.val c.gates.size ((gateAdd s).run c).2.gates.size := by
  rw [gateAdd_snd] at hext ⊢
  exact appendEvaluatedOutput_honest_ext (gateAddC s) c hwf (toF_gateAddC_qo s) hpi ha hb hd hext

theorem gateAdd_honest (s : Constraint) (c : Composer) (hwf : WF c)
    (hpi : s.hasPi = false → s.pi = 0)
    (ha : s.a < c.wit.size) (hb : s.b < c.wit.size) (hd : s.d < c.wit.size) :
    ((gateAdd s).run c).2.rowsHoldW ((gateAdd s).run c).2.val c.gates.size
      ((gateAdd s).run c).2.gates.size :=
  gateAdd_honest_ext s c hwf hpi ha hb hd (Extends.refl _)

/-! `gate_mul` is `gate_add` -/
theorem gateMul_eq (s : Constraint) : gateMul s = gateAdd s := rfl

/-! ### `assert_equal` -/

theorem assertEqual_appends (a b : Nat) (c : Composer) :
    Appends c ((assertEqual a b).run c).2 1 0 := appendGate_appends _ c

theorem assertEqual_extends (a b : Nat) (c : Composer) :
    Extends c ((assertEqual a b).run c).2 := (assertEqual_appends a b c).ext

theorem assertEqual_wf (a b : Nat) (c : Composer) (h : WF c) :
    WF ((assertEqual a b).run c).2 := appendGate_wf _ c h

/-- `assert_equal a b`: the appended row holds under `w` iff `w a = w b` in the field -/
theorem assertEqual_rows_iff (a b : Nat) (c : Composer) (h : WF c) (w : Nat → Nat) :
    ((assertEqual a b).run c).2.rowsHoldW w c.gates.size ((assertEqual a b).run c).2.gates.size ↔
      toF (w a) = toF (w b) := by
  unfold assertEqual
  rw [appendGate_rows_iff _ c h]
  simp only [Constraint.arithRel, Constraint.piF, toF_zero, toF_one, toF_R_sub_one]
  constructor
  · intro h; simp at h; linear_combination h
  · intro h; simp; linear_combination h

theorem assertEqual_honest_ext (a b : Nat) (c : Composer) (hwf : WF c)
    (ha : a < c.wit.size) (hb : b < c.wit.size) (heq : c.val a = c.val b)
    {c'' : Composer} (hext : Extends ((assertEqual a b).run c).2 c'') :
    ((assertEqual a b).run c).2.rowsHoldW c''.val c.gates.size
      ((assertEqual a b).run c).2.gates.size := by
  rw [assertEqual_rows_iff a b c hwf]
  have hex := (assertEqual_extends a b c).trans hext
  rw [hex.val_eq ha, hex.val_eq hb, heq]

/-- the model's own table satisfies the row iff the two values are equal -/
theorem assertEqual_honest_iff (a b : Nat) (c : Composer) (hwf : WF c) :
    ((assertEqual a b).run c).2.rowsHoldW ((assertEqual a b).run c).2.val c.gates.size
      ((assertEqual a b).run c).2.gates.size ↔ c.val a = c.val b := by
  rw [assertEqual_rows_iff a b c hwf]
  exact toF_inj_of_lt (hwf.val_lt a) (hwf.val_lt b)

/-! ### `assert_equal_constant` -/

/-- the optional public input as a field element -/
def pubF : Option Nat → F
  | some p => toF p
  | none => 0

theorem assertEqualConstant_appends (a k : Nat) (pub : Option Nat) (c : Composer) :
    Appends c ((assertEqualConstant a k pub).run c).2 1 0 := appendGate_appends _ c

theorem assertEqualConstant_extends (a k : Nat) (pub : Option Nat) (c : Composer) :
    Extends c ((assertEqualConstant a k pub).run c).2 := (assertEqualConstant_appends a k pub c).ext

theorem assertEqualConstant_wf (a k : Nat) (pub : Option Nat) (c : Composer) (h : WF c) :
    WF ((assertEqualConstant a k pub).run c).2 := appendGate_wf _ c h

/-- `assert_equal_constant a k pub`: the row holds under `w` iff `w a = k + pub` -/
theorem assertEqualConstant_rows_iff (a k : Nat) (pub : Option Nat) (c : Composer) (h : WF c)
    (w : Nat → Nat) :
    ((assertEqualConstant a k pub).run c).2.rowsHoldW w c.gates.size
        ((assertEqualConstant a k pub).run c).2.gates.size ↔
      toF (w a) = toF k + pubF pub := by
  unfold assertEqualConstant
  rw [appendGate_rows_iff _ c h]
  cases pub with
  | none =>
    simp only [Constraint.arithRel, Constraint.piF, pubF, toF_zero, toF_mod, toF_R_sub_one]
    constructor
    · intro h; simp at h; linear_combination -h
    · intro h; simp; linear_combination -h
  | some p =>
    simp only [Constraint.arithRel, Constraint.piF, pubF, toF_zero, toF_mod, toF_R_sub_one]
    constructor
    · intro h; simp at h; linear_combination -h
    · intro h; simp; linear_combination -h

theorem assertEqualConstant_honest_ext (a k : Nat) (pub : Option Nat) (c : Composer) (hwf : WF c)
    (ha : a < c.wit.size) (heq : toF (c.val a) = toF k + pubF pub)
    {c'' : Composer} (hext : Extends ((assertEqualConstant a k pub).run c).2 c'') :
    ((assertEqualConstant a k pub).run c).2.rowsHoldW c''.val c.gates.size
      ((assertEqualConstant a k pub).run c).2.gates.size := by
  rw [assertEqualConstant_rows_iff a k pub c hwf]
  have hex := (assertEqualConstant_extends a k pub c).trans hext
  rw [hex.val_eq ha, heq]

theorem assertEqualConstant_honest_iff (a k : Nat) (pub : Option Nat) (c : Composer) (hwf : WF c) :
    ((assertEqualConstant a k pub).run c).2.rowsHoldW ((assertEqualConstant a k pub).run c).2.val
        c.gates.size ((assertEqualConstant a k pub).run c).2.gates.size ↔
      toF (c.val a) = toF k + pubF pub :=
  assertEqualConstant_rows_iff a k pub c hwf _

/-! ### `component_boolean` -/

theorem componentBoolean_appends (a : Nat) (c : Composer) :
    Appends c ((componentBoolean a).run c).2 1 0 := appendGate_appends _ c

theorem componentBoolean_extends (a : Nat) (c : Composer) :
    Extends c ((componentBoolean a).run c).2 := (componentBoolean_appends a c).ext

theorem componentBoolean_wf (a : Nat) (c : Composer) (h : WF c) :
    WF ((componentBoolean a).run c).2 := appendGate_wf _ c h

/-- `component_boolean a`: the row holds iff `x·x = x` -/
theorem componentBoolean_rows_iff_sq (a : Nat) (c : Composer) (h : WF c) (w : Nat → Nat) :
    ((componentBoolean a).run c).2.rowsHoldW w c.gates.size
        ((componentBoolean a).run c).2.gates.size ↔ toF (w a) * toF (w a) = toF (w a) := by
  unfold componentBoolean
  rw [appendGate_rows_iff _ c h]
  simp only [Constraint.arithRel, Constraint.piF, toF_zero, toF_one, toF_R_sub_one, ZERO]
  constructor
  · intro h; simp at h; linear_combination h
  · intro h; simp; linear_combination h

/-- `component_boolean a`: the row holds iff `x = 0 ∨ x = 1` -/
theorem componentBoolean_rows_iff (a : Nat) (c : Composer) (h : WF c) (w : Nat → Nat) :
    ((componentBoolean a).run c).2.rowsHoldW w c.gates.size
        ((componentBoolean a).run c).2.gates.size ↔ (toF (w a) = 0 ∨ toF (w a) = 1) := by
  rw [componentBoolean_rows_iff_sq a c h]
  constructor
  · intro h
    have : toF (w a) * (toF (w a) - 1) = 0 := by linear_combination h
    rcases mul_eq_zero.mp this with h0 | h1
    · exact Or.inl h0
    · exact Or.inr (by linear_combination h1)
  · rintro (h | h) <;> rw [h] <;> ring

theorem componentBoolean_honest_ext (a : Nat) (c : Composer) (hwf : WF c)
    (ha : a < c.wit.size) (hbit : c.val a = 0 ∨ c.val a = 1)
    {c'' : Composer} (hext : Extends ((componentBoolean a).run c).2 c'') :
    ((componentBoolean a).run c).2.rowsHoldW c''.val c.gates.size
      ((componentBoolean a).run c).2.gates.size := by
  rw [componentBoolean_rows_iff a c hwf]
  have hex := (componentBoolean_extends a c).trans hext
  rw [hex.val_eq ha]
  rcases hbit with h | h <;> rw [h] <;> simp

/-- the model's own table satisfies the row iff the value is `0` or `1` -/
theorem componentBoolean_honest_iff (a : Nat) (c : Composer) (hwf : WF c) :
    ((componentBoolean a).run c).2.rowsHoldW ((componentBoolean a).run c).2.val c.gates.size
      ((componentBoolean a).run c).2.gates.size ↔ (c.val a = 0 ∨ c.val a = 1) := by
  rw [componentBoolean_rows_iff a c hwf]
  have h1 : (1 : Nat) < R := R_gt_one
  have e0 : toF (c.val a) = 0 ↔ c.val a = 0 := toF_eq_zero_of_lt (hwf.val_lt a)
  have e1 : toF (c.val a) = 1 ↔ c.val a = 1 := by
    rw [← toF_one]; exact toF_inj_of_lt (hwf.val_lt a) h1
  exact or_congr e0 e1

theorem gateAdd_apply (s : Constraint) (c : Composer) :
    gateAdd s c = (c.wit.size, ((gateAdd s).run c).2) := by
  have := gateAdd_run s c
  rw [gateAdd_snd]; exact this

theorem gateAdd_wit_size (s : Constraint) (c : Composer) :
    ((gateAdd s).run c).2.wit.size = c.wit.size + 1 := (gateAdd_appends s c).wit

theorem gateAdd_gates_size (s : Constraint) (c : Composer) :
    ((gateAdd s).run c).2.gates.size = c.gates.size + 1 := (gateAdd_appends s c).gates

/-! ### `append_constant` / `append_public` -/

theorem appendConstant_run (v : Nat) (c : Composer) :
    (appendConstant v).run c =
      (c.wit.size, ((assertEqualConstant c.wit.size v none).run ((appendWitness v).run c).2).2) :=
  rfl

theorem appendConstant_fst (v : Nat) (c : Composer) : ((appendConstant v).run c).1 = c.wit.size :=
  rfl

theorem appendConstant_snd (v : Nat) (c : Composer) :
    ((appendConstant v).run c).2 =
      ((assertEqualConstant c.wit.size v none).run ((appendWitness v).run c).2).2 := rfl

theorem appendConstant_appends (v : Nat) (c : Composer) :
    Appends c ((appendConstant v).run c).2 1 1 := by
  rw [appendConstant_snd]
  exact (appendWitness_appends v c).trans (assertEqualConstant_appends _ _ _ _)

theorem appendConstant_extends (v : Nat) (c : Composer) :
    Extends c ((appendConstant v).run c).2 := (appendConstant_appends v c).ext

theorem appendConstant_wf (v : Nat) (c : Composer) (h : WF c) :
    WF ((appendConstant v).run c).2 := by
  rw [appendConstant_snd]; exact assertEqualConstant_wf _ _ _ _ (appendWitness_wf v c h)

/-- `append_constant v`: the row holds iff the returned witness carries `v` -/
theorem appendConstant_rows_iff (v : Nat) (c : Composer) (h : WF c) (w : Nat → Nat) :
    ((appendConstant v).run c).2.rowsHoldW w c.gates.size ((appendConstant v).run c).2.gates.size ↔
      toF (w c.wit.size) = toF v := by
  rw [appendConstant_snd]
  have := assertEqualConstant_rows_iff c.wit.size v none _ (appendWitness_wf v c h) w
  simp only [pubF, add_zero] at this
  exact this

theorem appendConstant_val (v : Nat) (c : Composer) :
    ((appendConstant v).run c).2.val c.wit.size = v % R := appendWitness_val v c

theorem appendConstant_honest_ext (v : Nat) (c : Composer) (hwf : WF c) {c'' : Composer}
    (hext : Extends ((appendConstant v).run c).2 c'') :
    ((appendConstant v).run c).2.rowsHoldW c''.val c.gates.size
      ((appendConstant v).run c).2.gates.size := by
  rw [appendConstant_rows_iff v c hwf,
    hext.val_eq (by rw [(appendConstant_appends v c).wit]; omega), appendConstant_val, toF_mod]

theorem appendConstant_honest (v : Nat) (c : Composer) (hwf : WF c) :
    ((appendConstant v).run c).2.rowsHoldW ((appendConstant v).run c).2.val c.gates.size
      ((appendConstant v).run c).2.gates.size := appendConstant_honest_ext v c hwf (Extends.refl _)

theorem appendPublic_run (v : Nat) (c : Composer) :
    (appendPublic v).run c =
      (c.wit.size, ((appendGate { ql := R - 1, a := c.wit.size, pi := v % R, hasPi := true }).run
        ((appendWitness v).run c).2).2) := rfl

theorem appendPublic_fst (v : Nat) (c : Composer) : ((appendPublic v).run c).1 = c.wit.size := rfl

theorem appendPublic_snd (v : Nat) (c : Composer) :
    ((appendPublic v).run c).2 =
      ((appendGate { ql := R - 1, a := c.wit.size, pi := v % R, hasPi := true }).run
        ((appendWitness v).run c).2).2 := rfl

theorem appendPublic_appends (v : Nat) (c : Composer) :
    Appends c ((appendPublic v).run c).2 1 1 := by
  rw [appendPublic_snd]
  exact (appendWitness_appends v c).trans (appendGate_appends _ _)

theorem appendPublic_extends (v : Nat) (c : Composer) :
    Extends c ((appendPublic v).run c).2 := (appendPublic_appends v c).ext

theorem appendPublic_wf (v : Nat) (c : Composer) (h : WF c) :
    WF ((appendPublic v).run c).2 := by
  rw [appendPublic_snd]; exact appendGate_wf _ _ (appendWitness_wf v c h)

/-- the public input recorded for the appended row is `v` (reduced) -/
theorem appendPublic_piAt (v : Nat) (c : Composer) :
    ((appendPublic v).run c).2.piAt c.gates.size = v % R := by
  rw [appendPublic_snd]
  exact piAt_mk_push_self _ _ _ _ _

/-- `append_public v`: the row holds iff the returned witness equals the public input `v` -/
theorem appendPublic_rows_iff (v : Nat) (c : Composer) (h : WF c) (w : Nat → Nat) :
    ((appendPublic v).run c).2.rowsHoldW w c.gates.size ((appendPublic v).run c).2.gates.size ↔
      toF (w c.wit.size) = toF v := by
  rw [appendPublic_snd]
  have := appendGate_rows_iff { ql := R - 1, a := c.wit.size, pi := v % R, hasPi := true } _
    (appendWitness_wf v c h) w
  refine Iff.trans this ?_
  simp only [Constraint.arithRel, Constraint.piF, toF_zero, toF_mod, toF_R_sub_one]
  constructor
  · intro h; simp at h; linear_combination -h
  · intro h; simp; linear_combination -h

theorem appendPublic_val (v : Nat) (c : Composer) :
    ((appendPublic v).run c).2.val c.wit.size = v % R := appendWitness_val v c

theorem appendPublic_honest_ext (v : Nat) (c : Composer) (hwf : WF c) {c'' : Composer}
    (hext : Extends ((appendPublic v).run c).2 c'') :
    ((appendPublic v).run c).2.rowsHoldW c''.val c.gates.size
      ((appendPublic v).run c).2.gates.size := by
  rw [appendPublic_rows_iff v c hwf,
    hext.val_eq (by rw [(appendPublic_appends v c).wit]; omega), appendPublic_val, toF_mod]

theorem appendPublic_honest (v : Nat) (c : Composer) (hwf : WF c) :
    ((appendPublic v).run c).2.rowsHoldW ((appendPublic v).run c).2.val c.gates.size
      ((appendPublic v).run c).2.gates.size := appendPublic_honest_ext v c hwf (Extends.refl _)

/-! ### `component_select_zero` : `bit · value` -/

theorem componentSelectZero_fst (bit value : Nat) (c : Composer) :
    ((componentSelectZero bit value).run c).1 = c.wit.size := gateAdd_fst _ c

theorem componentSelectZero_appends (bit value : Nat) (c : Composer) :
    Appends c ((componentSelectZero bit value).run c).2 1 1 := gateAdd_appends _ c

theorem componentSelectZero_extends (bit value : Nat) (c : Composer) :
    Extends c ((componentSelectZero bit value).run c).2 := gateAdd_extends _ c

theorem componentSelectZero_wf (bit value : Nat) (c : Composer) (h : WF c) :
    WF ((componentSelectZero bit value).run c).2 := gateAdd_wf _ c h

theorem componentSelectZero_rows_iff (bit value : Nat) (c : Composer) (h : WF c) (w : Nat → Nat) :
    ((componentSelectZero bit value).run c).2.rowsHoldW w c.gates.size
        ((componentSelectZero bit value).run c).2.gates.size ↔
      toF (w c.wit.size) = toF (w bit) * toF (w value) := by
  unfold componentSelectZero gateMul
  rw [gateAdd_rows_iff _ c h]
  simp [Constraint.evalF, Constraint.piF]

theorem componentSelectZero_honest_ext (bit value : Nat) (c : Composer) (hwf : WF c)
    (hb : bit < c.wit.size) (hv : value < c.wit.size) {c'' : Composer}
    (hext : Extends ((componentSelectZero bit value).run c).2 c'') :
    ((componentSelectZero bit value).run c).2.rowsHoldW c''.val c.gates.size
      ((componentSelectZero bit value).run c).2.gates.size :=
  gateAdd_honest_ext { qm := 1, a := bit, b := value } c hwf (fun _ => rfl) hb hv
    (Nat.lt_of_le_of_lt (Nat.zero_le _) hb) hext

theorem componentSelectZero_honest (bit value : Nat) (c : Composer) (hwf : WF c)
    (hb : bit < c.wit.size) (hv : value < c.wit.size) :
    ((componentSelectZero bit value).run c).2.rowsHoldW
      ((componentSelectZero bit value).run c).2.val c.gates.size
      ((componentSelectZero bit value).run c).2.gates.size :=
  componentSelectZero_honest_ext bit value c hwf hb hv (Extends.refl _)

theorem componentSelectZero_val (bit value : Nat) (c : Composer) :
    toF (((componentSelectZero bit value).run c).2.val c.wit.size) =
      toF (c.val bit) * toF (c.val value) := by
  unfold componentSelectZero gateMul
  rw [gateAdd_val]
  simp [Constraint.evalF]

/-! ### `component_select_one` : `1 − bit + bit · value` -/

/-- the constraint appended by `component_select_one` -/
def selectOneC (bit value o : Nat) : Constraint :=
  { qm := 1, ql := R - 1, qo := R - 1, qc := 1, a := bit, b := value, c := o }

theorem componentSelectOne_fst (bit value : Nat) (c : Composer) :
    ((componentSelectOne bit value).run c).1 = c.wit.size := rfl

theorem componentSelectOne_snd (bit value : Nat) (c : Composer) :
    ((componentSelectOne bit value).run c).2 =
      ((appendGate (selectOneC bit value c.wit.size)).run
        ((appendWitness (fadd (fsub 1 (c.val bit)) (fmul (c.val bit) (c.val value)))).run c).2).2 :=
  rfl

theorem componentSelectOne_appends (bit value : Nat) (c : Composer) :
    Appends c ((componentSelectOne bit value).run c).2 1 1 := by
  rw [componentSelectOne_snd]
  exact (appendWitness_appends _ c).trans (appendGate_appends _ _)

theorem componentSelectOne_extends (bit value : Nat) (c : Composer) :
    Extends c ((componentSelectOne bit value).run c).2 := (componentSelectOne_appends bit value c).ext

theorem componentSelectOne_wf (bit value : Nat) (c : Composer) (h : WF c) :
    WF ((componentSelectOne bit value).run c).2 := by
  rw [componentSelectOne_snd]; exact appendGate_wf _ _ (appendWitness_wf _ c h)

theorem componentSelectOne_rows_iff (bit value : Nat) (c : Composer) (h : WF c) (w : Nat → Nat) :
    ((componentSelectOne bit value).run c).2.rowsHoldW w c.gates.size
        ((componentSelectOne bit value).run c).2.gates.size ↔
      toF (w c.wit.size) = 1 - toF (w bit) + toF (w bit) * toF (w value) := by
  rw [componentSelectOne_snd]
  refine Iff.trans (appendGate_rows_iff (selectOneC bit value c.wit.size) _
    (appendWitness_wf _ c h) w) ?_
  simp only [Constraint.arithRel, Constraint.piF, selectOneC, toF_zero, toF_one, toF_R_sub_one]
  constructor
  · intro h; simp at h; linear_combination -h
  · intro h; simp; linear_combination -h

theorem componentSelectOne_val (bit value : Nat) (c : Composer) :
    toF (((componentSelectOne bit value).run c).2.val c.wit.size) =
      1 - toF (c.val bit) + toF (c.val bit) * toF (c.val value) := by
  rw [componentSelectOne_snd]
  have : ((appendGate (selectOneC bit value c.wit.size)).run
        ((appendWitness (fadd (fsub 1 (c.val bit)) (fmul (c.val bit) (c.val value)))).run c).2).2.val
          c.wit.size = (fadd (fsub 1 (c.val bit)) (fmul (c.val bit) (c.val value))) % R :=
    appendWitness_val _ c
  rw [this]; simp

theorem componentSelectOne_honest_ext (bit value : Nat) (c : Composer) (hwf : WF c)
    (hb : bit < c.wit.size) (hv : value < c.wit.size) {c'' : Composer}
    (hext : Extends ((componentSelectOne bit value).run c).2 c'') :
    ((componentSelectOne bit value).run c).2.rowsHoldW c''.val c.gates.size
      ((componentSelectOne bit value).run c).2.gates.size := by
  have hap := componentSelectOne_appends bit value c
  have hex := hap.ext.trans hext
  rw [componentSelectOne_rows_iff bit value c hwf,
    hext.val_eq (by rw [hap.wit]; omega), componentSelectOne_val, hex.val_eq hb, hex.val_eq hv]

theorem componentSelectOne_honest (bit value : Nat) (c : Composer) (hwf : WF c)
    (hb : bit < c.wit.size) (hv : value < c.wit.size) :
    ((componentSelectOne bit value).run c).2.rowsHoldW
      ((componentSelectOne bit value).run c).2.val c.gates.size
      ((componentSelectOne bit value).run c).2.gates.size :=
  componentSelectOne_honest_ext bit value c hwf hb hv (Extends.refl _)

/-! ### `component_select` : `bit · a + (1 − bit) · b` -/

/-- state after the first gate (`bit·a`) of `component_select` -/
def sel1 (bit a : Nat) (c : Composer) : Composer :=
  ((gateMul { qm := 1, a := bit, b := a }).run c).2
/-- state after the second gate (`1 − bit`) -/
def sel2 (bit a : Nat) (c : Composer) : Composer :=
  ((gateAdd { ql := R - 1, qc := 1, a := bit }).run (sel1 bit a c)).2
/-- state after the third gate (`(1 − bit)·b`) -/
def sel3 (bit a b : Nat) (c : Composer) : Composer :=
  ((gateMul { qm := 1, a := c.wit.size + 1, b := b }).run (sel2 bit a c)).2
/-- final state -/
def sel4 (bit a b : Nat) (c : Composer) : Composer :=
  ((gateAdd { ql := 1, qr := 1, a := c.wit.size + 2, b := c.wit.size }).run (sel3 bit a b c)).2

theorem componentSelect_run (bit a b : Nat) (c : Composer) :
    (componentSelect bit a b).run c = (c.wit.size + 3, sel4 bit a b c) := by
  unfold componentSelect sel4 sel3 sel2 sel1
  simp only [bind, StateT.bind, StateT.run, gateMul]
  rw [gateAdd_apply]; simp only []
  rw [gateAdd_apply]; simp only [gateAdd_wit_size]
  rw [gateAdd_apply]; simp only [gateAdd_wit_size]
  rw [gateAdd_apply]; simp only [gateAdd_wit_size]

theorem componentSelect_fst (bit a b : Nat) (c : Composer) :
    ((componentSelect bit a b).run c).1 = c.wit.size + 3 := by rw [componentSelect_run]

theorem componentSelect_snd (bit a b : Nat) (c : Composer) :
    ((componentSelect bit a b).run c).2 = sel4 bit a b c := by rw [componentSelect_run]

theorem sel1_appends (bit a : Nat) (c : Composer) : Appends c (sel1 bit a c) 1 1 :=
  gateAdd_appends _ c
theorem sel2_appends (bit a : Nat) (c : Composer) : Appends (sel1 bit a c) (sel2 bit a c) 1 1 :=
  gateAdd_appends _ _
theorem sel3_appends (bit a b : Nat) (c : Composer) :
    Appends (sel2 bit a c) (sel3 bit a b c) 1 1 := gateAdd_appends _ _
theorem sel4_appends (bit a b : Nat) (c : Composer) :
    Appends (sel3 bit a b c) (sel4 bit a b c) 1 1 := gateAdd_appends _ _

theorem componentSelect_appends (bit a b : Nat) (c : Composer) :
    Appends c ((componentSelect bit a b).run c).2 4 4 := by
  rw [componentSelect_snd]
  exact (((sel1_appends bit a c).trans (sel2_appends bit a c)).trans (sel3_appends bit a b c)).trans
    (sel4_appends bit a b c)

theorem componentSelect_extends (bit a b : Nat) (c : Composer) :
    Extends c ((componentSelect bit a b).run c).2 := (componentSelect_appends bit a b c).ext

theorem sel1_wf (bit a : Nat) (c : Composer) (h : WF c) : WF (sel1 bit a c) := gateAdd_wf _ c h
theorem sel2_wf (bit a : Nat) (c : Composer) (h : WF c) : WF (sel2 bit a c) :=
  gateAdd_wf _ _ (sel1_wf bit a c h)
theorem sel3_wf (bit a b : Nat) (c : Composer) (h : WF c) : WF (sel3 bit a b c) :=
  gateAdd_wf _ _ (sel2_wf bit a c h)

theorem componentSelect_wf (bit a b : Nat) (c : Composer) (h : WF c) :
    WF ((componentSelect bit a b).run c).2 := by
  rw [componentSelect_snd]; exact gateAdd_wf _ _ (sel3_wf bit a b c h)

/-- `component_select bit a b`: the four appended rows hold under `w` iff the four allocated
    witnesses `n, n+1, n+2, n+3` (`n = c.wit.size`) carry `bit·a`, `1 − bit`, `(1 − bit)·b` and
    their sum; the returned witness is `n+3`. -/
theorem componentSelect_rows_iff (bit a b : Nat) (c : Composer) (h : WF c) (w : Nat → Nat) :
    ((componentSelect bit a b).run c).2.rowsHoldW w c.gates.size
        ((componentSelect bit a b).run c).2.gates.size ↔
      (toF (w c.wit.size) = toF (w bit) * toF (w a) ∧
       toF (w (c.wit.size + 1)) = 1 - toF (w bit) ∧
       toF (w (c.wit.size + 2)) = toF (w (c.wit.size + 1)) * toF (w b) ∧
       toF (w (c.wit.size + 3)) = toF (w (c.wit.size + 2)) + toF (w c.wit.size)) := by
  rw [componentSelect_snd]
  have A1 := sel1_appends bit a c
  have A2 := sel2_appends bit a c
  have A3 := sel3_appends bit a b c
  have A4 := sel4_appends bit a b c
  rw [((A1.trans A2).trans A3).rows_split A4 w, (A1.trans A2).rows_split A3 w, A1.rows_split A2 w]
  have r1 : (sel1 bit a c).rowsHoldW w c.gates.size (sel1 bit a c).gates.size ↔ _ :=
    gateAdd_rows_iff _ c h w
  have r2 : (sel2 bit a c).rowsHoldW w (sel1 bit a c).gates.size (sel2 bit a c).gates.size ↔ _ :=
    gateAdd_rows_iff _ _ (sel1_wf bit a c h) w
  have r3 : (sel3 bit a b c).rowsHoldW w (sel2 bit a c).gates.size (sel3 bit a b c).gates.size ↔ _ :=
    gateAdd_rows_iff _ _ (sel2_wf bit a c h) w
  have r4 : (sel4 bit a b c).rowsHoldW w (sel3 bit a b c).gates.size (sel4 bit a b c).gates.size
      ↔ _ := gateAdd_rows_iff _ _ (sel3_wf bit a b c h) w
  have e1 : (sel1 bit a c).wit.size = c.wit.size + 1 := A1.wit
  have e2 : (sel2 bit a c).wit.size = c.wit.size + 2 := by rw [A2.wit, e1]
  have e3 : (sel3 bit a b c).wit.size = c.wit.size + 3 := by rw [A3.wit, e2]
  rw [r1, r2, r3, r4, e1, e2, e3]
  simp only [Constraint.evalF, Constraint.piF, toF_zero, toF_one, toF_R_sub_one]
  simp only [and_assoc]
  refine and_congr ?_ (and_congr ?_ (and_congr ?_ ?_))
  · constructor <;> intro h <;> simp at h ⊢ <;> linear_combination h
  · constructor <;> intro h <;> simp at h ⊢ <;> linear_combination h
  · constructor <;> intro h <;> simp at h ⊢ <;> linear_combination h
  · constructor <;> intro h <;> simp at h ⊢ <;> linear_combination h

/-- consequence: the returned witness carries `bit·a + (1 − bit)·b` -/
theorem componentSelect_out (bit a b : Nat) (c : Composer) (h : WF c) (w : Nat → Nat)
    (hr : ((componentSelect bit a b).run c).2.rowsHoldW w c.gates.size
        ((componentSelect bit a b).run c).2.gates.size) :
    toF (w (c.wit.size + 3)) = toF (w bit) * toF (w a) + (1 - toF (w bit)) * toF (w b) := by
  obtain ⟨h1, h2, h3, h4⟩ := (componentSelect_rows_iff bit a b c h w).mp hr
  rw [h4, h3, h2, h1]; ring

theorem componentSelect_honest_ext (bit a b : Nat) (c : Composer) (hwf : WF c)
    (hbit : bit < c.wit.size) (ha : a < c.wit.size) (hb : b < c.wit.size) {c'' : Composer}
    (hext : Extends ((componentSelect bit a b).run c).2 c'') :
    ((componentSelect bit a b).run c).2.rowsHoldW c''.val c.gates.size
      ((componentSelect bit a b).run c).2.gates.size := by
  rw [componentSelect_snd] at hext ⊢
  have A1 := sel1_appends bit a c
  have A2 := sel2_appends bit a c
  have A3 := sel3_appends bit a b c
  have A4 := sel4_appends bit a b c
  have e1 : (sel1 bit a c).wit.size = c.wit.size + 1 := A1.wit
  have e2 : (sel2 bit a c).wit.size = c.wit.size + 2 := by rw [A2.wit, e1]
  have e3 : (sel3 bit a b c).wit.size = c.wit.size + 3 := by rw [A3.wit, e2]
  have x3 : Extends (sel3 bit a b c) c'' := A4.ext.trans hext
  have x2 : Extends (sel2 bit a c) c'' := A3.ext.trans x3
  have x1 : Extends (sel1 bit a c) c'' := A2.ext.trans x2
  rw [((A1.trans A2).trans A3).rows_split A4, (A1.trans A2).rows_split A3, A1.rows_split A2]
  refine ⟨⟨⟨?_, ?_⟩, ?_⟩, ?_⟩
  · exact gateAdd_honest_ext _ c hwf (fun _ => rfl) hbit ha (by show 0 < _; omega) x1
  · exact gateAdd_honest_ext _ _ (sel1_wf bit a c hwf) (fun _ => rfl) (by show bit < _; omega)
      (by show 0 < _; omega) (by show 0 < _; omega) x2
  · exact gateAdd_honest_ext _ _ (sel2_wf bit a c hwf) (fun _ => rfl)
      (by show c.wit.size + 1 < _; omega) (by show b < _; omega) (by show 0 < _; omega) x3
  · exact gateAdd_honest_ext _ _ (sel3_wf bit a b c hwf) (fun _ => rfl)
      (by show c.wit.size + 2 < _; omega) (by show c.wit.size < _; omega) (by show 0 < _; omega)
      hext

theorem componentSelect_honest (bit a b : Nat) (c : Composer) (hwf : WF c)
    (hbit : bit < c.wit.size) (ha : a < c.wit.size) (hb : b < c.wit.size) :
    ((componentSelect bit a b).run c).2.rowsHoldW ((componentSelect bit a b).run c).2.val
      c.gates.size ((componentSelect bit a b).run c).2.gates.size :=
  componentSelect_honest_ext bit a b c hwf hbit ha hb (Extends.refl _)

/-- the value the model stores in the returned witness -/
theorem componentSelect_val (bit a b : Nat) (c : Composer) (hwf : WF c)
    (hbit : bit < c.wit.size) (ha : a < c.wit.size) (hb : b < c.wit.size) :
    toF (((componentSelect bit a b).run c).2.val (c.wit.size + 3)) =
      toF (c.val bit) * toF (c.val a) + (1 - toF (c.val bit)) * toF (c.val b) := by
  have h := componentSelect_out bit a b c hwf _ (componentSelect_honest bit a b c hwf hbit ha hb)
  have hex := componentSelect_extends bit a b c
  rw [hex.val_eq hbit, hex.val_eq ha, hex.val_eq hb] at h
  exact h

/-! ### completeness: an arbitrary assignment of the old witnesses extends to the new ones -/

theorem toF_val (x : F) : toF x.val = x := by
  unfold toF; exact ZMod.natCast_zmod_val x

/-- `w` with the value of wire `n` replaced by (the canonical representative of) `x` -/
def setW (w : Nat → Nat) (n : Nat) (x : F) : Nat → Nat := fun i => if i = n then x.val else w i

theorem setW_self (w : Nat → Nat) (n : Nat) (x : F) : toF (setW w n x n) = x := by
  simp [setW, toF_val]

theorem setW_of_ne (w : Nat → Nat) (n : Nat) (x : F) {i : Nat} (h : i ≠ n) :
    setW w n x i = w i := by simp [setW, h]

theorem setW_of_lt (w : Nat → Nat) (n : Nat) (x : F) {i : Nat} (h : i < n) :
    setW w n x i = w i := setW_of_ne w n x (Nat.ne_of_lt h)

theorem setW_lt (w : Nat → Nat) (n : Nat) (x : F) (hw : ∀ i, w i < R) (i : Nat) :
    setW w n x i < R := by
  unfold setW; split
  · exact ZMod.val_lt x
  · exact hw i

theorem appendEvaluatedOutput_exists (s : Constraint) (c : Composer) (hwf : WF c)
    (h : toF s.qo ≠ 0) (ha : s.a < c.wit.size) (hb : s.b < c.wit.size) (hd : s.d < c.wit.size)
    (w0 : Nat → Nat) :
    ∃ w, (∀ i, i ≠ c.wit.size → w i = w0 i) ∧
      ((appendEvaluatedOutput s).run c).2.rowsHoldW w c.gates.size
        ((appendEvaluatedOutput s).run c).2.gates.size := by
  refine ⟨setW w0 c.wit.size (-(s.evalF w0 + s.piF) / toF s.qo),
    fun i hi => setW_of_ne _ _ _ hi, ?_⟩
  rw [appendEvaluatedOutput_rows_iff s c hwf h, setW_self,
    Constraint_evalF_congr s (w' := w0) (setW_of_lt _ _ _ ha) (setW_of_lt _ _ _ hb)
      (setW_of_lt _ _ _ hd)]
  field_simp; ring

theorem gateAdd_exists (s : Constraint) (c : Composer) (hwf : WF c)
    (ha : s.a < c.wit.size) (hb : s.b < c.wit.size) (hd : s.d < c.wit.size) (w0 : Nat → Nat) :
    ∃ w, (∀ i, i ≠ c.wit.size → w i = w0 i) ∧
      ((gateAdd s).run c).2.rowsHoldW w c.gates.size ((gateAdd s).run c).2.gates.size := by
  refine ⟨setW w0 c.wit.size (s.evalF w0 + s.piF), fun i hi => setW_of_ne _ _ _ hi, ?_⟩
  rw [gateAdd_rows_iff s c hwf, setW_self,
    Constraint_evalF_congr s (w' := w0) (setW_of_lt _ _ _ ha) (setW_of_lt _ _ _ hb)
      (setW_of_lt _ _ _ hd)]

theorem appendConstant_exists (v : Nat) (c : Composer) (hwf : WF c) (w0 : Nat → Nat) :
    ∃ w, (∀ i, i ≠ c.wit.size → w i = w0 i) ∧
      ((appendConstant v).run c).2.rowsHoldW w c.gates.size
        ((appendConstant v).run c).2.gates.size := by
  refine ⟨setW w0 c.wit.size (toF v), fun i hi => setW_of_ne _ _ _ hi, ?_⟩
  rw [appendConstant_rows_iff v c hwf, setW_self]

theorem appendPublic_exists (v : Nat) (c : Composer) (hwf : WF c) (w0 : Nat → Nat) :
    ∃ w, (∀ i, i ≠ c.wit.size → w i = w0 i) ∧
      ((appendPublic v).run c).2.rowsHoldW w c.gates.size
        ((appendPublic v).run c).2.gates.size := by
  refine ⟨setW w0 c.wit.size (toF v), fun i hi => setW_of_ne _ _ _ hi, ?_⟩
  rw [appendPublic_rows_iff v c hwf, setW_self]

theorem componentSelectZero_exists (bit value : Nat) (c : Composer) (hwf : WF c)
    (hb : bit < c.wit.size) (hv : value < c.wit.size) (w0 : Nat → Nat) :
    ∃ w, (∀ i, i ≠ c.wit.size → w i = w0 i) ∧
      ((componentSelectZero bit value).run c).2.rowsHoldW w c.gates.size
        ((componentSelectZero bit value).run c).2.gates.size := by
  refine ⟨setW w0 c.wit.size (toF (w0 bit) * toF (w0 value)), fun i hi => setW_of_ne _ _ _ hi, ?_⟩
  rw [componentSelectZero_rows_iff bit value c hwf, setW_self, setW_of_lt _ _ _ hb,
    setW_of_lt _ _ _ hv]

theorem componentSelectOne_exists (bit value : Nat) (c : Composer) (hwf : WF c)
    (hb : bit < c.wit.size) (hv : value < c.wit.size) (w0 : Nat → Nat) :
    ∃ w, (∀ i, i ≠ c.wit.size → w i = w0 i) ∧
      ((componentSelectOne bit value).run c).2.rowsHoldW w c.gates.size
        ((componentSelectOne bit value).run c).2.gates.size := by
  refine ⟨setW w0 c.wit.size (1 - toF (w0 bit) + toF (w0 bit) * toF (w0 value)),
    fun i hi => setW_of_ne _ _ _ hi, ?_⟩
  rw [componentSelectOne_rows_iff bit value c hwf, setW_self, setW_of_lt _ _ _ hb,
    setW_of_lt _ _ _ hv]

theorem componentSelect_exists (bit a b : Nat) (c : Composer) (hwf : WF c)
    (hbit : bit < c.wit.size) (ha : a < c.wit.size) (hb : b < c.wit.size) (w0 : Nat → Nat) :
    ∃ w, (∀ i, i < c.wit.size → w i = w0 i) ∧
      ((componentSelect bit a b).run c).2.rowsHoldW w c.gates.size
        ((componentSelect bit a b).run c).2.gates.size := by
  let n := c.wit.size
  let w1 := setW w0 n (toF (w0 bit) * toF (w0 a))
  let w2 := setW w1 (n + 1) (1 - toF (w0 bit))
  let w3 := setW w2 (n + 2) ((1 - toF (w0 bit)) * toF (w0 b))
  let w4 := setW w3 (n + 3) ((1 - toF (w0 bit)) * toF (w0 b) + toF (w0 bit) * toF (w0 a))
  have old : ∀ i, i < n → w4 i = w0 i := by
    intro i hi
    show setW (setW (setW (setW w0 n _) (n + 1) _) (n + 2) _) (n + 3) _ i = w0 i
    rw [setW_of_ne _ _ _ (by omega), setW_of_ne _ _ _ (by omega), setW_of_ne _ _ _ (by omega),
      setW_of_ne _ _ _ (by omega)]
  have v0 : toF (w4 n) = toF (w0 bit) * toF (w0 a) := by
    show toF (setW (setW (setW (setW w0 n _) (n + 1) _) (n + 2) _) (n + 3) _ n) = _
    rw [setW_of_ne _ _ _ (by omega), setW_of_ne _ _ _ (by omega), setW_of_ne _ _ _ (by omega),
      setW_self]
  have v1 : toF (w4 (n + 1)) = 1 - toF (w0 bit) := by
    show toF (setW (setW (setW (setW w0 n _) (n + 1) _) (n + 2) _) (n + 3) _ (n + 1)) = _
    rw [setW_of_ne _ _ _ (by omega), setW_of_ne _ _ _ (by omega), setW_self]
  have v2 : toF (w4 (n + 2)) = (1 - toF (w0 bit)) * toF (w0 b) := by
    show toF (setW (setW (setW (setW w0 n _) (n + 1) _) (n + 2) _) (n + 3) _ (n + 2)) = _
    rw [setW_of_ne _ _ _ (by omega), setW_self]
  have v3 : toF (w4 (n + 3)) =
      (1 - toF (w0 bit)) * toF (w0 b) + toF (w0 bit) * toF (w0 a) := setW_self _ _ _
  refine ⟨w4, old, ?_⟩
  rw [componentSelect_rows_iff bit a b c hwf]
  show toF (w4 n) = _ ∧ toF (w4 (n + 1)) = _ ∧ toF (w4 (n + 2)) = _ ∧ toF (w4 (n + 3)) = _
  rw [v0, v1, v2, v3, old bit hbit, old a ha, old b hb]
  exact ⟨rfl, rfl, rfl, rfl⟩

/-! ### `Composer::initialized()` -/

theorem initialized_gates_size : initialized.gates.size = 4 := by decide +kernel
theorem initialized_wit_size : initialized.wit.size = 6 := by decide +kernel
theorem initialized_pis : initialized.pis = #[] := by decide +kernel
theorem initialized_val_zero : initialized.val 0 = 0 := by decide +kernel
theorem initialized_val_one : initialized.val 1 = 1 := by decide +kernel

theorem initialized_wf : WF initialized := by
  apply wf_of_wit
  · decide +kernel
  · intro i _
    unfold piAt; rw [initialized_pis]; rfl

theorem initialized_gate0 : initialized.gates[0]? =
    some { ql := R - 1, qarith := 1 } := by decide +kernel
theorem initialized_gate1 : initialized.gates[1]? =
    some { ql := R - 1, qc := 1, qarith := 1, a := 1 } := by decide +kernel

theorem initialized_honest : initialized.rowsHoldW initialized.val 0 4 := by
  intro i _ hi
  interval_cases i <;> decide +kernel

theorem initialized_piAt (i : Nat) : initialized.piAt i = 0 := by
  unfold piAt; rw [initialized_pis]; rfl

theorem initialized_row0 (w : Nat → Nat) :
    initialized.rowHoldsW w 0 = true ↔ toF (w 0) = 0 := by
  unfold rowHoldsW rowValsW gateAt
  rw [Array.getD_eq_getD_getElem?, initialized_gate0, initialized_piAt]
  simp only [Option.getD_some]
  rw [rowHolds_arith _ rfl rfl rfl rfl]
  simp [arithF, toF_R_sub_one]

theorem initialized_row1 (w : Nat → Nat) :
    initialized.rowHoldsW w 1 = true ↔ toF (w 1) = 1 := by
  unfold rowHoldsW rowValsW gateAt
  rw [Array.getD_eq_getD_getElem?, initialized_gate1, initialized_piAt]
  simp only [Option.getD_some]
  rw [rowHolds_arith _ rfl rfl rfl rfl]
  simp only [arithF, toF_R_sub_one, toF_zero, toF_one]
  constructor <;> intro h <;> simp at h ⊢ <;> linear_combination -h

theorem initialized_plain (i : Nat) : Gate.plain (initialized.gateAt i) := by
  by_cases hi : i < 4
  · interval_cases i <;> (unfold Gate.plain; decide +kernel)
  · unfold gateAt
    rw [Array.getD_eq_getD_getElem?, Array.getElem?_eq_none (by rw [initialized_gates_size]; omega)]
    exact ⟨rfl, rfl, rfl, rfl⟩

theorem initialized_base (w : Nat → Nat) (h : initialized.rowsHoldW w 0 2) :
    toF (w 0) = 0 ∧ toF (w 1) = 1 :=
  ⟨(initialized_row0 w).mp (h 0 (Nat.le_refl _) (by omega)),
   (initialized_row1 w).mp (h 1 (by omega) (by omega))⟩

theorem initialized_base_ext {c : Composer} (hext : Extends initialized c) (w : Nat → Nat)
    (h : c.rowsHoldW w 0 2) : toF (w 0) = 0 ∧ toF (w 1) = 1 := by
  apply initialized_base
  rwa [hext.rowsHoldW_of_plain w (by rw [initialized_gates_size]; omega)
    (fun i _ _ => initialized_plain i)] at h

end Composer
end Plonk
