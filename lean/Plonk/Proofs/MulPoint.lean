/-
  C12 — composer glue for `component_mul_point`: the MSB-first double-and-add ladder
  `r ← add r r; p ← select_identity bit P; r ← add r p` over a list of bit wires.

  Part 1: one ladder step (`mulStep`, `stepC_rows_iff`, `StepSpec`) and the ladder over an
  arbitrary list of bit wires (`componentMulPoint.go`): framing (`goOut_appendsL`), soundness for
  an arbitrary assignment (`mulGo_sound`: output = `ladderF`), determinism of every allocated wire
  (`mulGo_determ`), completeness of the model's table (`mulGo_honest_ext`).
  Part 2: bit lists (`bitsValLE_range`) — the ladder over the canonical bits is the scalar
  multiple (`mulGo_sound_bits`).
  Part 3: `componentMulPoint` = `componentDecomposition 252` (glue from `Decomp.lean`) + ladder
  from `(ZERO, ONE)`: `componentMulPoint_fst/_appendsL/_wf/_sound/_determ/_honest_ext/_ptW_val`.
  NB: the wrappers `mulDc_*` unfold `mulDc` explicitly; unifying through it made the elaborator
  evaluate the 252-round decomposition (16 GB).
-/
import Plonk.Proofs.PointGadgets
import Plonk.Proofs.Decomp

namespace Plonk
open Plonk Plonk.Composer

namespace Composer

/-! ### one ladder step -/

/-- one round of the ladder of `component_mul_point` -/
def mulStep (P : Pt) (b : Nat) (r : Pt) : CM Pt := do
  let r ← addPointGates r r
  let p ← selectIdentityGates b P
  addPointGates r p

/-- state after the doubling -/
def stepA (c : Composer) (r : Pt) : Composer := ((addPointGates r r).run c).2
/-- state after the selection -/
def stepB (c : Composer) (P : Pt) (b : Nat) (r : Pt) : Composer :=
  ((selectIdentityGates b P).run (stepA c r)).2
/-- state after the addition (end of the round) -/
def stepC (c : Composer) (P : Pt) (b : Nat) (r : Pt) : Composer :=
  ((addPointGates (c.wit.size + 1, c.wit.size + 2) (c.wit.size + 3, c.wit.size + 4)).run
    (stepB c P b r)).2

theorem stepA_appendsL (c : Composer) (r : Pt) : AppendsL c (stepA c r) 2 3 :=
  addPointGates_appendsL r r c
theorem stepB_appendsL (c : Composer) (P : Pt) (b : Nat) (r : Pt) :
    AppendsL (stepA c r) (stepB c P b r) 2 2 := selectIdentityGates_appendsL b P _
theorem stepC_appendsL (c : Composer) (P : Pt) (b : Nat) (r : Pt) :
    AppendsL (stepB c P b r) (stepC c P b r) 2 3 := addPointGates_appendsL _ _ _

theorem stepA_wit_size (c : Composer) (r : Pt) : (stepA c r).wit.size = c.wit.size + 3 :=
  (stepA_appendsL c r).wit
theorem stepB_wit_size (c : Composer) (P : Pt) (b : Nat) (r : Pt) :
    (stepB c P b r).wit.size = c.wit.size + 5 := by
  rw [(stepB_appendsL c P b r).wit, stepA_wit_size]
theorem stepC_wit_size (c : Composer) (P : Pt) (b : Nat) (r : Pt) :
    (stepC c P b r).wit.size = c.wit.size + 8 := by
  rw [(stepC_appendsL c P b r).wit, stepB_wit_size]

theorem stepA_wf (c : Composer) (r : Pt) (h : WF c) : WF (stepA c r) := addPointGates_wf r r c h
theorem stepB_wf (c : Composer) (P : Pt) (b : Nat) (r : Pt) (h : WF c) : WF (stepB c P b r) :=
  selectIdentityGates_wf b P _ (stepA_wf c r h)
theorem stepC_wf (c : Composer) (P : Pt) (b : Nat) (r : Pt) (h : WF c) : WF (stepC c P b r) :=
  addPointGates_wf _ _ _ (stepB_wf c P b r h)

theorem mulStep_run (P : Pt) (b : Nat) (r : Pt) (c : Composer) :
    (mulStep P b r).run c = ((c.wit.size + 6, c.wit.size + 7), stepC c P b r) := by
  unfold mulStep
  rw [run_bind', run_bind']
  have e1 : ((addPointGates r r).run c).1 = (c.wit.size + 1, c.wit.size + 2) :=
    addPointGates_fst r r c
  have e2 : ((selectIdentityGates b P).run (stepA c r)).1 = (c.wit.size + 3, c.wit.size + 4) := by
    rw [selectIdentityGates_fst, stepA_wit_size]
  show (addPointGates ((addPointGates r r).run c).1
    ((selectIdentityGates b P).run (stepA c r)).1).run (stepB c P b r) = _
  rw [e1, e2, addPointGates_run, stepB_wit_size]
  unfold stepC
  rw [addPointGates_snd]

theorem mulStep_fst (P : Pt) (b : Nat) (r : Pt) (c : Composer) :
    ((mulStep P b r).run c).1 = (c.wit.size + 6, c.wit.size + 7) := by rw [mulStep_run]

theorem mulStep_snd (P : Pt) (b : Nat) (r : Pt) (c : Composer) :
    ((mulStep P b r).run c).2 = stepC c P b r := by rw [mulStep_run]

theorem stepC_appendsL_all (c : Composer) (P : Pt) (b : Nat) (r : Pt) :
    AppendsL c (stepC c P b r) 6 8 :=
  ((stepA_appendsL c r).trans (stepB_appendsL c P b r)).trans (stepC_appendsL c P b r)

/-- the field-level content of one round: every one of the eight allocated wires
    `n .. n+7` (`n = c.wit.size`) as a function of the inputs -/
def StepSpec (w : Nat → Nat) (n : Nat) (P : Pt) (b : Nat) (r : Pt) : Prop :=
  toF (w n) = toF (w r.1) * toF (w r.2) ∧
  ptW w (n + 1, n + 2) = addF (ptW w r) (ptW w r) ∧
  ptW w (n + 3, n + 4) = selIdF (toF (w b)) (ptW w P) ∧
  toF (w (n + 5)) = (addF (ptW w r) (ptW w r)).1 * (selIdF (toF (w b)) (ptW w P)).2 ∧
  ptW w (n + 6, n + 7) = addF (addF (ptW w r) (ptW w r)) (selIdF (toF (w b)) (ptW w P))

/-- rows of one round (arbitrary assignment, on-curve accumulator and base point, boolean bit
    wire): they hold iff all eight new wires carry the values of `StepSpec` -/
theorem stepC_rows_iff (c : Composer) (P : Pt) (b : Nat) (r : Pt) (h : WF c) (w : Nat → Nat)
    (hr : OnCurveP (ptW w r)) (hP : OnCurveP (ptW w P))
    (hb : toF (w b) = 0 ∨ toF (w b) = 1) :
    (stepC c P b r).rowsHoldW w c.gates.size (stepC c P b r).gates.size ↔
      StepSpec w c.wit.size P b r := by
  have A1 := stepA_appendsL c r
  have A2 := stepB_appendsL c P b r
  have A3 := stepC_appendsL c P b r
  rw [(A1.trans A2).rows_split A3.ext w, A1.rows_split A2.ext w]
  have r1 : (stepA c r).rowsHoldW w c.gates.size (stepA c r).gates.size ↔ _ :=
    addPointGates_rows_iff_on_curve r r c h.piFresh w hr hr
  have r2 : (stepB c P b r).rowsHoldW w (stepA c r).gates.size (stepB c P b r).gates.size ↔ _ :=
    selectIdentityGates_rows_iff b P (stepA c r) (stepA_wf c r h) w
  rw [stepA_wit_size] at r2
  rw [r1, r2]
  unfold StepSpec
  constructor
  · rintro ⟨⟨⟨e0, e1⟩, e2⟩, e3⟩
    have c1 : OnCurveP (ptW w (c.wit.size + 1, c.wit.size + 2)) := by
      rw [e1]; exact add_on_curveP hr hr
    have c2 : OnCurveP (ptW w (c.wit.size + 3, c.wit.size + 4)) := by
      rw [e2]; exact selIdF_on_curve hb hP
    have r3 : (stepC c P b r).rowsHoldW w (stepB c P b r).gates.size (stepC c P b r).gates.size
        ↔ _ := addPointGates_rows_iff_on_curve _ _ (stepB c P b r) (stepB_wf c P b r h).piFresh w
          c1 c2
    rw [stepB_wit_size] at r3
    obtain ⟨e4, e5⟩ := r3.mp e3
    refine ⟨e0, e1, e2, ?_, ?_⟩
    · rw [e4, ← e1, ← e2]; rfl
    · rw [e5, e1, e2]
  · rintro ⟨e0, e1, e2, e4, e5⟩
    have c1 : OnCurveP (ptW w (c.wit.size + 1, c.wit.size + 2)) := by
      rw [e1]; exact add_on_curveP hr hr
    have c2 : OnCurveP (ptW w (c.wit.size + 3, c.wit.size + 4)) := by
      rw [e2]; exact selIdF_on_curve hb hP
    have r3 : (stepC c P b r).rowsHoldW w (stepB c P b r).gates.size (stepC c P b r).gates.size
        ↔ _ := addPointGates_rows_iff_on_curve _ _ (stepB c P b r) (stepB_wf c P b r h).piFresh w
          c1 c2
    rw [stepB_wit_size] at r3
    refine ⟨⟨⟨e0, e1⟩, e2⟩, r3.mpr ⟨?_, ?_⟩⟩
    · rw [e4, ← e1, ← e2]; rfl
    · rw [e5, e1, e2]

/-- the output of a round is the ladder step of the field model -/
theorem StepSpec.out {w : Nat → Nat} {n : Nat} {P : Pt} {b : Nat} {r : Pt}
    (h : StepSpec w n P b r) (hb : toF (w b) = 0 ∨ toF (w b) = 1) :
    ptW w (n + 6, n + 7) = ladderStepF (ptW w P) (ptW w r) (decide (toF (w b) = 1)) := by
  rw [h.2.2.2.2]
  unfold ladderStepF
  rcases hb with hb | hb
  · have : ¬ ((0 : F) = 1) := fun e => zero_ne_one e
    simp [hb]
  · simp [hb]

/-- two assignments that satisfy a round and agree on its inputs agree on all its wires -/
theorem StepSpec.determ {w w' : Nat → Nat} {n : Nat} {P : Pt} {b : Nat} {r : Pt}
    (h : StepSpec w n P b r) (h' : StepSpec w' n P b r)
    (er : ptW w r = ptW w' r) (eP : ptW w P = ptW w' P) (eb : toF (w b) = toF (w' b)) :
    ∀ i, n ≤ i → i < n + 8 → toF (w i) = toF (w' i) := by
  obtain ⟨a0, a1, a2, a3, a4⟩ := h
  obtain ⟨b0, b1, b2, b3, b4⟩ := h'
  have er1 : toF (w r.1) = toF (w' r.1) := congrArg Prod.fst er
  have er2 : toF (w r.2) = toF (w' r.2) := congrArg Prod.snd er
  rw [er] at a1 a3 a4
  rw [eP, eb] at a2 a3 a4
  rw [er1, er2] at a0
  have q1 := a1.trans b1.symm
  have q2 := a2.trans b2.symm
  have q4 := a4.trans b4.symm
  intro i hlo hhi
  obtain rfl | rfl | rfl | rfl | rfl | rfl | rfl | rfl :
      i = n ∨ i = n + 1 ∨ i = n + 2 ∨ i = n + 3 ∨ i = n + 4 ∨ i = n + 5 ∨ i = n + 6 ∨ i = n + 7 := by
    omega
  · exact a0.trans b0.symm
  · exact congrArg Prod.fst q1
  · exact congrArg Prod.snd q1
  · exact congrArg Prod.fst q2
  · exact congrArg Prod.snd q2
  · exact a3.trans b3.symm
  · exact congrArg Prod.fst q4
  · exact congrArg Prod.snd q4

/-- **completeness of one round**: the model's table (read in any later state) satisfies the six
    rows, for an allocated on-curve accumulator and base point and a boolean bit value -/
theorem stepC_honest_ext (c : Composer) (P : Pt) (b : Nat) (r : Pt) (hwf : WF c)
    (hb : b < c.wit.size) (hP : PtAlloc c P) (hr : PtAlloc c r)
    (hbit : c.val b = 0 ∨ c.val b = 1)
    (cP : OnCurveP (ptW c.val P)) (cr : OnCurveP (ptW c.val r))
    {c'' : Composer} (hext : Extends (stepC c P b r) c'') :
    (stepC c P b r).rowsHoldW c''.val c.gates.size (stepC c P b r).gates.size := by
  have A1 := stepA_appendsL c r
  have A2 := stepB_appendsL c P b r
  have A3 := stepC_appendsL c P b r
  have xB : Extends (stepB c P b r) c'' := A3.ext.trans hext
  have xA : Extends (stepA c r) c'' := A2.ext.trans xB
  rw [(A1.trans A2).rows_split A3.ext, A1.rows_split A2.ext]
  have wA := stepA_wf c r hwf
  have wB := stepB_wf c P b r hwf
  have nA := stepA_wit_size c r
  have nB := stepB_wit_size c P b r
  -- values after the doubling
  have vA : ptW (stepA c r).val (c.wit.size + 1, c.wit.size + 2) =
      addF (ptW c.val r) (ptW c.val r) := by
    have := (addPointGates_val r r c cr cr).2
    rwa [addPointGates_fst] at this
  have aA : PtAlloc (stepA c r) (c.wit.size + 1, c.wit.size + 2) :=
    ⟨by rw [nA]; omega, by rw [nA]; omega⟩
  -- values after the selection
  have hbA : b < (stepA c r).wit.size := Nat.lt_of_lt_of_le hb A1.ext.wit_size
  have vB : ptW (stepB c P b r).val (c.wit.size + 3, c.wit.size + 4) =
      selIdF (toF (c.val b)) (ptW c.val P) := by
    have := selectIdentityGates_ptW_val b P (stepA c r) wA hbA (hP.mono A1.ext)
    rw [selectIdentityGates_fst, nA, A1.ext.val_eq hb, A1.ext.ptW_val_eq hP] at this
    exact this
  have aB : PtAlloc (stepB c P b r) (c.wit.size + 3, c.wit.size + 4) :=
    ⟨by rw [nB]; omega, by rw [nB]; omega⟩
  have hbF : toF (c.val b) = 0 ∨ toF (c.val b) = 1 := by
    rcases hbit with h | h <;> rw [h] <;> simp
  refine ⟨⟨?_, ?_⟩, ?_⟩
  · exact addPointGates_honest_ext r r c hwf.piFresh hr hr cr cr xA
  · exact selectIdentityGates_honest_ext b P (stepA c r) wA hbA (hP.mono A1.ext) xB
  · refine addPointGates_honest_ext _ _ (stepB c P b r) wB.piFresh (aA.mono A2.ext) aB ?_ ?_ hext
    · rw [A2.ext.ptW_val_eq aA, vA]; exact add_on_curveP cr cr
    · rw [vB]; exact selIdF_on_curve hbF cP

/-! ### the ladder over a list of bit wires -/

theorem mulGo_nil (P r : Pt) (c : Composer) :
    (componentMulPoint.go P [] r).run c = (r, c) := by
  rw [componentMulPoint.go]; rfl

theorem mulGo_cons (P : Pt) (b : Nat) (bs : List Nat) (r : Pt) (c : Composer) :
    (componentMulPoint.go P (b :: bs) r).run c =
      (componentMulPoint.go P bs (c.wit.size + 6, c.wit.size + 7)).run (stepC c P b r) := by
  have h : componentMulPoint.go P (b :: bs) r =
      (mulStep P b r >>= fun r' => componentMulPoint.go P bs r') := by
    rw [componentMulPoint.go]; rfl
  rw [h, run_bind', mulStep_fst, mulStep_snd]

/-- final state of the ladder -/
def goOut (P : Pt) (bs : List Nat) (r : Pt) (c : Composer) : Composer :=
  ((componentMulPoint.go P bs r).run c).2

/-- returned pair of the ladder -/
def goRes (P : Pt) (bs : List Nat) (r : Pt) (c : Composer) : Pt :=
  ((componentMulPoint.go P bs r).run c).1

theorem goOut_nil (P r : Pt) (c : Composer) : goOut P [] r c = c := by
  unfold goOut; rw [mulGo_nil]
theorem goRes_nil (P r : Pt) (c : Composer) : goRes P [] r c = r := by
  unfold goRes; rw [mulGo_nil]
theorem goOut_cons (P : Pt) (b : Nat) (bs : List Nat) (r : Pt) (c : Composer) :
    goOut P (b :: bs) r c = goOut P bs (c.wit.size + 6, c.wit.size + 7) (stepC c P b r) := by
  unfold goOut; rw [mulGo_cons]
theorem goRes_cons (P : Pt) (b : Nat) (bs : List Nat) (r : Pt) (c : Composer) :
    goRes P (b :: bs) r c = goRes P bs (c.wit.size + 6, c.wit.size + 7) (stepC c P b r) := by
  unfold goRes; rw [mulGo_cons]

theorem goOut_appendsL (P : Pt) (bs : List Nat) (r : Pt) (c : Composer) :
    AppendsL c (goOut P bs r c) (6 * bs.length) (8 * bs.length) := by
  induction bs generalizing r c with
  | nil => rw [goOut_nil]; exact AppendsL.refl c
  | cons b bs ih =>
    rw [goOut_cons]
    have := (stepC_appendsL_all c P b r).trans (ih (c.wit.size + 6, c.wit.size + 7) (stepC c P b r))
    have e1 : 6 + 6 * bs.length = 6 * (b :: bs).length := by rw [List.length_cons]; omega
    have e2 : 8 + 8 * bs.length = 8 * (b :: bs).length := by rw [List.length_cons]; omega
    rw [e1, e2] at this
    exact this

theorem goOut_wf (P : Pt) (bs : List Nat) (r : Pt) (c : Composer) (h : WF c) :
    WF (goOut P bs r c) := by
  induction bs generalizing r c with
  | nil => rw [goOut_nil]; exact h
  | cons b bs ih => rw [goOut_cons]; exact ih _ _ (stepC_wf c P b r h)

/-- the returned pair: the last two allocated wires (or the start pair for an empty list) -/
theorem goRes_eq (P : Pt) (bs : List Nat) (r : Pt) (c : Composer) :
    goRes P bs r c = if bs = [] then r else
      (c.wit.size + 8 * bs.length - 2, c.wit.size + 8 * bs.length - 1) := by
  induction bs generalizing r c with
  | nil => rw [goRes_nil]; rfl
  | cons b bs ih =>
    rw [goRes_cons, ih, stepC_wit_size]
    simp only [reduceCtorEq, if_false, List.length_cons]
    split
    · next h => subst h; simp
    · congr 1 <;> omega

/-- the bit list a list of wires carries under `w` (wire value `1` ↦ `true`) -/
def bitsW (w : Nat → Nat) (bs : List Nat) : List Bool := bs.map fun b => decide (toF (w b) = 1)

@[simp] theorem bitsW_nil (w : Nat → Nat) : bitsW w [] = [] := rfl
@[simp] theorem bitsW_cons (w : Nat → Nat) (b : Nat) (bs : List Nat) :
    bitsW w (b :: bs) = decide (toF (w b) = 1) :: bitsW w bs := rfl

/-- **soundness of the ladder** (arbitrary assignment): with boolean bit wires, an on-curve start
    accumulator and an on-curve base point, the rows force the returned pair to carry
    `ladderF P bits r`, and it is on the curve. -/
theorem mulGo_sound (P : Pt) (bs : List Nat) (r : Pt) (c : Composer) (h : WF c) (w : Nat → Nat)
    (hbits : ∀ b ∈ bs, toF (w b) = 0 ∨ toF (w b) = 1)
    (hr : OnCurveP (ptW w r)) (hP : OnCurveP (ptW w P))
    (hrows : (goOut P bs r c).rowsHoldW w c.gates.size (goOut P bs r c).gates.size) :
    ptW w (goRes P bs r c) = ladderF (ptW w P) (bitsW w bs) (ptW w r) ∧
    OnCurveP (ptW w (goRes P bs r c)) := by
  induction bs generalizing r c with
  | nil => rw [goRes_nil]; exact ⟨rfl, hr⟩
  | cons b bs ih =>
    rw [goOut_cons] at hrows
    rw [goRes_cons]
    have hb := hbits b List.mem_cons_self
    have A := stepC_appendsL_all c P b r
    have Ax := (goOut_appendsL P bs (c.wit.size + 6, c.wit.size + 7) (stepC c P b r)).ext
    obtain ⟨h1, h2⟩ := (A.rows_split Ax w).mp hrows
    have sp := (stepC_rows_iff c P b r h w hr hP hb).mp h1
    have eo := sp.out hb
    have co : OnCurveP (ptW w (c.wit.size + 6, c.wit.size + 7)) := by
      rw [eo]; exact ladderStepF_on_curve hP hr _
    obtain ⟨i1, i2⟩ := ih _ _ (stepC_wf c P b r h)
      (fun b' hb' => hbits b' (List.mem_cons_of_mem _ hb')) co h2
    refine ⟨?_, i2⟩
    rw [i1, eo, bitsW_cons, ladderF_cons]

/-- **determinism of the ladder**: two assignments that satisfy the rows and agree (as field
    elements) on the bit wires, the base point and the start accumulator agree on every wire the
    ladder allocates -/
theorem mulGo_determ (P : Pt) (bs : List Nat) (r : Pt) (c : Composer) (h : WF c) (w w' : Nat → Nat)
    (hbits : ∀ b ∈ bs, toF (w b) = 0 ∨ toF (w b) = 1)
    (ebits : ∀ b ∈ bs, toF (w b) = toF (w' b))
    (hr : OnCurveP (ptW w r)) (hP : OnCurveP (ptW w P))
    (er : ptW w r = ptW w' r) (eP : ptW w P = ptW w' P)
    (hrows : (goOut P bs r c).rowsHoldW w c.gates.size (goOut P bs r c).gates.size)
    (hrows' : (goOut P bs r c).rowsHoldW w' c.gates.size (goOut P bs r c).gates.size) :
    ∀ i, c.wit.size ≤ i → i < (goOut P bs r c).wit.size → toF (w i) = toF (w' i) := by
  induction bs generalizing r c with
  | nil => intro i h1 h2; rw [goOut_nil] at h2; omega
  | cons b bs ih =>
    rw [goOut_cons] at hrows hrows' ⊢
    have hb := hbits b List.mem_cons_self
    have eb := ebits b List.mem_cons_self
    have A := stepC_appendsL_all c P b r
    have Ax := (goOut_appendsL P bs (c.wit.size + 6, c.wit.size + 7) (stepC c P b r)).ext
    obtain ⟨h1, h2⟩ := (A.rows_split Ax w).mp hrows
    obtain ⟨h1', h2'⟩ := (A.rows_split Ax w').mp hrows'
    have sp := (stepC_rows_iff c P b r h w hr hP hb).mp h1
    have sp' := (stepC_rows_iff c P b r h w' (er ▸ hr) (eP ▸ hP) (eb ▸ hb)).mp h1'
    have d := sp.determ sp' er eP eb
    have eo := sp.out hb
    have co : OnCurveP (ptW w (c.wit.size + 6, c.wit.size + 7)) := by
      rw [eo]; exact ladderStepF_on_curve hP hr _
    have er' : ptW w (c.wit.size + 6, c.wit.size + 7) = ptW w' (c.wit.size + 6, c.wit.size + 7) := by
      unfold ptW
      rw [d (c.wit.size + 6) (by omega) (by omega), d (c.wit.size + 7) (by omega) (by omega)]
    have hrec := ih _ _ (stepC_wf c P b r h)
      (fun b' hb' => hbits b' (List.mem_cons_of_mem _ hb'))
      (fun b' hb' => ebits b' (List.mem_cons_of_mem _ hb')) co er' h2 h2'
    intro i hlo hhi
    by_cases hi : i < c.wit.size + 8
    · exact d i hlo hi
    · exact hrec i (by rw [stepC_wit_size]; omega) hhi

/-- **completeness of the ladder**: the model's own table (read in any later state) satisfies all
    rows, for allocated boolean bit wires, an allocated on-curve base point and start accumulator -/
theorem mulGo_honest_ext (P : Pt) (bs : List Nat) (r : Pt) (c : Composer) (hwf : WF c)
    (hbits : ∀ b ∈ bs, b < c.wit.size ∧ (c.val b = 0 ∨ c.val b = 1))
    (hP : PtAlloc c P) (hr : PtAlloc c r)
    (cP : OnCurveP (ptW c.val P)) (cr : OnCurveP (ptW c.val r))
    {c'' : Composer} (hext : Extends (goOut P bs r c) c'') :
    (goOut P bs r c).rowsHoldW c''.val c.gates.size (goOut P bs r c).gates.size := by
  induction bs generalizing r c with
  | nil => rw [goOut_nil]; exact rowsHoldW_empty _ _ _
  | cons b bs ih =>
    rw [goOut_cons] at hext ⊢
    obtain ⟨hb, hbit⟩ := hbits b List.mem_cons_self
    have A := stepC_appendsL_all c P b r
    have Ax := (goOut_appendsL P bs (c.wit.size + 6, c.wit.size + 7) (stepC c P b r)).ext
    have xC : Extends (stepC c P b r) c'' := Ax.trans hext
    rw [A.rows_split Ax]
    have hon := stepC_honest_ext c P b r hwf hb hP hr hbit cP cr (Extends.refl _)
    have hbF : toF ((stepC c P b r).val b) = 0 ∨ toF ((stepC c P b r).val b) = 1 := by
      rw [A.ext.val_eq hb]; rcases hbit with h | h <;> rw [h] <;> simp
    have sp := (stepC_rows_iff c P b r hwf _ (by rw [A.ext.ptW_val_eq hr]; exact cr)
      (by rw [A.ext.ptW_val_eq hP]; exact cP) hbF).mp hon
    have co : OnCurveP (ptW (stepC c P b r).val (c.wit.size + 6, c.wit.size + 7)) := by
      rw [sp.out hbF]
      exact ladderStepF_on_curve (by rw [A.ext.ptW_val_eq hP]; exact cP)
        (by rw [A.ext.ptW_val_eq hr]; exact cr) _
    refine ⟨stepC_honest_ext c P b r hwf hb hP hr hbit cP cr xC, ?_⟩
    refine ih _ _ (stepC_wf c P b r hwf) ?_ (hP.mono A.ext)
      ⟨by rw [stepC_wit_size]; omega, by rw [stepC_wit_size]; omega⟩
      (by rw [A.ext.ptW_val_eq hP]; exact cP) co hext
    intro b' hb'
    obtain ⟨q1, q2⟩ := hbits b' (List.mem_cons_of_mem _ hb')
    exact ⟨Nat.lt_of_lt_of_le q1 A.ext.wit_size, by rw [A.ext.val_eq q1]; exact q2⟩

end Composer

/-! ### bit lists -/

theorem bit_succ_div (v j : ℕ) : bit v (j + 1) = bit (v / 2) j := by
  unfold bit; rw [Nat.pow_succ', Nat.div_div_eq_div_mul]

theorem bit_lt_two (v j : ℕ) : bit v j < 2 := Nat.mod_lt _ (by norm_num)

theorem toF_bit_eq_one_iff (v j : ℕ) : toF (bit v j) = 1 ↔ bit v j = 1 := by
  rw [← toF_one]
  exact toF_inj_of_lt (Nat.lt_trans (bit_lt_two v j) (by decide +kernel)) R_gt_one

/-- the little-endian value of the first `n` canonical bits of `v` -/
theorem bitsValLE_range (n v : ℕ) :
    bitsValLE ((List.range n).map fun j => decide (bit v j = 1)) = v % 2 ^ n := by
  induction n generalizing v with
  | zero => simp [bitsValLE, Nat.mod_one]
  | succ n ih =>
    rw [List.range_succ_eq_map, List.map_cons, List.map_map, bitsValLE]
    have e : ((fun j => decide (bit v j = 1)) ∘ Nat.succ) = fun j => decide (bit (v / 2) j = 1) := by
      funext j; simp [bit_succ_div]
    rw [e, ih]
    have h0 : (decide (bit v 0 = 1)).toNat = v % 2 := by
      unfold bit
      rcases Nat.mod_two_eq_zero_or_one v with h | h <;> simp [h]
    rw [h0, Nat.pow_succ', Nat.mod_mul]

namespace Composer

/-- the bit wires of a decomposition laid out at `W, W+2, W+4, …` -/
def bitWires (W n : Nat) : List Nat := (List.range n).map fun j => W + 2 * j

theorem mem_bitWires {W n b : Nat} (h : b ∈ bitWires W n) : ∃ j, j < n ∧ b = W + 2 * j := by
  unfold bitWires at h
  rw [List.mem_map] at h
  obtain ⟨j, hj, rfl⟩ := h
  exact ⟨j, List.mem_range.mp hj, rfl⟩

theorem bitsW_bitWires (w : Nat → Nat) (W n v : Nat)
    (hbits : ∀ j, j < n → toF (w (W + 2 * j)) = toF (bit v j)) :
    bitsW w (bitWires W n) = (List.range n).map fun j => decide (bit v j = 1) := by
  unfold bitsW bitWires
  rw [List.map_map]
  apply List.map_congr_left
  intro j hj
  have := hbits j (List.mem_range.mp hj)
  simp only [Function.comp_apply, this, toF_bit_eq_one_iff]

theorem bitsW_reverse (w : Nat → Nat) (bs : List Nat) : bitsW w bs.reverse = (bitsW w bs).reverse := by
  unfold bitsW; rw [List.map_reverse]

/-- **the ladder over the canonical bits is the scalar multiple** (arbitrary assignment) -/
theorem mulGo_sound_bits (P : Pt) (W n v : Nat) (c : Composer) (h : WF c) (w : Nat → Nat)
    (h0 : toF (w 0) = 0) (h1 : toF (w 1) = 1) (hP : OnCurveP (ptW w P)) (hv : v < 2 ^ n)
    (hbits : ∀ j, j < n → toF (w (W + 2 * j)) = toF (bit v j))
    (hrows : (goOut P (bitWires W n).reverse (ZERO, ONE) c).rowsHoldW w c.gates.size
      (goOut P (bitWires W n).reverse (ZERO, ONE) c).gates.size) :
    ptW w (goRes P (bitWires W n).reverse (ZERO, ONE) c) = smulF v (ptW w P) ∧
    OnCurveP (ptW w (goRes P (bitWires W n).reverse (ZERO, ONE) c)) := by
  have hid : ptW w (ZERO, ONE) = idF := by
    unfold ptW idF ZERO ONE; simp only [h0, h1]
  have hb : ∀ b ∈ (bitWires W n).reverse, toF (w b) = 0 ∨ toF (w b) = 1 := by
    intro b hb
    obtain ⟨j, hj, rfl⟩ := mem_bitWires (List.mem_reverse.mp hb)
    rw [hbits j hj]
    have := bit_lt_two v j
    obtain e | e : bit v j = 0 ∨ bit v j = 1 := by omega
    · rw [e]; exact Or.inl toF_zero
    · rw [e]; exact Or.inr toF_one
  obtain ⟨e1, e2⟩ := mulGo_sound P _ (ZERO, ONE) c h w hb (by rw [hid]; exact id_on_curveP) hP hrows
  refine ⟨?_, e2⟩
  rw [e1, hid, ladder_is_scalar_mul hP, bitsW_reverse, bitsValMSB_reverse,
    bitsW_bitWires w W n v hbits, bitsValLE_range, Nat.mod_eq_of_lt hv]

/-! ### `component_mul_point` : decomposition into 252 bits, then the ladder from `(ZERO, ONE)` -/

theorem MUL_POINT_BITS_eq : Generated.MUL_POINT_BITS = 252 := rfl
theorem MUL_POINT_BITS_le : Generated.MUL_POINT_BITS ≤ 254 := by decide

/-- state after the decomposition of the scalar -/
def mulDc (s : Nat) (c : Composer) : Composer :=
  ((componentDecomposition Generated.MUL_POINT_BITS s).run c).2

theorem mulDc_appends (s : Nat) (c : Composer) :
    Appends c (mulDc s c) (2 * Generated.MUL_POINT_BITS + 1) (2 * Generated.MUL_POINT_BITS) := by
  unfold mulDc; exact componentDecomposition_appends _ s c

theorem mulDc_wf (s : Nat) (c : Composer) (h : WF c) : WF (mulDc s c) := by
  unfold mulDc; exact componentDecomposition_wf _ s c h

theorem mulDc_wit_size (s : Nat) (c : Composer) : (mulDc s c).wit.size = c.wit.size + 504 :=
  (mulDc_appends s c).wit

/-- the bit wires handed to the ladder, most significant first -/
def mulBits (c : Composer) : List Nat := (bitWires c.wit.size Generated.MUL_POINT_BITS).reverse

theorem mulBits_length (c : Composer) : (mulBits c).length = 252 := by
  unfold mulBits bitWires; simp [MUL_POINT_BITS_eq]

theorem componentMulPoint_run (s : Nat) (P : Pt) (c : Composer) :
    (componentMulPoint s P).run c =
      (componentMulPoint.go P (mulBits c) (ZERO, ONE)).run (mulDc s c) := by
  unfold componentMulPoint mulBits bitWires mulDc
  rw [run_bind', componentDecomposition_fst]

/-- final state of `component_mul_point` -/
def mulOut (s : Nat) (P : Pt) (c : Composer) : Composer :=
  goOut P (mulBits c) (ZERO, ONE) (mulDc s c)

theorem componentMulPoint_snd (s : Nat) (P : Pt) (c : Composer) :
    ((componentMulPoint s P).run c).2 = mulOut s P c := by
  unfold mulOut goOut
  rw [componentMulPoint_run]

/-- the returned pair: the last two of the `2520` allocated wires -/
theorem componentMulPoint_fst (s : Nat) (P : Pt) (c : Composer) :
    ((componentMulPoint s P).run c).1 = (c.wit.size + 2518, c.wit.size + 2519) := by
  have hfst : ((componentMulPoint s P).run c).1 = goRes P (mulBits c) (ZERO, ONE) (mulDc s c) := by
    unfold goRes; rw [componentMulPoint_run]
  rw [hfst, goRes_eq, mulBits_length, mulDc_wit_size]
  have : mulBits c ≠ [] := by
    intro h; have := mulBits_length c; rw [h] at this; simp at this
  rw [if_neg this]
  congr 1

theorem mulOut_appendsL_go (s : Nat) (P : Pt) (c : Composer) :
    AppendsL (mulDc s c) (mulOut s P c) (6 * 252) (8 * 252) := by
  have := goOut_appendsL P (mulBits c) (ZERO, ONE) (mulDc s c)
  rwa [mulBits_length] at this

/-- `component_mul_point` appends `2017` gates and `2520` witnesses; the last gate is plain -/
theorem componentMulPoint_appendsL (s : Nat) (P : Pt) (c : Composer) :
    AppendsL c ((componentMulPoint s P).run c).2 2017 2520 := by
  rw [componentMulPoint_snd]
  exact (mulDc_appends s c).toL.trans (mulOut_appendsL_go s P c)

theorem componentMulPoint_extends (s : Nat) (P : Pt) (c : Composer) :
    Extends c ((componentMulPoint s P).run c).2 := (componentMulPoint_appendsL s P c).ext

theorem componentMulPoint_wf (s : Nat) (P : Pt) (c : Composer) (h : WF c) :
    WF ((componentMulPoint s P).run c).2 := by
  rw [componentMulPoint_snd]; exact goOut_wf _ _ _ _ (mulDc_wf s c h)

theorem mem_mulBits {c : Composer} {b : Nat} (h : b ∈ mulBits c) :
    ∃ j, j < Generated.MUL_POINT_BITS ∧ b = c.wit.size + 2 * j :=
  mem_bitWires (List.mem_reverse.mp h)

/-- what the rows of the decomposition part say (read in the intermediate state) -/
theorem mulDc_sound (s : Nat) (c : Composer) (h : WF c) (w : Nat → Nat) (h0 : toF (w 0) = 0)
    (hrows : (mulDc s c).rowsHoldW w c.gates.size (mulDc s c).gates.size) :
    (toF (w s)).val < 2 ^ 252 ∧
    (∀ j, j < Generated.MUL_POINT_BITS →
      toF (w (c.wit.size + 2 * j)) = toF (bit (toF (w s)).val j)) ∧
    (∀ j, j < Generated.MUL_POINT_BITS →
      toF (w (c.wit.size + 2 * j + 1)) = toF ((toF (w s)).val % 2 ^ (j + 1))) := by
  unfold mulDc at hrows
  have hs := componentDecomposition_sound Generated.MUL_POINT_BITS s c MUL_POINT_BITS_le h
    _ (Extends.refl _) w h0 hrows
  have hb := componentDecomposition_sound_bits Generated.MUL_POINT_BITS s c MUL_POINT_BITS_le h
    _ (Extends.refl _) w h0 hrows
  have e : (2 : Nat) ^ Generated.MUL_POINT_BITS = 2 ^ 252 := by rw [MUL_POINT_BITS_eq]
  rw [e] at hs
  exact ⟨hs.1, hb, hs.2.2⟩

/-- completeness of the decomposition part, in terms of `mulDc` -/
theorem mulDc_complete (s : Nat) (c : Composer) (hwf : WF c) (hs : s < c.wit.size)
    (hz : c.val 0 = 0) (hv : c.val s < 2 ^ 252) {c'' : Composer} (hext : Extends (mulDc s c) c'') :
    c''.rowsHoldW c''.val c.gates.size (mulDc s c).gates.size ∧
    ∀ j, j < Generated.MUL_POINT_BITS → (mulDc s c).val (c.wit.size + 2 * j) = bit (c.val s) j := by
  unfold mulDc at hext ⊢
  have e : (2 : Nat) ^ 252 = 2 ^ Generated.MUL_POINT_BITS := by rw [MUL_POINT_BITS_eq]
  rw [e] at hv
  exact componentDecomposition_complete Generated.MUL_POINT_BITS s c hwf hs hz hv c'' hext

/-- **soundness of `component_mul_point`** (arbitrary assignment, constants `0`, `1` pinned by the
    base rows, base point on the curve): the rows force the scalar witness below `2^252` and the
    returned pair to carry the scalar multiple `[s]P`, on the curve. -/
theorem componentMulPoint_sound (s : Nat) (P : Pt) (c : Composer) (h : WF c) (w : Nat → Nat)
    (h0 : toF (w 0) = 0) (h1 : toF (w 1) = 1) (hP : OnCurveP (ptW w P))
    (hrows : ((componentMulPoint s P).run c).2.rowsHoldW w c.gates.size
      ((componentMulPoint s P).run c).2.gates.size) :
    (toF (w s)).val < 2 ^ 252 ∧
    ptW w ((componentMulPoint s P).run c).1 = smulF (toF (w s)).val (ptW w P) ∧
    OnCurveP (ptW w ((componentMulPoint s P).run c).1) := by
  have hfst : ((componentMulPoint s P).run c).1 = goRes P (mulBits c) (ZERO, ONE) (mulDc s c) := by
    unfold goRes; rw [componentMulPoint_run]
  rw [componentMulPoint_snd] at hrows
  rw [hfst]
  obtain ⟨r1, r2⟩ := ((mulDc_appends s c).toL.rows_split (mulOut_appendsL_go s P c).ext w).mp hrows
  obtain ⟨hv, hb, -⟩ := mulDc_sound s c h w h0 r1
  obtain ⟨e1, e2⟩ := mulGo_sound_bits P c.wit.size Generated.MUL_POINT_BITS (toF (w s)).val
    (mulDc s c) (mulDc_wf s c h) w h0 h1 hP hv hb r2
  exact ⟨hv, e1, e2⟩

/-- **every intermediate wire is determined**: two assignments that satisfy the rows and agree
    on the scalar and on the base point (constants pinned) agree on all `2520` allocated wires -/
theorem componentMulPoint_determ (s : Nat) (P : Pt) (c : Composer) (h : WF c) (w w' : Nat → Nat)
    (h0 : toF (w 0) = 0) (h1 : toF (w 1) = 1) (h0' : toF (w' 0) = 0) (h1' : toF (w' 1) = 1)
    (hP : OnCurveP (ptW w P)) (es : toF (w s) = toF (w' s)) (eP : ptW w P = ptW w' P)
    (hrows : ((componentMulPoint s P).run c).2.rowsHoldW w c.gates.size
      ((componentMulPoint s P).run c).2.gates.size)
    (hrows' : ((componentMulPoint s P).run c).2.rowsHoldW w' c.gates.size
      ((componentMulPoint s P).run c).2.gates.size) :
    ∀ i, c.wit.size ≤ i → i < ((componentMulPoint s P).run c).2.wit.size →
      toF (w i) = toF (w' i) := by
  rw [componentMulPoint_snd] at hrows hrows' ⊢
  have A := (mulDc_appends s c).toL
  have B := mulOut_appendsL_go s P c
  obtain ⟨r1, r2⟩ := (A.rows_split B.ext w).mp hrows
  obtain ⟨r1', r2'⟩ := (A.rows_split B.ext w').mp hrows'
  obtain ⟨_, hb, ha⟩ := mulDc_sound s c h w h0 r1
  obtain ⟨_, hb', ha'⟩ := mulDc_sound s c h w' h0' r1'
  rw [← es] at hb' ha'
  have hid : ptW w (ZERO, ONE) = idF := by unfold ptW idF ZERO ONE; simp only [h0, h1]
  have hid' : ptW w' (ZERO, ONE) = idF := by unfold ptW idF ZERO ONE; simp only [h0', h1']
  have hbits : ∀ b ∈ mulBits c, toF (w b) = 0 ∨ toF (w b) = 1 := by
    intro b hm
    obtain ⟨j, hj, rfl⟩ := mem_mulBits hm
    rw [hb j hj]
    have := bit_lt_two (toF (w s)).val j
    obtain e | e : bit (toF (w s)).val j = 0 ∨ bit (toF (w s)).val j = 1 := by omega
    · rw [e]; exact Or.inl toF_zero
    · rw [e]; exact Or.inr toF_one
  have ebits : ∀ b ∈ mulBits c, toF (w b) = toF (w' b) := by
    intro b hm
    obtain ⟨j, hj, rfl⟩ := mem_mulBits hm
    rw [hb j hj, hb' j hj]
  have d2 := mulGo_determ P (mulBits c) (ZERO, ONE) (mulDc s c) (mulDc_wf s c h) w w' hbits ebits
    (by rw [hid]; exact id_on_curveP) hP (by rw [hid, hid']) eP r2 r2'
  intro i hlo hhi
  by_cases hi : i < c.wit.size + 504
  · obtain ⟨j, hj⟩ : ∃ j, i = c.wit.size + 2 * j ∨ i = c.wit.size + 2 * j + 1 :=
      ⟨(i - c.wit.size) / 2, by omega⟩
    have hjn : j < Generated.MUL_POINT_BITS := by rw [MUL_POINT_BITS_eq]; omega
    rcases hj with rfl | rfl
    · rw [hb j hjn, hb' j hjn]
    · rw [ha j hjn, ha' j hjn]
  · exact d2 i (by rw [mulDc_wit_size]; omega) hhi

/-- **completeness of `component_mul_point`**: for an allocated scalar witness with value below
    `2^252`, an allocated on-curve base point and the constants `0`, `1` in place, the model's own
    table (read in any later state) satisfies all `2017` rows. -/
theorem componentMulPoint_honest_ext (s : Nat) (P : Pt) (c : Composer) (hwf : WF c)
    (hs : s < c.wit.size) (hP : PtAlloc c P) (hz : c.val 0 = 0) (ho : c.val 1 = 1)
    (hv : c.val s < 2 ^ 252) (cP : OnCurveP (ptW c.val P))
    {c'' : Composer} (hext : Extends ((componentMulPoint s P).run c).2 c'') :
    ((componentMulPoint s P).run c).2.rowsHoldW c''.val c.gates.size
      ((componentMulPoint s P).run c).2.gates.size := by
  rw [componentMulPoint_snd] at hext ⊢
  have A := (mulDc_appends s c).toL
  have B := mulOut_appendsL_go s P c
  have xD : Extends (mulDc s c) c'' := B.ext.trans hext
  rw [A.rows_split B.ext]
  obtain ⟨d1, d2⟩ := mulDc_complete s c hwf hs hz hv xD
  have h1lt : 1 < c.wit.size := by
    by_contra hn
    rw [val_of_size_le c (Nat.le_of_not_lt hn)] at ho
    exact absurd ho (by decide)
  have a01 : PtAlloc (mulDc s c) (ZERO, ONE) := by
    unfold PtAlloc ZERO ONE; rw [mulDc_wit_size]; constructor <;> omega
  have v01 : ptW (mulDc s c).val (ZERO, ONE) = idF := by
    unfold ptW idF ZERO ONE
    simp only [A.ext.val_eq (show 0 < c.wit.size by omega), A.ext.val_eq h1lt, hz, ho, toF_zero,
      toF_one]
  refine ⟨(A.rows_ext xD _).mp d1, ?_⟩
  refine mulGo_honest_ext P (mulBits c) (ZERO, ONE) (mulDc s c) (mulDc_wf s c hwf) ?_
    (hP.mono A.ext) a01 (by rw [A.ext.ptW_val_eq hP]; exact cP)
    (by rw [v01]; exact id_on_curveP) hext
  intro b hm
  obtain ⟨j, hj, rfl⟩ := mem_mulBits hm
  refine ⟨by rw [mulDc_wit_size]; rw [MUL_POINT_BITS_eq] at hj; omega, ?_⟩
  have e : (mulDc s c).val (c.wit.size + 2 * j) = bit (c.val s) j := d2 j hj
  rw [e]
  have := bit_lt_two (c.val s) j
  omega

theorem componentMulPoint_honest (s : Nat) (P : Pt) (c : Composer) (hwf : WF c)
    (hs : s < c.wit.size) (hP : PtAlloc c P) (hz : c.val 0 = 0) (ho : c.val 1 = 1)
    (hv : c.val s < 2 ^ 252) (cP : OnCurveP (ptW c.val P)) :
    ((componentMulPoint s P).run c).2.rowsHoldW ((componentMulPoint s P).run c).2.val c.gates.size
      ((componentMulPoint s P).run c).2.gates.size :=
  componentMulPoint_honest_ext s P c hwf hs hP hz ho hv cP (Extends.refl _)

/-- the point the model stores in the returned pair: `[s]P` -/
theorem componentMulPoint_ptW_val (s : Nat) (P : Pt) (c : Composer) (hwf : WF c)
    (hs : s < c.wit.size) (hP : PtAlloc c P) (hz : c.val 0 = 0) (ho : c.val 1 = 1)
    (hv : c.val s < 2 ^ 252) (cP : OnCurveP (ptW c.val P)) :
    ptW ((componentMulPoint s P).run c).2.val ((componentMulPoint s P).run c).1 =
      smulF (c.val s) (ptW c.val P) := by
  have hx := componentMulPoint_extends s P c
  have h1lt : 1 < c.wit.size := by
    by_contra hn
    rw [val_of_size_le c (Nat.le_of_not_lt hn)] at ho
    exact absurd ho (by decide)
  have hs' := (componentMulPoint_sound s P c hwf _
    (by rw [hx.val_eq (show 0 < c.wit.size by omega), hz]; exact toF_zero)
    (by rw [hx.val_eq h1lt, ho]; exact toF_one)
    (by rw [hx.ptW_val_eq hP]; exact cP)
    (componentMulPoint_honest s P c hwf hs hP hz ho hv cP)).2.1
  rw [hs', hx.val_eq hs, hx.ptW_val_eq hP, val_toF_of_lt (hwf.val_lt s)]

end Composer
end Plonk
