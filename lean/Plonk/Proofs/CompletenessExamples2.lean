/-
  C01 (completeness) — a concrete instance for the non-vacuity example of `verify_msm_zero`
  (`Props/C01Complete.verifier_accepts`): the polynomials `exP2` of the soundness instance (two
  addition rows, numerator identically zero for every `ω`, quotient `T = 0`), a domain of
  `Domain.new? 2`, the challenge point `z = 5`, a verifier key / proof whose eleven distinct points
  are interpreted by `aIota` as the polynomials of `exP2`, the generator as `1`, and the two opening
  witnesses as the honest quotients.
-/
import Plonk.Proofs.CompletenessAccept
import Plonk.Proofs.CompletenessExamples
import Plonk.Proofs.DomainPi
import Plonk.Proofs.DomainNew
import Plonk.Proofs.CompletenessQuotient
import Plonk.Proofs.CompletenessModelPolys

namespace Plonk.Complete
open Polynomial Plonk Plonk.Quot Plonk.Sound Plonk.Perm
open Plonk.KzgMath (agg)

/-- the numerator of `exP2` vanishes identically, whatever the domain -/
theorem exP2_NumP_zero (ω : F) (n : ℕ) (β γ α : F) (s : Seps F) : NumP ω n exP2 ⟨β, γ, α⟩ s = 0 := by
  simp only [NumP, numR, gateSumR, arithR, permStepR, permNumR, permDenR, exP2, Chal.map, shiftP,
    zero_mul, mul_zero, add_zero, one_comp, zero_add, C_eq_natCast, C_neg, C_ofNat, C_1]
  ring

/-- the evaluations `vEv` are the true evaluations of `exP2` at `5` and `ω·5`, whatever `ω` is NOT
    needed: only the constant polynomials are opened at `ω·5` -/
theorem a_trueEvals (ω : F) : TrueEvals ω (toF 5) vEv exP2 := by
  constructor <;> simp [vEv, exP2, toF_R_sub_three] <;> simp [toF]

def aKey : VKey :=
  { n := 2, qm := .inf, ql := .aff 1 0, qr := .aff 1 0, qo := .aff 1 0, qf := .inf, qc := .inf,
    qarith := .aff 1 0, qlogic := .inf, qrange := .inf, qfixed := .inf, qvar := .inf,
    s1 := .aff 4 0, s2 := .aff 5 0, s3 := .aff 6 0, s4 := .aff 7 0 }

def aProof : ProofM :=
  { aC := .aff 1 0, bC := .aff 2 0, cC := .aff 3 0, dC := .inf, zC := .aff 1 0, tLow := .inf,
    tMid := .inf, tHigh := .inf, tFourth := .inf, wz := .aff 8 0, wzw := .aff 9 0, ev := vEv }

/-- the interpretation: nine distinct points, the two opening witnesses as parameters -/
noncomputable def aIota (W W' : F[X]) (c : G1) : F[X] :=
  match c with
  | .inf => 0
  | .aff 1 _ => C 1
  | .aff 2 _ => C 2
  | .aff 3 _ => C (-3)
  | .aff 4 _ => X
  | .aff 5 _ => C (Generated.K1 : F) * X
  | .aff 6 _ => C (Generated.K2 : F) * X
  | .aff 7 _ => C (Generated.K3 : F) * X
  | .aff 8 _ => W
  | .aff 9 _ => W'
  | .aff _ _ => 0

theorem a_agmRep (W W' : F[X]) : AgmRep (aIota W W') aKey aProof exP2 := by
  constructor <;> simp [aIota, aKey, aProof, exP2]

theorem a_quotient (W W' : F[X]) : quotientOf (aIota W W') aProof 2 = 0 := by
  simp [quotientOf, aIota, aProof]

/-- the linearisation polynomial does not involve the opening witnesses -/
theorem a_linPoly (W W' : F[X]) (ch : Challenges) (zh l1 : Nat) :
    linPoly (aIota W W') aKey aProof ch zh l1 = linPoly (aIota 0 0) aKey aProof ch zh l1 := by
  simp [linPoly, linearizationTerms, aIota, aKey, aProof]

theorem a_openRep (cnt : ℕ) (ω : F) (ch : Challenges) (zh l1 : Nat) :
    ∃ W W' : F[X], OpenRep (aIota W W') aKey (.aff 1 0) aProof exP2
      (agg (toF ch.v) cnt (openPolys (linPoly (aIota W W') aKey aProof ch zh l1) exP2 0) /ₘ
        (X - C (toF ch.z)))
      (agg (toF ch.vw) 4 (openPolys (linPoly (aIota W W') aKey aProof ch zh l1) exP2 1) /ₘ
        (X - C (ω * toF ch.z))) := by
  obtain ⟨W, hW⟩ : ∃ W : F[X], W =
      agg (toF ch.v) cnt (openPolys (linPoly (aIota 0 0) aKey aProof ch zh l1) exP2 0) /ₘ
        (X - C (toF ch.z)) := ⟨_, rfl⟩
  obtain ⟨W', hW'⟩ : ∃ W' : F[X], W' =
      agg (toF ch.vw) 4 (openPolys (linPoly (aIota 0 0) aKey aProof ch zh l1) exP2 1) /ₘ
        (X - C (ω * toF ch.z)) := ⟨_, rfl⟩
  refine ⟨W, W', ?_⟩
  rw [a_linPoly W W', ← hW, ← hW']
  constructor <;> simp [aIota, aKey, aProof, exP2]

/-- **non-vacuity of `verify_msm_zero(_legacy)`**: a domain, a challenge point and an
    interpretation for which every hypothesis holds (`cnt` polynomials opened at `z`) -/
theorem a_hyps_gen (legacy : Bool) (cnt : ℕ) :
    ∃ (d : Domain) (l1 piEval : Nat) (right left : List (Nat × G1)) (W W' : F[X]),
    let ch : Challenges := { (default : Challenges) with z := 5 }
    d.lagrangeAndPi [] [] ch.z = some (l1, piEval) ∧
    verifyTerms aKey (.aff 1 0) d [] [] aProof ch legacy = some (right, left) ∧
    AgmRep (aIota W W') aKey aProof exP2 ∧
    TrueEvals (toF d.groupGen) (toF ch.z) aProof.ev exP2 ∧
    toF (d.evaluateVanishing ch.z) = toF ch.z ^ 2 - 1 ∧
    toF l1 = (L1P 2).eval (toF ch.z) ∧ toF piEval = exP2.pi.eval (toF ch.z) ∧
    quotientOf (aIota W W') aProof 2 = 0 ∧
    NumP (toF d.groupGen) 2 exP2 ⟨toF ch.beta, toF ch.gamma, toF ch.alpha⟩
      ⟨toF ch.rangeSep, toF ch.logicSep, toF ch.fixedSep, toF ch.varSep⟩ = 0 * (X ^ 2 - 1) ∧
    OpenRep (aIota W W') aKey (.aff 1 0) aProof exP2
      (agg (toF ch.v) cnt (openPolys (linPoly (aIota W W') aKey aProof ch
        (d.evaluateVanishing ch.z) l1) exP2 0) /ₘ (X - C (toF ch.z)))
      (agg (toF ch.vw) 4 (openPolys (linPoly (aIota W W') aKey aProof ch
        (d.evaluateVanishing ch.z) l1) exP2 1) /ₘ (X - C (toF d.groupGen * toF ch.z))) := by
  obtain ⟨d, hd, hs⟩ := exists_domain_two
  have ok := PolyC19.domainOK_of_new? 2 d hd
  have hz1 : toF 5 ≠ 1 := by
    intro h
    have h4 : (4 : F) = 0 := by
      have : toF 5 = (5 : F) := by simp [toF]
      rw [this] at h; linear_combination h
    have h2 := two_ne_zero_F
    apply h2
    have : (2 : F) * 2 = 0 := by linear_combination h4
    exact (mul_self_eq_zero.mp this)
  have hsome : d.lagrangeAndPi [] [] 5 ≠ none := by
    rw [Ne, PolyC19.lagrangeAndPi_eq_none_iff ok]
    rintro (h | ⟨re, hre, -⟩)
    · exact hz1 h
    · simp at hre
  obtain ⟨⟨l1, piEval⟩, hlp⟩ := Option.ne_none_iff_exists'.mp hsome
  obtain ⟨hl1, hpi, -, -⟩ := PolyC19.lagrangeAndPi_some ok [] [] 5 l1 piEval hlp
  obtain ⟨right, left, _, hc, -⟩ := verifyTerms_some_of_lagrange aKey (.aff 1 0) d [] [] aProof
    { (default : Challenges) with z := 5 } legacy hsome
  obtain ⟨W, W', hO⟩ := a_openRep cnt (toF d.groupGen) { (default : Challenges) with z := 5 }
    (d.evaluateVanishing 5) l1
  refine ⟨d, l1, piEval, right, left, W, W', hlp, hc, a_agmRep W W', a_trueEvals _, ?_, ?_, ?_,
    a_quotient W W', ?_, hO⟩
  · rw [PolyC19.toF_evaluateVanishing ok.size_lt, hs]
  · rw [hl1, hs, lagrangeF_zero_eq_L1P 2 _ hz1]
  · rw [hpi]; simp [exP2]
  · rw [zero_mul]; exact exP2_NumP_zero _ _ _ _ _ _

/-! ### coefficient lists for `exP2` (instance for `tPoly_length_le`) -/

def qSel : Array Poly := #[[], [1], [1], [1], [], [], [1], [], [], [], []]
def qSigma : Array Poly := #[[0, 1], [0, Generated.K1], [0, Generated.K2], [0, Generated.K3]]

theorem q_polys : polysOf qSel qSigma [1] [2] [R - 3] [] [1] [] = exP2 := by
  unfold polysOf exP2
  simp [qSel, qSigma, toF_R_sub_three]
  refine ⟨?_, ?_, ?_⟩ <;> simp [toF]

theorem q_numerator (ω : F) (n : ℕ) (β γ α : F) (s : Seps F) :
    NumP ω n (polysOf qSel qSigma [1] [2] [R - 3] [] [1] []) ⟨β, γ, α⟩ s = 0 * (X ^ n - 1) := by
  rw [q_polys, zero_mul]
  exact exP2_NumP_zero ω n β γ α s

theorem q_domains : ∃ d d8, Domain.new? 2 = some d ∧ Domain.new? (8 * d.size) = some d8 ∧
    2 ≤ d.size := by
  obtain ⟨d, hd, hs⟩ := exists_domain_two
  have h : (Domain.new? 16).isSome = true := by decide +kernel
  obtain ⟨d8, hd8⟩ := Option.isSome_iff_exists.mp h
  exact ⟨d, d8, hd, by rw [hs]; exact hd8, by omega⟩

theorem q_sel_len (j : Nat) : (qSel.getD j []).length ≤ 2 := by
  by_cases h : j < 11
  · interval_cases j <;> decide
  · have : qSel.getD j [] = [] := by
      rw [Array.getD_eq_getD_getElem?, Array.getElem?_eq_none (by simp [qSel]; omega)]; rfl
    rw [this]; simp

theorem q_sigma_len (j : Nat) : (qSigma.getD j []).length ≤ 2 := by
  by_cases h : j < 4
  · interval_cases j <;> decide
  · have : qSigma.getD j [] = [] := by
      rw [Array.getD_eq_getD_getElem?, Array.getElem?_eq_none (by simp [qSigma]; omega)]; rfl
    rw [this]; simp

/-! ### the layout `cLay` through the specification prover's polynomials -/

/-- the sigma values `compile` interpolates: `K_{σ.col}·root_{σ.row}` -/
def mSig (d : Domain) (lay : Composer) : List (List Nat) :=
  (List.range 4).map fun col => (List.range d.size).map fun i =>
    fmul (kOf (sigmaFn lay (col, i)).1) (d.elements.getD (sigmaFn lay (col, i)).2 0)

theorem mSig_getD (d : Domain) (lay : Composer) (col : Nat) (hc : col < 4) :
    (mSig d lay).getD col [] = (List.range d.size).map fun i =>
      fmul (kOf (sigmaFn lay (col, i)).1) (d.elements.getD (sigmaFn lay (col, i)).2 0) := by
  simp [mSig, List.getD_eq_getElem?_getD, hc]

theorem mSig_length (d : Domain) (lay : Composer) : ∀ j < 4, ((mSig d lay).getD j []).length = d.size := by
  intro j hj
  rw [mSig_getD d lay j hj]; simp

theorem mSig_label (d : Domain) (lay : Composer) (hn : lay.gates.size ≤ d.size) :
    ∀ col < 4, ∀ i < d.size,
      toF (((mSig d lay).getD col []).getD i 0) = idLabel (toF d.groupGen) (sigmaFn lay (col, i)) := by
  intro col hc i hi
  rw [mSig_getD d lay col hc, getD_map_range _ _ _ hi]
  exact toF_label _ d.elements.toArray.toList.toArray _ (by
    have h2 := (sigmaFn_mem_pos lay d.size hn (col, i) hc hi).2
    simpa using elements_roots d _ h2) |> fun h => by simpa using h

/-- **non-vacuity of `model_polys_complete`**: for the layout `cLay` (`σ ≠ id`) on a domain of
    `Domain.new? 2`, with `β = 1` and a suitable `γ`, the model's `permVec` returns a vector and all
    structural hypotheses hold -/
theorem m_hyps : ∃ (d : Domain) (gamma : Nat) (z : List Nat), Domain.new? 2 = some d ∧
    cLay.gates.size ≤ d.size ∧ (∀ x, cLay.val x < R) ∧
    (∀ i < d.size, rowHolds (cLay.gateAt i) (cLay.rowVals i).a (cLay.rowVals i).b
      (cLay.rowVals i).c (cLay.rowVals i).d (cLay.rowVals ((i + 1) % d.size)).a
      (cLay.rowVals ((i + 1) % d.size)).b (cLay.rowVals ((i + 1) % d.size)).d (cLay.piAt i) = true) ∧
    ([0, 0] : List Nat).length = d.size ∧
    (∀ i < d.size, toF (([0, 0] : List Nat).getD i 0) = toF (cLay.piAt i)) ∧
    (∀ j < 4, ((mSig d cLay).getD j []).length = d.size) ∧
    (∀ col < 4, ∀ i < d.size, toF (((mSig d cLay).getD col []).getD i 0) =
      idLabel (toF d.groupGen) (sigmaFn cLay (col, i))) ∧
    permVec d.size d.elements (tableCol d.size cLay (·.a)) (tableCol d.size cLay (·.b))
      (tableCol d.size cLay (·.c)) (tableCol d.size cLay (·.d)) (mSig d cLay) 1 gamma = some z := by
  obtain ⟨d, hd, hs⟩ := exists_domain_two
  have hw := Domain.new?_WF 2 d hd
  have hn : cLay.gates.size ≤ d.size := by rw [hs]; decide
  have hpi : ∀ i < d.size, toF (([0, 0] : List Nat).getD i 0) = toF (cLay.piAt i) := by
    intro i hi
    rw [cLay_piAt]
    rw [hs] at hi
    interval_cases i <;> rfl
  have hrows : ∀ i < d.size, rowHolds (cLay.gateAt i) (cLay.rowVals i).a (cLay.rowVals i).b
      (cLay.rowVals i).c (cLay.rowVals i).d (cLay.rowVals ((i + 1) % d.size)).a
      (cLay.rowVals ((i + 1) % d.size)).b (cLay.rowVals ((i + 1) % d.size)).d (cLay.piAt i) = true := by
    rw [hs]
    have hsat : cLay.sysSat = true := by decide +kernel
    have hp : cLay.paddedSize = 2 := by decide +kernel
    have := sysSat_rows cLay hsat
    rw [hp] at this
    exact this
  -- key polynomials with a dummy accumulator, to name the bad set of `γ`
  have hI0 := modelPolys_interpolates hw cLay.gateAt d.elements (tableCol d.size cLay (·.a))
    (tableCol d.size cLay (·.b)) (tableCol d.size cLay (·.c)) (tableCol d.size cLay (·.d)) [0, 0]
    (mSig d cLay) (List.replicate d.size 0) [] [] [] [] [] (elements_roots d) (tableCol_length _ _ _)
    (tableCol_length _ _ _) (tableCol_length _ _ _) (tableCol_length _ _ _) (by rw [hs]; rfl)
    (by simp) (mSig_length d cLay)
  have I0 := keyInterp_of_interpolates (lay := cLay) hI0 (fun _ _ => rfl) hpi (mSig_label d cLay hn)
  obtain ⟨γ, hγ⟩ := exists_notMem_of_card_lt (denBadM (toF d.groupGen) d.size cLay
      (modelPolys d cLay.gateAt (tableCol d.size cLay (·.a)) (tableCol d.size cLay (·.b))
        (tableCol d.size cLay (·.c)) (tableCol d.size cLay (·.d)) [0, 0] (mSig d cLay)
        (List.replicate d.size 0) [] [] [] [] []) (toF 1)) (by
    have := denBadM_card_le (toF d.groupGen) d.size cLay
      (modelPolys d cLay.gateAt (tableCol d.size cLay (·.a)) (tableCol d.size cLay (·.b))
        (tableCol d.size cLay (·.c)) (tableCol d.size cLay (·.d)) [0, 0] (mSig d cLay)
        (List.replicate d.size 0) [] [] [] [] []) (toF 1)
    have h10 := ten_lt_R
    have h4 : 4 * d.size = 8 := by rw [hs]
    omega)
  obtain ⟨z, hz⟩ := (permVec_some_iff hI0 I0 1 γ.val).mpr (by rw [PolyC19.toF_val]; exact hγ)
  exact ⟨d, γ.val, z, hd, hn, c_val_lt, hrows, by rw [hs]; rfl, hpi, mSig_length d cLay,
    mSig_label d cLay hn, hz⟩

end Plonk.Complete
