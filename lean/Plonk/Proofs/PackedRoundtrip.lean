/-
  T6 — the byte-level round trip: `from_bytes` applied to the payload `Circuit::compress()` deflates returns the
  composer `decompressCompress` of `Model/Compress.lean`.  Ingredients: the scalar / polynomial dictionaries of
  `fromComposer` (lookups in the FINAL tables give back the values), representability and validity of
  `fromComposer`, `leNat ∘ leBytes32 = id` below `2^256`, and the agreement of the reconstruction loop of
  `rebuild` with the loop of `decompressCompress`.
-/
import Plonk.Proofs.PackedLemmas
import Plonk.Proofs.CompressModel
namespace Plonk.PackedRoundtrip
open Plonk Plonk.Packed Plonk.PackedLemmas Plonk.CompressModel

/-! ## little-endian scalar bytes -/

theorem leNat_cons (b : Nat) (bs : List Nat) : leNat (b :: bs) = leNat bs * 256 + b := by
  unfold leNat
  rw [List.reverse_cons, beNat_append]

/-- `n` little-endian bytes of `v` -/
def leBytesN (v n : Nat) : List Nat := (List.range n).map fun i => (v / 256 ^ i) % 256

theorem leBytesN_succ (v n : Nat) : leBytesN v (n + 1) = (v % 256) :: leBytesN (v / 256) n := by
  unfold leBytesN
  rw [List.range_succ_eq_map, List.map_cons, List.map_map]
  congr 1
  · simp
  · apply List.map_congr_left
    intro i _
    simp only [Function.comp]
    rw [Nat.pow_succ, Nat.mul_comm, Nat.div_div_eq_div_mul]

theorem leNat_leBytesN : ∀ (n v : Nat), leNat (leBytesN v n) = v % 256 ^ n
  | 0, v => by simp [leBytesN, leNat, beNat, Nat.mod_one]
  | n + 1, v => by
    rw [leBytesN_succ, leNat_cons, leNat_leBytesN n, Nat.pow_succ, Nat.mul_comm (256 ^ n) 256, Nat.mod_mul]
    generalize v / 256 % 256 ^ n = q
    omega

theorem leNat_leBytes32 {v : Nat} (h : v < R) : leNat (leBytes32 v) = v := by
  have : leBytes32 v = leBytesN v 32 := rfl
  rw [this, leNat_leBytesN]
  apply Nat.mod_eq_of_lt
  have : R < 256 ^ 32 := by decide
  omega

theorem leBytes32_length (v : Nat) : (leBytes32 v).length = 32 := by simp [leBytes32]

theorem leBytes32_lt (v : Nat) : ∀ b ∈ leBytes32 v, b < 256 := by
  intro b hb
  unfold leBytes32 at hb
  obtain ⟨i, -, rfl⟩ := List.mem_map.1 hb
  exact Nat.mod_lt _ (by decide)

/-! ## `fromComposer` in fold form -/

/-- the eleven dictionary insertions of one gate: final table and the eleven indices -/
def selIdx (scal : List Nat) (g : Gate) : List Nat × List Nat :=
  (gateSelectors g).foldl (fun (st : List Nat × List Nat) s =>
    let (t, i) := dictInsert st.1 (s % R); (t, st.2 ++ [i])) (scal, [])

/-- the loop body of `from_composer` (same text as in `fromComposer`) -/
def fcStep (acc : List Nat × List (List Nat) × List (List Nat)) (g : Gate) :
    List Nat × List (List Nat) × List (List Nat) :=
  let (scal, polys, cons) := acc
  let (scal, idx) := (gateSelectors g).foldl (fun (st : List Nat × List Nat) s =>
      let (t, i) := dictInsert st.1 (s % R); (t, st.2 ++ [i])) (scal, [])
  let (polys, pi) := dictInsertPoly polys idx
  (scal, polys, cons ++ [[pi, g.a, g.b, g.c, g.d]])

theorem fcStep_eq0 (S : List Nat) (P K : List (List Nat)) (g : Gate) : fcStep (S, P, K) g =
    (match selIdx S g with
     | (scal, idx) => match dictInsertPoly P idx with
       | (polys, pi) => (scal, polys, K ++ [[pi, g.a, g.b, g.c, g.d]])) := rfl

theorem fcStep_eq (S : List Nat) (P K : List (List Nat)) (g : Gate) : fcStep (S, P, K) g =
    ((selIdx S g).1, (dictInsertPoly P (selIdx S g).2).1,
     K ++ [[(dictInsertPoly P (selIdx S g).2).2, g.a, g.b, g.c, g.d]]) := by
  rw [fcStep_eq0]

theorem fcStep_lambda : (fun (acc : List Nat × List (List Nat) × List (List Nat)) (g : Gate) =>
    let (scal, polys, cons) := acc
    let (scal, idx) := (gateSelectors g).foldl (fun (st : List Nat × List Nat) s =>
        let (t, i) := dictInsert st.1 (s % R); (t, st.2 ++ [i])) (scal, [])
    let (polys, pi) := dictInsertPoly polys idx
    (scal, polys, cons ++ [[pi, g.a, g.b, g.c, g.d]])) = fcStep := rfl

theorem insRow_lambda : (fun (acc : List Nat) (r : Nat) =>
      let (lo, hi) := acc.partition (· < r)
      lo ++ [r] ++ hi.filter (· != r)) = insRow := rfl

theorem fromComposer_eq (hades : Bool) (c : Composer) : fromComposer hades c =
    { hades := hades, publicInputs := (c.pis.toList.map (·.1)).foldl insRow [], witnesses := c.wit.size,
      scalars := ((c.gates.toList.foldl fcStep (baseScalars hades, [], [])).1.drop (baseScalars hades).length).map
        leBytes32,
      polynomials := (c.gates.toList.foldl fcStep (baseScalars hades, [], [])).2.1,
      constraints := (c.gates.toList.foldl fcStep (baseScalars hades, [], [])).2.2 } := by
  unfold fromComposer
  simp only [fcStep_lambda, insRow_lambda]

theorem selIdx_eq (scal : List Nat) (g : Gate) :
    selIdx scal g = dictFold scal ((gateSelectors g).map (· % R)) := by
  unfold selIdx dictFold
  rw [List.foldl_map]

theorem gateSelectors_length (g : Gate) : (gateSelectors g).length = 11 := rfl

theorem dictFold_forall {P : Nat → Prop} (keys : List Nat) : ∀ (t is : List Nat), (∀ x ∈ t, P x) →
    (∀ x ∈ keys, P x) →
    ∀ x ∈ (keys.foldl (fun acc k => ((dictInsert acc.1 k).1, acc.2 ++ [(dictInsert acc.1 k).2])) (t, is)).1, P x := by
  induction keys with
  | nil => intro t is ht _; exact ht
  | cons k ks ih =>
    intro t is ht hk
    rw [List.foldl_cons]
    exact ih _ _ (dictInsert_forall ht (hk k (by simp))) (fun y hy => hk y (List.mem_cons_of_mem _ hy))

/-- what one gate does to the scalar table -/
theorem selIdx_spec (scal : List Nat) (g : Gate) (hc : ∀ x ∈ scal, x < R) :
    scal <+: (selIdx scal g).1 ∧ (∀ x ∈ (selIdx scal g).1, x < R) ∧
    (selIdx scal g).1.length ≤ scal.length + 11 ∧ (selIdx scal g).2.length = 11 ∧
    (selIdx scal g).2.map (fun i => (selIdx scal g).1[i]?) = ((gateSelectors g).map (· % R)).map some := by
  rw [selIdx_eq]
  obtain ⟨h1, h2, h3⟩ := dict_roundtrip scal ((gateSelectors g).map (· % R))
  have h4 := dictFold_length_le ((gateSelectors g).map (· % R)) scal
  rw [List.length_map, gateSelectors_length] at h3 h4
  refine ⟨h2, ?_, h4, h3, ?_⟩
  · apply dictFold_forall _ _ _ hc
    intro x hx
    obtain ⟨s, -, rfl⟩ := List.mem_map.1 hx
    exact Nat.mod_lt _ R_pos
  · exact h1

theorem dictInsertPoly_spec (tbl : List (List Nat)) (k : List Nat) :
    (dictInsertPoly tbl k).1[(dictInsertPoly tbl k).2]? = some k ∧ tbl <+: (dictInsertPoly tbl k).1 ∧
    (dictInsertPoly tbl k).1.length ≤ tbl.length + 1 ∧
    (∀ p ∈ (dictInsertPoly tbl k).1, p ∈ tbl ∨ p = k) := by
  unfold dictInsertPoly
  cases hf : tbl.findIdx? (· == k) with
  | some i =>
    rw [List.findIdx?_eq_some_iff_getElem] at hf
    obtain ⟨hlt, hp, -⟩ := hf
    simp only [beq_iff_eq] at hp
    refine ⟨?_, List.prefix_refl _, Nat.le_succ _, fun p hp => Or.inl hp⟩
    show tbl[i]? = some k
    rw [List.getElem?_eq_getElem hlt, hp]
  | none =>
    refine ⟨by simp, List.prefix_append _ _, by simp, ?_⟩
    intro p hp
    rcases List.mem_append.1 hp with hp | hp
    · exact Or.inl hp
    · exact Or.inr (List.mem_singleton.1 hp)

/-- lookups that succeed in a table succeed, with the same values, in every extension of it -/
theorem lookups_prefix {α : Type} {T T' : List α} (hp : T <+: T') {l : List Nat} {ks : List α}
    (h : l.map (fun i => T[i]?) = ks.map some) : l.map (fun i => T'[i]?) = ks.map some := by
  rw [← h]
  apply List.map_congr_left
  intro i hi
  have hm : T[i]? ∈ ks.map some := by rw [← h]; exact List.mem_map.2 ⟨i, hi, rfl⟩
  obtain ⟨v, -, hv⟩ := List.mem_map.1 hm
  rw [← hv]
  exact prefix_getElem? hp hv.symm

theorem lookups_lt {α : Type} {T : List α} {l : List Nat} {ks : List α}
    (h : l.map (fun i => T[i]?) = ks.map some) : ∀ i ∈ l, i < T.length := by
  intro i hi
  have hm : T[i]? ∈ ks.map some := by rw [← h]; exact List.mem_map.2 ⟨i, hi, rfl⟩
  obtain ⟨v, -, hv⟩ := List.mem_map.1 hm
  by_contra hc
  rw [List.getElem?_eq_none (by omega)] at hv
  cases hv

/-- constraint `k` encodes gate `g` against the tables `S`, `P` -/
def Encodes (S : List Nat) (P : List (List Nat)) (g : Gate) (k : List Nat) : Prop :=
  ∃ pi idx, k = [pi, g.a, g.b, g.c, g.d] ∧ P[pi]? = some idx ∧
    idx.map (fun i => S[i]?) = ((gateSelectors g).map (· % R)).map some

theorem Encodes.mono {S S' : List Nat} {P P' : List (List Nat)} (hS : S <+: S') (hP : P <+: P') {g : Gate}
    {k : List Nat} (h : Encodes S P g k) : Encodes S' P' g k := by
  obtain ⟨pi, idx, hk, hp, hi⟩ := h
  exact ⟨pi, idx, hk, prefix_getElem? hP hp, lookups_prefix hS hi⟩

theorem forall₂_snoc {α β : Type} {r : α → β → Prop} {l1 : List α} {l2 : List β} (h : List.Forall₂ r l1 l2)
    {a : α} {b : β} (hab : r a b) : List.Forall₂ r (l1 ++ [a]) (l2 ++ [b]) := by
  induction h with
  | nil => exact List.Forall₂.cons hab List.Forall₂.nil
  | cons h1 _ ih => exact List.Forall₂.cons h1 ih

theorem forall₂_imp {α β : Type} {r s : α → β → Prop} (hrs : ∀ a b, r a b → s a b) {l1 : List α} {l2 : List β}
    (h : List.Forall₂ r l1 l2) : List.Forall₂ s l1 l2 := by
  induction h with
  | nil => exact List.Forall₂.nil
  | cons h1 _ ih => exact List.Forall₂.cons (hrs _ _ h1) ih

/-- the loop invariant of `from_composer` after the gates `gs` -/
structure FcInv (base : List Nat) (gs : List Gate) (st : List Nat × List (List Nat) × List (List Nat)) : Prop where
  pre : base <+: st.1
  canon : ∀ x ∈ st.1, x < R
  slen : st.1.length ≤ base.length + 11 * gs.length
  plen : st.2.1.length ≤ gs.length
  polys : ∀ p ∈ st.2.1, p.length = 11 ∧ ∀ i ∈ p, i < st.1.length
  cons : List.Forall₂ (Encodes st.1 st.2.1) gs st.2.2

theorem fcStep_inv {base : List Nat} {gs : List Gate} {st : List Nat × List (List Nat) × List (List Nat)}
    (h : FcInv base gs st) (g : Gate) : FcInv base (gs ++ [g]) (fcStep st g) := by
  obtain ⟨S, P, K⟩ := st
  obtain ⟨hpre, hcanon, hslen, hplen, hpolys, hcons⟩ := h
  simp only at hpre hcanon hslen hplen hpolys hcons
  obtain ⟨s1, s2, s3, s4, s5⟩ := selIdx_spec S g hcanon
  obtain ⟨p1, p2, p3, p4⟩ := dictInsertPoly_spec P (selIdx S g).2
  rw [fcStep_eq]
  generalize selIdx S g = si at *
  generalize dictInsertPoly P si.2 = dp at *
  have hlenS : S.length ≤ si.1.length := s1.length_le
  refine ⟨hpre.trans s1, s2, ?_, ?_, ?_, ?_⟩
  · show si.1.length ≤ _
    rw [List.length_append, List.length_singleton]; omega
  · show dp.1.length ≤ _
    rw [List.length_append, List.length_singleton]; omega
  · intro p hp
    show p.length = 11 ∧ ∀ i ∈ p, i < si.1.length
    rcases p4 p hp with hp | rfl
    · obtain ⟨a, b⟩ := hpolys p hp
      exact ⟨a, fun i hi => Nat.lt_of_lt_of_le (b i hi) hlenS⟩
    · exact ⟨s4, lookups_lt s5⟩
  · show List.Forall₂ (Encodes si.1 dp.1) (gs ++ [g]) (K ++ [[dp.2, g.a, g.b, g.c, g.d]])
    apply forall₂_snoc
    · exact forall₂_imp (fun a b hab => hab.mono s1 p2) hcons
    · exact ⟨_, _, rfl, p1, s5⟩

theorem fcFold_inv {base : List Nat} : ∀ (l gs : List Gate) (st : List Nat × List (List Nat) × List (List Nat)),
    FcInv base gs st → FcInv base (gs ++ l) (l.foldl fcStep st)
  | [], gs, st, h => by simpa using h
  | g :: l, gs, st, h => by
    have := fcFold_inv l (gs ++ [g]) _ (fcStep_inv h g)
    simpa using this

theorem FcInv.init (hades : Bool) : FcInv (baseScalars hades) [] (baseScalars hades, [], []) :=
  ⟨List.prefix_refl _, baseScalars_lt hades, by simp, by simp, fun _ h => (by cases h), List.Forall₂.nil⟩


/-! ## sorted rows -/

theorem pairwise_lt_length_le : ∀ (l : List Nat) (lo n : Nat), l.Pairwise (· < ·) → (∀ x ∈ l, lo ≤ x ∧ x < n) →
    l.length ≤ n - lo
  | [], _, _, _, _ => Nat.zero_le _
  | a :: t, lo, n, hp, hb => by
    obtain ⟨h1, h2⟩ := List.pairwise_cons.1 hp
    have ha := hb a (by simp)
    have := pairwise_lt_length_le t (a + 1) n h2 (fun x hx => ⟨h1 x hx, (hb x (List.mem_cons_of_mem _ hx)).2⟩)
    rw [List.length_cons]; omega

theorem pairwise_chain : ∀ (l : List Nat), l.Pairwise (· < ·) →
    (l.zip l.tail).all (fun (a, b) => decide (a < b)) = true
  | [], _ => rfl
  | [_], _ => rfl
  | a :: b :: t, hp => by
    obtain ⟨h1, h2⟩ := List.pairwise_cons.1 hp
    have ih := pairwise_chain (b :: t) h2
    simp only [List.tail_cons, List.zip_cons_cons, List.all_cons, Bool.and_eq_true, decide_eq_true_eq]
    exact ⟨h1 b (by simp), by simpa using ih⟩

/-! ## the reconstruction loop against the loop of `decompressCompress` -/

/-- gates, label map and witness counter of the loop state of `rebuild` -/
def proj3 (st : List Gate × List (Nat × Nat) × Nat × List Nat × Nat × List (Nat × Nat)) :
    List Gate × List (Nat × Nat) × Nat := (st.1, st.2.1, st.2.2.1)

theorem rebuildStep_gateStep (c : PackedCircuit) (S : List Nat)
    (st : List Gate × List (Nat × Nat) × Nat × List Nat × Nat × List (Nat × Nat)) (g : Gate) (pi : Nat)
    (hsel : selOf c S [pi, g.a, g.b, g.c, g.d] = gateSelectors g) :
    proj3 (rebuildStep c S st [pi, g.a, g.b, g.c, g.d]) = gateStep (proj3 st) g := by
  obtain ⟨gs, m, n, pl, i, po⟩ := st
  unfold rebuildStep proj3
  rw [hsel, gateStep_eq]
  rfl

theorem selOf_of_encodes {c : PackedCircuit} {S : List Nat} {g : Gate} {k : List Nat}
    (h : Encodes S c.polynomials g k) (hR : ∀ s ∈ gateSelectors g, s < R) :
    ∃ pi, k = [pi, g.a, g.b, g.c, g.d] ∧ selOf c S k = gateSelectors g := by
  obtain ⟨pi, idx, rfl, hp, hi⟩ := h
  refine ⟨pi, rfl, ?_⟩
  unfold selOf
  have e0 : [pi, g.a, g.b, g.c, g.d].getD 0 0 = pi := rfl
  rw [e0, List.getD_eq_getElem?_getD, hp, Option.getD_some]
  have e1 : idx.map (fun j => S.getD j 0) = (idx.map (fun i => S[i]?)).map (fun o => o.getD 0) := by
    rw [List.map_map]
    apply List.map_congr_left
    intro j _
    simp only [Function.comp, List.getD_eq_getElem?_getD]
  rw [e1, hi, List.map_map, List.map_map]
  have : ∀ s ∈ gateSelectors g, (((fun o : Option Nat => o.getD 0) ∘ some) ∘ (· % R)) s = id s := by
    intro s hs
    simp only [Function.comp, Option.getD_some, id]
    exact Nat.mod_eq_of_lt (hR s hs)
  rw [List.map_congr_left this, List.map_id]

theorem rebuildFold_gateFold (c : PackedCircuit) (S : List Nat) {gs : List Gate} {K : List (List Nat)}
    (h : List.Forall₂ (Encodes S c.polynomials) gs K) :
    (∀ g ∈ gs, ∀ s ∈ gateSelectors g, s < R) →
    ∀ st, proj3 (K.foldl (rebuildStep c S) st) = gs.foldl gateStep (proj3 st) := by
  induction h with
  | nil => intro _ st; rfl
  | cons h1 _ ih =>
    intro hR st
    obtain ⟨pi, rfl, hsel⟩ := selOf_of_encodes h1 (hR _ (by simp))
    rw [List.foldl_cons, List.foldl_cons, ih (fun g hg => hR g (List.mem_cons_of_mem _ hg)),
      rebuildStep_gateStep c S st _ pi hsel]


theorem forall₂_length {α β : Type} {r : α → β → Prop} {l1 : List α} {l2 : List β} (h : List.Forall₂ r l1 l2) :
    l1.length = l2.length := by
  induction h with
  | nil => rfl
  | cons _ _ ih => rw [List.length_cons, List.length_cons, ih]

theorem forall₂_mem_right {α β : Type} {r : α → β → Prop} {l1 : List α} {l2 : List β} (h : List.Forall₂ r l1 l2) :
    ∀ b ∈ l2, ∃ a ∈ l1, r a b := by
  induction h with
  | nil => intro b hb; cases hb
  | cons h1 _ ih =>
    intro b hb
    rcases List.mem_cons.1 hb with rfl | hb
    · exact ⟨_, by simp, h1⟩
    · obtain ⟨a, ha, hab⟩ := ih b hb
      exact ⟨a, List.mem_cons_of_mem _ ha, hab⟩

/-- the reconstruction of a description that encodes the gates of `comp` against its own tables, with the sorted
    rows of `comp`, is `decompressCompress comp` -/
theorem rebuild_eq_decompress (pc : PackedCircuit) (S : List Nat) (comp : Composer)
    (hcons : List.Forall₂ (Encodes S pc.polynomials) comp.gates.toList pc.constraints)
    (hR : ∀ g ∈ comp.gates.toList, ∀ s ∈ gateSelectors g, s < R)
    (hrows : pc.publicInputs = (comp.pis.toList.map (·.1)).foldl insRow [])
    (hlt : ∀ p ∈ pc.publicInputs, p < pc.constraints.length) : rebuild pc S = decompressCompress comp := by
  have hpw : pc.publicInputs.Pairwise (· < ·) := by
    rw [hrows]; exact (insFold_spec _ [] List.Pairwise.nil).1
  have h3 := rebuildFold_gateFold pc S hcons hR ([], [], 0, pc.publicInputs, 0, [])
  have hp := rebuild_pis pc S hlt hpw
  have hg : (rebuild pc S).gates = (comp.gates.toList.foldl gateStep ([], [], 0)).1.toArray := by
    rw [rebuild_eq]
    exact congrArg (fun x => x.1.toArray) h3
  have hw : (rebuild pc S).wit = Array.replicate (comp.gates.toList.foldl gateStep ([], [], 0)).2.2 0 := by
    rw [rebuild_eq]
    exact congrArg (fun x => Array.replicate x.2.2 0) h3
  have hpis : (rebuild pc S).pis =
      (((comp.pis.toList.map (·.1)).foldl insRow []).map fun r => (r, 0)).toArray := by
    rw [← hrows, ← hp, Array.toArray_toList]
  rw [decompressCompress_eq, ← hg, ← hw, ← hpis]

/-! ## representability and validity of `fromComposer` -/

/-- the composers `Circuit::compress()` is applied to, with the capacity of the reader -/
structure Compressible (comp : Composer) (m : Nat) : Prop where
  selectors : ∀ g ∈ comp.gates.toList, ∀ s ∈ gateSelectors g, s < R
  wires : ∀ g ∈ comp.gates.toList, g.a < comp.wit.size ∧ g.b < comp.wit.size ∧ g.c < comp.wit.size ∧
    g.d < comp.wit.size
  witnesses : comp.wit.size < 2 ^ 64
  rows : ∀ p ∈ comp.pis.toList, p.1 < comp.gates.size
  header : 11 * comp.gates.size < 2 ^ 32
  capacity : comp.gates.size ≤ m

/-- everything the later steps need to know about the dictionaries and the rows -/
theorem fc_facts (hades : Bool) (comp : Composer) :
    FcInv (baseScalars hades) comp.gates.toList (comp.gates.toList.foldl fcStep (baseScalars hades, [], [])) ∧
    (comp.gates.toList.foldl fcStep (baseScalars hades, [], [])).2.2.length = comp.gates.size ∧
    ((comp.pis.toList.map (·.1)).foldl insRow []).Pairwise (· < ·) ∧
    (∀ x ∈ (comp.pis.toList.map (·.1)).foldl insRow [], ∃ p ∈ comp.pis.toList, p.1 = x) := by
  have inv : FcInv (baseScalars hades) comp.gates.toList
      (comp.gates.toList.foldl fcStep (baseScalars hades, [], [])) := by
    simpa using fcFold_inv comp.gates.toList [] _ (FcInv.init hades)
  obtain ⟨h1, h2⟩ := insFold_spec (comp.pis.toList.map (·.1)) [] List.Pairwise.nil
  refine ⟨inv, ?_, h1, ?_⟩
  · rw [← forall₂_length inv.cons, Array.length_toList]
  · intro x hx
    rcases (h2 x).1 hx with h | h
    · cases h
    · obtain ⟨p, hp, rfl⟩ := List.mem_map.1 h
      exact ⟨p, hp, rfl⟩


/-- the packed form of a compressible composer: representable, within capacity, valid, canonical, and rebuilt
    into `decompressCompress` -/
theorem fromComposer_good {comp : Composer} {m : Nat} (hades : Bool) (h : Compressible comp m) :
    Representable (fromComposer hades comp) ∧ WithinCapacity (fromComposer hades comp) m ∧
    validateIndices (fromComposer hades comp) (baseScalars hades).length = true ∧
    (∀ s ∈ (fromComposer hades comp).scalars, leNat s < R) ∧
    rebuild (fromComposer hades comp) (baseScalars hades ++ (fromComposer hades comp).scalars.map leNat) =
      decompressCompress comp := by
  obtain ⟨inv, hK, hpw, hmem⟩ := fc_facts hades comp
  have hbase := baseScalars_length_le hades
  rw [fromComposer_eq]
  generalize comp.gates.toList.foldl fcStep (baseScalars hades, [], []) = F at *
  generalize hrows : (comp.pis.toList.map (·.1)).foldl insRow [] = rows at *
  generalize baseScalars hades = base at *
  obtain ⟨S, P, K⟩ := F
  obtain ⟨hpre, hcanon, hslen, hplen, hpolys, hcons⟩ := inv
  simp only [Array.length_toList] at hpre hcanon hslen hplen hpolys hcons hK
  obtain ⟨hsel, hwires, hwit, hrowlt, hhdr, hcap⟩ := h
  have hrowlt' : ∀ x ∈ rows, x < comp.gates.size := by
    intro x hx
    obtain ⟨p, hp, rfl⟩ := hmem x hx
    exact hrowlt p hp
  have hrowlen : rows.length ≤ comp.gates.size := by
    have := pairwise_lt_length_le rows 0 comp.gates.size hpw (fun x hx => ⟨Nat.zero_le _, hrowlt' x hx⟩)
    omega
  have hbl : base.length ≤ S.length := hpre.length_le
  have hdrop : (S.drop base.length).length ≤ 11 * comp.gates.size := by rw [List.length_drop]; omega
  have hKmem : ∀ k ∈ K, ∃ g ∈ comp.gates.toList, ∃ pi, k = [pi, g.a, g.b, g.c, g.d] ∧ pi < P.length := by
    intro k hk
    obtain ⟨g, hg, pi, idx, rfl, hp, -⟩ := forall₂_mem_right hcons k hk
    refine ⟨g, hg, pi, rfl, ?_⟩
    by_contra hc
    rw [List.getElem?_eq_none (by omega)] at hp
    cases hp
  have h232 : (2 : Nat) ^ 32 < 2 ^ 64 := by decide
  refine ⟨?_, ?_, ?_, ?_, ?_⟩
  · -- representable
    refine ⟨hwit, ?_, ?_, ?_, ?_, ?_, ?_, ?_, ?_⟩
    · intro x hx
      have := hrowlt' x hx
      show x < 2 ^ 64
      omega
    · intro s hs
      obtain ⟨v, -, rfl⟩ := List.mem_map.1 hs
      exact ⟨leBytes32_length v, leBytes32_lt v⟩
    · intro p hp
      obtain ⟨a, b⟩ := hpolys p hp
      refine ⟨a, fun i hi => ?_⟩
      have := b i hi
      omega
    · intro k hk
      obtain ⟨g, hg, pi, rfl, hpi⟩ := hKmem k hk
      obtain ⟨wa, wb, wc, wd⟩ := hwires g hg
      refine ⟨rfl, ?_⟩
      intro i hi
      simp only [List.mem_cons, List.mem_nil_iff, or_false] at hi
      rcases hi with rfl | rfl | rfl | rfl | rfl <;> omega
    · show rows.length < 2 ^ 32
      omega
    · show ((S.drop base.length).map leBytes32).length < 2 ^ 32
      rw [List.length_map]; omega
    · show P.length < 2 ^ 32
      omega
    · show K.length < 2 ^ 32
      omega
  · -- within capacity
    refine ⟨?_, ?_, ?_, ?_⟩
    · show rows.length ≤ m
      omega
    · show ((S.drop base.length).map leBytes32).length ≤ m * Generated.SELECTORS_PER_POLYNOMIAL
      rw [List.length_map]; simp only [Generated.SELECTORS_PER_POLYNOMIAL]; omega
    · show P.length ≤ m
      omega
    · show K.length ≤ m
      omega
  · -- validate_indices
    unfold validateIndices
    simp only [Bool.and_eq_true]
    refine ⟨⟨⟨?_, pairwise_chain rows hpw⟩, ?_⟩, ?_⟩
    · rw [List.all_eq_true]
      intro x hx
      have := hrowlt' x hx
      simp only [decide_eq_true_eq]
      omega
    · rw [List.all_eq_true]
      intro p hp
      rw [List.all_eq_true]
      intro i hi
      have := (hpolys p hp).2 i hi
      simp only [List.length_map, List.length_drop, decide_eq_true_eq]
      omega
    · rw [List.all_eq_true]
      intro k hk
      obtain ⟨g, hg, pi, rfl, hpi⟩ := hKmem k hk
      obtain ⟨wa, wb, wc, wd⟩ := hwires g hg
      simp only [Bool.and_eq_true, decide_eq_true_eq]
      exact ⟨⟨⟨⟨hpi, wa⟩, wb⟩, wc⟩, wd⟩
  · -- canonical scalars
    intro s hs
    obtain ⟨v, hv, rfl⟩ := List.mem_map.1 hs
    have hvR := hcanon v (List.mem_of_mem_drop hv)
    rw [leNat_leBytes32 hvR]; exact hvR
  · -- the rebuilt composer
    have e1 : ((S.drop base.length).map leBytes32).map leNat = S.drop base.length := by
      rw [List.map_map]
      have : ∀ v ∈ S.drop base.length, (leNat ∘ leBytes32) v = id v := by
        intro v hv
        simp only [Function.comp, id]
        exact leNat_leBytes32 (hcanon v (List.mem_of_mem_drop hv))
      rw [List.map_congr_left this, List.map_id]
    have e2 : base ++ S.drop base.length = S := by
      obtain ⟨t, rfl⟩ := hpre
      rw [List.drop_left]
    show rebuild _ (base ++ ((S.drop base.length).map leBytes32).map leNat) = _
    rw [e1, e2]
    apply rebuild_eq_decompress
    · exact hcons
    · exact hsel
    · exact hrows.symm
    · intro p hp
      show p < K.length
      have := hrowlt' p hp
      omega

theorem fromComposer_hades (hades : Bool) (comp : Composer) : (fromComposer hades comp).hades = hades := by
  rw [fromComposer_eq]

/-- T6 at the level of the reader, for either setting of the hades flag -/
theorem unpackBounded_pack_fromComposer {comp : Composer} {m : Nat} (hades : Bool) (h : Compressible comp m) :
    unpackBounded (pack (fromComposer hades comp)) m = some (fromComposer hades comp) := by
  obtain ⟨hr, hc, -⟩ := fromComposer_good hades h
  exact unpackBounded_pack hr hc

/-- T6 for either setting of the hades flag -/
theorem fromPayload_pack_fromComposer {comp : Composer} {m : Nat} (hades : Bool) (h : Compressible comp m) :
    fromPayload (pack (fromComposer hades comp)) m = .ok (decompressCompress comp) := by
  obtain ⟨hr, hc, hv, hs, hreb⟩ := fromComposer_good hades h
  have hh := fromComposer_hades hades comp
  refine fromPayload_eq_ok.2 ⟨?_, fromComposer hades comp, unpackBounded_pack hr hc, ?_, hs, ?_⟩
  · exact pack_length_le (fun s hs => (hr.scalars s hs).1) (fun s hs => (hr.polynomials s hs).1)
      (fun s hs => (hr.constraints s hs).1) hc
  · rw [hh]; exact hv
  · rw [hh]; exact hreb.symm

/-- T6: `from_bytes` applied to the payload of `Circuit::compress()` is `decompressCompress` -/
theorem fromPayload_compressPayload {comp : Composer} {m : Nat} (h : Compressible comp m) :
    fromPayload (compressPayload comp) m = .ok (decompressCompress comp) :=
  fromPayload_pack_fromComposer true h

/-- the dictionaries of `from_composer`, for ANY composer: there is a scalar table extending the built-in one, whose
    tail is what is transmitted, such that every constraint names a polynomial whose eleven indices look up the
    (reduced) selectors of its gate in the FINAL tables -/
theorem fromComposer_dictionaries (hades : Bool) (comp : Composer) :
    ∃ S : List Nat, baseScalars hades <+: S ∧ (∀ x ∈ S, x < R) ∧
      (fromComposer hades comp).scalars = (S.drop (baseScalars hades).length).map leBytes32 ∧
      List.Forall₂ (Encodes S (fromComposer hades comp).polynomials) comp.gates.toList
        (fromComposer hades comp).constraints := by
  obtain ⟨inv, -⟩ := fc_facts hades comp
  rw [fromComposer_eq]
  exact ⟨_, inv.pre, inv.canon, rfl, inv.cons⟩

end Plonk.PackedRoundtrip
