/-
  Verifier-side codecs (`Plonk/Model/Verifier.lean`): `readScalars`, `readG1s`, `ProofM`, `VKey`,
  `OpeningKeyM`, `VerifierM` — round trips, canonicity, well-formedness, work bounds.
-/
import Plonk.Proofs.CodecG1
import Plonk.Proofs.PrimeP

set_option Elab.async false

namespace Plonk

/-! ### `splitAt?`, `readScalars`, `readG1s` -/

theorem splitAt?_eq_some {bs : List Nat} {n : Nat} (h : n ≤ bs.length) :
    splitAt? bs n = some (bs.take n, bs.drop n) := by
  unfold splitAt?; rw [if_neg (by omega)]

theorem splitAt?_eq_none {bs : List Nat} {n : Nat} (h : bs.length < n) : splitAt? bs n = none := by
  unfold splitAt?; rw [if_pos h]

theorem readScalars_succ (k : Nat) (bs : List Nat) : readScalars (k + 1) bs =
    if bs.length < 32 then none else
    (scalarFromBytes? (bs.take 32)).bind fun s =>
    (readScalars k (bs.drop 32)).bind fun q => some (s :: q.1, q.2) := by
  rw [readScalars]
  by_cases h : bs.length < 32
  · rw [splitAt?_eq_none h, if_pos h]; rfl
  · rw [splitAt?_eq_some (by omega), if_neg h]; rfl

theorem readG1s_succ (k : Nat) (bs : List Nat) : readG1s (k + 1) bs =
    if bs.length < 48 then none else
    (G1.fromCompressed? (bs.take 48)).bind fun p =>
    (readG1s k (bs.drop 48)).bind fun q => some (p :: q.1, q.2) := by
  rw [readG1s]
  by_cases h : bs.length < 48
  · rw [splitAt?_eq_none h, if_pos h]; rfl
  · rw [splitAt?_eq_some (by omega), if_neg h]; rfl

theorem readScalars_encode (xs : List Nat) (rest : List Nat) (hx : ∀ x ∈ xs, x < R) :
    readScalars xs.length (xs.flatMap scalarBytesLE ++ rest) = some (xs, rest) := by
  induction xs with
  | nil => rfl
  | cons x xs ih =>
    rw [List.length_cons, readScalars_succ, List.flatMap_cons, List.append_assoc]
    have hl : (scalarBytesLE x).length = 32 := scalarBytesLE_length x
    rw [if_neg (by simp), List.take_left' hl, List.drop_left' hl,
      scalarFromBytes_scalarBytesLE (hx x (by simp)), Option.bind_some,
      ih (fun y hy => hx y (List.mem_cons_of_mem _ hy)), Option.bind_some]

/-- what `readScalars` returns: exactly `k` canonical scalars, consuming exactly `32·k` bytes -/
theorem readScalars_decode {k : Nat} {bs ss r : List Nat} (h : readScalars k bs = some (ss, r)) :
    ss.length = k ∧ r.length + 32 * k = bs.length ∧ r = bs.drop (32 * k) ∧ (∀ s ∈ ss, s < R) ∧
    (AllBytes bs → ss.flatMap scalarBytesLE ++ r = bs) := by
  induction k generalizing bs ss r with
  | zero =>
    simp only [readScalars, Option.some.injEq, Prod.mk.injEq] at h
    obtain ⟨rfl, rfl⟩ := h
    simp
  | succ k ih =>
    rw [readScalars_succ] at h
    split at h
    · cases h
    · next hlen =>
      cases hs : scalarFromBytes? (bs.take 32) with
      | none => rw [hs] at h; cases h
      | some s =>
        rw [hs, Option.bind_some] at h
        cases hq : readScalars k (bs.drop 32) with
        | none => rw [hq] at h; cases h
        | some q =>
          obtain ⟨ss', r'⟩ := q
          rw [hq, Option.bind_some] at h
          simp only [Option.some.injEq, Prod.mk.injEq] at h
          obtain ⟨rfl, rfl⟩ := h
          obtain ⟨i1, i2, i3, i4, i5⟩ := ih hq
          rw [List.length_drop] at i2
          refine ⟨by simp [i1], by omega, ?_, ?_, ?_⟩
          · rw [i3, List.drop_drop]; congr 1; omega
          · intro x hx
            rcases List.mem_cons.mp hx with rfl | hx
            · exact scalarFromBytes_lt hs
            · exact i4 x hx
          · intro hb
            rw [List.flatMap_cons, List.append_assoc, i5 (hb.drop 32),
              (scalarFromBytes_canonical (hb.take 32) hs).1, List.take_append_drop]

theorem readG1s_encode (ps : List G1) (rest : List Nat) (hp : ∀ p ∈ ps, p.Valid ∧ p.torsionFree = true) :
    readG1s ps.length (ps.flatMap G1.toCompressed ++ rest) = some (ps, rest) := by
  induction ps with
  | nil => rfl
  | cons x xs ih =>
    rw [List.length_cons, readG1s_succ, List.flatMap_cons, List.append_assoc]
    have hl : (G1.toCompressed x).length = 48 := G1.toCompressed_length x
    rw [if_neg (by simp [hl]), List.take_left' hl, List.drop_left' hl,
      G1.fromCompressed_toCompressed (hp x (by simp)).1 (hp x (by simp)).2, Option.bind_some,
      ih (fun y hy => hp y (List.mem_cons_of_mem _ hy)), Option.bind_some]

/-- what `readG1s` returns: exactly `k` reduced, on-curve, torsion-free points, consuming `48·k` bytes -/
theorem readG1s_decode {k : Nat} {bs r : List Nat} {ps : List G1} (h : readG1s k bs = some (ps, r)) :
    ps.length = k ∧ r.length + 48 * k = bs.length ∧ r = bs.drop (48 * k) ∧
    (∀ p ∈ ps, p.Valid ∧ p.torsionFree = true) ∧
    (AllBytes bs → ps.flatMap G1.toCompressed ++ r = bs) := by
  induction k generalizing bs ps r with
  | zero =>
    simp only [readG1s, Option.some.injEq, Prod.mk.injEq] at h
    obtain ⟨rfl, rfl⟩ := h
    simp
  | succ k ih =>
    rw [readG1s_succ] at h
    split at h
    · cases h
    · next hlen =>
      cases hs : G1.fromCompressed? (bs.take 48) with
      | none => rw [hs] at h; cases h
      | some s =>
        rw [hs, Option.bind_some] at h
        cases hq : readG1s k (bs.drop 48) with
        | none => rw [hq] at h; cases h
        | some q =>
          obtain ⟨ss', r'⟩ := q
          rw [hq, Option.bind_some] at h
          simp only [Option.some.injEq, Prod.mk.injEq] at h
          obtain ⟨rfl, rfl⟩ := h
          obtain ⟨i1, i2, i3, i4, i5⟩ := ih hq
          rw [List.length_drop] at i2
          refine ⟨by simp [i1], by omega, ?_, ?_, ?_⟩
          · rw [i3, List.drop_drop]; congr 1; omega
          · intro x hx
            rcases List.mem_cons.mp hx with rfl | hx
            · exact G1.fromCompressed_wf hs
            · exact i4 x hx
          · intro hb
            rw [List.flatMap_cons, List.append_assoc, i5 (hb.drop 48),
              (G1.fromCompressed_canonical (hb.take 48) hs).1, List.take_append_drop]

theorem flatMap_toCompressed_length (ps : List G1) : (ps.flatMap G1.toCompressed).length = 48 * ps.length := by
  induction ps with
  | nil => rfl
  | cons p ps ih => rw [List.flatMap_cons, List.length_append, ih, G1.toCompressed_length, List.length_cons]; omega

theorem flatMap_scalarBytesLE_length (xs : List Nat) : (xs.flatMap scalarBytesLE).length = 32 * xs.length := by
  induction xs with
  | nil => rfl
  | cons p ps ih => rw [List.flatMap_cons, List.length_append, ih, scalarBytesLE_length, List.length_cons]; omega

theorem G1.toCompressed_allBytes {p : G1} (hp : p.Valid) : AllBytes p.toCompressed := by
  cases p with
  | inf =>
    apply AllBytes.cons (by norm_num) (AllBytes.replicate_zero 47)
  | aff x y =>
    obtain ⟨hx, _, _⟩ := hp
    rw [G1.toCompressed_aff, Nat.mod_eq_of_lt hx]
    have ht : x / 256 ^ 47 % 256 < 32 := by
      have : x / 256 ^ 47 < 32 := by
        rw [Nat.div_lt_iff_lt_mul (by positivity)]; exact lt_trans hx P_lt_pow
      omega
    apply AllBytes.cons _ (natToBytesBE_allBytes _ _)
    split <;> omega

/-! ### proofs -/

/-- the eleven commitments of a proof, in serialization order -/
def ProofM.points (p : ProofM) : List G1 :=
  [p.aC, p.bC, p.cC, p.dC, p.zC, p.tLow, p.tMid, p.tHigh, p.tFourth, p.wz, p.wzw]

/-- the fifteen evaluations of a proof, in serialization order -/
def Evals.toList (e : Evals) : List Nat :=
  [e.a, e.b, e.c, e.d, e.aw, e.bw, e.dw, e.qarith, e.qc, e.ql, e.qr, e.s1, e.s2, e.s3, e.z]

/-- a well-formed proof: reduced on-curve prime-order points, canonical scalars -/
def ProofM.WF (p : ProofM) : Prop :=
  (∀ q ∈ p.points, q.Valid ∧ q.torsionFree = true) ∧ (∀ s ∈ p.ev.toList, s < R)

theorem ProofM.toBytes_eq (p : ProofM) :
    p.toBytes = p.points.flatMap G1.toCompressed ++ p.ev.toList.flatMap scalarBytesLE := rfl

theorem ProofM.toBytes_length (p : ProofM) : p.toBytes.length = 1008 := by
  rw [ProofM.toBytes_eq, List.length_append, flatMap_toCompressed_length, flatMap_scalarBytesLE_length]
  simp [ProofM.points, Evals.toList]

theorem ProofM.fromBytes?_of_reads {bs r r2 : List Nat} {p : ProofM} (hlen : ¬ bs.length < 1008)
    (hG : readG1s 11 bs = some (p.points, r)) (hS : readScalars 15 r = some (p.ev.toList, r2)) :
    ProofM.fromBytes? bs = some p := by
  unfold ProofM.fromBytes?
  simp only [if_neg hlen, hG, hS, ProofM.points, Evals.toList, Option.bind_eq_bind, Option.bind_some]

theorem ProofM.fromBytes?_reads {bs : List Nat} {p : ProofM} (h : ProofM.fromBytes? bs = some p) :
    ¬ bs.length < 1008 ∧ ∃ r r2, readG1s 11 bs = some (p.points, r) ∧ readScalars 15 r = some (p.ev.toList, r2) := by
  unfold ProofM.fromBytes? at h
  by_cases hlen : bs.length < 1008
  · simp only [if_pos hlen, Option.bind_eq_bind, Option.bind_none] at h; cases h
  · refine ⟨hlen, ?_⟩
    simp only [if_neg hlen, Option.bind_eq_bind] at h
    cases hG : readG1s 11 bs with
    | none => rw [hG] at h; cases h
    | some q =>
      obtain ⟨ps, r⟩ := q
      rw [hG, Option.bind_some] at h
      cases hS : readScalars 15 r with
      | none => simp only [hS, Option.bind_none] at h; cases h
      | some w =>
        obtain ⟨ss, r2⟩ := w
        simp only [hS, Option.bind_some] at h
        have l1 := (readG1s_decode hG).1
        have l2 := (readScalars_decode hS).1
        match ps, l1, ss, l2, hG, hS, h with
        | [a, b, c, d, z, tl, tm, th, tf, wz, wzw], _,
          [ea, eb, ec, ed, eaw, ebw, edw, eqa, eqc, eql, eqr, es1, es2, es3, ez], _, hG, hS, h =>
          simp only [Option.some.injEq] at h
          subst h
          exact ⟨r, r2, rfl, hS⟩

/-- proof round trip (the decoder reads the 1008-byte prefix) -/
theorem ProofM.fromBytes_toBytes_append {p : ProofM} (hp : p.WF) (extra : List Nat) :
    ProofM.fromBytes? (p.toBytes ++ extra) = some p := by
  apply ProofM.fromBytes?_of_reads (r := p.ev.toList.flatMap scalarBytesLE ++ extra) (r2 := extra)
  · rw [List.length_append, ProofM.toBytes_length]; omega
  · rw [ProofM.toBytes_eq, List.append_assoc]
    exact readG1s_encode p.points _ hp.1
  · exact readScalars_encode p.ev.toList extra hp.2

theorem ProofM.fromBytes_toBytes {p : ProofM} (hp : p.WF) : ProofM.fromBytes? p.toBytes = some p := by
  have := ProofM.fromBytes_toBytes_append hp []
  rwa [List.append_nil] at this

/-- proof decoding is canonical -/
theorem ProofM.fromBytes_canonical {bs : List Nat} {p : ProofM} (hb : AllBytes bs)
    (h : ProofM.fromBytes? bs = some p) : p.toBytes = bs.take 1008 := by
  obtain ⟨hlen, r, r2, hG, hS⟩ := ProofM.fromBytes?_reads h
  obtain ⟨_, g2, g3, _, g5⟩ := readG1s_decode hG
  obtain ⟨_, s2, s3, _, s5⟩ := readScalars_decode hS
  have e1 := g5 hb
  have hbr : AllBytes r := by rw [g3]; exact hb.drop _
  have e2 := s5 hbr
  have : bs = p.toBytes ++ r2 := by rw [ProofM.toBytes_eq, List.append_assoc, e2, e1]
  conv_rhs => rw [this]
  rw [List.take_left' (ProofM.toBytes_length p)]

/-- what the proof decoder accepts is well formed -/
theorem ProofM.fromBytes_wf {bs : List Nat} {p : ProofM} (h : ProofM.fromBytes? bs = some p) :
    p.WF ∧ 1008 ≤ bs.length := by
  obtain ⟨hlen, r, r2, hG, hS⟩ := ProofM.fromBytes?_reads h
  exact ⟨⟨(readG1s_decode hG).2.2.2.1, (readScalars_decode hS).2.2.2.1⟩, by omega⟩

/-! ### verifier keys -/

/-- the fifteen commitments of a verifier key, in serialization order -/
def VKey.points (k : VKey) : List G1 :=
  [k.qm, k.ql, k.qr, k.qo, k.qf, k.qc, k.qarith, k.qlogic, k.qrange, k.qfixed, k.qvar, k.s1, k.s2, k.s3, k.s4]

def VKey.WF (k : VKey) : Prop := k.n < 2 ^ 64 ∧ ∀ q ∈ k.points, q.Valid ∧ q.torsionFree = true

/-- the part of the encoding that the decoder reads: 8 + 15·48 = 728 bytes -/
def VKey.body (k : VKey) : List Nat := natToBytesLE k.n 8 ++ k.points.flatMap G1.toCompressed

theorem VKey.body_length (k : VKey) : k.body.length = 728 := by
  unfold VKey.body
  rw [List.length_append, flatMap_toCompressed_length, natToBytesLE_length]
  simp [VKey.points]

theorem VKey.toBytes_eq (k : VKey) : k.toBytes = k.body ++ List.replicate 240 0 := by
  have h : k.toBytes = k.body ++ List.replicate (968 - k.body.length) 0 := rfl
  rw [h, VKey.body_length]

theorem VKey.toBytes_length (k : VKey) : k.toBytes.length = 968 := by
  rw [VKey.toBytes_eq, List.length_append, VKey.body_length, List.length_replicate]

theorem VKey.fromBytes?_of_reads {bs r2 : List Nat} {k : VKey} (hlen : ¬ bs.length < 968)
    (hn : bytesToNatLE (bs.take 8) = k.n)
    (hG : readG1s 15 (bs.drop 8) = some (k.points, r2)) :
    VKey.fromBytes? bs = some k := by
  unfold VKey.fromBytes?
  have h8 : splitAt? bs 8 = some (bs.take 8, bs.drop 8) := splitAt?_eq_some (by omega)
  simp only [if_neg hlen, h8, hG, VKey.points, Option.bind_eq_bind, Option.bind_some, hn]

theorem VKey.fromBytes?_reads {bs : List Nat} {k : VKey} (h : VKey.fromBytes? bs = some k) :
    ¬ bs.length < 968 ∧ bytesToNatLE (bs.take 8) = k.n ∧ ∃ r2, readG1s 15 (bs.drop 8) = some (k.points, r2) := by
  unfold VKey.fromBytes? at h
  by_cases hlen : bs.length < 968
  · simp only [if_pos hlen, Option.bind_eq_bind, Option.bind_none] at h; cases h
  · refine ⟨hlen, ?_⟩
    have h8 : splitAt? bs 8 = some (bs.take 8, bs.drop 8) := splitAt?_eq_some (by omega)
    simp only [if_neg hlen, h8, Option.bind_eq_bind, Option.bind_some] at h
    cases hG : readG1s 15 (bs.drop 8) with
    | none => rw [hG] at h; cases h
    | some q =>
      obtain ⟨ps, r⟩ := q
      rw [hG, Option.bind_some] at h
      have l1 := (readG1s_decode hG).1
      match ps, l1, hG, h with
      | [qm, ql, qr, qo, qf, qc, qa, qlg, qrg, qfx, qv, s1, s2, s3, s4], _, hG, h =>
        simp only [Option.some.injEq] at h
        subst h
        exact ⟨rfl, r, rfl⟩

/-- verifier-key round trip -/
theorem VKey.fromBytes_toBytes {k : VKey} (hk : k.WF) : VKey.fromBytes? k.toBytes = some k := by
  have hl : (natToBytesLE k.n 8).length = 8 := natToBytesLE_length _ _
  have e : k.toBytes = natToBytesLE k.n 8 ++ (k.points.flatMap G1.toCompressed ++ List.replicate 240 0) := by
    rw [VKey.toBytes_eq, VKey.body, List.append_assoc]
  apply VKey.fromBytes?_of_reads (r2 := List.replicate 240 0)
  · rw [VKey.toBytes_length]; omega
  · rw [e, List.take_left' hl]; exact bytesToNatLE_natToBytesLE hk.1
  · rw [e, List.drop_left' hl]; exact readG1s_encode k.points _ hk.2

/-- verifier-key decoding is canonical on the 728 bytes it reads (the trailing 240 are ignored) -/
theorem VKey.fromBytes_canonical {bs : List Nat} {k : VKey} (hb : AllBytes bs)
    (h : VKey.fromBytes? bs = some k) : k.body = bs.take 728 := by
  obtain ⟨hlen, hn, r2, hG⟩ := VKey.fromBytes?_reads h
  obtain ⟨_, g2, g3, _, g5⟩ := readG1s_decode hG
  have e1 := g5 (hb.drop 8)
  have hl8 : (bs.take 8).length = 8 := by simp; omega
  have e0 : natToBytesLE k.n 8 = bs.take 8 := by
    rw [← hn]; have := natToBytesLE_bytesToNatLE (hb.take 8); rwa [hl8] at this
  have : bs = k.body ++ r2 := by
    unfold VKey.body
    rw [List.append_assoc, e1, e0, List.take_append_drop]
  conv_rhs => rw [this]
  rw [List.take_left' (VKey.body_length k)]

/-- what the verifier-key decoder accepts is well formed -/
theorem VKey.fromBytes_wf {bs : List Nat} {k : VKey} (h : VKey.fromBytes? bs = some k) :
    k.WF ∧ 968 ≤ bs.length := by
  obtain ⟨hlen, hn, r2, hG⟩ := VKey.fromBytes?_reads h
  refine ⟨⟨?_, (readG1s_decode hG).2.2.2.1⟩, by omega⟩
  rw [← hn]
  have := bytesToNatLE_lt (bs.take 8)
  have hl8 : (bs.take 8).length = 8 := by simp; omega
  rw [hl8] at this
  exact lt_of_lt_of_eq this (by norm_num)

/-! ### opening keys -/

theorem Fp2.beq_iff (a b : Fp2) : (a == b) = true ↔ a = b := by
  cases a; cases b
  simp [BEq.beq, instBEqFp2.beq]

theorem G2.beq_inf (p : G2) : (p == G2.inf) = true ↔ p = .inf := by
  cases p
  · simp [BEq.beq, instBEqG2.beq]
  · simp [BEq.beq, instBEqG2.beq]

theorem G1.beq_inf (p : G1) : (p == G1.inf) = true ↔ p = .inf := by
  cases p
  · simp [BEq.beq, instBEqG1.beq]
  · simp [BEq.beq, instBEqG1.beq]

theorem G2.fromCompressed?_some {bs : List Nat} {p : G2} (h : G2.fromCompressed? bs = some p) :
    G2.fromCompressedUnchecked? bs = some p ∧ p.torsionFree = true := by
  unfold G2.fromCompressed? at h
  split at h
  · next q hq =>
    split at h
    · next ht => have h := Option.some.inj h; subst h; exact ⟨hq, ht⟩
    · cases h
  · cases h

theorem G2.toCompressed_length (p : G2) : p.toCompressed.length = 96 := by
  cases p with
  | inf => simp [G2.toCompressed]
  | aff x y =>
    simp only [G2.toCompressed]
    split
    · next heq => have := congrArg List.length heq; simp at this
    · next b0 rest heq =>
      have := congrArg List.length heq
      simp only [List.length_append, natToBytesBE_length, List.length_cons] at this ⊢
      omega

theorem OpeningKeyM.toBytes_length (k : OpeningKeyM) : k.toBytes.length = 240 := by
  unfold OpeningKeyM.toBytes
  rw [List.length_append, List.length_append, G1.toCompressed_length, G2.toCompressed_length,
    G2.toCompressed_length]

theorem OpeningKeyM.fromBytes?_of_reads {bs : List Nat} {k : OpeningKeyM} (hlen : ¬ bs.length < 240)
    (hg : G1.fromCompressed? (bs.take 48) = some k.g)
    (hh : G2.fromCompressed? ((bs.drop 48).take 96) = some k.h)
    (hxh : G2.fromCompressed? ((bs.drop 144).take 96) = some k.xh)
    (hne : k.g ≠ .inf ∧ k.h ≠ .inf ∧ k.xh ≠ .inf) :
    OpeningKeyM.fromBytes? bs = some k := by
  unfold OpeningKeyM.fromBytes?
  have e1 : (k.g == G1.inf) = false := by rw [Bool.eq_false_iff, Ne, G1.beq_inf]; exact hne.1
  have e2 : (k.h == G2.inf) = false := by rw [Bool.eq_false_iff, Ne, G2.beq_inf]; exact hne.2.1
  have e3 : (k.xh == G2.inf) = false := by rw [Bool.eq_false_iff, Ne, G2.beq_inf]; exact hne.2.2
  simp only [if_neg hlen, hg, hh, hxh, Option.bind_eq_bind, Option.bind_some, e1, e2, e3, Bool.or_self,
    Bool.false_eq_true, if_false]

theorem OpeningKeyM.fromBytes?_reads {bs : List Nat} {k : OpeningKeyM} (h : OpeningKeyM.fromBytes? bs = some k) :
    ¬ bs.length < 240 ∧ G1.fromCompressed? (bs.take 48) = some k.g ∧
    G2.fromCompressed? ((bs.drop 48).take 96) = some k.h ∧
    G2.fromCompressed? ((bs.drop 144).take 96) = some k.xh ∧
    k.g ≠ .inf ∧ k.h ≠ .inf ∧ k.xh ≠ .inf := by
  unfold OpeningKeyM.fromBytes? at h
  by_cases hlen : bs.length < 240
  · simp only [if_pos hlen, Option.bind_eq_bind, Option.bind_none] at h; cases h
  · refine ⟨hlen, ?_⟩
    simp only [if_neg hlen, Option.bind_eq_bind] at h
    cases hg : G1.fromCompressed? (bs.take 48) with
    | none => rw [hg] at h; cases h
    | some g =>
      rw [hg, Option.bind_some] at h
      cases hh : G2.fromCompressed? ((bs.drop 48).take 96) with
      | none => rw [hh] at h; cases h
      | some hp =>
        rw [hh, Option.bind_some] at h
        cases hxh : G2.fromCompressed? ((bs.drop 144).take 96) with
        | none => rw [hxh] at h; cases h
        | some xh =>
          rw [hxh, Option.bind_some] at h
          split at h
          · simp only [Option.bind_none] at h; cases h
          · next hc =>
            have h := Option.some.inj h
            subst h
            simp only [Bool.or_eq_true, not_or, G1.beq_inf, G2.beq_inf] at hc
            exact ⟨rfl, rfl, rfl, hc.1.1, hc.1.2, hc.2⟩

/-- opening-key round trip.  The two `G2` points go through the `F_p²` square root of the external
    crate, which is modelled but not verified here: their own round trip is a hypothesis. -/
theorem OpeningKeyM.fromBytes_toBytes {k : OpeningKeyM} (hg : k.g.Valid ∧ k.g.torsionFree = true)
    (hh : G2.fromCompressed? k.h.toCompressed = some k.h)
    (hxh : G2.fromCompressed? k.xh.toCompressed = some k.xh)
    (hne : k.g ≠ .inf ∧ k.h ≠ .inf ∧ k.xh ≠ .inf) :
    OpeningKeyM.fromBytes? k.toBytes = some k := by
  have l1 := G1.toCompressed_length k.g
  have l2 := G2.toCompressed_length k.h
  have l3 := G2.toCompressed_length k.xh
  have e : k.toBytes = k.g.toCompressed ++ (k.h.toCompressed ++ k.xh.toCompressed) := by
    unfold OpeningKeyM.toBytes; rw [List.append_assoc]
  apply OpeningKeyM.fromBytes?_of_reads _ _ _ _ hne
  · rw [OpeningKeyM.toBytes_length]; omega
  · rw [e, List.take_left' l1]; exact G1.fromCompressed_toCompressed hg.1 hg.2
  · rw [e, List.drop_left' l1, List.take_left' l2]; exact hh
  · have : k.toBytes = (k.g.toCompressed ++ k.h.toCompressed) ++ k.xh.toCompressed := rfl
    rw [this, List.drop_left' (by rw [List.length_append, l1, l2]), ← l3, List.take_length]; exact hxh

/-- what the opening-key decoder accepts: a reduced, on-curve, prime-order `g`; prime-order `h`, `xh`;
    none of the three is the identity; 240 bytes were present -/
theorem OpeningKeyM.fromBytes_wf {bs : List Nat} {k : OpeningKeyM} (h : OpeningKeyM.fromBytes? bs = some k) :
    k.g.Valid ∧ k.g.torsionFree = true ∧ k.h.torsionFree = true ∧ k.xh.torsionFree = true ∧
    k.g ≠ .inf ∧ k.h ≠ .inf ∧ k.xh ≠ .inf ∧ 240 ≤ bs.length := by
  obtain ⟨hlen, hg, hh, hxh, n1, n2, n3⟩ := OpeningKeyM.fromBytes?_reads h
  obtain ⟨v, t⟩ := G1.fromCompressed_wf hg
  exact ⟨v, t, (G2.fromCompressed?_some hh).2, (G2.fromCompressed?_some hxh).2, n1, n2, n3, by omega⟩

/-! ### verifier -/

theorem u64be?_eq {bs : List Nat} (h : 8 ≤ bs.length) :
    u64be? bs = some (bytesToNatBE (bs.take 8), bs.drop 8) := by
  unfold u64be?; rw [splitAt?_eq_some h]; rfl

@[simp] theorem u64beBytes_length (n : Nat) : (u64beBytes n).length = 8 := natToBytesBE_length _ _

theorem u64be_val {n : Nat} (h : n < 2 ^ 64) : bytesToNatBE (u64beBytes n) = n :=
  bytesToNatBE_natToBytesBE (lt_of_lt_of_eq h (by norm_num))

theorem flatMap_u64beBytes_length (xs : List Nat) : (xs.flatMap u64beBytes).length = 8 * xs.length := by
  induction xs with
  | nil => rfl
  | cons p ps ih => rw [List.flatMap_cons, List.length_append, ih, u64beBytes_length, List.length_cons]; omega

/-- reading back the public-input index table -/
theorem piIndexes_read (xs : List Nat) (rest : List Nat) (hx : ∀ x ∈ xs, x < 2 ^ 64) :
    (List.range xs.length).map (fun i => bytesToNatBE (((xs.flatMap u64beBytes ++ rest).drop (8 * i)).take 8)) = xs := by
  induction xs with
  | nil => rfl
  | cons x xs ih =>
    rw [List.length_cons, List.range_succ_eq_map, List.map_cons, List.map_map, List.flatMap_cons, List.append_assoc]
    congr 1
    · rw [Nat.mul_zero, List.drop_zero, List.take_left' (u64beBytes_length x)]
      exact u64be_val (hx x (by simp))
    · refine Eq.trans ?_ (ih (fun y hy => hx y (List.mem_cons_of_mem _ hy)))
      apply List.map_congr_left
      intro i _
      simp only [Function.comp]
      have : 8 * (i + 1) = 8 + 8 * i := by omega
      rw [this, ← List.drop_drop, List.drop_left' (u64beBytes_length x)]

/-- the framing of `VerifierM.fromBytes`, all six header fields present -/
theorem VerifierM.fromBytes_header {bs : List Nat} (hlen : ¬ bs.length < 48) :
    VerifierM.fromBytes bs =
      (let labelLen := bytesToNatBE (bs.take 8)
       let vkLen := bytesToNatBE ((bs.drop 8).take 8)
       let okLen := bytesToNatBE ((bs.drop 16).take 8)
       let piLen := bytesToNatBE ((bs.drop 24).take 8)
       let size := bytesToNatBE ((bs.drop 32).take 8)
       let constraints := bytesToNatBE ((bs.drop 40).take 8)
       let r := bs.drop 48
       if piLen * 8 > USIZE_MAX then .error .notEnoughBytes else
       if labelLen + vkLen > USIZE_MAX then .error .notEnoughBytes else
       if labelLen + vkLen + okLen > USIZE_MAX then .error .notEnoughBytes else
       if labelLen + vkLen + okLen + piLen * 8 > USIZE_MAX then .error .notEnoughBytes else
       if r.length < labelLen + vkLen + okLen + piLen * 8 then .error .notEnoughBytes else
       match VKey.fromBytes? ((r.drop labelLen).take vkLen) with
       | none => .error .invalid
       | some vk =>
       match OpeningKeyM.fromBytes? (((r.drop labelLen).drop vkLen).take okLen) with
       | none => .error .invalid
       | some ok =>
         match Domain.new? vk.n with
         | none => .error .domain
         | some _ => .ok { label := r.take labelLen, vk := vk, ok := ok,
                           piIndexes := (List.range piLen).map fun i =>
                             bytesToNatBE ((((((r.drop labelLen).drop vkLen).drop okLen).take (piLen * 8)).drop (8 * i)).take 8),
                           size := size, constraints := constraints }) := by
  have h1 := u64be?_eq (bs := bs) (by omega)
  have h2 := u64be?_eq (bs := bs.drop 8) (by rw [List.length_drop]; omega)
  have h3 := u64be?_eq (bs := bs.drop 16) (by rw [List.length_drop]; omega)
  have h4 := u64be?_eq (bs := bs.drop 24) (by rw [List.length_drop]; omega)
  have h5 := u64be?_eq (bs := bs.drop 32) (by rw [List.length_drop]; omega)
  have h6 := u64be?_eq (bs := bs.drop 40) (by rw [List.length_drop]; omega)
  rw [List.drop_drop] at h2 h3 h4 h5 h6
  norm_num at h2 h3 h4 h5 h6
  unfold VerifierM.fromBytes
  simp only [if_neg hlen, h1, h2, h3, h4, h5, h6]
  generalize bytesToNatBE (List.take 8 bs) = labelLen
  generalize bytesToNatBE (List.take 8 (List.drop 8 bs)) = vkLen
  generalize bytesToNatBE (List.take 8 (List.drop 16 bs)) = okLen
  generalize bytesToNatBE (List.take 8 (List.drop 24 bs)) = piLen
  generalize List.drop 48 bs = r
  cases VKey.fromBytes? (List.take vkLen (List.drop labelLen r)) with
  | none => rfl
  | some vk =>
    cases OpeningKeyM.fromBytes? (List.take okLen (List.drop vkLen (List.drop labelLen r))) with
    | none => rfl
    | some ok =>
      cases Domain.new? vk.n with
      | none => rfl
      | some d => rfl

theorem USIZE_MAX_eq : USIZE_MAX = 18446744073709551615 := by decide

/-- fewer than 48 bytes: `notEnoughBytes` -/
theorem VerifierM.fromBytes_short {bs : List Nat} (h : bs.length < 48) :
    VerifierM.fromBytes bs = .error .notEnoughBytes := by
  unfold VerifierM.fromBytes; rw [if_pos h]

/-- the announced lengths exceed the input: exactly `notEnoughBytes`, before any payload is touched -/
theorem VerifierM.fromBytes_announced_too_long {bs : List Nat} (hlen : ¬ bs.length < 48)
    (h : (bs.drop 48).length < bytesToNatBE (bs.take 8) + bytesToNatBE ((bs.drop 8).take 8) +
      bytesToNatBE ((bs.drop 16).take 8) + bytesToNatBE ((bs.drop 24).take 8) * 8) :
    VerifierM.fromBytes bs = .error .notEnoughBytes := by
  rw [VerifierM.fromBytes_header hlen]
  simp only
  split
  · rfl
  · split
    · rfl
    · split
      · rfl
      · split
        · rfl
        · rfl

/-- inversion of a successful verifier decoding -/
theorem VerifierM.fromBytes_ok {bs : List Nat} {v : VerifierM} (h : VerifierM.fromBytes bs = .ok v) :
    48 ≤ bs.length ∧
    bytesToNatBE (bs.take 8) + bytesToNatBE ((bs.drop 8).take 8) + bytesToNatBE ((bs.drop 16).take 8) +
      bytesToNatBE ((bs.drop 24).take 8) * 8 ≤ (bs.drop 48).length ∧
    v.label = (bs.drop 48).take (bytesToNatBE (bs.take 8)) ∧
    VKey.fromBytes? (((bs.drop 48).drop (bytesToNatBE (bs.take 8))).take (bytesToNatBE ((bs.drop 8).take 8))) = some v.vk ∧
    OpeningKeyM.fromBytes? ((((bs.drop 48).drop (bytesToNatBE (bs.take 8))).drop (bytesToNatBE ((bs.drop 8).take 8))).take
      (bytesToNatBE ((bs.drop 16).take 8))) = some v.ok ∧
    v.piIndexes = (List.range (bytesToNatBE ((bs.drop 24).take 8))).map (fun i => bytesToNatBE
      (((((((bs.drop 48).drop (bytesToNatBE (bs.take 8))).drop (bytesToNatBE ((bs.drop 8).take 8))).drop
        (bytesToNatBE ((bs.drop 16).take 8))).take (bytesToNatBE ((bs.drop 24).take 8) * 8)).drop (8 * i)).take 8)) ∧
    v.size = bytesToNatBE ((bs.drop 32).take 8) ∧ v.constraints = bytesToNatBE ((bs.drop 40).take 8) ∧
    (Domain.new? v.vk.n).isSome = true := by
  by_cases hlen : bs.length < 48
  · rw [VerifierM.fromBytes_short hlen] at h; cases h
  · rw [VerifierM.fromBytes_header hlen] at h
    simp only at h
    refine ⟨by omega, ?_⟩
    split at h
    · cases h
    · split at h
      · cases h
      · split at h
        · cases h
        · split at h
          · cases h
          · split at h
            · cases h
            · next hreq =>
              refine ⟨by omega, ?_⟩
              split at h
              · cases h
              · next vk hvk =>
                split at h
                · cases h
                · next ok hok =>
                  split at h
                  · cases h
                  · next d hd =>
                    have h := Except.ok.inj h
                    subst h
                    exact ⟨rfl, hvk, hok, rfl, rfl, rfl, by rw [hd]; rfl⟩

theorem header_parts (a1 a2 a3 a4 a5 a6 t : List Nat) (l1 : a1.length = 8) (l2 : a2.length = 8)
    (l3 : a3.length = 8) (l4 : a4.length = 8) (l5 : a5.length = 8) (l6 : a6.length = 8) :
    let bs := a1 ++ (a2 ++ (a3 ++ (a4 ++ (a5 ++ (a6 ++ t)))))
    bs.take 8 = a1 ∧ (bs.drop 8).take 8 = a2 ∧ (bs.drop 16).take 8 = a3 ∧ (bs.drop 24).take 8 = a4 ∧
    (bs.drop 32).take 8 = a5 ∧ (bs.drop 40).take 8 = a6 ∧ bs.drop 48 = t := by
  intro bs
  have d8 : bs.drop 8 = a2 ++ (a3 ++ (a4 ++ (a5 ++ (a6 ++ t)))) := List.drop_left' l1
  have d16 : bs.drop 16 = a3 ++ (a4 ++ (a5 ++ (a6 ++ t))) := by
    have : bs.drop 16 = (bs.drop 8).drop 8 := by rw [List.drop_drop]
    rw [this, d8]; exact List.drop_left' l2
  have d24 : bs.drop 24 = a4 ++ (a5 ++ (a6 ++ t)) := by
    have : bs.drop 24 = (bs.drop 16).drop 8 := by rw [List.drop_drop]
    rw [this, d16]; exact List.drop_left' l3
  have d32 : bs.drop 32 = a5 ++ (a6 ++ t) := by
    have : bs.drop 32 = (bs.drop 24).drop 8 := by rw [List.drop_drop]
    rw [this, d24]; exact List.drop_left' l4
  have d40 : bs.drop 40 = a6 ++ t := by
    have : bs.drop 40 = (bs.drop 32).drop 8 := by rw [List.drop_drop]
    rw [this, d32]; exact List.drop_left' l5
  have d48 : bs.drop 48 = t := by
    have : bs.drop 48 = (bs.drop 40).drop 8 := by rw [List.drop_drop]
    rw [this, d40]; exact List.drop_left' l6
  rw [d8, d16, d24, d32, d40, d48]
  exact ⟨List.take_left' l1, List.take_left' l2, List.take_left' l3, List.take_left' l4, List.take_left' l5,
    List.take_left' l6, rfl⟩

/-- verifier round trip.  Hypotheses: well-formed verifier key; the opening key decodes back (its `G2`
    part is not verified here); the key's domain exists (else `Verifier::new` fails); table entries and
    the two sizes fit `u64`; the total length fits `usize`. -/
theorem VerifierM.fromBytes_toBytes {v : VerifierM} (hvk : v.vk.WF)
    (hok : OpeningKeyM.fromBytes? v.ok.toBytes = some v.ok)
    (hd : (Domain.new? v.vk.n).isSome = true) (hpi : ∀ i ∈ v.piIndexes, i < 2 ^ 64)
    (hs : v.size < 2 ^ 64) (hc : v.constraints < 2 ^ 64)
    (hfit : v.label.length + 968 + 240 + 8 * v.piIndexes.length < 2 ^ 64) :
    VerifierM.fromBytes v.toBytes = .ok v := by
  have e : v.toBytes = u64beBytes v.label.length ++ (u64beBytes 968 ++ (u64beBytes 240 ++
      (u64beBytes v.piIndexes.length ++ (u64beBytes v.size ++ (u64beBytes v.constraints ++
      (v.label ++ (v.vk.toBytes ++ (v.ok.toBytes ++ (v.piIndexes.flatMap u64beBytes ++ []))))))))) := by
    unfold VerifierM.toBytes
    simp only [List.append_assoc, VKey.toBytes_length, OpeningKeyM.toBytes_length, List.append_nil]
  obtain ⟨p1, p2, p3, p4, p5, p6, p7⟩ := header_parts (u64beBytes v.label.length) (u64beBytes 968) (u64beBytes 240)
    (u64beBytes v.piIndexes.length) (u64beBytes v.size) (u64beBytes v.constraints)
    (v.label ++ (v.vk.toBytes ++ (v.ok.toBytes ++ (v.piIndexes.flatMap u64beBytes ++ []))))
    (by simp) (by simp) (by simp) (by simp) (by simp) (by simp)
  rw [← e] at p1 p2 p3 p4 p5 p6 p7
  have hlen : ¬ v.toBytes.length < 48 := by
    have := congrArg List.length p7
    rw [List.length_drop] at this
    intro hlt
    have h0 : v.toBytes.length - 48 = 0 := by omega
    rw [h0] at this
    have := this.symm
    simp only [List.length_append, VKey.toBytes_length] at this
    omega
  rw [VerifierM.fromBytes_header hlen]
  simp only
  rw [p1, p2, p3, p4, p5, p6, p7, u64be_val (by omega : v.label.length < 2 ^ 64), u64be_val (by norm_num : 968 < 2 ^ 64),
    u64be_val (by norm_num : 240 < 2 ^ 64), u64be_val (by omega : v.piIndexes.length < 2 ^ 64), u64be_val hs, u64be_val hc]
  have hl1 : (v.label ++ (v.vk.toBytes ++ (v.ok.toBytes ++ (v.piIndexes.flatMap u64beBytes ++ [])))).length =
      v.label.length + 968 + 240 + 8 * v.piIndexes.length := by
    simp only [List.length_append, VKey.toBytes_length, OpeningKeyM.toBytes_length, flatMap_u64beBytes_length,
      List.length_nil]
    omega
  rw [USIZE_MAX_eq, if_neg (by omega), if_neg (by omega), if_neg (by omega), if_neg (by omega),
    if_neg (by rw [hl1]; omega)]
  rw [List.drop_left' rfl, List.take_left' (VKey.toBytes_length _), List.drop_left' (VKey.toBytes_length _),
    List.take_left' (OpeningKeyM.toBytes_length _), List.drop_left' (OpeningKeyM.toBytes_length _),
    List.take_left' rfl, VKey.fromBytes_toBytes hvk, hok]
  simp only
  cases hdd : Domain.new? v.vk.n with
  | none => rw [hdd] at hd; cases hd
  | some d =>
    simp only
    have hpl : (v.piIndexes.flatMap u64beBytes ++ ([] : List Nat)).length = v.piIndexes.length * 8 := by
      rw [List.append_nil, flatMap_u64beBytes_length]; omega
    rw [← hpl, List.take_length, piIndexes_read v.piIndexes [] hpi]

end Plonk
