/-
  G1 group law, part 5: the points that the verifier's grouped MSM (`verifyTerms`) multiplies are
  points of the verifier key, of the proof, or the generator `g` — so well-formed (decoded) keys and
  proofs give term lists of valid subgroup points, and the model verifier's executable check is an
  equation in `E(F_p)[r]`.
-/
import Plonk.Proofs.G1GroupBridge

set_option Elab.async false

namespace Plonk

attribute [local irreducible] Domain.lagrangeAndPi

theorem linearizationTerms_points (k : VKey) (p : ProofM) (ch : Challenges) (zh l1 : Nat)
    {t : Nat × G1} (h : t ∈ linearizationTerms k p ch zh l1) : t.2 ∈ k.points ++ p.points := by
  unfold linearizationTerms at h
  simp only [List.mem_append, List.mem_cons, List.not_mem_nil, or_false] at h
  rcases h with (h | h | h | h | h | h) | h | h | h | h | h | h | h | h | h | h <;>
    (rw [h]; simp [VKey.points, ProofM.points])

theorem g1_mem_zip_snd {α β : Type} {l₁ : List α} {l₂ : List β} {t : α × β} (h : t ∈ l₁.zip l₂) :
    t.2 ∈ l₂ := by
  obtain ⟨a, b⟩ := t
  exact (List.of_mem_zip h).2

theorem verifyTermsCore_points (vkey : VKey) (g : G1) (d : Domain) (roots pis : List Nat)
    (p : ProofM) (ch : Challenges) (legacy : Bool) (l1 piEval : Nat) (right left : List (Nat × G1))
    (hc : verifyTermsCore vkey g d roots pis p ch legacy (some (l1, piEval)) = some (right, left)) :
    ∀ t, t ∈ right ∨ t ∈ left → t.2 ∈ vkey.points ++ p.points ++ [g] := by
  unfold verifyTermsCore at hc
  simp only [Option.some.injEq, Prod.mk.injEq] at hc
  obtain ⟨hc, hl⟩ := hc
  subst hc; subst hl
  intro t ht
  simp only [List.mem_append, List.mem_cons, List.not_mem_nil, or_false] at ht
  rcases ht with ((h | h) | h | h | h) | h | h
  · have := linearizationTerms_points _ _ _ _ _ h
    simp only [List.mem_append] at this ⊢
    exact Or.inl this
  · have h2 := g1_mem_zip_snd h
    cases legacy
    · simp only [Bool.false_eq_true, if_false, List.cons_append,
        List.nil_append, List.mem_cons, List.not_mem_nil, or_false] at h2
      rcases h2 with h2 | h2 | h2 | h2 | h2 | h2 | h2 | h2 | h2 | h2 | h2 <;>
        (rw [h2]; simp [VKey.points, ProofM.points])
    · simp only [if_true, List.append_nil, List.mem_cons, List.not_mem_nil, or_false] at h2
      rcases h2 with h2 | h2 | h2 | h2 | h2 | h2 | h2 <;>
        (rw [h2]; simp [VKey.points, ProofM.points])
  all_goals (rw [h]; simp [VKey.points, ProofM.points])

/-- every point of the verifier's term lists is a key point, a proof point or `g` -/
theorem verifyTerms_points (vkey : VKey) (g : G1) (d : Domain) (roots pis : List Nat)
    (p : ProofM) (ch : Challenges) (legacy : Bool) (right left : List (Nat × G1))
    (hc : verifyTerms vkey g d roots pis p ch legacy = some (right, left)) :
    ∀ t, t ∈ right ∨ t ∈ left → t.2 ∈ vkey.points ++ p.points ++ [g] := by
  rw [verifyTerms_eq_core] at hc
  generalize d.lagrangeAndPi roots pis ch.z = o at hc
  cases o with
  | none => exact absurd ((core_none_iff vkey g d roots pis p ch legacy none).1.mpr rfl) (by rw [hc]; simp)
  | some lp =>
    obtain ⟨l1, piEval⟩ := lp
    exact verifyTermsCore_points vkey g d roots pis p ch legacy l1 piEval right left hc

/-- well-formed key, proof and generator give term lists of valid subgroup points -/
theorem verifyTerms_wf (vkey : VKey) (g : G1) (d : Domain) (roots pis : List Nat)
    (p : ProofM) (ch : Challenges) (legacy : Bool) (right left : List (Nat × G1))
    (hc : verifyTerms vkey g d roots pis p ch legacy = some (right, left))
    (hk : vkey.WF) (hp : p.WF) (hg : g.Valid ∧ g.torsionFree = true) :
    ∀ t, t ∈ right ∨ t ∈ left → t.2.Valid ∧ t.2.torsionFree = true := by
  intro t ht
  have := verifyTerms_points vkey g d roots pis p ch legacy right left hc t ht
  simp only [List.mem_append, List.mem_cons, List.not_mem_nil, or_false] at this
  rcases this with (h | h) | h
  · exact hk.2 _ h
  · exact hp.1 _ h
  · rw [h]; exact hg

/-- the two term lists are defined together -/
theorem verifyTerms_some_iff_ref (vkey : VKey) (g : G1) (d : Domain) (roots pis : List Nat) (p : ProofM)
    (ch : Challenges) (legacy : Bool) :
    (∃ rl, verifyTerms vkey g d roots pis p ch legacy = some rl) ↔
      ∃ ref, verifyRefTerms vkey g d roots pis p ch legacy = some ref := by
  obtain ⟨h1, h2⟩ := verifyTerms_none_iff vkey g d roots pis p ch legacy
  generalize verifyTerms vkey g d roots pis p ch legacy = a at h1
  generalize verifyRefTerms vkey g d roots pis p ch legacy = b at h2
  constructor
  · rintro ⟨rl, rfl⟩
    cases b with
    | none => exact absurd (h1.mpr (h2.mp rfl)) (by simp)
    | some ref => exact ⟨ref, rfl⟩
  · rintro ⟨ref, rfl⟩
    cases a with
    | none => exact absurd (h2.mpr (h1.mp rfl)) (by simp)
    | some rl => exact ⟨rl, rfl⟩

/-- **The model verifier accepts iff the textbook equation holds in `E(F_p)[r]`**
    (`x` = the trapdoor with which the model decides the pairing check; well-formed key, proof,
    generator — what the decoders guarantee). -/
theorem verify_ok_iff_group (v : VerifierM) {x : Nat} (hx : x < 2 ^ 256) (p : ProofM) (pis : List Nat)
    (ver : PVersion) (hk : v.vk.WF) (hp : p.WF) (hg : v.ok.g.Valid ∧ v.ok.g.torsionFree = true) :
    v.verify x p pis ver = .ok ↔
      pis.length = v.piIndexes.length ∧ ∃ d, Domain.new? v.vk.n = some d ∧ ∃ ref,
        verifyRefTerms v.vk v.ok.g d (v.piIndexes.map fun i => fpow d.groupGenInv (i % 2 ^ 64)) pis p
          (verifierChallenges v.label v.vk v.constraints (ver == .v3) pis p) (ver == .v1) = some ref ∧
        toF x • -(G1.ιR p.wz +
            toF (verifierChallenges v.label v.vk v.constraints (ver == .v3) pis p).u • G1.ιR p.wzw) +
          evalTerms G1.ιR ref = 0 := by
  rw [verify_ok_iff]
  constructor
  · rintro ⟨hlen, d, hd, right, left, hc, he⟩
    obtain ⟨ref, hr⟩ := (verifyTerms_some_iff_ref _ _ _ _ _ _ _ _).mp ⟨_, hc⟩
    have hw := verifyTerms_wf _ _ _ _ _ _ _ _ _ _ hc hk hp hg
    obtain ⟨e1, e2⟩ := verifyCode_eq_verifyRef G1.ιR _ _ _ _ _ _ _ _ _ _ _ hc hr
    refine ⟨hlen, d, hd, ref, hr, ?_⟩
    rw [← e1, ← e2]
    exact (G1.add_smul_msum_eq_inf_iff hx (fun t h => (hw t (Or.inr h)).1) (fun t h => (hw t (Or.inr h)).2)
      (fun t h => (hw t (Or.inl h)).1) (fun t h => (hw t (Or.inl h)).2)).mp he
  · rintro ⟨hlen, d, hd, ref, hr, he⟩
    obtain ⟨⟨right, left⟩, hc⟩ := (verifyTerms_some_iff_ref _ _ _ _ _ _ _ _).mpr ⟨_, hr⟩
    have hw := verifyTerms_wf _ _ _ _ _ _ _ _ _ _ hc hk hp hg
    obtain ⟨e1, e2⟩ := verifyCode_eq_verifyRef G1.ιR _ _ _ _ _ _ _ _ _ _ _ hc hr
    refine ⟨hlen, d, hd, right, left, hc, ?_⟩
    rw [← e1, ← e2] at he
    exact (G1.add_smul_msum_eq_inf_iff hx (fun t h => (hw t (Or.inr h)).1) (fun t h => (hw t (Or.inr h)).2)
      (fun t h => (hw t (Or.inl h)).1) (fun t h => (hw t (Or.inl h)).2)).mpr he

end Plonk
