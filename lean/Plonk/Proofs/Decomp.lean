/-
  C11 glue, part 2: `componentDecomposition` (and its local recursion `go`).

  Layout of `component_decomposition::<n>(x)` started in a state with `W = c.wit.size` witnesses:
  bit witness `j` is `W + 2j`, accumulator `j+1` is `W + 2j + 1` (accumulator 0 is the constant
  zero witness, index 0); `2n + 1` plain arithmetic gates (`boolean`, `gate_add` per round, then
  `assert_equal(acc_n, x)`), `2n` witnesses.
-/
import Plonk.Proofs.Trunc

namespace Plonk
open Plonk Plonk.Composer

/-- `DecompChain` only looks at `b i` for `i < N` and `acc i` for `i ≤ N` -/
theorem DecompChain_congr {N : Nat} {b b' acc acc' : Nat → F} {x x' : F}
    (hb : ∀ i < N, b i = b' i) (ha : ∀ i ≤ N, acc i = acc' i) (hx : x = x') :
    DecompChain N b acc x ↔ DecompChain N b' acc' x' := by
  subst hx
  unfold DecompChain
  constructor
  · rintro ⟨h1, h2, h3, h4⟩
    refine ⟨fun i hi => by rw [← hb i hi]; exact h1 i hi, by rw [← ha 0 (Nat.zero_le _)]; exact h2,
      fun i hi => ?_, by rw [← ha N (Nat.le_refl _)]; exact h4⟩
    rw [← ha (i + 1) (by omega), ← ha i (by omega), ← hb i hi]; exact h3 i hi
  · rintro ⟨h1, h2, h3, h4⟩
    refine ⟨fun i hi => by rw [hb i hi]; exact h1 i hi, by rw [ha 0 (Nat.zero_le _)]; exact h2,
      fun i hi => ?_, by rw [ha N (Nat.le_refl _)]; exact h4⟩
    rw [ha (i + 1) (by omega), ha i (by omega), hb i hi]; exact h3 i hi

namespace Composer

/-! ### one round of the fold -/

section step
variable (v i acc : Nat) (c : Composer)

/-- after allocating the bit witness (`= c.wit.size`) -/
def dstep1 : Composer := ((appendWitness (bit v i)).run c).2
/-- after `component_boolean(bit)` -/
def dstep2 : Composer := ((componentBoolean c.wit.size).run (dstep1 v i c)).2
/-- after `acc' := 2^i·bit + acc` (`acc' = c.wit.size + 1`) -/
def dstep : Composer :=
  ((gateAdd { ql := pow2 i, qr := 1, a := c.wit.size, b := acc }).run (dstep2 v i c)).2

theorem dstep1_appends : Appends c (dstep1 v i c) 0 1 := appendWitness_appends _ _
theorem dstep2_appends : Appends (dstep1 v i c) (dstep2 v i c) 1 0 := componentBoolean_appends _ _
theorem dstep3_appends : Appends (dstep2 v i c) (dstep v i acc c) 1 1 := gateAdd_appends _ _

theorem dstep_appends : Appends c (dstep v i acc c) 2 2 :=
  ((dstep1_appends v i c).trans (dstep2_appends v i c)).trans (dstep3_appends v i acc c)

theorem dstep1_wf (h : WF c) : WF (dstep1 v i c) := appendWitness_wf _ _ h
theorem dstep2_wf (h : WF c) : WF (dstep2 v i c) := componentBoolean_wf _ _ (dstep1_wf v i c h)
theorem dstep_wf (h : WF c) : WF (dstep v i acc c) := gateAdd_wf _ _ (dstep2_wf v i c h)

theorem dstep_wit_size : (dstep v i acc c).wit.size = c.wit.size + 2 := (dstep_appends v i acc c).wit
theorem dstep_gates_size : (dstep v i acc c).gates.size = c.gates.size + 2 :=
  (dstep_appends v i acc c).gates

theorem dstep2_wit_size : (dstep2 v i c).wit.size = c.wit.size + 1 := by
  have h1 := (dstep1_appends v i c).wit
  have h2 := (dstep2_appends v i c).wit
  omega

/-- rows of one round: the bit is Boolean and the new accumulator is `2^i·bit + acc` -/
theorem dstep_rows_iff (h : WF c) (w : Nat → Nat) :
    (dstep v i acc c).rowsHoldW w c.gates.size (dstep v i acc c).gates.size ↔
      (toF (w c.wit.size) * toF (w c.wit.size) = toF (w c.wit.size) ∧
       toF (w (c.wit.size + 1)) = (2 : F) ^ i * toF (w c.wit.size) + toF (w acc)) := by
  have A2 := dstep2_appends v i c
  have A3 := dstep3_appends v i acc c
  have e0 : (dstep1 v i c).gates.size = c.gates.size := rfl
  have r2 : (dstep2 v i c).rowsHoldW w (dstep1 v i c).gates.size (dstep2 v i c).gates.size ↔ _ :=
    componentBoolean_rows_iff_sq c.wit.size (dstep1 v i c) (dstep1_wf v i c h) w
  have r3 : (dstep v i acc c).rowsHoldW w (dstep2 v i c).gates.size (dstep v i acc c).gates.size ↔ _ :=
    gateAdd_rows_iff { ql := pow2 i, qr := 1, a := c.wit.size, b := acc } (dstep2 v i c)
      (dstep2_wf v i c h) w
  have hs := A2.rows_split A3 w
  rw [e0] at hs r2
  rw [hs, r2, r3, dstep2_wit_size]
  refine and_congr Iff.rfl ?_
  simp only [Constraint.evalF, Constraint.piF, toF_zero, toF_one, toF_pow2]
  constructor <;> intro h <;> simp at h ⊢ <;> linear_combination h

/-- the model's value of the bit witness -/
theorem dstep_val_bit : (dstep v i acc c).val c.wit.size = bit v i := by
  have e : Extends (dstep1 v i c) (dstep v i acc c) :=
    (dstep2_appends v i c).ext.trans (dstep3_appends v i acc c).ext
  have h1 := (dstep1_appends v i c).wit
  rw [e.val_eq (by omega)]
  have : (dstep1 v i c).val c.wit.size = bit v i % R := appendWitness_val _ _
  rw [this]
  have := bit_le_one v i
  have := R_gt_one
  exact Nat.mod_eq_of_lt (by omega)

/-- the model's own table satisfies the rows of one round (read in any later state) -/
theorem dstep_honest_ext (h : WF c) (hacc : acc < c.wit.size) {c'' : Composer}
    (hext : Extends (dstep v i acc c) c'') :
    (dstep v i acc c).rowsHoldW c''.val c.gates.size (dstep v i acc c).gates.size := by
  have A1 := dstep1_appends v i c
  have A2 := dstep2_appends v i c
  have A3 := dstep3_appends v i acc c
  have e0 : (dstep1 v i c).gates.size = c.gates.size := rfl
  have hs := A2.rows_split A3 c''.val
  rw [e0] at hs
  have w1 := A1.wit
  have w2 := dstep2_wit_size v i c
  rw [hs]
  constructor
  · have hb : (dstep1 v i c).val c.wit.size = bit v i % R := appendWitness_val _ _
    have hle := bit_le_one v i
    have hR := R_gt_one
    rw [Nat.mod_eq_of_lt (by omega)] at hb
    have := componentBoolean_honest_ext c.wit.size (dstep1 v i c) (dstep1_wf v i c h) (by omega)
      (by rw [hb]; omega) (A3.ext.trans hext)
    rw [e0] at this
    exact this
  · exact gateAdd_honest_ext { ql := pow2 i, qr := 1, a := c.wit.size, b := acc } (dstep2 v i c)
      (dstep2_wf v i c h) (fun _ => rfl) (by show c.wit.size < _; omega) (by show acc < _; omega)
      (by show 0 < _; omega) hext

theorem dstep_layout {c1 c2 : Composer} (h : SameLayout c1 c2) (v1 v2 : Nat) :
    SameLayout (dstep v1 i acc c1) (dstep v2 i acc c2) := by
  have l1 : SameLayout (dstep1 v1 i c1) (dstep1 v2 i c2) := appendWitness_layout h _ _
  have l2 : SameLayout (dstep2 v1 i c1) (dstep2 v2 i c2) := by
    unfold dstep2 componentBoolean; rw [h.wsize]; exact appendGate_layout l1 _
  unfold dstep; rw [h.wsize]; exact gateAdd_layout l2 _

end step

/-! ### the fold -/

theorem go_zero (v i acc : Nat) (bits : List Nat) (c : Composer) :
    (componentDecomposition.go v 0 i acc bits).run c = ((acc, bits.reverse), c) := rfl

theorem go_succ (v k i acc : Nat) (bits : List Nat) (c : Composer) :
    (componentDecomposition.go v (k + 1) i acc bits).run c =
      (componentDecomposition.go v k (i + 1) (c.wit.size + 1) (c.wit.size :: bits)).run
        (dstep v i acc c) := by
  have h1 : ((gateAdd { ql := pow2 i, qr := 1, a := c.wit.size, b := acc }).run
      (dstep2 v i c)).1 = c.wit.size + 1 := by
    rw [gateAdd_fst, dstep2_wit_size]
  rw [← h1]
  rfl

/-- final state of `k` rounds starting at bit position `i` with accumulator witness `acc` -/
def dfold (v : Nat) : Nat → Nat → Nat → Composer → Composer
  | 0, _, _, c => c
  | k + 1, i, acc, c => dfold v k (i + 1) (c.wit.size + 1) (dstep v i acc c)

/-- witness index of the accumulator after `j` rounds (`acc` before the first round) -/
def accIdx (acc W : Nat) : Nat → Nat
  | 0 => acc
  | j + 1 => W + 2 * j + 1

/-- the bit witnesses allocated by `k` rounds -/
def dbits (W : Nat) : Nat → List Nat
  | 0 => []
  | k + 1 => W :: dbits (W + 2) k

theorem dbits_eq_map (W k : Nat) : dbits W k = (List.range k).map (fun j => W + 2 * j) := by
  induction k generalizing W with
  | zero => rfl
  | succ k ih =>
    rw [dbits, ih, List.range_succ_eq_map, List.map_cons, List.map_map]
    refine congrArg₂ List.cons (by omega) ?_
    apply List.map_congr_left
    intro j _
    simp only [Function.comp]
    omega

theorem accIdx_shift (acc W k : Nat) : accIdx (W + 1) (W + 2) k = accIdx acc W (k + 1) := by
  cases k with
  | zero => simp [accIdx]
  | succ k => simp only [accIdx]; omega

theorem accIdx_lt (W n : Nat) (hW : 0 < W) : accIdx 0 W n < W + 2 * n := by
  cases n with
  | zero => simp only [accIdx]; omega
  | succ m => simp only [accIdx]; omega

theorem go_run (v k i acc : Nat) (bits : List Nat) (c : Composer) :
    (componentDecomposition.go v k i acc bits).run c =
      ((accIdx acc c.wit.size k, bits.reverse ++ dbits c.wit.size k), dfold v k i acc c) := by
  induction k generalizing i acc bits c with
  | zero => rw [go_zero]; simp [accIdx, dbits, dfold]
  | succ k ih =>
    rw [go_succ, ih, dstep_wit_size, accIdx_shift acc]
    simp [dbits, dfold]

theorem dfold_appends (v k i acc : Nat) (c : Composer) :
    Appends c (dfold v k i acc c) (2 * k) (2 * k) := by
  induction k generalizing i acc c with
  | zero => exact Appends.refl c
  | succ k ih =>
    have := (dstep_appends v i acc c).trans (ih (i + 1) (c.wit.size + 1) (dstep v i acc c))
    have e : 2 * (k + 1) = 2 + 2 * k := by omega
    rw [e]; exact this

theorem dfold_wf (v k i acc : Nat) (c : Composer) (h : WF c) : WF (dfold v k i acc c) := by
  induction k generalizing i acc c with
  | zero => exact h
  | succ k ih => exact ih (i + 1) (c.wit.size + 1) (dstep v i acc c) (dstep_wf v i acc c h)

/-- the relation enforced by `k` rounds, following the recursion of the model -/
def goRel (w : Nat → Nat) : Nat → Nat → Nat → Nat → Prop
  | 0, _, _, _ => True
  | k + 1, i, acc, W =>
    (toF (w W) * toF (w W) = toF (w W) ∧
      toF (w (W + 1)) = (2 : F) ^ i * toF (w W) + toF (w acc)) ∧
    goRel w k (i + 1) (W + 1) (W + 2)

theorem dfold_rows_iff (v k i acc : Nat) (c : Composer) (h : WF c) (w : Nat → Nat) :
    (dfold v k i acc c).rowsHoldW w c.gates.size (dfold v k i acc c).gates.size ↔
      goRel w k i acc c.wit.size := by
  induction k generalizing i acc c with
  | zero =>
    simp only [dfold, goRel, iff_true]
    exact rowsHoldW_empty _ _ _
  | succ k ih =>
    have A1 := dstep_appends v i acc c
    have A2 := dfold_appends v k (i + 1) (c.wit.size + 1) (dstep v i acc c)
    have hs := A1.rows_split A2 w
    have ih' := ih (i + 1) (c.wit.size + 1) (dstep v i acc c) (dstep_wf v i acc c h)
    rw [dstep_wit_size] at ih'
    show (dfold v k (i + 1) (c.wit.size + 1) (dstep v i acc c)).rowsHoldW w c.gates.size
      (dfold v k (i + 1) (c.wit.size + 1) (dstep v i acc c)).gates.size ↔ _
    rw [hs, dstep_rows_iff v i acc c h w, ih']
    exact Iff.rfl

/-- field value of bit witness `j` -/
def dBitF (w : Nat → Nat) (W j : Nat) : F := toF (w (W + 2 * j))
/-- field value of accumulator `j` -/
def dAccF (w : Nat → Nat) (acc W j : Nat) : F := toF (w (accIdx acc W j))

theorem goRel_iff (w : Nat → Nat) (k i acc W : Nat) :
    goRel w k i acc W ↔
      ∀ j < k, (dBitF w W j * dBitF w W j = dBitF w W j ∧
        dAccF w acc W (j + 1) = (2 : F) ^ (i + j) * dBitF w W j + dAccF w acc W j) := by
  induction k generalizing i acc W with
  | zero => simp [goRel]
  | succ k ih =>
    rw [goRel, ih, Nat.forall_lt_succ_left]
    refine and_congr ?_ (forall_congr' fun j => imp_congr_right fun _ => ?_)
    · simp [dBitF, dAccF, accIdx]
    · have e1 : W + 2 + 2 * j = W + 2 * (j + 1) := by omega
      have e2 : accIdx (W + 1) (W + 2) (j + 1) = accIdx acc W (j + 1 + 1) :=
        accIdx_shift acc W (j + 1)
      have e3 : accIdx (W + 1) (W + 2) j = accIdx acc W (j + 1) := accIdx_shift acc W j
      have e4 : i + 1 + j = i + (j + 1) := by omega
      simp only [dBitF, dAccF, e1, e2, e3, e4]

/-- the rows of the fold from the zero accumulator, plus the closing equality, are exactly the
    math-level `DecompChain` -/
theorem chain_iff (w : Nat → Nat) (n W : Nat) (x : F) (h0 : toF (w 0) = 0) :
    (goRel w n 0 0 W ∧ toF (w (accIdx 0 W n)) = x) ↔
      DecompChain n (dBitF w W) (dAccF w 0 W) x := by
  unfold DecompChain
  rw [goRel_iff]
  constructor
  · rintro ⟨h, hx⟩
    refine ⟨fun i hi => (h i hi).1, h0, fun i hi => ?_, hx⟩
    have := (h i hi).2
    rwa [Nat.zero_add] at this
  · rintro ⟨hb, -, hs, hx⟩
    refine ⟨fun j hj => ⟨hb j hj, ?_⟩, hx⟩
    rw [Nat.zero_add]; exact hs j hj

/-- values of the bit witnesses in the model's table -/
theorem dfold_val_bit (v k i acc : Nat) (c : Composer) (j : Nat) (hj : j < k) :
    (dfold v k i acc c).val (c.wit.size + 2 * j) = bit v (i + j) := by
  induction k generalizing i acc c j with
  | zero => omega
  | succ k ih =>
    show (dfold v k (i + 1) (c.wit.size + 1) (dstep v i acc c)).val _ = _
    cases j with
    | zero =>
      have e := (dfold_appends v k (i + 1) (c.wit.size + 1) (dstep v i acc c)).ext
      rw [e.val_eq (by rw [dstep_wit_size]; omega)]
      exact dstep_val_bit v i acc c
    | succ j =>
      have := ih (i + 1) (c.wit.size + 1) (dstep v i acc c) j (by omega)
      rw [dstep_wit_size] at this
      have e1 : c.wit.size + 2 * (j + 1) = c.wit.size + 2 + 2 * j := by omega
      have e2 : i + (j + 1) = i + 1 + j := by omega
      rw [e1, e2]; exact this

/-- the model's own table satisfies the rows of the fold (read in any later state) -/
theorem dfold_honest_ext (v k i acc : Nat) (c : Composer) (h : WF c) (hacc : acc < c.wit.size)
    {c'' : Composer} (hext : Extends (dfold v k i acc c) c'') :
    (dfold v k i acc c).rowsHoldW c''.val c.gates.size (dfold v k i acc c).gates.size := by
  induction k generalizing i acc c with
  | zero => exact rowsHoldW_empty _ _ _
  | succ k ih =>
    have A1 := dstep_appends v i acc c
    have A2 := dfold_appends v k (i + 1) (c.wit.size + 1) (dstep v i acc c)
    have hs := A1.rows_split A2 c''.val
    show (dfold v k (i + 1) (c.wit.size + 1) (dstep v i acc c)).rowsHoldW c''.val c.gates.size
      (dfold v k (i + 1) (c.wit.size + 1) (dstep v i acc c)).gates.size
    rw [hs]
    exact ⟨dstep_honest_ext v i acc c h hacc (A2.ext.trans hext),
      ih (i + 1) (c.wit.size + 1) (dstep v i acc c) (dstep_wf v i acc c h)
        (by rw [dstep_wit_size]; omega) hext⟩

theorem dfold_layout {c1 c2 : Composer} (h : SameLayout c1 c2) (v1 v2 k i acc : Nat) :
    SameLayout (dfold v1 k i acc c1) (dfold v2 k i acc c2) := by
  induction k generalizing i acc c1 c2 with
  | zero => exact h
  | succ k ih =>
    show SameLayout (dfold v1 k (i + 1) (c1.wit.size + 1) (dstep v1 i acc c1))
      (dfold v2 k (i + 1) (c2.wit.size + 1) (dstep v2 i acc c2))
    rw [h.wsize]
    exact ih (dstep_layout i acc h v1 v2) (i + 1) (c2.wit.size + 1)

/-! ### `component_decomposition` -/

section decomp
variable (n x : Nat) (c : Composer)

/-- final state of `component_decomposition::<n>(x)` -/
def dcomp : Composer :=
  ((assertEqual (accIdx 0 c.wit.size n) x).run (dfold (c.val x) n 0 0 c)).2

theorem componentDecomposition_run :
    (componentDecomposition n x).run c = (dbits c.wit.size n, dcomp n x c) := by
  unfold componentDecomposition dcomp
  simp only [run_bind', getVal_run, go_run, List.reverse_nil, List.nil_append]
  rfl

theorem componentDecomposition_fst :
    ((componentDecomposition n x).run c).1 = (List.range n).map (fun j => c.wit.size + 2 * j) := by
  rw [componentDecomposition_run, dbits_eq_map]

theorem componentDecomposition_getD (j : Nat) (hj : j < n) :
    ((componentDecomposition n x).run c).1.getD j 0 = c.wit.size + 2 * j := by
  rw [componentDecomposition_fst]
  simp [List.getD_eq_getElem?_getD, hj]

theorem componentDecomposition_snd : ((componentDecomposition n x).run c).2 = dcomp n x c := by
  rw [componentDecomposition_run]

local notation "DF" => dfold (c.val x) n 0 0 c
local notation "DC" => dcomp n x c

theorem dcomp_step1 : Appends c DF (2 * n) (2 * n) := dfold_appends _ _ _ _ _
theorem dcomp_step2 : Appends DF DC 1 0 := assertEqual_appends _ _ _
theorem dcomp_appends : Appends c DC (2 * n + 1) (2 * n) :=
  (dcomp_step1 n x c).trans (dcomp_step2 n x c)
theorem dcomp_wf (h : WF c) : WF DC := assertEqual_wf _ _ _ (dfold_wf _ _ _ _ _ h)

/-- **Rows of `component_decomposition::<n>`** under an arbitrary assignment (zero witness 0):
    exactly the math-level chain with `b j = w (W + 2j)`, `acc 0 = w 0`,
    `acc (j+1) = w (W + 2j + 1)`, `x = w x`. -/
theorem dcomp_rows_iff (h : WF c) (w : Nat → Nat) (h0 : toF (w 0) = 0) :
    (DC).rowsHoldW w c.gates.size (DC).gates.size ↔
      DecompChain n (dBitF w c.wit.size) (dAccF w 0 c.wit.size) (toF (w x)) := by
  have A1 := dcomp_step1 n x c
  have A2 := dcomp_step2 n x c
  have r2 : (DC).rowsHoldW w (DF).gates.size (DC).gates.size ↔ _ :=
    assertEqual_rows_iff (accIdx 0 c.wit.size n) x DF (dfold_wf _ _ _ _ _ h) w
  rw [A1.rows_split A2 w, dfold_rows_iff _ _ _ _ _ h w, r2]
  exact chain_iff w n c.wit.size (toF (w x)) h0

/-- the same, read in any later state -/
theorem dcomp_rows_iff_ext (h : WF c) {c'' : Composer} (hext : Extends DC c'') (w : Nat → Nat)
    (h0 : toF (w 0) = 0) :
    c''.rowsHoldW w c.gates.size (DC).gates.size ↔
      DecompChain n (dBitF w c.wit.size) (dAccF w 0 c.wit.size) (toF (w x)) := by
  rw [hext.rowsHoldW_of_plain w (Nat.le_refl _) (fun i hlo hhi => (dcomp_appends n x c).plain i hlo hhi)]
  exact dcomp_rows_iff n x c h w h0

theorem dcomp_sound (hn : n ≤ 254) (h : WF c) {c'' : Composer} (hext : Extends DC c'')
    (w : Nat → Nat) (h0 : toF (w 0) = 0)
    (hrows : c''.rowsHoldW w c.gates.size (DC).gates.size) :
    (toF (w x)).val < 2 ^ n ∧
    (∀ j < n, (toF (w (c.wit.size + 2 * j))).val = bit (toF (w x)).val j) ∧
    (∀ j < n, toF (w (c.wit.size + 2 * j + 1)) = toF ((toF (w x)).val % 2 ^ (j + 1))) := by
  have hch := (dcomp_rows_iff_ext n x c h hext w h0).mp hrows
  obtain ⟨_, hlt, hbits⟩ := decomp_sound n hn _ _ _ hch
  refine ⟨hlt, hbits, ?_⟩
  intro j hj
  have hacc := decomp_acc n _ _ _ hch (j + 1) (by omega)
  have hsum : ∑ k ∈ Finset.range (j + 1), (dBitF w c.wit.size k).val * 2 ^ k
      = ∑ k ∈ Finset.range (j + 1), bit (toF (w x)).val k * 2 ^ k := by
    apply Finset.sum_congr rfl
    intro k hk
    rw [hbits k (by have := Finset.mem_range.mp hk; omega)]
  rw [hsum, sum_bits_eq_mod] at hacc
  exact hacc

/-- value of the last accumulator in the model's table -/
theorem dfold_val_acc (h : WF c) (hx : x < c.wit.size) (hz : c.val 0 = 0) :
    toF ((DF).val (accIdx 0 c.wit.size n)) = toF (c.val x % 2 ^ n) := by
  have A1 := dcomp_step1 n x c
  have hrows := dfold_honest_ext (c.val x) n 0 0 c h (by omega) (Extends.refl DF)
  rw [dfold_rows_iff _ _ _ _ _ h] at hrows
  have h0 : toF ((DF).val 0) = 0 := by rw [A1.ext.val_eq (by omega), hz]; simp
  have hch := (chain_iff (DF).val n c.wit.size _ h0).mp ⟨hrows, rfl⟩
  have hacc := decomp_acc n _ _ _ hch n (Nat.le_refl _)
  have hsum : ∑ k ∈ Finset.range n, (dBitF (DF).val c.wit.size k).val * 2 ^ k
      = ∑ k ∈ Finset.range n, bit (c.val x) k * 2 ^ k := by
    apply Finset.sum_congr rfl
    intro k hk
    have hk := Finset.mem_range.mp hk
    have hb := dfold_val_bit (c.val x) n 0 0 c k hk
    rw [Nat.zero_add] at hb
    unfold dBitF
    rw [hb, val_toF_of_lt (by have := bit_le_one (c.val x) k; have := R_gt_one; omega)]
  rw [hsum, sum_bits_eq_mod] at hacc
  exact hacc

theorem dcomp_val_bit (j : Nat) (hj : j < n) : (DC).val (c.wit.size + 2 * j) = bit (c.val x) j := by
  have A1 := dcomp_step1 n x c
  rw [(dcomp_step2 n x c).ext.val_eq (by rw [A1.wit]; omega)]
  have := dfold_val_bit (c.val x) n 0 0 c j hj
  rwa [Nat.zero_add] at this

theorem dcomp_complete (h : WF c) (hx : x < c.wit.size) (hz : c.val 0 = 0)
    (hv : c.val x < 2 ^ n) {c'' : Composer} (hext : Extends DC c'') :
    c''.rowsHoldW c''.val c.gates.size (DC).gates.size := by
  have A1 := dcomp_step1 n x c
  have A2 := dcomp_step2 n x c
  rw [hext.rowsHoldW_of_plain _ (Nat.le_refl _)
    (fun i hlo hhi => (dcomp_appends n x c).plain i hlo hhi), A1.rows_split A2]
  have hwf := dfold_wf (c.val x) n 0 0 c h
  constructor
  · exact dfold_honest_ext (c.val x) n 0 0 c h (by omega) (A2.ext.trans hext)
  · have hidx : accIdx 0 c.wit.size n < (DF).wit.size := by
      rw [A1.wit]; exact accIdx_lt _ _ (by omega)
    refine assertEqual_honest_ext _ _ _ hwf hidx (by rw [A1.wit]; omega) ?_ hext
    apply (toF_inj_of_lt (hwf.val_lt _) (hwf.val_lt _)).mp
    rw [dfold_val_acc n x c h hx hz, A1.ext.val_eq hx, Nat.mod_eq_of_lt hv]

theorem dcomp_layout {c1 c2 : Composer} (h : SameLayout c1 c2) :
    SameLayout (dcomp n x c1) (dcomp n x c2) := by
  unfold dcomp assertEqual
  rw [h.wsize]
  exact appendGate_layout (dfold_layout h _ _ n 0 0) _

end decomp

/-! ### public statements -/

/-- `component_decomposition::<n>` appends `2n + 1` plain gates and `2n` witnesses; the returned
    bit witnesses are `W, W + 2, …, W + 2(n − 1)` (`W = c.wit.size`); `WF` is preserved. -/
theorem componentDecomposition_extends (n x : Nat) (c : Composer) :
    Appends c ((componentDecomposition n x).run c).2 (2 * n + 1) (2 * n) ∧
    (WF c → WF ((componentDecomposition n x).run c).2) ∧
    ((componentDecomposition n x).run c).1 = (List.range n).map (fun j => c.wit.size + 2 * j) := by
  refine ⟨?_, ?_, componentDecomposition_fst n x c⟩
  · rw [componentDecomposition_snd]; exact dcomp_appends n x c
  · rw [componentDecomposition_snd]; exact dcomp_wf n x c

theorem componentDecomposition_appends (n x : Nat) (c : Composer) :
    Appends c ((componentDecomposition n x).run c).2 (2 * n + 1) (2 * n) :=
  (componentDecomposition_extends n x c).1

theorem componentDecomposition_wf (n x : Nat) (c : Composer) (h : WF c) :
    WF ((componentDecomposition n x).run c).2 := (componentDecomposition_extends n x c).2.1 h

/-- rows ↔ math-level chain, in any later state -/
theorem componentDecomposition_rows_iff (n x : Nat) (c : Composer) (h : WF c) (c'' : Composer)
    (hext : Extends ((componentDecomposition n x).run c).2 c'') (w : Nat → Nat)
    (h0 : toF (w 0) = 0) :
    c''.rowsHoldW w c.gates.size ((componentDecomposition n x).run c).2.gates.size ↔
      DecompChain n (dBitF w c.wit.size) (dAccF w 0 c.wit.size) (toF (w x)) := by
  rw [componentDecomposition_snd] at hext ⊢
  exact dcomp_rows_iff_ext n x c h hext w h0

/-- **Soundness of `component_decomposition::<n>`**, `n ≤ 254`: for every assignment `w` with the
    zero witness at 0, if the appended rows hold (read in any later state) then the canonical
    value of `x` is below `2^n`, bit witness `j` carries bit `j` of that value, and accumulator
    `j + 1` carries the value modulo `2^(j+1)`. -/
theorem componentDecomposition_sound (n x : Nat) (c : Composer) (hn : n ≤ 254) (h : WF c)
    (c'' : Composer) (hext : Extends ((componentDecomposition n x).run c).2 c'') (w : Nat → Nat)
    (h0 : toF (w 0) = 0)
    (hrows : c''.rowsHoldW w c.gates.size ((componentDecomposition n x).run c).2.gates.size) :
    (toF (w x)).val < 2 ^ n ∧
    (∀ j < n, (toF (w (c.wit.size + 2 * j))).val = bit (toF (w x)).val j) ∧
    (∀ j < n, toF (w (c.wit.size + 2 * j + 1)) = toF ((toF (w x)).val % 2 ^ (j + 1))) := by
  rw [componentDecomposition_snd] at hext hrows
  exact dcomp_sound n x c hn h hext w h0 hrows

/-- field-level form of the bit equations -/
theorem componentDecomposition_sound_bits (n x : Nat) (c : Composer) (hn : n ≤ 254) (h : WF c)
    (c'' : Composer) (hext : Extends ((componentDecomposition n x).run c).2 c'') (w : Nat → Nat)
    (h0 : toF (w 0) = 0)
    (hrows : c''.rowsHoldW w c.gates.size ((componentDecomposition n x).run c).2.gates.size) :
    ∀ j < n, toF (w (c.wit.size + 2 * j)) = toF (bit (toF (w x)).val j) := by
  intro j hj
  have := (componentDecomposition_sound n x c hn h c'' hext w h0 hrows).2.1 j hj
  rw [← this, Plonk.toF_val]

/-- **Completeness of `component_decomposition::<n>`** (every `n`): if the model's value of the
    allocated input is below `2^n` (zero witness 0), the model's own table satisfies the appended
    rows (read in any later state), and bit witness `j` holds bit `j` of the value. -/
theorem componentDecomposition_complete (n x : Nat) (c : Composer) (h : WF c)
    (hx : x < c.wit.size) (hz : c.val 0 = 0) (hv : c.val x < 2 ^ n) (c'' : Composer)
    (hext : Extends ((componentDecomposition n x).run c).2 c'') :
    c''.rowsHoldW c''.val c.gates.size ((componentDecomposition n x).run c).2.gates.size ∧
    ∀ j < n, ((componentDecomposition n x).run c).2.val (c.wit.size + 2 * j) = bit (c.val x) j := by
  rw [componentDecomposition_snd] at hext ⊢
  exact ⟨dcomp_complete n x c h hx hz hv hext, dcomp_val_bit n x c⟩

theorem componentDecomposition_layout {c1 c2 : Composer} (h : SameLayout c1 c2) (n x : Nat) :
    SameLayout ((componentDecomposition n x).run c1).2 ((componentDecomposition n x).run c2).2 := by
  rw [componentDecomposition_snd, componentDecomposition_snd]; exact dcomp_layout n x h

/-- **Exact characterisation** of `component_decomposition::<n>` (`n ≤ 254`) for a fixed layout:
    for a canonical value `v` of the input and canonical values `β j` of the bit witnesses, a
    satisfying assignment with these values exists iff `v < 2^n` and `β` is the bit vector of `v`
    (so no other bit vector satisfies the component). -/
theorem decomposition_exact_core (n x : Nat) (c : Composer) (hn : n ≤ 254) (h : WF c)
    (hx : x < c.wit.size) (v : Nat) (β : Nat → Nat) (hv : v < R) (hβ : ∀ j < n, β j < R)
    (hx0 : x = 0 → v = 0) :
    (∃ w : Nat → Nat, w x = v ∧ w 0 = 0 ∧ (∀ j < n, w (c.wit.size + 2 * j) = β j) ∧
        ((componentDecomposition n x).run c).2.rowsHoldW w c.gates.size
          ((componentDecomposition n x).run c).2.gates.size) ↔
      (v < 2 ^ n ∧ ∀ j < n, β j = bit v j) := by
  constructor
  · rintro ⟨w, hwx, hw0, hwb, hrows⟩
    obtain ⟨h1, h2, -⟩ := componentDecomposition_sound n x c hn h _ (Extends.refl _) w
      (by rw [hw0]; simp) hrows
    rw [hwx, val_toF_of_lt hv] at h1 h2
    refine ⟨h1, fun j hj => ?_⟩
    have := h2 j hj
    rwa [hwb j hj, val_toF_of_lt (hβ j hj)] at this
  · rintro ⟨hlt, hbits⟩
    have hl2 := withValue_layout c x v
    have hwf2 := withValue_wf c x v h hv
    have hx2 : x < (withValue c x v).wit.size := by rw [← hl2.wsize]; exact hx
    have hvx : (withValue c x v).val x = v := withValue_val_self c x v hx
    obtain ⟨hrows, hb⟩ := componentDecomposition_complete n x (withValue c x v) hwf2 hx2
      (withValue_val_zero c x v hx0) (by rw [hvx]; exact hlt) _ (Extends.refl _)
    have hext := (componentDecomposition_appends n x (withValue c x v)).ext
    have hL := componentDecomposition_layout hl2 n x
    refine ⟨((componentDecomposition n x).run (withValue c x v)).2.val, ?_, ?_, ?_, ?_⟩
    · rw [hext.val_eq hx2, hvx]
    · rw [hext.val_eq (by omega), withValue_val_zero c x v hx0]
    · intro j hj
      rw [hl2.wsize, hb j hj, hvx, hbits j hj]
    · rw [hL.rowsHoldW_iff, hL.gates]; exact hrows

/-! ### the alias for `n ≥ 255` (known defect of `component_decomposition::<255|256>`) -/

/-- the state on which the alias is exhibited: `Composer::initialized()` plus one witness
    (index 6) holding 0 -/
def aliasBase : Composer := ((appendWitness 0).run initialized).2

theorem aliasBase_extends : Extends initialized aliasBase := extends_appendWitness 0 initialized
theorem aliasBase_wf : WF aliasBase := appendWitness_wf 0 _ initialized_wf
theorem aliasBase_wit_size : aliasBase.wit.size = 7 := by
  have : aliasBase.wit.size = _ := (appendWitness_appends 0 initialized).wit
  rw [initialized_wit_size] at this; exact this
theorem aliasBase_gates_size : aliasBase.gates.size = 4 := initialized_gates_size
theorem aliasBase_val_six : aliasBase.val 6 = 0 := by
  have : aliasBase.val initialized.wit.size = 0 % R := appendWitness_val 0 initialized
  rw [initialized_wit_size] at this; simpa using this
theorem aliasBase_val_zero : aliasBase.val 0 = 0 := by
  rw [aliasBase_extends.val_eq (by rw [initialized_wit_size]; omega)]; exact initialized_val_zero

/-- the aliasing assignment: old witnesses as in the model's table; bit witness `j` (index
    `7 + 2j`) carries bit `j` of `R`, accumulator `j + 1` (index `7 + 2j + 1`) carries
    `R mod 2^(j+1)` (reduced) -/
def aliasW (i : Nat) : Nat :=
  if i < 7 then aliasBase.val i
  else if (i - 7) % 2 = 0 then bit R ((i - 7) / 2) else (R % 2 ^ ((i - 7) / 2 + 1)) % R

theorem aliasW_old (i : Nat) (hi : i < 7) : aliasW i = aliasBase.val i := by
  unfold aliasW; rw [if_pos hi]

theorem aliasW_bit (j : Nat) : aliasW (7 + 2 * j) = bit R j := by
  unfold aliasW
  rw [if_neg (by omega), if_pos (by omega)]
  have : (7 + 2 * j - 7) / 2 = j := by omega
  rw [this]

theorem aliasW_acc (j : Nat) : aliasW (7 + 2 * j + 1) = R % 2 ^ (j + 1) % R := by
  unfold aliasW
  rw [if_neg (by omega), if_neg (by omega)]
  have : (7 + 2 * j + 1 - 7) / 2 = j := by omega
  rw [this]

theorem initialized_wires_lt : ∀ i < 4,
    (initialized.gateAt i).a < 6 ∧ (initialized.gateAt i).b < 6 ∧
    (initialized.gateAt i).c < 6 ∧ (initialized.gateAt i).d < 6 := by decide +kernel

/-- an assignment that agrees with the model's table on the six initial witnesses satisfies the
    four rows of `Composer::initialized()` -/
theorem initialized_rows_of_agree (w : Nat → Nat) (hw : ∀ i < 6, w i = initialized.val i) :
    initialized.rowsHoldW w 0 4 := by
  intro i _ hi
  obtain ⟨ha, hb, hc, hd⟩ := initialized_wires_lt i hi
  rw [rowHoldsW_congr_plain initialized w initialized.val i (initialized_plain i)
    ⟨hw _ ha, hw _ hb, hw _ hc, hw _ hd⟩ (by rw [initialized_gates_size]; exact hi)]
  exact initialized_honest i (Nat.zero_le _) hi

/-- **Uniqueness fails for `n ≥ 255`** (in particular for the two allowed widths 255 and 256):
    on `initialized` + one witness `x = 6` holding 0, `component_decomposition::<n>(x)` has two
    assignments that agree with the model's table on all pre-existing witnesses (`x ↦ 0`,
    zero witness `↦ 0`), satisfy *every* row of the circuit (the four rows of `initialized` and
    the `2n + 1` rows of the component), and whose first bit witnesses (index 7) differ: the
    honest all-zero bits, and the bits of `R`. -/
theorem decomposition_alias (n : Nat) (hn : 255 ≤ n) :
    ∃ w1 w2 : Nat → Nat,
      (∀ i < 7, w1 i = aliasBase.val i) ∧ (∀ i < 7, w2 i = aliasBase.val i) ∧
      w1 6 = 0 ∧ w2 6 = 0 ∧ w1 0 = 0 ∧ w2 0 = 0 ∧
      ((componentDecomposition n 6).run aliasBase).2.rowsHoldW w1 0
        ((componentDecomposition n 6).run aliasBase).2.gates.size ∧
      ((componentDecomposition n 6).run aliasBase).2.rowsHoldW w2 0
        ((componentDecomposition n 6).run aliasBase).2.gates.size ∧
      ((componentDecomposition n 6).run aliasBase).1.head? = some 7 ∧
      toF (w1 7) = 0 ∧ toF (w2 7) = 1 := by
  have hwf := aliasBase_wf
  have hW := aliasBase_wit_size
  have hG := aliasBase_gates_size
  have hA := componentDecomposition_appends n 6 aliasBase
  have hext0 : Extends initialized ((componentDecomposition n 6).run aliasBase).2 :=
    aliasBase_extends.trans hA.ext
  have hlt : aliasBase.val 6 < 2 ^ n := by rw [aliasBase_val_six]; positivity
  obtain ⟨hrows1, hbits1⟩ := componentDecomposition_complete n 6 aliasBase hwf (by omega)
    aliasBase_val_zero hlt _ (Extends.refl _)
  -- rows of `initialized`, for any assignment agreeing with the table on the old witnesses
  have hinit : ∀ w : Nat → Nat, (∀ i < 7, w i = aliasBase.val i) →
      ((componentDecomposition n 6).run aliasBase).2.rowsHoldW w 0 4 := by
    intro w hw
    rw [hext0.rowsHoldW_of_plain w (by rw [initialized_gates_size])
      (fun i _ _ => initialized_plain i)]
    refine initialized_rows_of_agree w (fun i hi => ?_)
    rw [hw i (by omega), aliasBase_extends.val_eq (by rw [initialized_wit_size]; exact hi)]
  have hsplit : ∀ w : Nat → Nat,
      ((componentDecomposition n 6).run aliasBase).2.rowsHoldW w 0
        ((componentDecomposition n 6).run aliasBase).2.gates.size ↔
      ((componentDecomposition n 6).run aliasBase).2.rowsHoldW w 0 4 ∧
      ((componentDecomposition n 6).run aliasBase).2.rowsHoldW w aliasBase.gates.size
        ((componentDecomposition n 6).run aliasBase).2.gates.size := by
    intro w
    rw [hG]
    exact rowsHoldW_split _ w (Nat.zero_le _) (by rw [hA.gates, hG]; omega)
  have hold1 : ∀ i < 7, ((componentDecomposition n 6).run aliasBase).2.val i = aliasBase.val i :=
    fun i hi => hA.ext.val_eq (by omega)
  -- the aliasing assignment satisfies the chain
  have h0 : toF (aliasW 0) = 0 := by rw [aliasW_old 0 (by omega), aliasBase_val_zero]; simp
  have hchain : DecompChain n (dBitF aliasW aliasBase.wit.size) (dAccF aliasW 0 aliasBase.wit.size)
      (toF (aliasW 6)) := by
    rw [hW]
    refine (DecompChain_congr (fun i _ => ?_) (fun i _ => ?_) ?_).mpr (decomp_alias_ge_255 n hn).2.1
    · show toF (aliasW (7 + 2 * i)) = _
      rw [aliasW_bit]
    · cases i with
      | zero =>
        show toF (aliasW 0) = _
        rw [h0]; simp [Nat.mod_one]
      | succ j =>
        show toF (aliasW (7 + 2 * j + 1)) = _
        rw [aliasW_acc, toF_mod]
    · rw [aliasW_old 6 (by omega), aliasBase_val_six]; simp
  have hrows2 := (componentDecomposition_rows_iff n 6 aliasBase hwf _ (Extends.refl _) aliasW h0).mpr
    hchain
  refine ⟨((componentDecomposition n 6).run aliasBase).2.val, aliasW, hold1,
    fun i hi => aliasW_old i hi, ?_, ?_, ?_, ?_, ?_, ?_, ?_, ?_, ?_⟩
  · rw [hold1 6 (by omega), aliasBase_val_six]
  · rw [aliasW_old 6 (by omega), aliasBase_val_six]
  · rw [hold1 0 (by omega), aliasBase_val_zero]
  · rw [aliasW_old 0 (by omega), aliasBase_val_zero]
  · exact (hsplit _).mpr ⟨hinit _ hold1, hrows1⟩
  · exact (hsplit _).mpr ⟨hinit _ (fun i hi => aliasW_old i hi), hrows2⟩
  · rw [componentDecomposition_fst, hW]
    obtain ⟨m, rfl⟩ : ∃ m, n = m + 1 := ⟨n - 1, by omega⟩
    simp [List.range_succ_eq_map]
  · have := hbits1 0 (by omega)
    rw [hW, aliasBase_val_six] at this
    have e : (7 + 2 * 0) = 7 := by omega
    rw [e] at this
    rw [this]; simp [bit]
  · have := aliasW_bit 0
    have e : (7 + 2 * 0) = 7 := by omega
    rw [e] at this
    rw [this, bit_R_zero]; simp

end Composer
end Plonk
