/-
  C05 (permutation half), part 7: the grand-product argument instantiated with the model's
  permutation `σ = sigmaFn lay` (the function tabulated by `sigmaMaps lay n`), the labels
  `id(col, i) = K_col · ω^i` and the position set `{0..3} × {0..n-1}`.
-/
import Plonk.Proofs.PermutationCosets
import Plonk.Proofs.PermutationCopy
import Plonk.Proofs.PermutationProduct
import Mathlib.Algebra.BigOperators.Intervals

namespace Plonk
namespace Perm

/-- the position set `{0..3} × {0..n-1}` -/
def posSet (n : Nat) : Finset Pos := Finset.range 4 ×ˢ Finset.range n

theorem mem_posSet (n : Nat) (p : Pos) : p ∈ posSet n ↔ p.1 < 4 ∧ p.2 < n := by
  simp [posSet, Finset.mem_product]

theorem posSet_card (n : Nat) : (posSet n).card = 4 * n := by
  simp [posSet, Finset.card_product]

/-- reading the model's table gives `σ` -/
theorem readS_sigmaMaps (c : Composer) (n : Nat) (p : Pos) (h1 : p.1 < 4) (h2 : p.2 < n) :
    ((sigmaMaps c n).getD p.1 #[]).getD p.2 p = sigmaFn c p := by
  rw [sigmaMaps_eq_table]
  simp [tableOf, Array.getD_eq_getD_getElem?, h1, h2]

/-- **(a)** `σ` maps the position set bijectively onto itself -/
theorem sigmaFn_bijOn (c : Composer) (n : Nat) (hn : c.gates.size ≤ n) :
    Set.BijOn (sigmaFn c) (posSet n : Set Pos) (posSet n : Set Pos) := by
  refine ⟨?_, (sigmaFn_injective c).injOn, ?_⟩
  · intro p hp
    have hp' := (mem_posSet n p).mp hp
    exact (mem_posSet n _).mpr (sigmaFn_mem_pos c n hn p hp'.1 hp'.2)
  · intro q hq
    obtain ⟨p, rfl⟩ := sigmaFn_surjective c q
    have hq' := (mem_posSet n _).mp hq
    exact ⟨p, (mem_posSet n p).mpr (sigmaFn_preimage_mem_pos c n hn p hq'.1 hq'.2), rfl⟩

theorem idLabel_injOn_posSet {ω : F} {k : Nat} (hk : k ≤ 32) (hω : IsPrimitiveRoot ω (2 ^ k)) :
    Set.InjOn (idLabel ω) (posSet (2 ^ k) : Set Pos) := by
  intro p hp q hq h
  have hp' := (mem_posSet _ p).mp hp
  have hq' := (mem_posSet _ q).mp hq
  exact idLabel_injOn hk hω hp'.1 hp'.2 hq'.1 hq'.2 h

/-- **soundness of the grand-product check for the model's permutation**: for wire values
    `val` (committed before `β` is drawn) there are at most `(4n)²` bad `β`; for any other `β`,
    agreement of the two products for more than `4n` values of `γ` forces `val ∘ σ = val`. -/
theorem perm_product_sound_model (lay : Composer) {k : Nat} (hk : k ≤ 32) (hn : lay.gates.size ≤ 2 ^ k)
    {ω : F} (hω : IsPrimitiveRoot ω (2 ^ k)) (val : Pos → F) :
    ∃ B : Finset F, B.card ≤ (4 * 2 ^ k) * (4 * 2 ^ k) ∧
      ∀ β, β ∉ B → ∀ Γ : Finset F, 4 * 2 ^ k < Γ.card →
        (∀ γ ∈ Γ, ∏ p ∈ posSet (2 ^ k), (val p + β * idLabel ω p + γ) =
                  ∏ p ∈ posSet (2 ^ k), (val p + β * idLabel ω (sigmaFn lay p) + γ)) →
        ∀ p, val (sigmaFn lay p) = val p := by
  classical
  obtain ⟨B, hB, h⟩ := perm_product_sound (posSet (2 ^ k)) val (idLabel ω) (sigmaFn lay)
    (fun p hp => (sigmaFn_bijOn lay _ hn).mapsTo hp) (idLabel_injOn_posSet hk hω)
  rw [posSet_card] at hB h
  refine ⟨B, hB, ?_⟩
  intro β hβ Γ hΓ hprod p
  by_cases hp : p ∈ posSet (2 ^ k)
  · exact h β hβ Γ hΓ hprod p hp
  · have : ¬ Active lay p := by
      intro ha
      exact hp ((mem_posSet _ p).mpr ⟨ha.1.1, Nat.lt_of_lt_of_le ha.1.2 hn⟩)
    rw [sigmaFn_of_not_active this]

/-- **completeness**: values that respect `σ` make the two products agree for all `β`, `γ` -/
theorem perm_product_complete_model (lay : Composer) (n : Nat) (hn : lay.gates.size ≤ n)
    (idl : Pos → F) (val : Pos → F) (hval : ∀ p, val (sigmaFn lay p) = val p) (β γ : F) :
    ∏ p ∈ posSet n, (val p + β * idl p + γ) = ∏ p ∈ posSet n, (val p + β * idl (sigmaFn lay p) + γ) := by
  have hb := sigmaFn_bijOn lay n hn
  exact perm_product_complete (posSet n) val idl (sigmaFn lay) (fun p hp => hb.mapsTo hp)
    hb.injOn hb.surjOn (fun p _ => hval p) β γ

/-- the chain down to the model's decision procedure: if the grand products built from the wire
    values of the proving-time composer `c` agree (good `β`, enough `γ`), then
    `copyViolation lay c = none` -/
theorem grand_product_no_copy_violation (lay c : Composer) {k : Nat} (hk : k ≤ 32)
    (hn : lay.gates.size ≤ 2 ^ k) {ω : F} (hω : IsPrimitiveRoot ω (2 ^ k))
    (hred : ∀ p, valAt c p < R) :
    ∃ B : Finset F, B.card ≤ (4 * 2 ^ k) * (4 * 2 ^ k) ∧
      ∀ β, β ∉ B → ∀ Γ : Finset F, 4 * 2 ^ k < Γ.card →
        (∀ γ ∈ Γ, ∏ p ∈ posSet (2 ^ k), (toF (valAt c p) + β * idLabel ω p + γ) =
                  ∏ p ∈ posSet (2 ^ k), (toF (valAt c p) + β * idLabel ω (sigmaFn lay p) + γ)) →
        Composer.copyViolation lay c = none := by
  obtain ⟨B, hB, h⟩ := perm_product_sound_model lay hk hn hω (fun p => toF (valAt c p))
  refine ⟨B, hB, ?_⟩
  intro β hβ Γ hΓ hprod
  have := h β hβ Γ hΓ hprod
  rw [copyViolation_eq_none_iff, ← respects_iff_const]
  intro p
  exact (toF_inj_of_lt (hred _) (hred _)).mp (this p)

/-! ### links to `compile` (the interpolated σ columns) and to `permVec` (row factors) -/

/-- column `col` of the model's table, as the list that `compile` interpolates -/
theorem sigmaMaps_column (c : Composer) (n col : Nat) (hcol : col < 4) :
    ((sigmaMaps c n).getD col #[]).toList = (List.range n).map fun i => sigmaFn c (col, i) := by
  rw [sigmaMaps_eq_table]
  simp [tableOf, Array.getD_eq_getD_getElem?, hcol]

/-- the evaluation vector of `s_sigma_{col+1}` built by `compile` -/
theorem sigma_column_evals (c : Composer) (n col : Nat) (hcol : col < 4) (roots : Array Nat) :
    ((sigmaMaps c n).getD col #[]).toList.map (fun (cc, i) => fmul (kOf cc) (roots.getD i 0)) =
      (List.range n).map fun i =>
        fmul (kOf (sigmaFn c (col, i)).1) (roots.getD (sigmaFn c (col, i)).2 0) := by
  rw [sigmaMaps_column c n col hcol, List.map_map]
  rfl

/-- the model's label `K_col · root_i` is `idLabel` when `root_i` represents `ω^i` -/
theorem toF_label (ω : F) (roots : Array Nat) (p : Pos) (h : toF (roots.getD p.2 0) = ω ^ p.2) :
    toF (fmul (kOf p.1) (roots.getD p.2 0)) = idLabel ω p := by
  rw [toF_fmul, h]; rfl

/-- a product over the position set is the product over the rows of the four column factors
    (the shape of `permVec`'s `nums` / `dens`) -/
theorem prod_posSet_rows (n : Nat) (f : Pos → F) :
    ∏ p ∈ posSet n, f p = ∏ i ∈ Finset.range n, (f (0, i) * f (1, i) * f (2, i) * f (3, i)) := by
  unfold posSet
  rw [Finset.prod_product_right]
  refine Finset.prod_congr rfl (fun i _ => ?_)
  simp [Finset.prod_range_succ]

/-- the row numerator of `compute_permutation_vec` (the expression of the model's `permVec`) is
    the product of the four identity-side factors of that row -/
theorem toF_permVec_num (ω : F) (a b c d root beta gamma i : Nat) (h : toF root = ω ^ i) :
    toF (fmul (fmul (fmul (fadd (fadd a (fmul beta root)) gamma)
          (fadd (fadd b (fmul (fmul beta root) Generated.K1)) gamma))
          (fadd (fadd c (fmul (fmul beta root) Generated.K2)) gamma))
          (fadd (fadd d (fmul (fmul beta root) Generated.K3)) gamma)) =
      (toF a + toF beta * idLabel ω (0, i) + toF gamma) * (toF b + toF beta * idLabel ω (1, i) + toF gamma) *
      (toF c + toF beta * idLabel ω (2, i) + toF gamma) * (toF d + toF beta * idLabel ω (3, i) + toF gamma) := by
  simp only [toF_fmul, toF_fadd, idLabel, h]
  have e0 : toF (kOf 0) = 1 := by show toF 1 = 1; exact toF_one
  have e1 : kOf 1 = Generated.K1 := rfl
  have e2 : kOf 2 = Generated.K2 := rfl
  have e3 : kOf 3 = Generated.K3 := rfl
  rw [e0, e1, e2, e3]
  ring

/-- the row denominator of `compute_permutation_vec` is the product of the four σ-side factors -/
theorem toF_permVec_den (a b c d s0 s1 s2 s3 beta gamma : Nat) :
    toF (fmul (fmul (fmul (fadd (fadd a (fmul beta s0)) gamma) (fadd (fadd b (fmul beta s1)) gamma))
          (fadd (fadd c (fmul beta s2)) gamma)) (fadd (fadd d (fmul beta s3)) gamma)) =
      (toF a + toF beta * toF s0 + toF gamma) * (toF b + toF beta * toF s1 + toF gamma) *
      (toF c + toF beta * toF s2 + toF gamma) * (toF d + toF beta * toF s3 + toF gamma) := by
  simp only [toF_fmul, toF_fadd]

end Perm
end Plonk
