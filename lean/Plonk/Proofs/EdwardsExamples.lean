/-
  Non-vacuity witnesses for the hypotheses used in `Edwards.lean`, `EdwardsRows.lean`,
  `FixedBaseRows.lean`: a concrete prime-order curve point (`v = 18`), and concrete satisfied /
  violated rows, all evaluated by the kernel on the model's own functions.
-/
import Plonk.Proofs.EdwardsRows
import Plonk.Proofs.FixedBaseRows

namespace Plonk
open Plonk

/-- a concrete JubJub point with `v = 18` (prime order `r_J`) -/
def exG : Pt := (0x341b2606e5f117a1413de7daf9cb0b1f257ee8e102920711b20847ff13841537, 18)

theorem exG_on_curve : onCurve exG = true := by decide +kernel

theorem exG_lt : exG.1 < R ∧ exG.2 < R := by decide +kernel

/-- the curve hypothesis of every lemma is satisfiable on a non-identity point -/
example : OnCurveP (toFP exG) := (onCurve_iff_P exG).mp exG_on_curve

/-- off-curve points exist (so `onCurve` hypotheses are not trivially true) -/
example : onCurve (1, 1) = false := by decide +kernel

/-- doubling `exG`: no identity fallback, result on the curve, and not the identity -/
example : edAdd? exG exG = some (edAddOrId exG exG) := edAdd?_on_curve _ _ exG_on_curve exG_on_curve
example : onCurve (edAddOrId exG exG) = true := edAddOrId_on_curve _ _ exG_on_curve exG_on_curve
example : edAddOrId exG exG ≠ Pt.id := by decide +kernel

/-- the variable-base row is satisfied by the host's assignment … -/
example : allZero (varComps exG.1 (edAddOrId exG exG).1 exG.2 (edAddOrId exG exG).2 exG.1 exG.2
    (fmul exG.1 exG.2)) = true :=
  varComps_honest exG.1 exG.2 exG.1 exG.2 exG_on_curve exG_on_curve

/-- … and violated by a wrong helper wire or a wrong output -/
example : allZero (varComps exG.1 (edAddOrId exG exG).1 exG.2 (edAddOrId exG exG).2 exG.1 exG.2
    (fadd (fmul exG.1 exG.2) 1)) = false := by decide +kernel
example : allZero (varComps exG.1 exG.1 exG.2 exG.2 exG.1 exG.2 (fmul exG.1 exG.2)) = false := by
  decide +kernel

/-- fixed-base row with digit `−1` from the accumulator `exG + exG`, scalar accumulator `5 ↦ 9`:
    satisfied by `acc' = acc + (−G)`, `xy_α = −x_G·y_G` -/
example :
    allZero (fixedComps exG.1 exG.2 (fmul exG.1 exG.2)
      (edAddOrId exG exG).1 (edAddOrId (edAddOrId exG exG) (edNeg exG)).1
      (edAddOrId exG exG).2 (edAddOrId (edAddOrId exG exG) (edNeg exG)).2
      (fmul (edNeg exG).1 (edNeg exG).2) 5 9) = true := by decide +kernel

/-- … digit `2` is rejected -/
example :
    allZero (fixedComps exG.1 exG.2 (fmul exG.1 exG.2)
      (edAddOrId exG exG).1 (edAddOrId (edAddOrId exG exG) (edNeg exG)).1
      (edAddOrId exG exG).2 (edAddOrId (edAddOrId exG exG) (edNeg exG)).2
      (fmul (edNeg exG).1 (edNeg exG).2) 5 12) = false := by decide +kernel

/-- a pole of the affine law exists off the curve: `edAdd?` can return `none`, so the
    completeness theorem `edAdd?_on_curve` is not vacuous.  (`(1, 1)` and `(x, y)` with
    `d·x·y = −1`.) -/
example : ∃ p q : Pt, edAdd? p q = none :=
  ⟨(1, 1), (fneg (finv EDWARDS_D), 1), by decide +kernel⟩

end Plonk
